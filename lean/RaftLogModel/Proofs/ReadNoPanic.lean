/-
C16 for reads: under the replay invariant (`RInv`, C02 — `truncate` allowed,
kept across clean restarts) every index entry points at an `Append` record of
the retained journal. A lookup that misses the cache therefore finds no closed
chunk (`err notFound`: the record is still in the open chunk), a short file
(`err eof`: not written yet), or exactly the bytes of the entry's own `Append`
record, which decode to it — never the `panic` branches of `loadPayload`.
-/
import RaftLogModel.Proofs.ReplayRestart
namespace RaftLog

/-! ### Where index entries come from -/

theorem idxLogO_srcRN {r : Record} {chunk : Nat} {seg : Seg} {l l' : Log}
    (h : idxLogO r chunk seg l = some l') :
    ∀ e ∈ l', e ∈ l ∨ ∃ p, opAt e p = ⟨r, chunk, seg⟩ := by
  intro e he
  cases r with
  | saveVote v => simp only [idxLogO, Option.some.injEq] at h; subst h; exact .inl he
  | commit id => simp only [idxLogO, Option.some.injEq] at h; subst h; exact .inl he
  | state x => simp only [idxLogO, Option.some.injEq] at h; subst h; exact .inl he
  | append id p =>
    simp only [idxLogO, Option.some.injEq] at h; subst h
    rcases mem_logInsert he with h1 | h1
    · right
      subst h1
      exact ⟨p, rfl⟩
    · exact .inl h1
  | truncateAfter o =>
    simp only [idxLogO] at h
    split at h
    · cases h
    · simp only [Option.some.injEq] at h; subst h
      exact .inl (List.mem_filter.mp he).1
  | purgeUpto id =>
    simp only [idxLogO] at h
    split at h
    · cases h
    · simp only [Option.some.injEq] at h; subst h
      exact .inl (List.mem_filter.mp he).1

/-- Every entry of the index map after a run was there before or was inserted
by an `Append` record of the run, whose chunk and segment it carries. -/
theorem idxRun_srcRN {ops : List JOp} {l l' : Log} (h : idxRun ops l = some l') :
    ∀ e ∈ l', e ∈ l ∨ ∃ p, opAt e p ∈ ops := by
  induction ops generalizing l with
  | nil =>
    simp only [idxRun, Option.some.injEq] at h; subst h
    exact fun e he => .inl he
  | cons op ops ih =>
    simp only [idxRun] at h
    split at h
    · cases h
    · rename_i l1 h1
      intro e he
      rcases ih h e he with h2 | ⟨p, hp⟩
      · rcases idxLogO_srcRN h1 e h2 with h3 | ⟨p, hp⟩
        · exact .inl h3
        · exact .inr ⟨p, by rw [hp]; exact List.mem_cons_self⟩
      · exact .inr ⟨p, List.mem_cons_of_mem _ hp⟩

/-- A record of a chunk sits in the chunk's encoding at its segment. -/
theorem opsFrom_locatedRN {chunk start : Nat} {rs : List Record} {op : JOp}
    (h : op ∈ opsFrom chunk start rs) :
    ∃ pre post, encAll rs = pre ++ encRecord op.r ++ post ∧ start + pre.length = op.seg.off ∧
      op.seg.size = (encRecord op.r).length ∧ op.chunk = chunk ∧ op.r ∈ rs := by
  induction rs generalizing start with
  | nil => cases h
  | cons r rs ih =>
    simp only [opsFrom, List.mem_cons] at h
    rcases h with e | e
    · subst e
      exact ⟨[], encAll rs, by simp [encAll_cons], by simp, rfl, rfl, List.mem_cons_self⟩
    · obtain ⟨pre, post, h1, h2, h3, h4, h5⟩ := ih e
      refine ⟨encRecord r ++ pre, post, ?_, ?_, h3, h4, List.mem_cons_of_mem _ h5⟩
      · rw [encAll_cons, h1]; simp
      · rw [List.length_append]; omega

/-! ### Slices of a prefix -/

theorem slice_of_prefixRN {a b pre mid post : Bytes} (h : a ++ b = pre ++ mid ++ post)
    (hlen : pre.length + mid.length ≤ a.length) :
    (a.drop pre.length).take mid.length = mid := by
  have h1 : (a ++ b).take (pre.length + mid.length) = a.take (pre.length + mid.length) :=
    List.take_append_of_le_length hlen
  have h2 : (pre ++ mid ++ post).take (pre.length + mid.length) = pre ++ mid := by
    rw [List.take_append_of_le_length (by simp)]
    rw [List.take_of_length_le (by simp)]
  rw [h, h2] at h1
  have h3 : (a.drop pre.length).take mid.length = (a.take (pre.length + mid.length)).drop pre.length := by
    rw [List.drop_take]
    simp
  rw [h3, ← h1]
  simp

/-! ### One lookup -/

/-- The possible results of a lookup that misses the cache. -/
def LookupOK (r : RefLog) (closed : List Closed) (fs : Fs) (d : LogData) : Prop :=
  loadPayload closed fs d = .err .notFound ∨ loadPayload closed fs d = .err .eof ∨
    ∃ p, (d.id, p) ∈ r.entries ∧ loadPayload closed fs d = .ok d.id p

theorem loadPayload_openRN {s : Store} {fs : Fs} {w : Worker} (hj : JInv s fs w) (d : LogData)
    (hd : d.chunk = s.openId) : loadPayload s.closed fs d = .err .notFound := by
  unfold loadPayload
  have : s.closed.find? (fun c => c.id == d.chunk) = none := by
    apply List.find?_eq_none.mpr
    intro c hc
    have := hj.closed_lt hc
    simp only [beq_iff_eq]
    omega
  rw [this]

/-- The bytes of the chunk file are a prefix of a byte string that holds the
encoding of `Append d.id p` at `[d.off - d.chunk, + d.size)`: the lookup returns
`notFound`, `eof` or the payload `p`. -/
theorem loadPayload_prefixRN {closed : List Closed} {fs : Fs} {d : LogData} {p : Bytes}
    {extra pre post : Bytes} (hwf : (Record.append d.id p).WF)
    (hbytes : fdata fs d.chunk ++ extra = pre ++ encRecord (.append d.id p) ++ post)
    (hoff : d.chunk + pre.length = d.off) (hsz : d.size = (encRecord (.append d.id p)).length) :
    loadPayload closed fs d = .err .notFound ∨ loadPayload closed fs d = .err .eof ∨
      loadPayload closed fs d = .ok d.id p := by
  unfold loadPayload
  cases hfind : closed.find? (fun c => c.id == d.chunk) with
  | none => exact .inl rfl
  | some c =>
    right
    have hcid : c.id = d.chunk := by simpa using List.find?_some hfind
    simp only [hcid]
    unfold Fs.readAt
    cases hf : fs.find d.chunk with
    | none => exact .inl rfl
    | some f =>
      simp only
      by_cases hle : d.off - d.chunk + d.size ≤ f.data.length
      · right
        rw [if_pos hle]
        simp only
        have hfd : fdata fs d.chunk = f.data := by unfold fdata; rw [hf]
        rw [hfd] at hbytes
        have hpre : d.off - d.chunk = pre.length := by omega
        have hslice := slice_of_prefixRN hbytes (by rw [← hpre, ← hsz]; exact hle)
        rw [hpre, hsz, hslice]
        have hrt := record_rt (.append d.id p) [] hwf
        rw [List.append_nil] at hrt
        rw [hrt]
        simp
      · left
        rw [if_neg hle]

/-- **Every index entry of a store under the replay invariant looks up
safely.** -/
theorem RInv.lookupOK {s : Store} {fs : Fs} {w : Worker} {r : RefLog} (h : RInv s fs w r) :
    ∀ x ∈ s.log, LookupOK r s.closed fs x.2 := by
  obtain ⟨jc, jo, g, gp, _⟩ := h.rep
  obtain ⟨stC, lC, g1, _, g3, _⟩ := g.run
  have hrun : idxRun (allOps s jc jo) [] = some s.log := by
    unfold allOps
    rw [idxRun_append, g1.idx]; exact g3
  intro x hx
  rcases idxRun_srcRN hrun x hx with h0 | ⟨p, hp⟩
  · cases h0
  have hent : (x.2.id, p) ∈ r.entries := gp x hx p hp
  unfold allOps at hp
  rcases List.mem_append.mp hp with h1 | h1
  · -- a closed chunk
    obtain ⟨q, hq, hop⟩ := mem_flatOps.mp h1
    obtain ⟨pre, post, k1, k2, k3, k4, k5⟩ := opsFrom_locatedRN hop
    simp only [opAt] at k1 k2 k3 k4 k5
    obtain ⟨hwf, _, _, hb⟩ := g.closedRecs q hq
    have hbytes : fdata fs x.2.chunk ++ (w.inflight x.2.chunk ++
        (if s.openId = x.2.chunk then s.pending else [])) =
        pre ++ encRecord (.append x.2.id p) ++ post := by
      rw [← k1, ← hb, k4]
      simp [chunkBytes]
    rcases loadPayload_prefixRN (closed := s.closed) (hwf _ k5) hbytes (by rw [k4]; exact k2) k3
      with h2 | h2 | h2
    · exact .inl h2
    · exact .inr (.inl h2)
    · exact .inr (.inr ⟨p, hent, h2⟩)
  · -- the open chunk
    have := (opsFrom_off_lt h1).2.2
    exact .inl (loadPayload_openRN h.j x.2 this)

/-! ### `readLoop` -/

/-- An item is a value or an error, not a panic. -/
def ReadItem.fine : ReadItem → Prop
  | .panic => False
  | _ => True

theorem readLoop_fineRN (s : Store) (fs : Fs) (r : RefLog) (l : List (Nat × LogData))
    (hl : ∀ x ∈ l, LookupOK r s.closed fs x.2) (hh mm : Nat) :
    ∀ it ∈ (readLoop s fs l hh mm).1, it.fine := by
  induction l generalizing hh mm with
  | nil => intro it hit; simp [readLoop] at hit
  | cons x xs ih =>
    obtain ⟨i, d⟩ := x
    have hrest := fun hh mm => ih (fun x hx => hl x (List.mem_cons_of_mem _ hx)) hh mm
    intro it hit
    unfold readLoop at hit
    cases hg : s.cache.get d.id with
    | some q =>
      rw [hg] at hit
      simp only [List.mem_cons] at hit
      rcases hit with e | e
      · subst e; trivial
      · exact hrest _ _ it e
    | none =>
      rw [hg] at hit
      simp only [List.mem_cons] at hit
      rcases hit with e | e
      · subst e
        rcases hl (i, d) List.mem_cons_self with h1 | h1 | ⟨p, _, h1⟩ <;> simp only at h1 <;>
          rw [h1] <;> trivial
      · exact hrest _ _ it e

theorem RInv.read_fine {s : Store} {fs : Fs} {w : Worker} {r : RefLog} (h : RInv s fs w r)
    (a b : Nat) : ∀ it ∈ (s.read fs a b).1, it.fine := by
  unfold Store.read
  exact readLoop_fineRN s fs r _ (fun x hx => h.lookupOK x (List.mem_filter.mp hx).1) _ _

theorem RInv.iter_fine {s : Store} {fs : Fs} {w : Worker} {r : RefLog} (h : RInv s fs w r) :
    ∀ it ∈ s.iter fs, it.fine := by
  unfold Store.iter
  exact readLoop_fineRN s fs r _ h.lookupOK _ _

end RaftLog
