/-
C07 support, part 4: the system-level read-path invariant `ReadInv`, its
preservation by every step of a truncate-free history with a live worker, and
the read lemma "ReadInv ⇒ read = spec read". Property statements:
`Props/C07.lean`.

Parts 1–3: `Proofs/ReadPathRef.lean` (`RefinesNoCache`, `call_refinesNC`),
`Proofs/ReadPathWorker.lean` (worker steps: file entries, eviction boundary),
`Proofs/ReadPathStore.lean` (`RdInv`, caller-side building blocks).
-/
import RaftLogModel.Proofs.ReadPathStore
namespace RaftLog

/-! ### Well-formed spec entries (values the Rust types can hold) -/

/-- Every live entry has u64 id components and a payload below 4 GiB. -/
def RefLog.EntriesWF (r : RefLog) : Prop := ∀ e ∈ r.entries, (Record.append e.1 e.2).WF

theorem RefLog.appendAll_entriesWF {r r' : RefLog} {es : List (LogId × Bytes)} (h : r.EntriesWF)
    (hes : ∀ e ∈ es, e.1.WF ∧ bytesWF e.2) (hc : r.appendAll es = .ok r') : r'.EntriesWF := by
  induction es generalizing r with
  | nil => simp only [RefLog.appendAll] at hc; injection hc with hc; subst hc; exact h
  | cons e rest ih =>
    obtain ⟨id, p⟩ := e
    simp only [RefLog.appendAll] at hc
    split at hc
    · rename_i r1 h1
      refine ih ?_ (fun e he => hes e (List.mem_cons_of_mem _ he)) hc
      have hent : r1.entries = r.entries ++ [(id, p)] := by
        unfold RefLog.append1 at h1
        split at h1
        · cases h1
        · split at h1
          · split at h1
            · cases h1
            · injection h1 with h1; rw [← h1]
          · injection h1 with h1; rw [← h1]
      intro e he
      rw [hent] at he
      rcases List.mem_append.mp he with h2 | h2
      · exact h e h2
      · simp only [List.mem_singleton] at h2
        subst h2
        exact hes (id, p) List.mem_cons_self
    · cases hc

theorem RefLog.call_entriesWF {r r' : RefLog} {op : Op} (h : r.EntriesWF) (hop : op.WF)
    (hc : r.call op = .ok r') : r'.EntriesWF := by
  cases op with
  | saveVote v =>
    simp only [RefLog.call] at hc
    split at hc
    · injection hc with hc; subst hc; exact h
    · cases hc
  | commit id =>
    simp only [RefLog.call] at hc
    split at hc
    · cases hc
    · injection hc with hc; subst hc; exact h
  | saveUserData d =>
    simp only [RefLog.call] at hc
    injection hc with hc; subst hc; exact h
  | append es => exact RefLog.appendAll_entriesWF h hop hc
  | truncate idx =>
    rcases RefLog.truncate_arg hc with ⟨_, h2⟩ | ⟨_, _, e, _, h2⟩ <;> subst h2 <;>
      exact fun e he => h e (List.mem_filter.mp he).1
  | purge upto =>
    simp only [RefLog.call] at hc
    split at hc
    · injection hc with hc; subst hc; exact h
    · injection hc with hc; subst hc
      exact fun e he => h e (List.mem_filter.mp he).1

theorem RefLog.WF.payload_unique {r : RefLog} (h : r.WF) {id : LogId} {p q : Bytes}
    (hp : (id, p) ∈ r.entries) (hq : (id, q) ∈ r.entries) : p = q := by
  rcases pairwise_mem_cases h.mono hp hq with h1 | h1 | h1
  · injection h1
  · have := h1.1; simp [LogId.lt_irrefl] at this
  · have := h1.1; simp [LogId.lt_irrefl] at this

/-! ### The system-level invariant -/

/-- **The read-path invariant of a system with a live store and worker**: the
journal invariant `J` (`JInv`), the store-level read-path invariant `RdInv`
against the reference log `r`, and well-formed spec entries. -/
def ReadInv (y : Sys) (r : RefLog) : Prop :=
  ∃ s, y.store = some s ∧ y.worker.pc ≠ .dead ∧ JInv s y.fs y.worker ∧ RdInv s y.fs y.worker r ∧
    r.EntriesWF

theorem ReadInv.toJ {y : Sys} {r : RefLog} (h : ReadInv y r) : J y := by
  obtain ⟨s, hs, hd, hj, _⟩ := h
  exact ⟨s, hs, hd, hj⟩

/-! ### Preservation -/

/-- A legal, accepted, small, well-formed call other than `truncate`. -/
theorem ReadInv.call {y : Sys} {r r' : RefLog} {op : Op} (h : ReadInv y r)
    (hl : r.legal op = true) (hc : r.call op = .ok r') (hsm : op.small) (hwf : op.WF)
    (hnt : ∀ idx, op ≠ .truncate idx) :
    ReadInv (y.step (.call op)) r' ∧ ∃ seg, (y.call op).1 = .ok seg := by
  obtain ⟨s, hs, hd, hj, hr, hew⟩ := h
  have hfs := Fs.has_false_of_lt hj.fsLt
  obtain ⟨seg, s', effs, heq, h'⟩ := call_rinv y.fs.has hj hr hfs hl hc hsm hwf hnt
  have hcj := (call_J y.fs.has op hj hwf hfs).inv
  obtain ⟨e1, e2⟩ := Sys.call_eq y op s hs hd
  rw [heq] at hcj e1 e2
  refine ⟨?_, seg, e2⟩
  show ReadInv (y.call op).2.1 r'
  rw [e1]
  exact ⟨s', rfl, (Worker.settle_facts _).2.2.2.2 hd, hcj.settle, h'.settle,
    RefLog.call_entriesWF hew hwf hc⟩

theorem ReadInv.flush {y : Sys} {r : RefLog} (h : ReadInv y r) (cb : Option Nat) :
    ReadInv (y.step (.flush cb)) r := by
  obtain ⟨s, hs, hd, hj, hr, hew⟩ := h
  show ReadInv (y.flush cb).2.1 r
  rw [Sys.flush_eq y cb s hs hd]
  exact ⟨_, rfl, (Worker.settle_facts _).2.2.2.2 hd, (flush_J hj cb).settle, (hr.flush hj cb).settle, hew⟩

/-- A worker step of any outcome that leaves the worker alive. -/
theorem ReadInv.worker {y : Sys} {r : RefLog} (h : ReadInv y r) (out : Outcome)
    (hnd : (y.step (.worker out)).worker.pc ≠ .dead) : ReadInv (y.step (.worker out)) r := by
  obtain ⟨s, hs, hd, hj, hr, hew⟩ := h
  simp only [Sys.step, Sys.workerStep, hs] at hnd ⊢
  have g := WCtx.step_good { w := y.worker, fs := y.fs, cache := s.cache } out hj.wok
    (hj.annFs _ (by simp [Worker.announced])) hnd
  have hids := WCtx.step_ids { w := y.worker, fs := y.fs, cache := s.cache } out
  have hj' := JInv.worker (c := { w := y.worker, fs := y.fs, cache := s.cache }) hj g hids
  have hr' := RdInv.wstep (s := s) (c := { w := y.worker, fs := y.fs, cache := s.cache }) hj hr g
    (WCtx.step_same _ out) (WCtx.step_fents _ out) (WCtx.step_bnd _ out)
  exact ⟨_, rfl, hnd, hj'.of_fields rfl rfl rfl rfl rfl, hr', hew⟩

theorem RdInv.runQuiet {s : Store} {r : RefLog} (n : Nat) : ∀ (c : WCtx), JInv s c.fs c.w →
    RdInv ({ s with cache := c.cache } : Store) c.fs c.w r → (WCtx.runQuiet n c).w.pc ≠ .dead →
    JInv s (WCtx.runQuiet n c).fs (WCtx.runQuiet n c).w ∧
    RdInv ({ s with cache := (WCtx.runQuiet n c).cache } : Store) (WCtx.runQuiet n c).fs
      (WCtx.runQuiet n c).w r := by
  induction n with
  | zero => intro c hj hr _; exact ⟨hj, hr⟩
  | succ n ih =>
    intro c hj hr hnd
    unfold WCtx.runQuiet at hnd ⊢
    split
    · exact ⟨hj, hr⟩
    · rename_i hq
      simp only [hq] at hnd
      have hnd1 : (c.step .ok).w.pc ≠ .dead := by
        intro hdead
        rw [WCtx.runQuiet_dead n _ hdead] at hnd
        exact hnd hdead
      have g := WCtx.step_good c .ok hj.wok (hj.annFs _ (by simp [Worker.announced])) hnd1
      have hj' := JInv.worker hj g (WCtx.step_ids c .ok)
      have hr' := RdInv.wstep hj hr g (WCtx.step_same c .ok) (WCtx.step_fents c .ok) (WCtx.step_bnd c .ok)
      exact ih (c.step .ok) hj' hr' hnd

theorem ReadInv.workerIdle {y : Sys} {r : RefLog} (h : ReadInv y r)
    (hnd : (y.step .workerIdle).worker.pc ≠ .dead) : ReadInv (y.step .workerIdle) r := by
  obtain ⟨s, hs, hd, hj, hr, hew⟩ := h
  simp only [Sys.step, Sys.workerIdle, hs] at hnd ⊢
  obtain ⟨hj', hr'⟩ := RdInv.runQuiet (s := s) y.worker.fuel
    { w := y.worker, fs := y.fs, cache := s.cache } hj hr hnd
  exact ⟨_, rfl, hnd, hj'.of_fields rfl rfl rfl rfl rfl, hr', hew⟩

theorem ReadInv.drain {y : Sys} {r : RefLog} (h : ReadInv y r) : ReadInv (y.step .drain) r := by
  obtain ⟨s, hs, hd, hj, hr, hew⟩ := h
  simp only [Sys.step, Sys.drain, hs]
  exact ⟨_, rfl, hd, hj.of_fields rfl rfl rfl rfl rfl, hr.drain, hew⟩

/-! ### The freshly opened store -/

theorem fresh_readInv (cfg : Cfg) : ReadInv (Sys.fresh cfg) {} := by
  obtain ⟨s, hs, hd, hj⟩ := fresh_J cfg
  obtain ⟨s2, hs2, href, _⟩ := fresh_sysRef cfg
  rw [hs] at hs2
  injection hs2 with hs2
  subst hs2
  obtain ⟨s3, hs3, _, hlog, _⟩ := fresh_shape cfg
  rw [hs] at hs3
  injection hs3 with hs3
  subst hs3
  have hw : (Sys.fresh cfg).worker = { files := [⟨0, none⟩] } := by
    simp [Sys.fresh, Sys.open, openStore, Fs.linkedIds, openLoop, emptyStore, Fs.has, Fs.find]
  refine ⟨s, hs, hd, hj, ⟨href.noCache, ?_, ?_, ?_, ?_, ?_, ?_⟩, (by intro e he; cases he)⟩
  · intro e _ a ha; cases ha
  · intro x hx; rw [hlog] at hx; cases hx
  · intro x hx; rw [hlog] at hx; cases hx
  · intro x hx; rw [hlog] at hx; cases hx
  · refine ⟨?_, ?_⟩
    · have : s.cache.lastEvictable = none := by
        obtain ⟨s4, hs4, _, _, hc, _⟩ := fresh_shape cfg
        rw [hs] at hs4; injection hs4 with hs4; subst hs4
        rw [hc]
      rw [this]; simp
    · intro x hx; rw [hlog] at hx; cases hx
  · intro f hf
    rw [hw] at hf
    simp [Worker.fents, WPc.held, reqEnts] at hf
    subst hf
    exact ⟨by simp, by intro x hx; rw [hlog] at hx; cases hx⟩

/-! ### Histories -/

/-- What C07 asks of the ops of a history: no index equal to u64::MAX, values
the Rust types can hold, and no `truncate`. -/
def Op.c07 (op : Op) : Prop := op.small ∧ op.WF ∧ ∀ idx, op ≠ .truncate idx

theorem run_readInv (steps : List Step) : ∀ (y : Sys) (r r' : RefLog), ReadInv y r →
    (∀ st ∈ steps, st.journal = true) → r.run (stepOps steps) = some r' →
    (∀ op ∈ stepOps steps, op.c07) → (y.run steps).worker.pc ≠ .dead →
    ReadInv (y.run steps) r' ∧
    ∀ pre op post, steps = pre ++ Step.call op :: post → ∃ seg, ((y.run pre).call op).1 = .ok seg := by
  induction steps with
  | nil =>
    intro y r r' h _ hr _ _
    simp only [stepOps, RefLog.run, Option.some.injEq] at hr
    subst hr
    refine ⟨h, ?_⟩
    intro pre op post hsplit
    cases pre <;> cases hsplit
  | cons st rest ih =>
    intro y r r' h hst hr hops hnd
    have hrest : ∀ st' ∈ rest, st'.journal = true := fun s hs => hst s (List.mem_cons_of_mem _ hs)
    simp only [Sys.run, List.foldl_cons] at hnd
    have hnd1 : (y.step st).worker.pc ≠ .dead := by
      intro hdead
      exact hnd (Sys.run_dead rest _ hrest hdead)
    -- a non-call step: same reference log
    have hother : stepOps (st :: rest) = stepOps rest → ReadInv (y.step st) r → (∀ op, st ≠ .call op) →
        ReadInv ((y.step st).run rest) r' ∧
        ∀ pre op post, st :: rest = pre ++ Step.call op :: post →
          ∃ seg, ((y.run pre).call op).1 = .ok seg := by
      intro he h' hne
      rw [he] at hr hops
      obtain ⟨g1, g2⟩ := ih (y.step st) r r' h' hrest hr hops hnd
      refine ⟨g1, ?_⟩
      intro pre op post hsplit
      cases pre with
      | nil =>
        simp only [List.nil_append, List.cons.injEq] at hsplit
        exact absurd hsplit.1 (hne op)
      | cons p pre' =>
        simp only [List.cons_append, List.cons.injEq] at hsplit
        obtain ⟨hp, hrest'⟩ := hsplit
        subst hp
        exact g2 pre' op post hrest'
    cases st with
    | drop => have := hst _ List.mem_cons_self; cases this
    | openWith c => have := hst _ List.mem_cons_self; cases this
    | drain => exact hother rfl h.drain (by intro op hh; cases hh)
    | flush cb => exact hother rfl (h.flush cb) (by intro op hh; cases hh)
    | worker out => exact hother rfl (h.worker out hnd1) (by intro op hh; cases hh)
    | workerIdle => exact hother rfl (h.workerIdle hnd1) (by intro op hh; cases hh)
    | call op =>
      simp only [stepOps, RefLog.run] at hr
      obtain ⟨hsm0, hwf0, hnt0⟩ := hops op (by simp [stepOps])
      have hops' : ∀ o ∈ stepOps rest, o.c07 := fun o ho => hops o (by simp [stepOps, ho])
      split at hr
      · rename_i hl
        split at hr
        · rename_i r1 hc
          obtain ⟨h1, hok⟩ := h.call hl hc hsm0 hwf0 hnt0
          obtain ⟨g1, g2⟩ := ih (y.step (.call op)) r1 r' h1 hrest hr hops' hnd
          refine ⟨g1, ?_⟩
          intro pre op' post hsplit
          cases pre with
          | nil =>
            simp only [List.nil_append, List.cons.injEq, Step.call.injEq] at hsplit
            obtain ⟨hop, _⟩ := hsplit
            subst hop
            exact hok
          | cons p pre' =>
            simp only [List.cons_append, List.cons.injEq] at hsplit
            obtain ⟨hp, hrest'⟩ := hsplit
            subst hp
            exact g2 pre' op' post hrest'
        · cases hr
      · cases hr

/-! ### Reads -/

/-- A non-resident live entry whose chunk is older than the worker's newest
file: its chunk is closed, its record is completely in the chunk FILE at
`[off - chunk, + size)`, and `loadPayload` returns its payload. -/
theorem RdInv.on_disk {s : Store} {fs : Fs} {w : Worker} {r : RefLog} (hj : JInv s fs w)
    (h : RdInv s fs w r) (hew : r.EntriesWF) {x : Nat × LogData} (hx : x ∈ s.log) {p : Bytes}
    (hp : (x.2.id, p) ∈ r.entries) (hlt : x.2.chunk < w.cur) :
    (∃ c ∈ s.closed, c.id = x.2.chunk) ∧
    (∃ f, fs.find x.2.chunk = some f ∧ x.2.off - x.2.chunk + x.2.size ≤ f.data.length ∧
      (f.data.drop (x.2.off - x.2.chunk)).take x.2.size = encRecord (.append x.2.id p)) ∧
    w.inflight x.2.chunk = [] ∧
    loadPayload s.closed fs x.2 = .ok x.2.id p := by
  obtain ⟨p', hp', hl, hoff, hsz, pre, post, hbytes, hpre⟩ := h.loc x hx
  have hpp : p' = p := h.ref.wf.payload_unique hp' hp
  subst hpp
  have hcur_le : w.cur ≤ s.openId := hj.ann_le _ (by simp [Worker.announced])
  have hclosed : ∃ c ∈ s.closed, c.id = x.2.chunk := by
    rcases hl with h1 | h1
    · omega
    · exact h1
  obtain ⟨c, hc, hcid⟩ := hclosed
  have hna : x.2.chunk ∉ w.announced := by
    intro hm
    have := incr_head_le (a := w.cur) (l := annIds w.rest) hj.annAsc _ hm
    omega
  have hinf := w.inflight_not_announced _ hna
  have hsome := (Fs.find_isSome_iff fs x.2.chunk).mpr (hcid ▸ hj.closedFs c hc)
  cases hf : fs.find x.2.chunk with
  | none => rw [hf] at hsome; cases hsome
  | some f =>
    have hfd : fdata fs x.2.chunk = f.data := by unfold fdata; rw [hf]
    have hno : ¬ s.openId = x.2.chunk := by omega
    have hcb : chunkBytes s fs w x.2.chunk = f.data := by
      simp [chunkBytes, hinf, hfd, hno]
    rw [hcb] at hbytes
    have hslice : (f.data.drop (x.2.off - x.2.chunk)).take x.2.size =
        encRecord (.append x.2.id p') := by
      rw [hbytes, ← hpre, hsz]; simp
    have hlen : x.2.off - x.2.chunk + x.2.size ≤ f.data.length := by
      rw [hbytes, hsz, ← hpre]; simp
    refine ⟨⟨c, hc, hcid⟩, ⟨f, rfl, hlen, hslice⟩, hinf, ?_⟩
    unfold loadPayload
    cases hfind : s.closed.find? (fun c => c.id == x.2.chunk) with
    | none =>
      have := List.find?_eq_none.mp hfind c hc
      simp [hcid] at this
    | some c' =>
      have hc'id : c'.id = x.2.chunk := by simpa using List.find?_some hfind
      have hrt := record_rt (.append x.2.id p') [] (hew _ hp)
      rw [List.append_nil] at hrt
      simp only [hc'id, Fs.readAt, hf, hlen, if_true, hslice, hrt]

/-- What a lookup of index entry `d` must return for payload `p`. -/
def ItemOK (s : Store) (fs : Fs) (d : LogData) (p : Bytes) : Prop :=
  (∀ q, s.cache.get d.id = some q → q = p) ∧
  (s.cache.get d.id = none → loadPayload s.closed fs d = .ok d.id p)

theorem readLoop_itemOK (s : Store) (fs : Fs) (l : List (Nat × LogData)) (es : Items)
    (h : logKeys l = entKeys es)
    (hitem : ∀ x ∈ l, ∀ e ∈ es, e.1 = x.2.id → ItemOK s fs x.2 e.2) (hh mm : Nat) :
    (readLoop s fs l hh mm).1 = es.map (fun e => ReadItem.ok e.1 e.2) := by
  induction l generalizing es hh mm with
  | nil =>
    cases es with
    | nil => rfl
    | cons _ _ => simp [logKeys, entKeys] at h
  | cons x xs ih =>
    cases es with
    | nil => simp [logKeys, entKeys] at h
    | cons e es' =>
      simp only [logKeys, entKeys, List.map_cons, List.cons.injEq, Prod.mk.injEq] at h
      obtain ⟨⟨_, h2⟩, h3⟩ := h
      obtain ⟨i, d⟩ := x
      simp only at h2
      have hit := hitem (i, d) List.mem_cons_self e List.mem_cons_self h2.symm
      have hrest : ∀ hh mm, (readLoop s fs xs hh mm).1 = es'.map (fun e => ReadItem.ok e.1 e.2) :=
        fun hh mm => ih es' h3 (fun x hx e he => hitem x (List.mem_cons_of_mem _ hx) e
          (List.mem_cons_of_mem _ he)) hh mm
      cases hg : s.cache.get d.id with
      | some q =>
        have := hit.1 q hg
        subst this
        simp only [readLoop, hg, List.map_cons, hrest]
        rw [h2]
      | none =>
        simp only [readLoop, hg, List.map_cons, hrest, hit.2 hg]
        rw [h2]

/-- Every lookup of a live entry returns its spec payload: from the cache, or
from the file of its closed chunk. -/
theorem RdInv.itemOK {s : Store} {fs : Fs} {w : Worker} {r : RefLog} (hj : JInv s fs w)
    (h : RdInv s fs w r) (hew : r.EntriesWF) :
    ∀ x ∈ s.log, ∀ e ∈ r.entries, e.1 = x.2.id → ItemOK s fs x.2 e.2 := by
  intro x hx e he hid
  obtain ⟨a, b⟩ := e
  simp only at hid
  subst hid
  refine ⟨?_, ?_⟩
  · intro q hq
    exact (h.cval _ (Cache.mem_of_get hq) _ he rfl).symm
  · intro hnone
    have hlt : x.2.chunk < w.cur := by
      rcases h.res x hx with ⟨q, hq⟩ | h1
      · have := Cache.get_of_mem h.ref.cinv.ok.sorted hq
        rw [hnone] at this; cases this
      · exact h1
    exact (h.on_disk hj hew hx he hlt).2.2.2

/-- **ReadInv ⇒ read = spec read.** -/
theorem ReadInv.read {y : Sys} {r : RefLog} (h : ReadInv y r) :
    ∃ s, y.store = some s ∧ s.st = r.state ∧
      (∀ a b, (s.read y.fs a b).1 = (r.read a b).map (fun e => ReadItem.ok e.1 e.2)) ∧
      s.iter y.fs = r.entries.map (fun e => ReadItem.ok e.1 e.2) := by
  obtain ⟨s, hs, _, hj, hr, hew⟩ := h
  have hitem := hr.itemOK hj hew
  refine ⟨s, hs, hr.ref.st, ?_, ?_⟩
  · intro a b
    unfold Store.read RefLog.read
    simp only
    apply readLoop_itemOK
    · have h1 := logKeys_filter (fun i => decide (a ≤ i) && decide (i < b)) s.log
      have h2 := entKeys_filter (fun i => decide (a ≤ i) && decide (i < b)) r.entries
      have h3 : logKeys s.log = entKeys r.entries := hr.ref.log
      rw [h1, h2, h3]
    · intro x hx e he
      exact hitem x (List.mem_filter.mp hx).1 e (List.mem_filter.mp he).1
  · unfold Store.iter
    exact readLoop_itemOK s y.fs s.log r.entries hr.ref.log hitem 0 0

/-- The invariant in the words of the property: every live entry is resident
with its payload, or its chunk is closed and its record is completely WRITTEN
to the chunk file (nothing for that chunk is in flight). -/
theorem ReadInv.resident_or_on_disk {y : Sys} {r : RefLog} (h : ReadInv y r) :
    ∃ s, y.store = some s ∧ ∀ x ∈ s.log, ∃ p, (x.2.id, p) ∈ r.entries ∧
      (s.cache.get x.2.id = some p ∨
        ((∃ c ∈ s.closed, c.id = x.2.chunk) ∧ y.worker.inflight x.2.chunk = [] ∧
          ∃ f, y.fs.find x.2.chunk = some f ∧ x.2.off - x.2.chunk + x.2.size ≤ f.data.length ∧
            (f.data.drop (x.2.off - x.2.chunk)).take x.2.size = encRecord (.append x.2.id p))) := by
  obtain ⟨s, hs, _, hj, hr, hew⟩ := h
  refine ⟨s, hs, ?_⟩
  intro x hx
  obtain ⟨p, hp, _⟩ := hr.loc x hx
  refine ⟨p, hp, ?_⟩
  rcases hr.res x hx with ⟨q, hq⟩ | hlt
  · left
    have := hr.cval _ hq _ hp rfl
    simp only at this
    subst this
    exact Cache.get_of_mem hr.ref.cinv.ok.sorted hq
  · right
    obtain ⟨h1, h2, h3, _⟩ := hr.on_disk hj hew hx hp hlt
    exact ⟨h1, h3, h2⟩

/-- The auxiliary boundary invariant in the words of the property: every index
entry with id at or below the eviction boundary lives in a CLOSED chunk that is
FULLY WRITTEN: nothing is in flight to its file and the file has the chunk's
full length. -/
theorem ReadInv.boundary_written {y : Sys} {r : RefLog} (h : ReadInv y r) :
    ∃ s, y.store = some s ∧ ∀ x ∈ s.log, optLe (some x.2.id) s.cache.lastEvictable = true →
      ∃ c ∈ s.closed, c.id = x.2.chunk ∧ y.worker.inflight c.id = [] ∧
        (fdata y.fs c.id).length = lastOff c.offsets - c.id := by
  obtain ⟨s, hs, _, hj, hr, hew⟩ := h
  refine ⟨s, hs, ?_⟩
  intro x hx hle
  have hlt := hr.bnd.2 x hx hle
  obtain ⟨p, hp, _⟩ := hr.loc x hx
  obtain ⟨⟨c, hc, hcid⟩, _, hinf, _⟩ := hr.on_disk hj hew hx hp hlt
  refine ⟨c, hc, hcid, by rw [hcid]; exact hinf, ?_⟩
  have := (hj.closedBytes c hc).lastOff_eq
  rw [hcid, hinf, List.append_nil, ← hcid] at this
  simp only [Closed.id]
  simp only [Closed.id] at this
  omega

end RaftLog
