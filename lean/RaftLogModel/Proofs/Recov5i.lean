/-
C05 (crash recoverability), part 9: payload mirroring along histories. `TSysC5b y r W`: for
the store with ALL chunks dropped so far put back (`T`, never shortened), `PInvC5b` holds;
the ids still to be unlinked are a suffix of the ids of `T`.
-/
import RaftLogModel.Proofs.Recov5h
namespace RaftLog

structure TInvC5b (s : Store) (fs : Fs) (w : Worker) (r : RefLog) (W : List Op) (T : List Closed) :
    Prop where
  pinv : PInvC5b (s.liftC3b T) fs w r W
  ids : ∃ D, T.map Closed.id = D ++ (w.toRemove ++ s.removed)
  unl : UnlPostC3b w

def TSysC5b (y : Sys) (r : RefLog) (W : List Op) : Prop :=
  ∃ s T, y.store = some s ∧ TInvC5b s y.fs y.worker r W T

theorem TInvC5b.of_cache {s : Store} {fs : Fs} {w : Worker} {r : RefLog} {W : List Op} {T : List Closed}
    (h : TInvC5b s fs w r W T) (c : Cache) : TInvC5b { s with cache := c } fs w r W T :=
  ⟨h.pinv.of_cache c, h.ids, h.unl⟩

/-! ### Worker steps -/

theorem TInvC5b.step {s : Store} {c : WCtx} {r : RefLog} {W : List Op} {T : List Closed}
    (out : Outcome) (h : TInvC5b s c.fs c.w r W T) (hnd : (c.step out).w.pc ≠ .dead) :
    TInvC5b s (c.step out).fs (c.step out).w r W T := by
  have hj := h.pinv.inv.j
  have hcur : c.w.cur ∈ Fs.ids c.fs := hj.annFs _ (by simp [Worker.announced])
  have g := WCtx.step_good c out hj.wok hcur hnd
  have hids := WCtx.step_ids c out
  have ts := WCtx.step_tstep_C3b c out hj.wok h.unl hnd
  refine ⟨h.pinv.worker g hids, ?_, ts.unl⟩
  obtain ⟨D, hD⟩ := h.ids
  rcases ts.tr with ⟨e1, _⟩ | ⟨i, e1, _, _⟩
  · exact ⟨D, by rw [e1]; exact hD⟩
  · exact ⟨D ++ [i], by rw [hD, e1]; simp⟩

theorem TInvC5b.runQuiet {s : Store} {r : RefLog} {W : List Op} {T : List Closed} (n : Nat) :
    ∀ (c : WCtx), TInvC5b s c.fs c.w r W T → (WCtx.runQuiet n c).w.pc ≠ .dead →
    TInvC5b s (WCtx.runQuiet n c).fs (WCtx.runQuiet n c).w r W T := by
  induction n with
  | zero => intro c h _; exact h
  | succ n ih =>
    intro c h hnd
    unfold WCtx.runQuiet at hnd ⊢
    by_cases hq : c.w.quiet = true
    · simp only [hq, if_true] at hnd ⊢
      exact h
    · simp only [hq] at hnd ⊢
      have hnd1 : (c.step .ok).w.pc ≠ .dead := by
        intro hdead
        rw [WCtx.runQuiet_dead n _ hdead] at hnd
        exact hnd hdead
      exact ih (c.step .ok) (h.step .ok hnd1) hnd

/-! ### Flush -/

theorem TInvC5b.flush {s : Store} {fs : Fs} {w : Worker} {r : RefLog} {W : List Op} {T : List Closed}
    (h : TInvC5b s fs w r W T) (cb : Option Nat) :
    TInvC5b (s.flush cb).1 (effFs (s.flush cb).2 fs) (w.push (effQ (s.flush cb).2)).settle r W T := by
  refine ⟨(flush_P_C5b h.pinv cb).settle, ?_, (h.unl.push _).settle⟩
  obtain ⟨D, hD⟩ := h.ids
  refine ⟨D, ?_⟩
  rw [Worker.toRemove_settle, toRemove_push_C3b, flush_rmIds_C3b]
  have : (s.flush cb).1.removed = [] := rfl
  rw [this, List.append_nil]
  exact hD

/-! ### Calls -/

theorem TInvC5b.call_lifted {s : Store} {fs : Fs} {w : Worker} {r r' : RefLog} {W : List Op}
    {T : List Closed} (fsHas : Nat → Bool) {op : Op} (h : TInvC5b s fs w r W T)
    (hlift : (s.liftC3b T).call fsHas op = liftResC3b T (s.call fsHas op))
    (hrem : (s.call fsHas op).2.1.removed = s.removed)
    (hfs : ∀ i, s.openEnd ≤ i → fsHas i = false)
    (hl : r.legal op = true) (hc : r.call op = .ok r') (hsm : op.small) (hwf : op.WF)
    (hnp : ∀ upto, op = .purge upto → upto.index < nextIndex r.purged) :
    TInvC5b (s.call fsHas op).2.1 (effFs (s.call fsHas op).2.2 fs)
      (w.push (effQ (s.call fsHas op).2.2)).settle r' (W ++ op.expand1 r) T := by
  obtain ⟨seg, s', effs, heq, hinv⟩ := call_P_C5b fsHas h.pinv hfs hl hc hsm hwf hnp
  rw [hlift] at heq
  simp only [liftResC3b, Prod.mk.injEq] at heq
  obtain ⟨_, hs', heffs⟩ := heq
  subst hs'; subst heffs
  refine ⟨hinv.settle, ?_, (h.unl.push _).settle⟩
  obtain ⟨D, hD⟩ := h.ids
  refine ⟨D, ?_⟩
  rw [Worker.toRemove_settle, toRemove_push_C3b, NoRmC3b.call s fsHas op, List.append_nil, hrem]
  exact hD

theorem TInvC5b.call_purge {s : Store} {fs : Fs} {w : Worker} {r r' : RefLog} {W : List Op}
    {T : List Closed} (fsHas : Nat → Bool) {upto : LogId} (h : TInvC5b s fs w r W T)
    (hfs : ∀ i, s.openEnd ≤ i → fsHas i = false)
    (hl : r.legal (.purge upto) = true) (hc : r.call (.purge upto) = .ok r')
    (hsm : (Op.purge upto).small) (hwf : (Op.purge upto).WF)
    (hnn : ¬ upto.index < nextIndex r.purged) :
    ∃ T', TInvC5b (s.call fsHas (.purge upto)).2.1 (effFs (s.call fsHas (.purge upto)).2.2 fs)
      (w.push (effQ (s.call fsHas (.purge upto)).2.2)).settle r' (W ++ [.purge upto]) T' := by
  have habs := h.pinv.inv.abs
  have hpu : s.st.purged = r.purged := by
    have := habs.st
    simp only [Store.liftC3b_st] at this
    rw [this]; rfl
  have hc0 := hc
  simp only [RefLog.call, if_neg hnn] at hc
  injection hc with hc
  have ok := stepOK_purgeUpto habs hl hnn hsm
  rw [hc] at ok
  have hrun1 : r.run [.purge upto] = some r' := run_single_C3 hl hc0
  obtain ⟨s'0, effs0, heq0, hinv0, _, _⟩ := pinv_step_C5b fsHas h.pinv hfs ok hwf hrun1 rfl
  rw [appendAndApply_lift_C3b] at heq0
  rcases hx : s.appendAndApply fsHas (.purgeUpto upto) with ⟨res, s1, effs1⟩
  rw [hx] at heq0
  simp only [liftResC3b, Prod.mk.injEq] at heq0
  obtain ⟨hres, hs'0, heffs0⟩ := heq0
  subst hres; subst hs'0; subst heffs0
  have hfacts := appendAndApply_facts_C3b s fsHas (.purgeUpto upto)
  rw [hx] at hfacts
  obtain ⟨_, hrm1, _⟩ := hfacts
  simp only at hrm1
  have hn : nextIndexChecked s.st.purged = some (nextIndex r.purged) := by
    have := nextIndexChecked_eq habs.pf.purged
    simp only [Store.liftC3b_st] at this
    rw [this, hpu]
  have hidxD12 : upto.index + 1 ≠ U64 := by
    have : upto.index + 1 < U64 := hsm
    omega
  rw [call_purge_C3b s fsHas upto _ hn hnn hidxD12 hx]
  simp only
  obtain ⟨pre, hpre, hids, _⟩ := popObsolete_pre_C3b upto s1.closed
  generalize hs2 : ({ s1 with closed := (popObsolete upto s1.closed).2, removed := s1.removed ++ (popObsolete upto s1.closed).1 } : Store) = s2
  have k1 : s2.st = s1.st := by rw [← hs2]
  have k2 : s2.log = s1.log := by rw [← hs2]
  have k3 : s2.openOffsets = s1.openOffsets := by rw [← hs2]
  have k4 : s2.pending = s1.pending := by rw [← hs2]
  have k5 : s2.closed = (popObsolete upto s1.closed).2 := by rw [← hs2]
  have k6 : s2.removed = s.removed ++ pre.map Closed.id := by rw [← hs2, ← hids, ← hrm1]
  refine ⟨T ++ pre, (hinv0.congr (s2 := s2.liftC3b (T ++ pre)) k1 k2 k3 k4 ?_).settle, ?_,
    (h.unl.push _).settle⟩
  · simp only [Store.liftC3b_closed, k5, List.append_assoc]
    rw [← hpre]
  · obtain ⟨D, hD⟩ := h.ids
    refine ⟨D, ?_⟩
    have hnr : rmIds (effQ effs1) = [] := by
      have := NoRmC3b.appendAndApply s fsHas (.purgeUpto upto)
      rw [hx] at this
      exact this
    rw [Worker.toRemove_settle, toRemove_push_C3b, hnr, List.append_nil, k6, List.map_append, hD]
    simp

/-! ### System level -/

theorem TSysC5b.step {y : Sys} {r r' : RefLog} {W : List Op} (h : TSysC5b y r W) (st : Step)
    (hd : y.worker.pc ≠ .dead)
    (hst : st.journal = true) (hr : r.run (stepOps [st]) = some r')
    (hwf : ∀ op, st = .call op → op.WF ∧ op.small) (hnd : (y.step st).worker.pc ≠ .dead) :
    TSysC5b (y.step st) r' (W ++ expandOps r (stepOps [st])) := by
  obtain ⟨s, T, hs, hg⟩ := h
  cases st with
  | drop => cases hst
  | openWith c => cases hst
  | drain =>
    simp only [stepOps, RefLog.run, Option.some.injEq] at hr; subst hr
    simp only [stepOps, expandOps, List.append_nil]
    show TSysC5b y.drain r W
    simp only [Sys.drain, hs]
    exact ⟨_, T, rfl, hg.of_cache _⟩
  | flush cb =>
    simp only [stepOps, RefLog.run, Option.some.injEq] at hr; subst hr
    simp only [stepOps, expandOps, List.append_nil]
    show TSysC5b (y.flush cb).2.1 r W
    rw [Sys.flush_eq y cb s hs hd]
    exact ⟨_, T, rfl, hg.flush cb⟩
  | worker out =>
    simp only [stepOps, RefLog.run, Option.some.injEq] at hr; subst hr
    simp only [stepOps, expandOps, List.append_nil]
    have hnd' : (y.workerStep out).1.worker.pc ≠ .dead := hnd
    show TSysC5b (y.workerStep out).1 r W
    simp only [Sys.workerStep, hs] at hnd' ⊢
    have h' := TInvC5b.step (c := { w := y.worker, fs := y.fs, cache := s.cache }) out hg hnd'
    exact ⟨_, T, rfl, h'.of_cache _⟩
  | workerIdle =>
    simp only [stepOps, RefLog.run, Option.some.injEq] at hr; subst hr
    simp only [stepOps, expandOps, List.append_nil]
    have hnd' : y.workerIdle.1.worker.pc ≠ .dead := hnd
    show TSysC5b y.workerIdle.1 r W
    simp only [Sys.workerIdle, hs] at hnd' ⊢
    have h' := TInvC5b.runQuiet y.worker.fuel { w := y.worker, fs := y.fs, cache := s.cache } hg hnd'
    exact ⟨_, T, rfl, h'.of_cache _⟩
  | call op =>
    simp only [stepOps, RefLog.run] at hr
    split at hr
    · rename_i hl
      split at hr
      · rename_i r1 hc
        simp only [Option.some.injEq] at hr; subst hr
        have hex : expandOps r (stepOps [.call op]) = op.expand1 r := by
          simp [stepOps, expandOps, hc]
        rw [hex]
        obtain ⟨hopwf, hopsm⟩ := hwf op rfl
        have hfs : ∀ i, s.openEnd ≤ i → y.fs.has i = false :=
          Fs.has_false_of_lt (k := s.openEnd) hg.pinv.inv.j.fsLt
        obtain ⟨e1, _⟩ := Sys.call_eq y op s hs hd
        show TSysC5b (y.call op).2.1 r1 (W ++ op.expand1 r)
        rw [e1]
        have habs := hg.pinv.inv.abs
        have hpu : s.st.purged = r.purged := by
          have := habs.st
          simp only [Store.liftC3b_st] at this
          rw [this]; rfl
        have hn : nextIndexChecked s.st.purged = some (nextIndex r.purged) := by
          have := nextIndexChecked_eq habs.pf.purged
          simp only [Store.liftC3b_st] at this
          rw [this, hpu]
        by_cases hp : ∃ upto, op = .purge upto
        · obtain ⟨upto, rfl⟩ := hp
          by_cases hnn : upto.index < nextIndex r.purged
          · obtain ⟨k1, k2⟩ := call_lift_purge_noop_C3b s T y.fs.has upto _ hn hnn
            exact ⟨_, T, rfl, hg.call_lifted y.fs.has k1 k2 hfs hl hc hopsm hopwf
              (fun u e => by cases e; exact hnn)⟩
          · obtain ⟨T', h'⟩ := hg.call_purge y.fs.has hfs hl hc hopsm hopwf hnn
            have hex1 : (Op.purge upto).expand1 r = [.purge upto] := by simp [Op.expand1, hnn]
            rw [hex1]
            exact ⟨_, T', rfl, h'⟩
        · have hp' : ∀ upto, op ≠ .purge upto := fun upto e => hp ⟨upto, e⟩
          exact ⟨_, T, rfl, hg.call_lifted y.fs.has (call_lift_C3b s _ y.fs.has op hp')
            (call_removed_C3b s y.fs.has op hp') hfs hl hc hopsm hopwf
            (fun u e => absurd e (hp' u))⟩
      · cases hr
    · cases hr

theorem run_TSys_C5b (steps : List Step) : ∀ (y : Sys) (r r' : RefLog) (W : List Op),
    TSysC5b y r W → (∀ st ∈ steps, st.journal = true) →
    r.run (stepOps steps) = some r' → (∀ op ∈ stepOps steps, op.WF ∧ op.small) →
    (y.run steps).worker.pc ≠ .dead →
    TSysC5b (y.run steps) r' (W ++ expandOps r (stepOps steps)) := by
  induction steps with
  | nil =>
    intro y r r' W h _ hr _ _
    simp only [stepOps, RefLog.run, Option.some.injEq] at hr; subst hr
    simpa [stepOps, expandOps, Sys.run] using h
  | cons st rest ih =>
    intro y r r' W h hst hr hwf hnd
    simp only [Sys.run, List.foldl_cons] at hnd ⊢
    have hrest : ∀ s ∈ rest, s.journal = true := fun s hs => hst s (List.mem_cons_of_mem _ hs)
    have hnd1 : (y.step st).worker.pc ≠ .dead := by
      intro hdead
      exact hnd (Sys.run_dead rest _ hrest hdead)
    have hd0 : y.worker.pc ≠ .dead := by
      intro hdead
      have := Sys.run_dead [st] y (fun s hs => by
        simp only [List.mem_singleton] at hs; subst hs; exact hst _ List.mem_cons_self) hdead
      exact hnd1 this
    rw [stepOps_cons, RefLog.run_append] at hr
    cases hr1 : r.run (stepOps [st]) with
    | none => rw [hr1] at hr; cases hr
    | some r1 =>
      rw [hr1] at hr
      simp only [Option.bind_some] at hr
      have hwf1 : ∀ op, st = .call op → op.WF ∧ op.small := by
        intro op e; subst e; exact hwf op (by simp [stepOps])
      have hwf2 : ∀ op ∈ stepOps rest, op.WF ∧ op.small := by
        intro op hop
        apply hwf op
        rw [stepOps_cons]; exact List.mem_append_right _ hop
      have h1 := h.step st hd0 (hst st List.mem_cons_self) hr1 hwf1 hnd1
      have h2 := ih (y.step st) r1 r' _ h1 hrest hr hwf2 hnd
      rw [stepOps_cons, expandOps_append _ _ r r1 hr1, ← List.append_assoc]
      exact h2

theorem fresh_TSys_C5b (cfg : Cfg) : TSysC5b (Sys.fresh cfg) {} [] := by
  obtain ⟨⟨s, hs, hd, hi⟩, _, _, _⟩ := fresh_HSys cfg
  have hshape : ∃ s, (Sys.fresh cfg).store = some s ∧ s.removed = [] ∧
      (Sys.fresh cfg).worker = { files := [⟨0, none⟩] } := by
    simp [Sys.fresh, Sys.open, openStore, Fs.linkedIds, openLoop, emptyStore, Fs.has, Fs.find,
      Fs.create, Fs.write, Fs.update]
  obtain ⟨s0, hs0, h1, h2⟩ := hshape
  rw [hs] at hs0; cases hs0
  have hp : PInvC5b s (Sys.fresh cfg).fs (Sys.fresh cfg).worker {} [] := by
    refine ⟨hi.inv, hi.run, ?_⟩
    obtain ⟨jc, jo, g, N0, hN, hmir, _, _⟩ := hi.hist
    refine ⟨jc, jo, N0, g, hN, ?_⟩
    intro P hP r' l hr hl e he
    obtain ⟨r'', m1, _, l', m3, m4⟩ := hmir P hP (Nat.zero_le _)
    simp only [List.take_nil, RefLog.run, Option.some.injEq] at m1
    subst m1
    rw [hl] at m3
    injection m3 with m3
    subst m3
    have : logKeys l = [] := m4
    have hl0 : l = [] := by
      cases l with
      | nil => rfl
      | cons a t => simp [logKeys] at this
    rw [hl0] at he; cases he
  refine ⟨s, [], hs, by rw [Store.liftC3b_nil]; exact hp, ⟨[], ?_⟩, ?_⟩
  · rw [h1, h2]
    simp [Worker.toRemove, WPc.unl, WPc.inHand, rmIds]
  · rw [h2]
    intro ids hh
    cases hh

/-- **Payload mirroring along every legal history.** -/
theorem reach_TSys_C5b (cfg : Cfg) (steps : List Step) (r : RefLog)
    (hsteps : ∀ st ∈ steps, st.journal = true)
    (hlegal : RefLog.run {} (stepOps steps) = some r)
    (hwf : ∀ op ∈ stepOps steps, op.WF ∧ op.small)
    (halive : ((Sys.fresh cfg).run steps).worker.pc ≠ .dead) :
    TSysC5b ((Sys.fresh cfg).run steps) r (expandOps {} (stepOps steps)) := by
  have := run_TSys_C5b steps (Sys.fresh cfg) {} r [] (fresh_TSys_C5b cfg) hsteps hlegal hwf halive
  simpa using this

end RaftLog
