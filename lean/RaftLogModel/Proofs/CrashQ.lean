/-
C03, closing the gap `B ≤ A`: along every legal history, whenever no chunk removal
is outstanding (`s.removed = []`, `worker.toRemove = []`), the marker `B` (journal
end right after the last purge that dropped chunks) is at or below the
acknowledged position `A`.

The invariant `MInvC3b s w B A`:  `B ≤ A`, or the store still holds a removal list
(`s.removed ≠ []`), or the worker is *guarded* (`WGuardC3b B w`): it still has
something to unlink, and it cannot unlink it before a batch that contains a write
with `upto ≥ B` has been synced successfully.  Two shapes of "guarded":

* *ahead*: the requests not handled yet are `pre ++ suf`, `suf` starts with a write,
  every write of `suf` has `upto ≥ B`, and `suf` contains a non-empty removal request
  (this is the state right after the flush that follows the purge);
* *now*: every write not handled yet has `upto ≥ B`, the worker is *safe* — the batch
  in hand contains a write with `upto ≥ B`, or (no batch in hand) the last sync failed,
  so that removals are postponed — and there is something left to remove (postponed
  ids or a queued removal request).
-/
import RaftLogModel.Proofs.CrashAckSys
namespace RaftLog

/-! ### Definitions -/

/-- Every write request of the list has `upto ≥ B`. -/
def AllGeC3b (B : Nat) (l : List WReq) : Prop := ∀ r ∈ l, r.isWrite = true → B ≤ r.upto

/-- The list starts with a write request. -/
def HeadWC3b (l : List WReq) : Prop := ∃ r q, l = r :: q ∧ r.isWrite = true

/-- "Guarded", on the data: the requests not handled yet, the postponed ids, and
whether the worker is safe right now. -/
def GDC3b (B : Nat) (rest : List WReq) (postponed : List Nat) (safe : Prop) : Prop :=
  (∃ pre suf, rest = pre ++ suf ∧ AllGeC3b B suf ∧ HeadWC3b suf ∧ rmIds suf ≠ []) ∨
  (AllGeC3b B rest ∧ safe ∧ (postponed ≠ [] ∨ rmIds rest ≠ []))

/-- The worker is safe for `B`: the batch in hand contains a write with
`upto ≥ B` (a successful sync acknowledges `B`, a failed one postpones removals),
or there is no batch in hand and the last sync failed. -/
def PcSafeC3b (B : Nat) (w : Worker) : Prop :=
  match w.pc with
  | .writing _ b _ => ∃ r ∈ b, B ≤ r.upto
  | .syncOld b _ => ∃ r ∈ b, B ≤ r.upto
  | .syncNew b _ => ∃ r ∈ b, B ≤ r.upto
  | _ => w.lastSyncFailed = true

def WGuardC3b (B : Nat) (w : Worker) : Prop := GDC3b B w.rest w.postponed (PcSafeC3b B w)

/-- The marker invariant. -/
def MInvC3b (s : Store) (w : Worker) (B A : Nat) : Prop :=
  B ≤ A ∨ s.removed ≠ [] ∨ WGuardC3b B w

/-! ### The data level -/

theorem AllGeC3b.append {B : Nat} {a b : List WReq} (ha : AllGeC3b B a) (hb : AllGeC3b B b) :
    AllGeC3b B (a ++ b) := by
  intro r hr hw
  rcases List.mem_append.mp hr with k | k
  · exact ha r k hw
  · exact hb r k hw

theorem AllGeC3b.right {B : Nat} {a b : List WReq} (h : AllGeC3b B (a ++ b)) : AllGeC3b B b :=
  fun r hr hw => h r (List.mem_append_right _ hr) hw

theorem AllGeC3b.left {B : Nat} {a b : List WReq} (h : AllGeC3b B (a ++ b)) : AllGeC3b B a :=
  fun r hr hw => h r (List.mem_append_left _ hr) hw

theorem AllGeC3b.tail {B : Nat} {r : WReq} {q : List WReq} (h : AllGeC3b B (r :: q)) : AllGeC3b B q :=
  fun x hx hw => h x (List.mem_cons_of_mem _ hx) hw

theorem GDC3b.mono {B : Nat} {rest : List WReq} {p : List Nat} {safe safe' : Prop}
    (h : GDC3b B rest p safe) (hs : safe → safe') : GDC3b B rest p safe' := by
  rcases h with h | ⟨h1, h2, h3⟩
  · exact Or.inl h
  · exact Or.inr ⟨h1, hs h2, h3⟩

/-- The caller pushes requests whose writes have `upto ≥ B`. -/
theorem GDC3b.push {B : Nat} {rest q : List WReq} {p : List Nat} {safe : Prop}
    (h : GDC3b B rest p safe) (hq : AllGeC3b B q) : GDC3b B (rest ++ q) p safe := by
  rcases h with ⟨pre, suf, h1, h2, ⟨r0, q0, h3, h4⟩, h5⟩ | ⟨h1, h2, h3⟩
  · refine Or.inl ⟨pre, suf ++ q, by rw [h1, List.append_assoc], h2.append hq,
      ⟨r0, q0 ++ q, by rw [h3]; rfl, h4⟩, ?_⟩
    rw [rmIds_append]
    intro e
    exact h5 (List.append_eq_nil_iff.mp e).1
  · refine Or.inr ⟨h1.append hq, h2, ?_⟩
    rcases h3 with k | k
    · exact Or.inl k
    · right
      rw [rmIds_append]
      intro e
      exact k (List.append_eq_nil_iff.mp e).1

/-- The worker takes a non-write request from the front. -/
theorem GDC3b.pop {B : Nat} {r : WReq} {q : List WReq} {p p' : List Nat} {safe : Prop}
    (h : GDC3b B (r :: q) p safe) (hr : r.isWrite = false)
    (hp : safe → (p ≠ [] ∨ rmIds (r :: q) ≠ []) → (p' ≠ [] ∨ rmIds q ≠ [])) :
    GDC3b B q p' safe := by
  rcases h with ⟨pre, suf, h1, h2, ⟨r0, q0, h3, h4⟩, h5⟩ | ⟨h1, h2, h3⟩
  · cases pre with
    | nil =>
      exfalso
      rw [List.nil_append, h3] at h1
      injection h1 with e1 _
      rw [e1, h4] at hr
      cases hr
    | cons x pre' =>
      rw [List.cons_append] at h1
      injection h1 with _ e2
      exact Or.inl ⟨pre', suf, e2, h2, ⟨r0, q0, h3, h4⟩, h5⟩
  · exact Or.inr ⟨h1.tail, h2, hp h2 h3⟩

/-- An empty removal request in front changes nothing (the retried removal behind a batch). -/
theorem GDC3b.consNilD14 {B : Nat} {q : List WReq} {p : List Nat} {safe : Prop}
    (h : GDC3b B q p safe) : GDC3b B (.removeChunks [] :: q) p safe := by
  rcases h with ⟨pre, suf, h1, h2, h3, h5⟩ | ⟨h1, h2, h3⟩
  · exact Or.inl ⟨.removeChunks [] :: pre, suf, by rw [h1]; rfl, h2, h3, h5⟩
  · refine Or.inr ⟨?_, h2, ?_⟩
    · intro r hr hw
      rcases List.mem_cons.mp hr with e | e
      · subst e; cases hw
      · exact h1 r e hw
    · simpa [rmIds] using h3

/-- The worker takes a batch of writes from the front. -/
theorem GDC3b.batch {B : Nat} {b rest : List WReq} {p : List Nat} {safe : Prop}
    (h : GDC3b B (b ++ rest) p safe) (hb : ∀ r ∈ b, r.isWrite = true) (hne : b ≠ []) :
    GDC3b B rest p (∃ r ∈ b, B ≤ r.upto) := by
  rcases h with ⟨pre, suf, h1, h2, ⟨r0, q0, h3, h4⟩, h5⟩ | ⟨h1, h2, h3⟩
  · rcases List.append_eq_append_iff.mp h1 with ⟨a', e1, e2⟩ | ⟨c', e1, e2⟩
    · -- the batch ends inside `pre`
      exact Or.inl ⟨a', suf, e2, h2, ⟨r0, q0, h3, h4⟩, h5⟩
    · -- the batch reaches into `suf`
      cases c' with
      | nil =>
        rw [List.nil_append] at e2
        exact Or.inl ⟨[], suf, by rw [e2]; rfl, h2, ⟨r0, q0, h3, h4⟩, h5⟩
      | cons x c'' =>
        have hx : x = r0 := by
          rw [h3, List.cons_append] at e2
          injection e2 with e _
          exact e.symm
        have hxb : r0 ∈ b := by rw [e1, ← hx]; simp
        have hge : B ≤ r0.upto := h2 r0 (by rw [h3]; exact List.mem_cons_self) h4
        have hc' : ∀ r ∈ x :: c'', r.isWrite = true := fun r hr =>
          hb r (by rw [e1]; exact List.mem_append_right _ hr)
        refine Or.inr ⟨?_, ⟨r0, hxb, hge⟩, Or.inr ?_⟩
        · rw [e2] at h2; exact h2.right
        · rw [e2, rmIds_append, rmIds_writes _ hc', List.nil_append] at h5
          exact h5
  · cases b with
    | nil => exact absurd rfl hne
    | cons r0 b' =>
      have hge : B ≤ r0.upto := h1 r0 (by simp) (hb r0 List.mem_cons_self)
      refine Or.inr ⟨h1.right, ⟨r0, List.mem_cons_self, hge⟩, ?_⟩
      rcases h3 with k | k
      · exact Or.inl k
      · right
        rw [rmIds_append, rmIds_writes _ hb, List.nil_append] at k
        exact k

/-! ### The building blocks of a worker step -/

theorem toRecv_guard_C3b {B : Nat} (c : WCtx)
    (h : GDC3b B c.w.queue c.w.postponed (c.w.lastSyncFailed = true))
    (hnd : c.toRecv.w.pc ≠ .dead) : WGuardC3b B c.toRecv.w := by
  rcases c.toRecv_cases with ⟨r, q, hq, e⟩ | ⟨hq, _, e⟩ | ⟨hq, _, e⟩
  · rw [e]
    rw [hq] at h
    simpa [WGuardC3b, Worker.rest, WPc.inHand, PcSafeC3b] using h
  · rw [e]
    simpa [WGuardC3b, Worker.rest, WPc.inHand, PcSafeC3b] using h
  · rw [e] at hnd
    exact absurd rfl hnd

theorem nonFlush_guard_C3b {B : Nat} (c : WCtx) (r : WReq) (hr : r.isWrite = false)
    (h : GDC3b B (r :: c.w.queue) c.w.postponed (c.w.lastSyncFailed = true))
    (hnd : (c.nonFlush r).w.pc ≠ .dead) : WGuardC3b B (c.nonFlush r).w := by
  cases r with
  | write u d cb => cases hr
  | appendFile n p =>
    have e : c.nonFlush (.appendFile n p) =
        ({ c with w := { c.w with files := c.w.files ++ [FileEnt.mk n p] } } : WCtx).toRecv := rfl
    rw [e] at hnd ⊢
    apply toRecv_guard_C3b _ _ hnd
    exact h.pop rfl (fun _ k => by simpa [rmIds] using k)
  | removeChunks ids =>
    by_cases hl : c.w.lastSyncFailed = true
    · have e : c.nonFlush (.removeChunks ids) =
          ({ c with w := { c.w with postponed := c.w.postponed ++ ids } } : WCtx).toRecv := by
        simp [WCtx.nonFlush, hl]
      rw [e] at hnd ⊢
      apply toRecv_guard_C3b _ _ hnd
      refine h.pop rfl (fun _ k => ?_)
      simp only [rmIds] at k
      rcases k with k | k
      · left; intro e0; exact k (List.append_eq_nil_iff.mp e0).1
      · by_cases hi : ids = []
        · right; rw [hi, List.nil_append] at k; exact k
        · left; intro e0; exact hi (List.append_eq_nil_iff.mp e0).2
    · have hf : c.w.lastSyncFailed = false := by simpa using hl
      have h' : GDC3b B c.w.queue [] (c.w.lastSyncFailed = true) :=
        h.pop rfl (fun k _ => absurd k hl)
      cases hall : c.w.postponed ++ ids with
      | nil =>
        have e : c.nonFlush (.removeChunks ids) = c.toRecv := by
          simp [WCtx.nonFlush, hf, hall]
        rw [e] at hnd ⊢
        apply toRecv_guard_C3b _ _ hnd
        exact h.pop rfl (fun k _ => absurd k hl)
      | cons i rest =>
        have e : c.nonFlush (.removeChunks ids) =
            { c with w := { c.w with pc := .unlinking (i :: rest), postponed := [] } } := by
          simp [WCtx.nonFlush, hf, hall]
        rw [e]
        simpa [WGuardC3b, Worker.rest, WPc.inHand, PcSafeC3b] using h'

theorem finishBatch_guard_C3b {B : Nat} (c : WCtx) (b : List WReq) (t : Option WReq) (ok : Bool)
    (ht : tailOK t) (h : GDC3b B (t.toList ++ c.w.queue) c.w.postponed (ok = false))
    (hnd : (c.finishBatch b t ok).w.pc ≠ .dead) : WGuardC3b B (c.finishBatch b t ok).w := by
  rw [WCtx.finishBatch_eq] at hnd ⊢
  have h0 := h.mono (safe' := (!ok) = true) (by intro e; rw [e]; rfl)
  cases t with
  | none =>
    apply nonFlush_guard_C3b _ _ rfl _ hnd
    simpa using h0.consNilD14
  | some r =>
    cases r with
    | write u d cb => exact absurd (ht _ rfl) (by simp [WReq.isWrite])
    | removeChunks ids =>
      apply nonFlush_guard_C3b _ _ rfl _ hnd
      simpa using h0
    | appendFile n p =>
      apply nonFlush_guard_C3b _ _ rfl _ hnd
      have h1 : GDC3b B c.w.queue c.w.postponed ((!ok) = true) :=
        GDC3b.pop (r := .appendFile n p) (by simpa using h0) rfl (fun _ k => by simpa [rmIds] using k)
      simpa using h1.consNilD14

theorem startSync_guard_C3b {B : Nat} (c : WCtx) (b : List WReq) (t : Option WReq)
    (hf : c.w.files ≠ [])
    (h : GDC3b B (t.toList ++ c.w.queue) c.w.postponed (∃ r ∈ b, B ≤ r.upto)) :
    WGuardC3b B (c.startSync b t).w := by
  rcases c.startSync_cases b t with ⟨e, _⟩ | ⟨f, _, e⟩ | ⟨_, e⟩
  · exact absurd e hf
  · rw [e]
    simpa [WGuardC3b, Worker.rest, WPc.inHand, PcSafeC3b] using h
  · rw [e]
    simpa [WGuardC3b, Worker.rest, WPc.inHand, PcSafeC3b] using h

theorem startWrites_guard_C3b {B : Nat} (c : WCtx) (b : List WReq) (t : Option WReq)
    (hf : c.w.files ≠ [])
    (h : GDC3b B (t.toList ++ c.w.queue) c.w.postponed (∃ r ∈ b, B ≤ r.upto)) :
    WGuardC3b B (c.startWrites b t).w := by
  rcases c.startWrites_cases b t with ⟨_, e⟩ | ⟨_, e⟩
  · rw [e]; exact startSync_guard_C3b c b t hf h
  · rw [e]
    simpa [WGuardC3b, Worker.rest, WPc.inHand, PcSafeC3b] using h

theorem le_maxUpto_of_mem_C3b {B : Nat} {b : List WReq} (h : ∃ r ∈ b, B ≤ r.upto) : B ≤ maxUpto b := by
  obtain ⟨r, hr, hge⟩ := h
  exact Nat.le_trans hge (le_maxUpto hr)

/-! ### One worker step -/

/-- **A guarded worker stays guarded, or the step acknowledges `B`.** -/
theorem WGuardC3b.step {B : Nat} (c : WCtx) (out : Outcome) (A : Nat) (hwf : c.w.WF)
    (hok : c.w.pc.ok c.w.files) (h : WGuardC3b B c.w) (hnd : (c.step out).w.pc ≠ .dead) :
    B ≤ c.ackStep out A ∨ WGuardC3b B (c.step out).w := by
  revert hnd
  apply WCtx.step_elim (P := fun c' => c'.w.pc ≠ .dead → (B ≤ c.ackStep out A ∨ WGuardC3b B c'.w)) c out
  · intro _ _ _; exact Or.inr h
  · -- idle
    intro hpc _ hnd
    right
    apply toRecv_guard_C3b c _ hnd
    simpa [WGuardC3b, Worker.rest, hpc, WPc.inHand, PcSafeC3b] using h
  · -- got a write
    intro r hpc hr _ _
    right
    obtain ⟨h1, h2, h3⟩ := collectBatch_spec 1024 c.w.queue
    have hfiles : c.w.files ≠ [] := by
      simp only [Worker.WF, hpc] at hwf; exact hwf
    apply startWrites_guard_C3b _ _ _ (by simpa using hfiles)
    simp only [WCtx.setQueue_w]
    have hb : ∀ x ∈ r :: (collectBatch 1024 c.w.queue).1, x.isWrite = true := by
      intro x hx
      rcases List.mem_cons.mp hx with e' | e'
      · subst e'; exact hr
      · exact h2 x e'
    have h0 : GDC3b B ((r :: (collectBatch 1024 c.w.queue).1) ++
        ((collectBatch 1024 c.w.queue).2.1.toList ++ (collectBatch 1024 c.w.queue).2.2))
        c.w.postponed (c.w.lastSyncFailed = true) := by
      have : (r :: (collectBatch 1024 c.w.queue).1) ++
          ((collectBatch 1024 c.w.queue).2.1.toList ++ (collectBatch 1024 c.w.queue).2.2)
          = r :: c.w.queue := by
        rw [List.cons_append, ← List.append_assoc, ← h1]
      rw [this]
      simpa [WGuardC3b, Worker.rest, hpc, WPc.inHand, PcSafeC3b] using h
    exact h0.batch hb (by simp)
  · -- got a non-write
    intro r hpc hr _ hnd
    right
    apply nonFlush_guard_C3b c r hr _ hnd
    simpa [WGuardC3b, Worker.rest, hpc, WPc.inHand, PcSafeC3b] using h
  · -- writing []
    intro b t hpc _ _
    right
    have hfiles : c.w.files ≠ [] := by
      simp only [Worker.WF, hpc] at hwf; exact hwf
    apply startSync_guard_C3b c b t hfiles
    simpa [WGuardC3b, Worker.rest, hpc, WPc.inHand, PcSafeC3b] using h
  · -- write fails
    intro d rest b t _ _ _ hnd
    exact absurd (WCtx.die_dead _ _) hnd
  · -- partial write
    intro d rest b t k hpc _ _ _ _ _
    right
    have : GDC3b B (t.toList ++ c.w.queue) c.w.postponed (∃ r ∈ b, B ≤ r.upto) := by
      simpa [WGuardC3b, Worker.rest, hpc, WPc.inHand, PcSafeC3b] using h
    simpa [WGuardC3b, Worker.rest, WPc.inHand, PcSafeC3b] using this
  · -- last write
    intro d b t hpc _ _ _
    right
    have hfiles : c.w.files ≠ [] := by
      simp only [Worker.WF, hpc] at hwf; exact hwf
    apply startSync_guard_C3b _ b t (by simpa using hfiles)
    simpa [WGuardC3b, Worker.rest, hpc, WPc.inHand, PcSafeC3b] using h
  · -- more writes
    intro d d' rest b t hpc _ _ _
    right
    have : GDC3b B (t.toList ++ c.w.queue) c.w.postponed (∃ r ∈ b, B ≤ r.upto) := by
      simpa [WGuardC3b, Worker.rest, hpc, WPc.inHand, PcSafeC3b] using h
    simpa [WGuardC3b, Worker.rest, WPc.inHand, PcSafeC3b] using this
  · -- syncOld, no files
    intro b t hpc hf _ _
    exfalso
    simp only [Worker.WF, hpc, hf] at hwf
    simp at hwf
  · -- syncOld fails
    intro b t f rest hpc _ _ _ hnd
    right
    have ht : tailOK t := by rw [hpc] at hok; exact hok.1
    apply finishBatch_guard_C3b _ b t false ht _ hnd
    have : GDC3b B (t.toList ++ c.w.queue) c.w.postponed (∃ r ∈ b, B ≤ r.upto) := by
      simpa [WGuardC3b, Worker.rest, hpc, WPc.inHand, PcSafeC3b] using h
    exact this.mono (fun _ => rfl)
  · -- syncOld ok
    intro b t f rest hpc hf _ _ _
    right
    have hrest : rest ≠ [] := by
      simp only [Worker.WF, hpc, hf] at hwf
      intro e; rw [e] at hwf; simp at hwf
    apply startSync_guard_C3b _ b t (by simpa using hrest)
    simpa [WGuardC3b, Worker.rest, hpc, WPc.inHand, PcSafeC3b] using h
  · -- syncNew, no files
    intro b t hpc hf _ _
    exfalso
    simp only [Worker.WF, hpc, hf] at hwf
    simp at hwf
  · -- syncNew fails
    intro b t f rest hpc _ _ _ hnd
    right
    have ht : tailOK t := by rw [hpc] at hok; exact hok
    apply finishBatch_guard_C3b _ b t false ht _ hnd
    have : GDC3b B (t.toList ++ c.w.queue) c.w.postponed (∃ r ∈ b, B ≤ r.upto) := by
      simpa [WGuardC3b, Worker.rest, hpc, WPc.inHand, PcSafeC3b] using h
    exact this.mono (fun _ => rfl)
  · -- syncNew ok: the batch is acknowledged
    intro b t f rest hpc _ ho _ hnd
    have ht : tailOK t := by rw [hpc] at hok; exact hok
    have hA : c.ackStep out A = max A (maxUpto b) := by
      simp only [WCtx.ackStep, hpc, ho, if_false]
    have h0 : GDC3b B (t.toList ++ c.w.queue) c.w.postponed (∃ r ∈ b, B ≤ r.upto) := by
      simpa [WGuardC3b, Worker.rest, hpc, WPc.inHand, PcSafeC3b] using h
    rcases h0 with h1 | ⟨_, h2, _⟩
    · right
      apply finishBatch_guard_C3b _ b t true ht _ hnd
      exact Or.inl h1
    · left
      rw [hA]
      exact Nat.le_trans (le_maxUpto_of_mem_C3b h2) (Nat.le_max_right _ _)
  · -- unlinking []
    intro hpc _ hnd
    right
    apply toRecv_guard_C3b c _ hnd
    simpa [WGuardC3b, Worker.rest, hpc, WPc.inHand, PcSafeC3b] using h
  · -- unlink fails
    intro i rest _ _ _ hnd
    exact absurd (WCtx.die_dead _ _) hnd
  · -- last unlink
    intro i hpc _ _ hnd
    right
    apply toRecv_guard_C3b _ _ hnd
    simpa [WGuardC3b, Worker.rest, hpc, WPc.inHand, PcSafeC3b] using h
  · -- more unlinks
    intro i j rest hpc _ _ _
    right
    have : GDC3b B c.w.queue c.w.postponed (c.w.lastSyncFailed = true) := by
      simpa [WGuardC3b, Worker.rest, hpc, WPc.inHand, PcSafeC3b] using h
    simpa [WGuardC3b, Worker.rest, WPc.inHand, PcSafeC3b] using this

end RaftLog
