/-
C03 without "no removal outstanding", part 6: **the ghost invariant**. `gs` lists the
chunks that a purge dropped from the chunk table and whose files are still linked
(oldest first), each with the journal end `m` right after the purge that dropped it
and the number `k` of entry-level writes journalled below `m`. The history and
durability invariant `HInv` holds for the *ghost store* (`s` with those chunks put back),
with a marker `Bh` = the `m` of the last chunk whose file was unlinked — and `Bh ≤ A`:
a file is unlinked only after the purge record that made it obsolete is acknowledged.
-/
import RaftLogModel.Proofs.CrashQG5
namespace RaftLog

/-- A dropped chunk whose file is still linked. -/
structure GhostC3b where
  c : Closed
  /-- the journal end right after the purge call that dropped the chunk -/
  m : Nat
  /-- the number of entry-level writes journalled below `m` -/
  k : Nat

def ghostClosedC3b (gs : List GhostC3b) : List Closed := gs.map (·.c)

/-- What is known about one ghost chunk. -/
structure GEntC3b (s : Store) (fs : Fs) (w : Worker) (r : RefLog) (W : List Op) (Bh A : Nat)
    (cs : List Closed) (p : GhostC3b) : Prop where
  /-- the invariant of the ghost store, tracking the pair `(m, k)` -/
  hinv : HInv (s.liftC3b cs) fs w r W Bh A p.m p.k
  /-- every prefix of the writes of length `≥ k` has purged the chunk's entries -/
  cov : CovC3b W p.k p.c.state.last
  mlo : lastOff p.c.offsets < p.m
  mhi : p.m ≤ s.openEnd
  /-- the file is still linked -/
  linked : fs.has p.c.id = true
  /-- it cannot be unlinked before `m` is acknowledged -/
  guard : p.m ≤ A ∨ p.c.id ∈ s.removed ∨ WGuardAtC3b p.m p.c.id w

structure GInvC3b (s : Store) (fs : Fs) (w : Worker) (r : RefLog) (W : List Op) (A E K Bh : Nat)
    (gs : List GhostC3b) : Prop where
  base : HInv (s.liftC3b (ghostClosedC3b gs)) fs w r W Bh A E K
  ents : ∀ p ∈ gs, GEntC3b s fs w r W Bh A (ghostClosedC3b gs) p
  /-- the ids still to unlink, in the order they will be unlinked, are the ghost chunks -/
  order : w.toRemove ++ s.removed = (ghostClosedC3b gs).map Closed.id
  ack : Bh ≤ A
  mono : gs.Pairwise (fun a b => a.m ≤ b.m)
  lo : ∀ p ∈ gs, Bh ≤ p.m
  unl : UnlPostC3b w

/-! ### One worker step -/

theorem ghost_ids_lt_C3b {s : Store} {fs : Fs} {w : Worker} {p0 : GhostC3b} {gs : List GhostC3b}
    (hj : JInv (s.liftC3b (ghostClosedC3b (p0 :: gs))) fs w) :
    ∀ x ∈ (ghostClosedC3b gs).map Closed.id ++ s.chunkIds, p0.c.id < x := by
  have := hj.chunkIds_sorted
  rw [liftC3b_chunkIds] at this
  simp only [ghostClosedC3b, List.map_cons, List.cons_append, List.pairwise_cons] at this
  exact this.1

theorem GInvC3b.step {s : Store} {c : WCtx} {r : RefLog} {W : List Op} {A E K Bh : Nat}
    {gs : List GhostC3b} (out : Outcome) (h : GInvC3b s c.fs c.w r W A E K Bh gs)
    (hl : LInv s c.fs c.w) (hcov : Covered c) (hwf : c.w.WF) (hnd : (c.step out).w.pc ≠ .dead) :
    ∃ Bh' gs', GInvC3b s (c.step out).fs (c.step out).w r W (c.ackStep out A) E K Bh' gs' := by
  have hj := h.base.inv.j
  have hcur : c.w.cur ∈ Fs.ids c.fs := hj.annFs _ (by simp [Worker.announced])
  have g := WCtx.step_good c out hj.wok hcur hnd
  have hids := WCtx.step_ids c out
  have hlive : ∀ id ∈ (s.liftC3b (ghostClosedC3b gs)).chunkIds, c.fs.has id = true := by
    intro id hid
    rw [liftC3b_chunkIds] at hid
    rcases List.mem_append.mp hid with k | k
    · simp only [ghostClosedC3b, List.map_map, List.mem_map] at k
      obtain ⟨p, hp, hpid⟩ := k
      rw [← hpid]; exact (h.ents p hp).linked
    · exact hl.live id k
  have hstepH : ∀ {E' K' : Nat}, HInv (s.liftC3b (ghostClosedC3b gs)) c.fs c.w r W Bh A E' K' →
      HInv (s.liftC3b (ghostClosedC3b gs)) (c.step out).fs (c.step out).w r W Bh (c.ackStep out A) E' K' :=
    fun hi => HInv.worker hi g hids (DInv.step_live_C3b out hi.dur hi.inv.j hlive hcov hwf hnd)
  have ts := WCtx.step_tstep_C3b c out hj.wok h.unl hnd
  have hguard : ∀ p ∈ gs, p.m ≤ c.ackStep out A ∨ p.c.id ∈ s.removed ∨
      WGuardAtC3b p.m p.c.id (c.step out).w := by
    intro p hp
    rcases (h.ents p hp).guard with k | k | k
    · exact Or.inl (Nat.le_trans k (c.le_ackStep out A))
    · exact Or.inr (Or.inl k)
    · rcases WGuardAtC3b.step c out A hwf hj.wok k hnd with k' | k'
      · exact Or.inl k'
      · exact Or.inr (Or.inr k')
  rcases ts.tr with ⟨e1, e2⟩ | ⟨i, e1, e2, ids, hpc⟩
  · -- nothing unlinked
    refine ⟨Bh, gs, hstepH h.base, fun p hp => ⟨hstepH (h.ents p hp).hinv, (h.ents p hp).cov,
      (h.ents p hp).mlo, (h.ents p hp).mhi, by rw [e2]; exact (h.ents p hp).linked, hguard p hp⟩,
      by rw [e1]; exact h.order, Nat.le_trans h.ack (c.le_ackStep out A), h.mono, h.lo, ts.unl⟩
  · -- the file of the oldest ghost chunk is unlinked
    have hord := h.order
    rw [e1, List.cons_append] at hord
    cases gs with
    | nil => simp [ghostClosedC3b] at hord
    | cons p0 gs' =>
      simp only [ghostClosedC3b, List.map_cons, List.cons.injEq] at hord
      obtain ⟨hi0, hord'⟩ := hord
      have hlt := ghost_ids_lt_C3b hj
      have hp0 := h.ents p0 List.mem_cons_self
      -- the ids left to unlink are not `i`
      have hnotin : i ∉ (c.step out).w.toRemove ++ s.removed := by
        intro hm
        rw [hord'] at hm
        have := hlt i (List.mem_append_left _ (by simpa [ghostClosedC3b] using hm))
        omega
      have hpost : c.w.postponed = [] := h.unl _ hpc
      have htr : c.w.toRemove = (i :: ids) ++ rmIds c.w.rest := by
        simp [Worker.toRemove, hpc, WPc.unl, WPc.inHand, hpost, Worker.rest]
      have htr' : (c.step out).w.toRemove = ids ++ rmIds c.w.rest := by
        rw [htr, List.cons_append] at e1
        exact (List.cons.inj e1).2.symm
      -- so its marker is acknowledged
      have hm0 : p0.m ≤ A := by
        rcases hp0.guard with k | k | k
        · exact k
        · exact absurd (List.mem_append_right _ (hi0 ▸ k)) hnotin
        · rcases k.mem with k' | k'
          · rw [hpost] at k'; cases k'
          · exfalso
            apply hnotin
            rw [htr']
            exact List.mem_append_left _ (List.mem_append_right _ (hi0 ▸ k'))
      have hcl : (s.liftC3b (ghostClosedC3b (p0 :: gs'))).closed
          = p0.c :: (s.liftC3b (ghostClosedC3b gs')).closed := by
        simp [ghostClosedC3b]
      have hpop : ∀ {E' K' : Nat}, HInv (s.liftC3b (ghostClosedC3b (p0 :: gs'))) c.fs c.w r W Bh A E' K' →
          HInv (s.liftC3b (ghostClosedC3b gs')) (c.step out).fs (c.step out).w r W p0.m
            (c.ackStep out A) E' K' :=
        fun hi => (hstepH hi).pop_one_C3b (hstepH hp0.hinv) hcl rfl rfl rfl rfl
          (h.lo p0 List.mem_cons_self) hp0.mlo hp0.mhi hp0.cov
      have hmono := List.pairwise_cons.mp h.mono
      refine ⟨p0.m, gs', hpop h.base, fun p hp => ?_, hord',
        Nat.le_trans hm0 (c.le_ackStep out A), hmono.2, fun p hp => hmono.1 p hp, ts.unl⟩
      have hpe := h.ents p (List.mem_cons_of_mem _ hp)
      refine ⟨hpop hpe.hinv, hpe.cov, hpe.mlo, hpe.mhi, ?_, hguard p (List.mem_cons_of_mem _ hp)⟩
      rw [e2, hpe.linked]
      have := hlt p.c.id (List.mem_append_left _ (by
        simp only [ghostClosedC3b, List.map_map, List.mem_map]; exact ⟨p, hp, rfl⟩))
      have hne : p.c.id ≠ i := by omega
      simp [hne]

/-! ### `runQuiet` -/

theorem GInvC3b.runQuiet {s : Store} {r : RefLog} {W : List Op} {E K : Nat} (n : Nat) :
    ∀ (c : WCtx) (A Bh : Nat) (gs : List GhostC3b), GInvC3b s c.fs c.w r W A E K Bh gs →
    LInv s c.fs c.w → Covered c → c.w.WF → (WCtx.runQuiet n c).w.pc ≠ .dead →
    ∃ Bh' gs', GInvC3b s (WCtx.runQuiet n c).fs (WCtx.runQuiet n c).w r W (WCtx.ackQuiet n c A) E K Bh' gs' := by
  induction n with
  | zero => intro c A Bh gs h _ _ _ _; exact ⟨Bh, gs, h⟩
  | succ n ih =>
    intro c A Bh gs h hl hcov hwf hnd
    unfold WCtx.runQuiet at hnd ⊢
    unfold WCtx.ackQuiet
    by_cases hq : c.w.quiet = true
    · simp only [hq, if_true] at hnd ⊢
      exact ⟨Bh, gs, h⟩
    · simp only [hq] at hnd ⊢
      have hnd1 : (c.step .ok).w.pc ≠ .dead := by
        intro hdead
        rw [WCtx.runQuiet_dead n _ hdead] at hnd
        exact hnd hdead
      have hj := h.base.inv.j
      have hids := WCtx.step_ids c .ok
      obtain ⟨Bh1, gs1, h1⟩ := h.step .ok hl hcov hwf hnd1
      exact ih (c.step .ok) _ Bh1 gs1 h1
        (hl.worker (WCtx.step_link c .ok hj.wok hnd1) hids)
        (WCtx.step_covered c .ok hwf (dies_ok_C3 c) hcov) (WCtx.step_wf c .ok hwf) hnd

end RaftLog
