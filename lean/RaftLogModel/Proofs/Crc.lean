/-
CRC-32 error-detection lemmas (helpers for property C09).

The bit step `crcBit` of the reflected CRC-32 register is a bijection of
`BitVec 32`: `crcPoly` has bit 31 set and `c >>> 1` has it clear, so bit 31 of
`crcBit c` records whether the polynomial was xored in; `uncrcBit` undoes the
step. Everything else (byte step, feeding a byte string, one-byte
substitution) follows by composing injective maps.
-/
import RaftLogModel.Proofs.Codec
namespace RaftLog

/-! ## The bit step is a bijection -/

/-- Explicit inverse of `crcBit`. -/
def uncrcBit (d : BitVec 32) : BitVec 32 :=
  if d.getLsbD 31 then ((d ^^^ crcPoly) <<< 1) ||| 1#32 else d <<< 1

theorem crcPoly_getLsbD_31 : crcPoly.getLsbD 31 = true := by decide

theorem ushiftRight_one_getLsbD_31 (c : BitVec 32) : (c >>> 1).getLsbD 31 = false := by
  simp

theorem shr_shl_or_one (c : BitVec 32) (h : c.getLsbD 0 = true) :
    ((c >>> 1) <<< 1) ||| 1#32 = c := by
  apply BitVec.eq_of_getLsbD_eq
  intro i hi
  simp only [BitVec.getLsbD_or, BitVec.getLsbD_shiftLeft, BitVec.getLsbD_ushiftRight,
    BitVec.getLsbD_one]
  by_cases h0 : i = 0
  · subst h0; simp [h]
  · have : 1 + (i - 1) = i := by omega
    simp [h0, hi, this]

theorem shr_shl (c : BitVec 32) (h : c.getLsbD 0 = false) : (c >>> 1) <<< 1 = c := by
  apply BitVec.eq_of_getLsbD_eq
  intro i hi
  simp only [BitVec.getLsbD_shiftLeft, BitVec.getLsbD_ushiftRight]
  by_cases h0 : i = 0
  · subst h0; simp [-BitVec.getLsbD_eq_getElem, h]
  · have : 1 + (i - 1) = i := by omega
    simp [h0, hi, this]

theorem uncrcBit_crcBit (c : BitVec 32) : uncrcBit (crcBit c) = c := by
  unfold crcBit
  by_cases h : c.getLsbD 0 = true
  · rw [if_pos h]
    unfold uncrcBit
    have h31 : ((c >>> 1) ^^^ crcPoly).getLsbD 31 = true := by
      rw [BitVec.getLsbD_xor, ushiftRight_one_getLsbD_31, crcPoly_getLsbD_31]; rfl
    rw [if_pos h31, BitVec.xor_assoc, BitVec.xor_self, BitVec.xor_zero]
    exact shr_shl_or_one c h
  · have h' : c.getLsbD 0 = false := by simpa using h
    rw [if_neg h]
    unfold uncrcBit
    rw [ushiftRight_one_getLsbD_31]
    simp only [Bool.false_eq_true, if_false]
    exact shr_shl c h'

theorem crcBit_injective (a b : BitVec 32) (h : crcBit a = crcBit b) : a = b := by
  rw [← uncrcBit_crcBit a, ← uncrcBit_crcBit b, h]

/-- `crcBit` is also surjective: `uncrcBit` is a two-sided inverse. -/
theorem crcBit_uncrcBit (d : BitVec 32) : crcBit (uncrcBit d) = d := by
  unfold uncrcBit
  by_cases h : d.getLsbD 31 = true
  · rw [if_pos h]
    unfold crcBit
    have h0 : (((d ^^^ crcPoly) <<< 1) ||| 1#32).getLsbD 0 = true := by
      simp
    rw [if_pos h0]
    have hs : (((d ^^^ crcPoly) <<< 1) ||| 1#32) >>> 1 = d ^^^ crcPoly := by
      apply BitVec.eq_of_getLsbD_eq
      intro i hi
      have h31 : (d ^^^ crcPoly).getLsbD 31 = false := by
        rw [BitVec.getLsbD_xor, h, crcPoly_getLsbD_31]; rfl
      simp only [BitVec.getLsbD_ushiftRight, BitVec.getLsbD_or, BitVec.getLsbD_shiftLeft,
        BitVec.getLsbD_one]
      by_cases hi31 : i = 31
      · subst hi31; simp [-BitVec.getLsbD_eq_getElem, h31]
      · have h1 : 1 + i < 32 := by omega
        have h2 : 1 + i - 1 = i := by omega
        have h3 : ¬ (1 + i < 1) := by omega
        simp [-BitVec.getLsbD_eq_getElem, h1, h2, h3]
    rw [hs, BitVec.xor_assoc, BitVec.xor_self, BitVec.xor_zero]
  · have h' : d.getLsbD 31 = false := by simpa using h
    rw [if_neg h]
    unfold crcBit
    have h0 : (d <<< 1).getLsbD 0 = false := by simp
    rw [h0]
    simp only [Bool.false_eq_true, if_false]
    apply BitVec.eq_of_getLsbD_eq
    intro i hi
    simp only [BitVec.getLsbD_ushiftRight, BitVec.getLsbD_shiftLeft]
    by_cases hi31 : i = 31
    · subst hi31; simp [-BitVec.getLsbD_eq_getElem, h']
    · have h1 : 1 + i < 32 := by omega
      have h2 : 1 + i - 1 = i := by omega
      have h3 : ¬ (1 + i < 1) := by omega
      simp [-BitVec.getLsbD_eq_getElem, h1, h2, h3]

/-! ## Iterated bit steps, the byte step -/

theorem crcBits_injective (n : Nat) (a b : BitVec 32) (h : crcBits n a = crcBits n b) :
    a = b := by
  induction n generalizing a b with
  | zero => exact h
  | succ n ih => exact crcBit_injective a b (ih _ _ h)

theorem xor_right_cancel (a b k : BitVec 32) (h : a ^^^ k = b ^^^ k) : a = b := by
  have := congrArg (· ^^^ k) h
  simpa [BitVec.xor_assoc] using this

theorem xor_left_cancel (c x y : BitVec 32) (h : c ^^^ x = c ^^^ y) : x = y := by
  have := congrArg (c ^^^ ·) h
  simpa [← BitVec.xor_assoc] using this

theorem byteToBV_injective (x y : UInt8)
    (h : BitVec.ofNat 32 x.toNat = BitVec.ofNat 32 y.toNat) : x = y := by
  have := congrArg BitVec.toNat h
  simp only [BitVec.toNat_ofNat] at this
  have hx := x.toNat_lt
  have hy := y.toNat_lt
  apply UInt8.toNat_inj.mp
  omega

theorem crcByte_injective_left {a b : BitVec 32} {x : UInt8}
    (h : crcByte a x = crcByte b x) : a = b :=
  xor_right_cancel _ _ _ (crcBits_injective 8 _ _ h)

theorem crcByte_injective_right {c : BitVec 32} {x y : UInt8}
    (h : crcByte c x = crcByte c y) : x = y :=
  byteToBV_injective x y (xor_left_cancel _ _ _ (crcBits_injective 8 _ _ h))

/-! ## Feeding byte strings -/

theorem crcFeed_append (c : BitVec 32) (xs ys : Bytes) :
    crcFeed c (xs ++ ys) = crcFeed (crcFeed c xs) ys := by
  simp [crcFeed, List.foldl_append]

theorem crcFeed_cons (c : BitVec 32) (x : UInt8) (xs : Bytes) :
    crcFeed c (x :: xs) = crcFeed (crcByte c x) xs := rfl

/-- For a fixed byte string the final register determines the initial one. -/
theorem crcFeed_injective_left (bs : Bytes) {a b : BitVec 32}
    (h : crcFeed a bs = crcFeed b bs) : a = b := by
  induction bs generalizing a b with
  | nil => exact h
  | cons x xs ih => exact crcByte_injective_left (ih h)

theorem crcFeed_single_byte (c : BitVec 32) (pre post : Bytes) {x y : UInt8} (hxy : x ≠ y) :
    crcFeed c (pre ++ x :: post) ≠ crcFeed c (pre ++ y :: post) := by
  intro h
  rw [crcFeed_append, crcFeed_append, crcFeed_cons, crcFeed_cons] at h
  exact hxy (crcByte_injective_right (crcFeed_injective_left post h))

theorem crc32_eq_iff (as bs : Bytes) :
    crc32 as = crc32 bs ↔ crcFeed 0xFFFFFFFF#32 as = crcFeed 0xFFFFFFFF#32 bs := by
  unfold crc32
  constructor
  · intro h
    exact xor_right_cancel _ _ _ (BitVec.eq_of_toNat_eq h)
  · intro h; rw [h]

theorem crc32_single_byte (pre post : Bytes) (x y : UInt8) (hxy : x ≠ y) :
    crc32 (pre ++ x :: post) ≠ crc32 (pre ++ y :: post) := by
  intro h
  exact crcFeed_single_byte _ pre post hxy ((crc32_eq_iff _ _).1 h)

/-! ## Records: the trailing checksum pins down `tag ‖ body` -/

theorem natToBE_injective (w : Nat) {m n : Nat} (hm : m < 256 ^ w) (hn : n < 256 ^ w)
    (h : natToBE w m = natToBE w n) : m = n := by
  have := congrArg beToNat h
  rwa [beToNat_natToBE, beToNat_natToBE, Nat.mod_eq_of_lt hm, Nat.mod_eq_of_lt hn] at this

/-- If `tb ++ sum` (with an 8-byte `sum`) is the encoding of a record `r'`, then
`tb` is its `tag ‖ body` part and `sum` is the checksum of `tb`. -/
theorem encRecord_eq_split {r' : Record} {tb sum : Bytes} (hs : sum.length = 8)
    (h : encRecord r' = tb ++ sum) : encTB r' = tb ∧ sum = natToBE 8 (crc32 tb) := by
  rw [encRecord_eq] at h
  obtain ⟨h1, h2⟩ := List.append_inj' h (by rw [natToBE_length, hs])
  subst h1
  exact ⟨rfl, h2.symm⟩

end RaftLog
