/-
The caller side of the flush worker: the effect sequences of `applyEffs`
keep the worker well-formed and the unsynced files covered; `popObsolete`
pops a prefix; dropping the store quiesces the worker.
-/
import RaftLogModel.Proofs.WorkerRuns
import RaftLogModel.Proofs.Order
namespace RaftLog

/-! ## `applyEffs` -/

/-- `Covered` on the two components the caller thread touches. -/
def CoveredFW (fs : Fs) (w : Worker) : Prop :=
  ∀ f ∈ fs, f.durable < f.data.length → f.linked = true → Trk w f.id

theorem Covered_iff (c : WCtx) : Covered c ↔ CoveredFW c.fs c.w := Iff.rfl

def Worker.push1 (w : Worker) (r : WReq) : Worker := { w with queue := w.queue ++ [r] }

@[simp] theorem Worker.push1_pc (w : Worker) (r : WReq) : (w.push1 r).pc = w.pc := rfl
@[simp] theorem Worker.push1_files (w : Worker) (r : WReq) : (w.push1 r).files = w.files := rfl
@[simp] theorem Worker.push1_queue (w : Worker) (r : WReq) : (w.push1 r).queue = w.queue ++ [r] := rfl

theorem applyEffs_create (id : Nat) (rest : List Eff) (fs : Fs) (w : Worker) (evs : List Ev) :
    applyEffs (.create id :: rest) fs w evs =
      applyEffs rest (fs.create id) w (evs ++ [.create "c" id true]) := rfl
theorem applyEffs_writeHead (id : Nat) (bs : Bytes) (rest : List Eff) (fs : Fs) (w : Worker) (evs : List Ev) :
    applyEffs (.writeHead id bs :: rest) fs w evs =
      applyEffs rest (fs.write id bs) w (evs ++ [.write "c" id bs true]) := rfl
theorem applyEffs_nil (fs : Fs) (w : Worker) (evs : List Ev) : applyEffs [] fs w evs = (true, fs, w, evs) := rfl

theorem applyEffs_send_alive (r : WReq) (rest : List Eff) (fs : Fs) (w : Worker) (evs : List Ev)
    (h : w.pc ≠ .dead) : applyEffs (.send r :: rest) fs w evs = applyEffs rest fs (w.push1 r) evs := by
  cases hpc : w.pc <;> first | exact absurd hpc h | simp [applyEffs, hpc, Worker.push1]

theorem applyEffs_send_dead (r : WReq) (rest : List Eff) (fs : Fs) (w : Worker) (evs : List Ev)
    (h : w.pc = .dead) : (applyEffs (.send r :: rest) fs w evs).1 = false ∧
      (applyEffs (.send r :: rest) fs w evs).2.1 = fs ∧ (applyEffs (.send r :: rest) fs w evs).2.2.1 = w := by
  simp [applyEffs, h]

theorem Trk.push {w : Worker} {x : Nat} (r : WReq) (h : Trk w x) : Trk (w.push1 r) x := by
  rcases h with h | h
  · exact .inl h
  · right
    simp only [pendingAppends, Worker.push1_pc, Worker.push1_queue, List.filterMap_append,
      List.mem_append] at h ⊢
    rcases h with h | h
    · exact .inl h
    · exact .inr (.inl h)

theorem Trk.push_append (w : Worker) (id : Nat) (p : Option LogId) : Trk (w.push1 (.appendFile id p)) id := by
  right
  simp [pendingAppends, WReq.appendId]

theorem Worker.WF.push {w : Worker} (r : WReq) (h : w.WF) (hp : w.pc ≠ .dead) : (w.push1 r).WF := by
  unfold Worker.WF at *
  simp only [Worker.push1_pc, Worker.push1_files]
  cases hpc : w.pc <;> simp_all [Worker.push1]

theorem cbQueue_push (w : Worker) (r : WReq) : cbQueue (w.push1 r) = cbQueue w ++ r.cbId.toList := by
  simp only [cbQueue, Worker.push1_pc, Worker.push1_queue, ← List.append_assoc, List.filterMap_append]
  cases h : r.cbId <;> simp [h]

/-- `applyEffs` keeps the worker well-formed. -/
theorem applyEffs_wf (effs : List Eff) (fs : Fs) (w : Worker) (evs : List Ev) (h : w.WF) :
    (applyEffs effs fs w evs).2.2.1.WF := by
  induction effs generalizing fs w evs with
  | nil => exact h
  | cons e rest ih =>
    cases e with
    | create id => exact ih _ _ _ h
    | createFailed id => exact ih _ _ _ h
    | writeHead id bs => exact ih _ _ _ h
    | send r =>
      by_cases hp : w.pc = .dead
      · rw [(applyEffs_send_dead r rest fs w evs hp).2.2]; exact h
      · rw [applyEffs_send_alive r rest fs w evs hp]; exact ih _ _ _ (h.push r hp)

theorem Worker.settle_cases (w : Worker) :
    (∃ r q, w.pc = .idle ∧ w.queue = r :: q ∧ w.settle = { w with pc := .got r, queue := q }) ∨
    w.settle = w := by
  unfold Worker.settle
  split
  · rename_i r q h1 h2; exact .inl ⟨r, q, h1, h2, rfl⟩
  · exact .inr rfl

theorem Worker.WF.settle {w : Worker} (h : w.WF) : w.settle.WF := by
  rcases w.settle_cases with ⟨r, q, h1, h2, he⟩ | he <;> rw [he]
  · simp only [Worker.WF, h1] at h
    simpa [Worker.WF] using h
  · exact h

theorem pendingAppends_settle (w : Worker) : pendingAppends w.settle = pendingAppends w := by
  rcases w.settle_cases with ⟨r, q, h1, h2, he⟩ | he <;> rw [he]
  simp [pendingAppends, h1, h2, WPc.held]

theorem cbQueue_settle (w : Worker) : cbQueue w.settle = cbQueue w := by
  rcases w.settle_cases with ⟨r, q, h1, h2, he⟩ | he <;> rw [he]
  simp [cbQueue, h1, h2, WPc.batch]

theorem files_settle (w : Worker) : w.settle.files = w.files := by
  rcases w.settle_cases with ⟨r, q, h1, h2, he⟩ | he <;> rw [he]

theorem CoveredFW.settle {fs : Fs} {w : Worker} (h : CoveredFW fs w) : CoveredFW fs w.settle := by
  intro f hf hu hl
  have := h f hf hu hl
  unfold Trk at *
  rw [pendingAppends_settle, files_settle]; exact this

theorem Fs.mem_create {fs : Fs} {id : Nat} {g : File} (h : g ∈ fs.create id) : g.id = id ∨ g ∈ fs := by
  simp only [Fs.create, List.mem_append, List.mem_filter, List.mem_singleton] at h
  rcases h with h | h
  · exact .inr h.1
  · left; rw [h]

/-- The effects of `tryCloseFull`. -/
def rotateEffs (s : Store) : List Eff :=
  [Eff.create s.openEnd, Eff.writeHead s.openEnd (encRecord (.state s.st))] ++
    (if s.pending.isEmpty then [] else [Eff.send (.write s.openEnd s.pending none)]) ++
    [Eff.send (.appendFile s.openEnd s.st.last)]

theorem tryCloseFull_effs (s : Store) (fsHas : Nat → Bool) :
    (s.tryCloseFull fsHas).2.2 = [] ∨ (s.tryCloseFull fsHas).2.2 = [.createFailed s.openEnd] ∨
    (s.tryCloseFull fsHas).2.2 = rotateEffs s := by
  unfold Store.tryCloseFull rotateEffs
  by_cases h1 : (!s.isOpenFull) = true
  · simp [h1]
  · by_cases h2 : fsHas s.openEnd = true
    · simp [h1, h2]
    · right; right; simp [h1, h2]

theorem rotateEffs_covered (s : Store) (fs : Fs) (w : Worker) (evs : List Ev)
    (hp : w.pc ≠ .dead) (hc : CoveredFW fs w) :
    (applyEffs (rotateEffs s) fs w evs).1 = true ∧
    CoveredFW (applyEffs (rotateEffs s) fs w evs).2.1 (applyEffs (rotateEffs s) fs w evs).2.2.1 := by
  have key : ∀ (w' : Worker) (evs' : List Ev), w'.pc ≠ .dead → (∀ x, Trk w x → Trk w' x) →
      (applyEffs [Eff.send (.appendFile s.openEnd s.st.last)]
        ((fs.create s.openEnd).write s.openEnd (encRecord (.state s.st))) w' evs').1 = true ∧
      CoveredFW (applyEffs [Eff.send (.appendFile s.openEnd s.st.last)]
        ((fs.create s.openEnd).write s.openEnd (encRecord (.state s.st))) w' evs').2.1
        (applyEffs [Eff.send (.appendFile s.openEnd s.st.last)]
        ((fs.create s.openEnd).write s.openEnd (encRecord (.state s.st))) w' evs').2.2.1 := by
    intro w' evs' hp' hT
    rw [applyEffs_send_alive _ _ _ _ _ hp', applyEffs_nil]
    refine ⟨rfl, ?_⟩
    intro g hg hu hl
    dsimp only at hg ⊢
    rcases Fs.mem_write hg with h | h
    · rw [h]; exact Trk.push_append _ _ _
    · rcases Fs.mem_create h with h | h
      · rw [h]; exact Trk.push_append _ _ _
      · exact (hT _ (hc g h hu hl)).push _
  unfold rotateEffs
  by_cases hpe : s.pending.isEmpty = true
  · simp only [hpe, ↓reduceIte, List.append_nil, List.cons_append, List.nil_append, applyEffs_create,
      applyEffs_writeHead]
    exact key w _ hp (fun x h => h)
  · simp only [hpe, Bool.false_eq_true, ↓reduceIte, List.cons_append, List.nil_append, applyEffs_create,
      applyEffs_writeHead]
    rw [applyEffs_send_alive _ _ _ _ _ hp]
    exact key _ _ (by simpa using hp) (fun x h => h.push _)

/-- The rotation sequence (`create`, head write, optional data write,
`appendFile`) and every other outcome of `tryCloseFull`: all sends succeed and
coverage is preserved, as long as the worker is alive. -/
theorem tryCloseFull_covered (s : Store) (fsHas : Nat → Bool) (fs : Fs) (w : Worker) (evs : List Ev)
    (hp : w.pc ≠ .dead) (hc : CoveredFW fs w) :
    (applyEffs (s.tryCloseFull fsHas).2.2 fs w evs).1 = true ∧
    CoveredFW (applyEffs (s.tryCloseFull fsHas).2.2 fs w evs).2.1
      (applyEffs (s.tryCloseFull fsHas).2.2 fs w evs).2.2.1 := by
  rcases tryCloseFull_effs s fsHas with h | h | h <;> rw [h]
  · exact ⟨rfl, hc⟩
  · exact ⟨rfl, hc⟩
  · exact rotateEffs_covered s fs w evs hp hc

/-- The flush sequence (`write`, optional `removeChunks`). -/
theorem flush_covered (s : Store) (cb : Option Nat) (fs : Fs) (w : Worker) (evs : List Ev)
    (hp : w.pc ≠ .dead) (hc : CoveredFW fs w) :
    (applyEffs (s.flush cb).2 fs w evs).1 = true ∧
    (applyEffs (s.flush cb).2 fs w evs).2.1 = fs ∧
    CoveredFW fs (applyEffs (s.flush cb).2 fs w evs).2.2.1 := by
  unfold Store.flush
  dsimp only
  by_cases hr : s.removed.isEmpty = true
  · simp only [hr, ↓reduceIte, List.append_nil]
    rw [applyEffs_send_alive _ _ _ _ _ hp, applyEffs_nil]
    exact ⟨rfl, rfl, fun g hg hu hl => (hc g hg hu hl).push _⟩
  · simp only [hr, Bool.false_eq_true, ↓reduceIte, List.cons_append, List.nil_append]
    rw [applyEffs_send_alive _ _ _ _ _ hp, applyEffs_send_alive _ _ _ _ _ (by simpa using hp), applyEffs_nil]
    exact ⟨rfl, rfl, fun g hg hu hl => ((hc g hg hu hl).push _).push _⟩

/-! ## `popObsolete` -/

theorem popObsolete_spec (upto : LogId) (l : List Closed) :
    ∃ k, (popObsolete upto l).1 = (l.take k).map Closed.id ∧ (popObsolete upto l).2 = l.drop k ∧
      (∀ c ∈ l.take k, optLt (some upto) c.state.last = false) ∧
      (∀ c, (l.drop k).head? = some c → optLt (some upto) c.state.last = true) := by
  induction l with
  | nil => exact ⟨0, by simp [popObsolete]⟩
  | cons c rest ih =>
    by_cases h : optLt (some upto) c.state.last = true
    · refine ⟨0, by simp [popObsolete, h], by simp [popObsolete, h], by simp, ?_⟩
      intro c' hc'
      simp only [List.drop_zero, List.head?_cons, Option.some.injEq] at hc'
      rw [← hc']; exact h
    · obtain ⟨k, h1, h2, h3, h4⟩ := ih
      refine ⟨k + 1, by simp [popObsolete, h, h1], by simp [popObsolete, h, h2], ?_, ?_⟩
      · intro c' hc'
        simp only [List.take_succ_cons, List.mem_cons] at hc'
        rcases hc' with rfl | hc'
        · simpa using h
        · exact h3 c' hc'
      · intro c' hc'
        exact h4 c' (by simpa using hc')

/-! ## Dropping the store -/

/-- The worker context right after the channel was closed. -/
def Sys.dropCtx (y : Sys) (s : Store) : WCtx :=
  let w0 := { y.worker with senderAlive := false }
  let c : WCtx := { w := w0, fs := y.fs, cache := s.cache }
  match w0.pc with
  | .idle => c.toRecv
  | _ => c

/-- The worker context when `drop` returns (the worker thread was joined). -/
def Sys.dropEnd (y : Sys) (s : Store) : WCtx :=
  WCtx.runQuiet (y.dropCtx s).w.fuel (y.dropCtx s)

theorem Sys.dropStore_eq (y : Sys) (s : Store) (hs : y.store = some s) :
    y.dropStore = ({ y with worker := { (y.dropEnd s).w with pc := .dead }, fs := (y.dropEnd s).fs,
                            store := none, locked := false }, (y.dropEnd s).evs) := by
  simp only [Sys.dropStore, hs]
  rfl

theorem Sys.dropCtx_cases (y : Sys) (s : Store) :
    (y.worker.pc = .idle ∧
      y.dropCtx s = (({ w := { y.worker with senderAlive := false }, fs := y.fs, cache := s.cache } : WCtx)).toRecv) ∨
    (y.worker.pc ≠ .idle ∧
      y.dropCtx s = { w := { y.worker with senderAlive := false }, fs := y.fs, cache := s.cache }) := by
  unfold Sys.dropCtx
  cases hpc : y.worker.pc <;> simp [hpc]

theorem Sys.dropCtx_closing (y : Sys) (s : Store) (hdq : y.worker.pc = .dead → y.worker.queue = []) :
    (y.dropCtx s).w.Closing := by
  rcases y.dropCtx_cases s with ⟨_, he⟩ | ⟨hn, he⟩ <;> rw [he]
  · exact WCtx.toRecv_closing _ rfl
  · exact ⟨rfl, hn, hdq⟩

theorem Sys.dropCtx_todoOK (y : Sys) (s : Store) (ht : y.worker.TodoOK) : (y.dropCtx s).w.TodoOK := by
  rcases y.dropCtx_cases s with ⟨_, he⟩ | ⟨hn, he⟩ <;> rw [he]
  · exact .of_isRest (WCtx.toRecv_pc _).1.isRest
  · exact ht

theorem Sys.dropCtx_files (y : Sys) (s : Store) : (y.dropCtx s).w.files = y.worker.files := by
  rcases y.dropCtx_cases s with ⟨_, he⟩ | ⟨hn, he⟩ <;> rw [he]
  simp

theorem Sys.dropCtx_postponed (y : Sys) (s : Store) : (y.dropCtx s).w.postponed = y.worker.postponed := by
  rcases y.dropCtx_cases s with ⟨_, he⟩ | ⟨hn, he⟩ <;> rw [he]
  simp

/-- The join in `drop` ends with the worker thread gone and nothing queued. -/
theorem Sys.dropEnd_dead (y : Sys) (s : Store) (hdq : y.worker.pc = .dead → y.worker.queue = [])
    (ht : y.worker.TodoOK) :
    (y.dropEnd s).w.pc = .dead ∧ (y.dropEnd s).w.queue = [] := by
  apply WCtx.runQuiet_closing _ _ (y.dropCtx_closing s hdq)
  have := (y.dropCtx s).w.drainCost_le_fuel (y.dropCtx_todoOK s ht)
  omega

end RaftLog
