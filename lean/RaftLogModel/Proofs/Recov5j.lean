/-
C05 (crash recoverability), part 10: from the store with ALL dropped chunks put back to the
ghost store (dropped chunks whose files are still linked): the ghost journal is a suffix
of the total journal, so payload mirroring holds for it.
-/
import RaftLogModel.Proofs.Recov5i
namespace RaftLog

theorem RepC.state_of_mem_C5b : ∀ (jl : List (Closed × List Record)) (st st' : RState) (l l' : Log),
    RepC jl st l st' l' → ∀ p ∈ jl, ∃ st0, stRun p.2 st0 = some p.1.state := by
  intro jl
  induction jl with
  | nil => intro _ _ _ _ _ p hp; cases hp
  | cons q rest ih =>
    intro st st' l l' h p hp
    obtain ⟨c, rs⟩ := q
    obtain ⟨st1, l1, g1, _, g3, _, _, g6⟩ := h
    rcases List.mem_cons.mp hp with e | e
    · subst e; exact ⟨st, by rw [g3]; exact g1⟩
    · exact ih _ _ _ _ g6 p e

/-- A closed chunk is determined by its id, the bytes of its file, and being replayable. -/
theorem chunk_determined_C5b {p q : Closed × List Record} {B : Bytes}
    (hp : ChunkRecs p.1.offsets p.2 B) (hq : ChunkRecs q.1.offsets q.2 B) (hid : p.1.id = q.1.id)
    {a b : RState} (hpa : stRun p.2 a = some p.1.state) (hqb : stRun q.2 b = some q.1.state) : p = q := by
  obtain ⟨c1, r1⟩ := p
  obtain ⟨c2, r2⟩ := q
  simp only at hp hq hid hpa hqb
  have hr : r1 = r2 := encAll_inj_C3b hp.1 hq.1 (by rw [← hp.2.2.2, ← hq.2.2.2])
  subst hr
  have hoff : c1.offsets = c2.offsets := by
    rw [← hp.2.2.1, ← hq.2.2.1]
    simp only [Closed.id] at hid
    rw [hid]
  obtain ⟨x, tl, e⟩ := hp.2.1
  rw [e, stRun_state_head x tl a b, ← e, hqb] at hpa
  injection hpa with hst
  obtain ⟨o1, s1⟩ := c1
  obtain ⟨o2, s2⟩ := c2
  simp only at hoff hst
  subst hoff; subst hst
  rfl

theorem chunks_determined_C5b {Bf : Nat → Bytes} : ∀ (la lb : List (Closed × List Record)),
    la.map (·.1.id) = lb.map (·.1.id) →
    (∀ p ∈ la, ChunkRecs p.1.offsets p.2 (Bf p.1.id) ∧ ∃ a, stRun p.2 a = some p.1.state) →
    (∀ p ∈ lb, ChunkRecs p.1.offsets p.2 (Bf p.1.id) ∧ ∃ a, stRun p.2 a = some p.1.state) → la = lb := by
  intro la
  induction la with
  | nil =>
    intro lb h _ _
    cases lb with
    | nil => rfl
    | cons q lb => cases h
  | cons p la ih =>
    intro lb h ha hb
    cases lb with
    | nil => cases h
    | cons q lb =>
      simp only [List.map_cons, List.cons.injEq] at h
      obtain ⟨k1, ⟨a, k2⟩⟩ := ha p List.mem_cons_self
      obtain ⟨m1, ⟨b, m2⟩⟩ := hb q List.mem_cons_self
      rw [← h.1] at m1
      have := chunk_determined_C5b k1 m1 h.1 k2 m2
      subst this
      rw [ih lb h.2 (fun x hx => ha x (List.mem_cons_of_mem _ hx))
        (fun x hx => hb x (List.mem_cons_of_mem _ hx))]

/-- **The journal of a store with fewer dropped chunks put back is a suffix.** -/
theorem journal_suffix_C5b {s : Store} {fs : Fs} {w : Worker} {T cs : List Closed} {D : List Nat}
    {jcT jc : List (Closed × List Record)} {joT jo : List Record}
    (gT : RepG (s.liftC3b T) fs w jcT joT) (g : RepG (s.liftC3b cs) fs w jc jo)
    (hids : T.map Closed.id = D ++ cs.map Closed.id) :
    ∃ pre, allOps (s.liftC3b T) jcT joT = flatOps pre ++ allOps (s.liftC3b cs) jc jo := by
  have hjo : joT = jo :=
    encAll_inj_C3b gT.openRecs.1 g.openRecs.1 (by
      rw [← gT.openRecs.2.2.2, ← g.openRecs.2.2.2]; rfl)
  subst hjo
  have hidsT : jcT.map (·.1.id) = D ++ jc.map (·.1.id) := by
    have h1 : jcT.map (·.1.id) = (jcT.map (·.1)).map Closed.id := by rw [List.map_map]; rfl
    have h2 : jc.map (·.1.id) = (jc.map (·.1)).map Closed.id := by rw [List.map_map]; rfl
    rw [h1, h2, gT.closedEq, g.closedEq]
    simp only [Store.liftC3b_closed, List.map_append, hids, List.append_assoc]
  obtain ⟨pre, suf, hsplit, _, hsuf⟩ := List.map_eq_append_iff.mp hidsT
  obtain ⟨stT, lT, rT, _⟩ := gT.run
  obtain ⟨stG, lG, rG, _⟩ := g.run
  have hsufeq : suf = jc := by
    apply chunks_determined_C5b (Bf := fun id => chunkBytes s fs w id) suf jc hsuf
    · intro p hp
      have hpT : p ∈ jcT := by rw [hsplit]; exact List.mem_append_right _ hp
      exact ⟨gT.closedRecs p hpT, RepC.state_of_mem_C5b _ _ _ _ _ rT p hpT⟩
    · intro p hp
      exact ⟨g.closedRecs p hp, RepC.state_of_mem_C5b _ _ _ _ _ rG p hp⟩
  subst hsufeq
  refine ⟨pre, ?_⟩
  simp only [allOps, hsplit, flatOps_append, List.append_assoc, Store.liftC3b_openId]

/-- **Payload mirroring for the ghost store.** -/
theorem jpay_of_total_C5b {s : Store} {fs : Fs} {w : Worker} {r : RefLog} {W : List Op}
    {T cs : List Closed} {D : List Nat}
    (hT : PInvC5b (s.liftC3b T) fs w r W) (hids : T.map Closed.id = D ++ cs.map Closed.id) :
    JPayC5b (s.liftC3b cs) fs w W := by
  intro jc jo N0 g hN P hP r' l hr hl e he p hop
  obtain ⟨jcT, joT, NT, gT, hcnt, hpay⟩ := hT.pay
  obtain ⟨pre, hsuf⟩ := journal_suffix_C5b gT g hids
  rw [hsuf, cntW_append] at hcnt
  have hN0 : N0 = NT + cntW (flatOps pre) := by omega
  have hPT : flatOps pre ++ P <+: allOps (s.liftC3b T) jcT joT := by
    rw [hsuf]; exact (List.prefix_append_right_inj _).mpr hP
  -- the replay of the longer prefix
  obtain ⟨t, ht⟩ := hPT
  have hfull := gT.flat_run.2
  rw [← ht] at hfull
  obtain ⟨lT, k1, _⟩ := idxRun_prefix hfull
  obtain ⟨lD, k2, k3⟩ := idxRun_prefix k1
  obtain ⟨l0, m1, m2⟩ := idxRun_mono SortedLog.nil (fun e he => by cases he) k3
  rw [hl] at m1
  injection m1 with m1
  subst m1
  refine hpay (flatOps pre ++ P) ⟨t, ht⟩ r' lT ?_ k1 e (m2 e he) p (List.mem_append_right _ hop)
  rw [cntW_append, ← Nat.add_assoc, ← hN0]
  exact hr

end RaftLog
