/-
System level: while a store is open, its worker is well-formed
(`Worker.WF`, `Worker.TodoOK`) after every history from a fresh store.
-/
import RaftLogModel.Proofs.WorkerCaller
namespace RaftLog

theorem openStore_worker {cfg : Cfg} {fs fs' : Fs} {s : Store} {w : Worker} {evs : List Ev}
    (h : openStore cfg fs = (.ok (s, w), fs', evs)) : ∃ e, w = { files := [e] } := by
  unfold openStore at h
  dsimp only at h
  split at h
  · cases h
  · cases h
  · split at h
    · split at h
      · cases h
      · simp only [Prod.mk.injEq, Res.ok.injEq] at h
        exact ⟨_, h.1.2.symm⟩
    · split at h
      · cases h
      · simp only [Prod.mk.injEq, Res.ok.injEq] at h
        exact ⟨_, h.1.2.symm⟩

theorem applyEffs_pcW (effs : List Eff) (fs : Fs) (w : Worker) (evs : List Ev) :
    (applyEffs effs fs w evs).2.2.1.pc = w.pc := by
  induction effs generalizing fs w evs with
  | nil => rfl
  | cons e rest ih =>
    cases e with
    | create id => exact ih _ _ _
    | createFailed id => exact ih _ _ _
    | writeHead id bs => exact ih _ _ _
    | send r =>
      by_cases hp : w.pc = .dead
      · rw [(applyEffs_send_dead r rest fs w evs hp).2.2]
      · rw [applyEffs_send_alive r rest fs w evs hp, ih]; rfl

theorem Worker.TodoOK.of_pc_eq {w w' : Worker} (h : w.TodoOK) (hp : w'.pc = w.pc) : w'.TodoOK :=
  fun todo b t hpc => h todo b t (hp ▸ hpc)

theorem Worker.TodoOK.settle {w : Worker} (h : w.TodoOK) : w.settle.TodoOK := by
  rcases w.settle_cases with ⟨r, q, h1, h2, he⟩ | he <;> rw [he]
  · exact .of_not_writing (by simp)
  · exact h

/-- The worker of an open store is well-formed. -/
def SysWF (y : Sys) : Prop := y.store ≠ none → y.worker.WF ∧ y.worker.TodoOK

theorem WCtx.runQuiet_todoOK (n : Nat) (c : WCtx) (h : c.w.TodoOK) : (WCtx.runQuiet n c).w.TodoOK :=
  WCtx.runQuiet_induct (P := fun c => c.w.TodoOK) (fun c hc _ => c.step_todoOK .ok hc) n c h

theorem SysWF.step {y : Sys} (h : SysWF y) (st : Step) : SysWF (y.step st) := by
  cases st with
  | call op =>
    simp only [Sys.step, Sys.call]
    cases hs : y.store with
    | none => simpa [hs] using h
    | some s =>
      have := h (by simp [hs])
      intro _
      exact ⟨(applyEffs_wf _ _ _ _ this.1).settle, (this.2.of_pc_eq (applyEffs_pcW _ _ _ _)).settle⟩
  | flush cb =>
    simp only [Sys.step, Sys.flush]
    cases hs : y.store with
    | none => simpa [hs] using h
    | some s =>
      have := h (by simp [hs])
      intro _
      exact ⟨(applyEffs_wf _ _ _ _ this.1).settle, (this.2.of_pc_eq (applyEffs_pcW _ _ _ _)).settle⟩
  | worker out =>
    simp only [Sys.step, Sys.workerStep]
    cases hs : y.store with
    | none => simpa [hs] using h
    | some s =>
      have := h (by simp [hs])
      intro _
      exact ⟨WCtx.step_wf _ out this.1, WCtx.step_todoOK _ out this.2⟩
  | workerIdle =>
    simp only [Sys.step, Sys.workerIdle]
    cases hs : y.store with
    | none => simpa [hs] using h
    | some s =>
      have := h (by simp [hs])
      intro _
      exact ⟨WCtx.runQuiet_wf _ _ this.1, WCtx.runQuiet_todoOK _ _ this.2⟩
  | drain =>
    simp only [Sys.step, Sys.drain]
    cases hs : y.store with
    | none => simpa [hs] using h
    | some s =>
      have := h (by simp [hs])
      intro _
      exact this
  | drop =>
    simp only [Sys.step]
    cases hs : y.store with
    | none => rw [show y.dropStore = (y, []) by simp [Sys.dropStore, hs]]; exact h
    | some s => rw [y.dropStore_eq s hs]; intro h0; exact absurd rfl h0
  | openWith cfg =>
    simp only [Sys.step, Sys.open]
    by_cases hl : y.locked = true
    · simp only [hl, if_true]; exact h
    · simp only [hl, Bool.false_eq_true, if_false]
      split
      · rename_i s w fs' evs ho
        obtain ⟨e, rfl⟩ := openStore_worker ho
        intro _
        exact ⟨by simp [Worker.WF], .of_not_writing (by simp)⟩
      · exact h
      · exact h

theorem SysWF.fresh (cfg : Cfg) : SysWF (Sys.fresh cfg) := by
  have : SysWF ({ cfg := cfg } : Sys) := fun h => absurd rfl h
  exact this.step (.openWith cfg)

theorem SysWF.run {y : Sys} (h : SysWF y) (steps : List Step) : SysWF (y.run steps) := by
  induction steps generalizing y with
  | nil => exact h
  | cons st rest ih => exact ih (h.step st)

/-! ## Coverage is preserved by every public call -/

theorem applyEffs_append (a b : List Eff) (fs : Fs) (w : Worker) (evs : List Ev) :
    applyEffs (a ++ b) fs w evs =
      if (applyEffs a fs w evs).1 = true then
        applyEffs b (applyEffs a fs w evs).2.1 (applyEffs a fs w evs).2.2.1 (applyEffs a fs w evs).2.2.2
      else applyEffs a fs w evs := by
  induction a generalizing fs w evs with
  | nil => simp [applyEffs_nil]
  | cons e rest ih =>
    cases e with
    | create id => simp only [List.cons_append, applyEffs_create]; exact ih _ _ _
    | createFailed id => exact ih _ _ _
    | writeHead id bs => simp only [List.cons_append, applyEffs_writeHead]; exact ih _ _ _
    | send r =>
      by_cases hp : w.pc = .dead
      · simp [applyEffs, hp]
      · rw [List.cons_append, applyEffs_send_alive _ _ _ _ _ hp, applyEffs_send_alive _ _ _ _ _ hp]
        exact ih _ _ _

/-- An effect list whose application to a live worker succeeds and keeps the
unsynced files covered. -/
def EffsCov (effs : List Eff) : Prop :=
  ∀ fs (w : Worker) evs, w.pc ≠ .dead → CoveredFW fs w →
    (applyEffs effs fs w evs).1 = true ∧
    CoveredFW (applyEffs effs fs w evs).2.1 (applyEffs effs fs w evs).2.2.1

theorem EffsCov.nil : EffsCov [] := fun _ _ _ _ hc => ⟨rfl, hc⟩

theorem EffsCov.append {a b : List Eff} (ha : EffsCov a) (hb : EffsCov b) : EffsCov (a ++ b) := by
  intro fs w evs hp hc
  obtain ⟨h1, h2⟩ := ha fs w evs hp hc
  rw [applyEffs_append, if_pos h1]
  exact hb _ _ _ (by rw [applyEffs_pcW]; exact hp) h2

theorem EffsCov.tryCloseFull (s : Store) (fsHas : Nat → Bool) : EffsCov (s.tryCloseFull fsHas).2.2 :=
  fun fs w evs hp hc => tryCloseFull_covered s fsHas fs w evs hp hc

theorem EffsCov.appendAndApply (s : Store) (fsHas : Nat → Bool) (r : Record) :
    EffsCov (s.appendAndApply fsHas r).2.2 := by
  unfold Store.appendAndApply
  split
  · exact .nil
  · exact .nil
  · dsimp only
    split
    · exact .nil
    · rename_i st' _ _ s2 _
      have := EffsCov.tryCloseFull ({ s2 with st := st' } : Store) fsHas
      generalize Store.tryCloseFull ({ s2 with st := st' } : Store) fsHas = x at this ⊢
      obtain ⟨res, s4, effs⟩ := x
      cases res <;> exact this

theorem EffsCov.appendBatch (fsHas : Nat → Bool) (es : List (LogId × Bytes)) (s : Store) (seg : Seg)
    (effs : List Eff) (h : EffsCov effs) : EffsCov (Store.appendBatch fsHas es s seg effs).2.2 := by
  induction es generalizing fsHas s seg effs with
  | nil => exact h
  | cons e rest ih =>
    obtain ⟨id, p⟩ := e
    unfold Store.appendBatch
    have h1 := EffsCov.appendAndApply s fsHas (.append id p)
    split
    · exact h
    split
    · rename_i seg' s' e' heq
      rw [heq] at h1
      exact ih _ _ _ _ (h.append h1)
    · rename_i k s' e' heq
      rw [heq] at h1
      exact h.append h1
    · rename_i m s' e' heq
      rw [heq] at h1
      exact h.append h1

theorem EffsCov.call (s : Store) (fsHas : Nat → Bool) (op : Op) : EffsCov (s.call fsHas op).2.2 := by
  cases op with
  | saveVote v => exact .appendAndApply _ _ _
  | commit id => exact .appendAndApply _ _ _
  | saveUserData d => exact .appendAndApply _ _ _
  | append es =>
    simp only [Store.call]
    split
    · exact .nil
    · exact .appendBatch _ _ _ _ _ .nil
  | truncate idx =>
    simp only [Store.call]
    split
    · exact .nil
    · split
      · exact .appendAndApply _ _ _
      · split
        · exact .nil
        · split
          · exact .nil
          · exact .appendAndApply _ _ _
  | purge upto =>
    simp only [Store.call]
    split
    · exact .nil
    split
    · exact .nil
    · split
      · split <;> exact .nil
      · have := EffsCov.appendAndApply s fsHas (.purgeUpto upto)
        generalize s.appendAndApply fsHas (.purgeUpto upto) = x at this ⊢
        obtain ⟨res, s4, effs⟩ := x
        cases res <;> exact this

/-- `Covered` at system level. -/
def SysCovered (y : Sys) : Prop := CoveredFW y.fs y.worker

/-- Every public call and every flush on a store with a live worker keeps the
unsynced files covered (and all sends succeed). -/
theorem SysCovered.call {y : Sys} (h : SysCovered y) (hp : y.worker.pc ≠ .dead) (op : Op) :
    SysCovered (y.call op).2.1 := by
  simp only [Sys.call]
  cases hs : y.store with
  | none => exact h
  | some s => exact (EffsCov.call s y.fs.has op _ _ _ hp h).2.settle

theorem SysCovered.flush {y : Sys} (h : SysCovered y) (hp : y.worker.pc ≠ .dead) (cb : Option Nat) :
    SysCovered (y.flush cb).2.1 := by
  simp only [Sys.flush]
  cases hs : y.store with
  | none => exact h
  | some s =>
    dsimp only
    have := flush_covered s cb y.fs y.worker [] hp h
    unfold SysCovered
    dsimp only
    rw [this.2.1]
    exact this.2.2.settle

theorem SysCovered.workerStep {y : Sys} (h : SysCovered y) (hw : y.worker.WF) (out : Outcome)
    (s : Store) (hd : (({ w := y.worker, fs := y.fs, cache := s.cache } : WCtx).dies out) = false) :
    SysCovered (y.workerStep out).1 := by
  simp only [Sys.workerStep]
  cases hs : y.store with
  | none => exact h
  | some s' =>
    have : Covered (({ w := y.worker, fs := y.fs, cache := s'.cache } : WCtx).step out) :=
      WCtx.step_covered _ out hw (by simpa [WCtx.dies] using hd) h
    exact this

/-! ## Histories that keep the store, and what happens without a store -/

/-- Steps that neither drop nor (re)open the store. -/
def Step.keepsStore : Step → Bool
  | .call _ => true
  | .flush _ => true
  | .worker _ => true
  | .workerIdle => true
  | .drain => true
  | _ => false

/-- Every step except `open`. -/
def Step.noOpen : Step → Bool
  | .openWith _ => false
  | _ => true

theorem Sys.fresh_store_isSome (cfg : Cfg) : (Sys.fresh cfg).store.isSome = true := by
  simp [Sys.fresh, Sys.open, openStore, Fs.linkedIds, openLoop, emptyStore, Fs.has, Fs.find]

theorem Sys.step_store_isSome {y : Sys} {st : Step} (hst : st.keepsStore = true)
    (h : y.store.isSome = true) : (y.step st).store.isSome = true := by
  cases hs : y.store with
  | none => simp [hs] at h
  | some s =>
    cases st with
    | call op => simp [Sys.step, Sys.call, hs]
    | flush cb => simp [Sys.step, Sys.flush, hs]
    | worker out => simp [Sys.step, Sys.workerStep, hs]
    | workerIdle => simp [Sys.step, Sys.workerIdle, hs]
    | drain => simp [Sys.step, Sys.drain, hs]
    | drop => cases hst
    | openWith cfg => cases hst

theorem Sys.run_store_isSome {y : Sys} {steps : List Step} (hst : ∀ st ∈ steps, st.keepsStore = true)
    (h : y.store.isSome = true) : (y.run steps).store.isSome = true := by
  induction steps generalizing y with
  | nil => exact h
  | cons st rest ih =>
    exact ih (fun x hx => hst x (by simp [hx])) (Sys.step_store_isSome (hst st (by simp)) h)

/-- Without a store nothing but `open` changes anything. -/
theorem Sys.step_no_store {y : Sys} (h : y.store = none) {st : Step} (hst : st.noOpen = true) :
    y.step st = y := by
  cases st with
  | call op => simp [Sys.step, Sys.call, h]
  | flush cb => simp [Sys.step, Sys.flush, h]
  | worker out => simp [Sys.step, Sys.workerStep, h]
  | workerIdle => simp [Sys.step, Sys.workerIdle, h]
  | drain => simp [Sys.step, Sys.drain, h]
  | drop => simp [Sys.step, Sys.dropStore, h]
  | openWith cfg => cases hst

theorem Sys.run_no_store {y : Sys} (h : y.store = none) {steps : List Step}
    (hst : ∀ st ∈ steps, st.noOpen = true) : y.run steps = y := by
  induction steps with
  | nil => rfl
  | cons st rest ih =>
    show (y.step st).run rest = y
    rw [Sys.step_no_store h (hst st (by simp))]
    exact ih (fun x hx => hst x (by simp [hx]))

end RaftLog
