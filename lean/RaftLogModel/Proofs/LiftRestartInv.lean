/-
LIFT, part 5: the bundle `LiftInv` = crash invariant `CrashInvC5b` ∧ "removals are
postponed only while the last sync has failed" (`SysPostD14`) ∧ payload-cache invariant
(`SysCacheInv`), and its four closure properties: fresh store, legal history, clean
restart (D15: no hypothesis on the older chunk files any more), crash recovery. Every theorem stated from
`LiftInv` (or from one of its parts) therefore holds after arbitrary mixtures of histories,
clean restarts and crash recoveries.

All names carry the suffix `_LIFT` / `LIFT`.
-/
import RaftLogModel.Proofs.LiftRestartCache
import RaftLogModel.Proofs.LiftRestartC08
import RaftLogModel.Props.C15Restart
namespace RaftLog

def LiftInv (y : Sys) (r : RefLog) (W : List Op) (A E K : Nat) : Prop :=
  CrashInvC5b y r W A E K ∧ SysPostD14 y ∧ SysCacheInv y

theorem liftInv_fresh_LIFT (cfg : Cfg) : LiftInv (Sys.fresh cfg) {} [] 0 0 0 :=
  ⟨fresh_CrashInv_C5b cfg, SysPostD14.fresh cfg, fresh_cacheInv cfg⟩

theorem liftInv_history_LIFT (steps : List Step) (y : Sys) (r r' : RefLog) (W : List Op) (A E K : Nat)
    (h : LiftInv y r W A E K) (hsteps : ∀ st ∈ steps, st.journal = true)
    (hr : r.run (stepOps steps) = some r') (hwf : ∀ op ∈ stepOps steps, op.WF ∧ op.small)
    (hnd : (y.run steps).worker.pc ≠ .dead) :
    LiftInv (y.run steps) r' (W ++ expandOps r (stepOps steps)) (y.ackRun steps A) E K :=
  ⟨run_CrashInv_C5b steps y r r' W A E K h.1 hsteps hr hwf hnd, h.2.1.run steps,
    run_cacheInv y steps (fun st hst => Step.live_of_journal (hsteps st hst)) h.2.2⟩

theorem LiftInv.retarget_LIFT {y : Sys} {r : RefLog} {W : List Op} {A E K : Nat}
    (h : LiftInv y r W A E K) : ∃ s, y.store = some s ∧ LiftInv y r W A s.openEnd W.length := by
  obtain ⟨s, hs, h1⟩ := h.1.retarget
  exact ⟨s, hs, h1, h.2⟩

/-! ### Older chunk files synced -/

/-- A covered system whose worker tracks exactly the open chunk's file. -/
theorem oldSynced_of_covered_LIFT {y : Sys} (hcov : SysCovered y)
    (hw : ∀ s, y.store = some s → y.worker.files.map FileEnt.id = [s.openId] ∧
      pendingAppends y.worker = []) : y.OldSyncedLIFT := by
  intro s hs f hf hdl hl
  obtain ⟨h1, h2⟩ := hw s hs
  rcases hcov f hf hdl hl with k | k
  · rw [h1] at k; simpa using k
  · rw [h2] at k; cases k

/-- In a clean system that satisfies the crash invariant: if the worker's file list has
one entry (no older file is waiting for its `fdatasync`), the older chunk files are synced. -/
theorem oldSynced_of_single_file_LIFT {y : Sys} {r : RefLog} {W : List Op} {A E K : Nat}
    (h : CrashInvC5b y r W A E K) (hc : y.Clean) (h1 : y.worker.files.length = 1) :
    y.OldSyncedLIFT := by
  obtain ⟨s, hs, hq, _, _, _⟩ := hc
  obtain ⟨B, ⟨⟨s0, hs0, hd, hi⟩, _, hcov, _⟩, _, _, _⟩ := h
  rw [hs] at hs0; cases hs0
  obtain ⟨hpc, hqe⟩ := quiet_alive hq hd
  apply oldSynced_of_covered_LIFT hcov
  intro s2 hs2
  rw [hs] at hs2; cases hs2
  have hrest : y.worker.rest = [] := by simp [Worker.rest, hpc, hqe, WPc.inHand]
  have hcur : y.worker.cur = s.openId := by
    have := hi.inv.j.annLast
    simp only [Worker.announced, hrest, annIds, List.getLast?_singleton, Option.some.injEq] at this
    exact this
  constructor
  · cases hf : y.worker.files with
    | nil => rw [hf] at h1; cases h1
    | cons a l =>
      cases l with
      | nil =>
        simp only [Worker.cur, hf, newestId, List.getLast?_singleton] at hcur
        simp [hcur]
      | cons b l' => rw [hf] at h1; simp at h1
  · simp [pendingAppends, hpc, hqe, WPc.held]

/-! ### Clean restart -/

theorem liftInv_restart_LIFT {y : Sys} {r : RefLog} {W : List Op} {A E K : Nat}
    (h : LiftInv y r W A E K) (hc : y.Clean) (cfg' : Cfg) :
    LiftInv ((y.step .drop).step (.openWith cfg')) r W A E K ∧
    ((y.step .drop).step (.openWith cfg')).Clean ∧
    ((y.step .drop).step (.openWith cfg')).OldSyncedLIFT := by
  have h1 := crashInv_clean_restart_LIFT h.1 hc cfg'
  have h2 : SysPostD14 ((y.step .drop).step (.openWith cfg')) := (h.2.1.step _).step _
  have h3 := c15_restart_step y r cfg' h.1.csys hc
  obtain ⟨s, hs, hq, hp, hrem, hpost⟩ := hc
  obtain ⟨s', _, hy2, _, _, _, k4, k5, k6, _⟩ :=
    restart_eq_LIFT y s r cfg' h.1.csys hs hq hp hrem hpost
  have hclean : ((y.step .drop).step (.openWith cfg')).Clean := by
    rw [hy2]
    exact ⟨s', rfl, rfl, k5, k6, rfl⟩
  refine ⟨⟨h1, h2, h3⟩, hclean, ?_⟩
  obtain ⟨B, ⟨_, _, hcov, _⟩, _, _, _⟩ := h1
  apply oldSynced_of_covered_LIFT hcov
  intro s2 hs2
  rw [hy2] at hs2 ⊢
  simp only [Option.some.injEq] at hs2
  subst hs2
  have e1 : s'.openId = s.openId := by simp [Store.openId, k4]
  exact ⟨by simp [e1], rfl⟩

/-! ### Crash recovery -/

/-- The system `open` builds on a directory (no store before). -/
theorem sysPost_open_LIFT (img : Fs) (cfg' : Cfg) :
    SysPostD14 (({ fs := img, cfg := cfg' } : Sys).open).2.1 := by
  have h0 : SysPostD14 ({ fs := img } : Sys) := fun h => absurd rfl h
  exact h0.step (.openWith cfg')

theorem liftInv_recovered_LIFT {y : Sys} {r : RefLog} {W : List Op} {A E K : Nat}
    (h : CrashInvC5b y r W A E K) (img : Fs) (hc : CrashImage y.fs img) (hnt : NoTornPredecessor img)
    (cfg' : Cfg) (htr : cfg'.truncate = true) :
    (({ fs := img, cfg := cfg' } : Sys).open).1 = .ok () ∧
    ∃ s' n r' A', (({ fs := img, cfg := cfg' } : Sys).open).2.1.store = some s' ∧
      RefLog.run {} (W.take n) = some r' ∧ (E ≤ A → K ≤ n) ∧
      LiftInv (({ fs := img, cfg := cfg' } : Sys).open).2.1 r' (W.take n) A' s'.openEnd n ∧
      (({ fs := img, cfg := cfg' } : Sys).open).2.1.Clean ∧
      (({ fs := img, cfg := cfg' } : Sys).open).2.1.OldSyncedLIFT ∧ s'.cfg = cfg' := by
  obtain ⟨s', w', fs', evs, n, r', A', q1, q2, q3, q4, q5, q6, ⟨c1, c2, c3, c4⟩, q8⟩ :=
    recover_CrashInv_C5b h hc hnt cfg' htr
  have hci := recover_cacheInv_LIFT h hc hnt cfg' htr q1
  have hpo := sysPost_open_LIFT img cfg'
  have hopen := open_eq_recovered_C5b q1
  obtain ⟨x, a, _, e1, _, _, e4, _⟩ := openStore_shape_C7c q1
  rw [hopen] at hpo ⊢
  refine ⟨rfl, s', n, r', A', rfl, q2, q3, ⟨q4, hpo, ?_⟩, ⟨s', rfl, c1, c2, c3, c4⟩, ?_, q8⟩
  · intro s2 hs2
    have : s2 = s' := by
      simp only [recoveredSysC5b, Option.some.injEq] at hs2; exact hs2.symm
    subst this; exact hci
  · apply oldSynced_of_covered_LIFT q6
    intro s2 hs2
    have : s2 = s' := by
      simp only [recoveredSysC5b, Option.some.injEq] at hs2; exact hs2.symm
    subst this
    show w'.files.map FileEnt.id = [s2.openId] ∧ pendingAppends w' = []
    rw [e4]
    exact ⟨rfl, rfl⟩

/-! ### Checkers for concrete examples -/

theorem not_covered_of_file_LIFT (y : Sys) (i : Nat)
    (h1 : (y.fs.find i).map (fun f => (decide (f.durable < f.data.length), f.linked)) = some (true, true))
    (h2 : ¬ Trk y.worker i) : ¬ SysCovered y := by
  intro h
  cases hfind : y.fs.find i with
  | none => rw [hfind] at h1; cases h1
  | some f =>
    have hmem : f ∈ y.fs := List.mem_of_find?_eq_some hfind
    rw [hfind] at h1
    simp only [Option.map_some, Option.some.injEq, Prod.mk.injEq, decide_eq_true_eq] at h1
    have := h f hmem h1.1 h1.2
    rw [Fs.find_id hfind] at this
    exact h2 this

theorem not_oldSynced_of_file_LIFT (y : Sys) (i : Nat)
    (h1 : (y.fs.find i).map (fun f => (decide (f.durable < f.data.length), f.linked)) = some (true, true))
    (h2 : (y.store.map Store.openId == some i) = false) (h3 : y.store.isSome = true) :
    ¬ y.OldSyncedLIFT := by
  intro h
  cases hs : y.store with
  | none => rw [hs] at h3; cases h3
  | some s =>
    cases hfind : y.fs.find i with
    | none => rw [hfind] at h1; cases h1
    | some f =>
      have hmem : f ∈ y.fs := List.mem_of_find?_eq_some hfind
      rw [hfind] at h1
      simp only [Option.map_some, Option.some.injEq, Prod.mk.injEq, decide_eq_true_eq] at h1
      have := h s hs f hmem h1.1 h1.2
      rw [Fs.find_id hfind] at this
      rw [hs] at h2
      simp [this] at h2

/-- `NoTornPredecessor` as a computable check. -/
def noTornB_LIFT (img : Fs) : Bool :=
  (img.linkedIds.zip img.linkedIds.tail).all (fun ab =>
    match img.find ab.1 with
    | some g => (parseChunk g.data).2.1 == .clean && ab.1 + g.data.length == ab.2
    | none => false)

theorem mem_zip_tail_LIFT (a b : Nat) (post : List Nat) : ∀ (pre : List Nat),
    (a, b) ∈ (pre ++ a :: b :: post).zip (pre ++ a :: b :: post).tail := by
  intro pre
  induction pre with
  | nil => simp
  | cons x pre ih =>
    cases pre with
    | nil => simp
    | cons y pre' =>
      simp only [List.cons_append, List.tail_cons, List.zip_cons_cons, List.mem_cons]
      right
      simpa using ih

theorem noTorn_of_noTornB_LIFT {img : Fs} (h : noTornB_LIFT img = true) : NoTornPredecessor img := by
  intro pre a b post hl
  unfold noTornB_LIFT at h
  rw [List.all_eq_true] at h
  have := h (a, b) (by rw [hl]; exact mem_zip_tail_LIFT a b post pre)
  simp only at this
  cases hf : img.find a with
  | none => rw [hf] at this; cases this
  | some g =>
    rw [hf] at this
    simp only [Bool.and_eq_true, beq_iff_eq] at this
    exact ⟨g, rfl, this.1, this.2⟩

/-- One appended entry right behind `last`. -/
theorem run_append_one_LIFT (r : RefLog) (l id : LogId) (p : Bytes) (hl : r.last = some l)
    (h1 : optLe (some id) (some l) = false) (h2 : l.index + 1 = id.index) :
    ∃ r', r.run [.append [(id, p)]] = some r' := by
  simp [RefLog.run, RefLog.legal, RefLog.call, RefLog.appendAll, RefLog.append1, hl, h1, h2]

end RaftLog
