/-
C07 support, part 1: refinement of the reference log WITHOUT the residency
clause. `RefinesNoCache s r` keeps everything `Refines s r` says except "every
live entry is in the payload cache" and "the cache is within its limits"; it is
preserved by every legal accepted small call for ANY cache limits (the proof
follows `call_refines` / `c01_step`).
-/
import RaftLogModel.Proofs.Refine
namespace RaftLog

/-- `Refines` without residency and without the no-pressure clause. -/
structure RefinesNoCache (s : Store) (r : RefLog) : Prop where
  st : s.st = r.state
  /-- the index map lists exactly the spec entries -/
  log : s.log.map (fun e => (e.1, e.2.id)) = r.entries.map (fun e => (e.1.index, e.1))
  wf : r.WF
  cinv : CacheInv s
  pf : PanicFree s

theorem Refines.noCache {s : Store} {r : RefLog} (h : Refines s r) : RefinesNoCache s r :=
  ⟨h.st, h.log, h.wf, h.cinv, h.pf⟩

/-- How a call moved the journal end and which files it created. -/
structure Growth0 (s s' : Store) (effs : List Eff) : Prop where
  openEnd : s.openEnd ≤ s'.openEnd
  creates : ∀ i, Eff.create i ∈ effs → s.openEnd ≤ i ∧ i < s'.openEnd

theorem Growth0.refl (s : Store) : Growth0 s s [] :=
  ⟨Nat.le_refl _, (by intro i hi; cases hi)⟩

theorem Growth0.trans {s s1 s2 : Store} {e1 e2 : List Eff}
    (h1 : Growth0 s s1 e1) (h2 : Growth0 s1 s2 e2) : Growth0 s s2 (e1 ++ e2) := by
  refine ⟨Nat.le_trans h1.openEnd h2.openEnd, ?_⟩
  intro i hi
  rcases List.mem_append.mp hi with h | h
  · have := h1.creates i h; have := h2.openEnd; omega
  · have := h2.creates i h; have := h1.openEnd; omega

/-! ### One journalled record keeps the relation -/

theorem refinesNC_step {s : Store} {r r' : RefLog} (fsHas : Nat → Bool) {rec : Record}
    (h : RefinesNoCache s r) (hfs : ∀ i, s.openEnd ≤ i → fsHas i = false)
    (hst : s.st.apply rec = .ok r'.state) (hr : rec.small)
    (hstate : ∀ x, rec = .state x → x.last = s.st.last ∧ optSmall x.purged ∧ optSmall x.last)
    (hwf : r'.WF)
    (hlog : ∀ chunk seg, logKeys (idxLog rec chunk seg s.log) = entKeys r'.entries) :
    ∃ seg s' effs, s.appendAndApply fsHas rec = (.ok seg, s', effs) ∧ RefinesNoCache s' r' ∧
      Growth0 s s' effs := by
  obtain ⟨s', effs, chunk, heq, h1, h2, h3, h4, h5⟩ := appendAndApply_ok fsHas hst hr hfs
  have hci := appendAndApply_cacheInv fsHas rec h.cinv (fun x hx => (hstate x hx).1)
  rw [heq] at hci
  have hpf := appendAndApply_panicFree fsHas h.pf hr (fun x hx => (hstate x hx).2)
  rw [heq] at hpf
  simp only at hci hpf
  refine ⟨_, s', effs, heq, ⟨h1, ?_, hwf, hci, hpf⟩, ⟨Nat.le_of_lt h4, h5⟩⟩
  rw [h2]; exact hlog _ _

theorem refinesNC_step_plain {s : Store} {r r' : RefLog} (fsHas : Nat → Bool) {rec : Record}
    (h : RefinesNoCache s r) (hfs : ∀ i, s.openEnd ≤ i → fsHas i = false)
    (hst : s.st.apply rec = .ok r'.state)
    (hkind : (∃ v, rec = .saveVote v) ∨ (∃ id, rec = .commit id) ∨
      (∃ x, rec = .state x ∧ x.last = s.st.last ∧ x.purged = s.st.purged))
    (hent : r'.entries = r.entries) (hpu : r'.purged = r.purged) (hla : r'.last = r.last) :
    ∃ seg s' effs, s.appendAndApply fsHas rec = (.ok seg, s', effs) ∧ RefinesNoCache s' r' ∧
      Growth0 s s' effs := by
  have hwf : r'.WF := by
    have := h.wf
    exact ⟨by rw [hent]; exact this.mono, by rw [hent, hpu]; exact this.above,
      by rw [hent, hla]; exact this.below, by rw [hpu, hla]; exact this.pl⟩
  have hidx : ∀ chunk seg, idxLog rec chunk seg s.log = s.log := by
    rcases hkind with ⟨v, hv⟩ | ⟨id, hv⟩ | ⟨x, hv, _⟩ <;> subst hv <;> exact fun _ _ => rfl
  have hsmall : rec.small := by
    rcases hkind with ⟨v, hv⟩ | ⟨id, hv⟩ | ⟨x, hv, _⟩ <;> subst hv <;> trivial
  apply refinesNC_step fsHas h hfs hst hsmall ?_ hwf
  · intro chunk seg
    rw [hidx, hent]
    exact h.log
  · intro x hx
    rcases hkind with ⟨v, hv⟩ | ⟨id, hv⟩ | ⟨x', hv, h1, h2⟩
    · subst hv; cases hx
    · subst hv; cases hx
    · subst hv
      injection hx with hx
      subst hx
      exact ⟨h1, by rw [h2]; exact h.pf.purged, by rw [h1]; exact h.pf.last⟩

theorem mem_log_indexNC {s : Store} {r : RefLog} (h : RefinesNoCache s r) {e : Nat × LogData}
    (he : e ∈ s.log) : ∃ a ∈ r.entries, a.1.index = e.1 ∧ a.1 = e.2.id := by
  have : (e.1, e.2.id) ∈ s.log.map (fun e => (e.1, e.2.id)) := List.mem_map.mpr ⟨e, he, rfl⟩
  rw [h.log] at this
  obtain ⟨a, ha, hae⟩ := List.mem_map.mp this
  simp only [Prod.mk.injEq] at hae
  exact ⟨a, ha, hae.1, hae.2⟩

/-- The state transition of an accepted single append. -/
theorem append1_state {s : Store} {r r1 : RefLog} {id : LogId} {p : Bytes}
    (h : RefinesNoCache s r) (hc : r.append1 id p = .ok r1) :
    s.st.apply (.append id p) = .ok r1.state := by
  obtain ⟨hr1, hnle, hcons, _, _⟩ := RefLog.append1_facts h.wf hc
  subst hr1
  have hlast : s.st.last = r.last := by rw [h.st]; rfl
  simp only [RState.apply, RState.append, hlast, hnle, Bool.false_eq_true, if_false]
  cases hl : r.last with
  | none => simp [RefLog.state, h.st, hl]
  | some l =>
    have hsl : optSmall (some l) := by have := h.pf.last; rw [hlast, hl] at this; exact this
    have hci := hcons l hl
    simp only [nextIndexChecked_eq hsl, nextIndex]
    simp [hci, RefLog.state, h.st, hl]

/-- The index map after an accepted single append: one more entry at the end. -/
theorem append1_log {s : Store} {r r1 : RefLog} {id : LogId} {p : Bytes}
    (h : RefinesNoCache s r) (hc : r.append1 id p = .ok r1) (chunk : Nat) (seg : Seg) :
    idxLog (.append id p) chunk seg s.log = s.log ++ [(id.index, ⟨id, chunk, seg.off, seg.size⟩)] := by
  obtain ⟨_, _, _, hold, _⟩ := RefLog.append1_facts h.wf hc
  have hlt : ∀ e ∈ s.log, e.1 < id.index := by
    intro e he
    obtain ⟨a, ha, hai, _⟩ := mem_log_indexNC h he
    have := (hold a ha).2
    omega
  simp only [idxLog]
  exact logInsert_of_all_lt _ _ _ hlt

theorem append1_refinesNC {s : Store} {r r1 : RefLog} (fsHas : Nat → Bool) {id : LogId} {p : Bytes}
    (h : RefinesNoCache s r) (hfs : ∀ i, s.openEnd ≤ i → fsHas i = false)
    (hc : r.append1 id p = .ok r1) (hsm : smallId id) :
    ∃ seg s' effs, s.appendAndApply fsHas (.append id p) = (.ok seg, s', effs) ∧
      RefinesNoCache s' r1 ∧ Growth0 s s' effs := by
  have hwf1 := RefLog.append1_wf h.wf hc
  have hst := append1_state h hc
  have hlg := append1_log h hc
  obtain ⟨hr1, _, _, _, _⟩ := RefLog.append1_facts h.wf hc
  apply refinesNC_step fsHas (rec := .append id p) h hfs hst hsm (by intro x hx; cases hx) hwf1
  intro chunk seg
  rw [hlg chunk seg, hr1]
  simp only [logKeys, entKeys, List.map_append, List.map_cons, List.map_nil]
  have := h.log
  rw [this]

theorem appendBatch_refinesNC (es : List (LogId × Bytes)) :
    ∀ (s : Store) (r r' : RefLog) (fsHas : Nat → Bool) (seg : Seg) (effs : List Eff),
    RefinesNoCache s r → (∀ i, s.openEnd ≤ i → fsHas i = false) → r.appendAll es = .ok r' →
    (∀ e ∈ es, smallId e.1) →
    ∃ seg' s' effs', Store.appendBatch fsHas es s seg effs = (.ok seg', s', effs ++ effs') ∧
      RefinesNoCache s' r' ∧ Growth0 s s' effs' := by
  induction es with
  | nil =>
    intro s r r' fsHas seg effs h _ hc _
    simp only [RefLog.appendAll] at hc
    injection hc with hc
    subst hc
    exact ⟨seg, s, [], by simp [Store.appendBatch], h, Growth0.refl s⟩
  | cons e rest ih =>
    obtain ⟨id, p⟩ := e
    intro s r r' fsHas seg effs h hfs hc hsm
    simp only [RefLog.appendAll] at hc
    split at hc
    · rename_i r1 hc1
      obtain ⟨seg1, s1, e1, heq1, href1, hg1⟩ :=
        append1_refinesNC fsHas h hfs hc1 (hsm (id, p) List.mem_cons_self)
      have hfs1 : ∀ i, s1.openEnd ≤ i →
          (fsHas i || e1.any (fun e => e == Eff.create i)) = false := by
        intro i hi
        have h1 : fsHas i = false := hfs i (by have := hg1.openEnd; omega)
        have h2 : e1.any (fun e => e == Eff.create i) = false := by
          rw [List.any_eq_false]
          intro x hx hxe
          have : x = Eff.create i := by simpa using hxe
          subst this
          have := hg1.creates i hx
          omega
        simp [h1, h2]
      obtain ⟨seg2, s2, e2, heq2, href2, hg2⟩ :=
        ih s1 r1 r' _ seg1 (effs ++ e1) href1 hfs1 hc
          (fun e he => hsm e (List.mem_cons_of_mem _ he))
      refine ⟨seg2, s2, e1 ++ e2, ?_, href2, hg1.trans hg2⟩
      have hidx : id.index + 1 ≠ U64 := by
        have : id.index + 1 < U64 := hsm (id, p) List.mem_cons_self
        omega
      rw [appendBatch_cons_small_D12 _ _ _ _ _ _ _ hidx]
      rw [heq1]
      simp only
      rw [heq2, List.append_assoc]
    · cases hc

theorem truncateAfter_refinesNC {s : Store} {r : RefLog} (fsHas : Nat → Bool) {o : Option LogId}
    (h : RefinesNoCache s r) (hfs : ∀ i, s.openEnd ≤ i → fsHas i = false)
    (ho : r.TruncArg o) (hsm : optSmall o) :
    ∃ seg s' effs, s.appendAndApply fsHas (.truncateAfter o) = (.ok seg, s', effs) ∧
      RefinesNoCache s' (r.truncateTo o) ∧ Growth0 s s' effs := by
  have hwf' := RefLog.truncateTo_wf h.wf ho
  apply refinesNC_step fsHas (rec := .truncateAfter o) h hfs ?_ hsm (by intro x hx; cases hx) hwf' ?_
  · simp only [RState.apply, h.st, RState.truncateAfter, RefLog.truncateTo, RefLog.state]
    by_cases hlt : optLt o r.last = true <;> simp [hlt]
  · intro chunk seg
    have h1 := logKeys_filter (fun i => decide (i < nextIndex o)) s.log
    have h2 := entKeys_filter (fun i => decide (i < nextIndex o)) r.entries
    have h3 : logKeys s.log = entKeys r.entries := h.log
    simp only [idxLog, RefLog.truncateTo]
    rw [h1, h2, h3]

/-- The reference log after a purge that is not a no-op. -/
def RefLog.purged' (r : RefLog) (upto : LogId) : RefLog :=
  { r with
    purged := if optLt r.purged (some upto) then some upto else r.purged,
    last := if optLt r.last (some upto) then some upto else r.last,
    entries := r.entries.filter (fun e => upto.index < e.1.index) }

theorem purge_state {s : Store} {r : RefLog} (h : RefinesNoCache s r) (upto : LogId) :
    s.st.apply (.purgeUpto upto) = .ok (r.purged' upto).state := by
  simp only [RState.apply, h.st, RState.purge, RefLog.state, RefLog.purged']
  by_cases h1 : optLt r.purged (some upto) = true <;>
    by_cases h2 : optLt r.last (some upto) = true <;> simp [h1, h2]

theorem purgeUpto_refinesNC {s : Store} {r : RefLog} (fsHas : Nat → Bool) {upto : LogId}
    (h : RefinesNoCache s r) (hfs : ∀ i, s.openEnd ≤ i → fsHas i = false)
    (hl : r.legal (.purge upto) = true) (hnn : ¬ upto.index < nextIndex r.purged)
    (hsm : smallId upto) :
    ∃ seg s' effs, s.appendAndApply fsHas (.purgeUpto upto) = (.ok seg, s', effs) ∧
      RefinesNoCache s' (r.purged' upto) ∧ Growth0 s s' effs := by
  have hwf' : (r.purged' upto).WF := RefLog.purge_wf h.wf hl hnn
  apply refinesNC_step fsHas (rec := .purgeUpto upto) h hfs (purge_state h upto) hsm
    (by intro x hx; cases hx) hwf' ?_
  intro chunk seg
  have h1 := logKeys_filter (fun i => decide (upto.index < i)) s.log
  have h2 := entKeys_filter (fun i => decide (upto.index < i)) r.entries
  have h3 : logKeys s.log = entKeys r.entries := h.log
  have h4 : idxLog (.purgeUpto upto) chunk seg s.log = s.log.filter (fun e => decide (upto.index < e.1)) := rfl
  rw [h4, h1, RefLog.purged', h2, h3]

theorem logGet_of_entryAtNC {s : Store} {r : RefLog} (h : RefinesNoCache s r) {i : Nat}
    {e : LogId × Bytes} (he : r.entryAt i = some e) :
    ∃ d, s.logGet i = some d ∧ d.id = e.1 ∧ smallId d.id := by
  have hk := find_keys_eq (l := s.log) (es := r.entries) h.log i
  unfold RefLog.entryAt at he
  rw [he] at hk
  unfold Store.logGet
  cases hf : s.log.find? (fun e => e.1 = i) with
  | none => rw [hf] at hk; simp at hk
  | some x =>
    rw [hf] at hk
    simp only [Option.map_some, Option.some.injEq] at hk
    exact ⟨x.2, rfl, hk, h.pf.log x (List.mem_of_find?_eq_some hf)⟩

/-- **Step lemma for `RefinesNoCache`.** One legal, accepted, small op on a
store that refines `r` (cache clause dropped), with no chunk file at or beyond
the journal end: the call returns `ok` and the new store refines the new
reference log — for ANY cache limits and any amount of eviction. -/
theorem call_refinesNC {s : Store} {r r' : RefLog} (fsHas : Nat → Bool) {op : Op}
    (h : RefinesNoCache s r) (hfs : ∀ i, s.openEnd ≤ i → fsHas i = false)
    (hl : r.legal op = true) (hc : r.call op = .ok r') (hsm : op.small) :
    ∃ seg s' effs, s.call fsHas op = (.ok seg, s', effs) ∧ RefinesNoCache s' r' ∧
      Growth0 s s' effs := by
  have hpu : s.st.purged = r.purged := by rw [h.st]; rfl
  cases op with
  | saveVote v =>
    simp only [RefLog.call] at hc
    split at hc
    · rename_i hcond
      injection hc with hc; subst hc
      exact refinesNC_step_plain fsHas (rec := .saveVote v) h hfs
        (by simp [RState.apply, RState.updateVote, h.st, RefLog.state, hcond])
        (Or.inl ⟨v, rfl⟩) rfl rfl rfl
    · cases hc
  | commit id =>
    simp only [RefLog.call] at hc
    split at hc
    · cases hc
    · rename_i hcond
      injection hc with hc; subst hc
      exact refinesNC_step_plain fsHas (rec := .commit id) h hfs
        (by simp [RState.apply, RState.commit, h.st, RefLog.state, hcond])
        (Or.inr (Or.inl ⟨id, rfl⟩)) rfl rfl rfl
  | saveUserData d =>
    simp only [RefLog.call] at hc
    injection hc with hc; subst hc
    exact refinesNC_step_plain fsHas (rec := .state { s.st with userData := d }) h hfs
      (by simp [RState.apply, h.st, RefLog.state])
      (Or.inr (Or.inr ⟨_, rfl, rfl, rfl⟩)) rfl rfl rfl
  | append es =>
    simp only [Store.call]
    obtain ⟨seg0, hseg⟩ := lastSegment_some h.pf.open2
    rw [hseg]
    simp only
    obtain ⟨seg', s', effs', heq, href, hg⟩ :=
      appendBatch_refinesNC es s r r' fsHas seg0 [] h hfs hc hsm
    exact ⟨seg', s', effs', by simpa using heq, href, hg⟩
  | truncate idx =>
    simp only [Store.call]
    rw [nextIndexChecked_eq h.pf.purged]
    simp only [hpu]
    rcases RefLog.truncate_arg hc with ⟨h1, h2⟩ | ⟨h1, h2, e, he, h3⟩
    · rw [if_pos h1]
      subst h2
      exact truncateAfter_refinesNC fsHas h hfs (Or.inl rfl) (hpu ▸ h.pf.purged)
    · rw [if_neg h1, if_neg h2]
      obtain ⟨d, hd, hde, hds⟩ := logGet_of_entryAtNC h he
      rw [hd]
      simp only [hde]
      subst h3
      exact truncateAfter_refinesNC fsHas h hfs (Or.inr ⟨e, (RefLog.entryAt_some he).1, rfl⟩)
        (by rw [← hde]; exact hds)
  | purge upto =>
    have hidx : upto.index + 1 ≠ U64 := by
      have : upto.index + 1 < U64 := hsm
      omega
    simp only [Store.call, if_neg hidx]
    rw [nextIndexChecked_eq h.pf.purged]
    simp only [hpu]
    simp only [RefLog.call] at hc
    by_cases hnn : upto.index < nextIndex r.purged
    · rw [if_pos hnn]
      rw [if_pos hnn] at hc
      injection hc with hc; subst hc
      obtain ⟨seg0, hseg⟩ := lastSegment_some h.pf.open2
      rw [hseg]
      exact ⟨seg0, s, [], rfl, h, Growth0.refl s⟩
    · rw [if_neg hnn]
      rw [if_neg hnn] at hc
      injection hc with hc; subst hc
      obtain ⟨seg, s', effs, heq, h', hg⟩ := purgeUpto_refinesNC fsHas h hfs hl hnn hsm
      rw [heq]
      simp only
      refine ⟨seg, _, effs, rfl, ?_, ?_⟩
      · exact ⟨h'.st, h'.log, h'.wf, ⟨h'.cinv.ok, h'.cinv.le_last⟩,
          ⟨h'.pf.open2, h'.pf.purged, h'.pf.last, h'.pf.log⟩⟩
      · exact ⟨hg.openEnd, hg.creates⟩

/-- The relation only looks at the resident set, not at the eviction boundary. -/
theorem RefinesNoCache.of_same {s : Store} {r : RefLog} {c : Cache} (h : RefinesNoCache s r)
    (hs : SameItems c s.cache) : RefinesNoCache { s with cache := c } r := by
  refine ⟨h.st, h.log, h.wf, ?_, ⟨h.pf.open2, h.pf.purged, h.pf.last, h.pf.log⟩⟩
  exact ⟨⟨by simp only [hs.2.1, hs.1]; exact h.cinv.ok.size_eq,
    by simp only [hs.1]; exact h.cinv.ok.sorted⟩, by simp only [hs.1]; exact h.cinv.le_last⟩

theorem RefinesNoCache.of_fields {s s2 : Store} {r : RefLog} (h : RefinesNoCache s r)
    (h1 : s2.st = s.st) (h2 : s2.log = s.log) (h3 : s2.cache = s.cache)
    (h4 : s2.openOffsets = s.openOffsets) : RefinesNoCache s2 r := by
  refine ⟨by rw [h1]; exact h.st, by rw [h2]; exact h.log, h.wf,
    ⟨by rw [h3]; exact h.cinv.ok, by rw [h3, h1]; exact h.cinv.le_last⟩,
    ⟨by rw [h4]; exact h.pf.open2, by rw [h1]; exact h.pf.purged, by rw [h1]; exact h.pf.last,
      by rw [h2]; exact h.pf.log⟩⟩

/-- Draining the evictable prefix of the cache keeps the relation. -/
theorem RefinesNoCache.drain {s : Store} {r : RefLog} (h : RefinesNoCache s r) :
    RefinesNoCache { s with cache := s.cache.drainEvictable } r := by
  refine ⟨h.st, h.log, h.wf, ⟨Cache.drainEvictable_ok h.cinv.ok, ?_⟩,
    ⟨h.pf.open2, h.pf.purged, h.pf.last, h.pf.log⟩⟩
  obtain ⟨pre, h1, _, _, _⟩ :=
    drainLoop_spec s.cache.lastEvictable s.cache.size s.cache.items h.cinv.ok.size_eq
  have := h.cinv.le_last
  rw [h1] at this
  exact this.of_suffix

end RaftLog
