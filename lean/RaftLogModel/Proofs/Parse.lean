/-
Recovery parsing: `parseLoop` / `parseChunk` / `openChunk` on concatenations of
record encodings followed by a damaged tail (helpers for C10, C09, C05).
-/
import RaftLogModel.Model.Open
import RaftLogModel.Proofs.Crc
import RaftLogModel.Proofs.NoPanic
import RaftLogModel.Proofs.EncAll
namespace RaftLog

/-- Records paired with their encoded sizes (what `parseChunk` returns). -/
abbrev sized (rs : List Record) : List (Record × Nat) :=
  rs.map (fun r => (r, (encRecord r).length))

@[simp] theorem encAll_nilP : encAll [] = [] := rfl
@[simp] theorem encAll_consP (r : Record) (rs : List Record) :
    encAll (r :: rs) = encRecord r ++ encAll rs := rfl

theorem encAll_appendP (as bs : List Record) : encAll (as ++ bs) = encAll as ++ encAll bs := by
  induction as with
  | nil => rfl
  | cons a as ih => simp [ih]

theorem AllWF.cons {r : Record} {rs : List Record} (h : AllWF (r :: rs)) : r.WF ∧ AllWF rs :=
  ⟨h r List.mem_cons_self, fun x hx => h x (List.mem_cons_of_mem _ hx)⟩

theorem AllWF.nil : AllWF [] := by intro r h; cases h

theorem AllWF.mk_cons {r : Record} {rs : List Record} (h1 : r.WF) (h2 : AllWF rs) :
    AllWF (r :: rs) := by
  intro x hx
  rcases List.mem_cons.mp hx with h | h
  · subst h; exact h1
  · exact h2 x h

theorem encRecord_length (r : Record) : (encRecord r).length = 12 + (encBody r).length := by
  simp [encRecord]; omega

theorem encRecord_length_posP (r : Record) : 0 < (encRecord r).length := by
  rw [encRecord_length]; omega

theorem encRecord_length_ge (r : Record) : 12 ≤ (encRecord r).length := by
  rw [encRecord_length]; omega

theorem encRecord_ne_nil (r : Record) : encRecord r ≠ [] := by
  intro h
  have := encRecord_length_posP r
  rw [h] at this
  simp at this

theorem encAll_length_geP (rs : List Record) : rs.length ≤ (encAll rs).length := by
  induction rs with
  | nil => simp
  | cons r rs ih =>
    have := encRecord_length_posP r
    simp only [encAll_consP, List.length_append, List.length_cons]
    omega

/-! ## `parseLoop`: one step, fuel independence -/

theorem decRecord_nil : decRecord [] = .eof := by
  simp [decRecord, decU]

theorem decRecord_ok_length {bs : Bytes} {r : Record} {rest : Bytes}
    (h : decRecord bs = .ok r rest) : bs.length = (encRecord r).length + rest.length := by
  rw [(record_canon h).1]; simp

theorem parseLoop_nil (f : Nat) : parseLoop (f + 1) [] = ([], .clean, []) := by
  simp [parseLoop]

theorem parseLoop_ok {f : Nat} {bs : Bytes} {r : Record} {rest : Bytes}
    (h : decRecord bs = .ok r rest) :
    parseLoop (f + 1) bs = ((r, (encRecord r).length) :: (parseLoop f rest).1,
      (parseLoop f rest).2.1, (parseLoop f rest).2.2) := by
  have hl := decRecord_ok_length h
  have hne : bs.isEmpty = false := by
    cases bs with
    | nil => rw [decRecord_nil] at h; cases h
    | cons _ _ => rfl
  have hsz : bs.length - rest.length = (encRecord r).length := by omega
  simp only [parseLoop, hne, h, hsz]
  rfl

theorem parseLoop_eof {f : Nat} {bs : Bytes} (hne : bs ≠ []) (h : decRecord bs = .eof) :
    parseLoop (f + 1) bs = ([], .eof, bs) := by
  have hne : bs.isEmpty = false := by
    cases bs with
    | nil => exact absurd rfl hne
    | cons _ _ => rfl
  simp only [parseLoop, hne, h]
  rfl

theorem parseLoop_invalid {f : Nat} {bs : Bytes} (h : decRecord bs = .invalid) :
    parseLoop (f + 1) bs = ([], .invalid, bs) := by
  have hne : bs.isEmpty = false := by
    cases bs with
    | nil => rw [decRecord_nil] at h; cases h
    | cons _ _ => rfl
  simp only [parseLoop, hne, h]
  rfl

/-- Any fuel above the input length gives the same result. -/
theorem parseLoop_fuel (f g : Nat) (bs : Bytes) (hf : bs.length < f) (hg : bs.length < g) :
    parseLoop f bs = parseLoop g bs := by
  induction f generalizing g bs with
  | zero => omega
  | succ f ih =>
    cases g with
    | zero => omega
    | succ g =>
      cases bs with
      | nil => rw [parseLoop_nil, parseLoop_nil]
      | cons b bs' =>
        cases hd : decRecord (b :: bs') with
        | eof => rw [parseLoop_eof (by simp) hd, parseLoop_eof (by simp) hd]
        | invalid => rw [parseLoop_invalid hd, parseLoop_invalid hd]
        | ok r rest =>
          have hl := decRecord_ok_length hd
          have hp := encRecord_length_posP r
          rw [parseLoop_ok hd, parseLoop_ok hd, ih g rest (by omega) (by omega)]

theorem parseChunk_eq_fuel (f : Nat) (bs : Bytes) (hf : bs.length < f) :
    parseLoop f bs = parseChunk bs :=
  parseLoop_fuel f _ bs hf (by omega)

/-! ## `parseChunk`: compositional lemmas -/

theorem parseChunk_nil : parseChunk [] = ([], .clean, []) := by
  simp [parseChunk, parseLoop]

theorem parseChunk_ok {bs : Bytes} {r : Record} {rest : Bytes} (h : decRecord bs = .ok r rest) :
    parseChunk bs = ((r, (encRecord r).length) :: (parseChunk rest).1,
      (parseChunk rest).2.1, (parseChunk rest).2.2) := by
  have hl := decRecord_ok_length h
  have hp := encRecord_length_posP r
  unfold parseChunk
  rw [parseLoop_ok h, parseLoop_fuel bs.length (rest.length + 1) rest (by omega) (by omega)]

theorem parseChunk_eof {bs : Bytes} (hne : bs ≠ []) (h : decRecord bs = .eof) :
    parseChunk bs = ([], .eof, bs) := parseLoop_eof hne h

theorem parseChunk_invalid {bs : Bytes} (h : decRecord bs = .invalid) :
    parseChunk bs = ([], .invalid, bs) := parseLoop_invalid h

theorem parseChunk_cons {r : Record} (h : r.WF) (rest : Bytes) :
    parseChunk (encRecord r ++ rest) = ((r, (encRecord r).length) :: (parseChunk rest).1,
      (parseChunk rest).2.1, (parseChunk rest).2.2) :=
  parseChunk_ok (record_rt r rest h)

/-- The parse of `encAll rs ++ tail` is the records `rs` followed by the parse
of `tail`. -/
theorem parseChunk_encAll_append {rs : List Record} (h : AllWF rs) (tail : Bytes) :
    parseChunk (encAll rs ++ tail) =
      (sized rs ++ (parseChunk tail).1, (parseChunk tail).2.1, (parseChunk tail).2.2) := by
  induction rs with
  | nil => simp [sized]
  | cons r rs ih =>
    obtain ⟨h1, h2⟩ := h.cons
    rw [encAll_consP, List.append_assoc, parseChunk_cons h1, ih h2]
    simp [sized]

theorem parse_encAll' {rs : List Record} (h : AllWF rs) :
    parseChunk (encAll rs) = (sized rs, .clean, []) := by
  have := parseChunk_encAll_append h []
  simpa [parseChunk_nil] using this

theorem parse_cut' {rs : List Record} {r : Record} {pfx : Bytes} (h : AllWF rs) (hr : r.WF)
    (hne : pfx ≠ []) (hp : ∃ t, t ≠ [] ∧ pfx ++ t = encRecord r) :
    parseChunk (encAll rs ++ pfx) = (sized rs, .eof, pfx) := by
  obtain ⟨t, ht, e⟩ := hp
  rw [parseChunk_encAll_append h, parseChunk_eof hne (record_pfx r pfx t hr ht e)]
  simp

/-! ## Canonicity of a parse -/

/-- Whatever `parseChunk` returns, the input is the encodings of the returned
records followed by the returned remainder. -/
theorem parseChunk_canon (bs : Bytes) :
    ∃ rs, (parseChunk bs).1 = sized rs ∧ AllWF rs ∧ bs = encAll rs ++ (parseChunk bs).2.2 ∧
      ((parseChunk bs).2.1 = .clean → (parseChunk bs).2.2 = []) := by
  generalize hn : bs.length = n
  induction n using Nat.strongRecOn generalizing bs with
  | _ n ih =>
    cases hd : decRecord bs with
    | ok r rest =>
      have hl := decRecord_ok_length hd
      have hp := encRecord_length_posP r
      obtain ⟨rs, h1, h2, h3, h4⟩ := ih rest.length (by omega) rest rfl
      obtain ⟨e, wf⟩ := record_canon hd
      refine ⟨r :: rs, ?_, AllWF.mk_cons wf h2, ?_, ?_⟩
      · rw [parseChunk_ok hd, h1]; rfl
      · rw [parseChunk_ok hd]; simp only [encAll_consP, List.append_assoc]; rw [← h3]; exact e
      · rw [parseChunk_ok hd]; exact h4
    | eof =>
      cases bs with
      | nil => exact ⟨[], by simp [parseChunk_nil], AllWF.nil, by simp [parseChunk_nil],
          by simp [parseChunk_nil]⟩
      | cons b bs' =>
        rw [parseChunk_eof (by simp) hd]
        exact ⟨[], rfl, AllWF.nil, rfl, by intro h; cases h⟩
    | invalid =>
      rw [parseChunk_invalid hd]
      exact ⟨[], rfl, AllWF.nil, rfl, by intro h; cases h⟩

/-! ## A frame with a wrong checksum is `invalid` -/

theorem decRecord_bad_sum (r : Record) (h : r.WF) (sum : Nat) (hs : sum < 256 ^ 8)
    (hne : sum ≠ crc32 (encTB r)) (rest : Bytes) :
    decRecord (encTB r ++ natToBE 8 sum ++ rest) = .invalid := by
  unfold decRecord
  have e1 : encTB r ++ natToBE 8 sum ++ rest
      = natToBE 4 r.tag ++ (encBody r ++ (natToBE 8 sum ++ rest)) := by
    simp [encTB]
  rw [e1, decU_enc 4 r.tag _ r.tag_lt]
  simp only [DecRes.bind_ok]
  rw [body_rt r _ h]
  simp only [DecRes.bind_ok]
  rw [decU_enc 8 _ _ hs]
  simp only [DecRes.bind_ok]
  have e2 : List.take
      ((natToBE 4 r.tag ++ (encBody r ++ (natToBE 8 sum ++ rest))).length
        - (natToBE 8 sum ++ rest).length)
      (natToBE 4 r.tag ++ (encBody r ++ (natToBE 8 sum ++ rest))) = encTB r := by
    have : natToBE 4 r.tag ++ (encBody r ++ (natToBE 8 sum ++ rest))
        = encTB r ++ (natToBE 8 sum ++ rest) := by simp [encTB]
    rw [this]
    apply List.take_left'
    simp
  rw [e2, if_neg hne]

/-- Same with the stored checksum given as 8 arbitrary bytes. -/
theorem decRecord_bad_sum_bytes (r : Record) (h : r.WF) (sum : Bytes) (hl : sum.length = 8)
    (hne : sum ≠ natToBE 8 (crc32 (encTB r))) (rest : Bytes) :
    decRecord (encTB r ++ sum ++ rest) = .invalid := by
  have e : natToBE 8 (beToNat sum) = sum := by rw [← hl]; exact natToBE_beToNat sum
  have hlt : beToNat sum < 256 ^ 8 := by rw [← hl]; exact beToNat_lt sum
  rw [← e]
  apply decRecord_bad_sum r h _ hlt
  intro hc
  apply hne
  rw [← e, hc]

/-! ## A run of zero bytes -/

def DecRes.isEof {α} : DecRes α → Bool
  | .eof => true
  | _ => false

theorem DecRes.eq_eof_of_isEof {α} {x : DecRes α} (h : x.isEof = true) : x = .eof := by
  cases x <;> first | rfl | cases h

theorem zeros_eof_aux : ∀ m, m < 28 → (decRecord (List.replicate m 0)).isEof = true := by
  decide

/-- Fewer than 28 zero bytes: the decoder runs out of input. -/
theorem decRecord_zeros_eof {m : Nat} (h : m < 28) : decRecord (List.replicate m 0) = .eof :=
  DecRes.eq_eof_of_isEof (zeros_eof_aux m h)

/-- CRC-32 of the 20 zero bytes `tag = 0 ‖ log id (0,0)` is not 0. -/
theorem crc_zeros_ne : crc32 (encTB (.saveVote ⟨0, 0⟩)) ≠ 0 := by decide +kernel

theorem crc32_zeros20 : crc32 (List.replicate 20 0) ≠ 0 := by decide +kernel

theorem zeros28 : encTB (.saveVote ⟨0, 0⟩) ++ natToBE 8 0 = List.replicate 28 0 := by decide

/-- At least 28 zero bytes: `SaveVote (0,0)` with stored checksum 0: `invalid`. -/
theorem decRecord_zeros_invalid {m : Nat} (h : 28 ≤ m) :
    decRecord (List.replicate m 0) = .invalid := by
  have e : List.replicate m (0 : UInt8)
      = encTB (.saveVote ⟨0, 0⟩) ++ natToBE 8 0 ++ List.replicate (m - 28) 0 := by
    rw [zeros28, List.replicate_append_replicate]
    congr 1; omega
  rw [e]
  apply decRecord_bad_sum
  · show LogId.WF ⟨0, 0⟩
    simp [LogId.WF, U64]
  · decide
  · exact fun h => crc_zeros_ne h.symm

theorem replicate_ne_nil {m : Nat} (h : 1 ≤ m) : List.replicate m (0 : UInt8) ≠ [] := by
  intro e
  have := congrArg List.length e
  simp at this
  omega

theorem parse_zero_tail' {rs : List Record} (h : AllWF rs) {m : Nat} (hm : 1 ≤ m) :
    parseChunk (encAll rs ++ List.replicate m 0) =
      (sized rs, (if m < 28 then ParseEnd.eof else ParseEnd.invalid), List.replicate m 0) := by
  rw [parseChunk_encAll_append h]
  by_cases h28 : m < 28
  · rw [parseChunk_eof (replicate_ne_nil hm) (decRecord_zeros_eof h28), if_pos h28]; simp
  · rw [parseChunk_invalid (decRecord_zeros_invalid (by omega)), if_neg h28]; simp

theorem allZero_replicate (m : Nat) : allZero (List.replicate m 0) = true := by
  simp [allZero]

/-! ## `offsetsFrom` and `openChunk` -/

def sumNatP : List Nat → Nat
  | [] => 0
  | x :: xs => x + sumNatP xs

theorem lastOff_offsetsFromP (start : Nat) (szs : List Nat) :
    lastOff (offsetsFrom start szs) = start + sumNatP szs := by
  induction szs generalizing start with
  | nil => simp [offsetsFrom, lastOff, sumNatP]
  | cons x xs ih =>
    have : lastOff (offsetsFrom start (x :: xs)) = lastOff (offsetsFrom (start + x) xs) := by
      cases xs <;> simp [offsetsFrom, lastOff, List.getLastD]
    rw [this, ih]; simp [sumNatP]; omega

theorem sumNat_sized (rs : List Record) :
    sumNatP ((sized rs).map (·.2)) = (encAll rs).length := by
  induction rs with
  | nil => rfl
  | cons r rs ih =>
    simp only [sized, List.map_cons, sumNatP, encAll_consP, List.length_append] at ih ⊢
    rw [ih]

theorem sized_map_fst (rs : List Record) : (sized rs).map (·.1) = rs := by
  simp [sized, List.map_map, Function.comp_def]

/-- Record sizes, as `openChunk` feeds them to `offsetsFrom`. -/
abbrev sizes (rs : List Record) : List Nat := rs.map (fun r => (encRecord r).length)

theorem sized_map_snd (rs : List Record) : (sized rs).map (·.2) = sizes rs := by
  simp [sized, sizes, List.map_map, Function.comp_def]

theorem goodLen_sized (id : Nat) (rs : List Record) :
    lastOff (offsetsFrom id (sizes rs)) - id = (encAll rs).length := by
  rw [lastOff_offsetsFromP, ← sized_map_snd, sumNat_sized]; omega

theorem lastOff_sized (id : Nat) (rs : List Record) :
    lastOff (offsetsFrom id (sizes rs)) = id + (encAll rs).length := by
  rw [lastOff_offsetsFromP, ← sized_map_snd, sumNat_sized]

/-- What `openChunk` returns for a given parse result. -/
def chunkResult (cfg : Cfg) (id : Nat) (rs : List Record) (e : ParseEnd) (rest : Bytes) :
    Except ErrKind OpenedChunk :=
  match e with
  | .clean => .ok ⟨rs, offsetsFrom id (sizes rs), none⟩
  | .eof => if cfg.truncate then .ok ⟨rs, offsetsFrom id (sizes rs), some (encAll rs).length⟩
            else .error .eof
  | .invalid =>
    if allZero rest && cfg.truncate
    then .ok ⟨rs, offsetsFrom id (sizes rs), some (encAll rs).length⟩
    else .error .invalid

/-- `openChunk` in terms of a known parse result. -/
theorem openChunk_of_parse {cfg : Cfg} {id : Nat} {data : Bytes} {rs : List Record}
    {e : ParseEnd} {rest : Bytes} (h : parseChunk data = (sized rs, e, rest)) :
    openChunk cfg id data = chunkResult cfg id rs e rest := by
  unfold openChunk chunkResult
  simp only [h, sized_map_fst, sized_map_snd, goodLen_sized]
  cases e <;> rfl

end RaftLog
