/-
LIFT, part 1: the crash invariant `CrashInvC5b` through a CLEAN RESTART (drop + open of a
clean system), and helper lemmas on systems that differ only in the fields the invariants
do not read (`locked`, `dump`, `cfg`).

D15: `open` syncs every chunk file it keeps, so after the restart every linked file is
durable up to its length and the restarted system is `SysCovered` without any hypothesis on
the older chunk files (before D15 the hypothesis `Sys.OldSyncedLIFT` was needed: a failed
`fdatasync` of an OLDER chunk file left that file unsynced, and the worker `open` builds
tracks only the newest file). `Sys.OldSyncedLIFT` is kept as a definition (it still holds
along histories without fault) but no theorem needs it any more.

All names carry the suffix `_LIFT` / `LIFT`.
-/
import RaftLogModel.Props.C05Crash
namespace RaftLog

/-! ### Only `store`, `fs` and `worker` matter -/

theorem CrashInvC5b.of_parts_LIFT {y y' : Sys} {r : RefLog} {W : List Op} {A E K : Nat}
    (h : CrashInvC5b y r W A E K) (hs : y'.store = y.store) (hf : y'.fs = y.fs)
    (hw : y'.worker = y.worker) : CrashInvC5b y' r W A E K := by
  simp only [CrashInvC5b, HSys, HCore, LSys, SysCovered, SysWF, GSysC3b, SmallSys, TSysC5b, hs, hf,
    hw] at h ⊢
  exact h

/-! ### The hypothesis on older chunk files -/

/-- Every linked file with bytes not known durable is the file of the open chunk: the
older chunk files are synced to their ends. -/
def Sys.OldSyncedLIFT (y : Sys) : Prop :=
  ∀ s, y.store = some s → ∀ f ∈ y.fs, f.durable < f.data.length → f.linked = true → f.id = s.openId

/-! ### The invariants on the reopened store -/

theorem chunkBytes_reopen_LIFT {s s' : Store} {fs : Fs} {w : Worker}
    (hinf : ∀ id, w.inflight id = []) (hp : s.pending = []) (h3 : s'.openOffsets = s.openOffsets)
    (h4 : s'.pending = []) (pl : Option LogId) (id : Nat) :
    chunkBytes s' fs { files := [⟨s.openId, pl⟩] } id = chunkBytes s fs w id := by
  obtain ⟨f1, _, _⟩ := reopen_worker_facts s.openId pl
  have e1 : s'.openId = s.openId := by simp [Store.openId, h3]
  simp only [chunkBytes, f1, hinf, h4, hp, e1]

/-- The durability invariant for the fresh worker `open` builds: the same acknowledged
position. -/
theorem DInv.reopen_LIFT {s s' : Store} {fs : Fs} {w : Worker} {A : Nat} (h : DInv s fs w A)
    (hj : JInv s fs w) (hpc : w.pc = .idle) (hqe : w.queue = [])
    (h3 : s'.openOffsets = s.openOffsets) (h5 : s'.closed = s.closed) (pl : Option LogId)
    (ids : List Nat) :
    DInv s' (fs.syncAll ids) { files := [⟨s.openId, pl⟩] } A := by
  have hrest : w.rest = [] := by simp [Worker.rest, hpc, hqe, WPc.inHand]
  have hcur : w.cur = s.openId := by
    have := hj.annLast
    simp only [Worker.announced, hrest, annIds, List.getLast?_singleton, Option.some.injEq] at this
    exact this
  have e2 : s'.openEnd = s.openEnd := by simp [Store.openEnd, h3]
  have e3 : s'.chunks = s.chunks := by simp [Store.chunks, h3, h5]
  refine ⟨⟨trivial, fun r hr => (by cases hr), ?_⟩, fun i hi => (by cases hi),
    (by rw [e2]; exact h.a2),
    (by rw [e3]; intro offs ho; rw [fdata_syncAll]; exact h.dw offs ho), ?_⟩
  · intro i hi hlt
    rw [Fs.ids_syncAll] at hi
    have := h.wu.u3 i hi (by rw [hcur]; exact hlt)
    rw [hrest] at this
    exact this
  · rw [e3]
    intro offs ho f' hf'
    rw [Fs.find_syncAll] at hf'
    cases hf : fs.find (offs.headD 0) with
    | none => rw [hf] at hf'; cases hf'
    | some f =>
      rw [hf] at hf'
      simp only [Option.map_some, Option.some.injEq] at hf'
      by_cases hc : ids.contains f.id = true
      · rw [if_pos hc] at hf'; subst hf'
        have := h.dw offs ho
        unfold fdata at this
        rw [hf] at this
        exact this
      · rw [if_neg hc] at hf'; subst hf'
        exact h.dd offs ho f hf

/-- What drop + open of a clean system is, as a record. -/
theorem restart_eq_LIFT (y : Sys) (s : Store) (r : RefLog) (cfg' : Cfg) (h : CSys y r)
    (hs : y.store = some s) (hq : y.worker.quiet = true) (hp : s.pending = [])
    (hrem : s.removed = []) (hpost : y.worker.postponed = []) :
    ∃ s', openStore cfg' y.fs = (.ok (s', { files := [⟨s.openId, prevLastOf s.closed⟩] }),
        y.fs.syncAll y.fs.linkedIds, syncEvs y.fs.linkedIds) ∧
      (y.step .drop).step (.openWith cfg') =
        { ({ (y.step .drop) with cfg := cfg' } : Sys) with
          fs := y.fs.syncAll y.fs.linkedIds, store := some s',
          worker := { files := [⟨s.openId, prevLastOf s.closed⟩] }, locked := true } ∧
      s'.st = s.st ∧ s'.log = s.log ∧ s'.closed = s.closed ∧ s'.openOffsets = s.openOffsets ∧
      s'.pending = [] ∧ s'.removed = [] ∧ s'.cfg = cfg' := by
  obtain ⟨⟨s0, hs0, hd, hinv⟩, ⟨s1, hs1, hli⟩⟩ := h
  rw [hs] at hs0 hs1; cases hs0; cases hs1
  obtain ⟨hpc, hqe⟩ := quiet_alive hq hd
  have hinf := inflight_quiet hpc hqe
  have htr : y.worker.toRemove = [] := by rw [toRemove_quiet hpc hqe]; exact hpost
  obtain ⟨d1, d2, d3, _⟩ := dropStore_quiet y s hs hpc hqe
  have hlinked := hli.linkedIds_eq hinv.j hrem htr
  obtain ⟨s', ho, k1, k2, k3, k4, k5, k6, k7, k8, k9⟩ := openStore_of_rep cfg' hinv hinf hp hlinked
  rw [← hlinked] at ho
  have hopen : ({ (y.step .drop) with cfg := cfg' } : Sys).open =
      (.ok (), { ({ (y.step .drop) with cfg := cfg' } : Sys) with
        fs := y.fs.syncAll y.fs.linkedIds, store := some s',
        worker := { files := [⟨s.openId, prevLastOf s.closed⟩] }, locked := true },
        syncEvs y.fs.linkedIds) := by
    simp only [Sys.step, Sys.open, d2, d1, ho]
    simp
  refine ⟨s', ho, ?_, k1, k2, k3, k4, k5, k6, k7⟩
  show ({ (y.step .drop) with cfg := cfg' } : Sys).open.2.1 = _
  rw [hopen]

/-- **The crash invariant through a clean restart.** `y` satisfies the crash invariant and is
clean (worker blocked on an empty queue, nothing pending, nothing to remove). (D15: no
hypothesis on the older chunk files — `open` syncs them.) Then drop + open with any configuration yields a system that
satisfies the crash invariant AGAIN — same reference log, same write history, same
acknowledged position, same tracked position. -/
theorem crashInv_clean_restart_LIFT {y : Sys} {r : RefLog} {W : List Op} {A E K : Nat}
    (h : CrashInvC5b y r W A E K) (hc : y.Clean) (cfg' : Cfg) :
    CrashInvC5b ((y.step .drop).step (.openWith cfg')) r W A E K := by
  obtain ⟨s, hs, hq, hp, hrem, hpost⟩ := hc
  obtain ⟨s', _, hy2, k1, k2, k3, k4, k5, k6, _⟩ :=
    restart_eq_LIFT y s r cfg' h.csys hs hq hp hrem hpost
  obtain ⟨B, hh, hg, hS, hT⟩ := h
  obtain ⟨⟨s0, hs0, hd, hi⟩, ⟨s1, hs1, hli⟩, hcov, hswf⟩ := hh
  rw [hs] at hs0 hs1; cases hs0; cases hs1
  obtain ⟨hpc, hqe⟩ := quiet_alive hq hd
  have hinf := inflight_quiet hpc hqe
  have htr : y.worker.toRemove = [] := by rw [toRemove_quiet hpc hqe]; exact hpost
  obtain ⟨f1, f2, f3⟩ := reopen_worker_facts s.openId (prevLastOf s.closed)
  rw [hy2]
  have hsb : SameBytes y.fs (y.fs.syncAll y.fs.linkedIds) := SameBytes.syncAll _ _
  have hcbF : ∀ (s1 : Store) (w1 : Worker) id,
      chunkBytes s1 (y.fs.syncAll y.fs.linkedIds) w1 id = chunkBytes s1 y.fs w1 id := by
    intro s1 w1 id; simp only [chunkBytes, fdata_syncAll]
  generalize hfs2 : y.fs.syncAll y.fs.linkedIds = fs2 at *
  generalize hw' : ({ files := [⟨s.openId, prevLastOf s.closed⟩] } : Worker) = w' at *
  have hcb : ∀ id, chunkBytes s' fs2 w' id = chunkBytes s y.fs y.worker id := by
    intro id; rw [hcbF, ← hw']; exact chunkBytes_reopen_LIFT hinf hp k4 k5 _ id
  have hrinv : RInv s' fs2 w' r := by
    rw [← hw']; exact hi.inv.reopen hsb hinf hp k1 k2 k4 k5 k3 _
  have hpcw : w'.pc = .idle := by rw [← hw']
  have hnd : w'.pc ≠ .dead := by rw [hpcw]; intro e; cases e
  have hunl : UnlPostC3b w' := by
    intro ids hh; rw [hpcw] at hh; cases hh
  have hwfS : y.worker.WF → w'.WF ∧ w'.TodoOK := by
    intro _
    constructor
    · rw [← hw']; simp [Worker.WF]
    · exact .of_not_writing (by intro todo b t e; rw [hpcw] at e; cases e)
  refine ⟨B, ⟨⟨s', rfl, hnd, ?_⟩, ⟨s', rfl, ?_⟩, ?_, ?_⟩, ?_, ?_, ?_⟩
  · -- the history and durability invariant
    refine hi.transport hrinv k1 k2 k4 k3 hcb ?_
    rw [← hw', ← hfs2]; exact hi.dur.reopen_LIFT hi.inv.j hpc hqe k4 k3 _ _
  · rw [← hw']; exact hli.reopen hsb hrem htr k4 k3 k6 _
  · -- D15: no linked file is unsynced after `open`
    intro f hf hdl hl
    exfalso
    rw [← hfs2] at hf
    have := syncAll_linkedIds_durable hli.nodup f hf hl
    omega
  · intro _
    exact hwfS (hswf (by rw [hs]; simp)).1
  · -- the ghost invariant: no ghost chunk is left
    obtain ⟨s0, Bh, gs, hs0, hgi⟩ := hg
    rw [hs] at hs0; cases hs0
    have hgs : gs = [] := by
      have := hgi.order
      rw [htr, hrem] at this
      cases gs with
      | nil => rfl
      | cons p gs' => simp [ghostClosedC3b] at this
    subst hgs
    have hb := hgi.base
    simp only [ghostClosedC3b, List.map_nil, Store.liftC3b_nil] at hb
    refine ⟨s', Bh, [], rfl, ?_, (fun p hp => by cases hp), ?_, hgi.ack, List.Pairwise.nil,
      (fun p hp => by cases hp), hunl⟩
    · show HInv (s'.liftC3b []) fs2 w' r W Bh A E K
      rw [Store.liftC3b_nil]
      refine hb.transport hrinv k1 k2 k4 k3 hcb ?_
      rw [← hw', ← hfs2]; exact hb.dur.reopen_LIFT hb.inv.j hpc hqe k4 k3 _ _
    · show w'.toRemove ++ s'.removed = _
      rw [f3, k6]; rfl
  · -- small records
    intro s2 hs2
    have : s2 = s' := by
      simp only [Option.some.injEq] at hs2; exact hs2.symm
    subst this
    exact (hS s hs).transport (fun id hid => by rw [← hsb.ids]; exact hid) hcb
  · -- payload mirroring, for the store with all dropped chunks put back
    obtain ⟨s0, T, hs0, hti⟩ := hT
    rw [hs] at hs0; cases hs0
    refine ⟨s', T, rfl, ?_, ⟨T.map Closed.id, ?_⟩, hunl⟩
    · have hr2 : RInv (s'.liftC3b T) fs2 w' r := by
        rw [← hw']
        exact hti.pinv.inv.reopen (s' := s'.liftC3b T) hsb hinf hp k1 k2 k4 k5 (by simp [k3]) _
      refine hti.pinv.transport hr2 k1 k2 k4 (by simp [k3]) ?_
      intro id
      rw [hcbF, ← hw']
      exact chunkBytes_reopen_LIFT (s := s.liftC3b T) (s' := s'.liftC3b T) hinf hp k4 k5 _ id
    · show _ = _ ++ (w'.toRemove ++ s'.removed)
      rw [f3, k6]; simp

end RaftLog
