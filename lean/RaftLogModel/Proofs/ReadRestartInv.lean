/-
C07 across restarts, part 2: the closed-chunk invariant `ClosedOKC7c B s` — the
closing `last` of every closed chunk is at or below the ghost bound `B`
(`Proofs/ReadTruncStore.lean`), and an index entry at or below it lies in that
chunk or an older one. It is what makes `open` safe for readers: `open` sets the
eviction boundary to the closing `last` of the chunk before the one it replays;
for the last chunk (reused as the open chunk) this is the closing `last` of the
last closed chunk, and every entry of the open chunk must stay resident.

Preservation by every journalled record, chunk rotation, purge of obsolete
chunks, every public call (`call_cok_C7c`), flush, worker steps, drain; the
system-level invariant `ReadInvC7c` = `ReadInvC7b` ∧ `ClosedOKC7c` ∧ `CSys`; it
is kept along histories (`run_readInv_C7c`), re-established by drop + open from
a clean state with ANY configuration (`restart_readInv_C7c`), hence along cycles
(`cycles_readInv_C7c`).

All names carry the suffix `C7c`.
-/
import RaftLogModel.Proofs.ReadTrunc
import RaftLogModel.Proofs.ReplayRestart
import RaftLogModel.Proofs.ReadRestartCache
namespace RaftLog

/-! ### The closed-chunk invariant -/

/-- For every closed chunk `c`: `c.state.last ≤ B`, and every index entry with
id at or below `c.state.last` was journalled into `c` or an older chunk. -/
def ClosedOKC7c (B : Option LogId) (s : Store) : Prop :=
  ∀ c ∈ s.closed, EntOKC7b B s (c.id + 1) c.state.last

theorem ClosedOKC7c.step {B B' : Option LogId} {s s' : Store} (h : ClosedOKC7c B s)
    (hB : optLe B B' = true) (hc : s'.closed = s.closed)
    (hlog : ∀ x ∈ s'.log, x ∈ s.log ∨ optLe (some x.2.id) B = false) : ClosedOKC7c B' s' := by
  intro c hcm
  rw [hc] at hcm
  exact (h c hcm).step hB hlog

theorem ClosedOKC7c.congr {B : Option LogId} {s s' : Store} (h : ClosedOKC7c B s)
    (hc : s'.closed = s.closed) (hl : s'.log = s.log) : ClosedOKC7c B s' := by
  intro c hcm
  rw [hc] at hcm
  exact (h c hcm).congr hl

theorem ClosedOKC7c.weaken {B B' : Option LogId} {s : Store} (h : ClosedOKC7c B s)
    (hB : optLe B B' = true) : ClosedOKC7c B' s :=
  fun c hc => ⟨optLe_trans (h c hc).1 hB, (h c hc).2⟩

/-- Index entries after one index operation: old ones, or the one an `Append`
record inserts. -/
theorem idxLog_sub_C7c {rec : Record} {chunk : Nat} {seg : Seg} {l : List (Nat × LogData)}
    {x : Nat × LogData} (hx : x ∈ idxLog rec chunk seg l) :
    x ∈ l ∨ ∃ id p, rec = .append id p ∧ x.2.id = id := by
  cases rec with
  | saveVote v => exact .inl hx
  | commit id => exact .inl hx
  | state st => exact .inl hx
  | append id p =>
    simp only [idxLog] at hx
    rcases mem_logInsert hx with h1 | h1
    · subst h1; exact .inr ⟨id, p, rfl, rfl⟩
    · exact .inl h1
  | truncateAfter o =>
    simp only [idxLog] at hx
    exact .inl (List.mem_filter.mp hx).1
  | purgeUpto id =>
    simp only [idxLog] at hx
    exact .inl (List.mem_filter.mp hx).1

theorem ClosedOKC7c.applied {B B' : Option LogId} {s : Store} {rec : Record} {st' : RState}
    (h : ClosedOKC7c B s) (hB : optLe B B' = true)
    (hfr : ∀ id p, rec = .append id p → optLe (some id) B = false) :
    ClosedOKC7c B' (s.applied rec st') := by
  apply h.step (s' := s.applied rec st') hB rfl
  intro x hx
  rcases idxLog_sub_C7c hx with h1 | ⟨id, p, hrec, hid⟩
  · exact .inl h1
  · right; rw [hid]; exact hfr id p hrec

theorem ClosedOKC7c.rotate {B : Option LogId} {s : Store} {fs : Fs} {w : Worker} {r : RefLog}
    (h : ClosedOKC7c B s) (hj : JInv s fs w) (hr : RdInvC7b B s fs w r) : ClosedOKC7c B s.rotated := by
  intro c hc
  have hc' : c ∈ s.closed ∨ c = ⟨s.openOffsets, s.st⟩ := by
    simpa [Store.rotated] using hc
  rcases hc' with h1 | h1
  · exact (h c h1).congr rfl
  · subst h1
    refine ⟨hr.lastB, fun x hx _ => ?_⟩
    have := hr.chunk_le hj (x := x) hx
    show x.2.chunk < s.openId + 1
    omega

theorem ClosedOKC7c.dropObsolete {B : Option LogId} {s : Store} (upto : LogId) (h : ClosedOKC7c B s) :
    ClosedOKC7c B ({ s with closed := (popObsolete upto s.closed).2, removed := s.removed ++ (popObsolete upto s.closed).1 } : Store) := by
  obtain ⟨k, _, h2, _, _⟩ := popObsolete_spec upto s.closed
  intro c hc
  have hc' : c ∈ (popObsolete upto s.closed).2 := hc
  rw [h2] at hc'
  exact (h c (List.mem_of_mem_drop hc')).congr rfl

/-- The boundary `open` will publish for the reused open chunk. -/
theorem ClosedOKC7c.prevLast {B : Option LogId} {s : Store} {fs : Fs} {w : Worker}
    (h : ClosedOKC7c B s) (hj : JInv s fs w) : EntOKC7b B s s.openId (prevLastOf s.closed) := by
  unfold prevLastOf
  cases hl : s.closed.getLast? with
  | none => exact ⟨by simp, fun x _ hle => by simp at hle⟩
  | some c =>
    have hc : c ∈ s.closed := List.mem_of_getLast? hl
    have := hj.closed_lt hc
    exact (h c hc).mono (by omega)

/-! ### `appendAndApply`, batches, and every public call -/

theorem aa_cok_C7c {B B' : Option LogId} {s : Store} {fs : Fs} {w : Worker} {r r' : RefLog}
    (fsHas : Nat → Bool) {rec : Record}
    (hj : JInv s fs w) (h : RdInvC7b B s fs w r) (hk : ClosedOKC7c B s) (hrec : rec.WF) (hsm : rec.small)
    (hfs : ∀ i, s.openEnd ≤ i → fsHas i = false)
    (hst : s.st.apply rec = .ok r'.state)
    (hnc : ∃ seg s' effs, s.appendAndApply fsHas rec = (.ok seg, s', effs) ∧ RefinesNoCache s' r' ∧
      Growth0 s s' effs)
    (hstage : RefinesNoCache (s.applied rec r'.state) r' → RdInvC7b B' (s.applied rec r'.state) fs w r')
    (hB : optLe B B' = true)
    (hfr : ∀ id p, rec = .append id p → optLe (some id) B = false) :
    ∃ seg s' effs, s.appendAndApply fsHas rec = (.ok seg, s', effs) ∧
      JInv s' (effFs effs fs) (w.push (effQ effs)) ∧
      RdInvC7b B' s' (effFs effs fs) (w.push (effQ effs)) r' ∧ Growth0 s s' effs ∧ ClosedOKC7c B' s' := by
  have hne := hj.openBytes.ne_nil
  have hfs' : fsHas (s.openEnd + (encRecord rec).length) = false := hfs _ (by omega)
  have h3 := hstage (refinesNC_applied fsHas hst hsm h.ref.pf hfs' hnc)
  have hj3 := hj.applied hrec hsm hst
  have hk3 : ClosedOKC7c B' (s.applied rec r'.state) := hk.applied hB hfr
  have hjj := (appendAndApply_J fsHas hj hrec hfs).inv
  obtain ⟨seg, s', effs, heq, _, hg⟩ := hnc
  refine ⟨seg, s', effs, heq, by rw [heq] at hjj; exact hjj, ?_, hg, ?_⟩
  · rw [appendAndApply_shapeRd fsHas hst hsm hne hfs'] at heq
    rcases tryCloseFull_cases (s.applied rec r'.state) fsHas (by rw [Store.applied_openEnd]; exact hfs')
      with e | e <;> rw [e] at heq <;> simp only [Prod.mk.injEq] at heq <;> obtain ⟨_, rfl, rfl⟩ := heq
    · simpa [effFs, effQ] using h3
    · exact h3.rotate hj3
  · rw [appendAndApply_shapeRd fsHas hst hsm hne hfs'] at heq
    rcases tryCloseFull_cases (s.applied rec r'.state) fsHas (by rw [Store.applied_openEnd]; exact hfs')
      with e | e <;> rw [e] at heq <;> simp only [Prod.mk.injEq] at heq <;> obtain ⟨_, rfl, rfl⟩ := heq
    · exact hk3
    · exact hk3.rotate hj3 h3

theorem appendBatch_cok_C7c (es : List (LogId × Bytes)) :
    ∀ (s : Store) (r r' : RefLog) (fsHas : Nat → Bool) (seg : Seg) (effs : List Eff) (fs : Fs) (w : Worker)
      (m m' : Option LogId),
    JInv s (effFs effs fs) (w.push (effQ effs)) →
    RdInvC7b (optMaxC7b m r.purged) s (effFs effs fs) (w.push (effQ effs)) r →
    ClosedOKC7c (optMaxC7b m r.purged) s →
    (∀ i, s.openEnd ≤ i → fsHas i = false) → r.appendAll es = .ok r' →
    (∀ e ∈ es, smallId e.1) → (∀ e ∈ es, e.1.WF ∧ bytesWF e.2) → freshIdsC7b m es = some m' →
    ∃ seg' s' effs', Store.appendBatch fsHas es s seg effs = (.ok seg', s', effs ++ effs') ∧
      RdInvC7b (optMaxC7b m' r'.purged) s' (effFs (effs ++ effs') fs) (w.push (effQ (effs ++ effs'))) r' ∧
      ClosedOKC7c (optMaxC7b m' r'.purged) s' := by
  induction es with
  | nil =>
    intro s r r' fsHas seg effs fs w m m' _ h hk _ hc _ _ hfr
    simp only [RefLog.appendAll] at hc
    injection hc with hc
    subst hc
    simp only [freshIdsC7b, Option.some.injEq] at hfr
    subst hfr
    exact ⟨seg, s, [], by simp [Store.appendBatch], by simpa using h, hk⟩
  | cons e rest ih =>
    obtain ⟨id, p⟩ := e
    intro s r r' fsHas seg effs fs w m m' hj h hk hfs hc hsm hwf hfr
    simp only [RefLog.appendAll] at hc
    simp only [freshIdsC7b] at hfr
    split at hfr
    · rename_i hlt
      split at hc
      · rename_i r1 hc1
        have hsm1 : smallId id := hsm (id, p) List.mem_cons_self
        have hwf1 : (Record.append id p).WF := hwf (id, p) List.mem_cons_self
        obtain ⟨hr1, _, _, _, hpg⟩ := RefLog.append1_facts h.ref.wf hc1
        have hpu1 : r1.purged = r.purged := by rw [hr1]
        have hfresh : optLe (some id) (optMaxC7b m r.purged) = false :=
          optMax_not_ge_C7b ((optLt_iff_not_le _ _).1 hlt) ((optLt_iff_not_le _ _).1 hpg.1)
        have hB : optLe (optMaxC7b m r.purged) (optMaxC7b (some id) r1.purged) = true := by
          rw [hpu1]; exact optMax_mono_C7b (optLe_of_lt hlt) (optLe_refl _)
        obtain ⟨seg1, s1, e1, heq1, hj1, h1, hg1, hk1⟩ :=
          aa_cok_C7c fsHas (rec := .append id p) hj h hk hwf1 hsm1 hfs (append1_state h.ref hc1)
            (append1_refinesNC fsHas h.ref hfs hc1 hsm1)
            (fun href => RdInvC7b.append1 hj h hc1 hfresh hB (optMax_left_C7b _ _) href) hB
            (fun id' p' hrec => by injection hrec with e1 _; subst e1; exact hfresh)
        rw [← effFs_append, Worker.push_push, ← effQ_append] at hj1 h1
        have hfs1 : ∀ i, s1.openEnd ≤ i →
            (fsHas i || e1.any (fun e => e == Eff.create i)) = false := by
          intro i hi
          have h1 : fsHas i = false := hfs i (by have := hg1.openEnd; omega)
          have h2 : e1.any (fun e => e == Eff.create i) = false := by
            rw [List.any_eq_false]
            intro x hx hxe
            have : x = Eff.create i := by simpa using hxe
            subst this
            have := hg1.creates i hx
            omega
          simp [h1, h2]
        obtain ⟨seg2, s2, e2, heq2, h2, hk2⟩ :=
          ih s1 r1 r' _ seg1 (effs ++ e1) fs w (some id) m' hj1 h1 hk1 hfs1 hc
            (fun e he => hsm e (List.mem_cons_of_mem _ he))
            (fun e he => hwf e (List.mem_cons_of_mem _ he)) hfr
        refine ⟨seg2, s2, e1 ++ e2, ?_, by rw [← List.append_assoc]; exact h2, hk2⟩
        have hidxD12 : id.index + 1 ≠ U64 := by
          have : id.index + 1 < U64 := hsm1
          omega
        rw [appendBatch_cons_small_D12 _ _ _ _ _ _ _ hidxD12]
        rw [heq1]
        simp only
        rw [heq2, List.append_assoc]
      · cases hc
    · cases hfr

/-- **Every legal, accepted, small, well-formed call with fresh appended ids**
keeps the read-path invariant AND the closed-chunk invariant. -/
theorem call_cok_C7c {m m' : Option LogId} {s : Store} {fs : Fs} {w : Worker} {r r' : RefLog}
    (fsHas : Nat → Bool) {op : Op}
    (hj : JInv s fs w) (h : RdInvC7b (optMaxC7b m r.purged) s fs w r)
    (hk : ClosedOKC7c (optMaxC7b m r.purged) s)
    (hfs : ∀ i, s.openEnd ≤ i → fsHas i = false)
    (hl : r.legal op = true) (hc : r.call op = .ok r') (hsm : op.small) (hwf : op.WF)
    (hfr : freshOpC7b m op = some m') :
    ∃ seg s' effs, s.call fsHas op = (.ok seg, s', effs) ∧
      RdInvC7b (optMaxC7b m' r'.purged) s' (effFs effs fs) (w.push (effQ effs)) r' ∧
      ClosedOKC7c (optMaxC7b m' r'.purged) s' := by
  have hpu : s.st.purged = r.purged := by rw [h.ref.st]; rfl
  have hla : s.st.last = r.last := by rw [h.ref.st]; rfl
  cases op with
  | saveVote v =>
    simp only [freshOpC7b, Option.some.injEq] at hfr
    subst hfr
    simp only [RefLog.call] at hc
    split at hc
    · rename_i hcond
      injection hc with hc; subst hc
      have hst : s.st.apply (.saveVote v) = .ok (RefLog.state { r with vote := some v }) := by
        simp [RState.apply, RState.updateVote, h.ref.st, RefLog.state, hcond]
      obtain ⟨seg, s', effs, heq, _, h', _, hk'⟩ :=
        aa_cok_C7c fsHas (rec := .saveVote v) hj h hk hwf trivial hfs hst
          (refinesNC_step_plain fsHas h.ref hfs hst (Or.inl ⟨v, rfl⟩) rfl rfl rfl)
          (fun href => RdInvC7b.plain hj h href (Or.inl ⟨v, rfl⟩) rfl hla.symm) (optLe_refl _)
          (fun _ _ hrec => by cases hrec)
      exact ⟨seg, s', effs, heq, h', hk'⟩
    · cases hc
  | commit id =>
    simp only [freshOpC7b, Option.some.injEq] at hfr
    subst hfr
    simp only [RefLog.call] at hc
    split at hc
    · cases hc
    · rename_i hcond
      injection hc with hc; subst hc
      have hst : s.st.apply (.commit id) = .ok (RefLog.state { r with committed := some id }) := by
        simp [RState.apply, RState.commit, h.ref.st, RefLog.state, hcond]
      obtain ⟨seg, s', effs, heq, _, h', _, hk'⟩ :=
        aa_cok_C7c fsHas (rec := .commit id) hj h hk hwf trivial hfs hst
          (refinesNC_step_plain fsHas h.ref hfs hst (Or.inr (Or.inl ⟨id, rfl⟩)) rfl rfl rfl)
          (fun href => RdInvC7b.plain hj h href (Or.inr (Or.inl ⟨id, rfl⟩)) rfl hla.symm) (optLe_refl _)
          (fun _ _ hrec => by cases hrec)
      exact ⟨seg, s', effs, heq, h', hk'⟩
  | saveUserData d =>
    simp only [freshOpC7b, Option.some.injEq] at hfr
    subst hfr
    simp only [RefLog.call] at hc
    injection hc with hc; subst hc
    have hst : s.st.apply (.state { s.st with userData := d }) =
        .ok (RefLog.state { r with userData := d }) := by
      simp [RState.apply, h.ref.st, RefLog.state]
    have hrwf : (Record.state { s.st with userData := d }).WF := by
      obtain ⟨h1, h2, h3, h4, _⟩ := hj.stWF
      exact ⟨h1, h2, h3, h4, by cases d <;> simp [Op.WF] at hwf ⊢ <;> exact hwf⟩
    obtain ⟨seg, s', effs, heq, _, h', _, hk'⟩ :=
      aa_cok_C7c fsHas (rec := .state { s.st with userData := d }) hj h hk hrwf trivial hfs hst
        (refinesNC_step_plain fsHas h.ref hfs hst (Or.inr (Or.inr ⟨_, rfl, rfl, rfl⟩)) rfl rfl rfl)
        (fun href => RdInvC7b.plain hj h href (Or.inr (Or.inr ⟨_, rfl⟩)) rfl hla.symm) (optLe_refl _)
        (fun _ _ hrec => by cases hrec)
    exact ⟨seg, s', effs, heq, h', hk'⟩
  | append es =>
    simp only [freshOpC7b] at hfr
    simp only [Store.call]
    obtain ⟨seg0, hseg⟩ := lastSegment_some h.ref.pf.open2
    rw [hseg]
    simp only
    obtain ⟨seg', s', effs', heq, h', hk'⟩ :=
      appendBatch_cok_C7c es s r r' fsHas seg0 [] fs w m m' (by simpa [effFs, effQ] using hj)
        (by simpa [effFs, effQ] using h) hk hfs hc hsm hwf hfr
    exact ⟨seg', s', effs', by simpa using heq, by simpa using h', hk'⟩
  | truncate idx =>
    simp only [freshOpC7b, Option.some.injEq] at hfr
    subst hfr
    simp only [Store.call]
    rw [nextIndexChecked_eq h.ref.pf.purged]
    simp only [hpu]
    rcases RefLog.truncate_arg hc with ⟨h1, h2⟩ | ⟨h1, h2, e, he, h3⟩
    · rw [if_pos h1]
      subst h2
      have hos : optSmall r.purged := hpu ▸ h.ref.pf.purged
      have howf : (Record.truncateAfter r.purged).WF := hpu ▸ hj.stWF.2.2.2.1
      obtain ⟨seg, s', effs, heq, _, h', _, hk'⟩ :=
        aa_cok_C7c fsHas (rec := .truncateAfter r.purged) (r' := r.truncateTo r.purged) hj h hk howf hos hfs
          (truncate_state_C7b h.ref _) (truncateAfter_refinesNC fsHas h.ref hfs (Or.inl rfl) hos)
          (fun href => RdInvC7b.truncate hj h (Or.inl rfl) href) (optLe_refl _)
          (fun _ _ hrec => by cases hrec)
      exact ⟨seg, s', effs, heq, h', hk'⟩
    · rw [if_neg h1, if_neg h2]
      obtain ⟨d, hd, hde, hds⟩ := logGet_of_entryAtNC h.ref he
      rw [hd]
      simp only [hde]
      subst h3
      have harg : r.TruncArg (some e.1) := Or.inr ⟨e, (RefLog.entryAt_some he).1, rfl⟩
      have hos : optSmall (some e.1) := by rw [← hde]; exact hds
      have howf : (Record.truncateAfter (some e.1)).WF := by
        obtain ⟨x, hx, hxd⟩ := logGet_mem hd
        have : d.id.WF := by rw [← hxd]; exact hj.logWF x hx
        rw [← hde]; exact this
      obtain ⟨seg, s', effs, heq, _, h', _, hk'⟩ :=
        aa_cok_C7c fsHas (rec := .truncateAfter (some e.1)) (r' := r.truncateTo (some e.1)) hj h hk howf hos
          hfs (truncate_state_C7b h.ref _) (truncateAfter_refinesNC fsHas h.ref hfs harg hos)
          (fun href => RdInvC7b.truncate hj h harg href) (optLe_refl _)
          (fun _ _ hrec => by cases hrec)
      exact ⟨seg, s', effs, heq, h', hk'⟩
  | purge upto =>
    simp only [freshOpC7b, Option.some.injEq] at hfr
    subst hfr
    have hidxD12 : upto.index + 1 ≠ U64 := by
      have : upto.index + 1 < U64 := hsm
      omega
    simp only [Store.call, if_neg hidxD12]
    rw [nextIndexChecked_eq h.ref.pf.purged]
    simp only [hpu]
    simp only [RefLog.call] at hc
    by_cases hnn : upto.index < nextIndex r.purged
    · rw [if_pos hnn]
      rw [if_pos hnn] at hc
      injection hc with hc; subst hc
      obtain ⟨seg0, hseg⟩ := lastSegment_some h.ref.pf.open2
      rw [hseg]
      exact ⟨seg0, s, [], rfl, by simpa [effFs, effQ] using h, hk⟩
    · rw [if_neg hnn]
      rw [if_neg hnn] at hc
      injection hc with hc; subst hc
      have hpp : optLe r.purged (r.purged' upto).purged = true := by
        simp only [RefLog.purged']
        by_cases hlt : optLt r.purged (some upto) = true
        · simp only [hlt, if_true]; exact optLe_of_lt hlt
        · simp only [hlt]; exact optLe_refl _
      have hup : optLe (some upto) (r.purged' upto).purged = true := by
        simp only [RefLog.purged']
        by_cases hlt : optLt r.purged (some upto) = true
        · simp only [hlt, if_true]; exact optLe_refl _
        · simp only [hlt]; exact (optLe_iff_not_lt _ _).2 (by simpa using hlt)
      have hB : optLe (optMaxC7b m r.purged) (optMaxC7b m (r.purged' upto).purged) = true :=
        optMax_mono_C7b (optLe_refl _) hpp
      have hlast : optLe (r.purged' upto).last (optMaxC7b m (r.purged' upto).purged) = true := by
        have hl0 : optLe r.last (optMaxC7b m r.purged) = true := hla ▸ h.lastB
        show optLe (if optLt r.last (some upto) then some upto else r.last) _ = true
        by_cases hlt : optLt r.last (some upto) = true
        · simp only [hlt, if_true]; exact optLe_trans hup (optMax_right_C7b _ _)
        · simp only [hlt]; exact optLe_trans hl0 hB
      obtain ⟨seg, s', effs, heq, _, h', _, hk'⟩ :=
        aa_cok_C7c fsHas (rec := .purgeUpto upto) (r' := r.purged' upto) hj h hk hwf hsm hfs
          (purge_state h.ref upto) (purgeUpto_refinesNC fsHas h.ref hfs hl hnn hsm)
          (fun href => RdInvC7b.purge hj h hB hlast href) hB
          (fun _ _ hrec => by cases hrec)
      rw [heq]
      simp only
      refine ⟨seg, _, effs, rfl, ?_, hk'.dropObsolete upto⟩
      apply h'.dropObsolete
      intro x hx
      obtain ⟨a, ha, hai, hid⟩ := mem_log_indexNC h'.ref hx
      simp only [RefLog.purged', List.mem_filter, decide_eq_true_eq] at ha
      rw [← hid]
      exact RefLog.purge_keys h.ref.wf hl hnn a ha.1 ha.2

/-! ### The system-level invariant -/

/-- `ReadInvC7b` together with the closed-chunk invariant (same ghost bound
`max m r.purged`, `m` the largest log id appended so far). -/
def ReadInvC7c (y : Sys) (r : RefLog) (m : Option LogId) : Prop :=
  ∃ s, y.store = some s ∧ y.worker.pc ≠ .dead ∧ JInv s y.fs y.worker ∧
    RdInvC7b (optMaxC7b m r.purged) s y.fs y.worker r ∧ r.EntriesWF ∧
    ClosedOKC7c (optMaxC7b m r.purged) s

theorem ReadInvC7c.toC7b {y : Sys} {r : RefLog} {m : Option LogId} (h : ReadInvC7c y r m) :
    ReadInvC7b y r m := by
  obtain ⟨s, hs, hd, hj, hr, hew, _⟩ := h
  exact ⟨s, hs, hd, hj, hr, hew⟩

/-- A step that keeps `ReadInvC7b` with the same reference log and does not
touch the chunk table or the index map. -/
theorem ReadInvC7c.of_C7b {y y' : Sys} {r : RefLog} {m : Option LogId} (h : ReadInvC7c y r m)
    (h' : ReadInvC7b y' r m)
    (hst : ∀ s s', y.store = some s → y'.store = some s' → s'.closed = s.closed ∧ s'.log = s.log) :
    ReadInvC7c y' r m := by
  obtain ⟨s, hs, _, _, _, _, hk⟩ := h
  obtain ⟨s', hs', hd', hj', hr', hew'⟩ := h'
  obtain ⟨e1, e2⟩ := hst s s' hs hs'
  exact ⟨s', hs', hd', hj', hr', hew', hk.congr e1 e2⟩

theorem ReadInvC7c.call {y : Sys} {r r' : RefLog} {m m' : Option LogId} {op : Op} (h : ReadInvC7c y r m)
    (hl : r.legal op = true) (hc : r.call op = .ok r') (hsm : op.small) (hwf : op.WF)
    (hfr : freshOpC7b m op = some m') :
    ReadInvC7c (y.step (.call op)) r' m' ∧ ∃ seg, (y.call op).1 = .ok seg := by
  obtain ⟨s, hs, hd, hj, hr, hew, hk⟩ := h
  have hfs := Fs.has_false_of_lt hj.fsLt
  obtain ⟨seg, s', effs, heq, h', hk'⟩ := call_cok_C7c y.fs.has hj hr hk hfs hl hc hsm hwf hfr
  have hcj := (call_J y.fs.has op hj hwf hfs).inv
  obtain ⟨e1, e2⟩ := Sys.call_eq y op s hs hd
  rw [heq] at hcj e1 e2
  refine ⟨?_, seg, e2⟩
  show ReadInvC7c (y.call op).2.1 r' m'
  rw [e1]
  exact ⟨s', rfl, (Worker.settle_facts _).2.2.2.2 hd, hcj.settle, h'.settle,
    RefLog.call_entriesWF hew hwf hc, hk'⟩

theorem ReadInvC7c.flush {y : Sys} {r : RefLog} {m : Option LogId} (h : ReadInvC7c y r m)
    (cb : Option Nat) : ReadInvC7c (y.step (.flush cb)) r m := by
  apply h.of_C7b (h.toC7b.flush cb)
  intro s s' hs hs'
  obtain ⟨s0, hs0, hd, _⟩ := h
  rw [hs] at hs0; cases hs0
  have : (y.step (.flush cb)).store = some (s.flush cb).1 := by
    show (y.flush cb).2.1.store = _
    rw [Sys.flush_eq y cb s hs hd]
  rw [this] at hs'; cases hs'
  exact ⟨rfl, rfl⟩

theorem ReadInvC7c.worker {y : Sys} {r : RefLog} {m : Option LogId} (h : ReadInvC7c y r m)
    (out : Outcome) (hnd : (y.step (.worker out)).worker.pc ≠ .dead) :
    ReadInvC7c (y.step (.worker out)) r m := by
  apply h.of_C7b (h.toC7b.worker out hnd)
  intro s s' hs hs'
  simp only [Sys.step, Sys.workerStep, hs, Option.some.injEq] at hs'
  subst hs'
  exact ⟨rfl, rfl⟩

theorem ReadInvC7c.workerIdle {y : Sys} {r : RefLog} {m : Option LogId} (h : ReadInvC7c y r m)
    (hnd : (y.step .workerIdle).worker.pc ≠ .dead) : ReadInvC7c (y.step .workerIdle) r m := by
  apply h.of_C7b (h.toC7b.workerIdle hnd)
  intro s s' hs hs'
  simp only [Sys.step, Sys.workerIdle, hs, Option.some.injEq] at hs'
  subst hs'
  exact ⟨rfl, rfl⟩

theorem ReadInvC7c.drain {y : Sys} {r : RefLog} {m : Option LogId} (h : ReadInvC7c y r m) :
    ReadInvC7c (y.step .drain) r m := by
  apply h.of_C7b h.toC7b.drain
  intro s s' hs hs'
  simp only [Sys.step, Sys.drain, hs, Option.some.injEq] at hs'
  subst hs'
  exact ⟨rfl, rfl⟩

theorem fresh_closed_C7c (cfg : Cfg) : ∃ s, (Sys.fresh cfg).store = some s ∧ s.closed = [] := by
  simp [Sys.fresh, Sys.open, openStore, Fs.linkedIds, openLoop, emptyStore, Fs.has, Fs.find,
    Fs.create, Fs.write, Fs.update]

/-- The freshly opened store. -/
theorem fresh_readInv_C7c (cfg : Cfg) : ReadInvC7c (Sys.fresh cfg) {} none := by
  obtain ⟨s, hs, hd, hj, hr, hew⟩ := fresh_readInv_C7b cfg
  refine ⟨s, hs, hd, hj, hr, hew, ?_⟩
  obtain ⟨s3, hs3, hcl⟩ := fresh_closed_C7c cfg
  rw [hs] at hs3; cases hs3
  intro c hc
  rw [hcl] at hc; cases hc

/-! ### Histories -/

theorem run_readInv_C7c (steps : List Step) : ∀ (y : Sys) (r r' : RefLog) (m m' : Option LogId),
    ReadInvC7c y r m →
    (∀ st ∈ steps, st.journal = true) → r.run (stepOps steps) = some r' →
    (∀ op ∈ stepOps steps, op.small ∧ op.WF) → freshOpsC7b m (stepOps steps) = some m' →
    (y.run steps).worker.pc ≠ .dead →
    ReadInvC7c (y.run steps) r' m' ∧
    ∀ pre op post, steps = pre ++ Step.call op :: post → ∃ seg, ((y.run pre).call op).1 = .ok seg := by
  induction steps with
  | nil =>
    intro y r r' m m' h _ hr _ hfr _
    simp only [stepOps, RefLog.run, Option.some.injEq] at hr
    subst hr
    simp only [stepOps, freshOpsC7b, Option.some.injEq] at hfr
    subst hfr
    refine ⟨h, ?_⟩
    intro pre op post hsplit
    cases pre <;> cases hsplit
  | cons st rest ih =>
    intro y r r' m m' h hst hr hops hfr hnd
    have hrest : ∀ st' ∈ rest, st'.journal = true := fun s hs => hst s (List.mem_cons_of_mem _ hs)
    simp only [Sys.run, List.foldl_cons] at hnd
    have hnd1 : (y.step st).worker.pc ≠ .dead := by
      intro hdead
      exact hnd (Sys.run_dead rest _ hrest hdead)
    -- a non-call step: same reference log
    have hother : stepOps (st :: rest) = stepOps rest → ReadInvC7c (y.step st) r m → (∀ op, st ≠ .call op) →
        ReadInvC7c ((y.step st).run rest) r' m' ∧
        ∀ pre op post, st :: rest = pre ++ Step.call op :: post →
          ∃ seg, ((y.run pre).call op).1 = .ok seg := by
      intro he h' hne
      rw [he] at hr hops hfr
      obtain ⟨g1, g2⟩ := ih (y.step st) r r' m m' h' hrest hr hops hfr hnd
      refine ⟨g1, ?_⟩
      intro pre op post hsplit
      cases pre with
      | nil =>
        simp only [List.nil_append, List.cons.injEq] at hsplit
        exact absurd hsplit.1 (hne op)
      | cons p pre' =>
        simp only [List.cons_append, List.cons.injEq] at hsplit
        obtain ⟨hp, hrest'⟩ := hsplit
        subst hp
        exact g2 pre' op post hrest'
    cases st with
    | drop => have := hst _ List.mem_cons_self; cases this
    | openWith c => have := hst _ List.mem_cons_self; cases this
    | drain => exact hother rfl h.drain (by intro op hh; cases hh)
    | flush cb => exact hother rfl (h.flush cb) (by intro op hh; cases hh)
    | worker out => exact hother rfl (h.worker out hnd1) (by intro op hh; cases hh)
    | workerIdle => exact hother rfl (h.workerIdle hnd1) (by intro op hh; cases hh)
    | call op =>
      simp only [stepOps, RefLog.run] at hr
      simp only [stepOps, freshOpsC7b] at hfr
      obtain ⟨hsm0, hwf0⟩ := hops op (by simp [stepOps])
      have hops' : ∀ o ∈ stepOps rest, o.small ∧ o.WF := fun o ho => hops o (by simp [stepOps, ho])
      split at hfr
      · rename_i m1 hfr1
        split at hr
        · rename_i hl
          split at hr
          · rename_i r1 hc
            obtain ⟨h1, hok⟩ := h.call hl hc hsm0 hwf0 hfr1
            obtain ⟨g1, g2⟩ := ih (y.step (.call op)) r1 r' m1 m' h1 hrest hr hops' hfr hnd
            refine ⟨g1, ?_⟩
            intro pre op' post hsplit
            cases pre with
            | nil =>
              simp only [List.nil_append, List.cons.injEq, Step.call.injEq] at hsplit
              obtain ⟨hop, _⟩ := hsplit
              subst hop
              exact hok
            | cons p pre' =>
              simp only [List.cons_append, List.cons.injEq] at hsplit
              obtain ⟨hp, hrest'⟩ := hsplit
              subst hp
              exact g2 pre' op' post hrest'
          · cases hr
        · cases hr
      · cases hfr

/-! ### Drop + open from a clean state -/

/-- **A clean restart re-establishes the read invariant**, for ANY configuration
of the reopening (cache limits 0 included), with the same ghost bound. -/
theorem restart_readInv_C7c (y : Sys) (r : RefLog) (m : Option LogId) (cfg' : Cfg)
    (h : ReadInvC7c y r m) (hC : CSys y r) (s : Store)
    (hs : y.store = some s) (hq : y.worker.quiet = true) (hp : s.pending = [])
    (hrem : s.removed = []) (hpost : y.worker.postponed = []) :
    ReadInvC7c ((y.step .drop).step (.openWith cfg')) r m ∧
      CSys ((y.step .drop).step (.openWith cfg')) r := by
  obtain ⟨s0, hs0, hd, hj, hr, hew, hk⟩ := h
  rw [hs] at hs0; cases hs0
  obtain ⟨s1, k1, _, _, _, _, _, _, _, _, _, _, _, _, _, k15, _⟩ :=
    restart_core y s r cfg' hC hs hq hp hrem hpost
  refine ⟨?_, k15⟩
  obtain ⟨⟨sa, hsa, _, hinv⟩, ⟨sb, hsb, hli⟩⟩ := hC
  rw [hs] at hsa hsb; cases hsa; cases hsb
  obtain ⟨hpc, hqe⟩ := quiet_alive hq hd
  have hinf := inflight_quiet hpc hqe
  have htr : y.worker.toRemove = [] := by rw [toRemove_quiet hpc hqe]; exact hpost
  obtain ⟨d1, d2, d3, _⟩ := dropStore_quiet y s hs hpc hqe
  have hlinked := hli.linkedIds_eq hinv.j hrem htr
  obtain ⟨s', ho, c1, c2, c3, c4, c5, c6, c7, c8, c9, c10, c11⟩ :=
    openStore_ck_C7c cfg' hinv hinf hp hlinked
  have hopen : ({ (y.step .drop) with cfg := cfg' } : Sys).open =
      (.ok (), { ({ (y.step .drop) with cfg := cfg' } : Sys) with
        fs := y.fs.syncAll s.chunkIds, store := some s',
        worker := { files := [⟨s.openId, prevLastOf s.closed⟩] }, locked := true },
        syncEvs s.chunkIds) := by
    simp only [Sys.step, Sys.open, d2, d1, ho]
    simp
  have hy2 : (y.step .drop).step (.openWith cfg') =
      { ({ (y.step .drop) with cfg := cfg' } : Sys) with
        fs := y.fs.syncAll s.chunkIds, store := some s',
        worker := { files := [⟨s.openId, prevLastOf s.closed⟩] }, locked := true } := by
    show ({ (y.step .drop) with cfg := cfg' } : Sys).open.2.1 = _
    rw [hopen]
  obtain ⟨sj, hsj, hdj, hjj⟩ := k15.1.J
  rw [hy2] at hsj hdj hjj ⊢
  simp only [Option.some.injEq] at hsj
  subst hsj
  simp only at hjj
  obtain ⟨f1, f2, _⟩ := reopen_worker_facts s.openId (prevLastOf s.closed)
  have e1 : s'.openId = s.openId := by simp [Store.openId, c4]
  have hcur : ({ files := [⟨s.openId, prevLastOf s.closed⟩] } : Worker).cur = s.openId := by
    simp [Worker.cur, newestId]
  have hfents : ({ files := [⟨s.openId, prevLastOf s.closed⟩] } : Worker).fents
      = [⟨s.openId, prevLastOf s.closed⟩] := by
    simp [Worker.fents, WPc.held, reqEnts]
  have hpl := hk.prevLast hj
  have hk' : ClosedOKC7c (optMaxC7b m r.purged) s' := hk.congr c3 c2
  refine ⟨s', rfl, hdj, hjj, ?_, hew, hk'⟩
  refine ⟨⟨by rw [c1]; exact hr.ref.st, by rw [c2]; exact hr.ref.log, hr.ref.wf, c9,
    ⟨by rw [c4]; exact hr.ref.pf.open2, by rw [c1]; exact hr.ref.pf.purged,
      by rw [c1]; exact hr.ref.pf.last, by rw [c2]; exact hr.ref.pf.log⟩⟩, c10, ?_, ?_, ?_, ?_, ?_,
    by rw [c1]; exact hr.lastB⟩
  · -- loc
    intro x hx
    rw [c2] at hx
    obtain ⟨p, hp', hl⟩ := hr.loc x hx
    refine ⟨p, hp', hl.mono ?_ ⟨[], ?_⟩⟩
    · rcases hl.1 with h1 | ⟨c, hcm, h1⟩
      · exact .inl (by rw [e1]; exact h1)
      · exact .inr ⟨c, by rw [c3]; exact hcm, h1⟩
    · simp only [chunkBytes, f1, hinf, c5, hp, e1, List.append_nil, fdata_syncAll]
  · -- clast
    intro x hx c hcm hid
    rw [c2] at hx; rw [c3] at hcm
    exact hr.clast x hx c hcm hid
  · -- res
    intro x hx
    rw [c2] at hx
    have hle := hr.chunk_le hj hx
    by_cases hlt : x.2.chunk < s.openId
    · right; rw [hcur]; exact hlt
    · left
      have heq : x.2.chunk = s.openId := by omega
      apply c11 x hx heq
      cases hb : optLe (some x.2.id) (prevLastOf s.closed) with
      | false => rfl
      | true => exact absurd (hpl.2 x hx hb) hlt
  · -- bnd
    rw [hcur, c8]
    exact hpl.congr c2
  · -- ents
    intro f hf
    rw [hfents] at hf
    simp only [List.mem_singleton] at hf
    subst hf
    exact hpl.congr c2

end RaftLog
