/-
C14 (busy drop), worker level: closing the channel (`senderAlive := false`)
commutes with every all-ok worker step. The only place where the worker looks
at `senderAlive` is `toRecv` on an empty queue: with a live sender it blocks
(`pc = idle`), with a closed channel it exits (`pc = dead`, `workerExit true`).
So the all-ok run of the closed-channel worker is the all-ok run of the
original worker, followed by the exit.
-/
import RaftLogModel.Proofs.WorkerSys
namespace RaftLog

/-- Close the channel. -/
def WCtx.killC14b (c : WCtx) : WCtx := { c with w := { c.w with senderAlive := false } }

/-- The worker thread returns from its loop. -/
def WCtx.exitC14b (c : WCtx) : WCtx :=
  ({ c with w := { c.w with pc := .dead } }).emit (.workerExit true)

/-- What the closed-channel worker looks like when the live-channel worker is
in state `c`: the same, except that it has exited where `c` is blocked in
`recv` on an empty queue. -/
def WCtx.closeC14b (c : WCtx) : WCtx :=
  if c.w.pc = .idle ∧ c.w.queue = [] then c.killC14b.exitC14b else c.killC14b

theorem WCtx.closeC14b_of_ne (c : WCtx) (h : c.w.pc ≠ .idle) : c.closeC14b = c.killC14b := by
  simp [WCtx.closeC14b, h]

theorem WCtx.closeC14b_of_queue (c : WCtx) (h : c.w.queue ≠ []) : c.closeC14b = c.killC14b := by
  simp [WCtx.closeC14b, h]

theorem WCtx.closeC14b_idle (c : WCtx) (h1 : c.w.pc = .idle) (h2 : c.w.queue = []) :
    c.closeC14b = c.killC14b.exitC14b := by
  simp [WCtx.closeC14b, h1, h2]

@[simp] theorem WCtx.killC14b_fs (c : WCtx) : c.killC14b.fs = c.fs := rfl
@[simp] theorem WCtx.killC14b_cache (c : WCtx) : c.killC14b.cache = c.cache := rfl
@[simp] theorem WCtx.killC14b_evs (c : WCtx) : c.killC14b.evs = c.evs := rfl
@[simp] theorem WCtx.killC14b_pc (c : WCtx) : c.killC14b.w.pc = c.w.pc := rfl
@[simp] theorem WCtx.killC14b_queue (c : WCtx) : c.killC14b.w.queue = c.w.queue := rfl
@[simp] theorem WCtx.killC14b_files (c : WCtx) : c.killC14b.w.files = c.w.files := rfl
@[simp] theorem WCtx.killC14b_lsf (c : WCtx) : c.killC14b.w.lastSyncFailed = c.w.lastSyncFailed := rfl
@[simp] theorem WCtx.killC14b_postponed (c : WCtx) : c.killC14b.w.postponed = c.w.postponed := rfl
@[simp] theorem WCtx.killC14b_alive (c : WCtx) : c.killC14b.w.senderAlive = false := rfl

/-! ### The building blocks commute with closing the channel -/

theorem WCtx.toRecv_killC14b (c : WCtx) (ha : c.w.senderAlive = true) :
    c.killC14b.toRecv = c.toRecv.closeC14b := by
  obtain ⟨⟨files, pc, queue, lsf, post, alive⟩, fs, cache, evs⟩ := c
  simp only at ha; subst ha
  cases queue with
  | nil => simp [WCtx.toRecv, WCtx.killC14b, WCtx.closeC14b, WCtx.exitC14b, WCtx.emit]
  | cons r q => simp [WCtx.toRecv, WCtx.killC14b, WCtx.closeC14b]

theorem WCtx.nonFlush_killC14b (c : WCtx) (r : WReq) (ha : c.w.senderAlive = true) :
    c.killC14b.nonFlush r = (c.nonFlush r).closeC14b := by
  obtain ⟨⟨files, pc, queue, lsf, post, alive⟩, fs, cache, evs⟩ := c
  simp only at ha; subst ha
  cases r with
  | write u d cb => exact WCtx.toRecv_killC14b ⟨⟨files, pc, queue, lsf, post, true⟩, fs, cache, evs⟩ rfl
  | appendFile id pl =>
    exact WCtx.toRecv_killC14b ⟨⟨files ++ [FileEnt.mk id pl], pc, queue, lsf, post, true⟩, fs, cache, evs⟩ rfl
  | removeChunks ids =>
    cases lsf with
    | true =>
      exact WCtx.toRecv_killC14b ⟨⟨files, pc, queue, true, post ++ ids, true⟩, fs, cache, evs⟩ rfl
    | false =>
      cases hall : post ++ ids with
      | nil =>
        have := WCtx.toRecv_killC14b ⟨⟨files, pc, queue, false, post, true⟩, fs, cache, evs⟩ rfl
        simpa [WCtx.nonFlush, WCtx.killC14b, hall] using this
      | cons i rest =>
        simp [WCtx.nonFlush, WCtx.killC14b, WCtx.closeC14b, hall]

theorem foldl_emit_killC14b {α} (f : α → Ev) (l : List α) (c : WCtx) :
    (l.foldl (fun c i => c.emit (f i)) c).killC14b = l.foldl (fun c i => c.emit (f i)) c.killC14b := by
  induction l generalizing c with
  | nil => rfl
  | cons x xs ih => simp only [List.foldl_cons]; rw [ih]; rfl

theorem WCtx.finishBatch_killC14b (c : WCtx) (b : List WReq) (t : Option WReq) (ok : Bool)
    (ha : c.w.senderAlive = true) :
    c.killC14b.finishBatch b t ok = (c.finishBatch b t ok).closeC14b := by
  rw [WCtx.finishBatch_eq, WCtx.finishBatch_eq]
  have h0 : c.killC14b.fb0 b ok = (c.fb0 b ok).killC14b := by
    unfold WCtx.fb0
    rw [foldl_emit_killC14b]
    rfl
  have h2 : c.killC14b.fb1 b t ok = (c.fb1 b t ok).killC14b := by
    unfold WCtx.fb1
    rw [h0]
    rfl
  have h1 : (c.fb1 b t ok).w.senderAlive = true := by simp [ha]
  rw [h2]
  exact WCtx.nonFlush_killC14b _ _ h1

theorem WCtx.startSync_killC14b (c : WCtx) (b : List WReq) (t : Option WReq)
    (ha : c.w.senderAlive = true) :
    c.killC14b.startSync b t = (c.startSync b t).closeC14b := by
  rcases c.startSync_cases b t with ⟨hf, he⟩ | ⟨f, hf, he⟩ | ⟨hf, he⟩
  · rw [he, ← c.finishBatch_killC14b b t true ha]
    unfold WCtx.startSync
    simp [hf]
  · rw [he, WCtx.closeC14b_of_ne _ (by simp)]
    unfold WCtx.startSync
    simp [hf, WCtx.killC14b, WCtx.emit]
  · rw [he, WCtx.closeC14b_of_ne _ (by simp)]
    rcases c.killC14b.startSync_cases b t with ⟨hf', _⟩ | ⟨f, hf', _⟩ | ⟨_, he'⟩
    · rw [WCtx.killC14b_files] at hf'; rw [hf'] at hf; simp at hf
    · rw [WCtx.killC14b_files] at hf'; rw [hf'] at hf; simp at hf
    · rw [he']; rfl

theorem WCtx.startWrites_killC14b (c : WCtx) (b : List WReq) (t : Option WReq)
    (ha : c.w.senderAlive = true) :
    c.killC14b.startWrites b t = (c.startWrites b t).closeC14b := by
  rcases c.startWrites_cases b t with ⟨hb, he⟩ | ⟨hb, he⟩ <;>
    rcases c.killC14b.startWrites_cases b t with ⟨hb', he'⟩ | ⟨hb', he'⟩
  · rw [he, he']; exact c.startSync_killC14b b t ha
  · exact absurd hb hb'
  · exact absurd hb' hb
  · rw [he, he', WCtx.closeC14b_of_ne _ (by simp)]; rfl

/-! ### The all-ok step, case by case -/

theorem WCtx.step_idleC14b (c : WCtx) (out : Outcome) (h : c.w.pc = .idle) : c.step out = c.toRecv := by
  simp only [WCtx.step, h]

theorem WCtx.step_gotWC14b (c : WCtx) (out : Outcome) (r : WReq) (h : c.w.pc = .got r)
    (hr : r.isWrite = true) :
    c.step out = (c.setQueue (collectBatch 1024 c.w.queue).2.2).startWrites
      (r :: (collectBatch 1024 c.w.queue).1) (collectBatch 1024 c.w.queue).2.1 := by
  simp only [WCtx.step, h, hr, if_true]
  first | rfl | (rw [← h]; rfl)

theorem WCtx.step_gotNC14b (c : WCtx) (out : Outcome) (r : WReq) (h : c.w.pc = .got r)
    (hr : r.isWrite = false) : c.step out = c.nonFlush r := by
  simp only [WCtx.step, h, hr, Bool.false_eq_true, if_false]

theorem WCtx.step_wrNilC14b (c : WCtx) (out : Outcome) (b : List WReq) (t : Option WReq)
    (h : c.w.pc = .writing [] b t) : c.step out = c.startSync b t := by
  simp only [WCtx.step, h]

theorem WCtx.step_wrLastC14b (c : WCtx) (d : Bytes) (b : List WReq) (t : Option WReq)
    (h : c.w.pc = .writing [d] b t) :
    c.step .ok = (c.wrote (newestId c.w.files) d).startSync b t := by
  simp only [WCtx.step, h]
  first | rfl | (rw [← h]; rfl)

theorem WCtx.step_wrMoreC14b (c : WCtx) (d d' : Bytes) (rest : List Bytes) (b : List WReq) (t : Option WReq)
    (h : c.w.pc = .writing (d :: d' :: rest) b t) :
    c.step .ok = (c.wrote (newestId c.w.files) d).setPc (.writing (d' :: rest) b t) := by
  simp only [WCtx.step, h]
  first | rfl | (rw [← h]; rfl)

theorem WCtx.step_soNilC14b (c : WCtx) (out : Outcome) (b : List WReq) (t : Option WReq)
    (h : c.w.pc = .syncOld b t) (hf : c.w.files = []) : c.step out = c.finishBatch b t true := by
  simp only [WCtx.step, h, hf]

theorem WCtx.step_soOkC14b (c : WCtx) (b : List WReq) (t : Option WReq) (f : FileEnt) (rest : List FileEnt)
    (h : c.w.pc = .syncOld b t) (hf : c.w.files = f :: rest) :
    c.step .ok = ((c.setFiles rest).synced f.id).startSync b t := by
  simp only [WCtx.step, h, hf]
  first | rfl | (rw [← h]; rfl)

theorem WCtx.step_snNilC14b (c : WCtx) (out : Outcome) (b : List WReq) (t : Option WReq)
    (h : c.w.pc = .syncNew b t) (hf : c.w.files = []) : c.step out = c.finishBatch b t true := by
  simp only [WCtx.step, h, hf]

theorem WCtx.step_snOkC14b (c : WCtx) (b : List WReq) (t : Option WReq) (f : FileEnt) (rest : List FileEnt)
    (h : c.w.pc = .syncNew b t) (hf : c.w.files = f :: rest) :
    c.step .ok = (c.synced f.id).finishBatch b t true := by
  simp only [WCtx.step, h, hf]
  first | rfl | (rw [← h]; rfl)

theorem WCtx.step_ulNilC14b (c : WCtx) (out : Outcome) (h : c.w.pc = .unlinking []) :
    c.step out = c.toRecv := by
  simp only [WCtx.step, h]

theorem WCtx.step_ulLastC14b (c : WCtx) (i : Nat) (h : c.w.pc = .unlinking [i]) :
    c.step .ok = (c.unlinked i).toRecv := by
  simp only [WCtx.step, h]
  first | rfl | (rw [← h]; rfl)

theorem WCtx.step_ulMoreC14b (c : WCtx) (i j : Nat) (rest : List Nat) (h : c.w.pc = .unlinking (i :: j :: rest)) :
    c.step .ok = (c.unlinked i).setPc (.unlinking (j :: rest)) := by
  simp only [WCtx.step, h]
  first | rfl | (rw [← h]; rfl)

/-- **One all-ok step commutes with closing the channel**, from every state in
which the live-channel worker is not blocked on an empty queue. -/
theorem WCtx.step_killC14b (c : WCtx) (ha : c.w.senderAlive = true) (hq : c.w.quiet = false) :
    c.killC14b.step .ok = (c.step .ok).closeC14b := by
  cases hpc : c.w.pc with
  | dead => simp [Worker.quiet, hpc] at hq
  | idle =>
    rw [WCtx.step_idleC14b _ _ hpc, WCtx.step_idleC14b c.killC14b _ hpc]
    exact c.toRecv_killC14b ha
  | got r =>
    by_cases hr : r.isWrite = true
    · rw [WCtx.step_gotWC14b _ _ r hpc hr, WCtx.step_gotWC14b c.killC14b _ r hpc hr]
      exact WCtx.startWrites_killC14b (c.setQueue (collectBatch 1024 c.w.queue).2.2) _ _ ha
    · simp only [Bool.not_eq_true] at hr
      rw [WCtx.step_gotNC14b _ _ r hpc hr, WCtx.step_gotNC14b c.killC14b _ r hpc hr]
      exact c.nonFlush_killC14b r ha
  | writing todo b t =>
    cases todo with
    | nil =>
      rw [WCtx.step_wrNilC14b _ _ b t hpc, WCtx.step_wrNilC14b c.killC14b _ b t hpc]
      exact c.startSync_killC14b b t ha
    | cons d rest =>
      cases rest with
      | nil =>
        rw [WCtx.step_wrLastC14b _ d b t hpc, WCtx.step_wrLastC14b c.killC14b d b t hpc]
        exact WCtx.startSync_killC14b (c.wrote (newestId c.w.files) d) b t ha
      | cons d' rest =>
        rw [WCtx.step_wrMoreC14b _ d d' rest b t hpc, WCtx.step_wrMoreC14b c.killC14b d d' rest b t hpc,
          WCtx.closeC14b_of_ne _ (by simp)]
        rfl
  | syncOld b t =>
    cases hf : c.w.files with
    | nil =>
      rw [WCtx.step_soNilC14b _ _ b t hpc hf, WCtx.step_soNilC14b c.killC14b _ b t hpc hf]
      exact c.finishBatch_killC14b b t true ha
    | cons f rest =>
      rw [WCtx.step_soOkC14b _ b t f rest hpc hf, WCtx.step_soOkC14b c.killC14b b t f rest hpc hf]
      exact WCtx.startSync_killC14b ((c.setFiles rest).synced f.id) b t ha
  | syncNew b t =>
    cases hf : c.w.files with
    | nil =>
      rw [WCtx.step_snNilC14b _ _ b t hpc hf, WCtx.step_snNilC14b c.killC14b _ b t hpc hf]
      exact c.finishBatch_killC14b b t true ha
    | cons f rest =>
      rw [WCtx.step_snOkC14b _ b t f rest hpc hf, WCtx.step_snOkC14b c.killC14b b t f rest hpc hf]
      exact WCtx.finishBatch_killC14b (c.synced f.id) b t true ha
  | unlinking ids =>
    cases ids with
    | nil =>
      rw [WCtx.step_ulNilC14b _ _ hpc, WCtx.step_ulNilC14b c.killC14b _ hpc]
      exact c.toRecv_killC14b ha
    | cons i rest =>
      cases rest with
      | nil =>
        rw [WCtx.step_ulLastC14b _ i hpc, WCtx.step_ulLastC14b c.killC14b i hpc]
        exact WCtx.toRecv_killC14b (c.unlinked i) ha
      | cons j rest =>
        rw [WCtx.step_ulMoreC14b _ i j rest hpc, WCtx.step_ulMoreC14b c.killC14b i j rest hpc,
          WCtx.closeC14b_of_ne _ (by simp)]
        rfl

end RaftLog
