/-
C01 support: the store refines the reference log (`RefLog`) as long as the
payload cache is not under pressure. Helper lemmas; the property statements
are in `Props/C01.lean`.
-/
import RaftLogModel.Proofs.StoreCache
import RaftLogModel.Proofs.NoPanic
import RaftLogModel.Proofs.WorkerCache
import RaftLogModel.Proofs.Codec
import RaftLogModel.Model.Sys
namespace RaftLog

/-! ### Small list / offset facts -/

theorem lastOff_append (l : List Nat) (x : Nat) : lastOff (l ++ [x]) = x := by
  simp [lastOff]

theorem encRecord_length_pos (r : Record) : 0 < (encRecord r).length := by
  rw [encRecord_eq]
  simp

theorem mem_dropWhile_of_not {α} {p : α → Bool} {l : List α} {a : α}
    (h : a ∈ l) (hp : p a = false) : a ∈ l.dropWhile p := by
  induction l with
  | nil => cases h
  | cons x xs ih =>
    by_cases hx : p x = true
    · rw [List.dropWhile_cons_of_pos hx]
      cases h with
      | head => rw [hp] at hx; cases hx
      | tail _ h' => exact ih h'
    · rw [List.dropWhile_cons_of_neg hx]
      exact h

theorem length_dropWhile_le' {α} (p : α → Bool) (l : List α) : (l.dropWhile p).length ≤ l.length := by
  induction l with
  | nil => simp
  | cons x xs ih =>
    by_cases hx : p x = true
    · rw [List.dropWhile_cons_of_pos hx]; simp; omega
    · rw [List.dropWhile_cons_of_neg hx]; simp

theorem mem_of_mem_dropWhile {α} {p : α → Bool} {l : List α} {a : α}
    (h : a ∈ l.dropWhile p) : a ∈ l := by
  induction l with
  | nil => simp at h
  | cons x xs ih =>
    by_cases hx : p x = true
    · rw [List.dropWhile_cons_of_pos hx] at h
      exact List.mem_cons_of_mem _ (ih h)
    · rw [List.dropWhile_cons_of_neg hx] at h
      exact h

/-! ### Cache: no eviction without pressure; truncate / purge as `dropWhile` -/

theorem evictLoop_noop (mx cap : Nat) (le : Option LogId) (size : Nat) (l : Items)
    (h1 : l.length ≤ mx) (h2 : size ≤ cap) : evictLoop mx cap le size l = (size, l) := by
  cases l with
  | nil => rfl
  | cons e rest =>
    obtain ⟨id, p⟩ := e
    have h1' : ¬ (rest.length + 1 > mx) := by simp at h1; omega
    have h2' : ¬ (size > cap) := by omega
    simp [evictLoop, h1', h2']

theorem Cache.insert_noevict (c : Cache) (k : LogId) (v : Bytes)
    (hk : ∀ e ∈ c.items, e.1.lt k = true)
    (h1 : c.items.length + 1 ≤ c.maxItems) (h2 : c.size + v.length ≤ c.capacity) :
    c.insert k v = { c with items := c.items ++ [(k, v)], size := c.size + v.length } := by
  unfold Cache.insert Cache.tryEvict
  simp only [insertSorted_of_all_lt k v c.items hk]
  rw [evictLoop_noop]
  · simp; exact h1
  · exact h2

theorem truncLoop_snd (key : LogId) (size : Nat) (l : Items) :
    (truncLoop key size l).2 = l.dropWhile (fun e => key.lt e.1) := by
  induction l generalizing size with
  | nil => rfl
  | cons e rest ih =>
    obtain ⟨id, p⟩ := e
    unfold truncLoop
    by_cases h : key.lt id = true
    · simp [h, ih]
    · simp [h]

theorem truncLoop_fst_le (key : LogId) (size : Nat) (l : Items) :
    (truncLoop key size l).1 ≤ size := by
  induction l generalizing size with
  | nil => simp [truncLoop]
  | cons e rest ih =>
    obtain ⟨id, p⟩ := e
    unfold truncLoop
    split
    · have := ih (size - p.length); omega
    · simp

theorem purgeLoop_snd (key : LogId) (le : Option LogId) (size : Nat) (l : Items) :
    (purgeLoop key le size l).2 = l.dropWhile (fun e => e.1.le key && optLe (some e.1) le) := by
  induction l generalizing size with
  | nil => rfl
  | cons e rest ih =>
    obtain ⟨id, p⟩ := e
    unfold purgeLoop
    by_cases h : (id.le key && optLe (some id) le) = true
    · simp [h, ih]
    · simp [h]

theorem purgeLoop_fst_le (key : LogId) (le : Option LogId) (size : Nat) (l : Items) :
    (purgeLoop key le size l).1 ≤ size := by
  induction l generalizing size with
  | nil => simp [purgeLoop]
  | cons e rest ih =>
    obtain ⟨id, p⟩ := e
    unfold purgeLoop
    split
    · have := ih (size - p.length); omega
    · simp

/-- What `truncate_after` keeps: everything not above the key. -/
theorem Cache.truncateAfter_facts (c : Cache) (key : LogId) :
    (∀ e ∈ c.items, key.lt e.1 = false → e ∈ (c.truncateAfter key).items) ∧
    (∀ e ∈ (c.truncateAfter key).items, e ∈ c.items) ∧
    (c.truncateAfter key).items.length ≤ c.items.length ∧
    (c.truncateAfter key).size ≤ c.size ∧
    (c.truncateAfter key).maxItems = c.maxItems ∧ (c.truncateAfter key).capacity = c.capacity := by
  refine ⟨?_, ?_, ?_, ?_, rfl, rfl⟩
  · intro e he hk
    simp only [Cache.truncateAfter, truncLoop_snd, List.mem_reverse]
    exact mem_dropWhile_of_not (List.mem_reverse.mpr he) hk
  · intro e he
    simp only [Cache.truncateAfter, truncLoop_snd, List.mem_reverse] at he
    exact List.mem_reverse.mp (mem_of_mem_dropWhile he)
  · simp only [Cache.truncateAfter, truncLoop_snd, List.length_reverse]
    have := length_dropWhile_le' (fun e : LogId × Bytes => key.lt e.1) c.items.reverse
    simpa using this
  · exact truncLoop_fst_le _ _ _

theorem Cache.purgeUpto_facts (c : Cache) (key : LogId) :
    (∀ e ∈ c.items, e.1.le key = false → e ∈ (c.purgeUpto key).items) ∧
    (∀ e ∈ (c.purgeUpto key).items, e ∈ c.items) ∧
    (c.purgeUpto key).items.length ≤ c.items.length ∧
    (c.purgeUpto key).size ≤ c.size ∧
    (c.purgeUpto key).maxItems = c.maxItems ∧ (c.purgeUpto key).capacity = c.capacity := by
  refine ⟨?_, ?_, ?_, ?_, rfl, rfl⟩
  · intro e he hk
    simp only [Cache.purgeUpto, purgeLoop_snd]
    exact mem_dropWhile_of_not he (by simp [hk])
  · intro e he
    simp only [Cache.purgeUpto, purgeLoop_snd] at he
    exact mem_of_mem_dropWhile he
  · simp only [Cache.purgeUpto, purgeLoop_snd]
    exact length_dropWhile_le' _ _
  · exact purgeLoop_fst_le _ _ _ _

/-! ### `get` on a sorted cache is membership -/

theorem find_of_mem_sorted (l : Items) (hs : Sorted l) {k : LogId} {v : Bytes} (h : (k, v) ∈ l) :
    l.find? (fun e => e.1 = k) = some (k, v) := by
  induction l with
  | nil => cases h
  | cons x xs ih =>
    have hp := List.pairwise_cons.mp hs
    by_cases hx : x.1 = k
    · have : x = (k, v) := by
        cases h with
        | head => rfl
        | tail _ h' =>
          have := hp.1 _ h'
          simp only [hx, LogId.lt_irrefl] at this
          cases this
      subst this
      simp
    · have hmem : (k, v) ∈ xs := by
        cases h with
        | head => exact absurd rfl hx
        | tail _ h' => exact h'
      rw [List.find?_cons_of_neg (by simpa using hx)]
      exact ih hp.2 hmem

theorem Cache.get_of_mem {c : Cache} (hs : Sorted c.items) {k : LogId} {v : Bytes}
    (h : (k, v) ∈ c.items) : c.get k = some v := by
  simp [Cache.get, find_of_mem_sorted c.items hs h]

theorem Cache.mem_of_get {c : Cache} {k : LogId} {v : Bytes} (h : c.get k = some v) :
    (k, v) ∈ c.items := by
  unfold Cache.get at h
  cases hf : c.items.find? (fun e => e.1 = k) with
  | none => simp [hf] at h
  | some e =>
    simp [hf] at h
    have h1 := List.mem_of_find?_eq_some hf
    have h2 := List.find?_some hf
    simp at h2
    obtain ⟨a, b⟩ := e
    simp at h2 h
    subst h2; subst h
    exact h1

/-! ### Index map -/

theorem logInsert_of_all_lt (idx : Nat) (d : LogData) (l : List (Nat × LogData))
    (h : ∀ e ∈ l, e.1 < idx) : logInsert idx d l = l ++ [(idx, d)] := by
  induction l with
  | nil => rfl
  | cons x xs ih =>
    obtain ⟨i, d'⟩ := x
    have hi : i < idx := h (i, d') List.mem_cons_self
    have h1 : ¬ idx < i := by omega
    have h2 : ¬ idx = i := by omega
    simp only [logInsert, h1, h2, if_false, List.cons_append]
    rw [ih (fun e he => h e (List.mem_cons_of_mem _ he))]

/-- The abstraction of the index map compared with the spec entries. -/
def logKeys (l : List (Nat × LogData)) : List (Nat × LogId) := l.map (fun e => (e.1, e.2.id))
def entKeys (es : Items) : List (Nat × LogId) := es.map (fun e => (e.1.index, e.1))

theorem logKeys_filter (p : Nat → Bool) (l : List (Nat × LogData)) :
    logKeys (l.filter (fun e => p e.1)) = (logKeys l).filter (fun e => p e.1) := by
  unfold logKeys
  rw [List.filter_map]
  rfl

theorem entKeys_filter (p : Nat → Bool) (es : Items) :
    entKeys (es.filter (fun e => p e.1.index)) = (entKeys es).filter (fun e => p e.1) := by
  unfold entKeys
  rw [List.filter_map]
  rfl

theorem find_keys_eq {l : List (Nat × LogData)} {es : Items} (h : logKeys l = entKeys es) (i : Nat) :
    (l.find? (fun e => e.1 = i)).map (·.2.id) = (es.find? (fun e => e.1.index = i)).map (·.1) := by
  induction l generalizing es with
  | nil =>
    cases es with
    | nil => rfl
    | cons _ _ => simp [logKeys, entKeys] at h
  | cons x xs ih =>
    cases es with
    | nil => simp [logKeys, entKeys] at h
    | cons e es' =>
      simp only [logKeys, entKeys, List.map_cons, List.cons.injEq, Prod.mk.injEq] at h
      obtain ⟨⟨h1, h2⟩, h3⟩ := h
      by_cases hi : x.1 = i
      · have hi' : e.1.index = i := by rw [← h1]; exact hi
        simp [hi, hi', h2]
      · have hi' : ¬ e.1.index = i := by rw [← h1]; exact hi
        rw [List.find?_cons_of_neg (by simpa using hi), List.find?_cons_of_neg (by simpa using hi')]
        exact ih h3

theorem readLoop_hits (s : Store) (fs : Fs) (l : List (Nat × LogData)) (es : Items)
    (h : logKeys l = entKeys es) (hres : ∀ e ∈ es, s.cache.get e.1 = some e.2) (hh mm : Nat) :
    (readLoop s fs l hh mm).1 = es.map (fun e => ReadItem.ok e.1 e.2) := by
  induction l generalizing es hh mm with
  | nil =>
    cases es with
    | nil => rfl
    | cons _ _ => simp [logKeys, entKeys] at h
  | cons x xs ih =>
    cases es with
    | nil => simp [logKeys, entKeys] at h
    | cons e es' =>
      simp only [logKeys, entKeys, List.map_cons, List.cons.injEq, Prod.mk.injEq] at h
      obtain ⟨⟨_, h2⟩, h3⟩ := h
      obtain ⟨i, d⟩ := x
      have hg : s.cache.get d.id = some e.2 := by
        have := hres e List.mem_cons_self
        simp only at h2
        rw [h2]; exact this
      simp only [readLoop, hg, List.map_cons, List.cons.injEq]
      refine ⟨by simp at h2; rw [h2], ?_⟩
      exact ih es' h3 (fun e' he' => hres e' (List.mem_cons_of_mem _ he')) _ _

end RaftLog

namespace RaftLog

/-! ### Well-formedness of the reference log, preserved by every legal accepted op -/

structure RefLog.WF (r : RefLog) : Prop where
  /-- ids and indexes both strictly increase along the entries -/
  mono : r.entries.Pairwise (fun a b => a.1.lt b.1 = true ∧ a.1.index < b.1.index)
  /-- every live entry is above the purge point, in id and in index -/
  above : ∀ e ∈ r.entries, optLt r.purged (some e.1) = true ∧ nextIndex r.purged ≤ e.1.index
  /-- every live entry is at or below `last`, in id and in index -/
  below : ∀ e ∈ r.entries, optLe (some e.1) r.last = true ∧ e.1.index < nextIndex r.last
  /-- purged ≤ last, in id and in index -/
  pl : optLe r.purged r.last = true ∧ nextIndex r.purged ≤ nextIndex r.last

theorem RefLog.wf_empty : ({} : RefLog).WF :=
  ⟨List.Pairwise.nil, (by intro e he; cases he), (by intro e he; cases he), (by simp [nextIndex])⟩

theorem pairwise_mem_cases {α} {R : α → α → Prop} {l : List α} (h : l.Pairwise R) {a b : α}
    (ha : a ∈ l) (hb : b ∈ l) : a = b ∨ R a b ∨ R b a := by
  induction l with
  | nil => cases ha
  | cons x xs ih =>
    have hp := List.pairwise_cons.mp h
    cases ha with
    | head =>
      cases hb with
      | head => exact Or.inl rfl
      | tail _ hb' => exact Or.inr (Or.inl (hp.1 _ hb'))
    | tail _ ha' =>
      cases hb with
      | head => exact Or.inr (Or.inr (hp.1 _ ha'))
      | tail _ hb' => exact ih hp.2 ha' hb'

theorem RefLog.WF.not_lt_of_index_le {r : RefLog} (h : r.WF) {a b : LogId × Bytes}
    (ha : a ∈ r.entries) (hb : b ∈ r.entries) (hi : a.1.index ≤ b.1.index) : b.1.lt a.1 = false := by
  rcases pairwise_mem_cases h.mono ha hb with h1 | h1 | h1
  · subst h1; exact LogId.lt_irrefl _
  · rw [LogId.not_lt_iff_le]; exact LogId.le_of_lt h1.1
  · omega

theorem RefLog.WF.lt_of_index_lt {r : RefLog} (h : r.WF) {a b : LogId × Bytes}
    (ha : a ∈ r.entries) (hb : b ∈ r.entries) (hi : a.1.index < b.1.index) : a.1.lt b.1 = true := by
  rcases pairwise_mem_cases h.mono ha hb with h1 | h1 | h1
  · subst h1; omega
  · exact h1.1
  · omega

theorem RefLog.entryAt_some {r : RefLog} {i : Nat} {e : LogId × Bytes} (h : r.entryAt i = some e) :
    e ∈ r.entries ∧ e.1.index = i := by
  unfold RefLog.entryAt at h
  exact ⟨List.mem_of_find?_eq_some h, by simpa using List.find?_some h⟩

theorem RefLog.entryAt_none {r : RefLog} {i : Nat} (h : r.entryAt i = none) :
    ∀ e ∈ r.entries, e.1.index ≠ i := by
  unfold RefLog.entryAt at h
  intro e he
  have := List.find?_eq_none.mp h e he
  simpa using this

/-! #### append -/

/-- What an accepted single append looks like. -/
theorem RefLog.append1_facts {r r' : RefLog} {id : LogId} {p : Bytes} (h : r.WF)
    (hc : r.append1 id p = .ok r') :
    r' = { r with last := some id, entries := r.entries ++ [(id, p)] } ∧
    optLe (some id) r.last = false ∧
    (∀ l, r.last = some l → l.index + 1 = id.index) ∧
    (∀ a ∈ r.entries, a.1.lt id = true ∧ a.1.index < id.index) ∧
    (optLt r.purged (some id) = true ∧ nextIndex r.purged ≤ id.index) := by
  unfold RefLog.append1 at hc
  split at hc
  · cases hc
  · rename_i hnle
    have hnle : optLe (some id) r.last = false := by simpa using hnle
    have hcons : ∀ l, r.last = some l → l.index + 1 = id.index := by
      intro l hl
      rw [hl] at hc
      simp only at hc
      split at hc
      · cases hc
      · rename_i hh; simpa using hh
    have hr' : r' = { r with last := some id, entries := r.entries ++ [(id, p)] } := by
      split at hc
      · split at hc
        · cases hc
        · injection hc with hc; exact hc.symm
      · injection hc with hc; exact hc.symm
    have hold : ∀ a ∈ r.entries, a.1.lt id = true ∧ a.1.index < id.index := by
      intro a ha
      have hb := h.below a ha
      cases hl : r.last with
      | none => rw [hl] at hb; simp at hb
      | some l =>
        have hci := hcons l hl
        rw [hl] at hb hnle
        simp only [optLe_some_some, nextIndex] at hb hnle
        rw [LogId.not_le_iff_lt] at hnle
        exact ⟨LogId.lt_of_le_of_lt hb.1 hnle, by omega⟩
    have hpl : optLt r.purged (some id) = true ∧ nextIndex r.purged ≤ id.index := by
      have hpl := h.pl
      cases hl : r.last with
      | none =>
        rw [hl] at hpl
        cases hp : r.purged with
        | none => simp [nextIndex]
        | some q => rw [hp] at hpl; simp at hpl
      | some l =>
        have hci := hcons l hl
        rw [hl] at hpl hnle
        simp only [optLe_some_some] at hnle
        rw [LogId.not_le_iff_lt] at hnle
        cases hp : r.purged with
        | none => simp [nextIndex]
        | some q =>
          rw [hp] at hpl
          simp only [optLe_some_some, nextIndex] at hpl
          simp only [optLt_some_some, nextIndex]
          exact ⟨LogId.lt_of_le_of_lt hpl.1 hnle, by omega⟩
    exact ⟨hr', hnle, hcons, hold, hpl⟩

theorem RefLog.append1_wf {r r' : RefLog} {id : LogId} {p : Bytes} (h : r.WF)
    (hc : r.append1 id p = .ok r') : r'.WF := by
  obtain ⟨hr', hnle, hcons, hold, hpl⟩ := RefLog.append1_facts h hc
  subst hr'
  · skip
    refine ⟨?_, ?_, ?_, ?_⟩
    · simp only
      rw [List.pairwise_append]
      refine ⟨h.mono, List.pairwise_singleton _ _, ?_⟩
      intro a ha b hb
      simp at hb; subst hb
      exact hold a ha
    · intro e he
      simp only at he ⊢
      rcases List.mem_append.mp he with h1 | h1
      · exact h.above e h1
      · simp at h1; subst h1; exact hpl
    · intro e he
      simp only at he ⊢
      rcases List.mem_append.mp he with h1 | h1
      · have := hold e h1
        simp only [optLe_some_some, nextIndex]
        exact ⟨LogId.le_of_lt this.1, by omega⟩
      · simp at h1; subst h1
        simp [LogId.le_refl, nextIndex]
    · simp only
      refine ⟨optLe_of_lt hpl.1, ?_⟩
      have := hpl.2
      simp only [nextIndex] at this ⊢
      omega

theorem RefLog.appendAll_wf {r r' : RefLog} {es : List (LogId × Bytes)} (h : r.WF)
    (hc : r.appendAll es = .ok r') : r'.WF := by
  induction es generalizing r with
  | nil => simp only [RefLog.appendAll] at hc; injection hc with hc; subst hc; exact h
  | cons e rest ih =>
    obtain ⟨id, p⟩ := e
    simp only [RefLog.appendAll] at hc
    split at hc
    · rename_i r1 h1
      exact ih (RefLog.append1_wf h h1) hc
    · cases hc

/-! #### truncate -/

/-- The argument of `truncateTo` in an accepted truncate: the purge point or a live id. -/
def RefLog.TruncArg (r : RefLog) (o : Option LogId) : Prop :=
  o = r.purged ∨ ∃ e ∈ r.entries, o = some e.1

theorem RefLog.truncateTo_keys {r : RefLog} {o : Option LogId} (h : r.WF) (ho : r.TruncArg o) :
    ∀ a ∈ (r.truncateTo o).entries, ∀ k, o = some k → k.lt a.1 = false := by
  intro a ha k hk
  simp only [RefLog.truncateTo, List.mem_filter, decide_eq_true_eq] at ha
  obtain ⟨ha, hai⟩ := ha
  rcases ho with h1 | ⟨e, he, h1⟩
  · have := (h.above a ha).2
    rw [← h1] at this
    omega
  · rw [h1] at hk hai
    injection hk with hk
    subst hk
    exact h.not_lt_of_index_le ha he (by simp only [nextIndex] at hai; omega)

theorem RefLog.truncateTo_wf {r : RefLog} {o : Option LogId} (h : r.WF) (ho : r.TruncArg o) :
    (r.truncateTo o).WF := by
  have hkeys := RefLog.truncateTo_keys h ho
  refine ⟨?_, ?_, ?_, ?_⟩
  · exact List.Pairwise.filter _ h.mono
  · intro e he
    simp only [RefLog.truncateTo, List.mem_filter] at he
    exact h.above e he.1
  · intro e he
    have he' := he
    simp only [RefLog.truncateTo, List.mem_filter, decide_eq_true_eq] at he'
    by_cases hlt : optLt o r.last = true
    · simp only [RefLog.truncateTo, hlt, if_true]
      refine ⟨?_, he'.2⟩
      cases o with
      | none =>
        have := he'.2
        simp [nextIndex] at this
      | some k =>
        have := hkeys e he k rfl
        simp only [optLe_some_some]
        exact (LogId.not_lt_iff_le _ _).1 this
    · simp only [RefLog.truncateTo, hlt]
      exact h.below e he'.1
  · by_cases hlt : optLt o r.last = true
    · simp only [RefLog.truncateTo, hlt, if_true]
      rcases ho with h1 | ⟨e, he, h1⟩
      · rw [h1]; exact ⟨optLe_refl _, Nat.le_refl _⟩
      · rw [h1]
        have := h.above e he
        exact ⟨optLe_of_lt this.1, (by show nextIndex r.purged ≤ e.1.index + 1; omega)⟩
    · simp only [RefLog.truncateTo, hlt]
      exact h.pl

/-- An accepted truncate is `truncateTo` of the purge point or a live id. -/
theorem RefLog.truncate_arg {r r' : RefLog} {idx : Nat} (hc : r.call (.truncate idx) = .ok r') :
    (idx = nextIndex r.purged ∧ r' = r.truncateTo r.purged) ∨
    (idx ≠ nextIndex r.purged ∧ idx ≠ 0 ∧ ∃ e, r.entryAt (idx - 1) = some e ∧ r' = r.truncateTo (some e.1)) := by
  simp only [RefLog.call] at hc
  split at hc
  · rename_i h1
    injection hc with hc
    exact Or.inl ⟨h1, hc.symm⟩
  · rename_i h1
    split at hc
    · cases hc
    · rename_i h2
      split at hc
      · cases hc
      · rename_i e he
        injection hc with hc
        exact Or.inr ⟨h1, h2, e, he, hc.symm⟩

/-! #### purge -/

/-- A legal purge that is not a no-op: everything that survives is above `upto`. -/
theorem RefLog.purge_keys {r : RefLog} {upto : LogId} (h : r.WF)
    (hl : r.legal (.purge upto) = true) (hn : ¬ upto.index < nextIndex r.purged) :
    ∀ a ∈ r.entries, upto.index < a.1.index → upto.lt a.1 = true := by
  intro a ha hai
  simp only [RefLog.legal, Bool.or_eq_true, decide_eq_true_eq] at hl
  rcases hl with hl | hl
  · exact absurd hl hn
  · split at hl
    · rename_i e he
      obtain ⟨hem, hei⟩ := RefLog.entryAt_some he
      have : e.1 = upto := by simpa using hl
      rw [← this]
      exact h.lt_of_index_lt hem ha (by omega)
    · have hb := (h.below a ha).2
      simp only [Bool.and_eq_true] at hl
      cases hlast : r.last with
      | none => rw [hlast] at hb; simp [nextIndex] at hb
      | some l =>
        rw [hlast] at hb hl
        simp only [nextIndex, decide_eq_true_eq] at hb hl
        omega

theorem RefLog.purge_wf {r : RefLog} {upto : LogId} (h : r.WF)
    (hl : r.legal (.purge upto) = true) (hn : ¬ upto.index < nextIndex r.purged) :
    ({ r with
      purged := if optLt r.purged (some upto) then some upto else r.purged,
      last := if optLt r.last (some upto) then some upto else r.last,
      entries := r.entries.filter (fun e => upto.index < e.1.index) } : RefLog).WF := by
  have hkeys := RefLog.purge_keys h hl hn
  -- the purge point really moves to `upto`
  have hpu : optLt r.purged (some upto) = true := by
    simp only [RefLog.legal, Bool.or_eq_true, decide_eq_true_eq] at hl
    rcases hl with hl | hl
    · exact absurd hl hn
    · split at hl
      · rename_i e he
        obtain ⟨hem, hei⟩ := RefLog.entryAt_some he
        have : e.1 = upto := by simpa using hl
        rw [← this]
        exact (h.above e hem).1
      · simp only [Bool.and_eq_true] at hl
        have h1 := hl.1
        have h2 := h.pl.1
        cases hp : r.purged with
        | none => rfl
        | some q =>
          cases hlast : r.last with
          | none => rw [hp, hlast] at h2; simp at h2
          | some l =>
            rw [hp, hlast] at h2; rw [hlast] at h1
            simp only [optLt_some_some, optLe_some_some] at h1 h2 ⊢
            exact LogId.lt_of_le_of_lt h2 h1
  -- `upto` is at or below the new `last`, in id and index
  have hul : optLe (some upto) (if optLt r.last (some upto) then some upto else r.last) = true ∧
      upto.index + 1 ≤ nextIndex (if optLt r.last (some upto) then some upto else r.last) := by
    by_cases hlt : optLt r.last (some upto) = true
    · simp [hlt, LogId.le_refl, nextIndex]
    · simp only [hlt, Bool.false_eq_true, if_false]
      have hle : optLe (some upto) r.last = true := by
        rw [optLe_iff_not_lt]; simpa using hlt
      refine ⟨hle, ?_⟩
      simp only [RefLog.legal, Bool.or_eq_true, decide_eq_true_eq] at hl
      rcases hl with hl | hl
      · exact absurd hl hn
      · split at hl
        · rename_i e he
          obtain ⟨hem, hei⟩ := RefLog.entryAt_some he
          have := (h.below e hem).2
          omega
        · simp only [Bool.and_eq_true] at hl
          exact absurd hl.1 hlt
  refine ⟨?_, ?_, ?_, ?_⟩
  · exact List.Pairwise.filter _ h.mono
  · intro e he
    simp only [List.mem_filter, decide_eq_true_eq] at he
    simp only [hpu, if_true, optLt_some_some, nextIndex]
    exact ⟨hkeys e he.1 he.2, by omega⟩
  · intro e he
    simp only [List.mem_filter, decide_eq_true_eq] at he
    have hb := h.below e he.1
    by_cases hlt : optLt r.last (some upto) = true
    · -- `upto` is beyond `last`: nothing survives
      exfalso
      have h1 := hkeys e he.1 he.2
      have h2 := hb.1
      cases hlast : r.last with
      | none => rw [hlast] at h2; simp at h2
      | some l =>
        rw [hlast] at h2 hlt
        simp only [optLe_some_some, optLt_some_some] at h2 hlt
        have := LogId.lt_of_lt_of_le h1 h2
        have := LogId.lt_trans this hlt
        simp [LogId.lt_irrefl] at this
    · simp only [hlt]
      exact hb
  · simp only [hpu, if_true]
    exact ⟨hul.1, by simpa [nextIndex] using hul.2⟩

/-- Every legal, accepted operation keeps the reference log well-formed. -/
theorem RefLog.call_wf {r r' : RefLog} {op : Op} (h : r.WF) (hl : r.legal op = true)
    (hc : r.call op = .ok r') : r'.WF := by
  cases op with
  | saveVote v =>
    simp only [RefLog.call] at hc
    split at hc
    · injection hc with hc; subst hc; exact ⟨h.mono, h.above, h.below, h.pl⟩
    · cases hc
  | commit id =>
    simp only [RefLog.call] at hc
    split at hc
    · cases hc
    · injection hc with hc; subst hc; exact ⟨h.mono, h.above, h.below, h.pl⟩
  | saveUserData d =>
    simp only [RefLog.call] at hc
    injection hc with hc; subst hc; exact ⟨h.mono, h.above, h.below, h.pl⟩
  | append es => exact RefLog.appendAll_wf h hc
  | truncate idx =>
    rcases RefLog.truncate_arg hc with ⟨_, h2⟩ | ⟨_, _, e, he, h2⟩
    · subst h2; exact RefLog.truncateTo_wf h (Or.inl rfl)
    · subst h2; exact RefLog.truncateTo_wf h (Or.inr ⟨e, (RefLog.entryAt_some he).1, rfl⟩)
  | purge upto =>
    simp only [RefLog.call] at hc
    split at hc
    · injection hc with hc; subst hc; exact h
    · rename_i hn
      injection hc with hc; subst hc
      exact RefLog.purge_wf h hl hn

end RaftLog

namespace RaftLog

/-! ### The refinement relation -/

structure Refines (s : Store) (r : RefLog) : Prop where
  st : s.st = r.state
  /-- the index map lists exactly the spec entries -/
  log : s.log.map (fun e => (e.1, e.2.id)) = r.entries.map (fun e => (e.1.index, e.1))
  /-- every spec entry is resident with its payload -/
  resident : ∀ e ∈ r.entries, s.cache.get e.1 = some e.2
  wf : r.WF
  cinv : CacheInv s
  pf : PanicFree s
  /-- no pressure: the cache is within both limits (so nothing was evicted) -/
  room : s.cache.items.length ≤ s.cache.maxItems ∧ s.cache.size ≤ s.cache.capacity

/-- How a call moved the journal end, which files it created and how much the
cache grew (`n` entries, `b` bytes at most). -/
structure Growth (s s' : Store) (effs : List Eff) (n b : Nat) : Prop where
  openEnd : s.openEnd ≤ s'.openEnd
  creates : ∀ i, Eff.create i ∈ effs → s.openEnd ≤ i ∧ i < s'.openEnd
  items : s'.cache.items.length ≤ s.cache.items.length + n
  size : s'.cache.size ≤ s.cache.size + b
  maxItems : s'.cache.maxItems = s.cache.maxItems
  capacity : s'.cache.capacity = s.cache.capacity

theorem Growth.refl (s : Store) : Growth s s [] 0 0 :=
  ⟨Nat.le_refl _, (by intro i hi; cases hi), Nat.le_refl _, Nat.le_refl _, rfl, rfl⟩

theorem Growth.trans {s s1 s2 : Store} {e1 e2 : List Eff} {n1 n2 b1 b2 : Nat}
    (h1 : Growth s s1 e1 n1 b1) (h2 : Growth s1 s2 e2 n2 b2) :
    Growth s s2 (e1 ++ e2) (n1 + n2) (b1 + b2) := by
  refine ⟨Nat.le_trans h1.openEnd h2.openEnd, ?_, ?_, ?_, h2.maxItems.trans h1.maxItems,
    h2.capacity.trans h1.capacity⟩
  · intro i hi
    rcases List.mem_append.mp hi with h | h
    · have := h1.creates i h; have := h2.openEnd; omega
    · have := h2.creates i h; have := h1.openEnd; omega
  · have := h1.items; have := h2.items; omega
  · have := h1.size; have := h2.size; omega

/-! ### `applyIndex` as two functions on index map and cache -/

def idxLog (r : Record) (chunk : Nat) (seg : Seg) (log : List (Nat × LogData)) : List (Nat × LogData) :=
  match r with
  | .append id _ => logInsert id.index ⟨id, chunk, seg.off, seg.size⟩ log
  | .truncateAfter o => log.filter (fun e => e.1 < nextIndex o)
  | .purgeUpto id => log.filter (fun e => id.index + 1 ≤ e.1)
  | _ => log

def idxCache (r : Record) (c : Cache) : Cache :=
  match r with
  | .append id p => c.insert id p
  | .truncateAfter (some id) => c.truncateAfter id
  | .truncateAfter none => c.clear
  | .purgeUpto id => c.purgeUpto id
  | _ => c

theorem nextIndexChecked_eq {o : Option LogId} (h : optSmall o) :
    nextIndexChecked o = some (nextIndex o) := by
  cases o with
  | none => rfl
  | some id =>
    simp only [optSmall, smallId] at h
    simp [nextIndexChecked, nextIndex, h]

theorem applyIndex_eq (s : Store) {r : Record} (hr : r.small) (chunk : Nat) (seg : Seg) :
    s.applyIndex r chunk seg =
      some { s with log := idxLog r chunk seg s.log, cache := idxCache r s.cache } := by
  cases r with
  | saveVote v => rfl
  | commit id => rfl
  | state x => rfl
  | append id p => rfl
  | truncateAfter o =>
    have := nextIndexChecked_eq (o := o) hr
    cases o with
    | none => simp [Store.applyIndex, this, idxLog, idxCache]
    | some k => simp [Store.applyIndex, this, idxLog, idxCache]
  | purgeUpto id =>
    have := nextIndexChecked_eq (o := some id) hr
    simp [Store.applyIndex, this, idxLog, idxCache, nextIndex]

/-! ### `tryCloseFull` and `appendAndApply` succeed when no file is in the way -/

theorem tryCloseFull_ok (s : Store) (fsHas : Nat → Bool) (h : fsHas s.openEnd = false) :
    ∃ s' effs, s.tryCloseFull fsHas = (.ok (), s', effs) ∧ s'.st = s.st ∧ s'.log = s.log ∧
      s'.cache = s.cache ∧ s.openEnd ≤ s'.openEnd ∧
      (∀ i, Eff.create i ∈ effs → i = s.openEnd ∧ s.openEnd < s'.openEnd) := by
  unfold Store.tryCloseFull
  by_cases hf : s.isOpenFull = true
  · simp only [hf, Bool.not_true, Bool.false_eq_true, if_false, h]
    refine ⟨_, _, rfl, rfl, rfl, rfl, ?_, ?_⟩
    · simp [Store.openEnd, lastOff]
    · intro i hi
      have hpos := encRecord_length_pos (.state s.st)
      have hi' : i = s.openEnd := by
        by_cases hp : s.pending.isEmpty <;> simp [hp] at hi <;> exact hi
      refine ⟨hi', ?_⟩
      simp only [Store.openEnd, lastOff, List.getLastD_cons, List.getLastD_nil] at hpos ⊢
      simp [List.getLastD] at *
      omega
  · simp only [hf, Bool.not_false, if_true]
    exact ⟨_, _, rfl, rfl, rfl, rfl, Nat.le_refl _, by intro i hi; cases hi⟩

theorem appendAndApply_ok {s : Store} (fsHas : Nat → Bool) {r : Record} {st' : RState}
    (hst : s.st.apply r = .ok st') (hr : r.small)
    (hfs : ∀ i, s.openEnd ≤ i → fsHas i = false) :
    ∃ s' effs chunk, s.appendAndApply fsHas r = (.ok ⟨s.openEnd, (encRecord r).length⟩, s', effs) ∧
      s'.st = st' ∧ s'.log = idxLog r chunk ⟨s.openEnd, (encRecord r).length⟩ s.log ∧
      s'.cache = idxCache r s.cache ∧ s.openEnd < s'.openEnd ∧
      (∀ i, Eff.create i ∈ effs → s.openEnd ≤ i ∧ i < s'.openEnd) := by
  have hpos := encRecord_length_pos r
  unfold Store.appendAndApply
  simp only [hst]
  rw [applyIndex_eq _ hr]
  simp only
  let s3 : Store := { s with
    pending := s.pending ++ encRecord r,
    openOffsets := s.openOffsets ++ [s.openEnd + (encRecord r).length],
    log := idxLog r (Store.openId { s with pending := s.pending ++ encRecord r, openOffsets := s.openOffsets ++ [s.openEnd + (encRecord r).length] }) ⟨s.openEnd, (encRecord r).length⟩ s.log,
    cache := idxCache r s.cache, st := st' }
  have hend : s3.openEnd = s.openEnd + (encRecord r).length := by
    simp [s3, Store.openEnd, lastOff_append]
  have hfs3 : fsHas s3.openEnd = false := hfs _ (by omega)
  obtain ⟨s4, effs, heq, h1, h2, h3, h4, h5⟩ := tryCloseFull_ok s3 fsHas hfs3
  refine ⟨s4, effs, _, ?_, h1, h2, h3, by omega, ?_⟩
  · rw [heq]
  · intro i hi
    have := h5 i hi
    omega

/-! ### One journalled record keeps the refinement -/

theorem refines_step {s : Store} {r r' : RefLog} (fsHas : Nat → Bool) {rec : Record} {n b : Nat}
    (h : Refines s r) (hfs : ∀ i, s.openEnd ≤ i → fsHas i = false)
    (hst : s.st.apply rec = .ok r'.state) (hr : rec.small)
    (hstate : ∀ x, rec = .state x → x.last = s.st.last ∧ optSmall x.purged ∧ optSmall x.last)
    (hwf : r'.WF)
    (hlog : ∀ chunk seg, logKeys (idxLog rec chunk seg s.log) = entKeys r'.entries)
    (hres : ∀ e ∈ r'.entries, e ∈ (idxCache rec s.cache).items)
    (hgrow : (idxCache rec s.cache).items.length ≤ s.cache.items.length + n ∧
      (idxCache rec s.cache).size ≤ s.cache.size + b ∧
      (idxCache rec s.cache).maxItems = s.cache.maxItems ∧
      (idxCache rec s.cache).capacity = s.cache.capacity)
    (hn : s.cache.items.length + n ≤ s.cache.maxItems) (hb : s.cache.size + b ≤ s.cache.capacity) :
    ∃ seg s' effs, s.appendAndApply fsHas rec = (.ok seg, s', effs) ∧ Refines s' r' ∧
      Growth s s' effs n b := by
  obtain ⟨s', effs, chunk, heq, h1, h2, h3, h4, h5⟩ := appendAndApply_ok fsHas hst hr hfs
  have hci := appendAndApply_cacheInv fsHas rec h.cinv (fun x hx => (hstate x hx).1)
  rw [heq] at hci
  have hpf := appendAndApply_panicFree fsHas h.pf hr (fun x hx => (hstate x hx).2)
  rw [heq] at hpf
  simp only at hci hpf
  refine ⟨_, s', effs, heq, ⟨h1, ?_, ?_, hwf, hci, hpf, ?_⟩, ⟨Nat.le_of_lt h4, h5, ?_, ?_, ?_, ?_⟩⟩
  · rw [h2]; exact hlog _ _
  · intro e he
    apply Cache.get_of_mem hci.ok.sorted
    rw [h3]; exact hres e he
  · rw [h3]; omega
  · rw [h3]; exact hgrow.1
  · rw [h3]; exact hgrow.2.1
  · rw [h3]; exact hgrow.2.2.1
  · rw [h3]; exact hgrow.2.2.2

/-- Records that touch neither the index map nor the cache. -/
theorem refines_step_plain {s : Store} {r r' : RefLog} (fsHas : Nat → Bool) {rec : Record}
    (h : Refines s r) (hfs : ∀ i, s.openEnd ≤ i → fsHas i = false)
    (hst : s.st.apply rec = .ok r'.state)
    (hkind : (∃ v, rec = .saveVote v) ∨ (∃ id, rec = .commit id) ∨
      (∃ x, rec = .state x ∧ x.last = s.st.last ∧ x.purged = s.st.purged))
    (hent : r'.entries = r.entries) (hpu : r'.purged = r.purged) (hla : r'.last = r.last) :
    ∃ seg s' effs, s.appendAndApply fsHas rec = (.ok seg, s', effs) ∧ Refines s' r' ∧
      Growth s s' effs 0 0 := by
  have hwf : r'.WF := by
    have := h.wf
    exact ⟨by rw [hent]; exact this.mono, by rw [hent, hpu]; exact this.above,
      by rw [hent, hla]; exact this.below, by rw [hpu, hla]; exact this.pl⟩
  have hidx : (∀ chunk seg, idxLog rec chunk seg s.log = s.log) ∧ idxCache rec s.cache = s.cache := by
    rcases hkind with ⟨v, hv⟩ | ⟨id, hv⟩ | ⟨x, hv, _⟩ <;> subst hv <;> exact ⟨fun _ _ => rfl, rfl⟩
  have hsmall : rec.small := by
    rcases hkind with ⟨v, hv⟩ | ⟨id, hv⟩ | ⟨x, hv, _⟩ <;> subst hv <;> trivial
  apply refines_step fsHas h hfs hst hsmall ?_ hwf
  · intro chunk seg
    rw [hidx.1, hent]
    exact h.log
  · intro e he
    rw [hidx.2]
    rw [hent] at he
    exact Cache.mem_of_get (h.resident e he)
  · rw [hidx.2]; exact ⟨Nat.le_refl _, Nat.le_refl _, rfl, rfl⟩
  · have := h.room; omega
  · have := h.room; omega
  · intro x hx
    rcases hkind with ⟨v, hv⟩ | ⟨id, hv⟩ | ⟨x', hv, h1, h2⟩
    · subst hv; cases hx
    · subst hv; cases hx
    · subst hv
      injection hx with hx
      subst hx
      exact ⟨h1, by rw [h2]; exact h.pf.purged, by rw [h1]; exact h.pf.last⟩

/-! ### append -/

theorem items_lt_of_gt_last {s : Store} {id : LogId} (hinv : CacheInv s)
    (hnle : optLe (some id) s.st.last = false) : ∀ e ∈ s.cache.items, e.1.lt id = true := by
  intro e he
  have h1 := hinv.le_last e he
  cases hlast : s.st.last with
  | none => rw [hlast] at h1; simp at h1
  | some l =>
    rw [hlast] at h1 hnle
    simp only [optLe_some_some] at h1 hnle
    exact LogId.lt_of_le_of_lt h1 ((LogId.not_le_iff_lt _ _).1 hnle)

theorem mem_log_index {s : Store} {r : RefLog} (h : Refines s r) {e : Nat × LogData} (he : e ∈ s.log) :
    ∃ a ∈ r.entries, a.1.index = e.1 ∧ a.1 = e.2.id := by
  have : (e.1, e.2.id) ∈ s.log.map (fun e => (e.1, e.2.id)) := List.mem_map.mpr ⟨e, he, rfl⟩
  rw [h.log] at this
  obtain ⟨a, ha, hae⟩ := List.mem_map.mp this
  simp only [Prod.mk.injEq] at hae
  exact ⟨a, ha, hae.1, hae.2⟩

theorem append1_refines {s : Store} {r r1 : RefLog} (fsHas : Nat → Bool) {id : LogId} {p : Bytes}
    (h : Refines s r) (hfs : ∀ i, s.openEnd ≤ i → fsHas i = false)
    (hc : r.append1 id p = .ok r1) (hsm : smallId id)
    (hn : s.cache.items.length + 1 ≤ s.cache.maxItems)
    (hb : s.cache.size + p.length ≤ s.cache.capacity) :
    ∃ seg s' effs, s.appendAndApply fsHas (.append id p) = (.ok seg, s', effs) ∧ Refines s' r1 ∧
      Growth s s' effs 1 p.length := by
  have hwf1 := RefLog.append1_wf h.wf hc
  obtain ⟨hr1, hnle, hcons, hold, _⟩ := RefLog.append1_facts h.wf hc
  subst hr1
  have hlast : s.st.last = r.last := by rw [h.st]; rfl
  have hk := items_lt_of_gt_last h.cinv (by rw [hlast]; exact hnle)
  have hins := Cache.insert_noevict s.cache id p hk hn hb
  apply refines_step fsHas (rec := .append id p) h hfs ?_ hsm (by intro x hx; cases hx) hwf1 ?_ ?_ ?_ hn hb
  · -- state
    simp only [RState.apply, RState.append, hlast, hnle, Bool.false_eq_true, if_false]
    cases hl : r.last with
    | none => simp [RefLog.state, h.st, hl]
    | some l =>
      have hsl : optSmall (some l) := by have := h.pf.last; rw [hlast, hl] at this; exact this
      have hci := hcons l hl
      simp only [nextIndexChecked_eq hsl, nextIndex]
      simp [hci, RefLog.state, h.st, hl]
  · -- index map
    intro chunk seg
    have hlt : ∀ e ∈ s.log, e.1 < id.index := by
      intro e he
      obtain ⟨a, ha, hai, _⟩ := mem_log_index h he
      have := (hold a ha).2
      omega
    simp only [idxLog]
    rw [logInsert_of_all_lt _ _ _ hlt]
    simp only [logKeys, entKeys, List.map_append, List.map_cons, List.map_nil]
    rw [h.log]
  · -- residency
    intro e he
    simp only [idxCache]
    rw [hins]
    simp only at he ⊢
    rcases List.mem_append.mp he with h1 | h1
    · exact List.mem_append_left _ (Cache.mem_of_get (h.resident e h1))
    · exact List.mem_append_right _ h1
  · simp only [idxCache]
    rw [hins]
    simp

/-- The entries an op appends. -/
def Op.entries : Op → List (LogId × Bytes)
  | .append es => es
  | _ => []

/-- Number of entries an op appends, and their payload bytes. -/
def Op.count (op : Op) : Nat := op.entries.length
def Op.bytes (op : Op) : Nat := sumLen op.entries

theorem appendBatch_refines (es : List (LogId × Bytes)) :
    ∀ (s : Store) (r r' : RefLog) (fsHas : Nat → Bool) (seg : Seg) (effs : List Eff),
    Refines s r → (∀ i, s.openEnd ≤ i → fsHas i = false) → r.appendAll es = .ok r' →
    (∀ e ∈ es, smallId e.1) → s.cache.items.length + es.length ≤ s.cache.maxItems →
    s.cache.size + sumLen es ≤ s.cache.capacity →
    ∃ seg' s' effs', Store.appendBatch fsHas es s seg effs = (.ok seg', s', effs ++ effs') ∧
      Refines s' r' ∧ Growth s s' effs' es.length (sumLen es) := by
  induction es with
  | nil =>
    intro s r r' fsHas seg effs h _ hc _ _ _
    simp only [RefLog.appendAll] at hc
    injection hc with hc
    subst hc
    exact ⟨seg, s, [], by simp [Store.appendBatch], h, Growth.refl s⟩
  | cons e rest ih =>
    obtain ⟨id, p⟩ := e
    intro s r r' fsHas seg effs h hfs hc hsm hn hb
    simp only [RefLog.appendAll] at hc
    split at hc
    · rename_i r1 hc1
      simp only [List.length_cons, sumLen] at hn hb
      obtain ⟨seg1, s1, e1, heq1, href1, hg1⟩ :=
        append1_refines fsHas h hfs hc1 (hsm (id, p) List.mem_cons_self) (by omega) (by omega)
      have hfs1 : ∀ i, s1.openEnd ≤ i →
          (fsHas i || e1.any (fun e => e == Eff.create i)) = false := by
        intro i hi
        have h1 : fsHas i = false := hfs i (by have := hg1.openEnd; omega)
        have h2 : e1.any (fun e => e == Eff.create i) = false := by
          rw [List.any_eq_false]
          intro x hx hxe
          have : x = Eff.create i := by simpa using hxe
          subst this
          have := hg1.creates i hx
          omega
        simp [h1, h2]
      obtain ⟨seg2, s2, e2, heq2, href2, hg2⟩ :=
        ih s1 r1 r' _ seg1 (effs ++ e1) href1 hfs1 hc
          (fun e he => hsm e (List.mem_cons_of_mem _ he))
          (by have := hg1.items; have := hg1.maxItems; omega)
          (by have := hg1.size; have := hg1.capacity; omega)
      refine ⟨seg2, s2, e1 ++ e2, ?_, href2, ?_⟩
      · have hidx : id.index + 1 ≠ U64 := by
          have : id.index + 1 < U64 := hsm (id, p) List.mem_cons_self
          omega
        rw [appendBatch_cons_small_D12 _ _ _ _ _ _ _ hidx]
        rw [heq1]
        simp only
        rw [heq2, List.append_assoc]
      · have := hg1.trans hg2
        simp only [List.length_cons, sumLen]
        have e1 : 1 + rest.length = rest.length + 1 := by omega
        rw [e1] at this
        exact this
    · cases hc

/-! ### truncate -/

theorem truncateAfter_refines {s : Store} {r : RefLog} (fsHas : Nat → Bool) {o : Option LogId}
    (h : Refines s r) (hfs : ∀ i, s.openEnd ≤ i → fsHas i = false)
    (ho : r.TruncArg o) (hsm : optSmall o) :
    ∃ seg s' effs, s.appendAndApply fsHas (.truncateAfter o) = (.ok seg, s', effs) ∧
      Refines s' (r.truncateTo o) ∧ Growth s s' effs 0 0 := by
  have hwf' := RefLog.truncateTo_wf h.wf ho
  have hkeys := RefLog.truncateTo_keys h.wf ho
  apply refines_step fsHas (rec := .truncateAfter o) h hfs ?_ hsm (by intro x hx; cases hx) hwf' ?_ ?_ ?_
    (by have := h.room; omega) (by have := h.room; omega)
  · simp only [RState.apply, h.st, RState.truncateAfter, RefLog.truncateTo, RefLog.state]
    by_cases hlt : optLt o r.last = true <;> simp [hlt]
  · intro chunk seg
    have h1 := logKeys_filter (fun i => decide (i < nextIndex o)) s.log
    have h2 := entKeys_filter (fun i => decide (i < nextIndex o)) r.entries
    have h3 : logKeys s.log = entKeys r.entries := h.log
    simp only [idxLog, RefLog.truncateTo]
    rw [h1, h2, h3]
  · intro e he
    have hmem : e ∈ r.entries := by
      simp only [RefLog.truncateTo, List.mem_filter] at he
      exact he.1
    have hres := Cache.mem_of_get (h.resident e hmem)
    cases o with
    | none =>
      simp only [RefLog.truncateTo, List.mem_filter, nextIndex] at he
      simp at he
    | some k =>
      simp only [idxCache]
      exact (Cache.truncateAfter_facts s.cache k).1 e hres (hkeys e he k rfl)
  · cases o with
    | none => simp [idxCache, Cache.clear]
    | some k =>
      have := Cache.truncateAfter_facts s.cache k
      simp only [idxCache]
      exact ⟨this.2.2.1, this.2.2.2.1, this.2.2.2.2.1, this.2.2.2.2.2⟩

/-! ### purge -/

theorem purgeUpto_refines {s : Store} {r : RefLog} (fsHas : Nat → Bool) {upto : LogId}
    (h : Refines s r) (hfs : ∀ i, s.openEnd ≤ i → fsHas i = false)
    (hl : r.legal (.purge upto) = true) (hnn : ¬ upto.index < nextIndex r.purged)
    (hsm : smallId upto) :
    ∃ seg s' effs, s.appendAndApply fsHas (.purgeUpto upto) = (.ok seg, s', effs) ∧
      Refines s' ({ r with
        purged := if optLt r.purged (some upto) then some upto else r.purged,
        last := if optLt r.last (some upto) then some upto else r.last,
        entries := r.entries.filter (fun e => upto.index < e.1.index) } : RefLog) ∧
      Growth s s' effs 0 0 := by
  have hwf' := RefLog.purge_wf h.wf hl hnn
  have hkeys := RefLog.purge_keys h.wf hl hnn
  apply refines_step fsHas (rec := .purgeUpto upto) h hfs ?_ hsm (by intro x hx; cases hx) hwf' ?_ ?_ ?_
    (by have := h.room; omega) (by have := h.room; omega)
  · simp only [RState.apply, h.st, RState.purge, RefLog.state]
    by_cases h1 : optLt r.purged (some upto) = true <;>
      by_cases h2 : optLt r.last (some upto) = true <;> simp [h1, h2]
  · intro chunk seg
    have h1 := logKeys_filter (fun i => decide (upto.index < i)) s.log
    have h2 := entKeys_filter (fun i => decide (upto.index < i)) r.entries
    have h3 : logKeys s.log = entKeys r.entries := h.log
    have h4 : idxLog (.purgeUpto upto) chunk seg s.log = s.log.filter (fun e => decide (upto.index < e.1)) := rfl
    rw [h4, h1, h2, h3]
  · intro e he
    simp only [List.mem_filter, decide_eq_true_eq] at he
    have hres := Cache.mem_of_get (h.resident e he.1)
    have hk := hkeys e he.1 he.2
    simp only [idxCache]
    exact (Cache.purgeUpto_facts s.cache upto).1 e hres ((LogId.not_le_iff_lt _ _).2 hk)
  · have := Cache.purgeUpto_facts s.cache upto
    simp only [idxCache]
    exact ⟨this.2.2.1, this.2.2.2.1, this.2.2.2.2.1, this.2.2.2.2.2⟩

/-! ### Every legal accepted op: the step theorem -/

theorem logGet_of_entryAt {s : Store} {r : RefLog} (h : Refines s r) {i : Nat} {e : LogId × Bytes}
    (he : r.entryAt i = some e) : ∃ d, s.logGet i = some d ∧ d.id = e.1 ∧ smallId d.id := by
  have hk := find_keys_eq (l := s.log) (es := r.entries) h.log i
  unfold RefLog.entryAt at he
  rw [he] at hk
  unfold Store.logGet
  cases hf : s.log.find? (fun e => e.1 = i) with
  | none => rw [hf] at hk; simp at hk
  | some x =>
    rw [hf] at hk
    simp only [Option.map_some, Option.some.injEq] at hk
    exact ⟨x.2, rfl, hk, h.pf.log x (List.mem_of_find?_eq_some hf)⟩

theorem call_refines {s : Store} {r r' : RefLog} (fsHas : Nat → Bool) {op : Op}
    (h : Refines s r) (hfs : ∀ i, s.openEnd ≤ i → fsHas i = false)
    (hl : r.legal op = true) (hc : r.call op = .ok r') (hsm : op.small)
    (hn : s.cache.items.length + op.count ≤ s.cache.maxItems)
    (hb : s.cache.size + op.bytes ≤ s.cache.capacity) :
    ∃ seg s' effs, s.call fsHas op = (.ok seg, s', effs) ∧ Refines s' r' ∧
      Growth s s' effs op.count op.bytes := by
  have hpu : s.st.purged = r.purged := by rw [h.st]; rfl
  cases op with
  | saveVote v =>
    simp only [RefLog.call] at hc
    split at hc
    · rename_i hcond
      injection hc with hc; subst hc
      exact refines_step_plain fsHas (rec := .saveVote v) h hfs
        (by simp [RState.apply, RState.updateVote, h.st, RefLog.state, hcond])
        (Or.inl ⟨v, rfl⟩) rfl rfl rfl
    · cases hc
  | commit id =>
    simp only [RefLog.call] at hc
    split at hc
    · cases hc
    · rename_i hcond
      injection hc with hc; subst hc
      exact refines_step_plain fsHas (rec := .commit id) h hfs
        (by simp [RState.apply, RState.commit, h.st, RefLog.state, hcond])
        (Or.inr (Or.inl ⟨id, rfl⟩)) rfl rfl rfl
  | saveUserData d =>
    simp only [RefLog.call] at hc
    injection hc with hc; subst hc
    exact refines_step_plain fsHas (rec := .state { s.st with userData := d }) h hfs
      (by simp [RState.apply, h.st, RefLog.state])
      (Or.inr (Or.inr ⟨_, rfl, rfl, rfl⟩)) rfl rfl rfl
  | append es =>
    simp only [Store.call]
    obtain ⟨seg0, hseg⟩ := lastSegment_some h.pf.open2
    rw [hseg]
    simp only
    obtain ⟨seg', s', effs', heq, href, hg⟩ :=
      appendBatch_refines es s r r' fsHas seg0 [] h hfs hc hsm hn hb
    exact ⟨seg', s', effs', by simpa using heq, href, hg⟩
  | truncate idx =>
    simp only [Store.call]
    rw [nextIndexChecked_eq h.pf.purged]
    simp only [hpu]
    rcases RefLog.truncate_arg hc with ⟨h1, h2⟩ | ⟨h1, h2, e, he, h3⟩
    · rw [if_pos h1]
      subst h2
      exact truncateAfter_refines fsHas h hfs (Or.inl rfl) (hpu ▸ h.pf.purged)
    · rw [if_neg h1, if_neg h2]
      obtain ⟨d, hd, hde, hds⟩ := logGet_of_entryAt h he
      rw [hd]
      simp only [hde]
      subst h3
      exact truncateAfter_refines fsHas h hfs (Or.inr ⟨e, (RefLog.entryAt_some he).1, rfl⟩)
        (by rw [← hde]; exact hds)
  | purge upto =>
    have hidx : upto.index + 1 ≠ U64 := by
      have : upto.index + 1 < U64 := hsm
      omega
    simp only [Store.call, if_neg hidx]
    rw [nextIndexChecked_eq h.pf.purged]
    simp only [hpu]
    simp only [RefLog.call] at hc
    by_cases hnn : upto.index < nextIndex r.purged
    · rw [if_pos hnn]
      rw [if_pos hnn] at hc
      injection hc with hc; subst hc
      obtain ⟨seg0, hseg⟩ := lastSegment_some h.pf.open2
      rw [hseg]
      exact ⟨seg0, s, [], rfl, h, Growth.refl s⟩
    · rw [if_neg hnn]
      rw [if_neg hnn] at hc
      injection hc with hc; subst hc
      obtain ⟨seg, s', effs, heq, h', hg⟩ := purgeUpto_refines fsHas h hfs hl hnn hsm
      rw [heq]
      simp only
      refine ⟨seg, _, effs, rfl, ?_, ?_⟩
      · exact ⟨h'.st, h'.log, h'.resident, h'.wf, ⟨h'.cinv.ok, h'.cinv.le_last⟩,
          ⟨h'.pf.open2, h'.pf.purged, h'.pf.last, h'.pf.log⟩, h'.room⟩
      · exact ⟨hg.openEnd, hg.creates, hg.items, hg.size, hg.maxItems, hg.capacity⟩

/-! ### Reads -/

theorem Refines.read {s : Store} {r : RefLog} (h : Refines s r) (fs : Fs) (a b : Nat) :
    (s.read fs a b).1 = (r.read a b).map (fun e => ReadItem.ok e.1 e.2) := by
  unfold Store.read RefLog.read
  simp only
  apply readLoop_hits
  · have h1 := logKeys_filter (fun i => decide (a ≤ i) && decide (i < b)) s.log
    have h2 := entKeys_filter (fun i => decide (a ≤ i) && decide (i < b)) r.entries
    have h3 : logKeys s.log = entKeys r.entries := h.log
    rw [h1, h2, h3]
  · intro e he
    exact h.resident e (List.mem_filter.mp he).1

theorem Refines.iter {s : Store} {r : RefLog} (h : Refines s r) (fs : Fs) :
    s.iter fs = r.entries.map (fun e => ReadItem.ok e.1 e.2) := by
  unfold Store.iter
  exact readLoop_hits s fs s.log r.entries h.log h.resident 0 0

/-- Refinement only looks at the resident set, not at the eviction boundary. -/
theorem Refines.of_same {s : Store} {r : RefLog} {c : Cache} (h : Refines s r)
    (hs : SameItems c s.cache) : Refines { s with cache := c } r := by
  refine ⟨h.st, h.log, ?_, h.wf, ?_, ⟨h.pf.open2, h.pf.purged, h.pf.last, h.pf.log⟩, ?_⟩
  · intro e he
    have := h.resident e he
    simp only [Cache.get, hs.1] at this ⊢
    exact this
  · exact ⟨⟨by simp only [hs.2.1, hs.1]; exact h.cinv.ok.size_eq,
      by simp only [hs.1]; exact h.cinv.ok.sorted⟩, by simp only [hs.1]; exact h.cinv.le_last⟩
  · simp only [hs.1, hs.2.1, hs.2.2.1, hs.2.2.2]
    exact h.room

end RaftLog

namespace RaftLog

/-! ### File ids: worker steps and call effects never create a file at or beyond the journal end -/

def Fs.ids (fs : Fs) : List Nat := fs.map (·.id)

theorem Fs.ids_update (fs : Fs) (id : Nat) (g : File → File) (hg : ∀ f, (g f).id = f.id) :
    Fs.ids (fs.update id g) = Fs.ids fs := by
  unfold Fs.ids Fs.update
  rw [List.map_map]
  apply List.map_congr_left
  intro f _
  simp only [Function.comp]
  split
  · exact hg f
  · rfl

@[simp] theorem Fs.ids_write (fs : Fs) (id : Nat) (bs : Bytes) : Fs.ids (fs.write id bs) = Fs.ids fs :=
  Fs.ids_update fs id _ (fun _ => rfl)
@[simp] theorem Fs.ids_sync (fs : Fs) (id : Nat) : Fs.ids (fs.sync id) = Fs.ids fs :=
  Fs.ids_update fs id _ (fun _ => rfl)
@[simp] theorem Fs.ids_unlink (fs : Fs) (id : Nat) : Fs.ids (fs.unlink id) = Fs.ids fs :=
  Fs.ids_update fs id _ (fun _ => rfl)

theorem Fs.mem_ids {fs : Fs} {f : File} (h : f ∈ fs) : f.id ∈ Fs.ids fs :=
  List.mem_map.mpr ⟨f, h, rfl⟩

theorem Fs.has_false_of_lt {fs : Fs} {k : Nat} (h : ∀ i ∈ Fs.ids fs, i < k) :
    ∀ i, k ≤ i → fs.has i = false := by
  intro i hi
  have : fs.find i = none := by
    unfold Fs.find
    rw [List.find?_eq_none]
    intro f hf
    have := h f.id (Fs.mem_ids hf)
    simp
    omega
  simp [Fs.has, this]

theorem Fs.ids_create {fs : Fs} {id i : Nat} (h : i ∈ Fs.ids (fs.create id)) : i ∈ Fs.ids fs ∨ i = id := by
  unfold Fs.ids Fs.create at h
  simp only [List.map_append, List.mem_append, List.mem_map, List.mem_filter] at h
  rcases h with ⟨f, ⟨hf, _⟩, hfi⟩ | ⟨f, hf, hfi⟩
  · exact Or.inl (hfi ▸ Fs.mem_ids hf)
  · simp at hf; subst hf; exact Or.inr hfi.symm

theorem applyEffs_ids (effs : List Eff) : ∀ (fs : Fs) (w : Worker) (evs : List Ev) (i : Nat),
    i ∈ Fs.ids (applyEffs effs fs w evs).2.1 → i ∈ Fs.ids fs ∨ Eff.create i ∈ effs := by
  induction effs with
  | nil => intro fs w evs i h; exact Or.inl h
  | cons e rest ih =>
    intro fs w evs i h
    cases e with
    | create id =>
      simp only [applyEffs] at h
      rcases ih _ _ _ _ h with h1 | h1
      · rcases Fs.ids_create h1 with h2 | h2
        · exact Or.inl h2
        · subst h2; exact Or.inr List.mem_cons_self
      · exact Or.inr (List.mem_cons_of_mem _ h1)
    | createFailed id =>
      simp only [applyEffs] at h
      rcases ih _ _ _ _ h with h1 | h1
      · exact Or.inl h1
      · exact Or.inr (List.mem_cons_of_mem _ h1)
    | writeHead id bs =>
      simp only [applyEffs] at h
      rcases ih _ _ _ _ h with h1 | h1
      · rw [Fs.ids_write] at h1; exact Or.inl h1
      · exact Or.inr (List.mem_cons_of_mem _ h1)
    | send r =>
      simp only [applyEffs] at h
      split at h
      · exact Or.inl h
      · rcases ih _ _ _ _ h with h1 | h1
        · exact Or.inl h1
        · exact Or.inr (List.mem_cons_of_mem _ h1)

/-! #### worker steps keep the set of file ids -/

theorem foldl_emit_fs {α} (f : α → Ev) (l : List α) (c : WCtx) :
    (l.foldl (fun c i => c.emit (f i)) c).fs = c.fs := by
  induction l generalizing c with
  | nil => rfl
  | cons x xs ih => simp [List.foldl_cons, ih]

theorem WCtx.die_fs (c : WCtx) (inHand : List WReq) : (c.die inHand).fs = c.fs := by
  simp [WCtx.die, foldl_emit_fs]

theorem WCtx.toRecv_fs (c : WCtx) : c.toRecv.fs = c.fs := by
  unfold WCtx.toRecv
  split
  · rfl
  · split <;> rfl

theorem WCtx.nonFlush_fs (c : WCtx) (r : WReq) : (c.nonFlush r).fs = c.fs := by
  unfold WCtx.nonFlush
  repeat' (first | rfl | (simp only [WCtx.toRecv_fs]; done) | split | dsimp only)

theorem WCtx.finishBatch_fs (c : WCtx) (batch : List WReq) (tail : Option WReq) (ok : Bool) :
    (c.finishBatch batch tail ok).fs = c.fs := by
  unfold WCtx.finishBatch
  cases tail with
  | none => simp [WCtx.nonFlush_fs, foldl_emit_fs]
  | some r => cases r <;> simp [WCtx.nonFlush_fs, foldl_emit_fs]

theorem WCtx.startSync_fs (c : WCtx) (batch : List WReq) (tail : Option WReq) :
    (c.startSync batch tail).fs = c.fs := by
  unfold WCtx.startSync
  split
  · rw [WCtx.finishBatch_fs]
  · rfl
  · rfl

theorem WCtx.startWrites_fs (c : WCtx) (batch : List WReq) (tail : Option WReq) :
    (c.startWrites batch tail).fs = c.fs := by
  unfold WCtx.startWrites
  cases (batch.map WReq.data).filter (fun d => !d.isEmpty) with
  | nil => exact WCtx.startSync_fs c batch tail
  | cons x xs => rfl

macro "wfs_close" : tactic => `(tactic| first
  | rfl
  | (simp only [WCtx.toRecv_fs, WCtx.finishBatch_fs, WCtx.die_fs, WCtx.nonFlush_fs,
      WCtx.startSync_fs, WCtx.startWrites_fs, WCtx.emit_fs, Fs.ids_write, Fs.ids_sync,
      Fs.ids_unlink]; done))

theorem WCtx.step_ids (c : WCtx) (out : Outcome) : Fs.ids (c.step out).fs = Fs.ids c.fs := by
  unfold WCtx.step
  repeat' (first | wfs_close | split | dsimp only)

theorem WCtx.runQuiet_ids (n : Nat) (c : WCtx) : Fs.ids (WCtx.runQuiet n c).fs = Fs.ids c.fs := by
  induction n generalizing c with
  | zero => rfl
  | succ n ih =>
    unfold WCtx.runQuiet
    split
    · rfl
    · exact (ih _).trans (WCtx.step_ids c .ok)

/-! ### The system-level invariant -/

/-- The live store refines `r`, no chunk file sits at or beyond the journal
end, and the cache still has room for `n` more entries / `b` more bytes. -/
def SysRef (y : Sys) (r : RefLog) (n b : Nat) : Prop :=
  ∃ s, y.store = some s ∧ Refines s r ∧ (∀ i ∈ Fs.ids y.fs, i < s.openEnd) ∧
    s.cache.items.length + n ≤ s.cache.maxItems ∧ s.cache.size + b ≤ s.cache.capacity

theorem Sys.call_proj (y : Sys) (op : Op) (s : Store) (hs : y.store = some s) :
    (y.call op).2.1.store = some (s.call y.fs.has op).2.1 ∧
    (y.call op).2.1.fs = (applyEffs (s.call y.fs.has op).2.2 y.fs y.worker []).2.1 := by
  simp [Sys.call, hs]

theorem Refines.of_fields {s s2 : Store} {r : RefLog} (h : Refines s r) (h1 : s2.st = s.st)
    (h2 : s2.log = s.log) (h3 : s2.cache = s.cache) (h4 : s2.openOffsets = s.openOffsets) :
    Refines s2 r := by
  refine ⟨by rw [h1]; exact h.st, by rw [h2]; exact h.log, by rw [h3]; exact h.resident, h.wf,
    ⟨by rw [h3]; exact h.cinv.ok, by rw [h3, h1]; exact h.cinv.le_last⟩,
    ⟨by rw [h4]; exact h.pf.open2, by rw [h1]; exact h.pf.purged, by rw [h1]; exact h.pf.last,
      by rw [h2]; exact h.pf.log⟩, by rw [h3]; exact h.room⟩

/-- A legal accepted call: the store-level call succeeds, the invariant is
kept with the budget reduced by what the op appended. -/
theorem SysRef.call {y : Sys} {r r' : RefLog} {n b : Nat} {op : Op}
    (h : SysRef y r (op.count + n) (op.bytes + b))
    (hl : r.legal op = true) (hc : r.call op = .ok r') (hsm : op.small) :
    SysRef (y.step (.call op)) r' n b ∧
    ∃ s seg, y.store = some s ∧ (s.call y.fs.has op).1 = .ok seg ∧
      ((y.call op).1 = .ok seg ∨ (y.call op).1 = .err .sendFailed) := by
  obtain ⟨s, hs, href, hfs, hn, hb⟩ := h
  have hfs' := Fs.has_false_of_lt hfs
  obtain ⟨seg, s', effs, heq, href', hg⟩ :=
    call_refines y.fs.has href hfs' hl hc hsm (by omega) (by omega)
  obtain ⟨p1, p2⟩ := Sys.call_proj y op s hs
  rw [heq] at p1 p2
  refine ⟨⟨s', p1, href', ?_, ?_, ?_⟩, s, seg, hs, by rw [heq], ?_⟩
  · intro i hi
    have hi' : i ∈ Fs.ids (y.call op).2.1.fs := hi
    rw [p2] at hi'
    rcases applyEffs_ids _ _ _ _ _ hi' with h1 | h1
    · have := hfs i h1; have := hg.openEnd; omega
    · exact (hg.creates i h1).2
  · have := hg.items; have := hg.maxItems; omega
  · have := hg.size; have := hg.capacity; omega
  · simp only [Sys.call, hs, heq]
    cases (applyEffs effs y.fs y.worker []).1 <;> simp

theorem flush_no_create (s : Store) (cb : Option Nat) (i : Nat) : Eff.create i ∉ (s.flush cb).2 := by
  unfold Store.flush
  by_cases h : s.removed.isEmpty <;> simp [h]

theorem SysRef.flush {y : Sys} {r : RefLog} {n b : Nat} (h : SysRef y r n b) (cb : Option Nat) :
    SysRef (y.step (.flush cb)) r n b := by
  obtain ⟨s, hs, href, hfs, hn, hb⟩ := h
  have hp : ∃ s2, (y.flush cb).2.1.store = some s2 ∧ s2.st = s.st ∧ s2.log = s.log ∧
      s2.cache = s.cache ∧ s2.openOffsets = s.openOffsets ∧
      (y.flush cb).2.1.fs = (applyEffs (s.flush cb).2 y.fs y.worker []).2.1 := by
    simp only [Sys.flush, hs]
    cases (applyEffs (s.flush cb).2 y.fs y.worker []).1 <;> simp [Store.flush]
  obtain ⟨s2, h0, h1, h2, h3, h4, h5⟩ := hp
  refine ⟨s2, h0, href.of_fields h1 h2 h3 h4, ?_, by rw [h3]; exact hn, by rw [h3]; exact hb⟩
  intro i hi
  have hi' : i ∈ Fs.ids (y.flush cb).2.1.fs := hi
  rw [h5] at hi'
  have he : s2.openEnd = s.openEnd := by simp [Store.openEnd, h4]
  rw [he]
  rcases applyEffs_ids _ _ _ _ _ hi' with h6 | h6
  · exact hfs i h6
  · exact absurd h6 (flush_no_create s cb i)

theorem SysRef.worker {y : Sys} {r : RefLog} {n b : Nat} (h : SysRef y r n b) (out : Outcome) :
    SysRef (y.step (.worker out)) r n b := by
  obtain ⟨s, hs, href, hfs, hn, hb⟩ := h
  have hsame := WCtx.step_same { w := y.worker, fs := y.fs, cache := s.cache } out
  have hids := WCtx.step_ids { w := y.worker, fs := y.fs, cache := s.cache } out
  refine ⟨_, by simp only [Sys.step, Sys.workerStep, hs], href.of_same hsame, ?_, ?_, ?_⟩
  · intro i hi
    simp only [Sys.step, Sys.workerStep, hs] at hi
    rw [hids] at hi
    exact hfs i hi
  · simp only [hsame.1, hsame.2.2.1]; exact hn
  · simp only [hsame.2.1, hsame.2.2.2]; exact hb

theorem SysRef.workerIdle {y : Sys} {r : RefLog} {n b : Nat} (h : SysRef y r n b) :
    SysRef (y.step .workerIdle) r n b := by
  obtain ⟨s, hs, href, hfs, hn, hb⟩ := h
  have hsame := WCtx.runQuiet_same y.worker.fuel { w := y.worker, fs := y.fs, cache := s.cache }
  have hids := WCtx.runQuiet_ids y.worker.fuel { w := y.worker, fs := y.fs, cache := s.cache }
  refine ⟨_, by simp only [Sys.step, Sys.workerIdle, hs], href.of_same hsame, ?_, ?_, ?_⟩
  · intro i hi
    simp only [Sys.step, Sys.workerIdle, hs] at hi
    rw [hids] at hi
    exact hfs i hi
  · simp only [hsame.1, hsame.2.2.1]; exact hn
  · simp only [hsame.2.1, hsame.2.2.2]; exact hb

/-! ### A freshly opened store refines the empty reference log -/

theorem fresh_shape (cfg : Cfg) :
    ∃ s, (Sys.fresh cfg).store = some s ∧ s.st = {} ∧ s.log = [] ∧
      s.cache = { maxItems := cfg.cacheItems, capacity := cfg.cacheCap } ∧
      s.openOffsets = [0, 0 + (encRecord (.state {})).length] ∧
      Fs.ids (Sys.fresh cfg).fs = [0] := by
  simp [Sys.fresh, Sys.open, openStore, Fs.linkedIds, openLoop, emptyStore, Fs.has, Fs.find,
    Fs.ids, Fs.create, Fs.write, Fs.update]

theorem fresh_sysRef (cfg : Cfg) : SysRef (Sys.fresh cfg) {} cfg.cacheItems cfg.cacheCap := by
  obtain ⟨s, hs, h1, h2, h3, h4, h5⟩ := fresh_shape cfg
  have hpos := encRecord_length_pos (.state {})
  refine ⟨s, hs, ⟨by rw [h1]; rfl, by rw [h2]; rfl, (by intro e he; cases he), RefLog.wf_empty,
    ⟨⟨by rw [h3]; rfl, by rw [h3]; exact List.Pairwise.nil⟩, (by rw [h3]; intro e he; cases he)⟩,
    ⟨by rw [h4]; simp, by rw [h1]; trivial, by rw [h1]; trivial, (by rw [h2]; intro e he; cases he)⟩,
    by rw [h3]; simp⟩, ?_, by rw [h3]; simp, by rw [h3]; simp⟩
  intro i hi
  rw [h5] at hi
  simp at hi
  subst hi
  simp [Store.openEnd, lastOff, h4]
  exact hpos

/-! ### Histories -/

/-- The ops of the `.call` steps, in order. -/
def stepOps : List Step → List Op
  | [] => []
  | .call op :: rest => op :: stepOps rest
  | _ :: rest => stepOps rest

/-- Fold the reference log over a list of ops; `none` as soon as one is not
Raft-legal or is rejected. -/
def RefLog.run (r : RefLog) : List Op → Option RefLog
  | [] => some r
  | op :: rest =>
    if r.legal op then
      match r.call op with
      | .ok r' => r'.run rest
      | .error _ => none
    else none

/-- Total number of appended entries / payload bytes of a list of ops. -/
def opsCount : List Op → Nat
  | [] => 0
  | op :: rest => op.count + opsCount rest

def opsBytes : List Op → Nat
  | [] => 0
  | op :: rest => op.bytes + opsBytes rest

/-- The steps C01 quantifies over: calls, flushes and worker steps (any
outcome). Draining and restarts are the subject of other properties. -/
def Step.c01 : Step → Bool
  | .call _ => true
  | .flush _ => true
  | .worker _ => true
  | .workerIdle => true
  | _ => false

theorem run_sysRef (steps : List Step) : ∀ (y : Sys) (r r' : RefLog),
    SysRef y r (opsCount (stepOps steps)) (opsBytes (stepOps steps)) →
    (∀ st ∈ steps, st.c01 = true) → r.run (stepOps steps) = some r' →
    (∀ op ∈ stepOps steps, op.small) →
    SysRef (y.run steps) r' 0 0 ∧
    ∀ pre op post, steps = pre ++ Step.call op :: post →
      ∃ s seg, (y.run pre).store = some s ∧ (s.call (y.run pre).fs.has op).1 = .ok seg ∧
        (((y.run pre).call op).1 = .ok seg ∨ ((y.run pre).call op).1 = .err .sendFailed) := by
  induction steps with
  | nil =>
    intro y r r' h _ hr _
    simp only [stepOps, RefLog.run, Option.some.injEq] at hr
    subst hr
    refine ⟨h, ?_⟩
    intro pre op post hsplit
    cases pre <;> cases hsplit
  | cons st rest ih =>
    intro y r r' h hst hr hsm
    have hrest : ∀ st' ∈ rest, st'.c01 = true := fun s hs => hst s (List.mem_cons_of_mem _ hs)
    -- a non-call step: same reference log, same budget
    have hother : stepOps (st :: rest) = stepOps rest → SysRef (y.step st) r
        (opsCount (stepOps rest)) (opsBytes (stepOps rest)) → (∀ op, st ≠ .call op) →
        SysRef ((y.step st).run rest) r' 0 0 ∧
        ∀ pre op post, st :: rest = pre ++ Step.call op :: post →
          ∃ s seg, (y.run pre).store = some s ∧ (s.call (y.run pre).fs.has op).1 = .ok seg ∧
            (((y.run pre).call op).1 = .ok seg ∨ ((y.run pre).call op).1 = .err .sendFailed) := by
      intro he h' hne
      rw [he] at hr hsm
      obtain ⟨g1, g2⟩ := ih (y.step st) r r' h' hrest hr hsm
      refine ⟨g1, ?_⟩
      intro pre op post hsplit
      cases pre with
      | nil =>
        simp only [List.nil_append, List.cons.injEq] at hsplit
        exact absurd hsplit.1 (hne op)
      | cons p pre' =>
        simp only [List.cons_append, List.cons.injEq] at hsplit
        obtain ⟨hp, hrest'⟩ := hsplit
        subst hp
        exact g2 pre' op post hrest'
    cases st with
    | drain => have := hst _ List.mem_cons_self; cases this
    | drop => have := hst _ List.mem_cons_self; cases this
    | openWith c => have := hst _ List.mem_cons_self; cases this
    | flush cb =>
      exact hother rfl (SysRef.flush h cb) (by intro op hh; cases hh)
    | worker out =>
      exact hother rfl (SysRef.worker h out) (by intro op hh; cases hh)
    | workerIdle =>
      exact hother rfl (SysRef.workerIdle h) (by intro op hh; cases hh)
    | call op =>
      simp only [stepOps, RefLog.run] at hr
      simp only [stepOps, opsCount, opsBytes] at h
      have hsm0 : op.small := hsm op (by simp [stepOps])
      have hsm' : ∀ o ∈ stepOps rest, o.small := fun o ho => hsm o (by simp [stepOps, ho])
      split at hr
      · rename_i hl
        split at hr
        · rename_i r1 hc
          obtain ⟨h1, hok⟩ := SysRef.call h hl hc hsm0
          obtain ⟨g1, g2⟩ := ih (y.step (.call op)) r1 r' h1 hrest hr hsm'
          refine ⟨g1, ?_⟩
          intro pre op' post hsplit
          cases pre with
          | nil =>
            simp only [List.nil_append, List.cons.injEq, Step.call.injEq] at hsplit
            obtain ⟨hop, _⟩ := hsplit
            subst hop
            exact hok
          | cons p pre' =>
            simp only [List.cons_append, List.cons.injEq] at hsplit
            obtain ⟨hp, hrest'⟩ := hsplit
            subst hp
            exact g2 pre' op' post hrest'
        · cases hr
      · cases hr

end RaftLog

namespace RaftLog

/-! ### Worker liveness: without injected I/O errors the worker never dies, so
no `send` fails and the system-level call returns what the store returned -/

def Worker.Alive (w : Worker) : Prop := w.pc ≠ .dead ∧ w.senderAlive = true

theorem foldl_emit_w {α} (f : α → Ev) (l : List α) (c : WCtx) :
    (l.foldl (fun c i => c.emit (f i)) c).w = c.w := by
  induction l generalizing c with
  | nil => rfl
  | cons x xs ih => simp [List.foldl_cons, ih]

theorem WCtx.toRecv_alive (c : WCtx) (h : c.w.senderAlive = true) : c.toRecv.w.Alive := by
  unfold WCtx.toRecv
  split
  · exact ⟨by simp, h⟩
  · rw [if_pos h]
    exact ⟨by simp, h⟩

theorem WCtx.nonFlush_alive (c : WCtx) (r : WReq) (h : c.w.senderAlive = true) :
    (c.nonFlush r).w.Alive := by
  unfold WCtx.nonFlush
  repeat' (first | (apply WCtx.toRecv_alive; exact h) | (exact ⟨by simp, h⟩) | split | dsimp only)

theorem WCtx.finishBatch_alive (c : WCtx) (batch : List WReq) (tail : Option WReq) (ok : Bool)
    (h : c.w.senderAlive = true) : (c.finishBatch batch tail ok).w.Alive := by
  unfold WCtx.finishBatch
  cases tail with
  | none => exact WCtx.nonFlush_alive _ _ (by simp [foldl_emit_w, h])
  | some r => cases r <;> exact WCtx.nonFlush_alive _ _ (by simp [foldl_emit_w, h])

theorem WCtx.startSync_alive (c : WCtx) (batch : List WReq) (tail : Option WReq)
    (h : c.w.senderAlive = true) : (c.startSync batch tail).w.Alive := by
  unfold WCtx.startSync
  split
  · exact WCtx.finishBatch_alive c batch tail true h
  · exact ⟨by simp, h⟩
  · exact ⟨by simp, h⟩

theorem WCtx.startWrites_alive (c : WCtx) (batch : List WReq) (tail : Option WReq)
    (h : c.w.senderAlive = true) : (c.startWrites batch tail).w.Alive := by
  unfold WCtx.startWrites
  cases (batch.map WReq.data).filter (fun d => !d.isEmpty) with
  | nil => exact WCtx.startSync_alive c batch tail h
  | cons x xs => exact ⟨by simp, h⟩

macro "wl_close" : tactic => `(tactic| first
  | contradiction
  | (apply WCtx.toRecv_alive; assumption)
  | (apply WCtx.nonFlush_alive; assumption)
  | (apply WCtx.finishBatch_alive; assumption)
  | (apply WCtx.startSync_alive; assumption)
  | (apply WCtx.startWrites_alive; assumption)
  | (refine ⟨by simp, ?_⟩; assumption))

theorem WCtx.step_alive (c : WCtx) (out : Outcome) (h : c.w.Alive) (hout : out ≠ .eio) :
    (c.step out).w.Alive := by
  obtain ⟨hpc, hsa⟩ := h
  unfold WCtx.step
  repeat' (first | wl_close | split | dsimp only)

theorem WCtx.runQuiet_alive (n : Nat) (c : WCtx) (h : c.w.Alive) : (WCtx.runQuiet n c).w.Alive := by
  induction n generalizing c with
  | zero => exact h
  | succ n ih =>
    unfold WCtx.runQuiet
    split
    · exact h
    · exact ih _ (WCtx.step_alive c .ok h (by intro hh; cases hh))

theorem applyEffs_alive (effs : List Eff) : ∀ (fs : Fs) (w : Worker) (evs : List Ev), w.Alive →
    (applyEffs effs fs w evs).1 = true ∧ (applyEffs effs fs w evs).2.2.1.Alive := by
  induction effs with
  | nil => intro fs w evs h; exact ⟨rfl, h⟩
  | cons e rest ih =>
    intro fs w evs h
    cases e with
    | create id => simp only [applyEffs]; exact ih _ _ _ h
    | createFailed id => simp only [applyEffs]; exact ih _ _ _ h
    | writeHead id bs => simp only [applyEffs]; exact ih _ _ _ h
    | send r =>
      simp only [applyEffs]
      split
      · rename_i hd; exact absurd hd h.1
      · exact ih _ _ _ ⟨h.1, h.2⟩

theorem Worker.settle_alive (w : Worker) (h : w.Alive) : w.settle.Alive := by
  unfold Worker.settle
  split
  · exact ⟨by simp, h.2⟩
  · exact h

/-- No step injects an I/O error into the worker. -/
def Step.noEio : Step → Bool
  | .worker .eio => false
  | _ => true

theorem Sys.step_alive (y : Sys) (st : Step) (h : y.worker.Alive) (h1 : st.c01 = true)
    (h2 : st.noEio = true) : (y.step st).worker.Alive := by
  cases st with
  | drain => cases h1
  | drop => cases h1
  | openWith c => cases h1
  | call op =>
    simp only [Sys.step, Sys.call]
    cases hs : y.store with
    | none => exact h
    | some s =>
      simp only
      exact Worker.settle_alive _ (applyEffs_alive _ _ _ _ h).2
  | flush cb =>
    simp only [Sys.step, Sys.flush]
    cases hs : y.store with
    | none => exact h
    | some s =>
      simp only
      exact Worker.settle_alive _ (applyEffs_alive _ _ _ _ h).2
  | worker out =>
    simp only [Sys.step, Sys.workerStep]
    cases hs : y.store with
    | none => exact h
    | some s =>
      simp only
      apply WCtx.step_alive _ _ h
      intro hh; subst hh; cases h2
  | workerIdle =>
    simp only [Sys.step, Sys.workerIdle]
    cases hs : y.store with
    | none => exact h
    | some s =>
      simp only
      exact WCtx.runQuiet_alive _ _ h

theorem Sys.run_alive (steps : List Step) : ∀ (y : Sys), y.worker.Alive →
    (∀ st ∈ steps, st.c01 = true ∧ st.noEio = true) → (y.run steps).worker.Alive := by
  induction steps with
  | nil => intro y h _; exact h
  | cons st rest ih =>
    intro y h hst
    simp only [Sys.run, List.foldl_cons]
    have := hst st List.mem_cons_self
    exact ih (y.step st) (Sys.step_alive y st h this.1 this.2)
      (fun s hs => hst s (List.mem_cons_of_mem _ hs))

theorem fresh_alive (cfg : Cfg) : (Sys.fresh cfg).worker.Alive := by
  have : (Sys.fresh cfg).worker.pc = .idle ∧ (Sys.fresh cfg).worker.senderAlive = true := by
    simp [Sys.fresh, Sys.open, openStore, Fs.linkedIds, openLoop, emptyStore, Fs.has, Fs.find]
  exact ⟨by rw [this.1]; simp, this.2⟩

/-- With a live worker the system-level call returns the store's own result. -/
theorem Sys.call_result_alive (y : Sys) (op : Op) (s : Store) (hs : y.store = some s)
    (h : y.worker.Alive) : (y.call op).1 = (s.call y.fs.has op).1 := by
  have := (applyEffs_alive (s.call y.fs.has op).2.2 y.fs y.worker [] h).1
  simp [Sys.call, hs, this]

end RaftLog
