/-
C16 for recovery: every chunk file of a reachable state — live, scheduled for
removal or already unlinked — holds a prefix of the encoding of SMALL,
well-formed records (log ids whose `index + 1` fits a u64). Hence `FsSmall`
(the hypothesis of `c05_open_no_panic_partial`) holds for the files of every
reachable state as they are, and for the files left by `drop` at ANY point.

`SmallJ s fs w`: for every file id, `chunkBytes` (file ++ in flight ++ pending
buffer if it is the open chunk) is exactly `encAll rs` for small well-formed
`rs`. It is kept by every legal, accepted, well-formed, small call (with chunk
rotation and purge), flush, worker step that leaves the worker alive,
`workerIdle`, `drain` and by clean restarts.
-/
import RaftLogModel.Proofs.ReplayRestart
import RaftLogModel.Proofs.ReadPathStore
namespace RaftLog

/-! ### Small journals -/

def AllSmallSJ (rs : List Record) : Prop := ∀ r ∈ rs, RecSmall r

def SmallJ (s : Store) (fs : Fs) (w : Worker) : Prop :=
  ∀ id ∈ Fs.ids fs, ∃ rs, AllWF rs ∧ AllSmallSJ rs ∧ chunkBytes s fs w id = encAll rs

theorem SmallJ.transport {s s' : Store} {fs fs' : Fs} {w w' : Worker} (h : SmallJ s fs w)
    (hids : ∀ id ∈ Fs.ids fs', id ∈ Fs.ids fs)
    (hb : ∀ id, chunkBytes s' fs' w' id = chunkBytes s fs w id) : SmallJ s' fs' w' := by
  intro id hid
  obtain ⟨rs, h1, h2, h3⟩ := h id (hids id hid)
  exact ⟨rs, h1, h2, by rw [hb, h3]⟩

theorem SmallJ.applied {s : Store} {fs : Fs} {w : Worker} {rec : Record} {st' : RState}
    (h : SmallJ s fs w) (hne : s.openOffsets ≠ []) (hwf : rec.WF) (hsm : RecSmall rec) :
    SmallJ (s.applied rec st') fs w := by
  intro id hid
  obtain ⟨rs, h1, h2, h3⟩ := h id hid
  rw [chunkBytes_applied fs w hne id, h3]
  by_cases e : s.openId = id
  · refine ⟨rs ++ [rec], ?_, ?_, ?_⟩
    · intro x hx
      rcases List.mem_append.mp hx with k | k
      · exact h1 x k
      · simp only [List.mem_singleton] at k; subst k; exact hwf
    · intro x hx
      rcases List.mem_append.mp hx with k | k
      · exact h2 x k
      · simp only [List.mem_singleton] at k; subst k; exact hsm
    · rw [if_pos e, encAll_append]; simp
  · exact ⟨rs, h1, h2, by rw [if_neg e]; simp⟩

theorem SmallJ.rotated {s : Store} {fs : Fs} {w : Worker} (hj : JInv s fs w) (h : SmallJ s fs w)
    (hst : StSmall s.st) :
    SmallJ s.rotated (effFs (rotateEffs s) fs) (w.push (effQ (rotateEffs s))) := by
  intro id hid
  by_cases e : id = s.openEnd
  · subst e
    refine ⟨[.state s.st], ?_, ?_, ?_⟩
    · intro x hx; simp only [List.mem_singleton] at hx; subst hx; exact hj.stWF
    · intro x hx
      simp only [List.mem_singleton] at hx; subst hx
      refine ⟨trivial, ?_⟩
      intro y hy
      injection hy with hy
      subst hy
      exact hst
    · have := (rotate_bytes hj (s' := s.rotated) rfl rfl).2
      rw [effFs_rotateEffs, effQ_rotateEffs, this]
      simp
  · have hid' : id ∈ Fs.ids fs := by
      rw [effFs_rotateEffs, Fs.ids_write] at hid
      rcases Fs.ids_create hid with k | k
      · exact k
      · exact absurd k e
    obtain ⟨rs, h1, h2, h3⟩ := h id hid'
    exact ⟨rs, h1, h2, by rw [chunkBytes_rotated hj e, h3]⟩

/-- One journalled record (with rotation if the chunk is full). -/
theorem smallJ_step {s : Store} {fs : Fs} {w : Worker} (fsHas : Nat → Bool) {rec : Record}
    {st' : RState} (hj : JInv s fs w) (h : SmallJ s fs w) (hwf : rec.WF) (hsm : RecSmall rec)
    (hst : s.st.apply rec = .ok st') (hst' : StSmall st')
    (hfs : ∀ i, s.openEnd ≤ i → fsHas i = false) :
    SmallJ (s.appendAndApply fsHas rec).2.1 (effFs (s.appendAndApply fsHas rec).2.2 fs)
      (w.push (effQ (s.appendAndApply fsHas rec).2.2)) := by
  have hne := hj.openBytes.ne_nil
  have hfs' : fsHas (s.openEnd + (encRecord rec).length) = false := hfs _ (by omega)
  rw [appendAndApply_shapeRd fsHas hst hsm.1 hne hfs']
  have h3 : SmallJ (s.applied rec st') fs w := h.applied hne hwf hsm
  have hj3 := hj.applied hwf hsm.1 hst
  rcases tryCloseFull_cases (s.applied rec st') fsHas (by rw [Store.applied_openEnd]; exact hfs')
    with e | e <;> rw [e]
  · simpa [effFs, effQ] using h3
  · exact h3.rotated hj3 hst'

/-! ### Every legal accepted call, with the replay invariant -/

theorem rs_step {s : Store} {fs : Fs} {w : Worker} {r r' : RefLog} (fsHas : Nat → Bool)
    {rec : Record} (h : RInv s fs w r) (hS : SmallJ s fs w)
    (hfs : ∀ i, s.openEnd ≤ i → fsHas i = false) (ok : StepOK s r r' rec) (hwf : rec.WF) :
    ∃ s' effs, s.appendAndApply fsHas rec = (.ok ⟨s.openEnd, (encRecord rec).length⟩, s', effs) ∧
      RInv s' (effFs effs fs) (w.push (effQ effs)) r' ∧ SmallJ s' (effFs effs fs) (w.push (effQ effs)) ∧
      s.openEnd ≤ s'.openEnd ∧ (∀ i, Eff.create i ∈ effs → s.openEnd ≤ i ∧ i < s'.openEnd) := by
  obtain ⟨s', effs, heq, hinv, h1, h2⟩ := rinv_step fsHas h hfs ok hwf
  refine ⟨s', effs, heq, hinv, ?_, h1, h2⟩
  have hsmall : StSmall r'.state := by
    have hp := hinv.abs.pf
    have hs := hinv.abs.st
    exact ⟨by rw [← hs]; exact hp.purged, by rw [← hs]; exact hp.last⟩
  have := smallJ_step fsHas h.j hS hwf ⟨ok.small, ok.hstate⟩ ok.hst hsmall hfs
  rw [heq] at this
  exact this

theorem appendBatch_RS (es : List (LogId × Bytes)) :
    ∀ (s : Store) (r r' : RefLog) (fsHas : Nat → Bool) (seg : Seg) (effs : List Eff) (fs : Fs)
      (w : Worker),
    RInv s (effFs effs fs) (w.push (effQ effs)) r → SmallJ s (effFs effs fs) (w.push (effQ effs)) →
    (∀ i, s.openEnd ≤ i → fsHas i = false) →
    r.appendAll es = .ok r' → (∀ e ∈ es, smallId e.1) → (∀ e ∈ es, e.1.WF ∧ bytesWF e.2) →
    ∃ seg' s' effs', Store.appendBatch fsHas es s seg effs = (.ok seg', s', effs') ∧
      RInv s' (effFs effs' fs) (w.push (effQ effs')) r' ∧
      SmallJ s' (effFs effs' fs) (w.push (effQ effs')) := by
  induction es with
  | nil =>
    intro s r r' fsHas seg effs fs w h hS _ hc _ _
    simp only [RefLog.appendAll] at hc
    injection hc with hc
    subst hc
    exact ⟨seg, s, effs, by simp [Store.appendBatch], h, hS⟩
  | cons e rest ih =>
    obtain ⟨id, p⟩ := e
    intro s r r' fsHas seg effs fs w h hS hfs hc hsm hwf
    simp only [RefLog.appendAll] at hc
    split at hc
    · rename_i r1 hc1
      have ok := stepOK_append1 h.abs hc1 (hsm (id, p) List.mem_cons_self)
      obtain ⟨s1, e1, heq1, hinv1, hS1, hend1, hcr1⟩ :=
        rs_step fsHas h hS hfs ok (hwf (id, p) List.mem_cons_self)
      rw [← effFs_append, Worker.push_push, ← effQ_append] at hinv1 hS1
      have hfs1 : ∀ i, s1.openEnd ≤ i →
          (fsHas i || e1.any (fun e => e == Eff.create i)) = false := by
        intro i hi
        have h1 : fsHas i = false := hfs i (by omega)
        have h2 : e1.any (fun e => e == Eff.create i) = false := by
          rw [List.any_eq_false]
          intro x hx hxe
          have : x = Eff.create i := by simpa using hxe
          subst this
          have := hcr1 i hx
          omega
        simp [h1, h2]
      obtain ⟨seg2, s2, e2, heq2, hinv2, hS2⟩ :=
        ih s1 r1 r' _ ⟨s.openEnd, (encRecord (.append id p)).length⟩ (effs ++ e1) fs w hinv1 hS1 hfs1 hc
          (fun e he => hsm e (List.mem_cons_of_mem _ he))
          (fun e he => hwf e (List.mem_cons_of_mem _ he))
      refine ⟨seg2, s2, e2, ?_, hinv2, hS2⟩
      have hidxD12 : id.index + 1 ≠ U64 := by
        have : id.index + 1 < U64 := hsm (id, p) List.mem_cons_self
        omega
      rw [appendBatch_cons_small_D12 _ _ _ _ _ _ _ hidxD12]
      rw [heq1]
      simp only
      exact heq2
    · cases hc

theorem call_RS {s : Store} {fs : Fs} {w : Worker} {r r' : RefLog} (fsHas : Nat → Bool) {op : Op}
    (h : RInv s fs w r) (hS : SmallJ s fs w) (hfs : ∀ i, s.openEnd ≤ i → fsHas i = false)
    (hl : r.legal op = true) (hc : r.call op = .ok r') (hsm : op.small) (hwf : op.WF) :
    ∃ seg s' effs, s.call fsHas op = (.ok seg, s', effs) ∧
      RInv s' (effFs effs fs) (w.push (effQ effs)) r' ∧
      SmallJ s' (effFs effs fs) (w.push (effQ effs)) := by
  have hpu : s.st.purged = r.purged := by rw [h.abs.st]; rfl
  have step : ∀ {rec : Record}, StepOK s r r' rec → rec.WF →
      ∃ seg s' effs, s.appendAndApply fsHas rec = (.ok seg, s', effs) ∧
        RInv s' (effFs effs fs) (w.push (effQ effs)) r' ∧
        SmallJ s' (effFs effs fs) (w.push (effQ effs)) := by
    intro rec ok hw
    obtain ⟨s', effs, heq, hinv, hS', _, _⟩ := rs_step fsHas h hS hfs ok hw
    exact ⟨_, s', effs, heq, hinv, hS'⟩
  cases op with
  | saveVote v =>
    simp only [RefLog.call] at hc
    split at hc
    · rename_i hcond
      injection hc with hc; subst hc
      exact step (stepOK_plain (rec := .saveVote v) h.abs
        (by simp [RState.apply, RState.updateVote, h.abs.st, RefLog.state, hcond])
        (Or.inl ⟨v, rfl⟩) rfl rfl rfl) hwf
    · cases hc
  | commit id =>
    simp only [RefLog.call] at hc
    split at hc
    · cases hc
    · rename_i hcond
      injection hc with hc; subst hc
      exact step (stepOK_plain (rec := .commit id) h.abs
        (by simp [RState.apply, RState.commit, h.abs.st, RefLog.state, hcond])
        (Or.inr (Or.inl ⟨id, rfl⟩)) rfl rfl rfl) hwf
  | saveUserData d =>
    simp only [RefLog.call] at hc
    injection hc with hc; subst hc
    refine step (stepOK_plain (rec := .state { s.st with userData := d }) h.abs
      (by simp [RState.apply, h.abs.st, RefLog.state])
      (Or.inr (Or.inr ⟨_, rfl, rfl, rfl⟩)) rfl rfl rfl) ?_
    obtain ⟨h1, h2, h3, h4, _⟩ := h.j.stWF
    exact ⟨h1, h2, h3, h4, by cases d <;> simp [Op.WF] at hwf ⊢ <;> exact hwf⟩
  | append es =>
    simp only [Store.call]
    obtain ⟨seg0, hseg⟩ := lastSegment_some h.abs.pf.open2
    rw [hseg]
    simp only
    exact appendBatch_RS es s r r' fsHas seg0 [] fs w (by simpa [effFs, effQ] using h)
      (by simpa [effFs, effQ] using hS) hfs hc hsm hwf
  | truncate idx =>
    simp only [Store.call]
    rw [nextIndexChecked_eq h.abs.pf.purged]
    simp only [hpu]
    rcases RefLog.truncate_arg hc with ⟨h1, h2⟩ | ⟨h1, h2, e, he, h3⟩
    · rw [if_pos h1]
      subst h2
      exact step (stepOK_truncateAfter h.abs (Or.inl rfl) (hpu ▸ h.abs.pf.purged))
        (by rw [← hpu]; exact h.j.stWF.2.2.2.1)
    · rw [if_neg h1, if_neg h2]
      obtain ⟨d, hd, hde, hds⟩ := h.abs.logGet_of_entryAt he
      rw [hd]
      simp only [hde]
      subst h3
      obtain ⟨x, hx, hxd⟩ := logGet_mem hd
      have hidwf : e.1.WF := by rw [← hde, ← hxd]; exact h.j.logWF x hx
      exact step (stepOK_truncateAfter h.abs (Or.inr ⟨e, (RefLog.entryAt_some he).1, rfl⟩)
        (by rw [← hde]; exact hds)) hidwf
  | purge upto =>
    have hidxD12 : upto.index + 1 ≠ U64 := by
      have : upto.index + 1 < U64 := hsm
      omega
    simp only [Store.call, if_neg hidxD12]
    rw [nextIndexChecked_eq h.abs.pf.purged]
    simp only [hpu]
    simp only [RefLog.call] at hc
    by_cases hnn : upto.index < nextIndex r.purged
    · rw [if_pos hnn]
      rw [if_pos hnn] at hc
      injection hc with hc; subst hc
      obtain ⟨seg0, hseg⟩ := lastSegment_some h.abs.pf.open2
      rw [hseg]
      exact ⟨seg0, s, [], rfl, by simpa [effFs, effQ] using h, by simpa [effFs, effQ] using hS⟩
    · rw [if_neg hnn]
      rw [if_neg hnn] at hc
      injection hc with hc; subst hc
      have ok := stepOK_purgeUpto h.abs hl hnn hsm
      obtain ⟨s', effs, heq, hinv, hS', _, _⟩ := rs_step fsHas h hS hfs ok hwf
      rw [heq]
      simp only
      refine ⟨_, _, effs, rfl, ?_, hS'.transport (fun id hid => hid) (fun id => rfl)⟩
      obtain ⟨pre, hpre⟩ := popObsolete_suffix upto s'.closed
      refine ⟨hinv.j.dropClosed pre rfl rfl rfl rfl hpre, hinv.abs.of_fields rfl rfl rfl, ?_⟩
      refine hinv.rep.pop upto ?_ rfl rfl rfl rfl rfl
      intro e he
      have h1 := hinv.abs.log_above e he
      have h2 : optLe (some upto) s'.st.purged = true := by
        rw [hinv.abs.st]
        simp only [RefLog.state]
        by_cases h3 : optLt r.purged (some upto) = true
        · simp [h3, LogId.le_refl]
        · simp only [h3, Bool.false_eq_true, if_false]
          rw [optLe_iff_not_lt]; simpa using h3
      exact optLt_of_le_of_lt h2 h1

end RaftLog
