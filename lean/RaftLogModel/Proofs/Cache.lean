/-
Payload-cache invariants: the byte counter equals the sum of resident payload
sizes, keys stay strictly increasing, eviction only drops a prefix at or below
the boundary.
-/
import RaftLogModel.Proofs.Order
import RaftLogModel.Model.Cache
namespace RaftLog

abbrev Items := List (LogId × Bytes)

def sumLen : Items → Nat
  | [] => 0
  | e :: rest => e.2.length + sumLen rest

theorem sumLen_append (a b : Items) : sumLen (a ++ b) = sumLen a + sumLen b := by
  induction a with
  | nil => simp [sumLen]
  | cons e rest ih => simp [sumLen, ih]; omega

theorem sumLen_reverse (a : Items) : sumLen a.reverse = sumLen a := by
  induction a with
  | nil => rfl
  | cons e rest ih => simp [sumLen_append, sumLen, ih]; omega

def Sorted (l : Items) : Prop := l.Pairwise (fun a b => a.1.lt b.1 = true)

structure Cache.OK (c : Cache) : Prop where
  size_eq : c.size = sumLen c.items
  sorted : Sorted c.items

/-- Every resident key is at or below `o`. -/
def KeysLe (l : Items) (o : Option LogId) : Prop := ∀ e ∈ l, optLe (some e.1) o = true

/-- Every resident key is strictly above `o`. -/
def KeysGt (l : Items) (o : Option LogId) : Prop := ∀ e ∈ l, optLe (some e.1) o = false

/-! ### The four loops drop a prefix / suffix and keep the counter exact -/

theorem evictLoop_spec (mx cap : Nat) (le : Option LogId) (size : Nat) (l : Items)
    (h : size = sumLen l) :
    ∃ pre, l = pre ++ (evictLoop mx cap le size l).2 ∧
      (evictLoop mx cap le size l).1 = sumLen (evictLoop mx cap le size l).2 ∧
      KeysLe pre le := by
  induction l generalizing size with
  | nil => exact ⟨[], by simp [evictLoop], by simp [evictLoop, sumLen, h], by simp [KeysLe]⟩
  | cons e rest ih =>
    obtain ⟨id, p⟩ := e
    unfold evictLoop
    split
    · rename_i hc
      have hle : optLe (some id) le = true := by simp at hc; exact hc.2
      obtain ⟨pre, h1, h2, h3⟩ := ih (size - p.length) (by simp [sumLen] at h; omega)
      refine ⟨(id, p) :: pre, by simp [← h1], h2, ?_⟩
      intro e he
      cases he with
      | head => exact hle
      | tail _ he' => exact h3 e he'
    · exact ⟨[], by simp, by simp [h], by simp [KeysLe]⟩

theorem drainLoop_spec (le : Option LogId) (size : Nat) (l : Items) (h : size = sumLen l) :
    ∃ pre, l = pre ++ (drainLoop le size l).2 ∧
      (drainLoop le size l).1 = sumLen (drainLoop le size l).2 ∧
      KeysLe pre le ∧
      (∀ e, (drainLoop le size l).2.head? = some e → optLe (some e.1) le = false) := by
  induction l generalizing size with
  | nil => exact ⟨[], by simp [drainLoop], by simp [drainLoop, sumLen, h], by simp [KeysLe], by simp [drainLoop]⟩
  | cons e rest ih =>
    obtain ⟨id, p⟩ := e
    unfold drainLoop
    split
    · rename_i hle
      obtain ⟨pre, h1, h2, h3, h4⟩ := ih (size - p.length) (by simp [sumLen] at h; omega)
      refine ⟨(id, p) :: pre, by simp [← h1], h2, ?_, h4⟩
      intro e he
      cases he with
      | head => exact hle
      | tail _ he' => exact h3 e he'
    · rename_i hle
      refine ⟨[], by simp, by simp [h], by simp [KeysLe], ?_⟩
      intro e he
      simp at he
      subst he
      simpa using hle

theorem purgeLoop_spec (key : LogId) (le : Option LogId) (size : Nat) (l : Items)
    (h : size = sumLen l) :
    ∃ pre, l = pre ++ (purgeLoop key le size l).2 ∧
      (purgeLoop key le size l).1 = sumLen (purgeLoop key le size l).2 := by
  induction l generalizing size with
  | nil => exact ⟨[], by simp [purgeLoop], by simp [purgeLoop, sumLen, h]⟩
  | cons e rest ih =>
    obtain ⟨id, p⟩ := e
    unfold purgeLoop
    split
    · obtain ⟨pre, h1, h2⟩ := ih (size - p.length) (by simp [sumLen] at h; omega)
      exact ⟨(id, p) :: pre, by simp [← h1], h2⟩
    · exact ⟨[], by simp, by simp [h]⟩

theorem truncLoop_spec (key : LogId) (size : Nat) (l : Items) (h : size = sumLen l) :
    ∃ pre, l = pre ++ (truncLoop key size l).2 ∧
      (truncLoop key size l).1 = sumLen (truncLoop key size l).2 ∧
      (∀ e, (truncLoop key size l).2.head? = some e → key.lt e.1 = false) := by
  induction l generalizing size with
  | nil => exact ⟨[], by simp [truncLoop], by simp [truncLoop, sumLen, h], by simp [truncLoop]⟩
  | cons e rest ih =>
    obtain ⟨id, p⟩ := e
    unfold truncLoop
    split
    · obtain ⟨pre, h1, h2, h3⟩ := ih (size - p.length) (by simp [sumLen] at h; omega)
      exact ⟨(id, p) :: pre, by simp [← h1], h2, h3⟩
    · rename_i hk
      refine ⟨[], by simp, by simp [h], ?_⟩
      intro e he
      simp at he
      subst he
      simpa using hk

theorem Sorted.of_append_right {a b : Items} (h : Sorted (a ++ b)) : Sorted b :=
  (List.pairwise_append.mp h).2.1

theorem Sorted.of_append_left {a b : Items} (h : Sorted (a ++ b)) : Sorted a :=
  (List.pairwise_append.mp h).1

/-! ### Cache operations preserve `OK` -/

theorem Cache.tryEvict_ok {c : Cache} (h : c.OK) : c.tryEvict.OK := by
  obtain ⟨pre, h1, h2, _⟩ := evictLoop_spec c.maxItems c.capacity c.lastEvictable c.size c.items h.size_eq
  refine ⟨h2, ?_⟩
  have := h.sorted
  rw [h1] at this
  exact this.of_append_right

theorem Cache.drainEvictable_ok {c : Cache} (h : c.OK) : c.drainEvictable.OK := by
  obtain ⟨pre, h1, h2, _⟩ := drainLoop_spec c.lastEvictable c.size c.items h.size_eq
  refine ⟨h2, ?_⟩
  have := h.sorted
  rw [h1] at this
  exact this.of_append_right

theorem Cache.purgeUpto_ok {c : Cache} (key : LogId) (h : c.OK) : (c.purgeUpto key).OK := by
  obtain ⟨pre, h1, h2⟩ := purgeLoop_spec key c.lastEvictable c.size c.items h.size_eq
  refine ⟨h2, ?_⟩
  have := h.sorted
  rw [h1] at this
  exact this.of_append_right

theorem Cache.clear_ok (c : Cache) : c.clear.OK :=
  ⟨rfl, List.Pairwise.nil⟩

theorem Cache.setLastEvictable_ok {c : Cache} (o : Option LogId) (h : c.OK) :
    (c.setLastEvictable o).OK := ⟨h.size_eq, h.sorted⟩

theorem Sorted.reverse_iff (l : Items) :
    Sorted l ↔ l.reverse.Pairwise (fun a b => b.1.lt a.1 = true) := by
  unfold Sorted
  rw [List.pairwise_reverse]

theorem Cache.truncateAfter_ok {c : Cache} (key : LogId) (h : c.OK) : (c.truncateAfter key).OK := by
  have hs : c.size = sumLen c.items.reverse := by rw [sumLen_reverse]; exact h.size_eq
  obtain ⟨pre, h1, h2, _⟩ := truncLoop_spec key c.size c.items.reverse hs
  refine ⟨?_, ?_⟩
  · simp only [Cache.truncateAfter, sumLen_reverse]; exact h2
  · -- items = (kept.reverse) ++ pre.reverse
    have : c.items = (truncLoop key c.size c.items.reverse).2.reverse ++ pre.reverse := by
      have := congrArg List.reverse h1
      simpa using this
    have hsorted := h.sorted
    rw [this] at hsorted
    exact hsorted.of_append_left

/-- Inserting a key greater than every resident key appends at the end. -/
theorem insertSorted_of_all_lt (k : LogId) (v : Bytes) (l : Items)
    (h : ∀ e ∈ l, e.1.lt k = true) : insertSorted k v l = l ++ [(k, v)] := by
  induction l with
  | nil => rfl
  | cons e rest ih =>
    obtain ⟨k', v'⟩ := e
    have hk : k'.lt k = true := h (k', v') (List.mem_cons_self)
    have h1 : k.lt k' = false := by
      rw [LogId.not_lt_iff_le]; exact LogId.le_of_lt hk
    have h2 : k ≠ k' := (LogId.lt_ne hk).symm
    simp only [insertSorted, h1, h2, Bool.false_eq_true, if_false, List.cons_append]
    rw [ih (fun e he => h e (List.mem_cons_of_mem _ he))]

theorem Cache.insert_ok {c : Cache} (k : LogId) (v : Bytes) (h : c.OK)
    (hk : ∀ e ∈ c.items, e.1.lt k = true) : (c.insert k v).OK := by
  unfold Cache.insert
  apply Cache.tryEvict_ok
  refine ⟨?_, ?_⟩
  · simp only [insertSorted_of_all_lt k v c.items hk, sumLen_append, sumLen]
    have := h.size_eq
    omega
  · simp only [insertSorted_of_all_lt k v c.items hk]
    unfold Sorted
    rw [List.pairwise_append]
    refine ⟨h.sorted, List.pairwise_singleton _ _, ?_⟩
    intro a ha b hb
    simp at hb
    subst hb
    exact hk a ha

end RaftLog

namespace RaftLog

theorem evictLoop_exit (mx cap : Nat) (le : Option LogId) (size : Nat) (l : Items) :
    ((evictLoop mx cap le size l).2.length > mx ∨ (evictLoop mx cap le size l).1 > cap) →
    ∀ e, (evictLoop mx cap le size l).2.head? = some e → optLe (some e.1) le = false := by
  induction l generalizing size with
  | nil => intro _ e he; simp [evictLoop] at he
  | cons x rest ih =>
    obtain ⟨id, p⟩ := x
    unfold evictLoop
    split
    · exact ih (size - p.length)
    · rename_i hc
      intro hover e he
      simp only [List.head?_cons, Option.some.injEq] at he
      subst he
      simp only [List.length_cons] at hover
      simp only [Bool.and_eq_true, Bool.or_eq_true, decide_eq_true_eq, not_and, Bool.not_eq_true] at hc
      exact hc hover

/-- In a sorted list, if the first key is above the boundary, all are. -/
theorem keysGt_of_head (l : Items) (o : Option LogId) (hs : Sorted l)
    (hh : ∀ e, l.head? = some e → optLe (some e.1) o = false) : KeysGt l o := by
  cases l with
  | nil => intro e he; cases he
  | cons x xs =>
    intro e he
    have hx := hh x rfl
    cases he with
    | head => exact hx
    | tail _ he' =>
      have hlt : x.1.lt e.1 = true := (List.pairwise_cons.mp hs).1 e he'
      cases o with
      | none => rfl
      | some b =>
        simp only [optLe_some_some] at hx ⊢
        rw [LogId.not_le_iff_lt] at hx ⊢
        exact LogId.lt_trans hx hlt

theorem Cache.tryEvict_over_limit {c : Cache} (h : c.OK)
    (hover : c.tryEvict.items.length > c.maxItems ∨ c.tryEvict.size > c.capacity) :
    KeysGt c.tryEvict.items c.lastEvictable := by
  apply keysGt_of_head _ _ (Cache.tryEvict_ok h).sorted
  exact evictLoop_exit c.maxItems c.capacity c.lastEvictable c.size c.items hover

theorem Cache.drainEvictable_keysGt {c : Cache} (h : c.OK) :
    KeysGt c.drainEvictable.items c.lastEvictable := by
  apply keysGt_of_head _ _ (Cache.drainEvictable_ok h).sorted
  obtain ⟨_, _, _, _, h4⟩ := drainLoop_spec c.lastEvictable c.size c.items h.size_eq
  exact h4

end RaftLog
