/-
LIFT, part 6: whether the reference log accepts a list of ops depends only on its state
and on the KEYS (index, log id) of its entries — not on the payloads. So "the ops are legal
and accepted" can be stated for any reference log the system refines.

All names carry the suffix `_LIFT` / `LIFT`.
-/
import RaftLogModel.Proofs.Refine
namespace RaftLog

/-- Same state, same entry keys. -/
def RefKeysEqLIFT (r1 r2 : RefLog) : Prop :=
  r1.state = r2.state ∧ entKeys r1.entries = entKeys r2.entries

theorem RefKeysEqLIFT.fields {r1 r2 : RefLog} (h : RefKeysEqLIFT r1 r2) :
    r1.vote = r2.vote ∧ r1.last = r2.last ∧ r1.committed = r2.committed ∧ r1.purged = r2.purged ∧
      r1.userData = r2.userData := by
  have := h.1
  simp only [RefLog.state, RState.mk.injEq] at this
  exact this

theorem entKeys_find_LIFT (idx : Nat) : ∀ (es1 es2 : Items), entKeys es1 = entKeys es2 →
    (es1.find? (fun e => e.1.index = idx)).map (·.1) = (es2.find? (fun e => e.1.index = idx)).map (·.1) := by
  intro es1
  induction es1 with
  | nil =>
    intro es2 h
    cases es2 with
    | nil => rfl
    | cons b l => simp [entKeys] at h
  | cons a l ih =>
    intro es2 h
    cases es2 with
    | nil => simp [entKeys] at h
    | cons b l2 =>
      simp only [entKeys, List.map_cons, List.cons.injEq, Prod.mk.injEq] at h
      obtain ⟨⟨_, hab⟩, hl⟩ := h
      simp only [List.find?_cons]
      rw [hab]
      by_cases hb : b.1.index = idx
      · simp [hb, hab]
      · simp only [hb, decide_false]
        exact ih l2 hl

theorem entKeys_append_LIFT (a b : Items) : entKeys (a ++ b) = entKeys a ++ entKeys b := by
  simp [entKeys]

theorem append1_keys_LIFT {r1 r2 : RefLog} (h : RefKeysEqLIFT r1 r2) (id : LogId) (p1 p2 : Bytes) :
    (∃ a b, r1.append1 id p1 = .ok a ∧ r2.append1 id p2 = .ok b ∧ RefKeysEqLIFT a b) ∨
    (∃ k, r1.append1 id p1 = .error k ∧ r2.append1 id p2 = .error k) := by
  obtain ⟨e1, e2, e3, e4, e5⟩ := h.fields
  unfold RefLog.append1
  rw [← e2]
  by_cases hle : optLe (some id) r1.last = true
  · right; exact ⟨.logIdReversal, by simp [hle], by simp [hle]⟩
  · simp only [hle, Bool.false_eq_true, if_false]
    cases hl : r1.last with
    | none =>
      left
      refine ⟨_, _, rfl, rfl, ?_, ?_⟩
      · simp only [RefLog.state, e1, e3, e4, e5]
      · simp only [entKeys_append_LIFT, h.2]; rfl
    | some l =>
      simp only
      by_cases hne : l.index + 1 ≠ id.index
      · right; exact ⟨.nonConsecutive, by simp [hne], by simp [hne]⟩
      · left
        simp only [hne, if_false]
        refine ⟨_, _, rfl, rfl, ?_, ?_⟩
        · simp only [RefLog.state, e1, e3, e4, e5]
        · simp only [entKeys_append_LIFT, h.2]; rfl

theorem appendAll_keys_LIFT (es : List (LogId × Bytes)) : ∀ {r1 r2 : RefLog}, RefKeysEqLIFT r1 r2 →
    (∃ a b, r1.appendAll es = .ok a ∧ r2.appendAll es = .ok b ∧ RefKeysEqLIFT a b) ∨
    (∃ k, r1.appendAll es = .error k ∧ r2.appendAll es = .error k) := by
  induction es with
  | nil => intro r1 r2 h; exact Or.inl ⟨r1, r2, rfl, rfl, h⟩
  | cons e rest ih =>
    intro r1 r2 h
    obtain ⟨id, p⟩ := e
    simp only [RefLog.appendAll]
    rcases append1_keys_LIFT h id p p with ⟨a, b, ha, hb, hab⟩ | ⟨k, ha, hb⟩
    · rw [ha, hb]; exact ih hab
    · rw [ha, hb]; exact Or.inr ⟨k, rfl, rfl⟩

theorem truncateTo_keys_LIFT {r1 r2 : RefLog} (h : RefKeysEqLIFT r1 r2) (o : Option LogId) :
    RefKeysEqLIFT (r1.truncateTo o) (r2.truncateTo o) := by
  obtain ⟨e1, e2, e3, e4, e5⟩ := h.fields
  constructor
  · simp only [RefLog.truncateTo, RefLog.state, e1, e2, e3, e4, e5]
  · simp only [RefLog.truncateTo]
    have h1 := entKeys_filter (fun i => decide (i < nextIndex o)) r1.entries
    have h2 := entKeys_filter (fun i => decide (i < nextIndex o)) r2.entries
    rw [h.2] at h1
    exact h1.trans h2.symm

theorem entryAt_keys_LIFT {r1 r2 : RefLog} (h : RefKeysEqLIFT r1 r2) (idx : Nat) :
    (r1.entryAt idx).map (·.1) = (r2.entryAt idx).map (·.1) :=
  entKeys_find_LIFT idx _ _ h.2

theorem call_keys_LIFT {r1 r2 : RefLog} (h : RefKeysEqLIFT r1 r2) (op : Op) :
    (∃ a b, r1.call op = .ok a ∧ r2.call op = .ok b ∧ RefKeysEqLIFT a b) ∨
    (∃ k, r1.call op = .error k ∧ r2.call op = .error k) := by
  obtain ⟨e1, e2, e3, e4, e5⟩ := h.fields
  cases op with
  | saveVote v =>
    simp only [RefLog.call, ← e1]
    by_cases hv : optLe r1.vote (some v) = true
    · left
      simp only [hv, if_true]
      exact ⟨_, _, rfl, rfl, by simp only [RefLog.state, e2, e3, e4, e5], h.2⟩
    · right; simp only [hv, Bool.false_eq_true, if_false]; exact ⟨_, rfl, rfl⟩
  | commit id =>
    simp only [RefLog.call, ← e3]
    by_cases hv : optLt (some id) r1.committed = true
    · right; simp only [hv, if_true]; exact ⟨_, rfl, rfl⟩
    · left
      simp only [hv, Bool.false_eq_true, if_false]
      exact ⟨_, _, rfl, rfl, by simp only [RefLog.state, e1, e2, e4, e5], h.2⟩
  | saveUserData d =>
    left
    simp only [RefLog.call]
    exact ⟨_, _, rfl, rfl, by simp only [RefLog.state, e1, e2, e3, e4], h.2⟩
  | append es => exact appendAll_keys_LIFT es h
  | truncate idx =>
    simp only [RefLog.call, ← e4]
    by_cases h1 : idx = nextIndex r1.purged
    · left
      simp only [h1, if_true]
      exact ⟨_, _, rfl, rfl, truncateTo_keys_LIFT h _⟩
    · simp only [h1, if_false]
      by_cases h2 : idx = 0
      · right; simp only [h2, if_true]; exact ⟨_, rfl, rfl⟩
      · simp only [h2, if_false]
        have hk := entryAt_keys_LIFT h (idx - 1)
        cases ha : r1.entryAt (idx - 1) with
        | none =>
          rw [ha] at hk
          cases hb : r2.entryAt (idx - 1) with
          | none => right; exact ⟨_, rfl, rfl⟩
          | some b => rw [hb] at hk; cases hk
        | some a =>
          rw [ha] at hk
          cases hb : r2.entryAt (idx - 1) with
          | none => rw [hb] at hk; cases hk
          | some b =>
            rw [hb] at hk
            simp only [Option.map_some, Option.some.injEq] at hk
            left
            simp only
            rw [hk]
            exact ⟨_, _, rfl, rfl, truncateTo_keys_LIFT h _⟩
  | purge upto =>
    simp only [RefLog.call, ← e4]
    left
    by_cases h1 : upto.index < nextIndex r1.purged
    · simp only [h1, if_true]; exact ⟨_, _, rfl, rfl, h⟩
    · simp only [h1, if_false]
      refine ⟨_, _, rfl, rfl, ?_, ?_⟩
      · simp only [RefLog.state, e1, e2, e3, e4, e5]
      · have h1 := entKeys_filter (fun i => decide (upto.index < i)) r1.entries
        have h2 := entKeys_filter (fun i => decide (upto.index < i)) r2.entries
        rw [h.2] at h1
        exact h1.trans h2.symm

theorem legal_keys_LIFT {r1 r2 : RefLog} (h : RefKeysEqLIFT r1 r2) (op : Op) :
    r1.legal op = r2.legal op := by
  obtain ⟨e1, e2, e3, e4, e5⟩ := h.fields
  cases op with
  | purge upto =>
    simp only [RefLog.legal, ← e4, ← e2]
    have hk := entryAt_keys_LIFT h upto.index
    cases ha : r1.entryAt upto.index with
    | none =>
      rw [ha] at hk
      cases hb : r2.entryAt upto.index with
      | none => rfl
      | some b => rw [hb] at hk; cases hk
    | some a =>
      rw [ha] at hk
      cases hb : r2.entryAt upto.index with
      | none => rw [hb] at hk; cases hk
      | some b =>
        rw [hb] at hk
        simp only [Option.map_some, Option.some.injEq] at hk
        simp only [hk]
  | saveVote v =>
    simp only [RefLog.legal]
    rcases call_keys_LIFT h (.saveVote v) with ⟨a, b, ha, hb, _⟩ | ⟨k, ha, hb⟩ <;> rw [ha, hb]
  | commit id =>
    simp only [RefLog.legal]
    rcases call_keys_LIFT h (.commit id) with ⟨a, b, ha, hb, _⟩ | ⟨k, ha, hb⟩ <;> rw [ha, hb]
  | saveUserData d =>
    simp only [RefLog.legal]
    rcases call_keys_LIFT h (.saveUserData d) with ⟨a, b, ha, hb, _⟩ | ⟨k, ha, hb⟩ <;> rw [ha, hb]
  | append es =>
    simp only [RefLog.legal]
    rcases call_keys_LIFT h (.append es) with ⟨a, b, ha, hb, _⟩ | ⟨k, ha, hb⟩ <;> rw [ha, hb]
  | truncate idx =>
    simp only [RefLog.legal]
    rcases call_keys_LIFT h (.truncate idx) with ⟨a, b, ha, hb, _⟩ | ⟨k, ha, hb⟩ <;> rw [ha, hb]

/-- **Acceptance depends only on state and entry keys.** -/
theorem run_keys_LIFT (ops : List Op) : ∀ {r1 r2 : RefLog}, RefKeysEqLIFT r1 r2 →
    ∀ r1', r1.run ops = some r1' → ∃ r2', r2.run ops = some r2' ∧ RefKeysEqLIFT r1' r2' := by
  induction ops with
  | nil =>
    intro r1 r2 h r1' hr
    simp only [RefLog.run, Option.some.injEq] at hr
    subst hr
    exact ⟨r2, rfl, h⟩
  | cons op rest ih =>
    intro r1 r2 h r1' hr
    simp only [RefLog.run] at hr ⊢
    rw [← legal_keys_LIFT h op]
    by_cases hl : r1.legal op = true
    · simp only [hl, if_true] at hr ⊢
      rcases call_keys_LIFT h op with ⟨a, b, ha, hb, hab⟩ | ⟨k, ha, hb⟩
      · rw [ha] at hr; rw [hb]
        exact ih hab r1' hr
      · rw [ha] at hr; cases hr
    · simp only [hl, Bool.false_eq_true, if_false] at hr
      cases hr

end RaftLog
