/-
Event projections of worker steps and runs: acknowledgements come out in
callback-queue order, each at most once; unlinks come out in list order.
-/
import RaftLogModel.Proofs.WorkerTerm
namespace RaftLog

/-! ## Projections -/

@[simp] theorem cbsOf_nil : cbsOf [] = [] := rfl
@[simp] theorem cbsOf_append (a b : List Ev) : cbsOf (a ++ b) = cbsOf a ++ cbsOf b := by
  simp [cbsOf]
@[simp] theorem unlinksOf_nil : unlinksOf [] = [] := rfl
@[simp] theorem unlinksOf_append (a b : List Ev) : unlinksOf (a ++ b) = unlinksOf a ++ unlinksOf b := by
  simp [unlinksOf]

@[simp] theorem cbsOf_cbEvs (l : List (Nat × Bool)) : cbsOf (cbEvs l) = l := by
  induction l with
  | nil => rfl
  | cons p l ih =>
    simp only [cbEvs, List.map_cons, cbsOf, List.filterMap_cons] at *
    rw [ih]
@[simp] theorem unlinksOf_cbEvs (l : List (Nat × Bool)) : unlinksOf (cbEvs l) = [] := by
  induction l with
  | nil => rfl
  | cons p l ih =>
    simp only [cbEvs, List.map_cons, unlinksOf, List.filterMap_cons] at *
    rw [ih]

theorem cbsOf_misc (l : List Ev) (h : ∀ e ∈ l, e.isMisc = true) : cbsOf l = [] := by
  apply filterMap_eq_nil_of_forall
  intro e he
  have := h e he
  cases e <;> simp_all [Ev.isMisc]

theorem unlinksOf_misc (l : List Ev) (h : ∀ e ∈ l, e.isMisc = true) : unlinksOf l = [] := by
  apply filterMap_eq_nil_of_forall
  intro e he
  have := h e he
  cases e <;> simp_all [Ev.isMisc]

theorem mem_cbsOf {evs : List Ev} {i : Nat} {ok : Bool} : (i, ok) ∈ cbsOf evs ↔ Ev.cb i ok ∈ evs := by
  simp only [cbsOf, List.mem_filterMap]
  constructor
  · rintro ⟨e, he, h⟩
    cases e <;> simp_all
  · intro h; exact ⟨_, h, rfl⟩

theorem mem_unlinksOf {evs : List Ev} {i : Nat} {ok : Bool} :
    (i, ok) ∈ unlinksOf evs ↔ ∃ t, Ev.unlink t i ok ∈ evs := by
  simp only [unlinksOf, List.mem_filterMap]
  constructor
  · rintro ⟨e, he, h⟩
    cases e <;> simp_all
    exact ⟨_, he⟩
  · rintro ⟨t, h⟩; exact ⟨_, h, rfl⟩

/-- The unlink of a step. -/
def stepUnlinks (c : WCtx) (out : Outcome) : List (Nat × Bool) :=
  match c.w.pc with
  | .unlinking (i :: _) => [(i, out != .eio)]
  | _ => []

theorem cbsOf_stepSys (c : WCtx) (out : Outcome) : cbsOf (stepSys c out) = [] := by
  unfold stepSys
  repeat' (first | rfl | split | dsimp only)

theorem unlinksOf_stepSys (c : WCtx) (out : Outcome) : unlinksOf (stepSys c out) = stepUnlinks c out := by
  cases hpc : c.w.pc with
  | unlinking ids => cases ids <;> simp [stepSys, stepUnlinks, hpc, unlinksOf]
  | writing todo b t =>
    cases todo with
    | nil => simp [stepSys, stepUnlinks, hpc]
    | cons d rest =>
      simp only [stepSys, stepUnlinks, hpc]
      repeat' (first | rfl | split | dsimp only)
  | syncOld b t =>
    simp only [stepSys, stepUnlinks, hpc]
    repeat' (first | rfl | split | dsimp only)
  | syncNew b t =>
    simp only [stepSys, stepUnlinks, hpc]
    repeat' (first | rfl | split | dsimp only)
  | _ => simp [stepSys, stepUnlinks, hpc]

/-- The acknowledgements one step emits, exactly. -/
theorem WCtx.step_cbsOf (c : WCtx) (out : Outcome) (hw : c.w.WF) :
    cbsOf (c.step out).evs = cbsOf c.evs ++ stepCbs c out := by
  obtain ⟨cbs, rest, h1, h2, h3⟩ := c.step_evs out
  rw [h1, h3 hw]
  simp [cbsOf_stepSys, cbsOf_misc rest h2]

/-- The unlinks one step performs, exactly. -/
theorem WCtx.step_unlinksOf (c : WCtx) (out : Outcome) :
    unlinksOf (c.step out).evs = unlinksOf c.evs ++ stepUnlinks c out := by
  obtain ⟨cbs, rest, h1, h2, _⟩ := c.step_evs out
  rw [h1]
  simp [unlinksOf_stepSys, unlinksOf_misc rest h2]

/-! ## Runs with arbitrary outcomes -/

@[simp] theorem WCtx.runOuts_nil (c : WCtx) : c.runOuts [] = c := rfl
@[simp] theorem WCtx.runOuts_cons (c : WCtx) (o : Outcome) (outs : List Outcome) :
    c.runOuts (o :: outs) = (c.step o).runOuts outs := rfl

theorem WCtx.runOuts_dead (c : WCtx) (outs : List Outcome) (h : c.w.pc = .dead) : c.runOuts outs = c := by
  induction outs with
  | nil => rfl
  | cons o outs ih => rw [WCtx.runOuts_cons, c.step_deadW o h, ih]

theorem WCtx.runOuts_wf (c : WCtx) (outs : List Outcome) (h : c.w.WF) : (c.runOuts outs).w.WF := by
  induction outs generalizing c with
  | nil => exact h
  | cons o outs ih => exact ih _ (c.step_wf o h)

theorem stepCbs_of_dies {c : WCtx} {out : Outcome} (h : c.dies out = true) : stepCbs c out = [] := by
  obtain ⟨_, ⟨d, rest, b, t, hpc⟩ | ⟨i, rest, hpc⟩⟩ := WCtx.dies_cases h <;> simp [stepCbs, hpc]

/-- Over any run, the acknowledgements emitted (positive or negative) are, in
order, a prefix of the callback queue at the start. -/
theorem WCtx.runOuts_cbs_prefix (c : WCtx) (outs : List Outcome) (hw : c.w.WF) :
    ∃ l, cbsOf (c.runOuts outs).evs = cbsOf c.evs ++ l ∧ l.map Prod.fst <+: cbQueue c.w := by
  induction outs generalizing c with
  | nil => exact ⟨[], by simp, List.nil_prefix⟩
  | cons o outs ih =>
    rw [WCtx.runOuts_cons]
    cases hd : c.dies o with
    | true =>
      rw [WCtx.runOuts_dead _ _ (by rw [(c.step_dies o hd).1])]
      exact ⟨[], by rw [c.step_cbsOf o hw, stepCbs_of_dies hd], List.nil_prefix⟩
    | false =>
      obtain ⟨l, h1, h2⟩ := ih (c.step o) (c.step_wf o hw)
      refine ⟨stepCbs c o ++ l, by rw [h1, c.step_cbsOf o hw, List.append_assoc], ?_⟩
      rw [c.step_cbQueue o hw hd, List.map_append]
      exact (List.prefix_append_right_inj _).mpr h2

/-! ## The all-ok run -/

theorem WCtx.dies_ok (c : WCtx) : c.dies .ok = false := by
  cases h : c.dies .ok with
  | false => rfl
  | true => have := (WCtx.dies_cases h).1; cases this

theorem stepCbs_ok_true (c : WCtx) : ∀ p ∈ stepCbs c .ok, p.2 = true := by
  intro p hp
  unfold stepCbs at hp
  split at hp
  · simp [batchCbs] at hp; obtain ⟨_, _, rfl⟩ := hp; rfl
  · simp at hp
  · cases hp

theorem cbQueue_of_quiet {w : Worker} (hw : w.WF) (hq : w.quiet = true) : cbQueue w = [] := by
  unfold Worker.quiet at hq
  cases hpc : w.pc with
  | idle =>
    rw [hpc] at hq
    simp only [List.isEmpty_iff] at hq
    simp [cbQueue, hpc, WPc.batch, hq]
  | dead =>
    simp only [Worker.WF, hpc] at hw
    simp [cbQueue, hpc, WPc.batch, hw]
  | _ => simp [hpc] at hq

theorem WCtx.runQuiet_cbs (n : Nat) (c : WCtx) (hw : c.w.WF) :
    ∃ l, cbsOf (WCtx.runQuiet n c).evs = cbsOf c.evs ++ l ∧
      l.map Prod.fst ++ cbQueue (WCtx.runQuiet n c).w = cbQueue c.w ∧ ∀ p ∈ l, p.2 = true := by
  induction n generalizing c with
  | zero => exact ⟨[], by simp [WCtx.runQuiet], by simp [WCtx.runQuiet], by simp⟩
  | succ n ih =>
    cases hq : c.w.quiet with
    | true => rw [WCtx.runQuiet_of_quiet _ _ hq]; exact ⟨[], by simp, by simp, by simp⟩
    | false =>
      rw [WCtx.runQuiet_succ_of_not_quiet _ _ hq]
      obtain ⟨l, h1, h2, h3⟩ := ih (c.step .ok) (c.step_wf .ok hw)
      refine ⟨stepCbs c .ok ++ l, by rw [h1, c.step_cbsOf .ok hw, List.append_assoc], ?_, ?_⟩
      · rw [c.step_cbQueue .ok hw c.dies_ok, List.map_append, List.append_assoc, h2]
      · intro p hp
        rcases List.mem_append.mp hp with hp | hp
        · exact stepCbs_ok_true c p hp
        · exact h3 p hp

theorem map_fst_all_true {l : List (Nat × Bool)} (h : ∀ p ∈ l, p.2 = true) :
    l = (l.map Prod.fst).map fun i => (i, true) := by
  induction l with
  | nil => rfl
  | cons p l ih =>
    have h1 := h p (by simp)
    have h2 := ih (fun q hq => h q (by simp [hq]))
    obtain ⟨i, ok⟩ := p
    simp only at h1
    subst h1
    simp only [List.map_cons]
    rw [← h2]

theorem WCtx.runQuiet_wf (n : Nat) (c : WCtx) (hw : c.w.WF) : (WCtx.runQuiet n c).w.WF :=
  WCtx.runQuiet_induct (P := fun c => c.w.WF) (fun c hc _ => c.step_wf .ok hc) n c hw

/-- With no fault, every queued callback is acknowledged positively, exactly
once, in request order. -/
theorem WCtx.runQuiet_cbs_exact (n : Nat) (c : WCtx) (hw : c.w.WF) (hn : c.w.drainCost ≤ n) :
    cbsOf (WCtx.runQuiet n c).evs = cbsOf c.evs ++ (cbQueue c.w).map fun i => (i, true) := by
  obtain ⟨l, h1, h2, h3⟩ := WCtx.runQuiet_cbs n c hw
  rw [cbQueue_of_quiet (WCtx.runQuiet_wf n c hw) (WCtx.runQuiet_quiet n c hn), List.append_nil] at h2
  rw [h1, ← h2, ← map_fst_all_true h3]

/-! ## Unlink order -/

theorem stepUnlinks_of_not_unlinking {c : WCtx} {out : Outcome} (h : ∀ ids, c.w.pc ≠ .unlinking ids) :
    stepUnlinks c out = [] := by
  unfold stepUnlinks
  split
  · rename_i i rest hpc; exact absurd hpc (h _)
  · rfl

/-- Once a removal has started, the ids are unlinked in list order (as long as
no unlink fails). -/
theorem WCtx.runOuts_unlinking (c : WCtx) (ids : List Nat) (outs : List Outcome)
    (hpc : c.w.pc = .unlinking ids) (hlen : outs.length = ids.length) (hok : ∀ o ∈ outs, o ≠ .eio) :
    unlinksOf (c.runOuts outs).evs = unlinksOf c.evs ++ ids.map fun i => (i, true) := by
  induction ids generalizing c outs with
  | nil =>
    cases outs with
    | nil => simp
    | cons _ _ => simp at hlen
  | cons i rest ih =>
    cases outs with
    | nil => simp at hlen
    | cons o outs =>
      have ho : o ≠ .eio := hok o (by simp)
      have ho' : (o != Outcome.eio) = true := by simpa using ho
      rw [WCtx.runOuts_cons]
      have hstep : unlinksOf (c.step o).evs = unlinksOf c.evs ++ [(i, true)] := by
        rw [c.step_unlinksOf o]; simp [stepUnlinks, hpc, ho']
      cases rest with
      | nil =>
        have : outs = [] := by simpa using hlen
        subst this
        simp [hstep]
      | cons j rest =>
        have hpc' : (c.step o).w.pc = .unlinking (j :: rest) := by
          cases o with
          | eio => exact absurd rfl ho
          | ok => simp [WCtx.step, hpc, WCtx.emit]
          | short k => simp [WCtx.step, hpc, WCtx.emit]
        rw [ih (c.step o) outs hpc' (by simpa using hlen) (fun o' h' => hok o' (by simp [h'])), hstep]
        simp

end RaftLog
