/-
D14 — the removal postponed by a failed sync is retried after every batch
(`WCtx.finishBatch`). What this makes true:

(a) `PostponedOnlyAfterFailedSyncD14`: at every reachable worker state (every park point,
    `unlinking` included), `postponed ≠ [] → lastSyncFailed = true`. It needs the shape fact
    that the request that ended a batch is not a write (`WPc.tailNotWriteD14`; established by
    `collectBatch`), so both are carried together. Invariant of every worker step (any
    outcome), of the caller thread (`applyEffs`, `settle`), of `workerIdle`; established by
    `open`: `SysPostD14.run` along every history from `Sys.fresh`.
(b) `Worker.willSyncD14`: a write request is in hand or queued. An all-ok run from such a
    state, or from a state whose last sync did not fail, ends with `lastSyncFailed = false`
    and nothing postponed (`WCtx.runQuiet_cleanD14`, `Sys.workerIdle_cleanD14`).
-/
import RaftLogModel.Proofs.BusyDropSys
namespace RaftLog

/-! ### (a) The invariant -/

/-- The request that ended the batch in hand is not a write. -/
def WPc.tailNotWriteD14 : WPc → Prop
  | .writing _ _ t => ∀ r, t = some r → r.isWrite = false
  | .syncOld _ t => ∀ r, t = some r → r.isWrite = false
  | .syncNew _ t => ∀ r, t = some r → r.isWrite = false
  | _ => True

/-- **(a)** Chunk removals are postponed only while the last sync has failed: as soon as a
batch syncs fine, the postponed removals are started. -/
structure PostponedOnlyAfterFailedSyncD14 (w : Worker) : Prop where
  tail : w.pc.tailNotWriteD14
  post : w.postponed ≠ [] → w.lastSyncFailed = true

theorem WPc.isRest.tailNotWriteD14 {pc : WPc} (h : pc.isRest) : pc.tailNotWriteD14 := by
  cases pc <;> first | trivial | cases h

/-- A removal request handled while the last sync is good leaves nothing postponed. -/
theorem WCtx.nonFlush_removeChunks_goodD14 (c : WCtx) (ids : List Nat) (hl : c.w.lastSyncFailed = false) :
    (c.nonFlush (.removeChunks ids)).w.postponed = [] := by
  cases hall : c.w.postponed ++ ids with
  | nil =>
    have e : c.nonFlush (.removeChunks ids) = c.toRecv := by simp [WCtx.nonFlush, hl, hall]
    rw [e, WCtx.toRecv_postponed]
    exact (List.append_eq_nil_iff.mp hall).1
  | cons i rest =>
    have e : c.nonFlush (.removeChunks ids) =
        { c with w := { c.w with pc := .unlinking (i :: rest), postponed := [] } } := by
      simp [WCtx.nonFlush, hl, hall]
    rw [e]

theorem tailReq_of_notWriteD14 {t : Option WReq} (ht : ∀ r, t = some r → r.isWrite = false) :
    tailReq t = .removeChunks (tailIds t) := by
  cases t with
  | none => rfl
  | some r =>
    cases r with
    | write u d cb => exact absurd (ht _ rfl) (by simp [WReq.isWrite])
    | appendFile n p => rfl
    | removeChunks ids => rfl

/-- **The point of the change**: a batch whose sync succeeded leaves nothing postponed,
whatever its trailing request is. -/
theorem WCtx.finishBatch_good_postponedD14 (c : WCtx) (b : List WReq) (t : Option WReq)
    (ht : ∀ r, t = some r → r.isWrite = false) : (c.finishBatch b t true).w.postponed = [] := by
  rw [WCtx.finishBatch_eq, tailReq_of_notWriteD14 ht]
  exact WCtx.nonFlush_removeChunks_goodD14 _ _ (by simp)

theorem WCtx.toRecv_postD14 (c : WCtx) (h : c.w.postponed ≠ [] → c.w.lastSyncFailed = true) :
    PostponedOnlyAfterFailedSyncD14 c.toRecv.w :=
  ⟨c.toRecv_pc.1.isRest.tailNotWriteD14, by simpa using h⟩

theorem WCtx.nonFlush_postD14 (c : WCtx) (r : WReq) (h : c.w.postponed ≠ [] → c.w.lastSyncFailed = true) :
    PostponedOnlyAfterFailedSyncD14 (c.nonFlush r).w := by
  refine ⟨(c.nonFlush_pc r).1.tailNotWriteD14, ?_⟩
  rw [WCtx.nonFlush_lsf]
  rcases c.nonFlush_postponed r with k | ⟨ids, _, hl, _⟩ | ⟨ids, _, _, _, k⟩
  · rw [k]; exact h
  · exact fun _ => hl
  · intro hne; exact absurd k hne

theorem WCtx.finishBatch_postD14 (c : WCtx) (b : List WReq) (t : Option WReq) (ok : Bool)
    (ht : ∀ r, t = some r → r.isWrite = false) :
    PostponedOnlyAfterFailedSyncD14 (c.finishBatch b t ok).w := by
  refine ⟨(c.finishBatch_pc b t ok).1.tailNotWriteD14, ?_⟩
  rw [WCtx.finishBatch_lsf]
  cases ok with
  | false => exact fun _ => rfl
  | true => intro hne; exact absurd (c.finishBatch_good_postponedD14 b t ht) hne

theorem WCtx.startSync_postD14 (c : WCtx) (b : List WReq) (t : Option WReq)
    (ht : ∀ r, t = some r → r.isWrite = false) (h : c.w.postponed ≠ [] → c.w.lastSyncFailed = true) :
    PostponedOnlyAfterFailedSyncD14 (c.startSync b t).w := by
  rcases c.startSync_cases b t with ⟨_, e⟩ | ⟨f, _, e⟩ | ⟨_, e⟩ <;> rw [e]
  · exact c.finishBatch_postD14 b t true ht
  · exact ⟨ht, h⟩
  · exact ⟨ht, h⟩

theorem WCtx.startWrites_postD14 (c : WCtx) (b : List WReq) (t : Option WReq)
    (ht : ∀ r, t = some r → r.isWrite = false) (h : c.w.postponed ≠ [] → c.w.lastSyncFailed = true) :
    PostponedOnlyAfterFailedSyncD14 (c.startWrites b t).w := by
  rcases c.startWrites_cases b t with ⟨_, e⟩ | ⟨_, e⟩ <;> rw [e]
  · exact c.startSync_postD14 b t ht h
  · exact ⟨ht, h⟩

theorem WPc.tailNotWriteD14.of_writing {pc : WPc} {todo : List Bytes} {b : List WReq} {t : Option WReq}
    (h : pc.tailNotWriteD14) (e : pc = .writing todo b t) : ∀ r, t = some r → r.isWrite = false := by
  subst e; exact h
theorem WPc.tailNotWriteD14.of_syncOld {pc : WPc} {b : List WReq} {t : Option WReq}
    (h : pc.tailNotWriteD14) (e : pc = .syncOld b t) : ∀ r, t = some r → r.isWrite = false := by
  subst e; exact h
theorem WPc.tailNotWriteD14.of_syncNew {pc : WPc} {b : List WReq} {t : Option WReq}
    (h : pc.tailNotWriteD14) (e : pc = .syncNew b t) : ∀ r, t = some r → r.isWrite = false := by
  subst e; exact h

/-- **(a), one worker step, any outcome.** -/
theorem WCtx.step_postD14 (c : WCtx) (out : Outcome) (h : PostponedOnlyAfterFailedSyncD14 c.w) :
    PostponedOnlyAfterFailedSyncD14 (c.step out).w := by
  have hp := h.post
  apply c.step_elim (P := fun c' => PostponedOnlyAfterFailedSyncD14 c'.w) out
  · intro _ _; exact h
  · intro _ _; exact c.toRecv_postD14 hp
  · intro r _ _ _
    exact WCtx.startWrites_postD14 _ _ _ (collectBatch_specW 1024 c.w.queue).2.2 hp
  · intro r _ _ _; exact c.nonFlush_postD14 r hp
  · intro b t hpc _; exact c.startSync_postD14 b t (h.tail.of_writing hpc) hp
  · intro d rest b t _ _ _; exact ⟨by simp [WPc.tailNotWriteD14], by simpa using hp⟩
  · intro d rest b t k hpc _ _ _ _; exact ⟨h.tail.of_writing hpc, hp⟩
  · intro d b t hpc _ _; exact WCtx.startSync_postD14 _ b t (h.tail.of_writing hpc) hp
  · intro d d' rest b t hpc _ _; exact ⟨h.tail.of_writing hpc, hp⟩
  · intro b t hpc _ _; exact c.finishBatch_postD14 b t true (h.tail.of_syncOld hpc)
  · intro b t f rest hpc _ _ _; exact WCtx.finishBatch_postD14 _ b t false (h.tail.of_syncOld hpc)
  · intro b t f rest hpc _ _ _; exact WCtx.startSync_postD14 _ b t (h.tail.of_syncOld hpc) hp
  · intro b t hpc _ _; exact c.finishBatch_postD14 b t true (h.tail.of_syncNew hpc)
  · intro b t f rest hpc _ _ _; exact WCtx.finishBatch_postD14 _ b t false (h.tail.of_syncNew hpc)
  · intro b t f rest hpc _ _ _; exact WCtx.finishBatch_postD14 _ b t true (h.tail.of_syncNew hpc)
  · intro _ _; exact c.toRecv_postD14 hp
  · intro i rest _ _ _; exact ⟨by simp [WPc.tailNotWriteD14], by simpa using hp⟩
  · intro i _ _ _; exact WCtx.toRecv_postD14 _ hp
  · intro i j rest _ _ _; exact ⟨by simp [WPc.tailNotWriteD14], hp⟩

theorem WCtx.runQuiet_postD14 (n : Nat) (c : WCtx) (h : PostponedOnlyAfterFailedSyncD14 c.w) :
    PostponedOnlyAfterFailedSyncD14 (WCtx.runQuiet n c).w :=
  WCtx.runQuiet_induct (P := fun c => PostponedOnlyAfterFailedSyncD14 c.w)
    (fun c hc _ => c.step_postD14 .ok hc) n c h

/-! #### The caller thread -/

theorem applyEffs_frameD14 (effs : List Eff) : ∀ (fs : Fs) (w : Worker) (evs : List Ev),
    (applyEffs effs fs w evs).2.2.1.pc = w.pc ∧
    (applyEffs effs fs w evs).2.2.1.lastSyncFailed = w.lastSyncFailed ∧
    (applyEffs effs fs w evs).2.2.1.postponed = w.postponed := by
  induction effs with
  | nil => intro fs w evs; exact ⟨rfl, rfl, rfl⟩
  | cons e rest ih =>
    intro fs w evs
    cases e with
    | create id => simp only [applyEffs]; exact ih _ _ _
    | createFailed id => simp only [applyEffs]; exact ih _ _ _
    | writeHead id bs => simp only [applyEffs]; exact ih _ _ _
    | send q =>
      simp only [applyEffs]
      split
      · exact ⟨rfl, rfl, rfl⟩
      · exact ih _ _ _

theorem PostponedOnlyAfterFailedSyncD14.applyEffs {w : Worker} (h : PostponedOnlyAfterFailedSyncD14 w)
    (effs : List Eff) (fs : Fs) (evs : List Ev) :
    PostponedOnlyAfterFailedSyncD14 (applyEffs effs fs w evs).2.2.1 := by
  obtain ⟨k1, k2, k3⟩ := applyEffs_frameD14 effs fs w evs
  exact ⟨by rw [k1]; exact h.tail, by rw [k2, k3]; exact h.post⟩

theorem PostponedOnlyAfterFailedSyncD14.settle {w : Worker} (h : PostponedOnlyAfterFailedSyncD14 w) :
    PostponedOnlyAfterFailedSyncD14 w.settle := by
  rcases w.settle_cases with ⟨r, q, _, _, e⟩ | e <;> rw [e]
  · exact ⟨trivial, h.post⟩
  · exact h

/-! #### System level -/

/-- **(a) at system level**: the worker of an open store satisfies the invariant. -/
def SysPostD14 (y : Sys) : Prop := y.store ≠ none → PostponedOnlyAfterFailedSyncD14 y.worker

theorem SysPostD14.step {y : Sys} (h : SysPostD14 y) (st : Step) : SysPostD14 (y.step st) := by
  cases st with
  | call op =>
    simp only [Sys.step, Sys.call]
    cases hs : y.store with
    | none => simpa [hs] using h
    | some s => intro _; exact ((h (by simp [hs])).applyEffs _ _ _).settle
  | flush cb =>
    simp only [Sys.step, Sys.flush]
    cases hs : y.store with
    | none => simpa [hs] using h
    | some s => intro _; exact ((h (by simp [hs])).applyEffs _ _ _).settle
  | worker out =>
    simp only [Sys.step, Sys.workerStep]
    cases hs : y.store with
    | none => simpa [hs] using h
    | some s => intro _; exact WCtx.step_postD14 _ out (h (by simp [hs]))
  | workerIdle =>
    simp only [Sys.step, Sys.workerIdle]
    cases hs : y.store with
    | none => simpa [hs] using h
    | some s => intro _; exact WCtx.runQuiet_postD14 _ _ (h (by simp [hs]))
  | drain =>
    simp only [Sys.step, Sys.drain]
    cases hs : y.store with
    | none => simpa [hs] using h
    | some s => intro _; exact h (by simp [hs])
  | drop =>
    simp only [Sys.step]
    cases hs : y.store with
    | none => rw [show y.dropStore = (y, []) by simp [Sys.dropStore, hs]]; exact h
    | some s => rw [y.dropStore_eq s hs]; intro h0; exact absurd rfl h0
  | openWith cfg =>
    simp only [Sys.step, Sys.open]
    by_cases hl : y.locked = true
    · simp only [hl, if_true]; exact h
    · simp only [hl, Bool.false_eq_true, if_false]
      split
      · rename_i s w fs' evs ho
        obtain ⟨e, rfl⟩ := openStore_worker ho
        intro _
        exact ⟨trivial, fun hne => absurd rfl hne⟩
      · exact h
      · exact h

theorem SysPostD14.fresh (cfg : Cfg) : SysPostD14 (Sys.fresh cfg) := by
  have : SysPostD14 ({ cfg := cfg } : Sys) := fun h => absurd rfl h
  exact this.step (.openWith cfg)

theorem SysPostD14.run {y : Sys} (h : SysPostD14 y) (steps : List Step) : SysPostD14 (y.run steps) := by
  induction steps generalizing y with
  | nil => exact h
  | cons st rest ih => exact ih (h.step st)

/-! ### (b) An all-ok run that syncs a batch ends with nothing postponed -/

/-- The control state will finish a batch (with a sync). -/
def WPc.syncsD14 : WPc → Prop
  | .got r => r.isWrite = true
  | .writing _ _ _ => True
  | .syncOld _ _ => True
  | .syncNew _ _ => True
  | _ => False

/-- A write request is in hand or queued: the worker will sync (again) before it is quiet. -/
def Worker.willSyncD14 (w : Worker) : Prop := w.pc.syncsD14 ∨ ∃ r ∈ w.queue, r.isWrite = true

instance (pc : WPc) : Decidable pc.syncsD14 := by
  unfold WPc.syncsD14
  split <;> infer_instance

instance (w : Worker) : Decidable w.willSyncD14 := by
  unfold Worker.willSyncD14
  infer_instance

theorem WCtx.toRecv_willSyncD14 (c : WCtx) (h : ∃ r ∈ c.w.queue, r.isWrite = true) :
    c.toRecv.w.willSyncD14 := by
  obtain ⟨r, hr, hw⟩ := h
  rcases c.toRecv_cases with ⟨r0, q, hq, e⟩ | ⟨hq, _, _⟩ | ⟨hq, _, _⟩
  · rw [e]
    rw [hq] at hr
    rcases List.mem_cons.mp hr with k | k
    · subst k; exact .inl hw
    · exact .inr ⟨r, k, hw⟩
  · rw [hq] at hr; cases hr
  · rw [hq] at hr; cases hr

theorem WCtx.nonFlush_willSyncD14 (c : WCtx) (r0 : WReq) (h : ∃ r ∈ c.w.queue, r.isWrite = true) :
    (c.nonFlush r0).w.willSyncD14 := by
  rcases c.nonFlush_cases r0 with ⟨c0, e, _, _, hq, _⟩ | ⟨ids, _, _, _, e⟩ <;> rw [e]
  · exact c0.toRecv_willSyncD14 (by rw [hq]; exact h)
  · exact .inr h

theorem Worker.willSyncD14.of_pc {w : Worker} {pc : WPc} (e : w.pc = pc) (h : pc.syncsD14) :
    w.willSyncD14 := .inl (by rw [e]; exact h)

theorem Worker.willSyncD14.queue_of_not {w : Worker} (h : w.willSyncD14) (hn : ¬ w.pc.syncsD14) :
    ∃ r ∈ w.queue, r.isWrite = true := h.resolve_left hn

/-- One all-ok step from a state that will sync: it still will, or it has just synced a batch —
then the last sync is good and nothing is postponed. -/
theorem WCtx.step_ok_willSyncD14 (c : WCtx) (hw : c.w.WF) (hp : PostponedOnlyAfterFailedSyncD14 c.w)
    (h : c.w.willSyncD14) :
    (c.step .ok).w.willSyncD14 ∨
      ((c.step .ok).w.lastSyncFailed = false ∧ (c.step .ok).w.postponed = []) := by
  apply c.step_elim (P := fun c' => c'.w.willSyncD14 ∨ (c'.w.lastSyncFailed = false ∧ c'.w.postponed = [])) .ok
  · intro _ _; exact .inl h
  · intro hpc _
    exact .inl (c.toRecv_willSyncD14 (h.queue_of_not (by rw [hpc]; exact id)))
  · intro r hpc _ _
    obtain ⟨pc, e, k⟩ := WCtx.startWrites_frame (c.setQueue (collectBatch 1024 c.w.queue).2.2)
      (r :: (collectBatch 1024 c.w.queue).1) (collectBatch 1024 c.w.queue).2.1
      (by simpa using hw.files_ne (by simp [hpc]))
    left
    rw [e]
    rcases k with k | k | k <;> exact .of_pc rfl (by rw [k]; trivial)
  · intro r hpc hr _
    exact .inl (c.nonFlush_willSyncD14 r (h.queue_of_not (by rw [hpc]; simp [WPc.syncsD14, hr])))
  · intro b t hpc _
    obtain ⟨pc, e, k⟩ := c.startSync_frame b t (hw.files_ne (by simp [hpc]))
    left; rw [e]
    rcases k with k | k <;> exact .of_pc rfl (by rw [k]; trivial)
  · intro d rest b t _ ho _; cases ho
  · intro d rest b t k _ ho _ _ _; obtain ⟨k0, ho⟩ := ho; cases ho
  · intro d b t hpc _ _
    obtain ⟨pc, e, k⟩ := WCtx.startSync_frame (c.wrote (newestId c.w.files) d) b t
      (by simpa using hw.files_ne (by simp [hpc]))
    left; rw [e]
    rcases k with k | k <;> exact .of_pc rfl (by rw [k]; trivial)
  · intro d d' rest b t _ _ _; exact .inl (.of_pc rfl trivial)
  · intro b t hpc hf _; exact absurd hf (hw.files_ne (by simp [hpc]))
  · intro b t f rest _ _ ho _; cases ho
  · intro b t f rest hpc hf _ _
    have : rest ≠ [] := by
      simp only [Worker.WF, hpc, hf, List.length_cons] at hw
      intro h0; rw [h0] at hw; simp at hw
    obtain ⟨pc, e, k⟩ := WCtx.startSync_frame ((c.setFiles rest).synced f.id) b t (by simpa using this)
    left; rw [e]
    rcases k with k | k <;> exact .of_pc rfl (by rw [k]; trivial)
  · intro b t hpc hf _; exact absurd hf (hw.files_ne (by simp [hpc]))
  · intro b t f rest _ _ ho _; cases ho
  · intro b t f rest hpc _ _ _
    exact .inr ⟨by simp, WCtx.finishBatch_good_postponedD14 _ b t (hp.tail.of_syncNew hpc)⟩
  · intro hpc _
    exact .inl (c.toRecv_willSyncD14 (h.queue_of_not (by rw [hpc]; exact id)))
  · intro i rest _ ho _; cases ho
  · intro i hpc _ _
    exact .inl (WCtx.toRecv_willSyncD14 _ (h.queue_of_not (by rw [hpc]; exact id)))
  · intro i j rest hpc _ _
    exact .inl (.inr (h.queue_of_not (by rw [hpc]; exact id)))

/-- "Will sync, or the last sync is good and nothing is postponed" is kept by all-ok steps. -/
theorem WCtx.step_ok_syncOrCleanD14 (c : WCtx) (hw : c.w.WF) (hp : PostponedOnlyAfterFailedSyncD14 c.w)
    (h : c.w.willSyncD14 ∨ (c.w.lastSyncFailed = false ∧ c.w.postponed = [])) :
    (c.step .ok).w.willSyncD14 ∨
      ((c.step .ok).w.lastSyncFailed = false ∧ (c.step .ok).w.postponed = []) := by
  rcases h with h | ⟨h1, h2⟩
  · exact c.step_ok_willSyncD14 hw hp h
  · exact .inr (c.step_ok_noPostponedC14b hw h1 h2)

theorem Worker.not_willSync_of_quietD14 {w : Worker} (hw : w.WF) (hq : w.quiet = true) : ¬ w.willSyncD14 := by
  unfold Worker.quiet at hq
  cases hpc : w.pc with
  | idle =>
    rw [hpc] at hq
    have hqe : w.queue = [] := by simpa using hq
    rintro (k | ⟨r, hr, _⟩)
    · rw [hpc] at k; exact k
    · rw [hqe] at hr; cases hr
  | dead =>
    have hqe : w.queue = [] := by simpa [Worker.WF, hpc] using hw
    rintro (k | ⟨r, hr, _⟩)
    · rw [hpc] at k; exact k
    · rw [hqe] at hr; cases hr
  | got r => rw [hpc] at hq; cases hq
  | writing a b t => rw [hpc] at hq; cases hq
  | syncOld b t => rw [hpc] at hq; cases hq
  | syncNew b t => rw [hpc] at hq; cases hq
  | unlinking ids => rw [hpc] at hq; cases hq

/-- **(b), worker level.** An all-ok run that reaches a quiet state, from a well-formed state
satisfying (a) in which a write is in hand or queued — or whose last sync did not fail —,
ends with `lastSyncFailed = false` and nothing postponed. -/
theorem WCtx.runQuiet_cleanD14 (n : Nat) (c : WCtx) (hw : c.w.WF) (hp : PostponedOnlyAfterFailedSyncD14 c.w)
    (h : c.w.willSyncD14 ∨ c.w.lastSyncFailed = false) (hq : (WCtx.runQuiet n c).w.quiet = true) :
    (WCtx.runQuiet n c).w.lastSyncFailed = false ∧ (WCtx.runQuiet n c).w.postponed = [] := by
  have h0 : c.w.willSyncD14 ∨ (c.w.lastSyncFailed = false ∧ c.w.postponed = []) := by
    rcases h with h | h
    · exact .inl h
    · refine .inr ⟨h, ?_⟩
      cases hpo : c.w.postponed with
      | nil => rfl
      | cons i rest =>
        have := hp.post (by rw [hpo]; simp)
        rw [h] at this; cases this
  have key := WCtx.runQuiet_induct
    (P := fun c => c.w.WF ∧ PostponedOnlyAfterFailedSyncD14 c.w ∧
      (c.w.willSyncD14 ∨ (c.w.lastSyncFailed = false ∧ c.w.postponed = [])))
    (fun c hc _ => ⟨c.step_wf .ok hc.1, c.step_postD14 .ok hc.2.1, c.step_ok_syncOrCleanD14 hc.1 hc.2.1 hc.2.2⟩)
    n c ⟨hw, hp, h0⟩
  exact key.2.2.resolve_left (Worker.not_willSync_of_quietD14 key.1 hq)

/-- **(b), system level.** `workerIdle` from a state in which a write is in hand or queued, or
whose last sync did not fail, leaves `lastSyncFailed = false` and nothing postponed. -/
theorem Sys.workerIdle_cleanD14 (y : Sys) (s : Store) (hs : y.store = some s) (hw : y.worker.WF)
    (ht : y.worker.TodoOK) (hp : PostponedOnlyAfterFailedSyncD14 y.worker)
    (h : y.worker.willSyncD14 ∨ y.worker.lastSyncFailed = false) :
    (y.step .workerIdle).worker.lastSyncFailed = false ∧ (y.step .workerIdle).worker.postponed = [] := by
  show y.workerIdle.1.worker.lastSyncFailed = false ∧ y.workerIdle.1.worker.postponed = []
  rw [y.workerIdle_eqC14b s hs]
  exact WCtx.runQuiet_cleanD14 _ (y.idleCtxC14b s) hw hp h (WCtx.runQuiet_fuel_quiet _ ht)

/-- After a flush a write request is in hand or queued. -/
theorem Sys.flush_willSyncD14 (y : Sys) (cb : Option Nat) (s : Store) (hs : y.store = some s)
    (hd : y.worker.pc ≠ .dead) : (y.step (.flush cb)).worker.willSyncD14 := by
  show (y.flush cb).2.1.worker.willSyncD14
  rw [Sys.flush_eq y cb s hs hd]
  have hmem : WReq.write s.openEnd s.pending cb ∈ (y.worker.push (effQ (s.flush cb).2)).queue := by
    simp only [Worker.push, Store.flush, List.mem_append]
    right
    split <;> simp [effQ]
  show ((y.worker.push (effQ (s.flush cb).2)).settle).willSyncD14
  rcases (y.worker.push (effQ (s.flush cb).2)).settle_cases with ⟨r, q, _, hq, e⟩ | e <;> rw [e]
  · rw [hq] at hmem
    rcases List.mem_cons.mp hmem with k | k
    · exact .inl (by rw [← k]; rfl)
    · exact .inr ⟨_, k, rfl⟩
  · exact .inr ⟨_, hmem, rfl⟩

end RaftLog
