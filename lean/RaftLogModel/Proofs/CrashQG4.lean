/-
C03 without "no removal outstanding", part 4: taking ONE closed chunk from the front of
the chunk table, later than the purge that made it obsolete (the ghost store pops a
dropped chunk when the worker unlinks its file). The replay invariant survives when
every index entry is above the chunk's closing `last`; the history invariant survives
with the marker moved to the journal end `m` right after the purge that dropped the
chunk, when every sufficiently long prefix of the writes has purged the chunk's entries.
-/
import RaftLogModel.Proofs.CrashQG3
namespace RaftLog

/-! ### The replay invariant -/

/-- `RepC.drop_one` with the hypothesis on the index map stated with the chunk's own
closing `last`. -/
theorem RepC.drop_one_C3b {c : Closed} {rs : List Record} {rest : List (Closed × List Record)}
    {stC : RState} {lC : Log} {jo : List Record} {openOps : List JOp} {st : RState} {lg : Log}
    (h : RepC ((c, rs) :: rest) {} [] stC lC)
    (hst : stRun jo stC = some st) (hidx : idxRun openOps lC = some lg)
    (hheads : HeadsState rest) (hjo : ∃ x tl, jo = .state x :: tl)
    (habove : ∀ e ∈ lg, optLt c.state.last (some e.2.id) = true) :
    ∃ stC' lC', RepC rest {} [] stC' lC' ∧ stRun jo stC' = some st ∧ idxRun openOps lC' = some lg ∧
      (rest ≠ [] → stC' = stC) := by
  obtain ⟨st1, l1, g1, g2, g3, g4, _, g5⟩ := h
  have hs1 : SortedLog l1 := idxRun_sorted SortedLog.nil g2
  have hall : idxRun (flatOps rest ++ openOps) l1 = some lg := by
    rw [idxRun_append, g5.idx]; exact hidx
  have hgone : ∀ e ∈ l1, e ∉ lg := by
    intro e he hmem
    have h1 := g4 e he
    rw [← g3] at h1
    have h3 := optLt_of_le_of_lt h1 (habove e hmem)
    rw [optLt_irrefl] at h3
    cases h3
  have hforget := idxRun_forget hs1 hall hgone
  obtain ⟨lC0, k1, _⟩ := g5.mono SortedLog.nil (fun e he => by cases he)
  have hopen : idxRun openOps lC0 = some lg := by
    rw [idxRun_append, k1.idx] at hforget; exact hforget
  cases rest with
  | nil =>
    obtain ⟨e1, e2⟩ := k1
    obtain ⟨e3, _⟩ := g5
    obtain ⟨x, tl, hx⟩ := hjo
    refine ⟨{}, [], ⟨rfl, rfl⟩, ?_, by rw [← e2]; exact hopen, fun hne => absurd rfl hne⟩
    rw [hx, stRun_state_head x tl {} stC, ← hx]; exact hst
  | cons p rest' =>
    obtain ⟨c2, rs2⟩ := p
    obtain ⟨x, tl, hx⟩ := hheads (c2, rs2) List.mem_cons_self
    simp only at hx
    subst hx
    exact ⟨stC, lC0, k1.head_state {}, hst, hopen, fun _ => rfl⟩

/-- What the first closed chunk contributes to the index map: entries at or below its
closing `last`. -/
theorem RepG.first_chunk_C3b {s : Store} {fs : Fs} {w : Worker} {c : Closed} {rs : List Record}
    {jc : List (Closed × List Record)} {jo : List Record} (g : RepG s fs w ((c, rs) :: jc) jo) :
    ∃ lD, idxRun (chunkOps c.id rs) [] = some lD ∧ ∀ e ∈ lD, optLe (some e.2.id) c.state.last = true := by
  obtain ⟨stC, lC, g1, _, _, _⟩ := g.run
  obtain ⟨st1, l1, _, h2, h3, h4, _, _⟩ := g1
  exact ⟨l1, h2, fun e he => by rw [h3]; exact h4 e he⟩

/-- **Taking one chunk from the front**, on the witnesses. -/
theorem RepG.pop_one_C3b {s s2 : Store} {fs : Fs} {w : Worker} {c : Closed}
    {jc : List (Closed × List Record)} {jo : List Record} (g : RepG s fs w jc jo)
    (hcl : s.closed = c :: s2.closed)
    (habove : ∀ e ∈ s.log, optLt c.state.last (some e.2.id) = true)
    (h1 : s2.st = s.st) (h2 : s2.log = s.log) (h3 : s2.openOffsets = s.openOffsets)
    (h4 : s2.pending = s.pending) :
    ∃ rs jc', jc = (c, rs) :: jc' ∧ RepG s2 fs w jc' jo ∧
      allOps s jc jo = chunkOps c.id rs ++ allOps s2 jc' jo := by
  have hce := g.closedEq
  rw [hcl] at hce
  cases jc with
  | nil => cases hce
  | cons p jc' =>
    obtain ⟨c0, rs⟩ := p
    simp only [List.map_cons, List.cons.injEq] at hce
    obtain ⟨hc0, hce'⟩ := hce
    subst hc0
    obtain ⟨stC, lC, g1, g2, g3, g4⟩ := g.run
    have hheads' : HeadsState jc' := fun q hq => g.heads q (List.mem_cons_of_mem _ hq)
    obtain ⟨stC', lC', k1, k2, k3, k4⟩ := g1.drop_one_C3b g2 g3 hheads' g.openRecs.2.1 habove
    have e1 : s2.openId = s.openId := by simp [Store.openId, h3]
    have hb : ∀ id, chunkBytes s2 fs w id = chunkBytes s fs w id :=
      fun id => chunkBytes_congr fs w id h3 h4
    refine ⟨rs, jc', rfl, ⟨hce', ?_, by rw [h3, e1, hb]; exact g.openRecs,
      ⟨stC', lC', k1, by rw [h1]; exact k2, by rw [e1, h2]; exact k3, ?_⟩⟩, ?_⟩
    · intro p hp
      rw [hb]
      exact g.closedRecs p (List.mem_cons_of_mem _ hp)
    · intro hne
      rw [k4 hne]
      exact g4 (by simp)
    · simp only [allOps, flatOps, e1, List.append_assoc]

/-- **Taking one chunk from the front** keeps the replay invariant. -/
theorem Rep.pop_one_C3b {s s2 : Store} {fs : Fs} {w : Worker} {r : RefLog} {c : Closed}
    (h : Rep s fs w r) (hcl : s.closed = c :: s2.closed)
    (habove : ∀ e ∈ s.log, optLt c.state.last (some e.2.id) = true)
    (h1 : s2.st = s.st) (h2 : s2.log = s.log) (h3 : s2.openOffsets = s.openOffsets)
    (h4 : s2.pending = s.pending) : Rep s2 fs w r := by
  obtain ⟨jc, jo, g, gp, gr⟩ := h
  obtain ⟨rs, jc', hjc, g2, hsplit⟩ := g.pop_one_C3b hcl habove h1 h2 h3 h4
  subst hjc
  have e1 : s2.openId = s.openId := by simp [Store.openId, h3]
  refine ⟨jc', jo, g2, ?_, ?_⟩
  · apply gp.mono h2
    intro op hop _
    rw [hsplit]
    exact List.mem_append_right _ hop
  · intro hd tl hall x hx
    -- the dropped chunk starts with a `State` record
    obtain ⟨x0, tl0, hx0⟩ := g.heads (c, rs) List.mem_cons_self
    simp only at hx0
    subst hx0
    have hD : chunkOps c.id (.state x0 :: tl0)
        = ⟨.state x0, c.id, ⟨c.id, (encRecord (.state x0)).length⟩⟩ ::
            opsFrom c.id (c.id + (encRecord (.state x0)).length) tl0 := rfl
    rw [hD, hall, List.cons_append] at hsplit
    have hok := gr _ _ hsplit x0 rfl
    obtain ⟨k1, k2⟩ := g.tail_run hsplit rfl
    obtain ⟨stA, ka1, ka2⟩ := stRunO_prefix k1
    obtain ⟨lA, kb1, kb2⟩ := idxRun_prefix k2
    have hB := (RunOK_append.mp hok).2 stA lA ka1 kb1
    obtain ⟨_, hB2⟩ := hB
    have hB3 := hB2 x lA (by rw [hx]; rfl) (by rw [hx]; rfl)
    exact hB3.mono SortedLog.nil (fun e he => by cases he)

/-! ### The witnesses are unique -/

theorem encAll_inj_C3b {a b : List Record} (ha : AllWF a) (hb : AllWF b) (h : encAll a = encAll b) :
    a = b := by
  have h1 := parse_encAll' ha
  have h2 := parse_encAll' hb
  rw [h] at h1
  rw [h1] at h2
  have h3 : (sized a).map (·.1) = (sized b).map (·.1) := by
    have := congrArg (fun x => x.1) h2
    simp only at this
    rw [this]
  rw [sized_map_fst, sized_map_fst] at h3
  exact h3

theorem RepG.unique_C3b {s : Store} {fs : Fs} {w : Worker} {jc jc' : List (Closed × List Record)}
    {jo jo' : List Record} (g : RepG s fs w jc jo) (g' : RepG s fs w jc' jo') : jc = jc' ∧ jo = jo' := by
  constructor
  · have hm : jc.map (·.1) = jc'.map (·.1) := by rw [g.closedEq, g'.closedEq]
    have key : ∀ (a b : List (Closed × List Record)), a.map (·.1) = b.map (·.1) →
        (∀ p ∈ a, ChunkRecs p.1.offsets p.2 (chunkBytes s fs w p.1.id)) →
        (∀ p ∈ b, ChunkRecs p.1.offsets p.2 (chunkBytes s fs w p.1.id)) → a = b := by
      intro a
      induction a with
      | nil =>
        intro b hab _ _
        cases b with
        | nil => rfl
        | cons q b => cases hab
      | cons p a ih =>
        intro b hab ha hb
        cases b with
        | nil => cases hab
        | cons q b =>
          simp only [List.map_cons, List.cons.injEq] at hab
          obtain ⟨c1, r1⟩ := p
          obtain ⟨c2, r2⟩ := q
          simp only at hab
          obtain ⟨hc, hrest⟩ := hab
          subst hc
          have k1 := ha (c1, r1) List.mem_cons_self
          have k2 := hb (c1, r2) List.mem_cons_self
          have : r1 = r2 := encAll_inj_C3b k1.1 k2.1 (by rw [← k1.2.2.2, ← k2.2.2.2])
          subst this
          rw [ih b hrest (fun p hp => ha p (List.mem_cons_of_mem _ hp))
            (fun p hp => hb p (List.mem_cons_of_mem _ hp))]
    exact key jc jc' hm g.closedRecs g'.closedRecs
  · exact encAll_inj_C3b g.openRecs.1 g'.openRecs.1 (by rw [← g.openRecs.2.2.2, ← g'.openRecs.2.2.2])

/-! ### The reference log along a run -/

theorem RefLog.run_wf_C3b (ops : List Op) : ∀ (r r' : RefLog), r.WF → r.run ops = some r' → r'.WF := by
  induction ops with
  | nil => intro r r' h hr; simp only [RefLog.run, Option.some.injEq] at hr; subst hr; exact h
  | cons op rest ih =>
    intro r r' h hr
    simp only [RefLog.run] at hr
    split at hr
    · rename_i hl
      split at hr
      · rename_i r1 hc
        exact ih r1 r' (RefLog.call_wf h hl hc) hr
      · cases hr
    · cases hr

theorem RefLog.append1_purged_C3b {r r' : RefLog} {id : LogId} {p : Bytes}
    (h : r.append1 id p = .ok r') : r'.purged = r.purged := by
  unfold RefLog.append1 at h
  split at h
  · cases h
  · split at h
    · split at h
      · cases h
      · injection h with h; subst h; rfl
    · injection h with h; subst h; rfl

theorem RefLog.appendAll_purged_C3b (es : List (LogId × Bytes)) : ∀ (r r' : RefLog),
    r.appendAll es = .ok r' → r'.purged = r.purged := by
  induction es with
  | nil => intro r r' h; simp only [RefLog.appendAll] at h; injection h with h; subst h; rfl
  | cons e rest ih =>
    intro r r' h
    obtain ⟨id, p⟩ := e
    simp only [RefLog.appendAll] at h
    split at h
    · rename_i r1 h1
      rw [ih r1 r' h, RefLog.append1_purged_C3b h1]
    · cases h

/-- The purge point never moves back. -/
theorem RefLog.call_purged_mono_C3b {r r' : RefLog} {op : Op} (hc : r.call op = .ok r') :
    optLe r.purged r'.purged = true := by
  cases op with
  | saveVote v =>
    simp only [RefLog.call] at hc
    split at hc
    · injection hc with hc; subst hc; exact optLe_refl _
    · cases hc
  | commit id =>
    simp only [RefLog.call] at hc
    split at hc
    · cases hc
    · injection hc with hc; subst hc; exact optLe_refl _
  | saveUserData d =>
    simp only [RefLog.call] at hc
    injection hc with hc; subst hc; exact optLe_refl _
  | append es =>
    simp only [RefLog.call] at hc
    rw [RefLog.appendAll_purged_C3b es r r' hc]; exact optLe_refl _
  | truncate idx =>
    simp only [RefLog.call] at hc
    split at hc
    · injection hc with hc; subst hc; exact optLe_refl _
    · split at hc
      · cases hc
      · split at hc
        · cases hc
        · injection hc with hc; subst hc; exact optLe_refl _
  | purge upto =>
    simp only [RefLog.call] at hc
    split at hc
    · injection hc with hc; subst hc; exact optLe_refl _
    · injection hc with hc; subst hc
      simp only
      split
      · rename_i h; exact optLe_of_lt h
      · exact optLe_refl _

theorem RefLog.run_purged_mono_C3b (ops : List Op) : ∀ (r r' : RefLog), r.run ops = some r' →
    optLe r.purged r'.purged = true := by
  induction ops with
  | nil => intro r r' hr; simp only [RefLog.run, Option.some.injEq] at hr; subst hr; exact optLe_refl _
  | cons op rest ih =>
    intro r r' hr
    simp only [RefLog.run] at hr
    split at hr
    · split at hr
      · rename_i r1 hc
        exact optLe_trans (RefLog.call_purged_mono_C3b hc) (ih r1 r' hr)
      · cases hr
    · cases hr

/-! ### The history invariant -/

theorem sizeSum_eq_zero_C3b {t : List JOp} (hpos : ∀ op ∈ t, 0 < op.seg.size) (h : sizeSum t = 0) :
    t = [] := by
  cases t with
  | nil => rfl
  | cons op t' =>
    exfalso
    have := hpos op List.mem_cons_self
    simp only [sizeSum, List.map_cons, sumNat] at h
    omega

/-- Two prefixes of the same list: the one that is not longer in bytes is a prefix
of the other. -/
theorem prefix_of_sizeSum_le_C3b {Q P L : List JOp} (hQ : Q <+: L) (hP : P <+: L)
    (hpos : ∀ op ∈ L, 0 < op.seg.size) (h : sizeSum Q ≤ sizeSum P) : Q <+: P := by
  rcases List.prefix_or_prefix_of_prefix hQ hP with k | k
  · exact k
  · obtain ⟨t, rfl⟩ := k
    rw [sizeSum_append] at h
    have ht : t = [] := by
      apply sizeSum_eq_zero_C3b _ (by omega)
      intro op hop
      obtain ⟨u, hu⟩ := hQ
      exact hpos op (by rw [← hu]; simp [hop])
    subst ht
    rw [List.append_nil]
    exact List.prefix_refl _

/-- **Taking the chunk `D` from the front of the journal, later.** `m` is a journal
position beyond `D` that corresponds to the write count `k` (`hmk`); every prefix of
the writes of length `≥ k` has purged everything at or below `cl`; the index entries
`D` produces are at or below `cl`; the rest starts with a `State` record. Then the
history invariant holds for the rest with the marker `m`. -/
theorem HistG.pop_one_C3b {L D : List JOp} {start0 : Nat} {W : List Op} {B0 m k E K : Nat}
    {cl : Option LogId}
    (hold : HistG (D ++ L) start0 W B0 E K) (hmk : HistG (D ++ L) start0 W B0 m k)
    (hB : B0 ≤ m) (hm : start0 + sizeSum D < m)
    (hcov : ∀ n, k ≤ n → n ≤ W.length → ∀ r', RefLog.run {} (W.take n) = some r' →
      optLe cl r'.purged = true)
    (hD : ∃ lD, idxRun D [] = some lD ∧ ∀ e ∈ lD, optLe (some e.2.id) cl = true)
    (hhead : ∃ x op tl, L = op :: tl ∧ op.r = .state x)
    (hpos : ∀ op ∈ D ++ L, 0 < op.seg.size) :
    HistG L (start0 + sizeSum D) W m E K := by
  obtain ⟨N0, hN, hmir, _, hc⟩ := hold
  obtain ⟨N0', hN', _, _, hck⟩ := hmk
  have hNN : N0' = N0 := by omega
  subst hNN
  have hposL : ∀ op ∈ L, 0 < op.seg.size := fun op hop => hpos op (List.mem_append_right _ hop)
  -- the prefix that ends at `m`
  have hck' : ∃ Q, Q <+: D ++ L ∧ start0 + sizeSum Q = m ∧ N0' + cntW Q = k := by
    rcases hck with h | ⟨e1, _⟩
    · exact h
    · omega
  obtain ⟨Q, hQ, e1, e2⟩ := hck'
  have hDQ : D <+: Q := by
    rcases List.prefix_or_prefix_of_prefix hQ (List.prefix_append D L) with k1 | k1
    · have := sizeSum_prefix_le k1; omega
    · exact k1
  obtain ⟨Q', rfl⟩ := hDQ
  have hQ' : Q' <+: L := (List.prefix_append_right_inj _).mp hQ
  rw [sizeSum_append] at e1
  rw [cntW_append] at e2 hN
  refine ⟨N0' + cntW D, by omega, ?_, Or.inr ⟨Q', hQ', by omega⟩, ?_⟩
  · intro P hP hBP
    have hQP : Q' <+: P := prefix_of_sizeSum_le_C3b hQ' hP hposL (by omega)
    have hcq := cntW_prefix_le hQP
    have hcp := cntW_prefix_le hP
    have hmir1 := hmir (D ++ P) ((List.prefix_append_right_inj D).mpr hP)
      (by rw [sizeSum_append]; omega)
    rw [cntW_append] at hmir1
    obtain ⟨r', hr', hst, l, hl, hkeys⟩ := hmir1
    have hn : N0' + cntW D + cntW P = N0' + (cntW D + cntW P) := by omega
    rw [hn]
    have hpur := hcov (N0' + (cntW D + cntW P)) (by omega) (by omega) r' hr'
    have hwf : r'.WF := RefLog.run_wf_C3b _ {} r' RefLog.wf_empty hr'
    -- `P` starts with the `State` record
    obtain ⟨x, op, tl, hL, hx⟩ := hhead
    have hPne : P ≠ [] := by
      intro e; subst e
      have h0 : sizeSum ([] : List JOp) = 0 := rfl
      rw [h0] at hBP
      omega
    cases P with
    | nil => exact absurd rfl hPne
    | cons op0 P' =>
      rw [hL] at hP
      have hop0 : op0 = op := (List.cons_prefix_cons.mp hP).1
      subst hop0
      refine ⟨r', hr', ?_, l, ?_, hkeys⟩
      · obtain ⟨st1, _, k2⟩ := stRunO_prefix hst
        rw [stRunO_cons, hx] at k2 ⊢
        simpa [RState.apply] using k2
      · obtain ⟨lD', k1, k2⟩ := idxRun_prefix hl
        obtain ⟨lD, d1, d2⟩ := hD
        rw [d1] at k1
        injection k1 with k1
        subst k1
        apply idxRun_forget (idxRun_sorted SortedLog.nil d1) k2
        intro e he hmem
        have hk : (e.1, e.2.id) ∈ logKeys l := List.mem_map.mpr ⟨e, hmem, rfl⟩
        rw [hkeys] at hk
        obtain ⟨y, hy, hye⟩ := List.mem_map.mp hk
        simp only [Prod.mk.injEq] at hye
        have h1 := (hwf.above y hy).1
        rw [hye.2] at h1
        have h2 := optLe_trans (d2 e he) hpur
        have h3 := optLt_of_le_of_lt h2 h1
        rw [optLt_irrefl] at h3
        cases h3
  · rcases hc with ⟨Q0, hQ0, f1, f2⟩ | ⟨f1, f2⟩
    · rcases List.prefix_or_prefix_of_prefix hQ0 (List.prefix_append D L) with k1 | k1
      · right
        have h1 := sizeSum_prefix_le k1
        have h2 := cntW_prefix_le k1
        exact ⟨by omega, by omega⟩
      · left
        obtain ⟨Q1, rfl⟩ := k1
        refine ⟨Q1, (List.prefix_append_right_inj _).mp hQ0, ?_, ?_⟩
        · rw [sizeSum_append] at f1; omega
        · rw [cntW_append] at f2; omega
    · right
      exact ⟨by omega, by omega⟩

/-! ### The whole invariant -/

theorem allOps_head_state_C3b {s : Store} {fs : Fs} {w : Worker} {jc : List (Closed × List Record)}
    {jo : List Record} (g : RepG s fs w jc jo) :
    ∃ x op tl, allOps s jc jo = op :: tl ∧ op.r = .state x := by
  cases jc with
  | nil =>
    obtain ⟨x, tl, hx⟩ := g.openRecs.2.1
    refine ⟨x, ⟨.state x, s.openId, ⟨s.openId, (encRecord (.state x)).length⟩⟩,
      opsFrom s.openId (s.openId + (encRecord (.state x)).length) tl, ?_, rfl⟩
    rw [hx]
    simp only [allOps, flatOps, List.nil_append, chunkOps, opsFrom]
  | cons p jc' =>
    obtain ⟨c2, rs2⟩ := p
    obtain ⟨x, tl, hx⟩ := g.heads (c2, rs2) List.mem_cons_self
    simp only at hx
    refine ⟨x, ⟨.state x, c2.id, ⟨c2.id, (encRecord (.state x)).length⟩⟩,
      opsFrom c2.id (c2.id + (encRecord (.state x)).length) tl ++ flatOps jc' ++ chunkOps s.openId jo,
      ?_, rfl⟩
    rw [hx]
    simp only [allOps, flatOps, chunkOps, opsFrom, List.cons_append, List.append_assoc]

/-- The write count tracked by the history invariant is at most the number of writes. -/
theorem HistG.count_le_C3b {L : List JOp} {start : Nat} {W : List Op} {B E K : Nat}
    (h : HistG L start W B E K) : K ≤ W.length := by
  obtain ⟨N0, hN, _, _, hc⟩ := h
  rcases hc with ⟨Q, hQ, _, e2⟩ | ⟨_, e2⟩
  · have := cntW_prefix_le hQ; omega
  · omega

/-- **Taking the first closed chunk `c` out of the chunk table, later.** The invariant
holds for the tracked pair `(E, K)` and for the pair `(m, k)` — `m` a journal position
beyond the chunk, `k` the number of writes journalled below `m` — and every prefix of
the writes of length `≥ k` has purged everything up to the chunk's closing `last`.
Then the invariant holds for the store without `c`, with the marker `m`. -/
theorem HInv.pop_one_C3b {s s2 : Store} {fs : Fs} {w : Worker} {r : RefLog} {W : List Op}
    {B A E K m k : Nat} {c : Closed}
    (h : HInv s fs w r W B A E K) (hmk : HInv s fs w r W B A m k)
    (hcl : s.closed = c :: s2.closed)
    (h1 : s2.st = s.st) (h2 : s2.log = s.log) (h3 : s2.openOffsets = s.openOffsets)
    (h4 : s2.pending = s.pending)
    (hB : B ≤ m) (hm : lastOff c.offsets < m) (hmle : m ≤ s.openEnd)
    (hcov : ∀ n, k ≤ n → n ≤ W.length → ∀ r', RefLog.run {} (W.take n) = some r' →
      optLe c.state.last r'.purged = true) :
    HInv s2 fs w r W m A E K := by
  obtain ⟨jc, jo, g, hg⟩ := h.hist
  obtain ⟨jc', jo', g', hg'⟩ := hmk.hist
  obtain ⟨e1, e2⟩ := g.unique_C3b g'
  subst e1; subst e2
  have hk : k ≤ W.length := hg'.count_le_C3b
  have hpur : optLe c.state.last s.st.purged = true := by
    have := hcov W.length hk (Nat.le_refl _) r (by rw [List.take_length]; exact h.run)
    rw [h.inv.abs.st]; exact this
  have habove : ∀ e ∈ s.log, optLt c.state.last (some e.2.id) = true :=
    fun e he => optLt_of_le_of_lt hpur (h.inv.abs.log_above e he)
  have hcl' : s.closed = [c] ++ s2.closed := by rw [hcl]; rfl
  have hj2 : JInv s2 fs w := h.inv.j.dropClosed [c] h1 h2 h3 h4 hcl'
  obtain ⟨rs, jc1, hjc, g2, hsplit⟩ := g.pop_one_C3b hcl habove h1 h2 h3 h4
  subst hjc
  have hend := g.journal_end_C3 h.inv.j
  have hend2 := g2.journal_end_C3 hj2
  have e3 : s2.openEnd = s.openEnd := by simp [Store.openEnd, h3]
  rw [hsplit, sizeSum_append] at hend
  have hjs2 : s2.jstart = s.jstart + sizeSum (chunkOps c.id rs) := by omega
  have hjs : s.jstart = c.id := by simp [Store.jstart, hcl]
  have hsz : sizeSum (chunkOps c.id rs) = (encAll rs).length := sizeSum_opsFrom_C3 _ _ _
  have hlast : lastOff c.offsets = c.id + (encAll rs).length :=
    (g.closedRecs (c, rs) List.mem_cons_self).lastOff_eq
  have hrs : 1 ≤ (encAll rs).length := by
    obtain ⟨x, tl, hx⟩ := g.heads (c, rs) List.mem_cons_self
    simp only at hx
    have := encAll_length_geP rs
    rw [hx] at this ⊢
    simp only [List.length_cons] at this
    omega
  have hpos : ∀ op ∈ chunkOps c.id rs ++ allOps s2 jc1 jo, 0 < op.seg.size := by
    rw [← hsplit]; exact allOps_size_pos_C3 s _ jo
  rw [hsplit] at hg hg'
  have hg2 := HistG.pop_one_C3b hg hg' hB (by rw [hjs, hsz]; omega) hcov g.first_chunk_C3b
    (allOps_head_state_C3b g2) hpos
  rw [← hjs2] at hg2
  refine ⟨⟨hj2, h.inv.abs.of_fields h1 h2 h3, h.inv.rep.pop_one_C3b hcl habove h1 h2 h3 h4⟩, h.run,
    ⟨jc1, jo, g2, hg2⟩, Or.inr (by omega), by rw [e3]; exact hmle, h.dur.dropClosed [c] h3 hcl'⟩

end RaftLog
