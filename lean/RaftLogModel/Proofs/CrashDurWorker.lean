/-
C03, part 4 (continued): the queue-consistency invariant `WU` under every worker
step that leaves the worker alive.
-/
import RaftLogModel.Proofs.CrashDur
namespace RaftLog

/-- `WU` in terms of the worker's abstract state. -/
structure WUA (fs : Fs) (cur tbl : Nat) (bw rest : List WReq) : Prop where
  a1 : uptoOK fs cur ((fdata fs cur).length + tbl) rest
  a2 : ∀ r ∈ bw, r.upto ≤ cur + (fdata fs cur).length + tbl
  a3 : ∀ i ∈ Fs.ids fs, cur < i → i ∈ annIds rest

theorem WU.abs {fs : Fs} {w : Worker} (h : WU fs w) :
    WUA fs w.cur w.pc.todoBytes.length w.pc.batchW w.rest := ⟨h.u1, h.u2, h.u3⟩

theorem WUA.wu {fs : Fs} {w : Worker} (h : WUA fs w.cur w.pc.todoBytes.length w.pc.batchW w.rest) :
    WU fs w := ⟨h.a1, h.a2, h.a3⟩

theorem WUA.noBatch {fs : Fs} {cur tbl : Nat} {bw rest : List WReq} (h : WUA fs cur tbl bw rest) :
    WUA fs cur tbl [] rest := ⟨h.a1, fun r hr => (by cases hr), h.a3⟩

/-- The file system changed, but not the sizes the invariant looks at. -/
theorem WUA.congr_fs {fs fs' : Fs} {cur tbl tbl' : Nat} {bw rest : List WReq}
    (h : WUA fs cur tbl bw rest) (hids : Fs.ids fs' = Fs.ids fs)
    (hcur : (fdata fs' cur).length + tbl' = (fdata fs cur).length + tbl)
    (hother : ∀ n ∈ annIds rest, (fdata fs' n).length = (fdata fs n).length) :
    WUA fs' cur tbl' bw rest := by
  refine ⟨?_, ?_, ?_⟩
  · rw [hcur, uptoOK_congr rest cur _ hother]; exact h.a1
  · intro r hr; have := h.a2 r hr; omega
  · rw [hids]; exact h.a3

/-! ### The building blocks -/

theorem WCtx.toRecv_wu (c : WCtx) (hnd : c.toRecv.w.pc ≠ .dead)
    (h : WUA c.fs (newestId c.w.files) 0 [] c.w.queue) : WU c.toRecv.fs c.toRecv.w := by
  rcases c.toRecv_cases with ⟨r, q, hq, e⟩ | ⟨hq, _, e⟩ | ⟨_, _, e⟩
  · rw [e]
    apply WUA.wu
    simp only [Worker.cur, Worker.rest, WPc.todoBytes, WPc.inHand, WPc.batchW, List.length_nil,
      List.cons_append, List.nil_append]
    rw [← hq]; exact h
  · rw [e]
    apply WUA.wu
    simp only [Worker.cur, Worker.rest, WPc.todoBytes, WPc.inHand, WPc.batchW, List.length_nil,
      List.nil_append]
    exact h
  · exfalso; apply hnd; rw [e]

theorem WCtx.nonFlush_wu (c : WCtx) (r : WReq) (hr : r.isWrite = false)
    (hnd : (c.nonFlush r).w.pc ≠ .dead)
    (hinc : Incr (newestId c.w.files :: annIds (r :: c.w.queue)))
    (h : WUA c.fs (newestId c.w.files) 0 [] (r :: c.w.queue)) :
    WU (c.nonFlush r).fs (c.nonFlush r).w := by
  cases r with
  | write u d cb => cases hr
  | appendFile n p =>
    have e : c.nonFlush (.appendFile n p) =
        ({ c with w := { c.w with files := c.w.files ++ [FileEnt.mk n p] } } : WCtx).toRecv := rfl
    rw [e] at hnd ⊢
    apply WCtx.toRecv_wu _ hnd
    simp only [newestId_append]
    have h1 := h.a1
    simp only [uptoOK, Nat.add_zero] at h1
    simp only [annIds, Incr, List.pairwise_cons] at hinc
    have hlt : newestId c.w.files < n := hinc.1 n (by simp)
    refine ⟨by simpa using h1.2, fun r hr => (by cases hr), ?_⟩
    intro i hi hni
    have := h.a3 i hi (by omega)
    simp only [annIds, List.mem_cons] at this
    rcases this with e' | e'
    · omega
    · exact e'
  | removeChunks ids =>
    have hq : WUA c.fs (newestId c.w.files) 0 [] c.w.queue :=
      ⟨by simpa [uptoOK] using h.a1, fun r hr => (by cases hr), by simpa [annIds] using h.a3⟩
    by_cases hl : c.w.lastSyncFailed = true
    · have e : c.nonFlush (.removeChunks ids) =
          ({ c with w := { c.w with postponed := c.w.postponed ++ ids } } : WCtx).toRecv := by
        simp [WCtx.nonFlush, hl]
      rw [e] at hnd ⊢
      exact WCtx.toRecv_wu _ hnd hq
    · cases hall : c.w.postponed ++ ids with
      | nil =>
        have e : c.nonFlush (.removeChunks ids) = c.toRecv := by
          simp [WCtx.nonFlush, hl, hall]
        rw [e] at hnd ⊢
        exact WCtx.toRecv_wu _ hnd hq
      | cons i rest =>
        have e : c.nonFlush (.removeChunks ids) =
            { c with w := { c.w with pc := .unlinking (i :: rest), postponed := [] } } := by
          simp [WCtx.nonFlush, hl, hall]
        rw [e]
        apply WUA.wu
        simp only [Worker.cur, Worker.rest, WPc.todoBytes, WPc.inHand, WPc.batchW, List.length_nil,
          List.nil_append]
        exact hq

theorem WCtx.finishBatch_wu (c : WCtx) (b : List WReq) (t : Option WReq) (ok : Bool)
    (ht : tailOK t) (hnd : (c.finishBatch b t ok).w.pc ≠ .dead)
    (hinc : Incr (newestId c.w.files :: annIds (t.toList ++ c.w.queue)))
    (h : WUA c.fs (newestId c.w.files) 0 [] (t.toList ++ c.w.queue)) :
    WU (c.finishBatch b t ok).fs (c.finishBatch b t ok).w := by
  rw [WCtx.finishBatch_eq] at hnd ⊢
  cases t with
  | none =>
    apply WCtx.nonFlush_wu _ _ rfl hnd
    · simpa [tailEnts, annIds] using hinc
    · have h' : WUA c.fs (newestId c.w.files) 0 [] c.w.queue := by simpa using h
      exact ⟨by simpa [tailEnts, uptoOK, tailIds] using h'.a1, fun r hr => (by cases hr),
        by simpa [tailEnts, annIds, tailIds] using h'.a3⟩
  | some r =>
    cases r with
    | write u d cb => exact absurd (ht _ rfl) (by simp [WReq.isWrite])
    | removeChunks ids =>
      apply WCtx.nonFlush_wu _ _ rfl hnd
      · simpa [tailEnts, WReq.ents] using hinc
      · simpa [tailEnts, WReq.ents] using h
    | appendFile n p =>
      have hinc' : Incr (newestId c.w.files :: n :: annIds c.w.queue) := by simpa [annIds] using hinc
      have h' : WUA c.fs (newestId c.w.files) 0 [] (.appendFile n p :: c.w.queue) := by simpa using h
      have hq : WUA c.fs n 0 [] c.w.queue := by
        have h1 := h'.a1
        simp only [uptoOK, Nat.add_zero] at h1
        simp only [Incr, List.pairwise_cons] at hinc'
        have hlt : newestId c.w.files < n := hinc'.1 n (by simp)
        refine ⟨by simpa using h1.2, fun r hr => (by cases hr), ?_⟩
        intro i hi hni
        have := h'.a3 i hi (by omega)
        simp only [annIds, List.mem_cons] at this
        rcases this with e' | e'
        · omega
        · exact e'
      apply WCtx.nonFlush_wu _ _ rfl hnd
      · simp only [Incr, List.pairwise_cons] at hinc'
        simpa [tailEnts, WReq.ents, newestId_append, annIds, tailReq, tailIds, Incr] using hinc'.2
      · simp only [WCtx.fb1_w, WCtx.fb1_fs, tailEnts, WReq.ents, newestId_append, tailReq, tailIds]
        exact ⟨by simpa [uptoOK] using hq.a1, fun r hr => (by cases hr), by simpa [annIds] using hq.a3⟩

theorem WCtx.startSync_wu (c : WCtx) (b : List WReq) (t : Option WReq)
    (ht : tailOK t) (hnd : (c.startSync b t).w.pc ≠ .dead)
    (hinc : Incr (newestId c.w.files :: annIds (t.toList ++ c.w.queue)))
    (h : WUA c.fs (newestId c.w.files) 0 b (t.toList ++ c.w.queue)) :
    WU (c.startSync b t).fs (c.startSync b t).w := by
  rcases c.startSync_cases b t with ⟨_, e⟩ | ⟨f, _, e⟩ | ⟨_, e⟩
  · rw [e] at hnd ⊢
    exact WCtx.finishBatch_wu c b t true ht hnd hinc h.noBatch
  · rw [e]
    apply WUA.wu
    simp only [Worker.cur, Worker.rest, WPc.todoBytes, WPc.inHand, WPc.batchW, List.length_nil]
    exact h
  · rw [e]
    apply WUA.wu
    simp only [Worker.cur, Worker.rest, WPc.todoBytes, WPc.inHand, WPc.batchW, List.length_nil]
    exact h

theorem todoOf_flatten_C3 (b : List WReq) : (todoOf b).flatten = (b.map WReq.data).flatten :=
  flatten_filter_nonempty _

theorem WCtx.startWrites_wu (c : WCtx) (b : List WReq) (t : Option WReq)
    (ht : tailOK t) (hnd : (c.startWrites b t).w.pc ≠ .dead)
    (hinc : Incr (newestId c.w.files :: annIds (t.toList ++ c.w.queue)))
    (h : WUA c.fs (newestId c.w.files) (b.map WReq.data).flatten.length b (t.toList ++ c.w.queue)) :
    WU (c.startWrites b t).fs (c.startWrites b t).w := by
  rcases c.startWrites_cases b t with ⟨h0, e⟩ | ⟨_, e⟩
  · rw [e] at hnd ⊢
    have hz : (b.map WReq.data).flatten.length = 0 := by
      rw [← todoOf_flatten_C3, h0]; rfl
    rw [hz] at h
    exact WCtx.startSync_wu c b t ht hnd hinc h
  · rw [e]
    apply WUA.wu
    simp only [Worker.cur, Worker.rest, WPc.todoBytes, WPc.inHand, WPc.batchW, todoOf_flatten_C3]
    exact h

/-! ### One worker step -/

theorem fdata_write_len_C3 (fs : Fs) (cur : Nat) (d : Bytes) (h : cur ∈ Fs.ids fs) (n : Nat) :
    (fdata (fs.write cur d) n).length = (fdata fs n).length + (if cur = n then d.length else 0) := by
  rw [fdata_write _ _ _ _ h]
  by_cases e : cur = n <;> simp [e]

theorem incr_not_mem_C3 {cur : Nat} {l : List Nat} (h : Incr (cur :: l)) : ∀ n ∈ l, cur ≠ n := by
  intro n hn e
  simp only [Incr, List.pairwise_cons] at h
  have := h.1 n hn
  omega

/-- **`WU` is kept by every worker step that leaves the worker alive.** -/
theorem WCtx.step_wu (c : WCtx) (out : Outcome) (hwu : WU c.fs c.w) (hok : c.w.pc.ok c.w.files)
    (hinc : Incr c.w.announced) (hcur : c.w.cur ∈ Fs.ids c.fs)
    (hnd : (c.step out).w.pc ≠ .dead) : WU (c.step out).fs (c.step out).w := by
  have hcur' : newestId c.w.files ∈ Fs.ids c.fs := hcur
  have habs := hwu.abs
  have hinc' : Incr (newestId c.w.files :: annIds (c.w.pc.inHand ++ c.w.queue)) := hinc
  simp only [Worker.cur, Worker.rest] at habs
  revert hnd
  apply WCtx.step_elim (P := fun c' => c'.w.pc ≠ .dead → WU c'.fs c'.w) c out
  · intro _ _ _; exact hwu
  · intro hpc _ hnd
    rw [hpc] at habs hinc'
    exact WCtx.toRecv_wu c hnd (by simpa [WPc.todoBytes, WPc.inHand, WPc.batchW] using habs)
  · intro r hpc hr _ hnd
    rw [hpc] at habs hinc'
    obtain ⟨h1, h2, h3⟩ := collectBatch_spec 1024 c.w.queue
    have hb : ∀ x ∈ r :: (collectBatch 1024 c.w.queue).1, x.isWrite = true := by
      intro x hx
      rcases List.mem_cons.mp hx with e' | e'
      · subst e'; exact hr
      · exact h2 x e'
    have hq : WPc.inHand (.got r) ++ c.w.queue = (r :: (collectBatch 1024 c.w.queue).1) ++
        ((collectBatch 1024 c.w.queue).2.1.toList ++ (collectBatch 1024 c.w.queue).2.2) := by
      simp only [WPc.inHand, List.cons_append, List.nil_append, List.cons.injEq, true_and]
      rw [← List.append_assoc, ← h1]
    rw [hq] at habs hinc'
    simp only [WPc.todoBytes, List.length_nil] at habs
    obtain ⟨k1, k2⟩ := uptoOK_writes c.fs _ _ hb _ _ habs.a1
    rw [annIds_writes _ _ hb] at hinc'
    apply WCtx.startWrites_wu _ _ _ h3 hnd
    · simpa using hinc'
    · simp only [WCtx.setQueue_w, WCtx.setQueue_fs]
      refine ⟨k1, fun x hx => (by have := k2 x hx; omega), ?_⟩
      have := habs.a3
      rw [annIds_writes _ _ hb] at this
      exact this
  · intro r hpc hr _ hnd
    rw [hpc] at habs hinc'
    exact WCtx.nonFlush_wu c r hr hnd (by simpa [WPc.inHand] using hinc')
      (by simpa [WPc.todoBytes, WPc.inHand, WPc.batchW] using habs.noBatch)
  · intro b t hpc _ hnd
    rw [hpc] at habs hinc' hok
    exact WCtx.startSync_wu c b t hok hnd (by simpa [WPc.inHand] using hinc')
      (by simpa [WPc.todoBytes, WPc.inHand, WPc.batchW] using habs)
  · intro d rest b t _ _ _ hnd
    exact absurd (WCtx.die_dead _ _) hnd
  · -- a partial write
    intro d rest b t k hpc _ hk0 hk _ _
    rw [hpc] at habs hinc' hok
    apply WUA.wu
    simp only [WCtx.setPc_w, WCtx.setPc_fs, WCtx.wrote_w, WCtx.wrote_fs, Worker.cur, Worker.rest,
      WPc.todoBytes, WPc.inHand, WPc.batchW]
    simp only [WPc.todoBytes, WPc.inHand, WPc.batchW] at habs
    refine habs.congr_fs (Fs.ids_write _ _ _) ?_ ?_
    · rw [fdata_write_len_C3 _ _ _ hcur']
      simp only [if_true, List.flatten_cons, List.length_append, List.length_take, List.length_drop]
      omega
    · intro n hn
      rw [fdata_write_len_C3 _ _ _ hcur', if_neg (incr_not_mem_C3 hinc' n hn)]
      rfl
  · -- the last write of the batch
    intro d b t hpc _ _ hnd
    rw [hpc] at habs hinc' hok
    simp only [WPc.todoBytes, WPc.inHand, WPc.batchW] at habs
    apply WCtx.startSync_wu _ b t hok hnd
    · simpa [WPc.inHand] using hinc'
    · simp only [WCtx.wrote_w, WCtx.wrote_fs]
      refine habs.congr_fs (Fs.ids_write _ _ _) ?_ ?_
      · rw [fdata_write_len_C3 _ _ _ hcur']
        simp
      · intro n hn
        rw [fdata_write_len_C3 _ _ _ hcur', if_neg (incr_not_mem_C3 hinc' n hn)]
        rfl
  · -- a complete write, more to do
    intro d d' rest b t hpc _ _ _
    rw [hpc] at habs hinc' hok
    apply WUA.wu
    simp only [WCtx.setPc_w, WCtx.setPc_fs, WCtx.wrote_w, WCtx.wrote_fs, Worker.cur, Worker.rest,
      WPc.todoBytes, WPc.inHand, WPc.batchW]
    simp only [WPc.todoBytes, WPc.inHand, WPc.batchW] at habs
    refine habs.congr_fs (Fs.ids_write _ _ _) ?_ ?_
    · rw [fdata_write_len_C3 _ _ _ hcur']
      simp only [if_true, List.flatten_cons, List.length_append]
      omega
    · intro n hn
      rw [fdata_write_len_C3 _ _ _ hcur', if_neg (incr_not_mem_C3 hinc' n hn)]
      rfl
  · intro b t hpc hf _ hnd
    rw [hpc] at habs hinc' hok
    exact WCtx.finishBatch_wu c b t true hok.1 hnd (by simpa [WPc.inHand] using hinc')
      (by simpa [WPc.todoBytes, WPc.inHand, WPc.batchW] using habs.noBatch)
  · intro b t f rest hpc hf _ _ hnd
    rw [hpc] at habs hinc' hok
    exact WCtx.finishBatch_wu _ b t false hok.1 hnd (by simpa [WPc.inHand] using hinc')
      (by simpa [WPc.todoBytes, WPc.inHand, WPc.batchW] using habs.noBatch)
  · -- an old file synced
    intro b t f rest hpc hf _ _ hnd
    rw [hpc] at habs hinc' hok
    have hne : rest ≠ [] := by
      intro h0
      have := hok.2
      rw [hf, h0] at this
      simp at this
    have hnew : newestId c.w.files = newestId rest := by rw [hf]; exact newestId_cons f hne
    simp only [WPc.todoBytes, WPc.inHand, WPc.batchW] at habs
    apply WCtx.startSync_wu _ b t hok.1 hnd
    · simp only [WCtx.synced_w, WCtx.setFiles_w]
      rw [← hnew]; simpa [WPc.inHand] using hinc'
    · simp only [WCtx.synced_w, WCtx.synced_fs, WCtx.setFiles_w, WCtx.setFiles_fs]
      rw [← hnew]
      exact habs.congr_fs (Fs.ids_sync _ _) (by rw [fdata_sync]; rfl) (fun n _ => by rw [fdata_sync])
  · intro b t hpc hf _ hnd
    rw [hpc] at habs hinc' hok
    exact WCtx.finishBatch_wu c b t true hok hnd (by simpa [WPc.inHand] using hinc')
      (by simpa [WPc.todoBytes, WPc.inHand, WPc.batchW] using habs.noBatch)
  · intro b t f rest hpc hf _ _ hnd
    rw [hpc] at habs hinc' hok
    exact WCtx.finishBatch_wu _ b t false hok hnd (by simpa [WPc.inHand] using hinc')
      (by simpa [WPc.todoBytes, WPc.inHand, WPc.batchW] using habs.noBatch)
  · -- the newest file synced
    intro b t f rest hpc hf _ _ hnd
    rw [hpc] at habs hinc' hok
    simp only [WPc.todoBytes, WPc.inHand, WPc.batchW] at habs
    apply WCtx.finishBatch_wu _ b t true hok hnd
    · simpa [WPc.inHand] using hinc'
    · simp only [WCtx.synced_w, WCtx.synced_fs]
      exact habs.noBatch.congr_fs (Fs.ids_sync _ _) (by rw [fdata_sync]; rfl) (fun n _ => by rw [fdata_sync])
  · intro hpc _ hnd
    rw [hpc] at habs hinc'
    exact WCtx.toRecv_wu c hnd (by simpa [WPc.todoBytes, WPc.inHand, WPc.batchW] using habs)
  · intro i rest _ _ _ hnd
    exact absurd (WCtx.die_dead _ _) hnd
  · intro i hpc _ _ hnd
    rw [hpc] at habs hinc'
    simp only [WPc.todoBytes, WPc.inHand, WPc.batchW] at habs
    apply WCtx.toRecv_wu _ hnd
    simp only [WCtx.unlinked_w, WCtx.unlinked_fs]
    exact (by simpa using habs : WUA c.fs (newestId c.w.files) 0 [] c.w.queue).congr_fs
      (Fs.ids_unlink _ _) (by rw [fdata_unlink]) (fun n _ => by rw [fdata_unlink])
  · intro i j rest hpc _ _ _
    rw [hpc] at habs hinc'
    apply WUA.wu
    simp only [WCtx.setPc_w, WCtx.setPc_fs, WCtx.unlinked_w, WCtx.unlinked_fs, Worker.cur, Worker.rest,
      WPc.todoBytes, WPc.inHand, WPc.batchW]
    simp only [WPc.todoBytes, WPc.inHand, WPc.batchW] at habs
    exact habs.congr_fs (Fs.ids_unlink _ _) (by rw [fdata_unlink]) (fun n _ => by rw [fdata_unlink])

end RaftLog
