/-
C02: which chunk files are linked. `LInv s fs w`: file ids are unique; every
live chunk has a linked file; every linked file is a live chunk, a chunk
scheduled for removal by the store (`s.removed`) or one the worker still has to
unlink (`Worker.toRemove`: postponed, being unlinked, or named by a queued
`removeChunks` request); and everything scheduled for removal lies below every
live chunk. Kept by every call, flush, worker step; with nothing scheduled the
linked ids are exactly the live chunk ids, in order (`LInv.linkedIds_eq`).
-/
import RaftLogModel.Proofs.ReplayCache
import RaftLogModel.Proofs.WorkerBlocks
namespace RaftLog

/-! ### `Fs.has` under the file operations -/

theorem Fs.has_update (fs : Fs) (i id : Nat) (g : File → File) (hg : ∀ f, (g f).id = f.id)
    (hl : ∀ f, (g f).linked = f.linked) : (fs.update i g).has id = fs.has id := by
  unfold Fs.has
  rw [Fs.find_update fs i id g hg]
  cases fs.find id with
  | none => rfl
  | some f =>
    simp only [Option.map_some]
    split
    · exact hl f
    · rfl

theorem Fs.has_write (fs : Fs) (i : Nat) (bs : Bytes) (id : Nat) : (fs.write i bs).has id = fs.has id :=
  Fs.has_update fs i id _ (fun _ => rfl) (fun _ => rfl)

-- `Fs.has_sync` now lives in `Proofs/Recover.lean` (D15).

theorem Fs.has_unlink (fs : Fs) (i id : Nat) : (fs.unlink i).has id = (fs.has id && id != i) := by
  unfold Fs.has Fs.unlink
  rw [Fs.find_update fs i id (fun f => { f with linked := false }) (fun _ => rfl)]
  cases hf : fs.find id with
  | none => rfl
  | some f =>
    have hid := Fs.find_id hf
    simp only [Option.map_some, hid]
    by_cases h : id = i
    · subst h; simp
    · simp [h]

theorem Fs.has_create (fs : Fs) (n id : Nat) :
    (fs.create n).has id = (if id = n then true else fs.has id) := by
  by_cases h : id = n
  · subst h
    unfold Fs.has
    rw [Fs.find_create_self]
    simp
  · unfold Fs.has
    rw [Fs.find_create_ne fs h]
    simp [h]

theorem Fs.ids_create_eq (fs : Fs) (n : Nat) :
    Fs.ids (fs.create n) = (Fs.ids fs).filter (fun i => i != n) ++ [n] := by
  unfold Fs.ids Fs.create
  simp [List.filter_map, Function.comp_def]

theorem Fs.ids_create_nodup {fs : Fs} (h : (Fs.ids fs).Nodup) (n : Nat) :
    (Fs.ids (fs.create n)).Nodup := by
  rw [Fs.ids_create_eq]
  rw [List.nodup_append]
  refine ⟨h.filter _, by simp, ?_⟩
  intro a ha b hb
  simp only [List.mem_singleton] at hb
  subst hb
  have := (List.mem_filter.mp ha).2
  simpa using this

theorem eq_of_nodup_ids {fs : Fs} (hn : (Fs.ids fs).Nodup) {a b : File} (ha : a ∈ fs) (hb : b ∈ fs)
    (h : a.id = b.id) : a = b := by
  induction fs with
  | nil => cases ha
  | cons x xs ih =>
    simp only [Fs.ids, List.map_cons, List.nodup_cons] at hn
    rcases List.mem_cons.mp ha with e1 | e1 <;> rcases List.mem_cons.mp hb with e2 | e2
    · rw [e1, e2]
    · subst e1
      exact absurd (List.mem_map.mpr ⟨b, e2, h.symm⟩) hn.1
    · subst e2
      exact absurd (List.mem_map.mpr ⟨a, e1, h⟩) hn.1
    · exact ih hn.2 e1 e2

theorem Fs.has_iff {fs : Fs} (hn : (Fs.ids fs).Nodup) (id : Nat) :
    fs.has id = true ↔ ∃ f ∈ fs, f.linked = true ∧ f.id = id := by
  unfold Fs.has
  constructor
  · intro h
    cases hf : fs.find id with
    | none => rw [hf] at h; cases h
    | some f =>
      rw [hf] at h
      exact ⟨f, List.mem_of_find?_eq_some hf, h, Fs.find_id hf⟩
  · rintro ⟨f, hf, hl, hid⟩
    cases hf' : fs.find id with
    | none =>
      exfalso
      have := (Fs.find_isSome_iff fs id).mpr (hid ▸ Fs.mem_ids hf)
      rw [hf'] at this; cases this
    | some f' =>
      have h1 : f' ∈ fs := List.mem_of_find?_eq_some hf'
      have h2 : f'.id = f.id := by rw [Fs.find_id hf', hid]
      have : f' = f := eq_of_nodup_ids hn h1 hf h2
      rw [this]; exact hl

/-! ### `linkedIds`: sorted, and its members -/

theorem insertNat_sorted {n : Nat} {l : List Nat} (hs : l.Pairwise (· < ·)) (hn : n ∉ l) :
    (insertNat n l).Pairwise (· < ·) := by
  induction l with
  | nil => simp [insertNat]
  | cons m rest ih =>
    rw [List.pairwise_cons] at hs
    have hne : n ≠ m := fun e => hn (e ▸ List.mem_cons_self)
    have hnr : n ∉ rest := fun e => hn (List.mem_cons_of_mem _ e)
    unfold insertNat
    split
    · rename_i hle
      rw [List.pairwise_cons]
      refine ⟨?_, List.pairwise_cons.mpr hs⟩
      intro x hx
      rcases List.mem_cons.mp hx with e | e
      · subst e; omega
      · have := hs.1 x e; omega
    · rename_i hle
      rw [List.pairwise_cons]
      refine ⟨?_, ih hs.2 hnr⟩
      intro x hx
      rcases (mem_insertNat _ _ _).mp hx with e | e
      · subst e; omega
      · exact hs.1 x e

theorem foldl_insertNat (L : List File) : ∀ acc : List Nat, acc.Pairwise (· < ·) →
    (L.map (·.id)).Nodup → (∀ f ∈ L, f.id ∉ acc) →
    (L.foldl (fun acc f => insertNat f.id acc) acc).Pairwise (· < ·) ∧
    ∀ x, x ∈ L.foldl (fun acc f => insertNat f.id acc) acc ↔ x ∈ acc ∨ x ∈ L.map (·.id) := by
  induction L with
  | nil => intro acc hs _ _; exact ⟨hs, fun x => by simp⟩
  | cons f rest ih =>
    intro acc hs hnd hdis
    simp only [List.map_cons, List.nodup_cons] at hnd
    simp only [List.foldl_cons]
    have hs1 := insertNat_sorted hs (hdis f List.mem_cons_self)
    have hdis1 : ∀ g ∈ rest, g.id ∉ insertNat f.id acc := by
      intro g hg hmem
      rcases (mem_insertNat _ _ _).mp hmem with e | e
      · exact hnd.1 (e ▸ List.mem_map.mpr ⟨g, hg, rfl⟩)
      · exact hdis g (List.mem_cons_of_mem _ hg) e
    obtain ⟨k1, k2⟩ := ih (insertNat f.id acc) hs1 hnd.2 hdis1
    refine ⟨k1, fun x => ?_⟩
    rw [k2, mem_insertNat]
    simp only [List.map_cons, List.mem_cons]
    constructor
    · rintro ((h | h) | h)
      · exact Or.inr (Or.inl h)
      · exact Or.inl h
      · exact Or.inr (Or.inr h)
    · rintro (h | h | h)
      · exact Or.inl (Or.inr h)
      · exact Or.inl (Or.inl h)
      · exact Or.inr h

theorem Fs.linkedIds_spec {fs : Fs} (hn : (Fs.ids fs).Nodup) :
    fs.linkedIds.Pairwise (· < ·) ∧ ∀ x, x ∈ fs.linkedIds ↔ fs.has x = true := by
  have hsub : ((fs.filter (fun f => f.linked)).map (·.id)).Nodup :=
    hn.sublist (List.Sublist.map _ List.filter_sublist)
  obtain ⟨k1, k2⟩ := foldl_insertNat (fs.filter (fun f => f.linked)) [] List.Pairwise.nil hsub
    (fun _ _ h => by cases h)
  refine ⟨k1, fun x => ?_⟩
  unfold Fs.linkedIds
  rw [k2, Fs.has_iff hn]
  simp only [List.not_mem_nil, false_or, List.mem_map, List.mem_filter]
  constructor
  · rintro ⟨f, ⟨h1, h2⟩, h3⟩; exact ⟨f, h1, h2, h3⟩
  · rintro ⟨f, h1, h2, h3⟩; exact ⟨f, ⟨h1, h2⟩, h3⟩

/-! ### Live chunk ids ascend -/

theorem chained_last_le (a : List Nat) (M : List (List Nat)) (hc : Chained (a :: M))
    (hlt : ∀ x ∈ M, x.headD 0 < lastOff x) : ∀ y ∈ M.map (fun o => o.headD 0), lastOff a ≤ y := by
  induction M generalizing a with
  | nil => intro y hy; cases hy
  | cons b M' ih =>
    intro y hy
    simp only [Chained] at hc
    simp only [List.map_cons, List.mem_cons] at hy
    rcases hy with e | e
    · subst e; omega
    · have h1 := ih b hc.2 (fun x hx => hlt x (List.mem_cons_of_mem _ hx)) y e
      have h2 := hlt b List.mem_cons_self
      omega

theorem chained_heads_sorted (L : List (List Nat)) (hc : Chained L)
    (hlt : ∀ x ∈ L, x.headD 0 < lastOff x) : (L.map (fun o => o.headD 0)).Pairwise (· < ·) := by
  induction L with
  | nil => exact List.Pairwise.nil
  | cons a M ih =>
    simp only [List.map_cons]
    rw [List.pairwise_cons]
    refine ⟨?_, ih hc.tail (fun x hx => hlt x (List.mem_cons_of_mem _ hx))⟩
    intro y hy
    have h1 := chained_last_le a M hc (fun x hx => hlt x (List.mem_cons_of_mem _ hx)) y hy
    have h2 := hlt a List.mem_cons_self
    omega

theorem JInv.chunk_head_lt {s : Store} {fs : Fs} {w : Worker} (h : JInv s fs w) :
    ∀ x ∈ s.chunks, x.headD 0 < lastOff x := by
  intro offs ho
  simp only [Store.chunks, List.mem_append, List.mem_map, List.mem_singleton] at ho
  rcases ho with ⟨c, hc, rfl⟩ | rfl
  · exact (h.closedBytes c hc).head_lt
  · exact h.openBytes.head_lt

theorem JInv.chunkIds_sorted {s : Store} {fs : Fs} {w : Worker} (h : JInv s fs w) :
    s.chunkIds.Pairwise (· < ·) :=
  chained_heads_sorted s.chunks h.chained h.chunk_head_lt

theorem Store.chunkIds_eq (s : Store) : s.chunkIds = s.closed.map Closed.id ++ [s.openId] := by
  simp [Store.chunkIds, Store.chunks, List.map_map, Store.openId, Function.comp_def, Closed.id]

/-! ### What the worker still has to unlink -/

def rmIds : List WReq → List Nat
  | [] => []
  | .removeChunks ids :: q => ids ++ rmIds q
  | .write _ _ _ :: q => rmIds q
  | .appendFile _ _ :: q => rmIds q

def WPc.unl : WPc → List Nat
  | .unlinking ids => ids
  | _ => []

def Worker.toRemove (w : Worker) : List Nat := w.postponed ++ w.pc.unl ++ rmIds (w.pc.inHand ++ w.queue)

theorem rmIds_append (a b : List WReq) : rmIds (a ++ b) = rmIds a ++ rmIds b := by
  induction a with
  | nil => rfl
  | cons r q ih => cases r <;> simp [rmIds, ih]

theorem rmIds_writes (b : List WReq) (hb : ∀ r ∈ b, r.isWrite = true) : rmIds b = [] := by
  induction b with
  | nil => rfl
  | cons r q ih =>
    cases r with
    | write u d cb => simp only [rmIds]; exact ih (fun x hx => hb x (List.mem_cons_of_mem _ hx))
    | appendFile n p => have := hb _ List.mem_cons_self; cases this
    | removeChunks ids => have := hb _ List.mem_cons_self; cases this

theorem rmIds_of_notWrite_cons (r : WReq) (q : List WReq) : rmIds (r :: q) = rmIds [r] ++ rmIds q := by
  rw [← rmIds_append]; rfl

theorem Worker.toRemove_push (w : Worker) (q : List WReq) (x : Nat) :
    x ∈ (w.push q).toRemove ↔ x ∈ w.toRemove ∨ x ∈ rmIds q := by
  simp only [Worker.toRemove, Worker.push, ← List.append_assoc, rmIds_append, List.mem_append]

theorem Worker.toRemove_settle (w : Worker) : w.settle.toRemove = w.toRemove := by
  unfold Worker.settle
  split
  · rename_i r q hpc hq
    simp [Worker.toRemove, hpc, hq, WPc.inHand, WPc.unl]
  · rfl

/-- `w'` has exactly `post` and the removal requests of `rest` left to unlink. -/
def TRel (post : List Nat) (rest : List WReq) (w' : Worker) : Prop :=
  ∀ x, x ∈ w'.toRemove ↔ (x ∈ post ∨ x ∈ rmIds rest)

theorem WCtx.toRecv_trel (c : WCtx) : TRel c.w.postponed c.w.queue c.toRecv.w := by
  intro x
  cases hq : c.w.queue with
  | nil =>
    by_cases hs : c.w.senderAlive = true
    · have e : c.toRecv = { c with w := { c.w with pc := .idle } } := by
        simp [WCtx.toRecv, hq, hs]
      rw [e]
      simp [Worker.toRemove, WPc.unl, WPc.inHand, hq, rmIds]
    · have e : c.toRecv.w = { c.w with pc := .dead } := by
        simp [WCtx.toRecv, hq, hs, WCtx.emit]
      rw [e]
      simp [Worker.toRemove, WPc.unl, WPc.inHand, hq, rmIds]
  | cons r q =>
    have e : c.toRecv = { c with w := { c.w with pc := .got r, queue := q } } := by
      simp [WCtx.toRecv, hq]
    rw [e]
    simp [Worker.toRemove, WPc.unl, WPc.inHand]

theorem WCtx.nonFlush_trel (c : WCtx) (r : WReq) (hr : r.isWrite = false) :
    TRel c.w.postponed (r :: c.w.queue) (c.nonFlush r).w := by
  intro x
  cases r with
  | write u d cb => cases hr
  | appendFile n p =>
    have e : c.nonFlush (.appendFile n p) =
        ({ c with w := { c.w with files := c.w.files ++ [FileEnt.mk n p] } } : WCtx).toRecv := rfl
    rw [e, WCtx.toRecv_trel _ x]
    simp [rmIds]
  | removeChunks ids =>
    by_cases hl : c.w.lastSyncFailed = true
    · have e : c.nonFlush (.removeChunks ids) =
          ({ c with w := { c.w with postponed := c.w.postponed ++ ids } } : WCtx).toRecv := by
        simp [WCtx.nonFlush, hl]
      rw [e, WCtx.toRecv_trel _ x]
      simp [rmIds, or_assoc]
    · cases hall : c.w.postponed ++ ids with
      | nil =>
        have e : c.nonFlush (.removeChunks ids) = c.toRecv := by
          simp [WCtx.nonFlush, hl, hall]
        rw [e, WCtx.toRecv_trel _ x]
        have h1 : c.w.postponed = [] := (List.append_eq_nil_iff.mp hall).1
        have h2 : ids = [] := (List.append_eq_nil_iff.mp hall).2
        simp [rmIds, h1, h2]
      | cons i rest =>
        have e : c.nonFlush (.removeChunks ids) =
            { c with w := { c.w with pc := .unlinking (i :: rest), postponed := [] } } := by
          simp [WCtx.nonFlush, hl, hall]
        rw [e]
        simp only [Worker.toRemove, WPc.unl, WPc.inHand, List.nil_append, rmIds, List.mem_append]
        rw [← hall]
        simp [or_assoc]

theorem WCtx.finishBatch_trel (c : WCtx) (batch : List WReq) (tail : Option WReq) (ok : Bool)
    (ht : tailOK tail) : TRel c.w.postponed (tail.toList ++ c.w.queue) (c.finishBatch batch tail ok).w := by
  unfold WCtx.finishBatch
  cases tail with
  | none =>
    simp only
    have h := WCtx.nonFlush_trel ((batch.filterMap WReq.cbId).foldl (fun c i => c.emit (.cb i ok))
      { c with w := { c.w with lastSyncFailed := !ok } }) (.removeChunks []) rfl
    intro x
    rw [h x]
    simp [foldl_emit_w, rmIds]
  | some r =>
    cases r with
    | write u d cb => exact absurd (ht _ rfl) (by simp [WReq.isWrite])
    | appendFile n p =>
      simp only
      intro x
      rw [WCtx.nonFlush_trel _ (.removeChunks []) rfl x]
      simp [foldl_emit_w, rmIds]
    | removeChunks ids =>
      simp only
      have h := WCtx.nonFlush_trel ((batch.filterMap WReq.cbId).foldl (fun c i => c.emit (.cb i ok))
        { c with w := { c.w with lastSyncFailed := !ok } }) (.removeChunks ids) rfl
      simpa [foldl_emit_w] using h

theorem WCtx.startSync_trel (c : WCtx) (batch : List WReq) (tail : Option WReq) (ht : tailOK tail) :
    TRel c.w.postponed (tail.toList ++ c.w.queue) (c.startSync batch tail).w := by
  cases hf : c.w.files with
  | nil =>
    have e : c.startSync batch tail = c.finishBatch batch tail true := by
      simp [WCtx.startSync, hf]
    rw [e]
    exact WCtx.finishBatch_trel c batch tail true ht
  | cons f rest =>
    cases rest with
    | nil =>
      have e : (c.startSync batch tail).w = { c.w with pc := .syncNew batch tail } := by
        simp [WCtx.startSync, hf]
      rw [e]
      intro x
      simp [Worker.toRemove, WPc.unl, WPc.inHand]
    | cons g gs =>
      have e : (c.startSync batch tail).w = { c.w with pc := .syncOld batch tail } := by
        simp [WCtx.startSync, hf]
      rw [e]
      intro x
      simp [Worker.toRemove, WPc.unl, WPc.inHand]

theorem WCtx.startWrites_trel (c : WCtx) (batch : List WReq) (tail : Option WReq) (ht : tailOK tail) :
    TRel c.w.postponed (tail.toList ++ c.w.queue) (c.startWrites batch tail).w := by
  cases htodo : (batch.map WReq.data).filter (fun d => !d.isEmpty) with
  | nil =>
    have e : c.startWrites batch tail = c.startSync batch tail := by
      simp [WCtx.startWrites, htodo]
    rw [e]
    exact WCtx.startSync_trel c batch tail ht
  | cons d rest =>
    have e : c.startWrites batch tail =
        { c with w := { c.w with pc := .writing (d :: rest) batch tail } } := by
      simp [WCtx.startWrites, htodo]
    rw [e]
    intro x
    simp [Worker.toRemove, WPc.unl, WPc.inHand]

/-! ### One worker step: which files stay linked -/

structure WLink (c c' : WCtx) : Prop where
  sub : ∀ x ∈ c'.w.toRemove, x ∈ c.w.toRemove
  has : ∀ id, c'.fs.has id = c.fs.has id ∨ (c'.fs.has id = false ∧ id ∈ c.w.toRemove)
  sup : ∀ x ∈ c.w.toRemove, x ∈ c'.w.toRemove ∨ c'.fs.has x = false

theorem WLink.refl (c : WCtx) : WLink c c :=
  ⟨fun _ h => h, fun _ => Or.inl rfl, fun _ h => Or.inl h⟩

theorem WLink.trans {a b c : WCtx} (h1 : WLink a b) (h2 : WLink b c) : WLink a c := by
  refine ⟨fun x hx => h1.sub x (h2.sub x hx), fun id => ?_, fun x hx => ?_⟩
  · rcases h2.has id with e2 | ⟨e2, m2⟩
    · rcases h1.has id with e1 | ⟨e1, m1⟩
      · exact Or.inl (e2.trans e1)
      · exact Or.inr ⟨e2.trans e1, m1⟩
    · exact Or.inr ⟨e2, h1.sub id m2⟩
  · rcases h1.sup x hx with e1 | e1
    · exact h2.sup x e1
    · rcases h2.has x with e2 | ⟨e2, _⟩
      · exact Or.inr (e2.trans e1)
      · exact Or.inr e2

theorem WLink.of_same {c c' : WCtx} (hT : ∀ x, x ∈ c'.w.toRemove ↔ x ∈ c.w.toRemove)
    (hF : ∀ id, c'.fs.has id = c.fs.has id) : WLink c c' :=
  ⟨fun x hx => (hT x).1 hx, fun id => Or.inl (hF id), fun x hx => Or.inl ((hT x).2 hx)⟩

theorem WLink.of_unlink {c c' : WCtx} (i : Nat) (hi : i ∈ c.w.toRemove)
    (hT : ∀ x ∈ c'.w.toRemove, x ∈ c.w.toRemove)
    (hT2 : ∀ x ∈ c.w.toRemove, x ∈ c'.w.toRemove ∨ x = i)
    (hF : ∀ id, c'.fs.has id = (c.fs.has id && id != i)) : WLink c c' := by
  refine ⟨hT, fun id => ?_, fun x hx => ?_⟩
  · by_cases h : id = i
    · subst h; exact Or.inr ⟨by rw [hF]; simp, hi⟩
    · exact Or.inl (by rw [hF]; simp [h])
  · rcases hT2 x hx with e | e
    · exact Or.inl e
    · subst e; exact Or.inr (by rw [hF]; simp)

theorem WCtx.step_link (c : WCtx) (out : Outcome) (hok : c.w.pc.ok c.w.files)
    (hnd : (c.step out).w.pc ≠ .dead) : WLink c (c.step out) := by
  revert hnd
  apply WCtx.step_elim (P := fun c' => c'.w.pc ≠ .dead → WLink c c') c out
  · intro _ _ _; exact WLink.refl c
  · -- idle
    intro hpc _ _
    refine WLink.of_same (fun x => ?_) (fun id => by rw [WCtx.toRecv_fs])
    rw [WCtx.toRecv_trel c x]
    simp [Worker.toRemove, hpc, WPc.unl, WPc.inHand]
  · -- got a write
    intro r hpc hr _ _
    obtain ⟨h1, h2, h3⟩ := collectBatch_spec 1024 c.w.queue
    refine WLink.of_same (fun x => ?_) (fun id => by rw [WCtx.startWrites_fs]; rfl)
    rw [WCtx.startWrites_trel _ _ _ h3 x]
    simp only [WCtx.setQueue_w]
    have hq : rmIds ([r] ++ c.w.queue) = rmIds ((collectBatch 1024 c.w.queue).2.1.toList ++
        (collectBatch 1024 c.w.queue).2.2) := by
      conv => lhs; rw [h1]
      rw [rmIds_append, rmIds_append, rmIds_append, rmIds_writes _ h2,
        rmIds_writes [r] (by intro y hy; simp at hy; subst hy; exact hr), rmIds_append]
      simp
    simp only [Worker.toRemove, hpc, WPc.unl, WPc.inHand, hq, List.append_nil, List.mem_append]
  · -- got a non-write
    intro r hpc hr _ _
    refine WLink.of_same (fun x => ?_) (fun id => by rw [WCtx.nonFlush_fs])
    rw [WCtx.nonFlush_trel c r hr x]
    simp [Worker.toRemove, hpc, WPc.unl, WPc.inHand]
  · -- writing []
    intro b t hpc _ _
    have ht : tailOK t := by rw [hpc] at hok; exact hok
    refine WLink.of_same (fun x => ?_) (fun id => by rw [WCtx.startSync_fs])
    rw [WCtx.startSync_trel c b t ht x]
    simp [Worker.toRemove, hpc, WPc.unl, WPc.inHand]
  · -- write fails
    intro d rest b t _ _ _ hnd
    exact absurd (WCtx.die_dead _ _) hnd
  · -- partial write
    intro d rest b t k hpc _ _ _ _ _
    refine WLink.of_same (fun x => ?_) (fun id => ?_)
    · simp [Worker.toRemove, hpc, WPc.unl, WPc.inHand]
    · simp [Fs.has_write]
  · -- last write
    intro d b t hpc _ _ _
    have ht : tailOK t := by rw [hpc] at hok; exact hok
    refine WLink.of_same (fun x => ?_) (fun id => by rw [WCtx.startSync_fs]; simp [Fs.has_write])
    rw [WCtx.startSync_trel _ b t ht x]
    simp [Worker.toRemove, hpc, WPc.unl, WPc.inHand]
  · -- more writes
    intro d d' rest b t hpc _ _ _
    refine WLink.of_same (fun x => ?_) (fun id => ?_)
    · simp [Worker.toRemove, hpc, WPc.unl, WPc.inHand]
    · simp [Fs.has_write]
  · -- syncOld, no files
    intro b t hpc _ _ _
    have ht : tailOK t := by rw [hpc] at hok; exact hok.1
    refine WLink.of_same (fun x => ?_) (fun id => by rw [WCtx.finishBatch_fs])
    rw [WCtx.finishBatch_trel c b t true ht x]
    simp [Worker.toRemove, hpc, WPc.unl, WPc.inHand]
  · -- syncOld fails
    intro b t f rest hpc _ _ _ _
    have ht : tailOK t := by rw [hpc] at hok; exact hok.1
    refine WLink.of_same (fun x => ?_) (fun id => by rw [WCtx.finishBatch_fs]; rfl)
    rw [WCtx.finishBatch_trel _ b t false ht x]
    simp [Worker.toRemove, hpc, WPc.unl, WPc.inHand]
  · -- syncOld ok
    intro b t f rest hpc _ _ _ _
    have ht : tailOK t := by rw [hpc] at hok; exact hok.1
    refine WLink.of_same (fun x => ?_) (fun id => by rw [WCtx.startSync_fs]; simp [Fs.has_sync])
    rw [WCtx.startSync_trel _ b t ht x]
    simp [Worker.toRemove, hpc, WPc.unl, WPc.inHand]
  · -- syncNew, no files
    intro b t hpc _ _ _
    have ht : tailOK t := by rw [hpc] at hok; exact hok
    refine WLink.of_same (fun x => ?_) (fun id => by rw [WCtx.finishBatch_fs])
    rw [WCtx.finishBatch_trel c b t true ht x]
    simp [Worker.toRemove, hpc, WPc.unl, WPc.inHand]
  · -- syncNew fails
    intro b t f rest hpc _ _ _ _
    have ht : tailOK t := by rw [hpc] at hok; exact hok
    refine WLink.of_same (fun x => ?_) (fun id => by rw [WCtx.finishBatch_fs]; rfl)
    rw [WCtx.finishBatch_trel _ b t false ht x]
    simp [Worker.toRemove, hpc, WPc.unl, WPc.inHand]
  · -- syncNew ok
    intro b t f rest hpc _ _ _ _
    have ht : tailOK t := by rw [hpc] at hok; exact hok
    refine WLink.of_same (fun x => ?_) (fun id => by rw [WCtx.finishBatch_fs]; simp [Fs.has_sync])
    rw [WCtx.finishBatch_trel _ b t true ht x]
    simp [Worker.toRemove, hpc, WPc.unl, WPc.inHand]
  · -- unlinking []
    intro hpc _ _
    refine WLink.of_same (fun x => ?_) (fun id => by rw [WCtx.toRecv_fs])
    rw [WCtx.toRecv_trel c x]
    simp [Worker.toRemove, hpc, WPc.unl, WPc.inHand]
  · -- unlink fails
    intro i rest _ _ _ hnd
    exact absurd (WCtx.die_dead _ _) hnd
  · -- last unlink
    intro i hpc _ _ _
    refine WLink.of_unlink i ?_ (fun x hx => ?_) (fun x hx => ?_)
      (fun id => by rw [WCtx.toRecv_fs]; simp [Fs.has_unlink])
    · simp [Worker.toRemove, hpc, WPc.unl]
    · rw [WCtx.toRecv_trel _ x] at hx
      simp only [WCtx.unlinked_w] at hx
      simp only [Worker.toRemove, hpc, WPc.unl, WPc.inHand, List.nil_append, List.mem_append]
      rcases hx with h | h
      · exact Or.inl (Or.inl h)
      · exact Or.inr h
    · rw [WCtx.toRecv_trel _ x]
      simp only [WCtx.unlinked_w]
      simp only [Worker.toRemove, hpc, WPc.unl, WPc.inHand, List.nil_append, List.mem_append,
        List.mem_singleton] at hx
      rcases hx with (h | h) | h
      · exact Or.inl (Or.inl h)
      · exact Or.inr h
      · exact Or.inl (Or.inr h)
  · -- more unlinks
    intro i j rest hpc _ _ _
    refine WLink.of_unlink i ?_ (fun x hx => ?_) (fun x hx => ?_)
      (fun id => by simp [Fs.has_unlink])
    · simp [Worker.toRemove, hpc, WPc.unl]
    · simp only [WCtx.setPc_w, WCtx.unlinked_w, Worker.toRemove, WPc.unl, WPc.inHand, List.nil_append,
        List.mem_append] at hx
      simp only [Worker.toRemove, hpc, WPc.unl, WPc.inHand, List.nil_append, List.mem_append]
      rcases hx with (h | h) | h
      · exact Or.inl (Or.inl h)
      · exact Or.inl (Or.inr (List.mem_cons_of_mem _ h))
      · exact Or.inr h
    · simp only [WCtx.setPc_w, WCtx.unlinked_w, Worker.toRemove, WPc.unl, WPc.inHand, List.nil_append,
        List.mem_append]
      simp only [Worker.toRemove, hpc, WPc.unl, WPc.inHand, List.nil_append, List.mem_append] at hx
      rcases hx with (h | h) | h
      · exact Or.inl (Or.inl (Or.inl h))
      · rcases List.mem_cons.mp h with e | e
        · exact Or.inr e
        · exact Or.inl (Or.inl (Or.inr e))
      · exact Or.inl (Or.inr h)

theorem WCtx.runQuiet_link (n : Nat) : ∀ (c : WCtx), c.w.pc.ok c.w.files →
    (∀ a ∈ c.w.announced, a ∈ Fs.ids c.fs) → (WCtx.runQuiet n c).w.pc ≠ .dead →
    WLink c (WCtx.runQuiet n c) := by
  induction n with
  | zero => intro c _ _ _; exact WLink.refl c
  | succ n ih =>
    intro c hok hann hnd
    unfold WCtx.runQuiet at hnd ⊢
    split
    · exact WLink.refl c
    · rename_i hq
      simp only [hq] at hnd
      have hnd1 : (c.step .ok).w.pc ≠ .dead := by
        intro hdead
        rw [WCtx.runQuiet_dead n _ hdead] at hnd
        exact hnd hdead
      have g := WCtx.step_good c .ok hok (hann _ (by simp [Worker.announced])) hnd1
      have hids := WCtx.step_ids c .ok
      exact (WCtx.step_link c .ok hok hnd1).trans
        (ih _ g.wok (fun a ha => by rw [hids]; exact hann a (g.ann.subset ha)) hnd)

/-! ### The invariant -/

structure LInv (s : Store) (fs : Fs) (w : Worker) : Prop where
  nodup : (Fs.ids fs).Nodup
  live : ∀ id ∈ s.chunkIds, fs.has id = true
  dead : ∀ id, fs.has id = true → id ∈ s.chunkIds ∨ id ∈ s.removed ∨ id ∈ w.toRemove
  sep : ∀ x, (x ∈ s.removed ∨ x ∈ w.toRemove) → ∀ id ∈ s.chunkIds, x < id

/-- **With nothing scheduled for removal, the linked files are exactly the live
chunks**, oldest first. -/
theorem LInv.linkedIds_eq {s : Store} {fs : Fs} {w : Worker} (h : LInv s fs w) (hj : JInv s fs w)
    (hr : s.removed = []) (hw : w.toRemove = []) : fs.linkedIds = s.chunkIds := by
  obtain ⟨k1, k2⟩ := Fs.linkedIds_spec h.nodup
  apply sorted_ext (fun x : Nat => x) _ _ k1 hj.chunkIds_sorted
  intro x
  rw [k2]
  constructor
  · intro hx
    rcases h.dead x hx with e | e | e
    · exact e
    · rw [hr] at e; cases e
    · rw [hw] at e; cases e
  · exact h.live x

theorem LInv.of_fields {s s2 : Store} {fs : Fs} {w : Worker} (h : LInv s fs w)
    (h1 : s2.chunkIds = s.chunkIds) (h2 : s2.removed = s.removed) : LInv s2 fs w :=
  ⟨h.nodup, by rw [h1]; exact h.live, by rw [h1, h2]; exact h.dead, by rw [h1, h2]; exact h.sep⟩

theorem LInv.worker {s : Store} {c c' : WCtx} (h : LInv s c.fs c.w) (g : WLink c c')
    (hids : Fs.ids c'.fs = Fs.ids c.fs) : LInv s c'.fs c'.w := by
  refine ⟨by rw [hids]; exact h.nodup, fun id hid => ?_, fun id hid => ?_, fun x hx => ?_⟩
  · rcases g.has id with e | ⟨_, m⟩
    · rw [e]; exact h.live id hid
    · exact absurd (h.sep id (Or.inr m) id hid) (Nat.lt_irrefl _)
  · rcases g.has id with e | ⟨e, _⟩
    · rw [e] at hid
      rcases h.dead id hid with k | k | k
      · exact Or.inl k
      · exact Or.inr (Or.inl k)
      · rcases g.sup id k with k2 | k2
        · exact Or.inr (Or.inr k2)
        · rw [e] at k2; rw [hid] at k2; cases k2
    · rw [e] at hid; cases hid
  · rcases hx with k | k
    · exact h.sep x (Or.inl k)
    · exact h.sep x (Or.inr (g.sub x k))

theorem LInv.settle {s : Store} {fs : Fs} {w : Worker} (h : LInv s fs w) : LInv s fs w.settle :=
  ⟨h.nodup, h.live, by rw [Worker.toRemove_settle]; exact h.dead,
    by rw [Worker.toRemove_settle]; exact h.sep⟩

/-- Requests without removals. -/
theorem LInv.push_plain {s : Store} {fs : Fs} {w : Worker} (h : LInv s fs w) (q : List WReq)
    (hq : rmIds q = []) : LInv s fs (w.push q) := by
  have e : ∀ x, x ∈ (w.push q).toRemove ↔ x ∈ w.toRemove := by
    intro x; rw [Worker.toRemove_push, hq]; simp
  exact ⟨h.nodup, h.live, fun id hid => by rw [e]; exact h.dead id hid,
    fun x hx => h.sep x (by rw [e] at hx; exact hx)⟩

/-- Chunk rotation: a new linked file above everything. -/
theorem LInv.rotate {s s' : Store} {fs : Fs} {w : Worker} (h : LInv s fs w) (hj : JInv s fs w)
    (hoff : s'.openOffsets = [s.openEnd, s.openEnd + (encRecord (.state s.st)).length])
    (hclosed : s'.closed = s.closed ++ [⟨s.openOffsets, s.st⟩]) (hrem : s'.removed = s.removed) :
    LInv s' ((fs.create s.openEnd).write s.openEnd (encRecord (.state s.st)))
      (w.push ((if s.pending.isEmpty then [] else [.write s.openEnd s.pending none]) ++
        [.appendFile s.openEnd s.st.last])) := by
  have hids : s'.chunkIds = s.chunkIds ++ [s.openEnd] := by
    rw [Store.chunkIds_eq, Store.chunkIds_eq, hclosed]
    simp [Store.openId, hoff, Closed.id]
  have hq : rmIds ((if s.pending.isEmpty then [] else [WReq.write s.openEnd s.pending none]) ++
        [.appendFile s.openEnd s.st.last]) = [] := by
    by_cases hp : s.pending.isEmpty = true <;> simp [hp, rmIds]
  have hlt := hj.openId_lt
  have hopen : s.openId ∈ s.chunkIds := by rw [Store.chunkIds_eq]; simp
  have hhas : ∀ id, ((fs.create s.openEnd).write s.openEnd (encRecord (.state s.st))).has id
      = (if id = s.openEnd then true else fs.has id) := by
    intro id; rw [Fs.has_write, Fs.has_create]
  have e : ∀ x, x ∈ (w.push ((if s.pending.isEmpty then [] else [WReq.write s.openEnd s.pending none]) ++
        [.appendFile s.openEnd s.st.last])).toRemove ↔ x ∈ w.toRemove := by
    intro x; rw [Worker.toRemove_push, hq]; simp
  refine ⟨?_, fun id hid => ?_, fun id hid => ?_, fun x hx id hid => ?_⟩
  · rw [Fs.ids_write]; exact Fs.ids_create_nodup h.nodup _
  · rw [hhas]
    rw [hids] at hid
    rcases List.mem_append.mp hid with k | k
    · by_cases hx : id = s.openEnd
      · simp [hx]
      · simp only [hx, if_false]; exact h.live id k
    · simp at k; simp [k]
  · rw [hhas] at hid
    rw [hids, hrem, e]
    by_cases hx : id = s.openEnd
    · exact Or.inl (List.mem_append_right _ (by simp [hx]))
    · simp only [hx, if_false] at hid
      rcases h.dead id hid with k | k | k
      · exact Or.inl (List.mem_append_left _ k)
      · exact Or.inr (Or.inl k)
      · exact Or.inr (Or.inr k)
  · rw [hrem, e] at hx
    rw [hids] at hid
    rcases List.mem_append.mp hid with k | k
    · exact h.sep x hx id k
    · simp at k
      have := h.sep x hx s.openId hopen
      omega

theorem popObsolete_prefix_ids (upto : LogId) (l : List Closed) :
    ∃ pre, l = pre ++ (popObsolete upto l).2 ∧ (popObsolete upto l).1 = pre.map Closed.id := by
  induction l with
  | nil => exact ⟨[], rfl, rfl⟩
  | cons c rest ih =>
    unfold popObsolete
    split
    · exact ⟨[], rfl, rfl⟩
    · obtain ⟨pre, hpre, hids⟩ := ih
      refine ⟨c :: pre, ?_, ?_⟩
      · simp only [List.cons_append]; rw [← hpre]
      · simp only [List.map_cons]; rw [← hids]

/-- Purge: dropped chunks move to the removal list. -/
theorem LInv.pop {s s2 : Store} {fs : Fs} {w : Worker} (h : LInv s fs w) (hj : JInv s fs w)
    (pre : List Closed) (h3 : s2.openOffsets = s.openOffsets) (h5 : s.closed = pre ++ s2.closed)
    (h6 : s2.removed = s.removed ++ pre.map Closed.id) : LInv s2 fs w := by
  have e1 : s.chunkIds = pre.map Closed.id ++ s2.chunkIds := by
    rw [Store.chunkIds_eq, Store.chunkIds_eq, h5]
    simp [Store.openId, h3]
  have hsorted := hj.chunkIds_sorted
  rw [e1, List.pairwise_append] at hsorted
  refine ⟨h.nodup, fun id hid => h.live id (by rw [e1]; exact List.mem_append_right _ hid),
    fun id hid => ?_, fun x hx id hid => ?_⟩
  · rcases h.dead id hid with k | k | k
    · rw [e1] at k
      rcases List.mem_append.mp k with k' | k'
      · exact Or.inr (Or.inl (by rw [h6]; exact List.mem_append_right _ k'))
      · exact Or.inl k'
    · exact Or.inr (Or.inl (by rw [h6]; exact List.mem_append_left _ k))
    · exact Or.inr (Or.inr k)
  · have hid' : id ∈ s.chunkIds := by rw [e1]; exact List.mem_append_right _ hid
    rcases hx with k | k
    · rw [h6] at k
      rcases List.mem_append.mp k with k' | k'
      · exact h.sep x (Or.inl k') id hid'
      · exact hsorted.2.2 x k' id hid
    · exact h.sep x (Or.inr k) id hid'

/-- Flush: the removal list is handed to the worker. -/
theorem flush_L {s : Store} {fs : Fs} {w : Worker} (h : LInv s fs w) (cb : Option Nat) :
    LInv (s.flush cb).1 (effFs (s.flush cb).2 fs) (w.push (effQ (s.flush cb).2)) := by
  have hfs : effFs (s.flush cb).2 fs = fs := by
    unfold Store.flush
    by_cases hr : s.removed.isEmpty = true <;> simp [hr, effFs]
  have hq : ∀ x, x ∈ rmIds (effQ (s.flush cb).2) ↔ x ∈ s.removed := by
    intro x
    unfold Store.flush
    by_cases hr : s.removed.isEmpty = true
    · have : s.removed = [] := by simpa using hr
      simp [effQ, rmIds, this]
    · simp [hr, effQ, rmIds]
  have hids : (s.flush cb).1.chunkIds = s.chunkIds := rfl
  have hrem : (s.flush cb).1.removed = [] := rfl
  rw [hfs]
  refine ⟨h.nodup, by rw [hids]; exact h.live, fun id hid => ?_, fun x hx => ?_⟩
  · rw [hids, hrem, Worker.toRemove_push, hq]
    rcases h.dead id hid with k | k | k
    · exact Or.inl k
    · exact Or.inr (Or.inr (Or.inr k))
    · exact Or.inr (Or.inr (Or.inl k))
  · rw [hids]
    rw [hrem, Worker.toRemove_push, hq] at hx
    rcases hx with k | k | k
    · cases k
    · exact h.sep x (Or.inr k)
    · exact h.sep x (Or.inl k)

end RaftLog

namespace RaftLog

/-! ### Store calls -/

theorem tryCloseFull_L {s s' : Store} {fs : Fs} {w : Worker} {fsHas : Nat → Bool} {effs : List Eff}
    (hl : LInv s fs w) (hj : JInv s fs w) (heq : s.tryCloseFull fsHas = (.ok (), s', effs)) :
    LInv s' (effFs effs fs) (w.push (effQ effs)) := by
  unfold Store.tryCloseFull at heq
  by_cases hf : s.isOpenFull = true
  · by_cases he : fsHas s.openEnd = true
    · simp [hf, he] at heq
    · simp only [hf, he, Bool.not_true, Bool.false_eq_true, if_false, Prod.mk.injEq, true_and] at heq
      obtain ⟨rfl, rfl⟩ := heq
      have e1 : effFs ([Eff.create s.openEnd, Eff.writeHead s.openEnd (encRecord (.state s.st))] ++
          (if s.pending.isEmpty then [] else [Eff.send (.write s.openEnd s.pending none)]) ++
          [Eff.send (.appendFile s.openEnd s.st.last)]) fs
          = (fs.create s.openEnd).write s.openEnd (encRecord (.state s.st)) := by
        by_cases hp : s.pending.isEmpty = true <;> simp [effFs, hp]
      have e2 : effQ ([Eff.create s.openEnd, Eff.writeHead s.openEnd (encRecord (.state s.st))] ++
          (if s.pending.isEmpty then [] else [Eff.send (.write s.openEnd s.pending none)]) ++
          [Eff.send (.appendFile s.openEnd s.st.last)])
          = (if s.pending.isEmpty then [] else [.write s.openEnd s.pending none]) ++
            [.appendFile s.openEnd s.st.last] := by
        by_cases hp : s.pending.isEmpty = true <;> simp [effQ, hp]
      rw [e1, e2]
      exact hl.rotate hj rfl rfl rfl
  · simp only [hf, Bool.not_false, if_true, Prod.mk.injEq, true_and] at heq
    obtain ⟨rfl, rfl⟩ := heq
    simpa [effFs, effQ] using hl

theorem chunkIds_journal {s s3 : Store} {x : Nat} (hne : s.openOffsets ≠ [])
    (hoff : s3.openOffsets = s.openOffsets ++ [x]) (hc : s3.closed = s.closed) :
    s3.chunkIds = s.chunkIds := by
  rw [Store.chunkIds_eq, Store.chunkIds_eq, hc]
  simp only [Store.openId, hoff]
  rw [headD_append_of_ne_nil hne]

theorem appendAndApply_L {s : Store} {fs : Fs} {w : Worker} (fsHas : Nat → Bool) {r : Record}
    (hl : LInv s fs w) (h : JInv s fs w) (hr : r.WF) (hfs : ∀ i, s.openEnd ≤ i → fsHas i = false) :
    LInv (s.appendAndApply fsHas r).2.1 (effFs (s.appendAndApply fsHas r).2.2 fs)
      (w.push (effQ (s.appendAndApply fsHas r).2.2)) := by
  generalize hres : s.appendAndApply fsHas r = res
  unfold Store.appendAndApply at hres
  have hne := h.openBytes.ne_nil
  split at hres
  · subst hres; simpa [effFs, effQ] using hl
  · subst hres; simpa [effFs, effQ] using hl
  · rename_i st' hst
    simp only at hres
    have hstWF : st'.WF := apply_wf h.stWF hr hst
    split at hres
    · subst hres
      have := hl.of_fields (s2 := ({ s with pending := s.pending ++ encRecord r, openOffsets := s.openOffsets ++ [s.openEnd + (encRecord r).length] } : Store))
        (chunkIds_journal hne rfl rfl) rfl
      simpa [effFs, effQ] using this
    · rename_i s2 hs2
      obtain ⟨hlog2, f1, f2, f3, f4⟩ := applyIndex_fields (s := ({ s with pending := s.pending ++ encRecord r, openOffsets := s.openOffsets ++ [s.openEnd + (encRecord r).length] } : Store)) hr h.logWF hs2
      obtain ⟨hj, e1, e2, e3⟩ := h.journal (s3 := ({ s2 with st := st' } : Store)) (r := r) hr hstWF hlog2
        (by rw [f2]) (by rw [f3]) (by rw [f4])
      have hrem : s2.removed = s.removed := by
        cases r with
        | saveVote v => simp only [Store.applyIndex, Option.some.injEq] at hs2; subst hs2; rfl
        | commit id => simp only [Store.applyIndex, Option.some.injEq] at hs2; subst hs2; rfl
        | state x => simp only [Store.applyIndex, Option.some.injEq] at hs2; subst hs2; rfl
        | append id p => simp only [Store.applyIndex, Option.some.injEq] at hs2; subst hs2; rfl
        | truncateAfter o =>
          simp only [Store.applyIndex] at hs2
          split at hs2
          · cases hs2
          · simp only [Option.some.injEq] at hs2; subst hs2; rfl
        | purgeUpto id =>
          simp only [Store.applyIndex] at hs2
          split at hs2
          · cases hs2
          · simp only [Option.some.injEq] at hs2; subst hs2; rfl
      have hl3 : LInv ({ s2 with st := st' } : Store) fs w :=
        hl.of_fields (chunkIds_journal (x := s.openEnd + (encRecord r).length) hne (by rw [f2]) (by rw [f4])) hrem
      have hfs3 : fsHas ({ s2 with st := st' } : Store).openEnd = false := hfs _ (by rw [e2]; omega)
      obtain ⟨s4, effs, heq, _, _, _, _, _⟩ := tryCloseFull_ok ({ s2 with st := st' } : Store) fsHas hfs3
      rw [heq] at hres
      simp only at hres
      subst hres
      exact tryCloseFull_L hl3 hj heq

theorem appendBatch_L (es : List (LogId × Bytes)) :
    ∀ (fsHas : Nat → Bool) (s : Store) (seg : Seg) (effs : List Eff) (fs : Fs) (w : Worker),
    LInv s (effFs effs fs) (w.push (effQ effs)) → JInv s (effFs effs fs) (w.push (effQ effs)) →
    (∀ e ∈ es, e.1.WF ∧ bytesWF e.2) → (∀ i, s.openEnd ≤ i → fsHas i = false) →
    LInv (Store.appendBatch fsHas es s seg effs).2.1
      (effFs (Store.appendBatch fsHas es s seg effs).2.2 fs)
      (w.push (effQ (Store.appendBatch fsHas es s seg effs).2.2)) := by
  induction es with
  | nil => intro fsHas s seg effs fs w hl _ _ _; exact hl
  | cons e rest ih =>
    intro fsHas s seg effs fs w hl h hes hfs
    obtain ⟨id, p⟩ := e
    have hr : (Record.append id p).WF := hes (id, p) List.mem_cons_self
    have g := appendAndApply_J fsHas h hr hfs
    have gl := appendAndApply_L fsHas hl h hr hfs
    by_cases hidxD12 : id.index + 1 = U64
    · rw [appendBatch_cons_refused_D12 _ _ _ _ _ _ _ hidxD12]
      exact hl
    rw [appendBatch_cons_small_D12 _ _ _ _ _ _ _ hidxD12]
    rcases hres : s.appendAndApply fsHas (.append id p) with ⟨res, s', e'⟩
    rw [hres] at g gl
    have ginv := g.inv
    simp only at ginv gl
    rw [← effFs_append, Worker.push_push, ← effQ_append] at ginv gl
    cases res with
    | ok seg' =>
      simp only
      refine ih _ s' seg' _ fs w gl ginv (fun e he => hes e (List.mem_cons_of_mem _ he)) ?_
      intro i hi
      have h1 := g.openEnd
      simp only [Bool.or_eq_false_iff]
      refine ⟨hfs i (by simp only at h1; omega), ?_⟩
      rw [List.any_eq_false]
      intro x hx hxe
      have : x = Eff.create i := by simpa using hxe
      subst this
      have := (g.creates i hx).2
      simp only at this
      omega
    | err k => exact gl
    | panic m => exact gl

theorem call_L {s : Store} {fs : Fs} {w : Worker} (fsHas : Nat → Bool) (op : Op)
    (hl : LInv s fs w) (h : JInv s fs w) (hop : op.WF) (hfs : ∀ i, s.openEnd ≤ i → fsHas i = false) :
    LInv (s.call fsHas op).2.1 (effFs (s.call fsHas op).2.2 fs) (w.push (effQ (s.call fsHas op).2.2)) := by
  have same : ∀ (x : Res Seg), LInv (x, s, ([] : List Eff)).2.1 (effFs (x, s, ([] : List Eff)).2.2 fs)
      (w.push (effQ (x, s, ([] : List Eff)).2.2)) := by
    intro x; simpa [effFs, effQ] using hl
  cases op with
  | saveVote v => exact appendAndApply_L fsHas hl h (r := .saveVote v) hop hfs
  | commit id => exact appendAndApply_L fsHas hl h (r := .commit id) hop hfs
  | saveUserData d =>
    refine appendAndApply_L fsHas hl h (r := .state { s.st with userData := d }) ?_ hfs
    obtain ⟨h1, h2, h3, h4, _⟩ := h.stWF
    exact ⟨h1, h2, h3, h4, by cases d <;> simp [Op.WF] at hop ⊢ <;> exact hop⟩
  | append es =>
    simp only [Store.call]
    split
    · exact same _
    · exact appendBatch_L es fsHas s _ [] fs w (by simpa [effFs, effQ] using hl)
        (by simpa [effFs, effQ] using h) hop hfs
  | truncate idx =>
    simp only [Store.call]
    split
    · exact same _
    · split
      · exact appendAndApply_L fsHas hl h (r := .truncateAfter s.st.purged) h.stWF.2.2.2.1 hfs
      · split
        · exact same _
        · split
          · exact same _
          · rename_i d hd
            obtain ⟨e, he, hed⟩ := logGet_mem hd
            have hwf : d.id.WF := by rw [← hed]; exact h.logWF e he
            exact appendAndApply_L fsHas hl h (r := .truncateAfter (some d.id)) hwf hfs
  | purge upto =>
    simp only [Store.call]
    split
    · exact same _
    split
    · exact same _
    · split
      · split
        · exact same _
        · exact same _
      · have g := appendAndApply_J fsHas h (r := .purgeUpto upto) hop hfs
        have gl := appendAndApply_L fsHas hl h (r := .purgeUpto upto) hop hfs
        split
        · rename_i seg s' effs heq
          rw [heq] at g gl
          obtain ⟨pre, hpre, hids⟩ := popObsolete_prefix_ids upto s'.closed
          exact gl.pop g.inv pre rfl hpre (by simp only [hids])
        · exact gl

/-! ### System level -/

/-- The linked-files invariant of a system with a live store. -/
def LSys (y : Sys) : Prop := ∃ s, y.store = some s ∧ LInv s y.fs y.worker

theorem LSys.call {y : Sys} (hl : LSys y) (h : J y) (op : Op) (hop : op.WF) : LSys (y.call op).2.1 := by
  obtain ⟨s, hs, hd, hj⟩ := h
  obtain ⟨s0, hs0, hli⟩ := hl
  rw [hs] at hs0; cases hs0
  have hfs := Fs.has_false_of_lt hj.fsLt
  rw [(Sys.call_eq y op s hs hd).1]
  exact ⟨_, rfl, (call_L y.fs.has op hli hj hop hfs).settle⟩

theorem LSys.flush {y : Sys} (hl : LSys y) (h : J y) (cb : Option Nat) : LSys (y.flush cb).2.1 := by
  obtain ⟨s, hs, hd, hj⟩ := h
  obtain ⟨s0, hs0, hli⟩ := hl
  rw [hs] at hs0; cases hs0
  rw [Sys.flush_eq y cb s hs hd]
  exact ⟨_, rfl, (flush_L hli cb).settle⟩

theorem LSys.worker {y : Sys} (hl : LSys y) (h : J y) (out : Outcome)
    (hnd : (y.workerStep out).1.worker.pc ≠ .dead) : LSys (y.workerStep out).1 := by
  obtain ⟨s, hs, hd, hj⟩ := h
  obtain ⟨s0, hs0, hli⟩ := hl
  rw [hs] at hs0; cases hs0
  simp only [Sys.workerStep, hs] at hnd ⊢
  have g := WCtx.step_link { w := y.worker, fs := y.fs, cache := s.cache } out hj.wok hnd
  have hids := WCtx.step_ids { w := y.worker, fs := y.fs, cache := s.cache } out
  have := LInv.worker (c := { w := y.worker, fs := y.fs, cache := s.cache }) hli g hids
  exact ⟨_, rfl, this.of_fields rfl rfl⟩

theorem LSys.workerIdle {y : Sys} (hl : LSys y) (h : J y)
    (hnd : y.workerIdle.1.worker.pc ≠ .dead) : LSys y.workerIdle.1 := by
  obtain ⟨s, hs, hd, hj⟩ := h
  obtain ⟨s0, hs0, hli⟩ := hl
  rw [hs] at hs0; cases hs0
  simp only [Sys.workerIdle, hs] at hnd ⊢
  have g := WCtx.runQuiet_link y.worker.fuel { w := y.worker, fs := y.fs, cache := s.cache }
    hj.wok hj.annFs hnd
  have hids := WCtx.runQuiet_ids y.worker.fuel { w := y.worker, fs := y.fs, cache := s.cache }
  have := LInv.worker (c := { w := y.worker, fs := y.fs, cache := s.cache }) hli g hids
  exact ⟨_, rfl, this.of_fields rfl rfl⟩

theorem LSys.drain {y : Sys} (hl : LSys y) : LSys y.drain := by
  obtain ⟨s, hs, hli⟩ := hl
  simp only [Sys.drain, hs]
  exact ⟨_, rfl, hli.of_fields rfl rfl⟩

theorem fresh_LSys (cfg : Cfg) : LSys (Sys.fresh cfg) := by
  have hshape : ∃ s, (Sys.fresh cfg).store = some s ∧ s.closed = [] ∧ s.removed = [] ∧
      s.openOffsets = [0, 0 + (encRecord (.state {})).length] ∧
      (Sys.fresh cfg).fs = [{ id := 0, data := encRecord (.state {}) }] ∧
      (Sys.fresh cfg).worker = { files := [⟨0, none⟩] } := by
    simp [Sys.fresh, Sys.open, openStore, Fs.linkedIds, openLoop, emptyStore, Fs.has, Fs.find,
      Fs.create, Fs.write, Fs.update]
  obtain ⟨s, hs, h3, h4, h5, h6, h7⟩ := hshape
  have hids : s.chunkIds = [0] := by
    rw [Store.chunkIds_eq, h3]; simp [Store.openId, h5]
  have htr : (Sys.fresh cfg).worker.toRemove = [] := by
    rw [h7]; simp [Worker.toRemove, WPc.unl, WPc.inHand, rmIds]
  refine ⟨s, hs, ?_, ?_, ?_, ?_⟩
  · rw [h6]; simp [Fs.ids]
  · intro id hid
    rw [hids] at hid
    simp at hid; subst hid
    rw [h6]; simp [Fs.has, Fs.find]
  · intro id hid
    rw [h6] at hid
    left
    rw [hids]
    by_cases e : id = 0
    · simp [e]
    · exfalso
      have : (0 == id) = false := by
        apply beq_false_of_ne; exact fun x => e x.symm
      simp [Fs.has, Fs.find, this] at hid
  · intro x hx
    rw [h4, htr] at hx
    rcases hx with k | k <;> cases k

theorem LSys.step {y : Sys} (hl : LSys y) (h : J y) (st : Step) (hst : st.journal = true)
    (hwf : ∀ op, st = .call op → op.WF) (hnd : (y.step st).worker.pc ≠ .dead) : LSys (y.step st) := by
  cases st with
  | drop => cases hst
  | openWith c => cases hst
  | drain => exact hl.drain
  | call op => exact hl.call h op (hwf op rfl)
  | flush cb => exact hl.flush h cb
  | worker out => exact hl.worker h out hnd
  | workerIdle => exact hl.workerIdle h hnd

theorem run_LSys (steps : List Step) : ∀ (y : Sys), LSys y → J y → (∀ st ∈ steps, st.journal = true) →
    (∀ op ∈ stepOps steps, op.WF) → (y.run steps).worker.pc ≠ .dead → LSys (y.run steps) := by
  induction steps with
  | nil => intro y h _ _ _ _; exact h
  | cons st rest ih =>
    intro y hl h hst hwf hnd
    simp only [Sys.run, List.foldl_cons] at hnd ⊢
    have hrest : ∀ s ∈ rest, s.journal = true := fun s hs => hst s (List.mem_cons_of_mem _ hs)
    have hnd1 : (y.step st).worker.pc ≠ .dead := by
      intro hdead
      exact hnd (Sys.run_dead rest _ hrest hdead)
    have hwf1 : ∀ op, st = .call op → op.WF := by
      intro op e; subst e; exact hwf op (by simp [stepOps])
    have hwf2 : ∀ op ∈ stepOps rest, op.WF := by
      intro op hop
      apply hwf op
      cases st <;> simp [stepOps, hop]
    exact ih (y.step st) (hl.step h st (hst st List.mem_cons_self) hwf1 hnd1)
      (h.step st (hst st List.mem_cons_self) hwf1 hnd1) hrest hwf2 hnd

end RaftLog
