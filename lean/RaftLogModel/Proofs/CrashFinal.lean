/-
C03, assembly: `open` on a crash image of a reachable state returns the state
and index keys of the reference log after a prefix of the entry-level writes,
and that prefix contains every write journalled at or below the acknowledged
position.
-/
import RaftLogModel.Proofs.CrashHistSys
namespace RaftLog

/-- The durable part of every live chunk, in the form `crash_open_prefix_C3` asks for. -/
theorem DInv.live_durable_C3 {s : Store} {fs : Fs} {w : Worker} {A : Nat}
    {jc : List (Closed × List Record)} {jo : List Record} (h : DInv s fs w A)
    (g : RepG s fs w jc jo) :
    ∀ p ∈ liveChunksC3 s jc jo, ∀ f, fs.find p.1.id = some f →
      min (encAll p.2).length (A - p.1.id) ≤ f.durable := by
  intro p hp f hf
  obtain ⟨_, _, k3, _, _⟩ := liveChunks_recs_C3 g p hp
  have hmem : p.1.offsets ∈ s.chunks := by
    rw [← liveChunks_offsets_C3 g]; exact List.mem_map.mpr ⟨p, hp, rfl⟩
  have hlen : lastOff p.1.offsets - p.1.offsets.headD 0 = (encAll p.2).length := by
    have := lastOff_offsetsFrom p.1.id (recSizes p.2)
    rw [k3, ← encAll_length] at this
    simp only [Closed.id] at this
    omega
  have := h.dd p.1.offsets hmem f hf
  rw [hlen] at this
  exact this

/-- With no removal outstanding the linked files are exactly the live chunks. -/
theorem linked_of_no_removals_C3 {s : Store} {fs : Fs} {w : Worker} (hl : LInv s fs w)
    (hj : JInv s fs w) (hr : s.removed = []) (hw : w.toRemove = []) : fs.linkedIds = s.chunkIds :=
  hl.linkedIds_eq hj hr hw

/-- If the oldest live chunk is chunk 0, no chunk was ever dropped: nothing is
scheduled for removal. -/
theorem no_removals_of_jstart_zero_C3 {s : Store} {fs : Fs} {w : Worker} (hl : LInv s fs w)
    (h0 : s.jstart = 0) : s.removed = [] ∧ w.toRemove = [] := by
  have hmem := jstart_mem_C3 s
  rw [h0] at hmem
  constructor
  · apply List.eq_nil_iff_forall_not_mem.mpr
    intro x hx
    have := hl.sep x (Or.inl hx) 0 hmem
    omega
  · apply List.eq_nil_iff_forall_not_mem.mpr
    intro x hx
    have := hl.sep x (Or.inr hx) 0 hmem
    omega

/-- **C03, assembled on the invariants.** -/
theorem crash_prefix_core_C3 {y : Sys} {r : RefLog} {W : List Op} {B A E K : Nat}
    (h : HSys y r W B A E K) {s : Store} (hs : y.store = some s)
    (hrem : s.removed = []) (htr : y.worker.toRemove = []) (hBA : B ≤ A)
    {img : Fs} (hc : CrashImage y.fs img) (cfg' : Cfg)
    {s' : Store} {w' : Worker} {fs' : Fs} {evs : List Ev}
    (hopen : openStore cfg' img = (.ok (s', w'), fs', evs)) :
    ∃ n r', RefLog.run {} (W.take n) = some r' ∧ s'.st = r'.state ∧
      logKeys s'.log = entKeys r'.entries ∧ (E ≤ A → K ≤ n) ∧
      ∃ jc jo N0, RepG s y.fs y.worker jc jo ∧ W.length = N0 + cntW (allOps s jc jo) ∧
        ∀ Q, Q <+: allOps s jc jo → s.jstart + sizeSum Q ≤ A → N0 + cntW Q ≤ n := by
  obtain ⟨⟨s0, hs0, hd, hi⟩, ⟨s1, hs1, hli⟩, _, _⟩ := h
  rw [hs] at hs0 hs1; cases hs0; cases hs1
  obtain ⟨jc, jo, g, N0, hN, hmir, hbd, hcnt⟩ := hi.hist
  have hlinked := linked_of_no_removals_C3 hli hi.inv.j hrem htr
  obtain ⟨P, hP, q1, q2, q3⟩ := crash_open_prefix_C3 g hi.inv.j hli hlinked hc cfg' A
    (hi.dur.live_durable_C3 g) hopen
  have hB : B ≤ s.jstart + sizeSum P := by
    rcases hbd with e | ⟨Q, hQ, e⟩
    · omega
    · have := sizeSum_prefix_le (q3 Q hQ (by omega))
      omega
  obtain ⟨r', m1, m2, l, m3, m4⟩ := hmir P hP hB
  rw [q1] at m2; rw [q2] at m3
  refine ⟨N0 + cntW P, r', m1, Option.some.inj m2, ?_, ?_, jc, jo, N0, g, hN, ?_⟩
  · rw [Option.some.inj m3]; exact m4
  · intro hEA
    rcases hcnt with ⟨Q, hQ, e1, e2⟩ | ⟨_, e2⟩
    · have := cntW_prefix_le (q3 Q hQ (by omega))
      omega
    · omega
  · intro Q hQ hle
    have := cntW_prefix_le (q3 Q hQ hle)
    omega

/-- The invariants along every legal history from a freshly opened store. -/
theorem reach_HSys (cfg : Cfg) (steps : List Step) (r : RefLog)
    (hsteps : ∀ st ∈ steps, st.journal = true)
    (hlegal : RefLog.run {} (stepOps steps) = some r)
    (hwf : ∀ op ∈ stepOps steps, op.WF ∧ op.small)
    (halive : ((Sys.fresh cfg).run steps).worker.pc ≠ .dead) :
    HSys ((Sys.fresh cfg).run steps) r (expandOps {} (stepOps steps))
      ((Sys.fresh cfg).markRun steps 0) ((Sys.fresh cfg).ackRun steps 0) 0 0 := by
  have := run_HSys steps (Sys.fresh cfg) {} r [] 0 0 0 0 (fresh_HSys cfg) hsteps hlegal hwf halive
  simpa using this

/-- Track the current journal end and the current number of writes from now on. -/
theorem HSys.retarget {y : Sys} {r : RefLog} {W : List Op} {B A E K : Nat} (h : HSys y r W B A E K) :
    ∃ s, y.store = some s ∧ HSys y r W B A s.openEnd W.length := by
  obtain ⟨⟨s, hs, hd, hi⟩, h2⟩ := h
  obtain ⟨jc, jo, g, hg⟩ := hi.hist
  have hend := g.journal_end_C3 hi.inv.j
  refine ⟨s, hs, ⟨s, hs, hd, ⟨hi.inv, hi.run, ⟨jc, jo, g, ?_⟩, hi.mark, hi.markLe, hi.dur⟩⟩, h2⟩
  have := hg.retarget
  rw [hend] at this
  exact this

theorem stepOps_append (a b : List Step) : stepOps (a ++ b) = stepOps a ++ stepOps b := by
  induction a with
  | nil => rfl
  | cons st rest ih =>
    rw [List.cons_append, stepOps_cons, stepOps_cons st rest, ih, List.append_assoc]

theorem Sys.markRun_append (a b : List Step) : ∀ (y : Sys) (B : Nat),
    y.markRun (a ++ b) B = (y.run a).markRun b (y.markRun a B) := by
  induction a with
  | nil => intro y B; rfl
  | cons st rest ih =>
    intro y B
    simp only [List.cons_append, Sys.markRun, Sys.run, List.foldl_cons]
    exact ih _ _

/-! ### The acknowledged position never moves back -/

theorem WCtx.le_ackStep (c : WCtx) (out : Outcome) (A : Nat) : A ≤ c.ackStep out A := by
  unfold WCtx.ackStep
  split
  · split
    · exact Nat.le_refl _
    · exact Nat.le_max_left _ _
  · exact Nat.le_refl _

theorem WCtx.le_ackQuiet (n : Nat) : ∀ (c : WCtx) (A : Nat), A ≤ WCtx.ackQuiet n c A := by
  induction n with
  | zero => intro c A; exact Nat.le_refl _
  | succ n ih =>
    intro c A
    unfold WCtx.ackQuiet
    split
    · exact Nat.le_refl _
    · exact Nat.le_trans (c.le_ackStep .ok A) (ih _ _)

theorem Sys.le_ackStep (y : Sys) (st : Step) (A : Nat) : A ≤ y.ackStep st A := by
  unfold Sys.ackStep
  split
  · exact WCtx.le_ackStep _ _ _
  · exact WCtx.le_ackQuiet _ _ _
  · exact Nat.le_refl _

theorem Sys.le_ackRun (steps : List Step) : ∀ (y : Sys) (A : Nat), A ≤ y.ackRun steps A := by
  induction steps with
  | nil => intro y A; exact Nat.le_refl _
  | cons st rest ih =>
    intro y A
    exact Nat.le_trans (y.le_ackStep st A) (ih _ _)

theorem Sys.ackRun_append (a b : List Step) : ∀ (y : Sys) (A : Nat),
    y.ackRun (a ++ b) A = (y.run a).ackRun b (y.ackRun a A) := by
  induction a with
  | nil => intro y A; rfl
  | cons st rest ih =>
    intro y A
    simp only [List.cons_append, Sys.ackRun, Sys.run, List.foldl_cons]
    exact ih _ _

/-- The invariants at the end of `pre ++ post`, tracking the journal end and the
number of entry-level writes at the end of `pre`. -/
theorem reach_HSys_at (cfg : Cfg) (pre post : List Step) (r : RefLog)
    (hsteps : ∀ st ∈ pre ++ post, st.journal = true)
    (hlegal : RefLog.run {} (stepOps (pre ++ post)) = some r)
    (hwf : ∀ op ∈ stepOps (pre ++ post), op.WF ∧ op.small)
    (halive : ((Sys.fresh cfg).run (pre ++ post)).worker.pc ≠ .dead) :
    ∃ s1, ((Sys.fresh cfg).run pre).store = some s1 ∧
      HSys ((Sys.fresh cfg).run (pre ++ post)) r (expandOps {} (stepOps (pre ++ post)))
        ((Sys.fresh cfg).markRun (pre ++ post) 0) ((Sys.fresh cfg).ackRun (pre ++ post) 0)
        s1.openEnd (expandOps {} (stepOps pre)).length := by
  have hpre : ∀ st ∈ pre, st.journal = true := fun st h => hsteps st (List.mem_append_left _ h)
  have hpost : ∀ st ∈ post, st.journal = true := fun st h => hsteps st (List.mem_append_right _ h)
  have hrun : (Sys.fresh cfg).run (pre ++ post) = ((Sys.fresh cfg).run pre).run post := by
    simp [Sys.run, List.foldl_append]
  rw [stepOps_append, RefLog.run_append] at hlegal
  cases hr1 : RefLog.run {} (stepOps pre) with
  | none => rw [hr1] at hlegal; cases hlegal
  | some r1 =>
    rw [hr1] at hlegal
    simp only [Option.bind_some] at hlegal
    have halive1 : ((Sys.fresh cfg).run pre).worker.pc ≠ .dead := by
      intro hdead
      apply halive
      rw [hrun]
      exact Sys.run_dead post _ hpost hdead
    have h1 := reach_HSys cfg pre r1 hpre hr1
      (fun op hop => hwf op (by rw [stepOps_append]; exact List.mem_append_left _ hop)) halive1
    obtain ⟨s1, hs1, h1'⟩ := h1.retarget
    refine ⟨s1, hs1, ?_⟩
    have h2 := run_HSys post _ r1 r _ _ _ _ _ h1' hpost hlegal
      (fun op hop => hwf op (by rw [stepOps_append]; exact List.mem_append_right _ hop))
      (by rw [← hrun]; exact halive)
    rw [hrun, stepOps_append, expandOps_append _ _ {} r1 hr1, Sys.markRun_append, Sys.ackRun_append]
    exact h2


end RaftLog
