/-
Helpers for Props/AnyHistory.lean (the per-history theorems lifted to every history of
well-formed calls through the normalisation `normalizeC6N`). All names carry the
suffix `ANY`.
-/
import RaftLogModel.Props.C06Normal
import RaftLogModel.Props.C05Crash
import RaftLogModel.Props.C07Trunc
import RaftLogModel.Props.C08Sys
import RaftLogModel.Props.C14Busy
import RaftLogModel.Props.C04Sys
namespace RaftLog

/-- The normalisation of `a ++ b` from the empty log. -/
theorem normalize_split_ANY (a b : List Step) :
    (normalizeC6N {} (a ++ b)).1 =
      (normalizeC6N {} a).1 ++ (normalizeC6N (normalizeC6N {} a).2 b).1 := by
  rw [normalize_append_C6N]

theorem Sys.run_append_ANY (y : Sys) (a b : List Step) : y.run (a ++ b) = (y.run a).run b := by
  simp only [Sys.run, List.foldl_append]

/-- The hypotheses of the any-history theorems pass to a prefix of the history. -/
theorem prefix_hyps_ANY (cfg : Cfg) (a b : List Step)
    (hsteps : ∀ st ∈ a ++ b, st.journal = true) (hwf : ∀ op ∈ stepOps (a ++ b), op.WF)
    (hpurge : purgesLegalC6N {} (a ++ b) = true)
    (halive : ((Sys.fresh cfg).run (a ++ b)).worker.pc ≠ .dead) :
    (∀ st ∈ a, st.journal = true) ∧ (∀ op ∈ stepOps a, op.WF) ∧
    purgesLegalC6N {} a = true ∧ ((Sys.fresh cfg).run a).worker.pc ≠ .dead := by
  have hjb : ∀ st ∈ b, st.journal = true := fun st hst => hsteps st (List.mem_append_right _ hst)
  refine ⟨fun st hst => hsteps st (List.mem_append_left _ hst), ?_, ?_, ?_⟩
  · intro op hop; apply hwf; rw [stepOps_append]; exact List.mem_append_left _ hop
  · rw [purgesLegal_append_C6N, Bool.and_eq_true] at hpurge; exact hpurge.1
  · intro hdead
    apply halive
    rw [Sys.run_append_ANY]
    exact Sys.run_dead b _ hjb hdead

/-! ### `AppendsFresh` passes to the normalised history -/

theorem appendedIds_append_ANY (a b : List Op) :
    appendedIdsC7b (a ++ b) = appendedIdsC7b a ++ appendedIdsC7b b := by
  induction a with
  | nil => rfl
  | cons op rest ih =>
    cases op <;> simp only [List.cons_append, appendedIdsC7b, ih, List.append_assoc]

theorem acceptedPrefix_prefix_ANY (es : List (LogId × Bytes)) (r : RefLog) :
    (acceptedPrefixC6N r es).1 <+: es := by
  rcases (acceptedPrefix_spec_C6N es r).2.2 with h | ⟨id, p, rest, h, _⟩
  · rw [h]; exact List.prefix_refl _
  · exact ⟨_, h.symm⟩

theorem consOpt_eq_append_ANY (o : Option Step) (l : List Step) :
    consOptC6N o l = consOptC6N o [] ++ l := by
  cases o <;> rfl

/-- One normalisation step appends a sublist (a prefix of the batch, or nothing less). -/
theorem normStep_appendedIds_ANY (r : RefLog) (st : Step) :
    (appendedIdsC7b (stepOps (consOptC6N (normStepC6N r st).1 []))).Sublist
      (appendedIdsC7b (stepOps [st])) := by
  have keep : ∀ op, (∀ es, op ≠ .append es) →
      (appendedIdsC7b (stepOps (consOptC6N (keepIfOkC6N r op).1 []))).Sublist
        (appendedIdsC7b (stepOps [.call op])) := by
    intro op hop
    have e : appendedIdsC7b (stepOps [.call op]) = [] := by
      cases op <;> first | rfl | exact absurd rfl (hop _)
    rw [e]
    unfold keepIfOkC6N
    cases r.call op with
    | ok r' => simp only [consOptC6N]; rw [e]; exact List.Sublist.refl _
    | error k => exact List.Sublist.refl _
  cases st with
  | call op =>
    cases op with
    | append es =>
      simp only [normStepC6N, consOptC6N, stepOps, appendedIdsC7b, List.append_nil]
      exact ((acceptedPrefix_prefix_ANY es r).sublist).map _
    | purge id =>
      simp only [normStepC6N]
      split
      · simp only [consOptC6N, stepOps, appendedIdsC7b]; exact List.Sublist.refl _
      · exact keep _ (fun es h => by cases h)
    | saveVote v => exact keep _ (fun es h => by cases h)
    | commit id => exact keep _ (fun es h => by cases h)
    | truncate idx => exact keep _ (fun es h => by cases h)
    | saveUserData d => exact keep _ (fun es h => by cases h)
  | _ => exact List.Sublist.refl _

/-- The ids appended by the normalised history are a sublist of those appended by the
history. -/
theorem normalize_appendedIds_ANY (steps : List Step) : ∀ (r : RefLog),
    (appendedIdsC7b (stepOps (normalizeC6N r steps).1)).Sublist (appendedIdsC7b (stepOps steps)) := by
  induction steps with
  | nil => intro r; exact List.Sublist.refl _
  | cons st rest ih =>
    intro r
    simp only [normalizeC6N]
    rw [consOpt_eq_append_ANY, stepOps_append, appendedIds_append_ANY, stepOps_cons st rest,
      appendedIds_append_ANY]
    exact (normStep_appendedIds_ANY r st).append (ih _)

/-- **`AppendsFresh` of a history gives `AppendsFresh` of its normal form** (rejected
calls and rejected batch tails only REMOVE appended ids). -/
theorem appendsFresh_normalize_ANY (steps : List Step) (r : RefLog)
    (h : AppendsFresh steps = true) : AppendsFresh (normalizeC6N r steps).1 = true := by
  rw [c07t_appendsFresh_iff] at h ⊢
  exact h.sublist (normalize_appendedIds_ANY steps r)

end RaftLog
