/-
C04 at the SYSTEM level, for every history: callback accounting.

Every flush that registers a callback (`requestedC4S`) is, at every moment, either
resolved (an `Ev.cb i _` or `Ev.cbDropped i` event was emitted: `resolvedC4S`) or still
held by the worker (`cbQueue`). One step of the system moves callbacks from the front
of the queue to the resolved list; the only reordering the model performs is in
`WCtx.die`, which reports the dropped callbacks in ascending id order (`isortC4S`).

All helper names carry the suffix `C4S`.
-/
import RaftLogModel.Proofs.PostponedD14
import RaftLogModel.Proofs.CrashAckSys
import RaftLogModel.Props.C14
namespace RaftLog

/-! ## Definitions -/

/-- ALL events of a step. -/
def Sys.stepEvsAll (y : Sys) : Step → List Ev
  | .call op => (y.call op).2.2
  | .flush cb => (y.flush cb).2.2
  | .worker out => (y.workerStep out).2
  | .workerIdle => y.workerIdle.2
  | .drain => []
  | .drop => y.dropStore.2
  | .openWith cfg => ({ y with cfg := cfg }).open.2.2

/-- All events along `Sys.run`. -/
def Sys.runEvsAll (y : Sys) : List Step → List Ev
  | [] => []
  | st :: rest => y.stepEvsAll st ++ (y.step st).runEvsAll rest

/-- Ids of the resolved callbacks (`cb i _` and `cbDropped i`), in event order. -/
def resolvedC4S (evs : List Ev) : List Nat :=
  evs.filterMap fun e => match e with
    | .cb i _ => some i
    | .cbDropped i => some i
    | _ => none

/-- Ids of the `cbDropped` events, in event order. -/
def droppedC4S (evs : List Ev) : List Nat :=
  evs.filterMap fun e => match e with
    | .cbDropped i => some i
    | _ => none

/-- The callback a step registers: a flush with a callback on an open store. -/
def reqStepC4S (y : Sys) : Step → List Nat
  | .flush cb => match y.store with
    | some _ => cb.toList
    | none => []
  | _ => []

/-- The callbacks registered along a history, in order. -/
def requestedC4S (y : Sys) : List Step → List Nat
  | [] => []
  | st :: rest => reqStepC4S y st ++ requestedC4S (y.step st) rest

/-- The order in which `WCtx.die` reports dropped callbacks (insertion sort, ascending). -/
def isortC4S (l : List Nat) : List Nat := l.foldl (fun acc i => insertNat i acc) []

/-- The step kills the worker thread. -/
def Sys.diesC4S (y : Sys) : Step → Bool
  | .worker out => match y.store with
    | some s => ({ w := y.worker, fs := y.fs, cache := s.cache } : WCtx).dies out
    | none => false
  | _ => false

/-! ## Lists -/

@[simp] theorem resolvedC4S_nil : resolvedC4S [] = [] := rfl
@[simp] theorem resolvedC4S_append (a b : List Ev) : resolvedC4S (a ++ b) = resolvedC4S a ++ resolvedC4S b := by
  simp [resolvedC4S]
@[simp] theorem droppedC4S_nil : droppedC4S [] = [] := rfl
@[simp] theorem droppedC4S_append (a b : List Ev) : droppedC4S (a ++ b) = droppedC4S a ++ droppedC4S b := by
  simp [droppedC4S]

theorem resolvedC4S_cbEvs (l : List (Nat × Bool)) : resolvedC4S (cbEvs l) = l.map Prod.fst := by
  induction l with
  | nil => rfl
  | cons p l ih =>
    simp only [cbEvs, List.map_cons, resolvedC4S, List.filterMap_cons] at *
    rw [ih]

theorem resolvedC4S_map_cbDropped (l : List Nat) : resolvedC4S (l.map Ev.cbDropped) = l := by
  induction l with
  | nil => rfl
  | cons p l ih =>
    simp only [List.map_cons, resolvedC4S, List.filterMap_cons] at *
    rw [ih]

theorem perm_insertNatC4S (n : Nat) (l : List Nat) : (insertNat n l).Perm (n :: l) := by
  induction l with
  | nil => exact .refl _
  | cons m rest ih =>
    unfold insertNat
    split
    · exact .refl _
    · exact (List.Perm.cons m ih).trans (List.Perm.swap n m rest)

theorem perm_foldl_insertNatC4S (l acc : List Nat) :
    (l.foldl (fun acc i => insertNat i acc) acc).Perm (acc ++ l) := by
  induction l generalizing acc with
  | nil => simp
  | cons a l ih =>
    simp only [List.foldl_cons]
    refine (ih _).trans ?_
    refine ((perm_insertNatC4S a acc).append_right l).trans ?_
    simp only [List.cons_append]
    exact (List.perm_middle (l₁ := acc) (l₂ := l) (a := a)).symm

theorem isortC4S_perm (l : List Nat) : (isortC4S l).Perm l := by
  have := perm_foldl_insertNatC4S l []
  simpa [isortC4S] using this

theorem cons_all_eqC4S (n : Nat) (l : List Nat) (h : ∀ x ∈ l, x = n) : n :: l = l ++ [n] := by
  induction l with
  | nil => rfl
  | cons m rest ih =>
    have hm : m = n := h m (by simp)
    subst hm
    rw [List.cons_append, ← ih (fun x hx => h x (by simp [hx]))]

theorem insertNat_sortedC4S (n : Nat) (acc : List Nat) (hs : acc.Pairwise (· ≤ ·))
    (hle : ∀ m ∈ acc, m ≤ n) : insertNat n acc = acc ++ [n] := by
  induction acc with
  | nil => rfl
  | cons m rest ih =>
    unfold insertNat
    rw [List.pairwise_cons] at hs
    by_cases hnm : n ≤ m
    · rw [if_pos hnm]
      have hm : m = n := Nat.le_antisymm (hle m (by simp)) hnm
      subst hm
      have hall : ∀ x ∈ m :: rest, x = m := by
        intro x hx
        rcases List.mem_cons.mp hx with rfl | hx
        · rfl
        · exact Nat.le_antisymm (hle x (by simp [hx])) (hs.1 x hx)
      exact cons_all_eqC4S m (m :: rest) hall
    · rw [if_neg hnm, ih hs.2 (fun x hx => hle x (by simp [hx]))]
      rfl

theorem foldl_insertNat_sortedC4S (l acc : List Nat) (h : (acc ++ l).Pairwise (· ≤ ·)) :
    l.foldl (fun acc i => insertNat i acc) acc = acc ++ l := by
  induction l generalizing acc with
  | nil => simp
  | cons a l ih =>
    simp only [List.foldl_cons]
    have h1 : insertNat a acc = acc ++ [a] := by
      apply insertNat_sortedC4S
      · exact (List.pairwise_append.mp h).1
      · intro m hm
        exact (List.pairwise_append.mp h).2.2 m hm a (by simp)
    rw [h1, ih _ (by simpa using h)]
    simp

theorem isortC4S_sorted (l : List Nat) (h : l.Pairwise (· ≤ ·)) : isortC4S l = l := by
  have := foldl_insertNat_sortedC4S l [] (by simpa using h)
  simpa [isortC4S] using this

/-! ## The worker machine -/

theorem resolvedC4S_single_write (t : String) (i : Nat) (bs : Bytes) (ok : Bool) :
    resolvedC4S [Ev.write t i bs ok] = [] := rfl
theorem resolvedC4S_single_sync (t : String) (i : Nat) (ok : Bool) : resolvedC4S [Ev.sync t i ok] = [] := rfl
theorem resolvedC4S_single_unlink (t : String) (i : Nat) (ok : Bool) : resolvedC4S [Ev.unlink t i ok] = [] := rfl
theorem resolvedC4S_single_boundary (o : Option LogId) : resolvedC4S [Ev.boundary o] = [] := rfl
theorem resolvedC4S_single_exit (ok : Bool) : resolvedC4S [Ev.workerExit ok] = [] := rfl

theorem WCtx.toRecv_resC4S (c : WCtx) : resolvedC4S c.toRecv.evs = resolvedC4S c.evs := by
  rcases c.toRecv_cases with ⟨r, q, _, h⟩ | ⟨_, _, h⟩ | ⟨_, _, h⟩ <;> rw [h] <;>
    simp [resolvedC4S_single_exit]

theorem WCtx.nonFlush_resC4S (c : WCtx) (r : WReq) : resolvedC4S (c.nonFlush r).evs = resolvedC4S c.evs := by
  rcases c.nonFlush_cases r with ⟨c0, h, _, he, _⟩ | ⟨ids, _, _, _, h⟩ <;> rw [h]
  · rw [WCtx.toRecv_resC4S, he]

theorem WCtx.finishBatch_resC4S (c : WCtx) (b : List WReq) (t : Option WReq) (ok : Bool) :
    resolvedC4S (c.finishBatch b t ok).evs = resolvedC4S c.evs ++ b.filterMap WReq.cbId := by
  rw [WCtx.finishBatch_eq, WCtx.nonFlush_resC4S, WCtx.fb1_evs, resolvedC4S_append, resolvedC4S_cbEvs,
    batchCbs_fst]

theorem WCtx.startSync_resC4S (c : WCtx) (b : List WReq) (t : Option WReq) (hf : c.w.files ≠ []) :
    resolvedC4S (c.startSync b t).evs = resolvedC4S c.evs := by
  rcases c.startSync_cases b t with ⟨h, _⟩ | ⟨f, _, he⟩ | ⟨_, he⟩
  · exact absurd h hf
  · rw [he]; simp [resolvedC4S_single_boundary]
  · rw [he]

theorem WCtx.startWrites_resC4S (c : WCtx) (b : List WReq) (t : Option WReq) (hf : c.w.files ≠ []) :
    resolvedC4S (c.startWrites b t).evs = resolvedC4S c.evs := by
  rcases c.startWrites_cases b t with ⟨_, he⟩ | ⟨_, he⟩ <;> rw [he]
  exact c.startSync_resC4S b t hf

/-- A step that does not kill the worker resolves exactly the callbacks it acknowledges. -/
theorem WCtx.step_resC4S (c : WCtx) (out : Outcome) (hw : c.w.WF) (hd : c.dies out = false) :
    resolvedC4S (c.step out).evs = resolvedC4S c.evs ++ (stepCbs c out).map Prod.fst := by
  apply c.step_elim (P := fun c' => resolvedC4S c'.evs = resolvedC4S c.evs ++ (stepCbs c out).map Prod.fst) out
  · intro hpc _; simp [stepCbs, hpc]
  · intro hpc _; rw [WCtx.toRecv_resC4S]; simp [stepCbs, hpc]
  · intro r hpc hr _
    rw [WCtx.startWrites_resC4S _ _ _ (by simpa using hw.files_ne (by simp [hpc]))]
    simp [stepCbs, hpc]
  · intro r hpc hr _
    rw [WCtx.nonFlush_resC4S]; simp [stepCbs, hpc]
  · intro b t hpc _
    rw [WCtx.startSync_resC4S _ _ _ (hw.files_ne (by simp [hpc]))]; simp [stepCbs, hpc]
  · intro d rest b t hpc ho _
    simp [WCtx.dies, hpc, ho] at hd
  · intro d rest b t k hpc _ _ _ _
    simp [stepCbs, hpc, resolvedC4S_single_write]
  · intro d b t hpc _ _
    rw [WCtx.startSync_resC4S _ _ _ (by simpa using hw.files_ne (by simp [hpc]))]
    simp [stepCbs, hpc, resolvedC4S_single_write]
  · intro d d' rest b t hpc _ _
    simp [stepCbs, hpc, resolvedC4S_single_write]
  · intro b t hpc hf _
    exact absurd hf (hw.files_ne (by simp [hpc]))
  · intro b t f rest hpc hf ho _
    rw [WCtx.finishBatch_resC4S]
    simp [stepCbs, hpc, ho, resolvedC4S_single_sync]
  · intro b t f rest hpc hf ho _
    have : rest ≠ [] := by
      simp only [Worker.WF, hpc, hf, List.length_cons] at hw
      intro h0; rw [h0] at hw; simp at hw
    rw [WCtx.startSync_resC4S _ _ _ (by simpa using this)]
    simp [stepCbs, hpc, ho, resolvedC4S_single_sync]
  · intro b t hpc hf _
    exact absurd hf (hw.files_ne (by simp [hpc]))
  · intro b t f rest hpc hf ho _
    rw [WCtx.finishBatch_resC4S]
    simp [stepCbs, hpc, ho, resolvedC4S_single_sync]
  · intro b t f rest hpc hf ho _
    rw [WCtx.finishBatch_resC4S]
    simp [stepCbs, hpc, resolvedC4S_single_sync]
  · intro hpc _; rw [WCtx.toRecv_resC4S]; simp [stepCbs, hpc]
  · intro i rest hpc ho _
    simp [WCtx.dies, hpc, ho] at hd
  · intro i hpc _ _
    rw [WCtx.toRecv_resC4S]; simp [stepCbs, hpc, resolvedC4S_single_unlink]
  · intro i j rest hpc _ _
    simp [stepCbs, hpc, resolvedC4S_single_unlink]

theorem resolvedC4S_stepSys (c : WCtx) (out : Outcome) : resolvedC4S (stepSys c out) = [] := by
  unfold stepSys
  repeat' (first | rfl | split | dsimp only)

theorem filterMap_cbId_tailC4S {t : Option WReq} (ht : ∀ r, t = some r → r.isWrite = false) :
    t.toList.filterMap WReq.cbId = [] := by
  cases t with
  | none => rfl
  | some r => simp [not_isWrite_cbId (ht r rfl)]

/-- The dying step reports the whole callback queue as dropped, in ascending id order
(`WCtx.die` sorts), and leaves nothing queued. -/
theorem WCtx.step_dies_resC4S (c : WCtx) (out : Outcome) (hd : c.dies out = true)
    (ht : c.w.pc.tailNotWriteD14) :
    resolvedC4S (c.step out).evs = resolvedC4S c.evs ++ isortC4S (cbQueue c.w) ∧
    cbQueue (c.step out).w = [] := by
  obtain ⟨h1, _, h3⟩ := c.step_dies out hd
  refine ⟨?_, by rw [cbQueue, h1]; rfl⟩
  rw [h3]
  simp only [resolvedC4S_append, resolvedC4S_stepSys, resolvedC4S_map_cbDropped, resolvedC4S_single_exit,
    List.append_nil]
  congr 1
  obtain ⟨_, ⟨d, rest, b, t, hpc⟩ | ⟨j, rest, hpc⟩⟩ := WCtx.dies_cases hd
  · have ht' := ht.of_writing hpc
    rw [cbQueue_eq _ hpc]
    simp only [droppedIds, isortC4S, hpc, WPc.inHandW, WPc.batch, List.filterMap_append,
      filterMap_cbId_tailC4S ht', List.append_nil]
  · rw [cbQueue_eq _ hpc]
    simp [droppedIds, isortC4S, hpc, WPc.inHandW, WPc.batch]

/-- The all-ok run moves callbacks from the queue to the resolved list, in order. -/
theorem WCtx.runQuiet_resC4S (n : Nat) (c : WCtx) (hw : c.w.WF) :
    resolvedC4S (WCtx.runQuiet n c).evs ++ cbQueue (WCtx.runQuiet n c).w =
      resolvedC4S c.evs ++ cbQueue c.w := by
  induction n generalizing c with
  | zero => rfl
  | succ n ih =>
    cases hq : c.w.quiet with
    | true => rw [WCtx.runQuiet_of_quiet _ _ hq]
    | false =>
      rw [WCtx.runQuiet_succ_of_not_quiet _ _ hq, ih (c.step .ok) (c.step_wf .ok hw),
        c.step_resC4S .ok hw c.dies_ok, List.append_assoc, ← c.step_cbQueue .ok hw c.dies_ok]

theorem resolvedC4S_single_create (t : String) (i : Nat) (ok : Bool) : resolvedC4S [Ev.create t i ok] = [] := rfl

theorem applyEffs_aliveC4S (effs : List Eff) : ∀ (fs : Fs) (w : Worker) (evs : List Ev), w.pc ≠ .dead →
    resolvedC4S (applyEffs effs fs w evs).2.2.2 = resolvedC4S evs ∧
    cbQueue (applyEffs effs fs w evs).2.2.1 = cbQueue w ++ (effQ effs).filterMap WReq.cbId := by
  induction effs with
  | nil => intro fs w evs _; simp [applyEffs, effQ]
  | cons e rest ih =>
    intro fs w evs hp
    cases e with
    | create id =>
      obtain ⟨h1, h2⟩ := ih (fs.create id) w (evs ++ [.create "c" id true]) hp
      exact ⟨by rw [applyEffs_create, h1]; simp [resolvedC4S_single_create], by rw [applyEffs_create, h2]; rfl⟩
    | createFailed id =>
      obtain ⟨h1, h2⟩ := ih fs w (evs ++ [.create "c" id false]) hp
      have e : applyEffs (.createFailed id :: rest) fs w evs = applyEffs rest fs w (evs ++ [.create "c" id false]) := rfl
      exact ⟨by rw [e, h1]; simp [resolvedC4S_single_create], by rw [e, h2]; rfl⟩
    | writeHead id bs =>
      obtain ⟨h1, h2⟩ := ih (fs.write id bs) w (evs ++ [.write "c" id bs true]) hp
      exact ⟨by rw [applyEffs_writeHead, h1]; simp [resolvedC4S_single_write], by rw [applyEffs_writeHead, h2]; rfl⟩
    | send r =>
      obtain ⟨h1, h2⟩ := ih fs (w.push1 r) evs (by simpa using hp)
      rw [applyEffs_send_alive r rest fs w evs hp]
      refine ⟨h1, ?_⟩
      rw [h2, cbQueue_push]
      cases hr : r.cbId <;> simp [effQ, hr]

theorem applyEffs_deadC4S (effs : List Eff) : ∀ (fs : Fs) (w : Worker) (evs : List Ev), w.pc = .dead →
    (applyEffs effs fs w evs).2.2.1 = w ∧
    resolvedC4S (applyEffs effs fs w evs).2.2.2 =
      resolvedC4S evs ++ ((effQ effs).head?.bind WReq.cbId).toList := by
  induction effs with
  | nil => intro fs w evs _; simp [applyEffs, effQ]
  | cons e rest ih =>
    intro fs w evs hp
    cases e with
    | create id =>
      obtain ⟨h1, h2⟩ := ih (fs.create id) w (evs ++ [.create "c" id true]) hp
      exact ⟨by rw [applyEffs_create, h1], by rw [applyEffs_create, h2]; simp [resolvedC4S_single_create, effQ]⟩
    | createFailed id =>
      obtain ⟨h1, h2⟩ := ih fs w (evs ++ [.create "c" id false]) hp
      have e : applyEffs (.createFailed id :: rest) fs w evs = applyEffs rest fs w (evs ++ [.create "c" id false]) := rfl
      exact ⟨by rw [e, h1], by rw [e, h2]; simp [resolvedC4S_single_create, effQ]⟩
    | writeHead id bs =>
      obtain ⟨h1, h2⟩ := ih (fs.write id bs) w (evs ++ [.write "c" id bs true]) hp
      exact ⟨by rw [applyEffs_writeHead, h1], by rw [applyEffs_writeHead, h2]; simp [resolvedC4S_single_write, effQ]⟩
    | send r =>
      cases hr : r.cbId <;> simp [applyEffs, hp, effQ, hr, resolvedC4S]

theorem cbQueue_deadC4S {w : Worker} (hw : w.WF) (hp : w.pc = .dead) : cbQueue w = [] := by
  simp only [Worker.WF, hp] at hw
  simp [cbQueue, hp, WPc.batch, hw]

/-- What the proof carries along a history. -/
structure InvC4S (y : Sys) : Prop where
  wf : SysWF y
  post : SysPostD14 y
  idle : y.store = none → cbQueue y.worker = []
  lock : y.store ≠ none → y.locked = true

theorem Sys.call_projC4S (y : Sys) (op : Op) (s : Store) (hs : y.store = some s) :
    (y.call op).2.1.worker = (applyEffs (s.call y.fs.has op).2.2 y.fs y.worker []).2.2.1.settle ∧
    (y.call op).2.2 = (applyEffs (s.call y.fs.has op).2.2 y.fs y.worker []).2.2.2 ∧
    (y.call op).2.1.store ≠ none ∧ (y.call op).2.1.locked = y.locked := by
  simp [Sys.call, hs]

theorem Sys.flush_projC4S (y : Sys) (cb : Option Nat) (s : Store) (hs : y.store = some s) :
    (y.flush cb).2.1.worker = (applyEffs (s.flush cb).2 y.fs y.worker []).2.2.1.settle ∧
    (y.flush cb).2.2 = (applyEffs (s.flush cb).2 y.fs y.worker []).2.2.2 ∧
    (y.flush cb).2.1.store ≠ none ∧ (y.flush cb).2.1.locked = y.locked := by
  simp [Sys.flush, hs]

/-- The caller side: effects whose first request carries callback `cb` and whose other
requests carry none. -/
theorem applyEffs_acctC4S (effs : List Eff) (fs : Fs) (w : Worker) (cb : Option Nat) (hw : w.WF)
    (h1 : (effQ effs).filterMap WReq.cbId = cb.toList)
    (h2 : (effQ effs).head?.bind WReq.cbId = cb) :
    resolvedC4S (applyEffs effs fs w []).2.2.2 ++ cbQueue (applyEffs effs fs w []).2.2.1.settle =
      cbQueue w ++ cb.toList := by
  rw [cbQueue_settle]
  by_cases hp : w.pc = .dead
  · obtain ⟨k1, k2⟩ := applyEffs_deadC4S effs fs w [] hp
    rw [k1, k2, h2, cbQueue_deadC4S hw hp]; simp
  · obtain ⟨k1, k2⟩ := applyEffs_aliveC4S effs fs w [] hp
    rw [k1, k2, h1]; simp

theorem call_effs_cbC4S (s : Store) (fsHas : Nat → Bool) (op : Op) :
    (effQ (s.call fsHas op).2.2).filterMap WReq.cbId = (none : Option Nat).toList ∧
    (effQ (s.call fsHas op).2.2).head?.bind WReq.cbId = none := by
  have h : ∀ r ∈ effQ (s.call fsHas op).2.2, r.cbId = none := EffsNoCb.call s fsHas op
  generalize effQ (s.call fsHas op).2.2 = q at h
  constructor
  · exact filterMap_eq_nil_of_forall _ _ h
  · cases q with
    | nil => rfl
    | cons r q => simp [h r (by simp)]

theorem flush_effs_cbC4S (s : Store) (cb : Option Nat) :
    (effQ (s.flush cb).2).filterMap WReq.cbId = cb.toList ∧
    (effQ (s.flush cb).2).head?.bind WReq.cbId = cb := by
  rw [flush_effQ_C3]
  by_cases hr : s.removed.isEmpty = true <;> cases cb <;> simp [hr, WReq.cbId]

theorem resolvedC4S_single_trunc (t : String) (i n : Nat) : resolvedC4S [Ev.trunc t i n] = [] := rfl

theorem openLoop_resC4S (cfg : Cfg) (ids : List Nat) :
    ∀ a : OpenAcc, resolvedC4S (openLoop cfg ids a).2.evs = resolvedC4S a.evs := by
  induction ids with
  | nil => intro a; rfl
  | cons id rest ih =>
    intro a
    unfold openLoop
    dsimp only
    split
    · rfl
    · split
      · rfl
      · split
        · rfl
        · rename_i oc _
          cases hto : oc.truncatedTo with
          | none =>
            dsimp only
            split
            · rfl
            · rfl
            · split
              · simp [resolvedC4S_single_unlink]
              · rw [ih]; simp [resolvedC4S_single_sync]
          | some len =>
            dsimp only
            split
            · simp [resolvedC4S]
            · simp [resolvedC4S]
            · split
              · simp [resolvedC4S]
              · rw [ih]; simp [resolvedC4S]

theorem openStore_resC4S (cfg : Cfg) (fs : Fs) : resolvedC4S (openStore cfg fs).2.2 = [] := by
  have h := openLoop_resC4S cfg fs.linkedIds { sm := emptyStore cfg, fs := fs }
  unfold openStore
  dsimp only
  generalize openLoop cfg fs.linkedIds { sm := emptyStore cfg, fs := fs } = x at h
  obtain ⟨res, a⟩ := x
  have h' : resolvedC4S a.evs = [] := h
  cases res with
  | err k => exact h'
  | panic m => exact h'
  | ok a' =>
    dsimp only
    split
    · split
      · exact h'
      · exact h'
    · split
      · simp [h', resolvedC4S_single_create]
      · show resolvedC4S (a.evs ++ [Ev.create "o" _ true, Ev.write "o" _ _ true]) = []
        rw [resolvedC4S_append, h']; rfl

theorem Sys.step_noneC4S (y : Sys) (hs : y.store = none) (st : Step) (hst : ∀ cfg, st ≠ .openWith cfg) :
    y.step st = y ∧ y.stepEvsAll st = [] ∧ y.diesC4S st = false ∧ reqStepC4S y st = [] := by
  cases st with
  | openWith cfg => exact absurd rfl (hst cfg)
  | call op => simp [Sys.step, Sys.stepEvsAll, Sys.diesC4S, reqStepC4S, Sys.call, hs]
  | flush cb => simp [Sys.step, Sys.stepEvsAll, Sys.diesC4S, reqStepC4S, Sys.flush, hs]
  | worker out => simp [Sys.step, Sys.stepEvsAll, Sys.diesC4S, reqStepC4S, Sys.workerStep, hs]
  | workerIdle => simp [Sys.step, Sys.stepEvsAll, Sys.diesC4S, reqStepC4S, Sys.workerIdle, hs]
  | drain => simp [Sys.step, Sys.stepEvsAll, Sys.diesC4S, reqStepC4S, Sys.drain, hs]
  | drop => simp [Sys.step, Sys.stepEvsAll, Sys.diesC4S, reqStepC4S, Sys.dropStore, hs]

theorem Sys.dropCtx_acctC4S (y : Sys) (s : Store) (hw : y.worker.WF) :
    (y.dropCtx s).w.WF ∧ resolvedC4S (y.dropCtx s).evs = [] ∧ cbQueue (y.dropCtx s).w = cbQueue y.worker := by
  rcases y.dropCtx_cases s with ⟨hi, he⟩ | ⟨hn, he⟩ <;> rw [he]
  · refine ⟨WCtx.toRecv_wf _ (hw.files_ne (by simp [hi])), by rw [WCtx.toRecv_resC4S]; rfl, ?_⟩
    rw [WCtx.toRecv_cbQueue, cbQueue_eq _ hi]; rfl
  · exact ⟨hw, rfl, rfl⟩

theorem Sys.workerStep_projC4S (y : Sys) (out : Outcome) (s : Store) (hs : y.store = some s) :
    (y.workerStep out).1.worker = (({ w := y.worker, fs := y.fs, cache := s.cache } : WCtx).step out).w ∧
    (y.workerStep out).2 = (({ w := y.worker, fs := y.fs, cache := s.cache } : WCtx).step out).evs ∧
    (y.workerStep out).1.store ≠ none ∧ (y.workerStep out).1.locked = y.locked := by
  simp [Sys.workerStep, hs]

theorem Sys.workerIdle_projC4S (y : Sys) (s : Store) (hs : y.store = some s) :
    y.workerIdle.1.worker =
      (WCtx.runQuiet y.worker.fuel ({ w := y.worker, fs := y.fs, cache := s.cache } : WCtx)).w ∧
    y.workerIdle.2 =
      (WCtx.runQuiet y.worker.fuel ({ w := y.worker, fs := y.fs, cache := s.cache } : WCtx)).evs ∧
    y.workerIdle.1.store ≠ none ∧ y.workerIdle.1.locked = y.locked := by
  simp [Sys.workerIdle, hs]

theorem Sys.open_projC4S (y : Sys) :
    (y.open.2.1.worker = y.worker ∧ y.open.2.1.store = y.store ∧ y.open.2.1.locked = y.locked ∧
      (y.locked = true → y.open.2.2 = [])) ∨
    (y.locked = false ∧ ∃ s e, y.open.2.1.worker = { files := [e] } ∧ y.open.2.1.store = some s ∧
      y.open.2.1.locked = true) := by
  unfold Sys.open
  by_cases hl : y.locked = true
  · simp [hl]
  · simp only [hl, Bool.false_eq_true, if_false]
    split
    · rename_i s w fs' evs ho
      obtain ⟨e, rfl⟩ := openStore_worker ho
      exact .inr ⟨by simp, s, e, rfl, rfl, rfl⟩
    · exact .inl ⟨rfl, rfl, rfl, fun h => h.elim⟩
    · exact .inl ⟨rfl, rfl, rfl, fun h => h.elim⟩

theorem Sys.open_resC4S (y : Sys) : resolvedC4S y.open.2.2 = [] := by
  unfold Sys.open
  by_cases hl : y.locked = true
  · simp [hl]
  · simp only [hl, Bool.false_eq_true, if_false]
    have h := openStore_resC4S y.cfg y.fs
    split <;> rename_i ho <;> rw [ho] at h <;> exact h

/-- One step of the system: the invariant is kept, and the callbacks resolved by the step
followed by the new queue are the old queue followed by the callback the step registers —
except that a step that kills the worker reports the old queue in ascending id order. -/
theorem Sys.step_acctC4S {y : Sys} (h : InvC4S y) (st : Step) :
    InvC4S (y.step st) ∧
    resolvedC4S (y.stepEvsAll st) ++ cbQueue (y.step st).worker =
      if y.diesC4S st = true then isortC4S (cbQueue y.worker) else cbQueue y.worker ++ reqStepC4S y st := by
  have mk : ∀ (_ : (y.step st).store = none → cbQueue (y.step st).worker = [])
      (_ : (y.step st).store ≠ none → (y.step st).locked = true), InvC4S (y.step st) :=
    fun i l => ⟨h.wf.step st, h.post.step st, i, l⟩
  cases hs : y.store with
  | none =>
    by_cases hst : ∀ cfg, st ≠ .openWith cfg
    · obtain ⟨e1, e2, e3, e4⟩ := y.step_noneC4S hs st hst
      rw [e1, e2, e3, e4]
      exact ⟨h, by simp⟩
    · have : ∃ cfg, st = .openWith cfg := by
        cases st <;> simp at hst ⊢
      obtain ⟨cfg, rfl⟩ := this
      have hq : cbQueue y.worker = [] := h.idle hs
      have hr := Sys.open_resC4S { y with cfg := cfg }
      have key : resolvedC4S (y.stepEvsAll (.openWith cfg)) ++ cbQueue (y.step (.openWith cfg)).worker = [] ∧
          ((y.step (.openWith cfg)).store = none → cbQueue (y.step (.openWith cfg)).worker = []) ∧
          ((y.step (.openWith cfg)).store ≠ none → (y.step (.openWith cfg)).locked = true) := by
        show resolvedC4S ({ y with cfg := cfg } : Sys).open.2.2 ++ cbQueue ({ y with cfg := cfg } : Sys).open.2.1.worker = [] ∧
          (({ y with cfg := cfg } : Sys).open.2.1.store = none → cbQueue ({ y with cfg := cfg } : Sys).open.2.1.worker = []) ∧
          (({ y with cfg := cfg } : Sys).open.2.1.store ≠ none → ({ y with cfg := cfg } : Sys).open.2.1.locked = true)
        rw [hr]
        rcases Sys.open_projC4S { y with cfg := cfg } with ⟨p1, p2, p3, _⟩ | ⟨_, s, e, p1, p2, p3⟩
        · rw [p1, p2, p3]
          exact ⟨by simpa using hq, fun _ => hq, fun h0 => absurd hs h0⟩
        · rw [p1, p2, p3]
          exact ⟨rfl, fun _ => rfl, fun _ => rfl⟩
      refine ⟨mk key.2.1 key.2.2, ?_⟩
      rw [key.1]; simp [Sys.diesC4S, reqStepC4S, hq]
  | some s =>
    have hne : y.store ≠ none := by simp [hs]
    have hw : y.worker.WF := (h.wf hne).1
    have hto : y.worker.TodoOK := (h.wf hne).2
    have hl : y.locked = true := h.lock hne
    cases st with
    | call op =>
      obtain ⟨p1, p2, p3, p4⟩ := y.call_projC4S op s hs
      refine ⟨mk (fun h0 => absurd h0 p3) (fun _ => by show (y.call op).2.1.locked = true; rw [p4, hl]), ?_⟩
      show resolvedC4S (y.call op).2.2 ++ cbQueue (y.call op).2.1.worker = _
      rw [p1, p2, applyEffs_acctC4S _ _ _ none hw (call_effs_cbC4S _ _ _).1 (call_effs_cbC4S _ _ _).2]
      simp [Sys.diesC4S, reqStepC4S]
    | flush cb =>
      obtain ⟨p1, p2, p3, p4⟩ := y.flush_projC4S cb s hs
      refine ⟨mk (fun h0 => absurd h0 p3) (fun _ => by show (y.flush cb).2.1.locked = true; rw [p4, hl]), ?_⟩
      show resolvedC4S (y.flush cb).2.2 ++ cbQueue (y.flush cb).2.1.worker = _
      rw [p1, p2, applyEffs_acctC4S _ _ _ cb hw (flush_effs_cbC4S _ _).1 (flush_effs_cbC4S _ _).2]
      simp [Sys.diesC4S, reqStepC4S, hs]
    | worker out =>
      obtain ⟨p1, p2, p3, p4⟩ := y.workerStep_projC4S out s hs
      refine ⟨mk (fun h0 => absurd h0 p3) (fun _ => by show (y.workerStep out).1.locked = true; rw [p4, hl]), ?_⟩
      show resolvedC4S (y.workerStep out).2 ++ cbQueue (y.workerStep out).1.worker = _
      have e3 : y.diesC4S (.worker out) = ({ w := y.worker, fs := y.fs, cache := s.cache } : WCtx).dies out := by
        simp [Sys.diesC4S, hs]
      rw [p1, p2, e3]
      have ht : y.worker.pc.tailNotWriteD14 := (h.post hne).tail
      generalize hc : ({ w := y.worker, fs := y.fs, cache := s.cache } : WCtx) = c
      have hcw : c.w = y.worker := by rw [← hc]
      have hce : c.evs = [] := by rw [← hc]
      rw [← hcw] at hw ht ⊢
      cases hd : c.dies out with
      | true =>
        obtain ⟨k1, k2⟩ := c.step_dies_resC4S out hd ht
        rw [k1, k2, hce]; simp
      | false =>
        rw [c.step_resC4S out hw hd, hce, c.step_cbQueue out hw hd]
        simp [reqStepC4S]
    | workerIdle =>
      obtain ⟨p1, p2, p3, p4⟩ := y.workerIdle_projC4S s hs
      refine ⟨mk (fun h0 => absurd h0 p3) (fun _ => by show y.workerIdle.1.locked = true; rw [p4, hl]), ?_⟩
      show resolvedC4S y.workerIdle.2 ++ cbQueue y.workerIdle.1.worker = _
      rw [p1, p2, WCtx.runQuiet_resC4S _ _ hw]
      simp [Sys.diesC4S, reqStepC4S]
    | drain =>
      have e1 : (y.step .drain).worker = y.worker ∧ (y.step .drain).store ≠ none ∧
          (y.step .drain).locked = y.locked := by
        simp [Sys.step, Sys.drain, hs]
      refine ⟨mk (fun h0 => absurd h0 e1.2.1) (fun _ => by rw [e1.2.2, hl]), ?_⟩
      rw [e1.1]
      simp [Sys.stepEvsAll, Sys.diesC4S, reqStepC4S]
    | drop =>
      have hdq : y.worker.pc = .dead → y.worker.queue = [] := fun hd => by simpa [Worker.WF, hd] using hw
      obtain ⟨d1, d2⟩ := y.dropEnd_dead s hdq hto
      obtain ⟨c1, c2, c3⟩ := y.dropCtx_acctC4S s hw
      have e1 : y.step .drop = y.dropStore.1 := rfl
      have e2 : y.stepEvsAll .drop = y.dropStore.2 := rfl
      have hq0 : cbQueue (y.dropEnd s).w = [] := by simp [cbQueue, d1, d2, WPc.batch]
      have hq1 : cbQueue ({ (y.dropEnd s).w with pc := .dead } : Worker) = [] := by
        simp [cbQueue, d2, WPc.batch]
      have key := WCtx.runQuiet_resC4S (y.dropCtx s).w.fuel (y.dropCtx s) c1
      rw [c2, c3] at key
      change resolvedC4S (y.dropEnd s).evs ++ cbQueue (y.dropEnd s).w = [] ++ cbQueue y.worker at key
      rw [hq0] at key
      rw [e1, e2, y.dropStore_eq s hs]
      refine ⟨⟨fun h0 => absurd rfl h0, fun h0 => absurd rfl h0, fun _ => hq1, fun h0 => absurd rfl h0⟩, ?_⟩
      show resolvedC4S (y.dropEnd s).evs ++ cbQueue ({ (y.dropEnd s).w with pc := .dead } : Worker) = _
      rw [hq1]
      simpa [Sys.diesC4S, reqStepC4S] using key
    | openWith cfg =>
      have hr := Sys.open_resC4S { y with cfg := cfg }
      rcases Sys.open_projC4S { y with cfg := cfg } with ⟨p1, p2, p3, _⟩ | ⟨hf, _⟩
      · have p1' : (y.step (.openWith cfg)).worker = y.worker := p1
        have p2' : (y.step (.openWith cfg)).store = y.store := p2
        have p3' : (y.step (.openWith cfg)).locked = y.locked := p3
        refine ⟨mk (fun h0 => absurd (p2' ▸ h0) hne) (fun _ => by rw [p3', hl]), ?_⟩
        show resolvedC4S ({ y with cfg := cfg } : Sys).open.2.2 ++ cbQueue (y.step (.openWith cfg)).worker = _
        rw [hr, p1']
        simp [Sys.diesC4S, reqStepC4S]
      · have : y.locked = false := hf
        rw [hl] at this; cases this

theorem InvC4S.init (cfg : Cfg) : InvC4S ({ cfg := cfg } : Sys) :=
  ⟨fun h => absurd rfl h, fun h => absurd rfl h, fun _ => rfl, fun h => absurd rfl h⟩

theorem InvC4S.fresh (cfg : Cfg) : InvC4S (Sys.fresh cfg) :=
  (Sys.step_acctC4S (InvC4S.init cfg) (.openWith cfg)).1

theorem Sys.fresh_cbQueueC4S (cfg : Cfg) : cbQueue (Sys.fresh cfg).worker = [] := by
  have h := (Sys.step_acctC4S (InvC4S.init cfg) (.openWith cfg)).2
  have e : (({ cfg := cfg } : Sys).step (.openWith cfg)) = Sys.fresh cfg := rfl
  rw [e] at h
  have h2 : cbQueue ({ cfg := cfg } : Sys).worker = [] := rfl
  rw [h2] at h
  simp only [Sys.diesC4S, reqStepC4S, Bool.false_eq_true, if_false, List.append_nil] at h
  exact (List.append_eq_nil_iff.mp h).2

theorem InvC4S.run {y : Sys} (h : InvC4S y) (steps : List Step) : InvC4S (y.run steps) := by
  induction steps generalizing y with
  | nil => exact h
  | cons st rest ih => exact ih (Sys.step_acctC4S h st).1

theorem Sys.diesC4S_reqC4S (y : Sys) (st : Step) (h : y.diesC4S st = true) : reqStepC4S y st = [] := by
  cases st <;> first | rfl | simp [Sys.diesC4S] at h

/-- No step of the history kills the worker. -/
def Sys.noDeathC4S (y : Sys) : List Step → Prop
  | [] => True
  | st :: rest => y.diesC4S st = false ∧ (y.step st).noDeathC4S rest

/-- The step lemma in the form the induction uses. -/
theorem Sys.step_acct_relC4S {y : Sys} (h : InvC4S y) (st : Step) :
    (resolvedC4S (y.stepEvsAll st) ++ cbQueue (y.step st).worker).Perm (cbQueue y.worker ++ reqStepC4S y st) ∧
    ((cbQueue y.worker ++ reqStepC4S y st).Pairwise (· ≤ ·) →
      resolvedC4S (y.stepEvsAll st) ++ cbQueue (y.step st).worker = cbQueue y.worker ++ reqStepC4S y st) ∧
    (y.diesC4S st = false →
      resolvedC4S (y.stepEvsAll st) ++ cbQueue (y.step st).worker = cbQueue y.worker ++ reqStepC4S y st) := by
  have h1 := (Sys.step_acctC4S h st).2
  cases hd : y.diesC4S st with
  | false =>
    rw [hd] at h1
    simp only [Bool.false_eq_true, if_false] at h1
    rw [h1]
    exact ⟨.refl _, fun _ => rfl, fun _ => rfl⟩
  | true =>
    rw [hd] at h1
    simp only [if_true] at h1
    rw [h1, y.diesC4S_reqC4S st hd, List.append_nil]
    exact ⟨isortC4S_perm _, fun hs => isortC4S_sorted _ hs, fun h0 => by cases h0⟩

@[simp] theorem Sys.run_consC4S (y : Sys) (st : Step) (rest : List Step) :
    y.run (st :: rest) = (y.step st).run rest := rfl

/-- **Accounting along a history**, from any system satisfying the invariant. -/
theorem Sys.run_acctC4S (steps : List Step) : ∀ (y : Sys), InvC4S y →
    (resolvedC4S (y.runEvsAll steps) ++ cbQueue (y.run steps).worker).Perm
      (cbQueue y.worker ++ requestedC4S y steps) ∧
    ((cbQueue y.worker ++ requestedC4S y steps).Pairwise (· ≤ ·) →
      resolvedC4S (y.runEvsAll steps) ++ cbQueue (y.run steps).worker =
        cbQueue y.worker ++ requestedC4S y steps) ∧
    (y.noDeathC4S steps →
      resolvedC4S (y.runEvsAll steps) ++ cbQueue (y.run steps).worker =
        cbQueue y.worker ++ requestedC4S y steps) := by
  induction steps with
  | nil => intro y _; simp [Sys.runEvsAll, requestedC4S, Sys.run]
  | cons st rest ih =>
    intro y h
    obtain ⟨s1, s2, s3⟩ := Sys.step_acct_relC4S h st
    obtain ⟨i1, i2, i3⟩ := ih (y.step st) (Sys.step_acctC4S h st).1
    simp only [Sys.runEvsAll, requestedC4S, Sys.run_consC4S, resolvedC4S_append]
    -- abbreviations
    generalize resolvedC4S (y.stepEvsAll st) = R at s1 s2 s3 ⊢
    generalize cbQueue (y.step st).worker = Q' at s1 s2 s3 i1 i2 i3 ⊢
    generalize resolvedC4S ((y.step st).runEvsAll rest) = F at i1 i2 i3 ⊢
    generalize cbQueue ((y.step st).run rest).worker = Qf at i1 i2 i3 ⊢
    generalize cbQueue y.worker = q at s1 s2 s3 ⊢
    generalize reqStepC4S y st = r at s1 s2 s3 ⊢
    generalize requestedC4S (y.step st) rest = T at i1 i2 i3 ⊢
    have eq_of : R ++ Q' = q ++ r → F ++ Qf = Q' ++ T → R ++ F ++ Qf = q ++ (r ++ T) := by
      intro e1 e2
      rw [List.append_assoc, e2, ← List.append_assoc, e1, List.append_assoc]
    refine ⟨?_, ?_, ?_⟩
    · have p1 : (R ++ F ++ Qf).Perm (R ++ (Q' ++ T)) := by
        rw [List.append_assoc]; exact i1.append_left R
      have p2 : (R ++ (Q' ++ T)).Perm (q ++ (r ++ T)) := by
        rw [← List.append_assoc, ← List.append_assoc]; exact s1.append_right T
      exact p1.trans p2
    · intro hs
      have hs1 : (q ++ r).Pairwise (· ≤ ·) := by
        rw [← List.append_assoc] at hs; exact (List.pairwise_append.mp hs).1
      have e1 := s2 hs1
      have hs2 : (Q' ++ T).Pairwise (· ≤ ·) := by
        rw [← List.append_assoc, ← e1, List.append_assoc] at hs
        exact (List.pairwise_append.mp hs).2.1
      exact eq_of e1 (i2 hs2)
    · intro hn
      exact eq_of (s3 hn.1) (i3 hn.2)

/-! ## Order: what is still queued is the tail of the requests -/

theorem cbsOf_fst_sublistC4S (evs : List Ev) : ((cbsOf evs).map Prod.fst).Sublist (resolvedC4S evs) := by
  induction evs with
  | nil => exact .slnil
  | cons e rest ih =>
    cases e <;> simp only [cbsOf, resolvedC4S, List.filterMap_cons, List.map_cons] at ih ⊢ <;>
      first | exact ih | exact ih.cons_cons _ | exact ih.cons _

theorem cbsOf_nil_of_resC4S {evs : List Ev} (h : resolvedC4S evs = []) : cbsOf evs = [] := by
  have := cbsOf_fst_sublistC4S evs
  rw [h] at this
  simpa using this

theorem Sys.step_diesC4S {y : Sys} (h : InvC4S y) (st : Step) (hd : y.diesC4S st = true) :
    cbQueue (y.step st).worker = [] ∧ cbsOf (y.stepEvsAll st) = [] := by
  cases st with
  | worker out =>
    cases hs : y.store with
    | none => simp [Sys.diesC4S, hs] at hd
    | some s =>
      have hw : y.worker.WF := (h.wf (by simp [hs])).1
      obtain ⟨p1, p2, _, _⟩ := y.workerStep_projC4S out s hs
      have hd' : ({ w := y.worker, fs := y.fs, cache := s.cache } : WCtx).dies out = true := by
        simpa [Sys.diesC4S, hs] using hd
      show cbQueue (y.workerStep out).1.worker = [] ∧ cbsOf (y.workerStep out).2 = []
      rw [p1, p2]
      refine ⟨?_, ?_⟩
      · rw [cbQueue, (WCtx.step_dies _ out hd').1]; rfl
      · rw [WCtx.step_cbsOf _ out hw, stepCbs_of_dies hd']; rfl
  | _ => simp [Sys.diesC4S] at hd

/-- **Order-aware accounting along a history**: the callbacks still queued at the end are
the last ones requested, in request order; the resolved ones are a permutation of the
earlier ones; the invoked ones (`Ev.cb`) come in request order. -/
theorem Sys.run_splitC4S (steps : List Step) : ∀ (y : Sys), InvC4S y →
    ∃ p, cbQueue y.worker ++ requestedC4S y steps = p ++ cbQueue (y.run steps).worker ∧
      (resolvedC4S (y.runEvsAll steps)).Perm p ∧
      ((cbsOf (y.runEvsAll steps)).map Prod.fst).Sublist p := by
  induction steps with
  | nil => intro y _; exact ⟨[], by simp [requestedC4S, Sys.run], by simp [Sys.runEvsAll], by simp [Sys.runEvsAll]⟩
  | cons st rest ih =>
    intro y h
    obtain ⟨p', i1, i2, i3⟩ := ih (y.step st) (Sys.step_acctC4S h st).1
    have hstep := (Sys.step_acctC4S h st).2
    simp only [Sys.runEvsAll, requestedC4S, Sys.run_consC4S, resolvedC4S_append, cbsOf_append, List.map_append]
    cases hd : y.diesC4S st with
    | false =>
      rw [hd] at hstep
      simp only [Bool.false_eq_true, if_false] at hstep
      refine ⟨resolvedC4S (y.stepEvsAll st) ++ p', ?_, i2.append_left _, ?_⟩
      · rw [← List.append_assoc, ← hstep, List.append_assoc, i1, List.append_assoc]
      · exact (cbsOf_fst_sublistC4S _).append i3
    | true =>
      rw [hd] at hstep
      simp only [if_true] at hstep
      obtain ⟨d1, d2⟩ := Sys.step_diesC4S h st hd
      rw [d1, List.append_nil] at hstep
      rw [d1, List.nil_append] at i1
      refine ⟨cbQueue y.worker ++ p', ?_, ?_, ?_⟩
      · rw [y.diesC4S_reqC4S st hd, List.nil_append, i1, List.append_assoc]
      · rw [hstep]; exact (isortC4S_perm _).append i2
      · rw [d2]; exact i3.trans (List.sublist_append_right _ _)

/-! ## No fault: every resolution is a positive acknowledgement -/

/-- Every resolution among `evs` is an `Ev.cb i true`. -/
def GoodEvsC4S (evs : List Ev) : Prop := cbsOf evs = (resolvedC4S evs).map fun i => (i, true)

theorem GoodEvsC4S.nil : GoodEvsC4S [] := rfl

theorem GoodEvsC4S.append {a b : List Ev} (ha : GoodEvsC4S a) (hb : GoodEvsC4S b) : GoodEvsC4S (a ++ b) := by
  unfold GoodEvsC4S at *
  rw [cbsOf_append, resolvedC4S_append, List.map_append, ha, hb]

theorem GoodEvsC4S.of_res_nil {evs : List Ev} (h : resolvedC4S evs = []) : GoodEvsC4S evs := by
  unfold GoodEvsC4S
  rw [cbsOf_nil_of_resC4S h, h]; rfl

theorem resolved_lengthC4S (evs : List Ev) :
    (resolvedC4S evs).length = (cbsOf evs).length + (droppedC4S evs).length := by
  induction evs with
  | nil => rfl
  | cons e rest ih =>
    cases e <;> simp only [cbsOf, resolvedC4S, droppedC4S, List.filterMap_cons, List.length_cons] at ih ⊢ <;> omega

theorem GoodEvsC4S.dropped {evs : List Ev} (h : GoodEvsC4S evs) : droppedC4S evs = [] := by
  have h1 := resolved_lengthC4S evs
  have h2 : (cbsOf evs).length = (resolvedC4S evs).length := by rw [h]; simp
  exact List.eq_nil_of_length_eq_zero (by omega)

theorem mem_droppedC4S {evs : List Ev} {i : Nat} : i ∈ droppedC4S evs ↔ Ev.cbDropped i ∈ evs := by
  simp only [droppedC4S, List.mem_filterMap]
  constructor
  · rintro ⟨e, he, h⟩
    cases e <;> simp_all
  · intro h; exact ⟨_, h, rfl⟩

theorem stepCbs_trueC4S (c : WCtx) (out : Outcome) (ho : out ≠ .eio) : ∀ p ∈ stepCbs c out, p.2 = true := by
  intro p hp
  unfold stepCbs at hp
  split at hp
  · have ho' : (out != Outcome.eio) = true := by simpa using ho
    simp [batchCbs, ho'] at hp; obtain ⟨_, _, rfl⟩ := hp; rfl
  · simp [ho] at hp
  · cases hp

theorem WCtx.dies_noEioC4S (c : WCtx) (out : Outcome) (ho : out ≠ .eio) : c.dies out = false := by
  cases h : c.dies out with
  | false => rfl
  | true => exact absurd (WCtx.dies_cases h).1 ho

theorem WCtx.step_goodC4S (c : WCtx) (out : Outcome) (hw : c.w.WF) (ho : out ≠ .eio)
    (hg : GoodEvsC4S c.evs) : GoodEvsC4S (c.step out).evs := by
  unfold GoodEvsC4S at *
  rw [c.step_cbsOf out hw, c.step_resC4S out hw (c.dies_noEioC4S out ho), List.map_append, hg,
    ← map_fst_all_true (stepCbs_trueC4S c out ho)]

theorem WCtx.runQuiet_goodC4S (n : Nat) (c : WCtx) (hw : c.w.WF) (hg : GoodEvsC4S c.evs) :
    GoodEvsC4S (WCtx.runQuiet n c).evs :=
  (WCtx.runQuiet_induct (P := fun c => c.w.WF ∧ GoodEvsC4S c.evs)
    (fun c hc _ => ⟨c.step_wf .ok hc.1, c.step_goodC4S .ok hc.1 (by intro h; cases h) hc.2⟩) n c ⟨hw, hg⟩).2

/-- While a store is open its worker thread is running and the channel is open. -/
def NFInvC4S (y : Sys) : Prop := y.store ≠ none → y.worker.Alive

theorem Sys.diesC4S_noEio (y : Sys) (st : Step) (hst : st.noEio = true) : y.diesC4S st = false := by
  cases st with
  | worker out =>
    cases hs : y.store with
    | none => simp [Sys.diesC4S, hs]
    | some s =>
      simp only [Sys.diesC4S, hs]
      apply WCtx.dies_noEioC4S
      intro h; subst h; cases hst
  | _ => rfl

/-- One step that injects no I/O error: the worker stays alive and every resolution is a
positive acknowledgement. -/
theorem Sys.step_nofaultC4S {y : Sys} (h : InvC4S y) (ha : NFInvC4S y) (st : Step) (hst : st.noEio = true) :
    NFInvC4S (y.step st) ∧ GoodEvsC4S (y.stepEvsAll st) := by
  by_cases hop : ∃ cfg, st = .openWith cfg
  · obtain ⟨cfg, rfl⟩ := hop
    refine ⟨?_, .of_res_nil (Sys.open_resC4S { y with cfg := cfg })⟩
    rcases Sys.open_projC4S { y with cfg := cfg } with ⟨p1, p2, _, _⟩ | ⟨_, s, e, p1, _, _⟩
    · intro h0
      show ({ y with cfg := cfg } : Sys).open.2.1.worker.Alive
      rw [p1]
      exact ha (fun hn => h0 (by show ({ y with cfg := cfg } : Sys).open.2.1.store = none; rw [p2]; exact hn))
    · intro _
      show ({ y with cfg := cfg } : Sys).open.2.1.worker.Alive
      rw [p1]
      exact ⟨by simp, rfl⟩
  · have hop' : ∀ cfg, st ≠ .openWith cfg := fun cfg e => hop ⟨cfg, e⟩
    cases hs : y.store with
    | none =>
      obtain ⟨e1, e2, _, _⟩ := y.step_noneC4S hs st hop'
      rw [e1, e2]; exact ⟨ha, .nil⟩
    | some s =>
      have hne : y.store ≠ none := by simp [hs]
      have hw : y.worker.WF := (h.wf hne).1
      have hal : y.worker.Alive := ha hne
      cases st with
      | openWith cfg => exact absurd rfl (hop' cfg)
      | call op =>
        obtain ⟨p1, p2, _, _⟩ := y.call_projC4S op s hs
        refine ⟨fun _ => ?_, ?_⟩
        · show (y.call op).2.1.worker.Alive
          rw [p1]; exact Worker.settle_alive _ (applyEffs_alive _ _ _ _ hal).2
        · show GoodEvsC4S (y.call op).2.2
          rw [p2]; exact .of_res_nil (applyEffs_aliveC4S _ _ _ _ hal.1).1
      | flush cb =>
        obtain ⟨p1, p2, _, _⟩ := y.flush_projC4S cb s hs
        refine ⟨fun _ => ?_, ?_⟩
        · show (y.flush cb).2.1.worker.Alive
          rw [p1]; exact Worker.settle_alive _ (applyEffs_alive _ _ _ _ hal).2
        · show GoodEvsC4S (y.flush cb).2.2
          rw [p2]; exact .of_res_nil (applyEffs_aliveC4S _ _ _ _ hal.1).1
      | worker out =>
        have ho : out ≠ .eio := by intro e; subst e; cases hst
        obtain ⟨p1, p2, _, _⟩ := y.workerStep_projC4S out s hs
        refine ⟨fun _ => ?_, ?_⟩
        · show (y.workerStep out).1.worker.Alive
          rw [p1]; exact WCtx.step_alive _ out hal ho
        · show GoodEvsC4S (y.workerStep out).2
          rw [p2]; exact WCtx.step_goodC4S _ out hw ho .nil
      | workerIdle =>
        obtain ⟨p1, p2, _, _⟩ := y.workerIdle_projC4S s hs
        refine ⟨fun _ => ?_, ?_⟩
        · show y.workerIdle.1.worker.Alive
          rw [p1]; exact WCtx.runQuiet_alive _ _ hal
        · show GoodEvsC4S y.workerIdle.2
          rw [p2]; exact WCtx.runQuiet_goodC4S _ _ hw .nil
      | drain =>
        refine ⟨fun _ => ?_, .nil⟩
        have : (y.step .drain).worker = y.worker := by simp [Sys.step, Sys.drain, hs]
        rw [this]; exact hal
      | drop =>
        have e1 : y.step .drop = y.dropStore.1 := rfl
        have e2 : y.stepEvsAll .drop = y.dropStore.2 := rfl
        rw [e1, e2, y.dropStore_eq s hs]
        refine ⟨fun h0 => absurd rfl h0, ?_⟩
        obtain ⟨c1, c2, _⟩ := y.dropCtx_acctC4S s hw
        exact WCtx.runQuiet_goodC4S _ _ c1 (.of_res_nil c2)

theorem Sys.run_nofaultC4S (steps : List Step) : ∀ (y : Sys), InvC4S y → NFInvC4S y →
    (∀ st ∈ steps, st.noEio = true) →
    NFInvC4S (y.run steps) ∧ GoodEvsC4S (y.runEvsAll steps) ∧ y.noDeathC4S steps := by
  induction steps with
  | nil => intro y _ ha _; exact ⟨ha, .nil, trivial⟩
  | cons st rest ih =>
    intro y h ha hst
    have h0 := hst st List.mem_cons_self
    obtain ⟨s1, s2⟩ := Sys.step_nofaultC4S h ha st h0
    obtain ⟨i1, i2, i3⟩ := ih (y.step st) (Sys.step_acctC4S h st).1 s1
      (fun x hx => hst x (List.mem_cons_of_mem _ hx))
    exact ⟨i1, s2.append i2, y.diesC4S_noEio st h0, i3⟩

theorem NFInvC4S.fresh (cfg : Cfg) : NFInvC4S (Sys.fresh cfg) := fun _ => fresh_alive cfg

/-- After `workerIdle` nothing is queued. -/
theorem Sys.idle_quietC4S {y : Sys} (h : InvC4S y) : cbQueue (y.step .workerIdle).worker = [] := by
  cases hs : y.store with
  | none =>
    rw [(y.step_noneC4S hs .workerIdle (by intro cfg e; cases e)).1]
    exact h.idle hs
  | some s =>
    have hne : y.store ≠ none := by simp [hs]
    obtain ⟨hw, hto⟩ := h.wf hne
    obtain ⟨p1, _, _, _⟩ := y.workerIdle_projC4S s hs
    show cbQueue y.workerIdle.1.worker = []
    rw [p1]
    exact cbQueue_of_quiet (WCtx.runQuiet_wf _ _ hw)
      (WCtx.runQuiet_fuel_quiet ({ w := y.worker, fs := y.fs, cache := s.cache } : WCtx) hto)

/-- After `drop` nothing is queued. -/
theorem Sys.drop_quietC4S {y : Sys} (h : InvC4S y) : cbQueue (y.step .drop).worker = [] := by
  apply (Sys.step_acctC4S h .drop).1.idle
  cases hs : y.store with
  | none => rw [(y.step_noneC4S hs .drop (by intro cfg e; cases e)).1]; exact hs
  | some s =>
    have e1 : y.step .drop = y.dropStore.1 := rfl
    rw [e1, y.dropStore_eq s hs]

theorem Sys.run_snocC4S (y : Sys) (steps : List Step) (st : Step) :
    y.run (steps ++ [st]) = (y.run steps).step st := by
  simp [Sys.run, List.foldl_append]

end RaftLog
