/-
C02 groundwork, part 3: replaying a journal chunk by chunk, cache-free.

`RepC jc st l st' l'`: replaying the closed chunks `jc` (each with its records)
from state `st` and index map `l` succeeds and ends in `st'`, `l'`; after every
chunk the state is the chunk's recorded closing state and every index entry is
at or below its `last`. `RepC.pop`: leading chunks whose closing `last` is at
or below a purge point can be dropped if no index entry at or below that point
survives to the end.
-/
import RaftLogModel.Proofs.ReplayAbs
import RaftLogModel.Proofs.JournalCor
namespace RaftLog

/-! ### Records of a chunk with their segments -/

def opsFrom (chunk : Nat) : Nat → List Record → List JOp
  | _, [] => []
  | start, r :: rs =>
    ⟨r, chunk, ⟨start, (encRecord r).length⟩⟩ :: opsFrom chunk (start + (encRecord r).length) rs

/-- The records of chunk `id` (first record at global offset `id`). -/
def chunkOps (id : Nat) (rs : List Record) : List JOp := opsFrom id id rs

theorem opsFrom_append (chunk start : Nat) (a b : List Record) :
    opsFrom chunk start (a ++ b) = opsFrom chunk start a ++ opsFrom chunk (start + (encAll a).length) b := by
  induction a generalizing start with
  | nil => simp [opsFrom]
  | cons r rs ih =>
    simp only [List.cons_append, opsFrom, encAll_cons, List.length_append, ih]
    rw [Nat.add_assoc]

theorem chunkOps_snoc (id : Nat) (rs : List Record) (r : Record) :
    chunkOps id (rs ++ [r]) = chunkOps id rs ++ [⟨r, id, ⟨id + (encAll rs).length, (encRecord r).length⟩⟩] := by
  simp [chunkOps, opsFrom_append, opsFrom]

theorem opsFrom_off_lt {chunk start : Nat} {rs : List Record} {op : JOp}
    (h : op ∈ opsFrom chunk start rs) :
    start ≤ op.seg.off ∧ op.seg.off < start + (encAll rs).length ∧ op.chunk = chunk := by
  induction rs generalizing start with
  | nil => cases h
  | cons r rs ih =>
    simp only [opsFrom, List.mem_cons] at h
    have hpos := encRecord_length_pos r
    simp only [encAll_cons, List.length_append]
    rcases h with e | e
    · subst e; exact ⟨Nat.le_refl _, by simp only; omega, rfl⟩
    · have := ih e; exact ⟨by omega, by omega, this.2.2⟩

/-! ### Optional ids: mixed transitivity -/

theorem optLt_of_le_of_lt {a b c : Option LogId} (h1 : optLe a b = true) (h2 : optLt b c = true) :
    optLt a c = true := by
  cases a <;> cases b <;> cases c <;> simp_all
  exact LogId.lt_of_le_of_lt h1 h2

theorem optLe_of_not_lt {a b : Option LogId} (h : optLt a b = false) : optLe b a = true := by
  rw [optLe_iff_not_lt]; exact h

theorem optLt_irrefl (a : Option LogId) : optLt a a = false := by
  cases a <;> simp [LogId.lt_irrefl]

/-! ### Replaying the closed chunks -/

/-- The first chunk of the list (if any) starts with the record `State st`. -/
def HeadIs (st : RState) : List (Closed × List Record) → Prop
  | [] => True
  | (_, rs) :: _ => ∃ tl, rs = .state st :: tl

def RepC : List (Closed × List Record) → RState → Log → RState → Log → Prop
  | [], st, l, st', l' => st' = st ∧ l' = l
  | (c, rs) :: rest, st, l, st', l' =>
    ∃ st1 l1, stRun rs st = some st1 ∧ idxRun (chunkOps c.id rs) l = some l1 ∧ c.state = st1 ∧
      (∀ e ∈ l1, optLe (some e.2.id) st1.last = true) ∧ HeadIs st1 rest ∧ RepC rest st1 l1 st' l'

/-- All records of the closed chunks, in order. -/
def flatOps : List (Closed × List Record) → List JOp
  | [] => []
  | (c, rs) :: rest => chunkOps c.id rs ++ flatOps rest

theorem mem_flatOps {jc : List (Closed × List Record)} {op : JOp} :
    op ∈ flatOps jc ↔ ∃ p ∈ jc, op ∈ chunkOps p.1.id p.2 := by
  induction jc with
  | nil => simp [flatOps]
  | cons q rest ih =>
    obtain ⟨c, rs⟩ := q
    simp only [flatOps, List.mem_append, ih, List.mem_cons]
    constructor
    · rintro (h | ⟨p, hp, h⟩)
      · exact ⟨(c, rs), Or.inl rfl, h⟩
      · exact ⟨p, Or.inr hp, h⟩
    · rintro ⟨p, hp | hp, h⟩
      · subst hp; exact Or.inl h
      · exact Or.inr ⟨p, hp, h⟩

theorem flatOps_append (a b : List (Closed × List Record)) : flatOps (a ++ b) = flatOps a ++ flatOps b := by
  induction a with
  | nil => rfl
  | cons q rest ih =>
    obtain ⟨c, rs⟩ := q
    simp only [List.cons_append, flatOps, ih, List.append_assoc]

theorem RepC.idx {jc : List (Closed × List Record)} {st st' : RState} {l l' : Log}
    (h : RepC jc st l st' l') : idxRun (flatOps jc) l = some l' := by
  induction jc generalizing st l with
  | nil => obtain ⟨_, rfl⟩ := h; rfl
  | cons p rest ih =>
    obtain ⟨c, rs⟩ := p
    obtain ⟨st1, l1, _, h2, _, _, _, h5⟩ := h
    simp only [flatOps, idxRun_append, h2, Option.bind_some]
    exact ih h5

/-- All records of the closed chunks, in order. -/
def flatRecs : List (Closed × List Record) → List Record
  | [] => []
  | (_, rs) :: rest => rs ++ flatRecs rest

theorem RepC.st {jc : List (Closed × List Record)} {st st' : RState} {l l' : Log}
    (h : RepC jc st l st' l') : stRun (flatRecs jc) st = some st' := by
  induction jc generalizing st l with
  | nil => obtain ⟨rfl, _⟩ := h; rfl
  | cons p rest ih =>
    obtain ⟨c, rs⟩ := p
    obtain ⟨st1, l1, h1, _, _, _, _, h5⟩ := h
    simp only [flatRecs, stRun_append, h1, Option.bind_some]
    exact ih h5

theorem RepC.sorted {jc : List (Closed × List Record)} {st st' : RState} {l l' : Log}
    (h : RepC jc st l st' l') (hs : SortedLog l) : SortedLog l' :=
  idxRun_sorted hs h.idx

theorem opsFrom_map_r (chunk start : Nat) (rs : List Record) :
    (opsFrom chunk start rs).map (·.r) = rs := by
  induction rs generalizing start with
  | nil => rfl
  | cons r rs ih => simp only [opsFrom, List.map_cons, ih]

theorem flatOps_map_r (jc : List (Closed × List Record)) : (flatOps jc).map (·.r) = flatRecs jc := by
  induction jc with
  | nil => rfl
  | cons q rest ih =>
    obtain ⟨c, rs⟩ := q
    simp only [flatOps, flatRecs, List.map_append, ih, chunkOps, opsFrom_map_r]

theorem RepC.snoc {jc : List (Closed × List Record)} {st st' : RState} {l l' : Log}
    (h : RepC jc st l st' l') {c : Closed} {rs : List Record} {st1 : RState} {l1 : Log}
    (h1 : stRun rs st' = some st1) (h2 : idxRun (chunkOps c.id rs) l' = some l1)
    (h3 : c.state = st1) (h4 : ∀ e ∈ l1, optLe (some e.2.id) st1.last = true)
    (hhead : jc ≠ [] → ∃ tl, rs = .state st' :: tl) :
    RepC (jc ++ [(c, rs)]) st l st1 l1 := by
  induction jc generalizing st l with
  | nil =>
    obtain ⟨rfl, rfl⟩ := h
    exact ⟨st1, l1, h1, h2, h3, h4, trivial, rfl, rfl⟩
  | cons p rest ih =>
    obtain ⟨c0, rs0⟩ := p
    obtain ⟨sta, la, g1, g2, g3, g4, g5, g6⟩ := h
    refine ⟨sta, la, g1, g2, g3, g4, ?_, ih g6 ?_⟩
    · cases rest with
      | nil =>
        obtain ⟨e1, _⟩ := g6
        subst e1
        exact hhead (by simp)
      | cons q rest' => exact g5
    · intro hne
      exact hhead (by simp)

/-- The same chunks from a smaller index map. -/
theorem RepC.mono {jc : List (Closed × List Record)} {st st' : RState} {l l' l0 : Log}
    (h : RepC jc st l st' l') (hs0 : SortedLog l0) (hsub : ∀ e ∈ l0, e ∈ l) :
    ∃ l0', RepC jc st l0 st' l0' ∧ (∀ e ∈ l0', e ∈ l') := by
  induction jc generalizing st l l0 with
  | nil => obtain ⟨rfl, rfl⟩ := h; exact ⟨l0, ⟨rfl, rfl⟩, hsub⟩
  | cons p rest ih =>
    obtain ⟨c, rs⟩ := p
    obtain ⟨st1, l1, g1, g2, g3, g4, gh, g5⟩ := h
    obtain ⟨l01, k1, k2⟩ := idxRun_mono hs0 hsub g2
    obtain ⟨l0', k3, k4⟩ := ih g5 (idxRun_sorted hs0 k1) k2
    exact ⟨l0', ⟨st1, l01, g1, k1, g3, fun e he => g4 e (k2 e he), gh, k3⟩, k4⟩

/-- A chunk list whose first chunk starts with a `State` record does not depend
on the state before it. -/
theorem RepC.head_state {c : Closed} {x : RState} {tl : List Record}
    {rest : List (Closed × List Record)} {st st' : RState} {l l' : Log}
    (h : RepC ((c, .state x :: tl) :: rest) st l st' l') (st0 : RState) :
    RepC ((c, .state x :: tl) :: rest) st0 l st' l' := by
  obtain ⟨st1, l1, g1, g2, g3, g4, gh, g5⟩ := h
  exact ⟨st1, l1, by rw [stRun_state_head x tl st0 st]; exact g1, g2, g3, g4, gh, g5⟩

/-- Every chunk starts with a `State` record. -/
def HeadsState (jc : List (Closed × List Record)) : Prop :=
  ∀ p ∈ jc, ∃ x tl, p.2 = .state x :: tl

/-- **Dropping one obsolete chunk from the front.** -/
theorem RepC.drop_one {c : Closed} {rs : List Record} {rest : List (Closed × List Record)}
    {stC : RState} {lC : Log} {jo : List Record} {openOps : List JOp} {st : RState} {lg : Log}
    {upto : LogId}
    (h : RepC ((c, rs) :: rest) {} [] stC lC)
    (hst : stRun jo stC = some st) (hidx : idxRun openOps lC = some lg)
    (hheads : HeadsState rest) (hjo : ∃ x tl, jo = .state x :: tl)
    (hobs : optLt (some upto) c.state.last = false)
    (habove : ∀ e ∈ lg, optLt (some upto) (some e.2.id) = true) :
    ∃ stC' lC', RepC rest {} [] stC' lC' ∧ stRun jo stC' = some st ∧ idxRun openOps lC' = some lg ∧
      (rest ≠ [] → stC' = stC) := by
  obtain ⟨st1, l1, g1, g2, g3, g4, _, g5⟩ := h
  have hs1 : SortedLog l1 := idxRun_sorted SortedLog.nil g2
  -- nothing of `l1` survives to the end
  have hall : idxRun (flatOps rest ++ openOps) l1 = some lg := by
    rw [idxRun_append, g5.idx]; exact hidx
  have hgone : ∀ e ∈ l1, e ∉ lg := by
    intro e he hmem
    have h1 := g4 e he
    rw [← g3] at h1
    have h2 := optLe_trans h1 (optLe_of_not_lt hobs)
    have h3 := optLt_of_le_of_lt h2 (habove e hmem)
    rw [optLt_irrefl] at h3
    cases h3
  have hforget := idxRun_forget hs1 hall hgone
  obtain ⟨lC0, k1, _⟩ := g5.mono SortedLog.nil (fun e he => by cases he)
  have hopen : idxRun openOps lC0 = some lg := by
    rw [idxRun_append, k1.idx] at hforget; exact hforget
  cases rest with
  | nil =>
    obtain ⟨e1, e2⟩ := k1
    obtain ⟨e3, _⟩ := g5
    obtain ⟨x, tl, hx⟩ := hjo
    refine ⟨{}, [], ⟨rfl, rfl⟩, ?_, by rw [← e2]; exact hopen, fun hne => absurd rfl hne⟩
    rw [hx, stRun_state_head x tl {} stC, ← hx]; exact hst
  | cons p rest' =>
    obtain ⟨c2, rs2⟩ := p
    obtain ⟨x, tl, hx⟩ := hheads (c2, rs2) List.mem_cons_self
    simp only at hx
    subst hx
    exact ⟨stC, lC0, k1.head_state {}, hst, hopen, fun _ => rfl⟩

/-- **Dropping the obsolete prefix** (`popObsolete`). -/
theorem RepC.pop (upto : LogId) {jo : List Record} {openOps : List JOp} {st : RState} {lg : Log}
    (hjo : ∃ x tl, jo = .state x :: tl)
    (habove : ∀ e ∈ lg, optLt (some upto) (some e.2.id) = true) :
    ∀ (jc : List (Closed × List Record)) (stC : RState) (lC : Log),
    RepC jc {} [] stC lC → stRun jo stC = some st → idxRun openOps lC = some lg → HeadsState jc →
    ∃ jc' stC' lC', jc'.map (·.1) = (popObsolete upto (jc.map (·.1))).2 ∧ (∀ p ∈ jc', p ∈ jc) ∧
      RepC jc' {} [] stC' lC' ∧ stRun jo stC' = some st ∧ idxRun openOps lC' = some lg ∧
      (jc' ≠ [] → stC' = stC) ∧ (∃ pre, jc = pre ++ jc') := by
  intro jc
  induction jc with
  | nil =>
    intro stC lC h hst hidx _
    exact ⟨[], stC, lC, rfl, (by intro p hp; cases hp), h, hst, hidx, fun _ => rfl, [], rfl⟩
  | cons p rest ih =>
    intro stC lC h hst hidx hheads
    obtain ⟨c, rs⟩ := p
    simp only [List.map_cons, popObsolete]
    by_cases hobs : optLt (some upto) c.state.last = true
    · rw [if_pos hobs]
      exact ⟨(c, rs) :: rest, stC, lC, rfl, fun p hp => hp, h, hst, hidx, fun _ => rfl, [], rfl⟩
    · rw [if_neg hobs]
      have hheads' : HeadsState rest := fun q hq => hheads q (List.mem_cons_of_mem _ hq)
      obtain ⟨stC1, lC1, k1, k2, k3, k4⟩ := h.drop_one hst hidx hheads' hjo (by simpa using hobs) habove
      obtain ⟨jc', stC', lC', m1, m2, m3, m4, m5, m6, pre, m7⟩ := ih stC1 lC1 k1 k2 k3 hheads'
      refine ⟨jc', stC', lC', m1, fun q hq => List.mem_cons_of_mem _ (m2 q hq), m3, m4, m5, ?_,
        (c, rs) :: pre, by rw [m7]; rfl⟩
      intro hne
      have hrest : rest ≠ [] := by
        intro e
        subst e
        cases jc' with
        | nil => exact hne rfl
        | cons q _ => exact absurd (m2 q List.mem_cons_self) (by simp)
      rw [m6 hne, k4 hrest]

end RaftLog
