/-
C07 support, part 3: the read-path invariant `RdInv` on store, file system and
worker, and its preservation by the caller-side building blocks (journalling a
record, chunk rotation, purge of closed chunks, flush) and by worker steps.
-/
import RaftLogModel.Proofs.ReadPathRef
import RaftLogModel.Proofs.ReadPathWorker
import RaftLogModel.Proofs.JournalCor
import RaftLogModel.Proofs.WorkerCaller
namespace RaftLog

/-! ### Vocabulary -/

theorem WPc.inHand_eq_held (pc : WPc) : pc.inHand = pc.held := by cases pc <;> rfl

theorem Worker.fents_eq (w : Worker) : w.fents = w.files ++ reqEnts w.rest := by
  simp [Worker.fents, Worker.rest, WPc.inHand_eq_held]

/-- A file entry `(n, p)` (file id, closing `last` of the chunk before it) is
consistent with the store: `p` is not beyond `last`, and every live entry with
id at or below `p` was journalled into a chunk older than `n`. The same
predicate, with `n` the worker's newest file, describes the eviction boundary. -/
def EntOK (s : Store) (n : Nat) (p : Option LogId) : Prop :=
  optLe p s.st.last = true ∧ ∀ x ∈ s.log, optLe (some x.2.id) p = true → x.2.chunk < n

theorem EntOK.mono {s : Store} {n n' : Nat} {p : Option LogId} (h : EntOK s n p) (hn : n ≤ n') :
    EntOK s n' p :=
  ⟨h.1, fun x hx hle => Nat.lt_of_lt_of_le (h.2 x hx hle) hn⟩

/-- The store changed, but `last` did not go back and every new index entry
has an id above the old `last`. -/
theorem EntOK.step {s s' : Store} {n : Nat} {p : Option LogId} (h : EntOK s n p)
    (hlast : optLe s.st.last s'.st.last = true)
    (hlog : ∀ x ∈ s'.log, x ∈ s.log ∨ optLe (some x.2.id) s.st.last = false) : EntOK s' n p := by
  refine ⟨optLe_trans h.1 hlast, ?_⟩
  intro x hx hle
  rcases hlog x hx with h1 | h1
  · exact h.2 x h1 hle
  · have := optLe_trans hle h.1
    rw [h1] at this; cases this

theorem EntOK.congr {s s' : Store} {n : Nat} {p : Option LogId} (h : EntOK s n p)
    (h1 : s'.st.last = s.st.last) (h2 : s'.log = s.log) : EntOK s' n p := by
  unfold EntOK at *
  rw [h1, h2]; exact h

/-- The chunk id names a live chunk of the store. -/
def LiveChunk (s : Store) (id : Nat) : Prop := id = s.openId ∨ ∃ c ∈ s.closed, c.id = id

/-- The record `bytes` of index entry `d` sits in the byte string of its chunk
(file ++ in flight ++ pending) at `[d.off - d.chunk, + d.size)`. -/
def Located (s : Store) (fs : Fs) (w : Worker) (d : LogData) (bytes : Bytes) : Prop :=
  LiveChunk s d.chunk ∧ d.chunk ≤ d.off ∧ d.size = bytes.length ∧
  ∃ pre post, chunkBytes s fs w d.chunk = pre ++ bytes ++ post ∧ pre.length = d.off - d.chunk

theorem Located.mono {s s' : Store} {fs fs' : Fs} {w w' : Worker} {d : LogData} {b : Bytes}
    (h : Located s fs w d b) (hlive : LiveChunk s' d.chunk)
    (hext : ∃ ext, chunkBytes s' fs' w' d.chunk = chunkBytes s fs w d.chunk ++ ext) :
    Located s' fs' w' d b := by
  obtain ⟨_, h2, h3, pre, post, h4, h5⟩ := h
  obtain ⟨ext, he⟩ := hext
  exact ⟨hlive, h2, h3, pre, post ++ ext, by rw [he, h4]; simp, h5⟩

/-- **The read-path invariant** (store / file system / worker level). -/
structure RdInv (s : Store) (fs : Fs) (w : Worker) (r : RefLog) : Prop where
  ref : RefinesNoCache s r
  /-- a cached payload of a live id is the spec payload -/
  cval : ∀ e ∈ s.cache.items, ∀ a ∈ r.entries, a.1 = e.1 → a.2 = e.2
  /-- where each live entry's `Append` record is -/
  loc : ∀ x ∈ s.log, ∃ p, (x.2.id, p) ∈ r.entries ∧
    Located s fs w x.2 (encRecord (.append x.2.id p))
  /-- entries of a closed chunk are at or below its closing `last` -/
  clast : ∀ x ∈ s.log, ∀ c ∈ s.closed, c.id = x.2.chunk → optLe (some x.2.id) c.state.last = true
  /-- resident, or journalled into a chunk older than the worker's newest file -/
  res : ∀ x ∈ s.log, (∃ p, (x.2.id, p) ∈ s.cache.items) ∨ x.2.chunk < w.cur
  /-- the eviction boundary only covers entries in chunks older than the worker's newest file -/
  bnd : EntOK s w.cur s.cache.lastEvictable
  /-- every file entry the worker holds or will be told about is consistent -/
  ents : ∀ f ∈ w.fents, EntOK s f.id f.prevLast

theorem RdInv.id_le_last {s : Store} {fs : Fs} {w : Worker} {r : RefLog} (h : RdInv s fs w r)
    {x : Nat × LogData} (hx : x ∈ s.log) : optLe (some x.2.id) s.st.last = true := by
  obtain ⟨a, ha, _, hid⟩ := mem_log_indexNC h.ref hx
  have := (h.ref.wf.below a ha).1
  rw [hid] at this
  have e : s.st.last = r.last := by rw [h.ref.st]; rfl
  rw [e]; exact this

theorem RdInv.index_eq {s : Store} {fs : Fs} {w : Worker} {r : RefLog} (h : RdInv s fs w r)
    {x : Nat × LogData} (hx : x ∈ s.log) : x.2.id.index = x.1 := by
  obtain ⟨a, _, hi, hid⟩ := mem_log_indexNC h.ref hx
  rw [← hid]; exact hi

theorem RdInv.chunk_le {s : Store} {fs : Fs} {w : Worker} {r : RefLog} (h : RdInv s fs w r)
    (hj : JInv s fs w) {x : Nat × LogData} (hx : x ∈ s.log) : x.2.chunk ≤ s.openId := by
  obtain ⟨p, _, hl, _⟩ := h.loc x hx
  rcases hl with h1 | ⟨c, hc, h1⟩
  · omega
  · have := hj.closed_lt hc; omega

/-! ### Transfer: same reference log, same index map, same `last` -/

theorem RdInv.transfer {s s' : Store} {fs fs' : Fs} {w w' : Worker} {r : RefLog} (h : RdInv s fs w r)
    (href : RefinesNoCache s' r) (hlog : s'.log = s.log) (hlast : s'.st.last = s.st.last)
    (hlive : ∀ x ∈ s.log, LiveChunk s x.2.chunk → LiveChunk s' x.2.chunk)
    (hbytes : ∀ x ∈ s.log, ∃ ext, chunkBytes s' fs' w' x.2.chunk = chunkBytes s fs w x.2.chunk ++ ext)
    (hclast : ∀ x ∈ s.log, ∀ c ∈ s'.closed, c.id = x.2.chunk →
      c ∈ s.closed ∨ optLe (some x.2.id) c.state.last = true)
    (hcval : ∀ e ∈ s'.cache.items, e ∈ s.cache.items)
    (hres : ∀ x ∈ s.log, ((∃ p, (x.2.id, p) ∈ s.cache.items) ∨ x.2.chunk < w.cur) →
      ((∃ p, (x.2.id, p) ∈ s'.cache.items) ∨ x.2.chunk < w'.cur))
    (hbnd : EntOK s w'.cur s'.cache.lastEvictable)
    (hents : ∀ f ∈ w'.fents, f ∈ w.fents ∨ EntOK s f.id f.prevLast) : RdInv s' fs' w' r := by
  refine ⟨href, fun e he => h.cval e (hcval e he), ?_, ?_, ?_, hbnd.congr hlast hlog, ?_⟩
  · intro x hx
    rw [hlog] at hx
    obtain ⟨p, hp, hl⟩ := h.loc x hx
    exact ⟨p, hp, hl.mono (hlive x hx hl.1) (hbytes x hx)⟩
  · intro x hx c hc hid
    rw [hlog] at hx
    rcases hclast x hx c hc hid with h1 | h1
    · exact h.clast x hx c h1 hid
    · exact h1
  · intro x hx
    rw [hlog] at hx
    exact hres x hx (h.res x hx)
  · intro f hf
    rcases hents f hf with h1 | h1
    · exact (h.ents f h1).congr hlast hlog
    · exact h1.congr hlast hlog

/-! ### The resident set shrinks only by a prefix at or below the boundary -/

theorem res_of_suffix {s : Store} {cur : Nat} {b : Option LogId} {items items' pre : Items}
    (hb : ∀ x ∈ s.log, optLe (some x.2.id) b = true → x.2.chunk < cur)
    (hsplit : items = pre ++ items') (hpre : KeysLe pre b) {x : Nat × LogData} (hx : x ∈ s.log)
    (h : (∃ p, (x.2.id, p) ∈ items) ∨ x.2.chunk < cur) :
    (∃ p, (x.2.id, p) ∈ items') ∨ x.2.chunk < cur := by
  rcases h with ⟨p, hp⟩ | h
  · rw [hsplit] at hp
    rcases List.mem_append.mp hp with h1 | h1
    · exact .inr (hb x hx (hpre _ h1))
    · exact .inl ⟨p, h1⟩
  · exact .inr h

theorem purgeLoop_pre (key : LogId) (le : Option LogId) (size : Nat) (l : Items) :
    ∃ pre, l = pre ++ (purgeLoop key le size l).2 ∧ KeysLe pre le := by
  induction l generalizing size with
  | nil => exact ⟨[], by simp [purgeLoop], by simp [KeysLe]⟩
  | cons e rest ih =>
    obtain ⟨id, p⟩ := e
    unfold purgeLoop
    split
    · rename_i hc
      obtain ⟨pre, h1, h2⟩ := ih (size - p.length)
      refine ⟨(id, p) :: pre, by simp [← h1], ?_⟩
      intro e he
      cases he with
      | head => simp at hc; exact hc.2
      | tail _ he' => exact h2 e he'
    · exact ⟨[], by simp, by simp [KeysLe]⟩

/-! ### The exact result of `appendAndApply` -/

/-- The store after journalling and applying `r` (new state `st'`), before the
rotation check. -/
def Store.applied (s : Store) (r : Record) (st' : RState) : Store :=
  { s with pending := s.pending ++ encRecord r,
           openOffsets := s.openOffsets ++ [s.openEnd + (encRecord r).length],
           log := idxLog r s.openId ⟨s.openEnd, (encRecord r).length⟩ s.log,
           cache := idxCache r s.cache, st := st' }

/-- The store after closing the open chunk and starting a new one. -/
def Store.rotated (s : Store) : Store :=
  { s with closed := s.closed ++ [⟨s.openOffsets, s.st⟩],
           openOffsets := [s.openEnd, s.openEnd + (encRecord (.state s.st)).length],
           pending := [] }

theorem tryCloseFull_cases (s : Store) (fsHas : Nat → Bool) (h : fsHas s.openEnd = false) :
    s.tryCloseFull fsHas = (.ok (), s, []) ∨
    s.tryCloseFull fsHas = (.ok (), s.rotated, rotateEffs s) := by
  unfold Store.tryCloseFull rotateEffs Store.rotated
  by_cases hf : s.isOpenFull = true
  · right; simp [hf, h]
  · left; simp [hf]

theorem Store.applied_openId {s : Store} {r : Record} {st' : RState} (hne : s.openOffsets ≠ []) :
    (s.applied r st').openId = s.openId := by
  simp only [Store.applied, Store.openId]; exact headD_append_of_ne_nil hne _

theorem Store.applied_openEnd (s : Store) (r : Record) (st' : RState) :
    (s.applied r st').openEnd = s.openEnd + (encRecord r).length := by
  simp [Store.applied, Store.openEnd, lastOff_append]

theorem appendAndApply_shapeRd {s : Store} (fsHas : Nat → Bool) {r : Record} {st' : RState}
    (hst : s.st.apply r = .ok st') (hr : r.small) (hne : s.openOffsets ≠ [])
    (hfs : fsHas (s.openEnd + (encRecord r).length) = false) :
    s.appendAndApply fsHas r = (.ok ⟨s.openEnd, (encRecord r).length⟩,
      ((s.applied r st').tryCloseFull fsHas).2.1, ((s.applied r st').tryCloseFull fsHas).2.2) := by
  have hid : Store.openId ({ s with pending := s.pending ++ encRecord r, openOffsets := s.openOffsets ++ [s.openEnd + (encRecord r).length] } : Store) = s.openId := by
    simp only [Store.openId]; exact headD_append_of_ne_nil hne _
  unfold Store.appendAndApply
  simp only [hst]
  rw [applyIndex_eq _ hr]
  simp only [hid]
  change (match Store.tryCloseFull (s.applied r st') fsHas with
    | (.ok (), s4, effs) => (Res.ok (Seg.mk s.openEnd (encRecord r).length), s4, effs)
    | (.err k, s4, effs) => (.err k, s4, effs)
    | (.panic m, s4, effs) => (.panic m, s4, effs)) = _
  rcases tryCloseFull_cases (s.applied r st') fsHas (by rw [Store.applied_openEnd]; exact hfs) with h | h <;>
    rw [h]

/-! ### How the bytes of a chunk evolve -/

theorem chunkBytes_applied {s : Store} (fs : Fs) (w : Worker) {r : Record} {st' : RState}
    (hne : s.openOffsets ≠ []) (id : Nat) :
    chunkBytes (s.applied r st') fs w id =
      chunkBytes s fs w id ++ (if s.openId = id then encRecord r else []) := by
  simp only [chunkBytes, Store.applied_openId hne]
  by_cases e : s.openId = id <;> simp [e, Store.applied]

theorem JInv.applied {s : Store} {fs : Fs} {w : Worker} {r : Record} {st' : RState}
    (h : JInv s fs w) (hr : r.WF) (hsm : r.small) (hst : s.st.apply r = .ok st') :
    JInv (s.applied r st') fs w := by
  have hlog := (applyIndex_fields (s := s) (chunk := s.openId)
    (seg := ⟨s.openEnd, (encRecord r).length⟩) hr h.logWF (applyIndex_eq s hsm _ _)).1
  exact (h.journal (s3 := s.applied r st') hr (apply_wf h.stWF hr hst) hlog rfl rfl rfl).1

theorem effFs_rotateEffs (s : Store) (fs : Fs) :
    effFs (rotateEffs s) fs = (fs.create s.openEnd).write s.openEnd (encRecord (.state s.st)) := by
  by_cases hp : s.pending.isEmpty = true <;> simp [effFs, rotateEffs, hp]

theorem effQ_rotateEffs (s : Store) :
    effQ (rotateEffs s) = (if s.pending.isEmpty then [] else [.write s.openEnd s.pending none]) ++
      [.appendFile s.openEnd s.st.last] := by
  by_cases hp : s.pending.isEmpty = true <;> simp [effQ, rotateEffs, hp]

theorem Store.rotated_openId (s : Store) : s.rotated.openId = s.openEnd := by
  simp [Store.rotated, Store.openId]

theorem inflight_rotate {s : Store} {fs : Fs} {w : Worker} (h : JInv s fs w) (id : Nat) :
    (w.push (effQ (rotateEffs s))).inflight id =
      w.inflight id ++ (if s.openId = id then s.pending else []) := by
  rw [effQ_rotateEffs]
  by_cases hp : s.pending.isEmpty = true
  · have hp' : s.pending = [] := by simpa using hp
    simp only [hp, if_true, List.nil_append]
    rw [(w.push_appendFile s.openEnd s.st.last id).1, hp']
    simp
  · rw [if_neg hp]
    rw [← Worker.push_push]
    rw [((w.push [.write s.openEnd s.pending none]).push_appendFile s.openEnd s.st.last id).1]
    exact (w.push_write s.openEnd s.pending none s.openId h.annLast id).1

theorem chunkBytes_rotated {s : Store} {fs : Fs} {w : Worker} (h : JInv s fs w) {id : Nat}
    (hid : id ≠ s.openEnd) :
    chunkBytes s.rotated (effFs (rotateEffs s) fs) (w.push (effQ (rotateEffs s))) id =
      chunkBytes s fs w id := by
  have hid' : ¬ s.openEnd = id := fun e => hid e.symm
  simp only [chunkBytes, Store.rotated_openId, hid', if_false, List.append_nil]
  rw [inflight_rotate h, effFs_rotateEffs,
    fdata_write _ _ _ _ (Fs.ids_create_self fs s.openEnd), fdata_create_ne fs hid]
  simp [hid']

/-! ### `RefinesNoCache` across the two halves of `appendAndApply` -/

theorem RefinesNoCache.rotated {s : Store} {r : RefLog} (h : RefinesNoCache s r) :
    RefinesNoCache s.rotated r :=
  ⟨h.st, h.log, h.wf, ⟨h.cinv.ok, h.cinv.le_last⟩,
    ⟨by simp [Store.rotated], h.pf.purged, h.pf.last, h.pf.log⟩⟩

theorem RefinesNoCache.of_rotated {s : Store} {r : RefLog} (h : RefinesNoCache s.rotated r)
    (h2 : 2 ≤ s.openOffsets.length) : RefinesNoCache s r :=
  ⟨h.st, h.log, h.wf, ⟨h.cinv.ok, h.cinv.le_last⟩, ⟨h2, h.pf.purged, h.pf.last, h.pf.log⟩⟩

theorem refinesNC_applied {s : Store} {r' : RefLog} (fsHas : Nat → Bool) {rec : Record} {st' : RState}
    (hst : s.st.apply rec = .ok st') (hsm : rec.small) (hpf : PanicFree s)
    (hfs : fsHas (s.openEnd + (encRecord rec).length) = false)
    (h : ∃ seg s' effs, s.appendAndApply fsHas rec = (.ok seg, s', effs) ∧ RefinesNoCache s' r' ∧
      Growth0 s s' effs) : RefinesNoCache (s.applied rec st') r' := by
  have hne : s.openOffsets ≠ [] := by
    intro h0; have := hpf.open2; rw [h0] at this; simp at this
  obtain ⟨seg, s', effs, heq, href, _⟩ := h
  rw [appendAndApply_shapeRd fsHas hst hsm hne hfs] at heq
  have h2 : 2 ≤ (s.applied rec st').openOffsets.length := by
    have := hpf.open2; simp [Store.applied]; omega
  rcases tryCloseFull_cases (s.applied rec st') fsHas (by rw [Store.applied_openEnd]; exact hfs)
    with h | h <;> rw [h] at heq <;> simp only [Prod.mk.injEq] at heq <;> obtain ⟨_, rfl, _⟩ := heq
  · exact href
  · exact href.of_rotated h2

/-! ### Journalling and applying one record -/

theorem LiveChunk.applied {s : Store} {r : Record} {st' : RState} (hne : s.openOffsets ≠ []) {id : Nat}
    (h : LiveChunk s id) : LiveChunk (s.applied r st') id := by
  unfold LiveChunk at *
  rw [Store.applied_openId hne]
  exact h

theorem chunkBytes_open_length {s : Store} {fs : Fs} {w : Worker} (hj : JInv s fs w) :
    (chunkBytes s fs w s.openId).length = s.openEnd - s.openId := by
  have := hj.openBytes.lastOff_eq
  simp only [chunkBytes, if_true]
  simp only [Store.openEnd, Store.openId] at this ⊢
  omega

/-- The general shape of the three kinds of journalled records (plain, append,
purge): what must be known about the new index map, cache and spec entries. -/
theorem RdInv.applied_of {s : Store} {fs : Fs} {w : Worker} {r r' : RefLog} {rec : Record} {st' : RState}
    (hj : JInv s fs w) (h : RdInv s fs w r)
    (href : RefinesNoCache (s.applied rec st') r')
    (hlast : optLe s.st.last st'.last = true)
    (hle : (idxCache rec s.cache).lastEvictable = s.cache.lastEvictable)
    (hlog : ∀ x ∈ idxLog rec s.openId ⟨s.openEnd, (encRecord rec).length⟩ s.log,
      (x ∈ s.log ∧ ∀ p, (x.2.id, p) ∈ r.entries → (x.2.id, p) ∈ r'.entries) ∨
      (∃ p, rec = .append x.2.id p ∧ x.2 = ⟨x.2.id, s.openId, s.openEnd, (encRecord rec).length⟩ ∧
        (x.2.id, p) ∈ r'.entries ∧ optLe (some x.2.id) s.st.last = false ∧
        (x.2.id, p) ∈ (idxCache rec s.cache).items))
    (hcval : ∀ e ∈ (idxCache rec s.cache).items, ∀ a ∈ r'.entries, a.1 = e.1 → a.2 = e.2)
    (hres : ∀ x ∈ s.log, ((∃ p, (x.2.id, p) ∈ s.cache.items) ∨ x.2.chunk < w.cur) →
      ((∃ p, (x.2.id, p) ∈ (idxCache rec s.cache).items) ∨ x.2.chunk < w.cur)) :
    RdInv (s.applied rec st') fs w r' := by
  have hne := hj.openBytes.ne_nil
  have hlog' : ∀ x ∈ (s.applied rec st').log, x ∈ s.log ∨ optLe (some x.2.id) s.st.last = false := by
    intro x hx
    rcases hlog x hx with ⟨h1, _⟩ | ⟨p, _, _, _, h1, _⟩
    · exact .inl h1
    · exact .inr h1
  refine ⟨href, hcval, ?_, ?_, ?_, ?_, ?_⟩
  · intro x hx
    rcases hlog x hx with ⟨h1, h2⟩ | ⟨p, hrec, hd, hp, _, _⟩
    · obtain ⟨p, hp, hl⟩ := h.loc x h1
      refine ⟨p, h2 p hp, hl.mono (hl.1.applied hne) ⟨_, chunkBytes_applied fs w hne _⟩⟩
    · refine ⟨p, hp, ?_, ?_, ?_, chunkBytes s fs w s.openId, [], ?_, ?_⟩
      · rw [hd]; exact .inl (Store.applied_openId hne).symm
      · rw [hd]; exact Nat.le_of_lt hj.openId_lt
      · rw [hd, hrec]
      · rw [hd]
        simp only
        rw [chunkBytes_applied fs w hne, if_pos rfl, hrec, List.append_nil]
      · rw [hd]; exact chunkBytes_open_length hj
  · intro x hx c hc hid
    rcases hlog x hx with ⟨h1, _⟩ | ⟨p, _, hd, _, _, _⟩
    · exact h.clast x h1 c hc hid
    · exfalso
      rw [hd] at hid
      simp only at hid
      have := hj.closed_lt (c := c) hc
      omega
  · intro x hx
    rcases hlog x hx with ⟨h1, _⟩ | ⟨p, _, _, _, _, h2⟩
    · exact hres x h1 (h.res x h1)
    · exact .inl ⟨p, h2⟩
  · have := h.bnd.step (s' := s.applied rec st') hlast hlog'
    show EntOK (s.applied rec st') w.cur (idxCache rec s.cache).lastEvictable
    rw [hle]; exact this
  · intro f hf
    exact (h.ents f hf).step hlast hlog'

theorem RdInv.plain {s : Store} {fs : Fs} {w : Worker} {r r' : RefLog} {rec : Record} {st' : RState}
    (hj : JInv s fs w) (h : RdInv s fs w r) (href : RefinesNoCache (s.applied rec st') r')
    (hkind : (∃ v, rec = .saveVote v) ∨ (∃ id, rec = .commit id) ∨ (∃ x, rec = .state x))
    (hent : r'.entries = r.entries) (hlast : st'.last = s.st.last) :
    RdInv (s.applied rec st') fs w r' := by
  have hidx : (∀ chunk seg, idxLog rec chunk seg s.log = s.log) ∧ idxCache rec s.cache = s.cache := by
    rcases hkind with ⟨v, hv⟩ | ⟨id, hv⟩ | ⟨x, hv⟩ <;> subst hv <;> exact ⟨fun _ _ => rfl, rfl⟩
  apply RdInv.applied_of hj h href
  · rw [hlast]; exact optLe_refl _
  · rw [hidx.2]
  · intro x hx
    rw [hidx.1] at hx
    exact .inl ⟨hx, fun p hp => by rw [hent]; exact hp⟩
  · rw [hidx.2, hent]; exact h.cval
  · rw [hidx.2]; exact fun _ _ hx => hx

/-- `insert` = append at the end, then drop a prefix at or below the boundary. -/
theorem Cache.insert_split {c : Cache} {k : LogId} {v : Bytes} (hok : c.OK)
    (hk : ∀ e ∈ c.items, e.1.lt k = true) :
    ∃ pre, c.items ++ [(k, v)] = pre ++ (c.insert k v).items ∧ KeysLe pre c.lastEvictable := by
  have hsz : c.size + v.length = sumLen (c.items ++ [(k, v)]) := by
    rw [sumLen_append, hok.size_eq]; simp [sumLen]
  obtain ⟨pre, h1, _, h3⟩ := evictLoop_spec c.maxItems c.capacity c.lastEvictable
    (c.size + v.length) (c.items ++ [(k, v)]) hsz
  refine ⟨pre, ?_, h3⟩
  simp only [Cache.insert, Cache.tryEvict, insertSorted_of_all_lt k v c.items hk]
  exact h1

theorem RdInv.append1 {s : Store} {fs : Fs} {w : Worker} {r r1 : RefLog} {id : LogId} {p : Bytes}
    (hj : JInv s fs w) (h : RdInv s fs w r) (hc : r.append1 id p = .ok r1)
    (href : RefinesNoCache (s.applied (.append id p) r1.state) r1) :
    RdInv (s.applied (.append id p) r1.state) fs w r1 := by
  obtain ⟨hr1, hnle, _, hold, _⟩ := RefLog.append1_facts h.ref.wf hc
  have hlastEq : s.st.last = r.last := by rw [h.ref.st]; rfl
  have hnle' : optLe (some id) s.st.last = false := by rw [hlastEq]; exact hnle
  have hk := items_lt_of_gt_last h.ref.cinv hnle'
  obtain ⟨pre, hsplit, hpre⟩ := Cache.insert_split (v := p) h.ref.cinv.ok hk
  have hent : r1.entries = r.entries ++ [(id, p)] := by rw [hr1]
  -- the new entry stays resident: its id is above the boundary
  have hmem : (id, p) ∈ (s.cache.insert id p).items := by
    have : (id, p) ∈ pre ++ (s.cache.insert id p).items := by rw [← hsplit]; simp
    rcases List.mem_append.mp this with h1 | h1
    · have := optLe_trans (hpre _ h1) h.bnd.1
      rw [hnle'] at this; cases this
    · exact h1
  have hsub : ∀ e ∈ (s.cache.insert id p).items, e ∈ s.cache.items ∨ e = (id, p) := by
    intro e he
    have : e ∈ s.cache.items ++ [(id, p)] := by rw [hsplit]; exact List.mem_append_right _ he
    simpa using this
  apply RdInv.applied_of hj h href
  · show optLe s.st.last r1.state.last = true
    rw [hr1, hlastEq]
    exact optLe_of_lt ((optLt_iff_not_le _ _).2 hnle)
  · rfl
  · intro x hx
    rw [append1_log h.ref hc] at hx
    rcases List.mem_append.mp hx with h1 | h1
    · exact .inl ⟨h1, fun q hq => by rw [hent]; exact List.mem_append_left _ hq⟩
    · simp only [List.mem_singleton] at h1
      subst h1
      exact .inr ⟨p, rfl, rfl, by rw [hent]; simp, hnle', hmem⟩
  · intro e he a ha hae
    rw [hent] at ha
    rcases hsub e he with h1 | h1 <;> rcases List.mem_append.mp ha with h2 | h2
    · exact h.cval e h1 a h2 hae
    · exfalso
      simp only [List.mem_singleton] at h2
      subst h2
      have := h.ref.cinv.le_last e h1
      rw [← hae, hnle'] at this; cases this
    · exfalso
      subst h1
      have := (hold a h2).1
      rw [hae] at this
      simp [LogId.lt_irrefl] at this
    · simp only [List.mem_singleton] at h2
      subst h1; subst h2; rfl
  · intro x hx hres
    apply res_of_suffix h.bnd.2 hsplit hpre hx
    rcases hres with ⟨q, hq⟩ | hres
    · exact .inl ⟨q, List.mem_append_left _ hq⟩
    · exact .inr hres

theorem RdInv.purge {s : Store} {fs : Fs} {w : Worker} {r : RefLog} {upto : LogId}
    (hj : JInv s fs w) (h : RdInv s fs w r)
    (href : RefinesNoCache (s.applied (.purgeUpto upto) (r.purged' upto).state) (r.purged' upto)) :
    RdInv (s.applied (.purgeUpto upto) (r.purged' upto).state) fs w (r.purged' upto) := by
  have hlastEq : s.st.last = r.last := by rw [h.ref.st]; rfl
  obtain ⟨pre, hsplit, hpre⟩ := purgeLoop_pre upto s.cache.lastEvictable s.cache.size s.cache.items
  apply RdInv.applied_of hj h href
  · show optLe s.st.last (r.purged' upto).last = true
    rw [hlastEq]
    simp only [RefLog.purged']
    by_cases hlt : optLt r.last (some upto) = true
    · simp only [hlt, if_true]; exact optLe_of_lt hlt
    · simp only [hlt]; exact optLe_refl _
  · rfl
  · intro x hx
    have hx' : x ∈ s.log ∧ upto.index + 1 ≤ x.1 := by
      simpa [idxLog] using hx
    refine .inl ⟨hx'.1, fun q hq => ?_⟩
    simp only [RefLog.purged', List.mem_filter, decide_eq_true_eq]
    have := h.index_eq hx'.1
    exact ⟨hq, by omega⟩
  · intro e he a ha hae
    have he' : e ∈ s.cache.items := (Cache.purgeUpto_facts s.cache upto).2.1 e he
    have ha' : a ∈ r.entries := by
      simp only [RefLog.purged', List.mem_filter] at ha; exact ha.1
    exact h.cval e he' a ha' hae
  · intro x hx hres
    exact res_of_suffix h.bnd.2 hsplit hpre hx hres

/-! ### Chunk rotation -/

theorem Worker.push_cur (w : Worker) (q : List WReq) : (w.push q).cur = w.cur := rfl

theorem Worker.push_fents (w : Worker) (q : List WReq) : (w.push q).fents = w.fents ++ reqEnts q := by
  simp [Worker.fents_eq, Worker.push_rest]

theorem reqEnts_rotateEffs (s : Store) : reqEnts (effQ (rotateEffs s)) = [⟨s.openEnd, s.st.last⟩] := by
  rw [effQ_rotateEffs]
  by_cases hp : s.pending.isEmpty = true <;> simp [hp, WReq.ents]

theorem RdInv.rotate {s : Store} {fs : Fs} {w : Worker} {r : RefLog} (hj : JInv s fs w)
    (h : RdInv s fs w r) :
    RdInv s.rotated (effFs (rotateEffs s) fs) (w.push (effQ (rotateEffs s))) r := by
  have hlt := hj.openId_lt
  apply h.transfer (s' := s.rotated) h.ref.rotated rfl rfl
  · intro x _ hl
    rcases hl with h1 | ⟨c, hc, h1⟩
    · refine .inr ⟨⟨s.openOffsets, s.st⟩, ?_, ?_⟩
      · simp [Store.rotated]
      · rw [h1]; rfl
    · exact .inr ⟨c, by simp [Store.rotated, hc], h1⟩
  · intro x hx
    have := h.chunk_le hj hx
    exact ⟨[], by rw [chunkBytes_rotated hj (by omega)]; simp⟩
  · intro x hx c hc hid
    have hc' : c ∈ s.closed ∨ c = ⟨s.openOffsets, s.st⟩ := by
      simpa [Store.rotated] using hc
    rcases hc' with h1 | h1
    · exact .inl h1
    · right; subst h1; exact h.id_le_last hx
  · exact fun e he => he
  · exact fun x _ hr => hr
  · exact h.bnd
  · intro f hf
    rw [Worker.push_fents, reqEnts_rotateEffs] at hf
    rcases List.mem_append.mp hf with h1 | h1
    · exact .inl h1
    · right
      simp only [List.mem_singleton] at h1
      subst h1
      refine ⟨optLe_refl _, fun x hx _ => ?_⟩
      have := h.chunk_le hj hx
      show x.2.chunk < s.openEnd
      omega

/-! ### Purge drops obsolete closed chunks -/

theorem RdInv.dropObsolete {s : Store} {fs : Fs} {w : Worker} {r : RefLog} {upto : LogId}
    (h : RdInv s fs w r) (hgt : ∀ x ∈ s.log, upto.lt x.2.id = true) :
    RdInv ({ s with closed := (popObsolete upto s.closed).2,
                    removed := s.removed ++ (popObsolete upto s.closed).1 } : Store) fs w r := by
  obtain ⟨k, _, h2, h3, _⟩ := popObsolete_spec upto s.closed
  apply h.transfer (s' := ({ s with closed := (popObsolete upto s.closed).2, removed := s.removed ++ (popObsolete upto s.closed).1 } : Store))
    (h.ref.of_fields rfl rfl rfl rfl) rfl rfl
  · intro x hx hl
    rcases hl with h1 | ⟨c, hc, h1⟩
    · exact .inl h1
    · refine .inr ⟨c, ?_, h1⟩
      show c ∈ (popObsolete upto s.closed).2
      rw [h2]
      rw [← List.take_append_drop k s.closed] at hc
      rcases List.mem_append.mp hc with h4 | h4
      · exfalso
        have hle := h.clast x hx c (List.mem_of_mem_take h4) h1
        have hcl := h3 c h4
        have hcl' : optLe c.state.last (some upto) = true := (optLe_iff_not_lt _ _).2 hcl
        have := optLe_trans hle hcl'
        simp only [optLe_some_some] at this
        have hg := hgt x hx
        rw [← LogId.not_le_iff_lt] at hg
        rw [hg] at this; cases this
      · exact h4
  · intro x _
    exact ⟨[], by rw [List.append_nil]; rfl⟩
  · intro x _ c hc _
    left
    have : c ∈ (popObsolete upto s.closed).2 := hc
    rw [h2] at this
    exact List.mem_of_mem_drop this
  · exact fun e he => he
  · exact fun x _ hr => hr
  · exact h.bnd
  · exact fun f hf => .inl hf

/-! ### Flush -/

theorem effFs_flush (s : Store) (cb : Option Nat) (fs : Fs) : effFs (s.flush cb).2 fs = fs := by
  unfold Store.flush
  by_cases hr : s.removed.isEmpty = true <;> simp [hr, effFs]

theorem effQ_flush (s : Store) (cb : Option Nat) :
    effQ (s.flush cb).2 = [.write s.openEnd s.pending cb] ++
      (if s.removed.isEmpty then [] else [.removeChunks s.removed]) := by
  unfold Store.flush
  by_cases hr : s.removed.isEmpty = true <;> simp [hr, effQ]

theorem inflight_flush {s : Store} {fs : Fs} {w : Worker} (hj : JInv s fs w) (cb : Option Nat) (id : Nat) :
    (w.push (effQ (s.flush cb).2)).inflight id =
      w.inflight id ++ (if s.openId = id then s.pending else []) := by
  rw [effQ_flush]
  by_cases hr : s.removed.isEmpty = true
  · simp only [hr, if_true, List.append_nil]
    exact (w.push_write s.openEnd s.pending cb s.openId hj.annLast id).1
  · rw [if_neg hr, ← Worker.push_push,
      ((w.push [.write s.openEnd s.pending cb]).push_removeChunks s.removed id).1]
    exact (w.push_write s.openEnd s.pending cb s.openId hj.annLast id).1

theorem reqEnts_flush (s : Store) (cb : Option Nat) : reqEnts (effQ (s.flush cb).2) = [] := by
  rw [effQ_flush]
  by_cases hr : s.removed.isEmpty = true <;> simp [hr, WReq.ents]

theorem RdInv.flush {s : Store} {fs : Fs} {w : Worker} {r : RefLog} (hj : JInv s fs w)
    (h : RdInv s fs w r) (cb : Option Nat) :
    RdInv (s.flush cb).1 (effFs (s.flush cb).2 fs) (w.push (effQ (s.flush cb).2)) r := by
  rw [effFs_flush]
  apply h.transfer (s' := (s.flush cb).1) (h.ref.of_fields rfl rfl rfl rfl) rfl rfl
  · exact fun x _ hl => hl
  · intro x _
    refine ⟨[], ?_⟩
    have e1 : (s.flush cb).1.openId = s.openId := rfl
    have e2 : (s.flush cb).1.pending = [] := rfl
    simp only [chunkBytes, e1, e2, inflight_flush hj]
    by_cases e : s.openId = x.2.chunk <;> simp [e]
  · exact fun x _ c hc _ => .inl hc
  · exact fun e he => he
  · exact fun x _ hr => hr
  · exact h.bnd
  · intro f hf
    rw [Worker.push_fents, reqEnts_flush, List.append_nil] at hf
    exact .inl hf

/-! ### `settle` -/

theorem Worker.settle_fents (w : Worker) : w.settle.fents = w.fents := by
  obtain ⟨h1, h2, _, _, _⟩ := w.settle_facts
  rw [Worker.fents_eq, Worker.fents_eq, h1, h2]

theorem Worker.settle_cur (w : Worker) : w.settle.cur = w.cur := by
  obtain ⟨_, h2, _, _, _⟩ := w.settle_facts
  simp only [Worker.cur, h2]

theorem RdInv.settle {s : Store} {fs : Fs} {w : Worker} {r : RefLog} (h : RdInv s fs w r) :
    RdInv s fs w.settle r := by
  apply h.transfer h.ref rfl rfl
  · exact fun x _ hl => hl
  · intro x _
    exact ⟨[], by simp only [chunkBytes, Worker.settle_inflight, List.append_nil]⟩
  · exact fun x _ c hc _ => .inl hc
  · exact fun e he => he
  · intro x _ hr
    rw [Worker.settle_cur]; exact hr
  · rw [Worker.settle_cur]; exact h.bnd
  · intro f hf
    rw [Worker.settle_fents] at hf
    exact .inl hf

/-! ### Worker steps -/

theorem incr_head_le {a : Nat} {l : List Nat} (h : Incr (a :: l)) : ∀ b ∈ a :: l, a ≤ b := by
  intro b hb
  rcases List.mem_cons.mp hb with h1 | h1
  · omega
  · have := (List.pairwise_cons.mp h).1 b h1; omega

theorem StepGood.cur_le {s : Store} {c c' : WCtx} (hj : JInv s c.fs c.w) (g : StepGood c c') :
    c.w.cur ≤ c'.w.cur := by
  have h1 : c'.w.cur ∈ c.w.announced := g.ann.subset (by simp [Worker.announced])
  exact incr_head_le (a := c.w.cur) (l := annIds c.w.rest) hj.annAsc _ h1

theorem newestId_singleton (f : FileEnt) : newestId [f] = f.id := by simp [newestId]

theorem RdInv.wstep {s : Store} {c c' : WCtx} {r : RefLog} (hj : JInv s c.fs c.w)
    (h : RdInv ({ s with cache := c.cache } : Store) c.fs c.w r)
    (g : StepGood c c') (hsame : SameItems c'.cache c.cache)
    (hents : ∀ x ∈ c'.w.fents, x ∈ c.w.fents) (hb : BndStep c c') :
    RdInv ({ s with cache := c'.cache } : Store) c'.fs c'.w r := by
  have hcur := g.cur_le hj
  have href : RefinesNoCache ({ s with cache := c'.cache } : Store) r := h.ref.of_same hsame
  apply h.transfer (s' := ({ s with cache := c'.cache } : Store)) href rfl rfl
  · exact fun x _ hl => hl
  · intro x _
    refine ⟨[], ?_⟩
    simp only [chunkBytes, List.append_nil]
    rw [g.bytes]
    rfl
  · exact fun x _ c hc _ => .inl hc
  · intro e he
    have : e ∈ c'.cache.items := he
    rw [hsame.1] at this
    exact this
  · intro x _ hr
    rcases hr with ⟨p, hp⟩ | hr
    · left
      refine ⟨p, ?_⟩
      show (x.2.id, p) ∈ c'.cache.items
      rw [hsame.1]; exact hp
    · right; omega
  · show EntOK ({ s with cache := c.cache } : Store) c'.w.cur c'.cache.lastEvictable
    rcases hb with hb | ⟨f, hf, hb⟩
    · rw [hb]; exact h.bnd.mono hcur
    · rw [hb]
      have hmem : f ∈ c'.w.fents := by
        rw [Worker.fents, hf]; simp
      have := h.ents f (hents f hmem)
      have e : c'.w.cur = f.id := by
        simp only [Worker.cur, hf, newestId_singleton]
      rw [e]; exact this
  · exact fun f hf => .inl (hents f hf)

/-! ### `drain` -/

theorem RdInv.drain {s : Store} {fs : Fs} {w : Worker} {r : RefLog} (h : RdInv s fs w r) :
    RdInv ({ s with cache := s.cache.drainEvictable } : Store) fs w r := by
  obtain ⟨pre, h1, _, h3, _⟩ :=
    drainLoop_spec s.cache.lastEvictable s.cache.size s.cache.items h.ref.cinv.ok.size_eq
  apply h.transfer (s' := ({ s with cache := s.cache.drainEvictable } : Store)) h.ref.drain rfl rfl
  · exact fun x _ hl => hl
  · intro x _
    exact ⟨[], by rw [List.append_nil]; rfl⟩
  · exact fun x _ c hc _ => .inl hc
  · intro e he
    have : e ∈ (drainLoop s.cache.lastEvictable s.cache.size s.cache.items).2 := he
    rw [h1]; exact List.mem_append_right _ this
  · intro x hx hr
    exact res_of_suffix h.bnd.2 h1 h3 hx hr
  · exact h.bnd
  · exact fun f hf => .inl hf

/-! ### `appendAndApply`, batches, and every public call except `truncate` -/

/-- One journalled record: given the `RefinesNoCache` step (`hnc`) and the
record-kind lemma for the state before the rotation check (`hstage`), the
journal invariant and the read-path invariant hold after the call's effects. -/
theorem aa_rinv {s : Store} {fs : Fs} {w : Worker} {r r' : RefLog} (fsHas : Nat → Bool) {rec : Record}
    (hj : JInv s fs w) (h : RdInv s fs w r) (hrec : rec.WF) (hsm : rec.small)
    (hfs : ∀ i, s.openEnd ≤ i → fsHas i = false)
    (hst : s.st.apply rec = .ok r'.state)
    (hnc : ∃ seg s' effs, s.appendAndApply fsHas rec = (.ok seg, s', effs) ∧ RefinesNoCache s' r' ∧
      Growth0 s s' effs)
    (hstage : RefinesNoCache (s.applied rec r'.state) r' → RdInv (s.applied rec r'.state) fs w r') :
    ∃ seg s' effs, s.appendAndApply fsHas rec = (.ok seg, s', effs) ∧
      JInv s' (effFs effs fs) (w.push (effQ effs)) ∧ RdInv s' (effFs effs fs) (w.push (effQ effs)) r' ∧
      Growth0 s s' effs := by
  have hne := hj.openBytes.ne_nil
  have hfs' : fsHas (s.openEnd + (encRecord rec).length) = false := hfs _ (by omega)
  have h3 := hstage (refinesNC_applied fsHas hst hsm h.ref.pf hfs' hnc)
  have hj3 := hj.applied hrec hsm hst
  have hjj := (appendAndApply_J fsHas hj hrec hfs).inv
  obtain ⟨seg, s', effs, heq, _, hg⟩ := hnc
  refine ⟨seg, s', effs, heq, by rw [heq] at hjj; exact hjj, ?_, hg⟩
  rw [appendAndApply_shapeRd fsHas hst hsm hne hfs'] at heq
  rcases tryCloseFull_cases (s.applied rec r'.state) fsHas (by rw [Store.applied_openEnd]; exact hfs')
    with e | e <;> rw [e] at heq <;> simp only [Prod.mk.injEq] at heq <;> obtain ⟨_, rfl, rfl⟩ := heq
  · simpa [effFs, effQ] using h3
  · exact h3.rotate hj3

theorem appendBatch_rinv (es : List (LogId × Bytes)) :
    ∀ (s : Store) (r r' : RefLog) (fsHas : Nat → Bool) (seg : Seg) (effs : List Eff) (fs : Fs) (w : Worker),
    JInv s (effFs effs fs) (w.push (effQ effs)) → RdInv s (effFs effs fs) (w.push (effQ effs)) r →
    (∀ i, s.openEnd ≤ i → fsHas i = false) → r.appendAll es = .ok r' →
    (∀ e ∈ es, smallId e.1) → (∀ e ∈ es, e.1.WF ∧ bytesWF e.2) →
    ∃ seg' s' effs', Store.appendBatch fsHas es s seg effs = (.ok seg', s', effs ++ effs') ∧
      RdInv s' (effFs (effs ++ effs') fs) (w.push (effQ (effs ++ effs'))) r' := by
  induction es with
  | nil =>
    intro s r r' fsHas seg effs fs w _ h _ hc _ _
    simp only [RefLog.appendAll] at hc
    injection hc with hc
    subst hc
    exact ⟨seg, s, [], by simp [Store.appendBatch], by simpa using h⟩
  | cons e rest ih =>
    obtain ⟨id, p⟩ := e
    intro s r r' fsHas seg effs fs w hj h hfs hc hsm hwf
    simp only [RefLog.appendAll] at hc
    split at hc
    · rename_i r1 hc1
      have hsm1 : smallId id := hsm (id, p) List.mem_cons_self
      have hwf1 : (Record.append id p).WF := hwf (id, p) List.mem_cons_self
      obtain ⟨seg1, s1, e1, heq1, hj1, h1, hg1⟩ :=
        aa_rinv fsHas (rec := .append id p) hj h hwf1 hsm1 hfs (append1_state h.ref hc1)
          (append1_refinesNC fsHas h.ref hfs hc1 hsm1) (fun href => RdInv.append1 hj h hc1 href)
      rw [← effFs_append, Worker.push_push, ← effQ_append] at hj1 h1
      have hfs1 : ∀ i, s1.openEnd ≤ i →
          (fsHas i || e1.any (fun e => e == Eff.create i)) = false := by
        intro i hi
        have h1 : fsHas i = false := hfs i (by have := hg1.openEnd; omega)
        have h2 : e1.any (fun e => e == Eff.create i) = false := by
          rw [List.any_eq_false]
          intro x hx hxe
          have : x = Eff.create i := by simpa using hxe
          subst this
          have := hg1.creates i hx
          omega
        simp [h1, h2]
      obtain ⟨seg2, s2, e2, heq2, h2⟩ :=
        ih s1 r1 r' _ seg1 (effs ++ e1) fs w hj1 h1 hfs1 hc
          (fun e he => hsm e (List.mem_cons_of_mem _ he))
          (fun e he => hwf e (List.mem_cons_of_mem _ he))
      refine ⟨seg2, s2, e1 ++ e2, ?_, by rw [← List.append_assoc]; exact h2⟩
      have hidxD12 : id.index + 1 ≠ U64 := by
        have : id.index + 1 < U64 := hsm (id, p) List.mem_cons_self
        omega
      rw [appendBatch_cons_small_D12 _ _ _ _ _ _ _ hidxD12]
      rw [heq1]
      simp only
      rw [heq2, List.append_assoc]
    · cases hc

/-- **Every legal, accepted, small, well-formed call other than `truncate`**
keeps the read-path invariant (on the state after the call's effects). -/
theorem call_rinv {s : Store} {fs : Fs} {w : Worker} {r r' : RefLog} (fsHas : Nat → Bool) {op : Op}
    (hj : JInv s fs w) (h : RdInv s fs w r) (hfs : ∀ i, s.openEnd ≤ i → fsHas i = false)
    (hl : r.legal op = true) (hc : r.call op = .ok r') (hsm : op.small) (hwf : op.WF)
    (hnt : ∀ idx, op ≠ .truncate idx) :
    ∃ seg s' effs, s.call fsHas op = (.ok seg, s', effs) ∧
      RdInv s' (effFs effs fs) (w.push (effQ effs)) r' := by
  have hpu : s.st.purged = r.purged := by rw [h.ref.st]; rfl
  have hla : s.st.last = r.last := by rw [h.ref.st]; rfl
  cases op with
  | truncate idx => exact absurd rfl (hnt idx)
  | saveVote v =>
    simp only [RefLog.call] at hc
    split at hc
    · rename_i hcond
      injection hc with hc; subst hc
      have hst : s.st.apply (.saveVote v) = .ok (RefLog.state { r with vote := some v }) := by
        simp [RState.apply, RState.updateVote, h.ref.st, RefLog.state, hcond]
      obtain ⟨seg, s', effs, heq, _, h', _⟩ := aa_rinv fsHas (rec := .saveVote v) hj h hwf trivial hfs hst
        (refinesNC_step_plain fsHas h.ref hfs hst (Or.inl ⟨v, rfl⟩) rfl rfl rfl)
        (fun href => RdInv.plain hj h href (Or.inl ⟨v, rfl⟩) rfl hla.symm)
      exact ⟨seg, s', effs, heq, h'⟩
    · cases hc
  | commit id =>
    simp only [RefLog.call] at hc
    split at hc
    · cases hc
    · rename_i hcond
      injection hc with hc; subst hc
      have hst : s.st.apply (.commit id) = .ok (RefLog.state { r with committed := some id }) := by
        simp [RState.apply, RState.commit, h.ref.st, RefLog.state, hcond]
      obtain ⟨seg, s', effs, heq, _, h', _⟩ := aa_rinv fsHas (rec := .commit id) hj h hwf trivial hfs hst
        (refinesNC_step_plain fsHas h.ref hfs hst (Or.inr (Or.inl ⟨id, rfl⟩)) rfl rfl rfl)
        (fun href => RdInv.plain hj h href (Or.inr (Or.inl ⟨id, rfl⟩)) rfl hla.symm)
      exact ⟨seg, s', effs, heq, h'⟩
  | saveUserData d =>
    simp only [RefLog.call] at hc
    injection hc with hc; subst hc
    have hst : s.st.apply (.state { s.st with userData := d }) =
        .ok (RefLog.state { r with userData := d }) := by
      simp [RState.apply, h.ref.st, RefLog.state]
    have hrwf : (Record.state { s.st with userData := d }).WF := by
      obtain ⟨h1, h2, h3, h4, _⟩ := hj.stWF
      exact ⟨h1, h2, h3, h4, by cases d <;> simp [Op.WF] at hwf ⊢ <;> exact hwf⟩
    obtain ⟨seg, s', effs, heq, _, h', _⟩ :=
      aa_rinv fsHas (rec := .state { s.st with userData := d }) hj h hrwf trivial hfs hst
        (refinesNC_step_plain fsHas h.ref hfs hst (Or.inr (Or.inr ⟨_, rfl, rfl, rfl⟩)) rfl rfl rfl)
        (fun href => RdInv.plain hj h href (Or.inr (Or.inr ⟨_, rfl⟩)) rfl hla.symm)
    exact ⟨seg, s', effs, heq, h'⟩
  | append es =>
    simp only [Store.call]
    obtain ⟨seg0, hseg⟩ := lastSegment_some h.ref.pf.open2
    rw [hseg]
    simp only
    obtain ⟨seg', s', effs', heq, h'⟩ :=
      appendBatch_rinv es s r r' fsHas seg0 [] fs w (by simpa [effFs, effQ] using hj)
        (by simpa [effFs, effQ] using h) hfs hc hsm hwf
    exact ⟨seg', s', effs', by simpa using heq, by simpa using h'⟩
  | purge upto =>
    have hidxD12 : upto.index + 1 ≠ U64 := by
      have : upto.index + 1 < U64 := hsm
      omega
    simp only [Store.call, if_neg hidxD12]
    rw [nextIndexChecked_eq h.ref.pf.purged]
    simp only [hpu]
    simp only [RefLog.call] at hc
    by_cases hnn : upto.index < nextIndex r.purged
    · rw [if_pos hnn]
      rw [if_pos hnn] at hc
      injection hc with hc; subst hc
      obtain ⟨seg0, hseg⟩ := lastSegment_some h.ref.pf.open2
      rw [hseg]
      exact ⟨seg0, s, [], rfl, by simpa [effFs, effQ] using h⟩
    · rw [if_neg hnn]
      rw [if_neg hnn] at hc
      injection hc with hc; subst hc
      obtain ⟨seg, s', effs, heq, _, h', _⟩ :=
        aa_rinv fsHas (rec := .purgeUpto upto) (r' := r.purged' upto) hj h hwf hsm hfs
          (purge_state h.ref upto) (purgeUpto_refinesNC fsHas h.ref hfs hl hnn hsm)
          (fun href => RdInv.purge hj h href)
      rw [heq]
      simp only
      refine ⟨seg, _, effs, rfl, ?_⟩
      apply h'.dropObsolete
      intro x hx
      obtain ⟨a, ha, hai, hid⟩ := mem_log_indexNC h'.ref hx
      simp only [RefLog.purged', List.mem_filter, decide_eq_true_eq] at ha
      rw [← hid]
      exact RefLog.purge_keys h.ref.wf hl hnn a ha.1 ha.2

end RaftLog
