/-
C02 groundwork, part 2: a cache-free refinement relation. `Abs s r` says the
state and the index map of the store are those of the reference log `r`;
nothing is said about the payload cache (so it survives `drain`, eviction and
any cache limits). `StepOK s r' rec` bundles what journalling the record `rec`
needs in order to move from `r` to `r'`; it is established for every record a
legal, accepted, small op journals.
-/
import RaftLogModel.Proofs.ReplayLog
namespace RaftLog

structure Abs (s : Store) (r : RefLog) : Prop where
  st : s.st = r.state
  log : logKeys s.log = entKeys r.entries
  wf : r.WF
  pf : PanicFree s

theorem Refines.abs {s : Store} {r : RefLog} (h : Refines s r) : Abs s r :=
  ⟨h.st, h.log, h.wf, h.pf⟩

theorem Abs.of_fields {s s2 : Store} {r : RefLog} (h : Abs s r) (h1 : s2.st = s.st)
    (h2 : s2.log = s.log) (h4 : s2.openOffsets = s.openOffsets) : Abs s2 r :=
  ⟨by rw [h1]; exact h.st, by rw [h2]; exact h.log, h.wf,
    ⟨by rw [h4]; exact h.pf.open2, by rw [h1]; exact h.pf.purged, by rw [h1]; exact h.pf.last,
      by rw [h2]; exact h.pf.log⟩⟩

theorem Abs.mem_log {s : Store} {r : RefLog} (h : Abs s r) {e : Nat × LogData} (he : e ∈ s.log) :
    ∃ a ∈ r.entries, a.1.index = e.1 ∧ a.1 = e.2.id := by
  have : (e.1, e.2.id) ∈ logKeys s.log := List.mem_map.mpr ⟨e, he, rfl⟩
  rw [h.log] at this
  obtain ⟨a, ha, hae⟩ := List.mem_map.mp this
  simp only [Prod.mk.injEq] at hae
  exact ⟨a, ha, hae.1, hae.2⟩

/-- Every index entry is at or below `last`. -/
theorem Abs.log_below {s : Store} {r : RefLog} (h : Abs s r) :
    ∀ e ∈ s.log, optLe (some e.2.id) s.st.last = true := by
  intro e he
  obtain ⟨a, ha, _, hid⟩ := h.mem_log he
  have := (h.wf.below a ha).1
  rw [hid] at this
  rw [h.st]
  exact this

/-- Every index entry is above `purged`. -/
theorem Abs.log_above {s : Store} {r : RefLog} (h : Abs s r) :
    ∀ e ∈ s.log, optLt s.st.purged (some e.2.id) = true := by
  intro e he
  obtain ⟨a, ha, _, hid⟩ := h.mem_log he
  have := (h.wf.above a ha).1
  rw [hid] at this
  rw [h.st]
  exact this

/-- What journalling `rec` needs to move the reference log to `r'`. -/
structure StepOK (s : Store) (r r' : RefLog) (rec : Record) : Prop where
  hst : s.st.apply rec = .ok r'.state
  small : rec.small
  hstate : ∀ x, rec = .state x → optSmall x.purged ∧ optSmall x.last
  wf : r'.WF
  hlog : ∀ chunk seg, logKeys (idxLog rec chunk seg s.log) = entKeys r'.entries
  /-- payloads: an index entry either was there before, and then the reference entries with its
  id are kept, or it is the one this (append) record inserts, at this record's segment -/
  pay : ∀ chunk seg, ∀ e ∈ idxLog rec chunk seg s.log,
    (e ∈ s.log ∧ ∀ p, (e.2.id, p) ∈ r.entries → (e.2.id, p) ∈ r'.entries) ∨
    (e.2.off = seg.off ∧ e.2.chunk = chunk ∧ ∃ p, rec = .append e.2.id p)
  newEntry : ∀ id p, rec = .append id p → (id, p) ∈ r'.entries
  /-- what the record must satisfy against the state and index map it is applied to -/
  check : RecCheck rec s.st s.log

theorem abs_step {s : Store} {r r' : RefLog} (fsHas : Nat → Bool) {rec : Record}
    (h : Abs s r) (hfs : ∀ i, s.openEnd ≤ i → fsHas i = false) (ok : StepOK s r r' rec) :
    ∃ s' effs, s.appendAndApply fsHas rec = (.ok ⟨s.openEnd, (encRecord rec).length⟩, s', effs) ∧
      Abs s' r' := by
  obtain ⟨s', effs, chunk, heq, h1, h2, _, _, _⟩ := appendAndApply_ok fsHas ok.hst ok.small hfs
  have hpf := appendAndApply_panicFree fsHas h.pf ok.small ok.hstate
  rw [heq] at hpf
  exact ⟨s', effs, heq, ⟨h1, by rw [h2]; exact ok.hlog _ _, ok.wf, hpf⟩⟩

/-! ### The records of the public calls -/

theorem stepOK_plain {s : Store} {r r' : RefLog} {rec : Record} (h : Abs s r)
    (hst : s.st.apply rec = .ok r'.state)
    (hkind : (∃ v, rec = .saveVote v) ∨ (∃ id, rec = .commit id) ∨
      (∃ x, rec = .state x ∧ x.last = s.st.last ∧ x.purged = s.st.purged))
    (hent : r'.entries = r.entries) (hpu : r'.purged = r.purged) (hla : r'.last = r.last) :
    StepOK s r r' rec := by
  have hwf : r'.WF := by
    have := h.wf
    exact ⟨by rw [hent]; exact this.mono, by rw [hent, hpu]; exact this.above,
      by rw [hent, hla]; exact this.below, by rw [hpu, hla]; exact this.pl⟩
  have hidx : ∀ chunk seg, idxLog rec chunk seg s.log = s.log := by
    rcases hkind with ⟨v, hv⟩ | ⟨id, hv⟩ | ⟨x, hv, _⟩ <;> subst hv <;> exact fun _ _ => rfl
  have hsmall : rec.small := by
    rcases hkind with ⟨v, hv⟩ | ⟨id, hv⟩ | ⟨x, hv, _⟩ <;> subst hv <;> trivial
  refine ⟨hst, hsmall, ?_, hwf, ?_, ?_, ?_, ?_⟩
  · intro x hx
    rcases hkind with ⟨v, hv⟩ | ⟨id, hv⟩ | ⟨x', hv, h1, h2⟩
    · subst hv; cases hx
    · subst hv; cases hx
    · subst hv
      injection hx with hx
      subst hx
      exact ⟨by rw [h2]; exact h.pf.purged, by rw [h1]; exact h.pf.last⟩
  · intro chunk seg
    rw [hidx, hent]
    exact h.log
  · intro chunk seg e he
    rw [hidx] at he
    exact Or.inl ⟨he, fun p hp => by rw [hent]; exact hp⟩
  · intro id p hrec
    rcases hkind with ⟨v, hv⟩ | ⟨id', hv⟩ | ⟨x, hv, _⟩ <;> subst hv <;> cases hrec
  · rcases hkind with ⟨v, hv⟩ | ⟨id', hv⟩ | ⟨x, hv, h1, _⟩
    · subst hv; trivial
    · subst hv; trivial
    · subst hv; exact h1

theorem stepOK_append1 {s : Store} {r r1 : RefLog} {id : LogId} {p : Bytes} (h : Abs s r)
    (hc : r.append1 id p = .ok r1) (hsm : smallId id) : StepOK s r r1 (.append id p) := by
  have hwf1 := RefLog.append1_wf h.wf hc
  obtain ⟨hr1, hnle, hcons, hold, _⟩ := RefLog.append1_facts h.wf hc
  subst hr1
  have hlast : s.st.last = r.last := by rw [h.st]; rfl
  refine ⟨?_, hsm, (by intro x hx; cases hx), hwf1, ?_, ?_, ?_, trivial⟩
  · simp only [RState.apply, RState.append, hlast, hnle, Bool.false_eq_true, if_false]
    cases hl : r.last with
    | none => simp [RefLog.state, h.st, hl]
    | some l =>
      have hsl : optSmall (some l) := by have := h.pf.last; rw [hlast, hl] at this; exact this
      have hci := hcons l hl
      simp only [nextIndexChecked_eq hsl, nextIndex]
      simp [hci, RefLog.state, h.st, hl]
  · intro chunk seg
    have hlt : ∀ e ∈ s.log, e.1 < id.index := by
      intro e he
      obtain ⟨a, ha, hai, _⟩ := h.mem_log he
      have := (hold a ha).2
      omega
    simp only [idxLog]
    rw [logInsert_of_all_lt _ _ _ hlt]
    simp only [logKeys, entKeys, List.map_append, List.map_cons, List.map_nil]
    have := h.log
    simp only [logKeys, entKeys] at this
    rw [this]
  · intro chunk seg e he
    simp only [idxLog] at he
    rcases mem_logInsert he with h1 | h1
    · subst h1
      exact Or.inr ⟨rfl, rfl, p, rfl⟩
    · exact Or.inl ⟨h1, fun q hq => List.mem_append_left _ hq⟩
  · intro id' p' hrec
    injection hrec with h1 h2
    subst h1; subst h2
    exact List.mem_append_right _ (List.mem_singleton.mpr rfl)

theorem stepOK_truncateAfter {s : Store} {r : RefLog} {o : Option LogId} (h : Abs s r)
    (ho : r.TruncArg o) (hsm : optSmall o) : StepOK s r (r.truncateTo o) (.truncateAfter o) := by
  have hwf' := RefLog.truncateTo_wf h.wf ho
  have hkeys := RefLog.truncateTo_keys h.wf ho
  refine ⟨?_, hsm, (by intro x hx; cases hx), hwf', ?_, ?_, (by intro id p hrec; cases hrec), ?_⟩
  rotate_left 3
  · cases o with
    | none => trivial
    | some key =>
      show ∀ e ∈ s.log, e.1 < key.index + 1 → key.lt e.2.id = false
      intro e he hlt
      obtain ⟨a, ha, hai, haid⟩ := h.mem_log he
      rw [← haid]
      apply hkeys a _ key rfl
      simp only [RefLog.truncateTo, List.mem_filter, nextIndex]
      exact ⟨ha, by rw [hai]; exact decide_eq_true hlt⟩
  · simp only [RState.apply, h.st, RState.truncateAfter, RefLog.truncateTo, RefLog.state]
    by_cases hlt : optLt o r.last = true <;> simp [hlt]
  · intro chunk seg
    have h1 := logKeys_filter (fun i => decide (i < nextIndex o)) s.log
    have h2 := entKeys_filter (fun i => decide (i < nextIndex o)) r.entries
    have h3 : logKeys s.log = entKeys r.entries := h.log
    simp only [idxLog, RefLog.truncateTo]
    rw [h1, h2, h3]
  · intro chunk seg e he
    simp only [idxLog, List.mem_filter, decide_eq_true_eq] at he
    refine Or.inl ⟨he.1, fun p hp => ?_⟩
    obtain ⟨a, _, hai, haid⟩ := h.mem_log he.1
    simp only [RefLog.truncateTo, List.mem_filter, decide_eq_true_eq]
    refine ⟨hp, ?_⟩
    rw [← haid, hai]; exact he.2

theorem stepOK_purgeUpto {s : Store} {r : RefLog} {upto : LogId} (h : Abs s r)
    (hl : r.legal (.purge upto) = true) (hnn : ¬ upto.index < nextIndex r.purged)
    (hsm : smallId upto) :
    StepOK s r ({ r with
        purged := if optLt r.purged (some upto) then some upto else r.purged,
        last := if optLt r.last (some upto) then some upto else r.last,
        entries := r.entries.filter (fun e => upto.index < e.1.index) } : RefLog)
      (.purgeUpto upto) := by
  have hwf' := RefLog.purge_wf h.wf hl hnn
  have hkeys := RefLog.purge_keys h.wf hl hnn
  refine ⟨?_, hsm, (by intro x hx; cases hx), hwf', ?_, ?_, (by intro id p hrec; cases hrec), ?_⟩
  rotate_left 3
  · show ∀ e ∈ s.log, upto.index < e.1 → upto.lt e.2.id = true
    intro e he hlt
    obtain ⟨a, ha, hai, haid⟩ := h.mem_log he
    rw [← haid]
    exact hkeys a ha (by rw [hai]; exact hlt)
  · simp only [RState.apply, h.st, RState.purge, RefLog.state]
    by_cases h1 : optLt r.purged (some upto) = true <;>
      by_cases h2 : optLt r.last (some upto) = true <;> simp [h1, h2]
  · intro chunk seg
    have h1 := logKeys_filter (fun i => decide (upto.index < i)) s.log
    have h2 := entKeys_filter (fun i => decide (upto.index < i)) r.entries
    have h3 : logKeys s.log = entKeys r.entries := h.log
    have h4 : idxLog (.purgeUpto upto) chunk seg s.log = s.log.filter (fun e => decide (upto.index < e.1)) := rfl
    rw [h4, h1, h2, h3]
  · intro chunk seg e he
    have h4 : idxLog (.purgeUpto upto) chunk seg s.log = s.log.filter (fun e => decide (upto.index < e.1)) := rfl
    rw [h4] at he
    simp only [List.mem_filter, decide_eq_true_eq] at he
    refine Or.inl ⟨he.1, fun p hp => ?_⟩
    obtain ⟨a, _, hai, haid⟩ := h.mem_log he.1
    simp only [List.mem_filter, decide_eq_true_eq]
    refine ⟨hp, ?_⟩
    rw [← haid, hai]; exact he.2

theorem Abs.logGet_of_entryAt {s : Store} {r : RefLog} (h : Abs s r) {i : Nat} {e : LogId × Bytes}
    (he : r.entryAt i = some e) : ∃ d, s.logGet i = some d ∧ d.id = e.1 ∧ smallId d.id := by
  have hk := find_keys_eq (l := s.log) (es := r.entries) h.log i
  unfold RefLog.entryAt at he
  rw [he] at hk
  unfold Store.logGet
  cases hf : s.log.find? (fun e => e.1 = i) with
  | none => rw [hf] at hk; simp at hk
  | some x =>
    rw [hf] at hk
    simp only [Option.map_some, Option.some.injEq] at hk
    exact ⟨x.2, rfl, hk, h.pf.log x (List.mem_of_find?_eq_some hf)⟩

end RaftLog
