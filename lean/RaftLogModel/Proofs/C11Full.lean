/-
C11, second sentence: "A file is closed as soon as it reaches the configured
record-count or size limit, and the reported on-disk size equals the bytes from
the oldest retained chunk to the journal end."

Helpers for `Props/C11Full.lean`:
* Part A (on-disk size): `onDiskSize` is the journal end minus the oldest live
  chunk id; under the journal invariant it is the sum of the live chunks'
  extents, the sum of their byte strings (file ‖ in flight ‖ pending), and — when
  nothing is in flight, pending or scheduled for removal — the total length of
  the linked files.
* Part B (rotation rule): the store invariant `RotInvC11F` (open chunk below both
  limits unless it holds only its head record; every closed chunk full, and not
  full without its last record unless it holds only head + one record), kept by
  every call that does not fail on `create_new`.
-/
import RaftLogModel.Proofs.NoPanicAll
import RaftLogModel.Proofs.ReplayRestart
namespace RaftLog

/-! ## Part A: the reported on-disk size -/

theorem onDiskSize_def_C11F (s : Store) : s.onDiskSize = s.openEnd - s.chunkIds.headD 0 := by
  rw [Store.chunkIds_eq]
  unfold Store.onDiskSize
  cases hc : s.closed with
  | nil => rfl
  | cons c rest => rfl

/-- The extent of every live chunk is the length of its bytes (file, in flight,
pending). -/
theorem JInv.chunkBytes_length_C11F {s : Store} {fs : Fs} {w : Worker} (hj : JInv s fs w) :
    ∀ offs ∈ s.chunks, (chunkBytes s fs w (offs.headD 0)).length = lastOff offs - offs.headD 0 := by
  intro offs ho
  simp only [Store.chunks, List.mem_append, List.mem_map, List.mem_singleton] at ho
  rcases ho with ⟨c, hc, rfl⟩ | rfl
  · have h1 := (hj.closedBytes c hc).lastOff_eq
    have h2 : s.openId ≠ c.offsets.headD 0 := by
      have := hj.closed_lt hc
      simp only [Closed.id] at this
      omega
    simp only [chunkBytes, h2, if_false, List.append_nil]
    simp only [Closed.id] at h1
    omega
  · have h1 := hj.openBytes.lastOff_eq
    simp only [Store.openId] at h1
    simp only [chunkBytes, Store.openId, if_true]
    omega

/-- `on_disk_size` is the sum of the extents of the live chunks (they abut). -/
theorem JInv.onDiskSize_extents_C11F {s : Store} {fs : Fs} {w : Worker} (hj : JInv s fs w) :
    s.onDiskSize = sumNat (s.chunks.map (fun offs => lastOff offs - offs.headD 0)) := by
  have hch : Chained (s.closed.map (fun c : Closed => c.offsets) ++ [s.openOffsets]) := hj.chained
  have hsum := chunks_sum (s.closed.map (fun c : Closed => c.offsets)) s.openOffsets hch
    (fun x hx => Nat.le_of_lt (hj.chunk_head_lt x hx))
  show s.onDiskSize = sumNat ((s.closed.map (fun c : Closed => c.offsets) ++ [s.openOffsets]).map _)
  rw [hsum.1]
  unfold Store.onDiskSize
  cases hc : s.closed with
  | nil => rfl
  | cons c rest => rfl

/-- `on_disk_size` is the total number of bytes of the live chunks: in the
files, in flight inside the worker, and in the pending buffer. -/
theorem JInv.onDiskSize_bytes_C11F {s : Store} {fs : Fs} {w : Worker} (hj : JInv s fs w) :
    s.onDiskSize = sumNat (s.chunkIds.map (fun id => (chunkBytes s fs w id).length)) := by
  rw [hj.onDiskSize_extents_C11F, Store.chunkIds, List.map_map]
  congr 1
  apply List.map_congr_left
  intro offs ho
  exact (hj.chunkBytes_length_C11F offs ho).symm

/-! ### Linked files -/

theorem sumNat_eq_sum_C11F (l : List Nat) : sumNat l = l.sum := by
  induction l with
  | nil => rfl
  | cons x xs ih => simp [sumNat, ih]

theorem sumNat_insertNat_C11F (g : Nat → Nat) (n : Nat) (l : List Nat) :
    sumNat ((insertNat n l).map g) = g n + sumNat (l.map g) := by
  induction l with
  | nil => rfl
  | cons m rest ih =>
    unfold insertNat
    split
    · rfl
    · simp only [List.map_cons, sumNat, ih]; omega

theorem sumNat_foldl_insertNat_C11F (g : Nat → Nat) (L : List File) : ∀ acc : List Nat,
    sumNat ((L.foldl (fun acc f => insertNat f.id acc) acc).map g)
      = sumNat (acc.map g) + sumNat (L.map (fun f => g f.id)) := by
  induction L with
  | nil => intro acc; simp [sumNat]
  | cons f rest ih =>
    intro acc
    simp only [List.foldl_cons, List.map_cons, sumNat]
    rw [ih, sumNat_insertNat_C11F]
    omega

theorem fdata_of_mem_C11F {fs : Fs} (hn : (Fs.ids fs).Nodup) {f : File} (hf : f ∈ fs) :
    fdata fs f.id = f.data := by
  have hsome := (Fs.find_isSome_iff fs f.id).mpr (List.mem_map.mpr ⟨f, hf, rfl⟩)
  cases hf' : fs.find f.id with
  | none => rw [hf'] at hsome; cases hsome
  | some g =>
    have h1 : g ∈ fs := List.mem_of_find?_eq_some hf'
    have h2 : g.id = f.id := Fs.find_id hf'
    have : g = f := eq_of_nodup_ids hn h1 hf h2
    unfold fdata; rw [hf', this]

/-- The total length of the linked files, file by file = id by id over
`linkedIds`. -/
theorem linked_total_C11F {fs : Fs} (hn : (Fs.ids fs).Nodup) :
    ((fs.filter (·.linked)).map (·.data.length)).sum
      = sumNat (fs.linkedIds.map (fun id => (fdata fs id).length)) := by
  unfold Fs.linkedIds
  rw [sumNat_foldl_insertNat_C11F (fun id => (fdata fs id).length)]
  simp only [List.map_nil, sumNat, Nat.zero_add]
  rw [← sumNat_eq_sum_C11F]
  congr 1
  apply List.map_congr_left
  intro f hf
  rw [fdata_of_mem_C11F hn (List.mem_filter.mp hf).1]

/-- Quiescent, nothing scheduled for removal: the reported size is the total
length of the linked chunk files. -/
theorem onDiskSize_files_C11F {s : Store} {fs : Fs} {w : Worker} (hj : JInv s fs w)
    (hn : (Fs.ids fs).Nodup) (hli : fs.linkedIds = s.chunkIds)
    (hpc : w.pc = .idle) (hqe : w.queue = []) (hp : s.pending = []) :
    s.onDiskSize = ((fs.filter (·.linked)).map (·.data.length)).sum := by
  rw [linked_total_C11F hn, hli, hj.onDiskSize_bytes_C11F]
  congr 1
  apply List.map_congr_left
  intro id _
  simp [chunkBytes, inflight_quiet hpc hqe, hp]

/-! ## Part B: the rotation rule -/

/-- A chunk with these offsets has reached the record-count or the size limit
(`OpenChunk::is_full`). -/
def fullOffsC11F (cfg : Cfg) (offs : List Nat) : Bool :=
  decide (recordsCount offs ≥ cfg.maxRecords) || decide (chunkSize offs ≥ cfg.maxSize)

theorem isOpenFull_eq_C11F (s : Store) : s.isOpenFull = fullOffsC11F s.cfg s.openOffsets := rfl

/-- A chunk closed by a rotation: it is full, it holds the head record and at
least one more, and without its last record it was not full — unless it holds
only head + one record (then the fresh chunk was "full" from the start: limits
so small that the head record alone reaches them). -/
def ClosedFullC11F (cfg : Cfg) (offs : List Nat) : Prop :=
  fullOffsC11F cfg offs = true ∧ 3 ≤ offs.length ∧
    (fullOffsC11F cfg offs.dropLast = false ∨ offs.length = 3)

/-- The rotation invariant of a store. -/
structure RotInvC11F (s : Store) : Prop where
  open2 : 2 ≤ s.openOffsets.length
  openNF : s.isOpenFull = false ∨ s.openOffsets.length = 2
  closedFull : ∀ c ∈ s.closed, ClosedFullC11F s.cfg c.offsets

theorem RotInvC11F.of_fields {s s2 : Store} (h : RotInvC11F s) (h1 : s2.cfg = s.cfg)
    (h2 : s2.openOffsets = s.openOffsets) (h3 : s2.closed = s.closed) : RotInvC11F s2 := by
  refine ⟨by rw [h2]; exact h.open2, ?_, by rw [h1, h3]; exact h.closedFull⟩
  have : s2.isOpenFull = s.isOpenFull := by simp only [Store.isOpenFull, h1, h2]
  rw [this, h2]; exact h.openNF

theorem applyIndex_shape_C11F {s s2 : Store} {r : Record} {chunk : Nat} {seg : Seg}
    (h : s.applyIndex r chunk seg = some s2) :
    s2.cfg = s.cfg ∧ s2.openOffsets = s.openOffsets ∧ s2.closed = s.closed := by
  cases r with
  | saveVote v => simp only [Store.applyIndex, Option.some.injEq] at h; subst h; exact ⟨rfl, rfl, rfl⟩
  | commit id => simp only [Store.applyIndex, Option.some.injEq] at h; subst h; exact ⟨rfl, rfl, rfl⟩
  | state x => simp only [Store.applyIndex, Option.some.injEq] at h; subst h; exact ⟨rfl, rfl, rfl⟩
  | append id p => simp only [Store.applyIndex, Option.some.injEq] at h; subst h; exact ⟨rfl, rfl, rfl⟩
  | truncateAfter o =>
    simp only [Store.applyIndex] at h
    split at h
    · cases h
    · simp only [Option.some.injEq] at h; subst h; exact ⟨rfl, rfl, rfl⟩
  | purgeUpto id =>
    simp only [Store.applyIndex] at h
    split at h
    · cases h
    · simp only [Option.some.injEq] at h; subst h; exact ⟨rfl, rfl, rfl⟩

/-- `try_close_full_chunk` right after one record was journalled into a chunk
that satisfied the open-chunk rule, when the next chunk's file does not exist. -/
theorem tryCloseFull_rot_C11F (s3 : Store) (fsHas : Nat → Bool) (o : List Nat) (x : Nat)
    (ho : s3.openOffsets = o ++ [x]) (h2 : 2 ≤ o.length)
    (hnf : fullOffsC11F s3.cfg o = false ∨ o.length = 2)
    (hcl : ∀ c ∈ s3.closed, ClosedFullC11F s3.cfg c.offsets)
    (hfs : fsHas s3.openEnd = false) :
    RotInvC11F (s3.tryCloseFull fsHas).2.1 ∧ (s3.tryCloseFull fsHas).2.1.cfg = s3.cfg := by
  unfold Store.tryCloseFull
  by_cases hf : s3.isOpenFull = true
  · simp only [hf, hfs, Bool.not_true, Bool.false_eq_true, if_false]
    refine ⟨⟨by simp, Or.inr (by simp), ?_⟩, trivial⟩
    intro c hc
    simp only [List.mem_append, List.mem_singleton] at hc
    rcases hc with hc | rfl
    · exact hcl c hc
    · show ClosedFullC11F s3.cfg s3.openOffsets
      refine ⟨hf, by rw [ho]; simp; omega, ?_⟩
      rw [ho, List.dropLast_concat]
      rcases hnf with h | h
      · exact Or.inl h
      · exact Or.inr (by simp [h])
  · have hf' : s3.isOpenFull = false := by simpa using hf
    simp only [hf', Bool.not_false, if_true]
    exact ⟨⟨by rw [ho]; simp; omega, Or.inl hf', hcl⟩, trivial⟩

/-- What a call guarantees for the rotation rule: it panicked, or the rule
holds afterwards (same configuration), the journal end did not move back, and
every file it created lies below the new journal end. -/
def RotGoodC11F (s : Store) (res : Res Seg × Store × List Eff) : Prop :=
  (∃ m, res.1 = .panic m) ∨
    (RotInvC11F res.2.1 ∧ res.2.1.cfg = s.cfg ∧ s.openEnd ≤ res.2.1.openEnd ∧
      ∀ i, Eff.create i ∈ res.2.2 → i < res.2.1.openEnd)

theorem RotGoodC11F.same {s : Store} (h : RotInvC11F s) (x : Res Seg) : RotGoodC11F s (x, s, []) :=
  Or.inr ⟨h, rfl, Nat.le_refl _, by intro i hi; cases hi⟩

theorem lastOff_concat_C11F (l : List Nat) (x : Nat) : lastOff (l ++ [x]) = x := by
  simp [lastOff]

theorem appendAndApply_rot_C11F {s : Store} (fsHas : Nat → Bool) (r : Record)
    (h : RotInvC11F s) (hfs : ∀ i, s.openEnd ≤ i → fsHas i = false) :
    RotGoodC11F s (s.appendAndApply fsHas r) := by
  unfold Store.appendAndApply
  split
  · exact RotGoodC11F.same h _
  · exact Or.inl ⟨_, rfl⟩
  · rename_i st' hst
    simp only
    split
    · exact Or.inl ⟨_, rfl⟩
    · rename_i s2 hs2
      obtain ⟨c1, c2, c3⟩ := applyIndex_shape_C11F hs2
      simp only at c1 c2 c3
      have hend3 : ({ s2 with st := st' } : Store).openEnd = s.openEnd + (encRecord r).length := by
        show lastOff s2.openOffsets = _
        rw [c2, lastOff_concat_C11F]
      have hfs3 : fsHas ({ s2 with st := st' } : Store).openEnd = false :=
        hfs _ (by rw [hend3]; omega)
      obtain ⟨s4, effs, heq, _, _, _, g4, g5⟩ := tryCloseFull_ok ({ s2 with st := st' } : Store) fsHas hfs3
      have key := tryCloseFull_rot_C11F ({ s2 with st := st' } : Store) fsHas s.openOffsets _ c2 h.open2
        (by show fullOffsC11F s2.cfg s.openOffsets = false ∨ _; rw [c1]; exact h.openNF)
        (by show ∀ c ∈ s2.closed, ClosedFullC11F s2.cfg c.offsets; rw [c1, c3]; exact h.closedFull) hfs3
      rw [heq] at key ⊢
      simp only at key ⊢
      refine Or.inr ⟨key.1, by rw [key.2]; exact c1, ?_, ?_⟩
      · show s.openEnd ≤ s4.openEnd
        rw [hend3] at g4; omega
      · intro i hi
        obtain ⟨_, k⟩ := g5 i hi
        have : i = ({ s2 with st := st' } : Store).openEnd := (g5 i hi).1
        show i < s4.openEnd
        omega

theorem appendBatch_rot_C11F (es : List (LogId × Bytes)) :
    ∀ (fsHas : Nat → Bool) (s : Store) (seg : Seg) (effs : List Eff),
    RotInvC11F s → (∀ i, s.openEnd ≤ i → fsHas i = false) →
    (∃ m, (Store.appendBatch fsHas es s seg effs).1 = .panic m) ∨
      (RotInvC11F (Store.appendBatch fsHas es s seg effs).2.1 ∧
        (Store.appendBatch fsHas es s seg effs).2.1.cfg = s.cfg) := by
  induction es with
  | nil => intro fsHas s seg effs h _; exact Or.inr ⟨h, rfl⟩
  | cons e rest ih =>
    intro fsHas s seg effs h hfs
    obtain ⟨id, p⟩ := e
    by_cases hidx : id.index + 1 = U64
    · rw [appendBatch_cons_refused_D12 _ _ _ _ _ _ _ hidx]
      exact Or.inr ⟨h, rfl⟩
    rw [appendBatch_cons_small_D12 _ _ _ _ _ _ _ hidx]
    have g := appendAndApply_rot_C11F fsHas (.append id p) h hfs
    rcases hres : s.appendAndApply fsHas (.append id p) with ⟨res, s', e'⟩
    rw [hres] at g
    cases res with
    | panic m => exact Or.inl ⟨m, rfl⟩
    | err k =>
      rcases g with ⟨m, hm⟩ | ⟨g1, g2, _, _⟩
      · cases hm
      · exact Or.inr ⟨g1, g2⟩
    | ok seg' =>
      rcases g with ⟨m, hm⟩ | ⟨g1, g2, g3, g4⟩
      · cases hm
      · simp only at g1 g2 g3 g4 ⊢
        have := ih (fun i => fsHas i || e'.any (fun e => e == .create i)) s' seg' (effs ++ e') g1 (by
          intro i hi
          simp only [Bool.or_eq_false_iff]
          refine ⟨hfs i (by omega), ?_⟩
          rw [List.any_eq_false]
          intro x hx hxe
          have : x = Eff.create i := by simpa using hxe
          subst this
          have := g4 i hx
          omega)
        rcases this with hp | ⟨k1, k2⟩
        · exact Or.inl hp
        · exact Or.inr ⟨k1, by rw [k2, g2]⟩

theorem RotGoodC11F.weaken {s : Store} {res : Res Seg × Store × List Eff} (g : RotGoodC11F s res) :
    (∃ m, res.1 = .panic m) ∨ (RotInvC11F res.2.1 ∧ res.2.1.cfg = s.cfg) := by
  rcases g with h | ⟨h1, h2, _, _⟩
  · exact Or.inl h
  · exact Or.inr ⟨h1, h2⟩

/-- **Every public write call keeps the rotation rule** (or panics — which
well-formed arguments never cause, `call_ok_D12`), provided no chunk file sits at
or beyond the journal end. -/
theorem call_rot_C11F {s : Store} (fsHas : Nat → Bool) (op : Op) (h : RotInvC11F s)
    (hfs : ∀ i, s.openEnd ≤ i → fsHas i = false) :
    (∃ m, (s.call fsHas op).1 = .panic m) ∨
      (RotInvC11F (s.call fsHas op).2.1 ∧ (s.call fsHas op).2.1.cfg = s.cfg) := by
  have same : ∀ (x : Res Seg), (∃ m, (x, s, ([] : List Eff)).1 = .panic m) ∨
      (RotInvC11F (x, s, ([] : List Eff)).2.1 ∧ (x, s, ([] : List Eff)).2.1.cfg = s.cfg) :=
    fun x => Or.inr ⟨h, rfl⟩
  cases op with
  | saveVote v => exact (appendAndApply_rot_C11F fsHas _ h hfs).weaken
  | commit id => exact (appendAndApply_rot_C11F fsHas _ h hfs).weaken
  | saveUserData d => exact (appendAndApply_rot_C11F fsHas _ h hfs).weaken
  | append es =>
    simp only [Store.call]
    split
    · exact same _
    · exact appendBatch_rot_C11F es fsHas s _ [] h hfs
  | truncate idx =>
    simp only [Store.call]
    split
    · exact same _
    · split
      · exact (appendAndApply_rot_C11F fsHas _ h hfs).weaken
      · split
        · exact same _
        · split
          · exact same _
          · exact (appendAndApply_rot_C11F fsHas _ h hfs).weaken
  | purge upto =>
    simp only [Store.call]
    split
    · exact same _
    split
    · exact same _
    · split
      · split
        · exact same _
        · exact same _
      · have g := (appendAndApply_rot_C11F fsHas (.purgeUpto upto) h hfs).weaken
        split
        · rename_i seg s' effs heq
          rw [heq] at g
          rcases g with ⟨m, hm⟩ | ⟨g1, g2⟩
          · cases hm
          · obtain ⟨pre, hpre⟩ := popObsolete_suffix upto s'.closed
            refine Or.inr ⟨⟨g1.open2, g1.openNF, ?_⟩, g2⟩
            intro c hc
            exact g1.closedFull c (by rw [hpre]; exact List.mem_append_right _ hc)
        · exact g

/-! ### System level -/

/-- The live store was opened with `cfg` and satisfies the rotation rule. -/
def RotSysC11F (cfg : Cfg) (y : Sys) : Prop :=
  ∃ s, y.store = some s ∧ s.cfg = cfg ∧ RotInvC11F s

theorem fresh_RotSys_C11F (cfg : Cfg) : RotSysC11F cfg (Sys.fresh cfg) := by
  have h : ∃ s, (Sys.fresh cfg).store = some s ∧ s.openOffsets.length = 2 ∧ s.closed = [] ∧ s.cfg = cfg := by
    simp [Sys.fresh, Sys.open, openStore, Fs.linkedIds, openLoop, emptyStore, Fs.has, Fs.find]
  obtain ⟨s, h1, h2, h3, h4⟩ := h
  exact ⟨s, h1, h4, by omega, Or.inr h2, by rw [h3]; intro c hc; cases hc⟩

theorem RotSysC11F.call {cfg : Cfg} {y : Sys} (h : RotSysC11F cfg y) (hj : J y) (hp : PFSys_D12 y)
    (op : Op) (hop : op.WF) : RotSysC11F cfg (y.call op).2.1 := by
  obtain ⟨s, hs, hc, hr⟩ := h
  obtain ⟨s0, hs0, _, hji⟩ := hj
  rw [hs] at hs0; cases hs0
  have hfs := Fs.has_false_of_lt hji.fsLt
  rcases call_rot_C11F y.fs.has op hr hfs with ⟨m, hm⟩ | ⟨g1, g2⟩
  · exact absurd hm ((call_ok_D12 y.fs.has op (hp s hs) hop).1 m)
  · exact ⟨_, Sys.call_store_D12 y op s hs, by rw [g2, hc], g1⟩

theorem RotSysC11F.flush {cfg : Cfg} {y : Sys} (h : RotSysC11F cfg y) (cb : Option Nat) :
    RotSysC11F cfg (y.flush cb).2.1 := by
  obtain ⟨s, hs, hc, hr⟩ := h
  simp only [Sys.flush, hs]
  refine ⟨_, rfl, ?_, ?_⟩
  · split <;> exact hc
  · split
    · exact hr.of_fields rfl rfl rfl
    · exact hr.of_fields rfl rfl rfl

theorem RotSysC11F.worker {cfg : Cfg} {y : Sys} (h : RotSysC11F cfg y) (out : Outcome) :
    RotSysC11F cfg (y.workerStep out).1 := by
  obtain ⟨s, hs, hc, hr⟩ := h
  simp only [Sys.workerStep, hs]
  exact ⟨_, rfl, hc, hr.of_fields rfl rfl rfl⟩

theorem RotSysC11F.workerIdle {cfg : Cfg} {y : Sys} (h : RotSysC11F cfg y) :
    RotSysC11F cfg y.workerIdle.1 := by
  obtain ⟨s, hs, hc, hr⟩ := h
  simp only [Sys.workerIdle, hs]
  exact ⟨_, rfl, hc, hr.of_fields rfl rfl rfl⟩

theorem RotSysC11F.drain {cfg : Cfg} {y : Sys} (h : RotSysC11F cfg y) : RotSysC11F cfg y.drain := by
  obtain ⟨s, hs, hc, hr⟩ := h
  simp only [Sys.drain, hs]
  exact ⟨_, rfl, hc, hr.of_fields rfl rfl rfl⟩

/-- Journal invariant, `PanicFree`, rotation rule. -/
structure RotRecC11F (cfg : Cfg) (y : Sys) : Prop where
  j : J y
  pf : PFSys_D12 y
  rot : RotSysC11F cfg y

theorem fresh_RotRec_C11F (cfg : Cfg) : RotRecC11F cfg (Sys.fresh cfg) :=
  ⟨fresh_J cfg, fresh_PFSys_D12 cfg, fresh_RotSys_C11F cfg⟩

theorem RotRecC11F.step {cfg : Cfg} {y : Sys} (h : RotRecC11F cfg y) (st : Step) (hst : st.journal = true)
    (hwf : ∀ op, st = .call op → op.WF) (hnd : (y.step st).worker.pc ≠ .dead) :
    RotRecC11F cfg (y.step st) := by
  refine ⟨h.j.step st hst hwf hnd, h.pf.step st hst hwf, ?_⟩
  cases st with
  | drop => cases hst
  | openWith c => cases hst
  | drain => exact h.rot.drain
  | call op => exact h.rot.call h.j h.pf op (hwf op rfl)
  | flush cb => exact h.rot.flush cb
  | worker out => exact h.rot.worker out
  | workerIdle => exact h.rot.workerIdle

theorem run_RotRec_C11F {cfg : Cfg} (steps : List Step) : ∀ (y : Sys), RotRecC11F cfg y →
    (∀ st ∈ steps, st.journal = true) → (∀ op ∈ stepOps steps, op.WF) →
    (y.run steps).worker.pc ≠ .dead → RotRecC11F cfg (y.run steps) := by
  induction steps with
  | nil => intro y h _ _ _; exact h
  | cons st rest ih =>
    intro y h hst hwf hnd
    simp only [Sys.run, List.foldl_cons] at hnd ⊢
    have hrest : ∀ s ∈ rest, s.journal = true := fun s hs => hst s (List.mem_cons_of_mem _ hs)
    have hnd1 : (y.step st).worker.pc ≠ .dead := by
      intro hdead
      exact hnd (Sys.run_dead rest _ hrest hdead)
    have hwf1 : ∀ op, st = .call op → op.WF := by
      intro op e; subst e; exact hwf op (by simp [stepOps])
    have hwf2 : ∀ op ∈ stepOps rest, op.WF := by
      intro op hop
      apply hwf op
      rw [stepOps_cons]; exact List.mem_append_right _ hop
    exact ih (y.step st) (h.step st (hst st List.mem_cons_self) hwf1 hnd1) hrest hwf2 hnd

/-! ### The rule spelled out in numbers -/

theorem fullOffs_false_iff_C11F (cfg : Cfg) (offs : List Nat) :
    fullOffsC11F cfg offs = false ↔ recordsCount offs < cfg.maxRecords ∧ chunkSize offs < cfg.maxSize := by
  simp only [fullOffsC11F, Bool.or_eq_false_iff, decide_eq_false_iff_not]
  omega

theorem fullOffs_true_iff_C11F (cfg : Cfg) (offs : List Nat) :
    fullOffsC11F cfg offs = true ↔ cfg.maxRecords ≤ recordsCount offs ∨ cfg.maxSize ≤ chunkSize offs := by
  simp only [fullOffsC11F, Bool.or_eq_true, decide_eq_true_eq, ge_iff_le]

/-- The open-chunk rule in numbers: below both limits, or (exactly the
degenerate case) only the head record is there and it alone reaches a limit. -/
theorem RotInvC11F.open_spec {s : Store} (h : RotInvC11F s) :
    (recordsCount s.openOffsets < s.cfg.maxRecords ∧ chunkSize s.openOffsets < s.cfg.maxSize) ∨
      (recordsCount s.openOffsets = 1 ∧
        (s.cfg.maxRecords ≤ 1 ∨ s.cfg.maxSize ≤ chunkSize s.openOffsets)) := by
  by_cases hf : s.isOpenFull = true
  · rcases h.openNF with h1 | h1
    · rw [h1] at hf; cases hf
    · have hc : recordsCount s.openOffsets = 1 := by simp [recordsCount, h1]
      rw [isOpenFull_eq_C11F, fullOffs_true_iff_C11F, hc] at hf
      exact Or.inr ⟨hc, hf⟩
  · have hf' : s.isOpenFull = false := by simpa using hf
    rw [isOpenFull_eq_C11F, fullOffs_false_iff_C11F] at hf'
    exact Or.inl hf'

/-- The closed-chunk rule in numbers. -/
theorem ClosedFullC11F.spec {cfg : Cfg} {offs : List Nat} (h : ClosedFullC11F cfg offs) :
    (cfg.maxRecords ≤ recordsCount offs ∨ cfg.maxSize ≤ chunkSize offs) ∧
    2 ≤ recordsCount offs ∧
    ((recordsCount offs.dropLast < cfg.maxRecords ∧ chunkSize offs.dropLast < cfg.maxSize) ∨
      recordsCount offs = 2) ∧
    recordsCount offs.dropLast + 1 = recordsCount offs ∧
    recordsCount offs ≤ max cfg.maxRecords 2 ∧
    (cfg.maxRecords ≤ recordsCount offs → recordsCount offs = max cfg.maxRecords 2) := by
  obtain ⟨h1, h2, h3⟩ := h
  rw [fullOffs_true_iff_C11F] at h1
  rw [fullOffs_false_iff_C11F] at h3
  have hd : recordsCount offs.dropLast + 1 = recordsCount offs := by
    simp only [recordsCount, List.length_dropLast]; omega
  have h3' : (recordsCount offs.dropLast < cfg.maxRecords ∧ chunkSize offs.dropLast < cfg.maxSize) ∨
      recordsCount offs = 2 := by
    rcases h3 with k | k
    · exact Or.inl k
    · exact Or.inr (by simp only [recordsCount]; omega)
  have h2' : 2 ≤ recordsCount offs := by simp only [recordsCount]; omega
  refine ⟨h1, h2', h3', hd, ?_, ?_⟩
  · generalize recordsCount offs = n at *
    generalize recordsCount offs.dropLast = m at *
    simp only [Nat.max_def]
    rcases h3' with k | k <;> split <;> omega
  · intro hle
    generalize recordsCount offs = n at *
    generalize recordsCount offs.dropLast = m at *
    simp only [Nat.max_def]
    rcases h3' with k | k <;> split <;> omega

/-- The oldest live chunk starts below the journal end (the subtraction in
`on_disk_size` is a real one). -/
theorem JInv.oldest_lt_C11F {s : Store} {fs : Fs} {w : Worker} (hj : JInv s fs w) :
    s.chunkIds.headD 0 < s.openEnd := by
  rw [Store.chunkIds_eq]
  have h1 := hj.openId_lt
  cases hc : s.closed with
  | nil => exact h1
  | cons c rest =>
    have := hj.closed_lt (c := c) (by rw [hc]; exact List.mem_cons_self)
    show c.id < s.openEnd
    omega

/-! ### The rule depends on the configuration only through the two limits -/

theorem fullOffs_congr_C11F {c1 c2 : Cfg} (h1 : c2.maxRecords = c1.maxRecords)
    (h2 : c2.maxSize = c1.maxSize) (offs : List Nat) : fullOffsC11F c2 offs = fullOffsC11F c1 offs := by
  simp only [fullOffsC11F, h1, h2]

theorem RotInvC11F.of_limits {s s2 : Store} (h : RotInvC11F s)
    (h1 : s2.cfg.maxRecords = s.cfg.maxRecords) (h2 : s2.cfg.maxSize = s.cfg.maxSize)
    (h3 : s2.openOffsets = s.openOffsets) (h4 : s2.closed = s.closed) : RotInvC11F s2 := by
  refine ⟨by rw [h3]; exact h.open2, ?_, ?_⟩
  · rw [isOpenFull_eq_C11F, fullOffs_congr_C11F h1 h2, h3]; exact h.openNF
  · intro c hc
    rw [h4] at hc
    obtain ⟨k1, k2, k3⟩ := h.closedFull c hc
    exact ⟨by rw [fullOffs_congr_C11F h1 h2]; exact k1, k2, by rw [fullOffs_congr_C11F h1 h2]; exact k3⟩

/-- A system that refines a reference log has a `PanicFree` store. -/
theorem CSys.pf_C11F {y : Sys} {r : RefLog} (h : CSys y r) : PFSys_D12 y := by
  obtain ⟨⟨s, hs, _, hi⟩, _⟩ := h
  intro s' hs'
  rw [hs] at hs'; cases hs'
  exact hi.abs.pf

end RaftLog
