/-
Helper lemmas for the chunk-file-name theorems (property C11, names part).
-/
import RaftLogModel.Model.Names
namespace RaftLog

/-! ### digits -/

theorem digitsFixed_length (w n : Nat) : (digitsFixed w n).length = w := by
  induction w generalizing n with
  | zero => rfl
  | succ w ih => simp [digitsFixed, ih]

theorem digitChar_toNat {d : Nat} (h : d < 10) : (digitChar d).toNat = 48 + d := by
  have : d = 0 ∨ d = 1 ∨ d = 2 ∨ d = 3 ∨ d = 4 ∨ d = 5 ∨ d = 6 ∨ d = 7 ∨ d = 8 ∨ d = 9 := by omega
  rcases this with h|h|h|h|h|h|h|h|h|h <;> subst h <;> rfl

theorem isAsciiDigit_digitChar {d : Nat} (h : d < 10) : isAsciiDigit (digitChar d) = true := by
  have : d = 0 ∨ d = 1 ∨ d = 2 ∨ d = 3 ∨ d = 4 ∨ d = 5 ∨ d = 6 ∨ d = 7 ∨ d = 8 ∨ d = 9 := by omega
  rcases this with h|h|h|h|h|h|h|h|h|h <;> subst h <;> decide

theorem digitChar_lt_iff {c d : Nat} (hc : c < 10) (hd : d < 10) :
    digitChar c < digitChar d ↔ c < d := by
  have h1 := digitChar_toNat hc
  have h2 := digitChar_toNat hd
  rw [Char.lt_def, UInt32.lt_iff_toNat_lt]
  show (digitChar c).toNat < (digitChar d).toNat ↔ c < d
  omega

theorem digitChar_inj {c d : Nat} (hc : c < 10) (hd : d < 10) (h : digitChar c = digitChar d) :
    c = d := by
  have := congrArg Char.toNat h
  rw [digitChar_toNat hc, digitChar_toNat hd] at this
  omega

theorem digitsFixed_all_digit (w n : Nat) : ∀ c ∈ digitsFixed w n, isAsciiDigit c = true := by
  induction w generalizing n with
  | zero => intro c hc; cases hc
  | succ w ih =>
    intro c hc
    simp only [digitsFixed, List.mem_append, List.mem_singleton] at hc
    rcases hc with hc | hc
    · exact ih _ c hc
    · subst hc; exact isAsciiDigit_digitChar (Nat.mod_lt _ (by decide))

theorem digitsValue_append_singleton (ds : List Char) (c : Char) :
    digitsValue (ds ++ [c]) = digitsValue ds * 10 + (c.toNat - 48) := by
  simp [digitsValue, List.foldl_append]

theorem digitsValue_digitsFixed (w n : Nat) : digitsValue (digitsFixed w n) = n % 10 ^ w := by
  induction w generalizing n with
  | zero => simp [digitsFixed, digitsValue, Nat.mod_one]
  | succ w ih =>
    rw [digitsFixed, digitsValue_append_singleton, ih,
      digitChar_toNat (Nat.mod_lt _ (by decide)), Nat.pow_succ, Nat.mul_comm (10 ^ w) 10,
      Nat.mod_mul]
    omega


theorem pow_succ_mod (w n : Nat) : n % 10 ^ (w + 1) = n % 10 + 10 * (n / 10 % 10 ^ w) := by
  rw [Nat.pow_succ, Nat.mul_comm (10 ^ w) 10, Nat.mod_mul]

theorem digitsFixed_congr (w a b : Nat) (h : a % 10 ^ w = b % 10 ^ w) :
    digitsFixed w a = digitsFixed w b := by
  induction w generalizing a b with
  | zero => rfl
  | succ w ih =>
    rw [pow_succ_mod, pow_succ_mod] at h
    have ha := Nat.mod_lt a (show 0 < 10 by decide)
    have hb := Nat.mod_lt b (show 0 < 10 by decide)
    have h1 : a % 10 = b % 10 := by omega
    have h2 : a / 10 % 10 ^ w = b / 10 % 10 ^ w := by omega
    simp only [digitsFixed, ih _ _ h2, h1]

theorem digitsFixed_eq_iff (w a b : Nat) :
    digitsFixed w a = digitsFixed w b ↔ a % 10 ^ w = b % 10 ^ w := by
  constructor
  · intro h
    have := congrArg digitsValue h
    rwa [digitsValue_digitsFixed, digitsValue_digitsFixed] at this
  · exact digitsFixed_congr w a b

/-! ### lexicographic order -/

theorem lt_append_singleton_iff {x y : List Char} (h : x.length = y.length) (c d : Char) :
    x ++ [c] < y ++ [d] ↔ x < y ∨ (x = y ∧ c < d) := by
  induction x generalizing y with
  | nil =>
    cases y with
    | nil => simp [List.cons_lt_cons_iff]
    | cons b y => simp at h
  | cons a x ih =>
    cases y with
    | nil => simp at h
    | cons b y =>
      have h' : x.length = y.length := by simpa using h
      simp only [List.cons_append, List.cons_lt_cons_iff, ih h', List.cons.injEq]
      constructor
      · rintro (h1 | ⟨h1, h2 | ⟨h2, h3⟩⟩)
        · exact .inl (.inl h1)
        · exact .inl (.inr ⟨h1, h2⟩)
        · exact .inr ⟨⟨h1, h2⟩, h3⟩
      · rintro ((h1 | ⟨h1, h2⟩) | ⟨⟨h1, h2⟩, h3⟩)
        · exact .inl h1
        · exact .inr ⟨h1, .inl h2⟩
        · exact .inr ⟨h1, .inr ⟨h2, h3⟩⟩

theorem digitsFixed_lt_iff (w a b : Nat) :
    digitsFixed w a < digitsFixed w b ↔ a % 10 ^ w < b % 10 ^ w := by
  induction w generalizing a b with
  | zero => simp [digitsFixed, Nat.mod_one]
  | succ w ih =>
    have ha := Nat.mod_lt a (show 0 < 10 by decide)
    have hb := Nat.mod_lt b (show 0 < 10 by decide)
    rw [digitsFixed, digitsFixed,
      lt_append_singleton_iff (by rw [digitsFixed_length, digitsFixed_length]),
      ih, digitsFixed_eq_iff, digitChar_lt_iff ha hb, pow_succ_mod, pow_succ_mod]
    omega

/-! ### lists of exactly twenty characters -/

theorem exists_of_length_20 (s : List Char) (h : s.length = 20) :
    ∃ c0 c1 c2 c3 c4 c5 c6 c7 c8 c9 c10 c11 c12 c13 c14 c15 c16 c17 c18 c19 : Char, s = [c0, c1, c2, c3, c4, c5, c6, c7, c8, c9, c10, c11, c12, c13, c14, c15, c16, c17, c18, c19] := by
  match s, h with
  | [c0, c1, c2, c3, c4, c5, c6, c7, c8, c9, c10, c11, c12, c13, c14, c15, c16, c17, c18, c19], _ => exact ⟨c0, c1, c2, c3, c4, c5, c6, c7, c8, c9, c10, c11, c12, c13, c14, c15, c16, c17, c18, c19, rfl⟩

theorem groupThrees_20 (c0 c1 c2 c3 c4 c5 c6 c7 c8 c9 c10 c11 c12 c13 c14 c15 c16 c17 c18 c19 : Char) :
    groupThrees [c0, c1, c2, c3, c4, c5, c6, c7, c8, c9, c10, c11, c12, c13, c14, c15, c16, c17, c18, c19] = [c0, c1, '_', c2, c3, c4, '_', c5, c6, c7, '_', c8, c9, c10, '_', c11, c12, c13, '_', c14, c15, c16, '_', c17, c18, c19] := by
  simp [groupThrees, List.zipIdx]

theorem not_isAsciiDigit_underscore : isAsciiDigit '_' = false := by decide

/-- The framed, grouped name of a 20-character string has 32 characters. -/
theorem framed_length (s : List Char) (h : s.length = 20) :
    ("r-".toList ++ groupThrees s ++ ".wal".toList).length = 32 := by
  obtain ⟨c0, c1, c2, c3, c4, c5, c6, c7, c8, c9, c10, c11, c12, c13, c14, c15, c16, c17, c18, c19, rfl⟩ := exists_of_length_20 s h
  rw [groupThrees_20]
  rfl

theorem stripSuffix_append (x suf : List Char) : stripSuffix suf (x ++ suf) = some x := by
  have h : suf.isSuffixOf (x ++ suf) = true := by
    rw [List.isSuffixOf_iff_suffix]; exact List.suffix_append x suf
  simp [stripSuffix, h]

theorem stripPrefix_append (pre x : List Char) : stripPrefix pre (pre ++ x) = some x := by
  have h : pre.isPrefixOf (pre ++ x) = true := by
    rw [List.isPrefixOf_iff_prefix]; exact List.prefix_append pre x
  simp [stripPrefix, h]

theorem parse_framed_raw (g : List Char) (hg : g.length = 26) :
    parseChunkFileName ("r-".toList ++ g ++ ".wal".toList) =
      if (g.filter isAsciiDigit).isEmpty then none
      else if digitsValue (g.filter isAsciiDigit) < U64 then some (digitsValue (g.filter isAsciiDigit))
      else none := by
  unfold parseChunkFileName
  generalize ".wal".toList = suf
  generalize "r-".toList = pre
  rw [stripSuffix_append]
  dsimp only
  rw [stripPrefix_append]
  dsimp only
  simp [hg]

/-- Parsing the framed, grouped form of 20 ASCII digits yields their value. -/
theorem parse_framed (s : List Char) (h : s.length = 20)
    (hd : ∀ c ∈ s, isAsciiDigit c = true) :
    parseChunkFileName ("r-".toList ++ groupThrees s ++ ".wal".toList) =
      if digitsValue s < U64 then some (digitsValue s) else none := by
  obtain ⟨c0, c1, c2, c3, c4, c5, c6, c7, c8, c9, c10, c11, c12, c13, c14, c15, c16, c17, c18, c19, rfl⟩ := exists_of_length_20 s h
  simp only [List.mem_cons, List.not_mem_nil, or_false, forall_eq_or_imp, forall_eq] at hd
  obtain ⟨h0, h1, h2, h3, h4, h5, h6, h7, h8, h9, h10, h11, h12, h13, h14, h15, h16, h17, h18, h19⟩ := hd
  have hf : (groupThrees [c0, c1, c2, c3, c4, c5, c6, c7, c8, c9, c10, c11, c12, c13, c14, c15, c16, c17, c18, c19]).filter isAsciiDigit = [c0, c1, c2, c3, c4, c5, c6, c7, c8, c9, c10, c11, c12, c13, c14, c15, c16, c17, c18, c19] := by
    rw [groupThrees_20]
    simp [List.filter, not_isAsciiDigit_underscore, h0, h1, h2, h3, h4, h5, h6, h7, h8, h9, h10, h11, h12, h13, h14, h15, h16, h17, h18, h19]
  rw [parse_framed_raw _ (by rw [groupThrees_20]; rfl), hf]
  simp

/-- Underscores at fixed positions and a common frame do not change the
lexicographic comparison. -/
theorem framed_lt_iff (s t : List Char) (hs : s.length = 20) (ht : t.length = 20) :
    "r-".toList ++ groupThrees s ++ ".wal".toList < "r-".toList ++ groupThrees t ++ ".wal".toList
      ↔ s < t := by
  obtain ⟨a0, a1, a2, a3, a4, a5, a6, a7, a8, a9, a10, a11, a12, a13, a14, a15, a16, a17, a18, a19, rfl⟩ := exists_of_length_20 s hs
  obtain ⟨b0, b1, b2, b3, b4, b5, b6, b7, b8, b9, b10, b11, b12, b13, b14, b15, b16, b17, b18, b19, rfl⟩ := exists_of_length_20 t ht
  rw [groupThrees_20, groupThrees_20]
  simp [List.cons_lt_cons_iff]

/-! ### the name of a u64 -/

theorem u64_lt_pow20 {n : Nat} (h : n < U64) : n < 10 ^ 20 :=
  Nat.lt_trans h (by decide)

theorem chunkFileName_eq {n : Nat} (h : n < U64) :
    chunkFileName n = "r-".toList ++ groupThrees (digitsFixed 20 n) ++ ".wal".toList := by
  simp only [chunkFileName, formatPadU64, digitsPadded, u64_lt_pow20 h, if_true]

end RaftLog
