/-
C03, part 4: what a successful flush makes durable.

Every `write` request carries `upto`, the global journal end at the time it was
sent. `uptoOK` says the requests the worker still has to handle are consistent
with the bytes they carry: a write's `upto` is the position the newest file
reaches once its data is written, and a file is announced exactly at the
position where the previous one ends. `WU fs w` adds: the `upto`s of the batch
in hand are covered by what is written or still to write, and every file beyond
the worker's newest one is announced.
-/
import RaftLogModel.Proofs.CrashHist
import RaftLogModel.Proofs.WorkerSys
namespace RaftLog

/-! ### Positions along the queue -/

def WReq.upto : WReq → Nat
  | .write u _ _ => u
  | _ => 0

/-- The requests `rest`, handled from the point where the newest file is `cur`
and `base` of its bytes are written or in hand. -/
def uptoOK (fs : Fs) : Nat → Nat → List WReq → Prop
  | _, _, [] => True
  | cur, base, .write u d _ :: q => u = cur + base + d.length ∧ uptoOK fs cur (base + d.length) q
  | cur, base, .appendFile n _ :: q => n = cur + base ∧ uptoOK fs n (fdata fs n).length q
  | cur, base, .removeChunks _ :: q => uptoOK fs cur base q

/-- Newest file and its byte count after the requests. -/
def endBase (fs : Fs) : Nat → Nat → List WReq → Nat × Nat
  | cur, base, [] => (cur, base)
  | cur, base, .write _ d _ :: q => endBase fs cur (base + d.length) q
  | _, _, .appendFile n _ :: q => endBase fs n (fdata fs n).length q
  | cur, base, .removeChunks _ :: q => endBase fs cur base q

theorem uptoOK_append (fs : Fs) (a b : List WReq) : ∀ (cur base : Nat),
    uptoOK fs cur base (a ++ b) ↔
      uptoOK fs cur base a ∧ uptoOK fs (endBase fs cur base a).1 (endBase fs cur base a).2 b := by
  induction a with
  | nil => intro cur base; simp [uptoOK, endBase]
  | cons r a ih =>
    intro cur base
    cases r with
    | write u d cb => simp only [List.cons_append, uptoOK, endBase, ih, and_assoc]
    | appendFile n p => simp only [List.cons_append, uptoOK, endBase, ih, and_assoc]
    | removeChunks ids => simp only [List.cons_append, uptoOK, endBase, ih]

theorem endBase_append (fs : Fs) (a b : List WReq) : ∀ (cur base : Nat),
    endBase fs cur base (a ++ b) =
      endBase fs (endBase fs cur base a).1 (endBase fs cur base a).2 b := by
  induction a with
  | nil => intro cur base; rfl
  | cons r a ih =>
    intro cur base
    cases r <;> simp only [List.cons_append, endBase, ih]

/-- Only the sizes of the announced files matter. -/
theorem uptoOK_congr {fs fs' : Fs} (rest : List WReq) : ∀ (cur base : Nat),
    (∀ n ∈ annIds rest, (fdata fs' n).length = (fdata fs n).length) →
    (uptoOK fs' cur base rest ↔ uptoOK fs cur base rest) := by
  induction rest with
  | nil => intro cur base _; exact Iff.rfl
  | cons r rest ih =>
    intro cur base h
    cases r with
    | write u d cb =>
      simp only [uptoOK]
      rw [ih cur _ (fun n hn => h n (by simpa [annIds] using hn))]
    | appendFile n p =>
      simp only [uptoOK]
      rw [h n (by simp [annIds]), ih n _ (fun m hm => h m (by simp [annIds, hm]))]
    | removeChunks ids =>
      simp only [uptoOK]
      exact ih cur base (fun n hn => h n (by simpa [annIds] using hn))

theorem endBase_congr {fs fs' : Fs} (rest : List WReq) : ∀ (cur base : Nat),
    (∀ n ∈ annIds rest, (fdata fs' n).length = (fdata fs n).length) →
    endBase fs' cur base rest = endBase fs cur base rest := by
  induction rest with
  | nil => intro cur base _; rfl
  | cons r rest ih =>
    intro cur base h
    cases r with
    | write u d cb =>
      simp only [endBase]
      exact ih cur _ (fun n hn => h n (by simpa [annIds] using hn))
    | appendFile n p =>
      simp only [endBase]
      rw [h n (by simp [annIds]), ih n _ (fun m hm => h m (by simp [annIds, hm]))]
    | removeChunks ids =>
      simp only [endBase]
      exact ih cur base (fun n hn => h n (by simpa [annIds] using hn))

/-- A run of writes at the front: their `upto`s are covered by their data. -/
theorem uptoOK_writes (fs : Fs) (b R : List WReq) (hb : ∀ r ∈ b, r.isWrite = true) :
    ∀ (cur base : Nat), uptoOK fs cur base (b ++ R) →
      uptoOK fs cur (base + (b.map WReq.data).flatten.length) R ∧
      ∀ r ∈ b, r.upto ≤ cur + base + (b.map WReq.data).flatten.length := by
  induction b with
  | nil => intro cur base h; exact ⟨by simpa using h, fun r hr => by cases hr⟩
  | cons r b ih =>
    intro cur base h
    have hr := hb r List.mem_cons_self
    cases r with
    | appendFile n p => cases hr
    | removeChunks ids => cases hr
    | write u d cb =>
      simp only [List.cons_append, uptoOK] at h
      obtain ⟨h1, h2⟩ := ih (fun x hx => hb x (List.mem_cons_of_mem _ hx)) cur _ h.2
      simp only [List.map_cons, WReq.data, List.flatten_cons, List.length_append]
      refine ⟨by rw [← Nat.add_assoc]; exact h1, ?_⟩
      intro x hx
      rcases List.mem_cons.mp hx with e | e
      · subst e; simp only [WReq.upto]; omega
      · have := h2 x e; omega

/-- Every announced file lies at or beyond the current position. -/
theorem uptoOK_ann_ge (fs : Fs) (rest : List WReq) : ∀ (cur base : Nat),
    uptoOK fs cur base rest → ∀ n ∈ annIds rest, cur + base ≤ n := by
  induction rest with
  | nil => intro cur base _ n hn; cases hn
  | cons r rest ih =>
    intro cur base h n hn
    cases r with
    | write u d cb =>
      simp only [uptoOK] at h
      have := ih cur _ h.2 n (by simpa [annIds] using hn)
      omega
    | appendFile m p =>
      simp only [uptoOK] at h
      simp only [annIds, List.mem_cons] at hn
      rcases hn with e | e
      · omega
      · have := ih m _ h.2 n e
        omega
    | removeChunks ids =>
      simp only [uptoOK] at h
      exact ih cur base h n (by simpa [annIds] using hn)

/-- Where the queue ends, in terms of the bytes in flight. -/
theorem endBase_infl (fs : Fs) (rest : List WReq) : ∀ (cur : Nat) (tb : Bytes),
    Incr (cur :: annIds rest) →
    endBase fs cur ((fdata fs cur).length + tb.length) rest =
      (lastAnn cur rest,
        (fdata fs (lastAnn cur rest)).length + (infl cur tb rest (lastAnn cur rest)).length) := by
  induction rest with
  | nil =>
    intro cur tb _
    simp [endBase, lastAnn, infl, inflightFrom]
  | cons r rest ih =>
    intro cur tb hinc
    cases r with
    | write u d cb =>
      have hinc' : Incr (cur :: annIds rest) := by simpa [annIds] using hinc
      have := ih cur (tb ++ d) hinc'
      simp only [List.length_append] at this
      simp only [endBase, lastAnn, Nat.add_assoc, this]
      congr 1
      simp only [infl, inflightFrom]
      generalize lastAnn cur rest = L
      by_cases e : cur = L <;> simp [e]
    | appendFile n p =>
      simp only [annIds, Incr, List.pairwise_cons] at hinc
      have hinc' : Incr (n :: annIds rest) := by
        simp only [Incr, List.pairwise_cons]; exact hinc.2
      have := ih n [] hinc'
      simp only [List.length_nil, Nat.add_zero] at this
      simp only [endBase, lastAnn, this]
      congr 1
      -- the last announced file is not `cur`
      have hlast : (n :: annIds rest).getLast? = some (lastAnn n rest) := lastAnn_getLast n rest
      have hmem : lastAnn n rest ∈ n :: annIds rest := List.mem_of_getLast? hlast
      have hne : ¬ cur = lastAnn n rest := by
        intro e
        have := hinc.1 (lastAnn n rest) hmem
        omega
      simp only [infl, inflightFrom, hne, if_false, List.nil_append]
      generalize lastAnn n rest = L
      by_cases e : n = L <;> simp [e]
    | removeChunks ids =>
      have hinc' : Incr (cur :: annIds rest) := by simpa [annIds] using hinc
      have := ih cur tb hinc'
      simp only [endBase, lastAnn, this]
      rfl

/-! ### The worker-side invariant -/

/-- The write requests of the batch in hand. -/
def WPc.batchW : WPc → List WReq
  | .writing _ b _ => b
  | .syncOld b _ => b
  | .syncNew b _ => b
  | _ => []

structure WU (fs : Fs) (w : Worker) : Prop where
  u1 : uptoOK fs w.cur ((fdata fs w.cur).length + w.pc.todoBytes.length) w.rest
  u2 : ∀ r ∈ w.pc.batchW, r.upto ≤ w.cur + (fdata fs w.cur).length + w.pc.todoBytes.length
  u3 : ∀ i ∈ Fs.ids fs, w.cur < i → i ∈ annIds w.rest

end RaftLog
