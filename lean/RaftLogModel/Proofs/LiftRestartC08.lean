/-
LIFT, part 3: the system-level C08 statements (`Props/C08Sys.lean`) from the crash
invariant `CrashInvC5b` instead of "reached by a legal history from a fresh store" — so
they hold for recovered systems, restarted systems and every continuation.

All names carry the suffix `_LIFT`.
-/
import RaftLogModel.Props.C08Sys
import RaftLogModel.Proofs.LiftRestart
namespace RaftLog

theorem gap_free_suffix_LIFT {y : Sys} {r : RefLog} {W : List Op} {A E K : Nat}
    (h : CrashInvC5b y r W A E K) :
    ∃ s dropped jc jo, y.store = some s ∧
      y.fs.linkedIds = dropped.map Closed.id ++ (s.closed.map Closed.id ++ [s.openId]) ∧
      y.worker.toRemove ++ s.removed = dropped.map Closed.id ∧
      RepG (s.liftC3b dropped) y.fs y.worker jc jo ∧
      (liveChunksC3 (s.liftC3b dropped) jc jo).map (·.1.id) = y.fs.linkedIds ∧
      (liveChunksC3 (s.liftC3b dropped) jc jo).map (·.1)
        = dropped ++ s.closed ++ [⟨s.openOffsets, s.st⟩] ∧
      AbutC3 (liveChunksC3 (s.liftC3b dropped) jc jo) ∧
      ∀ p ∈ liveChunksC3 (s.liftC3b dropped) jc jo, AllWF p.2 ∧ (∃ st rest, p.2 = .state st :: rest) ∧
        offsetsFrom p.1.id (recSizes p.2) = p.1.offsets ∧ ∃ t, fdata y.fs p.1.id ++ t = encAll p.2 := by
  obtain ⟨B, ⟨_, ⟨s1, hs1, hli⟩, _, _⟩, ⟨s, Bh, gs, hs, h⟩, _, _⟩ := h
  rw [hs] at hs1
  have e : s = s1 := Option.some.inj hs1
  subst e
  obtain ⟨jc, jo, g, _⟩ := h.base.hist
  have hrecs := liveChunks_recs_C3 g
  have hlink : y.fs.linkedIds = (ghostClosedC3b gs).map Closed.id ++ (s.closed.map Closed.id ++ [s.openId]) := by
    rw [← Store.chunkIds_eq]; exact h.linkedIds hli
  refine ⟨s, ghostClosedC3b gs, jc, jo, hs, hlink, h.order, g, ?_, ?_, ?_, ?_⟩
  · rw [liveChunks_ids_C3 g, liftC3b_chunkIds, Store.chunkIds_eq, hlink]
  · simp only [liveChunksC3, List.map_append, List.map_cons, List.map_nil, g.closedEq,
      Store.liftC3b_closed, Store.liftC3b_openOffsets, Store.liftC3b_st]
  · apply abut_of_chained_C3
    · rw [liveChunks_offsets_C3 g]; exact h.base.inv.j.chained
    · intro p hp
      obtain ⟨k1, k2, k3, _, _⟩ := hrecs p hp
      have := lastOff_offsetsFrom p.1.id (recSizes p.2)
      rw [k3, ← encAll_length] at this
      exact this
  · intro p hp
    obtain ⟨k1, k2, k3, _, k5⟩ := hrecs p hp
    exact ⟨k1, k2, k3, k5⟩

theorem unlinks_oldest_first_LIFT {y : Sys} {r : RefLog} {W : List Op} {A E K : Nat}
    (h : CrashInvC5b y r W A E K) (out : Outcome)
    (halive : (y.step (.worker out)).worker.pc ≠ .dead) :
    ((y.step (.worker out)).worker.toRemove = y.worker.toRemove ∧
      (y.step (.worker out)).fs.linkedIds = y.fs.linkedIds) ∨
    (∃ i, y.worker.toRemove = i :: (y.step (.worker out)).worker.toRemove ∧
      y.fs.linkedIds = i :: (y.step (.worker out)).fs.linkedIds ∧
      Ev.unlink "w" i true ∈ y.stepEvs (.worker out)) := by
  obtain ⟨B, ⟨_, ⟨s1, hs1, hli⟩, _, _⟩, ⟨s, Bh, gs, hs, h⟩, _, _⟩ := h
  rw [hs] at hs1
  have e : s = s1 := Option.some.inj hs1
  subst e
  have hnd' : (y.workerStep out).1.worker.pc ≠ .dead := halive
  show ((y.workerStep out).1.worker.toRemove = y.worker.toRemove ∧
      (y.workerStep out).1.fs.linkedIds = y.fs.linkedIds) ∨
    (∃ i, y.worker.toRemove = i :: (y.workerStep out).1.worker.toRemove ∧
      y.fs.linkedIds = i :: (y.workerStep out).1.fs.linkedIds ∧ Ev.unlink "w" i true ∈ (y.workerStep out).2)
  simp only [Sys.workerStep, hs] at hnd' ⊢
  have ts := WCtx.step_tstep_C3b { w := y.worker, fs := y.fs, cache := s.cache } out h.base.inv.j.wok
    h.unl hnd'
  have hids := WCtx.step_ids { w := y.worker, fs := y.fs, cache := s.cache } out
  have hn := hli.nodup
  have hn' : (Fs.ids (WCtx.step { w := y.worker, fs := y.fs, cache := s.cache } out).fs).Nodup := by
    rw [hids]; exact hn
  rcases ts.tr with ⟨e1, e2⟩ | ⟨i, e1, e2, ids, hpc⟩
  · exact Or.inl ⟨e1, linkedIds_of_has_eq_C8s hn hn' e2⟩
  · right
    have hlink := h.linkedIds hli
    have hord := h.order
    simp only at e1
    rw [e1, List.cons_append] at hord
    rw [← hord, List.cons_append] at hlink
    refine ⟨i, e1, ?_, ?_⟩
    · rw [hlink, linkedIds_of_unlink_head_C8s hn hn' e2 hlink]
    · simp only at hpc
      have hout : out ≠ .eio := by
        intro ho
        apply hnd'
        subst ho
        simp [WCtx.step, hpc]
      obtain ⟨cbs, rest, h1, _, _⟩ := WCtx.step_evs { w := y.worker, fs := y.fs, cache := s.cache } out
      rw [h1]
      have hsys : Ev.unlink "w" i true ∈ stepSys { w := y.worker, fs := y.fs, cache := s.cache } out := by
        have : (out != Outcome.eio) = true := by simpa using hout
        simp [stepSys, hpc, this]
      simp only [List.mem_append]
      exact Or.inl (Or.inl (Or.inr hsys))

theorem index_entries_in_linked_chunks_LIFT {y : Sys} {r : RefLog} {W : List Op} {A E K : Nat}
    (h : CrashInvC5b y r W A E K) :
    ∃ s, y.store = some s ∧ ∀ e ∈ s.log, e.2.chunk ∈ y.fs.linkedIds ∧ y.fs.has e.2.chunk = true := by
  obtain ⟨B, ⟨_, ⟨s1, hs1, hli⟩, _, _⟩, ⟨s, Bh, gs, hs, h⟩, _, _⟩ := h
  rw [hs] at hs1
  have e : s = s1 := Option.some.inj hs1
  subst e
  obtain ⟨jc, jo, g, _⟩ := h.base.hist
  refine ⟨s, hs, fun e he => ?_⟩
  have h1 := g.log_chunk_C8s e he
  have h2 := h.live hli _ h1
  exact ⟨((Fs.linkedIds_spec hli.nodup).2 _).mpr h2, h2⟩

theorem unlink_only_after_purge_durable_LIFT {y : Sys} {r : RefLog} {W : List Op} {A E K : Nat}
    (h : CrashInvC5b y r W A E K) (out : Outcome) (c : Nat)
    (hev : Ev.unlink "w" c true ∈ y.stepEvs (.worker out)) :
    ∃ s cl dropped' m k, y.store = some s ∧ cl.id = c ∧
      y.fs.linkedIds = c :: (dropped'.map Closed.id ++ (s.closed.map Closed.id ++ [s.openId])) ∧
      y.worker.toRemove ++ s.removed = c :: dropped'.map Closed.id ∧
      (∃ rest, y.worker.pc = .unlinking (c :: rest)) ∧ y.worker.lastSyncFailed = false ∧
      lastOff cl.offsets < m ∧ m ≤ A ∧ A ≤ s.openEnd ∧
      k ≤ W.length ∧
      (∀ n, k ≤ n → n ≤ W.length → ∀ r', RefLog.run {} (W.take n) = some r' →
        optLe cl.state.last r'.purged = true) ∧
      (∃ jc jo N0 Q, RepG (s.liftC3b (cl :: dropped')) y.fs y.worker jc jo ∧
        W.length = N0 + cntW (allOps (s.liftC3b (cl :: dropped')) jc jo) ∧
        Q <+: allOps (s.liftC3b (cl :: dropped')) jc jo ∧ cl.id + sizeSum Q = m ∧ N0 + cntW Q = k) ∧
      (∀ offs ∈ (s.liftC3b dropped').chunks,
        min (lastOff offs - offs.headD 0) (m - offs.headD 0) ≤ (fdata y.fs (offs.headD 0)).length ∧
        ∀ f, y.fs.find (offs.headD 0) = some f →
          min (lastOff offs - offs.headD 0) (m - offs.headD 0) ≤ f.durable) ∧
      (∀ e ∈ s.log, optLt cl.state.last (some e.2.id) = true ∧ e.2.chunk ≠ c) := by
  obtain ⟨B, ⟨⟨s0, hs0, _, _⟩, ⟨s1, hs1, hli⟩, _, hswf⟩, ⟨s, Bh, gs, hs, h⟩, _, _⟩ := h
  rw [hs] at hs1
  have e : s = s1 := Option.some.inj hs1
  subst e
  have hwfw : y.worker.WF := (hswf (by rw [hs]; simp)).1
  have hev' : Ev.unlink "w" c true ∈ (y.workerStep out).2 := hev
  simp only [Sys.workerStep, hs] at hev'
  obtain ⟨rest, hpc⟩ := unlink_ev_pc_C8s (c := { w := y.worker, fs := y.fs, cache := s.cache }) rfl hev'
  simp only at hpc
  have hlsf : y.worker.lastSyncFailed = false := by
    have := hwfw
    simp only [Worker.WF, hpc] at this
    exact this.2
  obtain ⟨p0, gs', hgs, hid, hm0⟩ := h.head_acked_C8s hpc
  subst hgs
  have hp0 := h.ents p0 List.mem_cons_self
  have hcl : (s.liftC3b (ghostClosedC3b (p0 :: gs'))).closed
      = p0.c :: (s.liftC3b (ghostClosedC3b gs')).closed := by
    simp [ghostClosedC3b]
  have hpop := h.base.pop_one_C3b hp0.hinv hcl rfl rfl rfl rfl (h.lo p0 List.mem_cons_self) hp0.mlo
    hp0.mhi hp0.cov
  obtain ⟨jc, jo, g, N0, hN, _, _, hcnt⟩ := hp0.hinv.hist
  have hk : p0.k ≤ W.length := by
    obtain ⟨_, _, _, hg⟩ := hp0.hinv.hist
    exact hg.count_le_C3b
  have hj := h.base.inv.j
  have hgc : ghostClosedC3b (p0 :: gs') = p0.c :: ghostClosedC3b gs' := rfl
  have hjs : (s.liftC3b (p0.c :: ghostClosedC3b gs')).jstart = p0.c.id := by
    simp [Store.jstart]
  have hlink := h.linkedIds hli
  rw [hgc, List.map_cons, List.cons_append, hid, Store.chunkIds_eq] at hlink
  have hord := h.order
  rw [hgc, List.map_cons, hid] at hord
  have hhead : p0.c.id < lastOff p0.c.offsets :=
    hj.chunk_head_lt p0.c.offsets (by simp [Store.chunks, hgc])
  refine ⟨s, p0.c, ghostClosedC3b gs', p0.m, p0.k, hs, hid, hlink, hord, ⟨rest, hpc⟩, hlsf, hp0.mlo, hm0,
    h.base.dur.a2, hk, hp0.cov, ?_, ?_, ?_⟩
  · rw [hgc] at g hN hcnt
    rw [hjs] at hcnt
    rcases hcnt with ⟨Q, hQ, e1, e2⟩ | ⟨e1, _⟩
    · exact ⟨jc, jo, N0, Q, g, hN, hQ, e1, e2⟩
    · have := hp0.mlo; omega
  · intro offs ho
    have h1 := hpop.dur.dw offs ho
    have h2 := hpop.dur.dd offs ho
    have hmm : min (lastOff offs - offs.headD 0) (p0.m - offs.headD 0)
        ≤ min (lastOff offs - offs.headD 0) (A - offs.headD 0) := by
      have := hm0
      omega
    exact ⟨Nat.le_trans hmm h1, fun f hf => Nat.le_trans hmm (h2 f hf)⟩
  · intro e he
    have hpur : optLe p0.c.state.last s.st.purged = true := by
      have := hp0.cov W.length hk (Nat.le_refl _) r (by rw [List.take_length]; exact h.base.run)
      have hst := h.base.inv.abs.st
      simp only [Store.liftC3b_st] at hst
      rw [hst]; exact this
    have habove := optLt_of_le_of_lt hpur (h.base.inv.abs.log_above e he)
    refine ⟨habove, ?_⟩
    obtain ⟨jc2, jo2, g2, _⟩ := hpop.hist
    have hmem := g2.log_chunk_C8s e he
    have hlt := ghost_ids_lt_C3b hj e.2.chunk (by rw [← liftC3b_chunkIds]; exact hmem)
    omega

/-- With no removal outstanding, the linked files are exactly the live chunks. -/
theorem quiet_linked_LIFT {y : Sys} {r : RefLog} {W : List Op} {A E K : Nat}
    (h : CrashInvC5b y r W A E K) {s : Store} (hs : y.store = some s)
    (hrem : s.removed = []) (htr : y.worker.toRemove = []) :
    y.fs.linkedIds = s.closed.map Closed.id ++ [s.openId] := by
  obtain ⟨B, ⟨⟨s0, hs0, _, hi⟩, ⟨s1, hs1, hli⟩, _, _⟩, _, _, _⟩ := h
  rw [hs] at hs0 hs1; cases hs0; cases hs1
  rw [← Store.chunkIds_eq]
  exact linked_of_no_removals_C3 hli hi.inv.j hrem htr

/-- The crash invariant after `flush cb`, `workerIdle` (worker alive at the end). -/
theorem crashInv_flush_idle_LIFT {y : Sys} {r : RefLog} {W : List Op} {A E K : Nat}
    (h : CrashInvC5b y r W A E K) (cb : Option Nat)
    (halive : ((y.step (.flush cb)).step .workerIdle).worker.pc ≠ .dead) :
    CrashInvC5b ((y.step (.flush cb)).step .workerIdle) r W
      (y.ackRun [.flush cb, .workerIdle] A) E K := by
  have := run_CrashInv_C5b [.flush cb, .workerIdle] y r r W A E K h
    (by intro st hst
        simp only [List.mem_cons, List.not_mem_nil, or_false] at hst
        rcases hst with k | k <;> subst k <;> rfl)
    (by simp [stepOps, RefLog.run])
    (by intro op hop; simp [stepOps] at hop) halive
  have e : y.run [.flush cb, .workerIdle] = (y.step (.flush cb)).step .workerIdle := rfl
  rw [e] at this
  simpa [stepOps, expandOps] using this

theorem flushed_idle_gone_LIFT {y : Sys} {r : RefLog} {W : List Op} {A E K : Nat}
    (h : CrashInvC5b y r W A E K) (hpo : SysPostD14 y) (cb : Option Nat)
    (halive : ((y.step (.flush cb)).step .workerIdle).worker.pc ≠ .dead) :
    ∃ s, ((y.step (.flush cb)).step .workerIdle).store = some s ∧ s.removed = [] ∧
      ((y.step (.flush cb)).step .workerIdle).worker.toRemove = [] ∧
      ((y.step (.flush cb)).step .workerIdle).worker.lastSyncFailed = false ∧
      ((y.step (.flush cb)).step .workerIdle).worker.postponed = [] ∧
      ((y.step (.flush cb)).step .workerIdle).fs.linkedIds = s.closed.map Closed.id ++ [s.openId] := by
  have hfin := crashInv_flush_idle_LIFT h cb halive
  obtain ⟨B, ⟨⟨s0, hs0, hd0', _⟩, _, _, hswf⟩, _, _, _⟩ := h
  have hwfS : SysWF (y.step (.flush cb)) := hswf.step _
  have hpoS : SysPostD14 (y.step (.flush cb)) := hpo.step _
  have hd1 : (y.step (.flush cb)).worker.pc ≠ .dead := by
    intro hdead
    exact halive (Sys.step_dead _ _ rfl hdead)
  have hd0 : y.worker.pc ≠ .dead := hd0'
  have hws := Sys.flush_willSyncD14 y cb s0 hs0 hd0
  have hfl := Sys.flush_eq y cb s0 hs0 hd0
  have hy1 : y.step (.flush cb) = (y.flush cb).2.1 := rfl
  rw [hfl] at hy1
  generalize hY1 : y.step (.flush cb) = y1 at hy1 hd1 hws hwfS hpoS halive hfin
  have hs1 : y1.store = some (s0.flush cb).1 := by rw [hy1]
  have hpo1 : PostponedOnlyAfterFailedSyncD14 y1.worker := hpoS (by rw [hs1]; simp)
  obtain ⟨hw1, ht1⟩ := hwfS (by rw [hs1]; simp)
  have hyw : y1.step .workerIdle = y1.workerIdle.1 := rfl
  have hd2 : y1.workerIdle.1.worker.pc ≠ .dead := by rw [← hyw]; exact halive
  simp only [Sys.workerIdle, hs1] at hyw hd2
  have hq := WCtx.runQuiet_fuel_quiet { w := y1.worker, fs := y1.fs, cache := (s0.flush cb).1.cache } ht1
  have hcl := WCtx.runQuiet_cleanD14 y1.worker.fuel
    { w := y1.worker, fs := y1.fs, cache := (s0.flush cb).1.cache } hw1 hpo1 (.inl hws) hq
  have htr := toRemove_of_quiet_C8s hq hd2 hcl.2
  have hstore : (y1.step .workerIdle).store = some { (s0.flush cb).1 with cache :=
      (WCtx.runQuiet y1.worker.fuel { w := y1.worker, fs := y1.fs, cache := (s0.flush cb).1.cache }).cache } := by
    rw [hyw]
  have hworker : (y1.step .workerIdle).worker.toRemove = [] := by rw [hyw]; exact htr
  refine ⟨_, hstore, rfl, hworker, by rw [hyw]; exact hcl.1, by rw [hyw]; exact hcl.2, ?_⟩
  exact quiet_linked_LIFT hfin hstore rfl hworker

end RaftLog
