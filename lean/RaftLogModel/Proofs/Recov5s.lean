/-
C05 (crash recoverability), part 17: recovery never panics — on ANY crash image (also those
with a torn predecessor, where `open` reports the gap error), with any configuration.
-/
import RaftLogModel.Proofs.Recov5r
namespace RaftLog

theorem crash_image_fsSmall_C5b {y : Sys} {r : RefLog} {W : List Op} {A E K : Nat}
    (h : CrashInvC5b y r W A E K) {img : Fs} (hc : CrashImage y.fs img) : FsSmall img := by
  obtain ⟨B, hh, hg, hS, _⟩ := h
  obtain ⟨⟨s, hs, _, _⟩, ⟨s1, hs1, hli⟩, _, _⟩ := hh
  rw [hs] at hs1; cases hs1
  obtain ⟨s0, Bh, gs, hs0, hgi⟩ := hg
  rw [hs] at hs0; cases hs0
  obtain ⟨jc, jo, g, _⟩ := hgi.base.hist
  have hlinked : y.fs.linkedIds = (s.liftC3b (ghostClosedC3b gs)).chunkIds := by
    rw [liftC3b_chunkIds]; exact hgi.linkedIds hli
  have hsm := g.ops_small_C5b hgi.base.inv.j (smallJ_lift_C5b (hS s hs) _)
  have hrecs := liveChunks_recs_C3 g
  intro id hid f hf
  rw [hc.linkedIds, hlinked, ← liveChunks_ids_C3 g] at hid
  obtain ⟨p, hp, hpid⟩ := List.mem_map.mp hid
  obtain ⟨k1, _, _, k4, t, k5⟩ := hrecs p hp
  obtain ⟨f0, hf0, hfl⟩ := has_find_C3 (hgi.live hli _ k4)
  obtain ⟨g', hg1, hg2⟩ := hc.find hf0 hfl
  rw [fdata_of_find_C3 hf0] at k5
  obtain ⟨j, _, e, rest, hparse, _⟩ := cutOf_parses_C3 k1 k5 hg2
  rw [hpid] at hg1
  rw [hf] at hg1
  cases hg1
  intro x hx
  rw [hparse] at hx
  obtain ⟨rec, hrec, e2⟩ := List.mem_map.mp hx
  rw [← e2]
  simp only
  -- `rec` is a record of the journal
  have hmem : rec ∈ p.2 := List.mem_of_mem_take hrec
  have : rec ∈ (allOps (s.liftC3b (ghostClosedC3b gs)) jc jo).map (·.r) := by
    rw [allOps_map_r]
    simp only [liveChunksC3, List.mem_append, List.mem_singleton] at hp
    rcases hp with k | k
    · exact List.mem_append_left _ (mem_flatRecs_C5b k hmem)
    · subst k; exact List.mem_append_right _ hmem
  obtain ⟨op, hop, e3⟩ := List.mem_map.mp this
  rw [← e3]; exact hsm op hop

theorem crash_open_no_panic_C5b {y : Sys} {r : RefLog} {W : List Op} {A E K : Nat}
    (h : CrashInvC5b y r W A E K) {img : Fs} (hc : CrashImage y.fs img) (cfg' : Cfg) :
    ∀ m, (openStore cfg' img).1 ≠ .panic m :=
  openStore_no_panic cfg' img (crash_image_fsSmall_C5b h hc)

end RaftLog
