/-
C05 (crash recoverability), part 3: a store described by `RecovC5b` satisfies the journal
invariant, the replay invariant (given the reference log it refines) and the linked-files
invariant.
-/
import RaftLogModel.Proofs.Recov5b
namespace RaftLog

theorem RecovC5b.worker_facts {s' : Store} {w' : Worker} {fs' : Fs} {jc' : List (Closed × List Record)}
    {jo' : List Record} (h : RecovC5b s' w' fs' jc' jo') :
    (∀ i, w'.inflight i = []) ∧ w'.announced = [s'.openId] ∧ w'.toRemove = [] ∧ w'.pc = .idle := by
  obtain ⟨pl, hw⟩ := h.worker
  subst hw
  obtain ⟨f1, f2, f3⟩ := reopen_worker_facts s'.openId pl
  exact ⟨f1, f2, f3, rfl⟩

theorem RecovC5b.chunkBytes_eq {s' : Store} {w' : Worker} {fs' : Fs} {jc' : List (Closed × List Record)}
    {jo' : List Record} (h : RecovC5b s' w' fs' jc' jo') (id : Nat) :
    chunkBytes s' fs' w' id = fdata fs' id := by
  obtain ⟨f1, _, _, _⟩ := h.worker_facts
  simp [chunkBytes, f1, h.pending]

theorem RecovC5b.repG {s' : Store} {w' : Worker} {fs' : Fs} {jc' : List (Closed × List Record)}
    {jo' : List Record} (h : RecovC5b s' w' fs' jc' jo') : RepG s' fs' w' jc' jo' := by
  refine ⟨h.closedEq, ?_, ?_, ?_⟩
  · intro p hp
    obtain ⟨f, k1, _, k3, _, k5⟩ := h.files p hp
    rw [h.chunkBytes_eq, fdata_of_find_C3 k1, k3]
    exact k5
  · obtain ⟨f, k1, _, k3, k5, _⟩ := h.openFile
    rw [h.chunkBytes_eq, fdata_of_find_C3 k1, k3]
    exact k5
  · obtain ⟨stC, lC, g1, g2, g3, g4⟩ := h.run
    exact ⟨stC, lC, g1, g2, g3, g4⟩

theorem RecovC5b.openChunkOK {s' : Store} {w' : Worker} {fs' : Fs} {jc' : List (Closed × List Record)}
    {jo' : List Record} (h : RecovC5b s' w' fs' jc' jo') : ChunkOK s'.openOffsets (encAll jo') := by
  obtain ⟨f, _, _, _, k5, _⟩ := h.openFile
  exact k5.chunkOK

theorem RecovC5b.mem_closed {s' : Store} {w' : Worker} {fs' : Fs} {jc' : List (Closed × List Record)}
    {jo' : List Record} (h : RecovC5b s' w' fs' jc' jo') {c : Closed} (hc : c ∈ s'.closed) :
    ∃ p ∈ jc', p.1 = c := by
  rw [← h.closedEq] at hc
  obtain ⟨p, hp, e⟩ := List.mem_map.mp hc
  exact ⟨p, hp, e⟩

theorem RecovC5b.jinv {s' : Store} {w' : Worker} {fs' : Fs} {jc' : List (Closed × List Record)}
    {jo' : List Record} (h : RecovC5b s' w' fs' jc' jo') (hst : s'.st.WF)
    (hlog : ∀ e ∈ s'.log, e.2.id.WF) : JInv s' fs' w' := by
  obtain ⟨f1, f2, f3, f4⟩ := h.worker_facts
  have hopen := h.openChunkOK
  have hhl := hopen.head_lt
  have hhead : ∀ x ∈ s'.chunks, x.headD 0 < lastOff x := by
    intro x hx
    simp only [Store.chunks, List.mem_append, List.mem_map, List.mem_singleton] at hx
    rcases hx with ⟨c, hc, rfl⟩ | rfl
    · obtain ⟨p, hp, e⟩ := h.mem_closed hc
      obtain ⟨_, _, _, _, _, k5⟩ := h.files p hp
      rw [← e]; exact k5.chunkOK.head_lt
    · exact hhl
  refine ⟨by rw [f4]; trivial, hst, hlog, ?_, by rw [f2]; rfl, by rw [f2]; simp [Incr], ?_, h.chained, ?_,
    ?_, ?_, ?_⟩
  · intro i hi
    have := h.idsLe i hi
    simp only [Store.openEnd, Store.openId] at hhl this ⊢
    omega
  · intro a ha
    rw [f2] at ha
    simp only [List.mem_singleton] at ha
    subst ha
    obtain ⟨f, k1, _⟩ := h.openFile
    exact (Fs.find_isSome_iff fs' _).mp (by rw [k1]; rfl)
  · -- every closed chunk ends at or before the open chunk starts
    intro c hc
    have hch := h.chained
    simp only [Store.chunks] at hch
    obtain ⟨pre, post, hsplit⟩ := List.append_of_mem hc
    rw [hsplit, List.map_append, List.map_cons, List.append_assoc] at hch
    have h2 := (Chained.drop_prefix hch)
    have := chained_last_le c.offsets (post.map (·.offsets) ++ [s'.openOffsets]) h2
      (fun x hx => hhead x (by
        simp only [Store.chunks, hsplit, List.map_append, List.map_cons]
        simp only [List.mem_append, List.mem_cons] at hx ⊢
        rcases hx with k | k
        · exact Or.inl (Or.inr (Or.inr k))
        · exact Or.inr k))
      s'.openId (by simp [Store.openId])
    exact this
  · intro c hc
    obtain ⟨p, hp, e⟩ := h.mem_closed hc
    obtain ⟨f, k1, _⟩ := h.files p hp
    rw [← e]
    exact (Fs.find_isSome_iff fs' _).mp (by rw [k1]; rfl)
  · obtain ⟨f, k1, _, k3, k5, _⟩ := h.openFile
    rw [f1, h.pending, fdata_of_find_C3 k1, k3]
    simpa using k5.chunkOK
  · intro c hc
    obtain ⟨p, hp, e⟩ := h.mem_closed hc
    obtain ⟨f, k1, _, k3, _, k5⟩ := h.files p hp
    rw [f1, ← e, fdata_of_find_C3 k1, k3]
    simpa using k5.chunkOK

theorem RecovC5b.linv {s' : Store} {w' : Worker} {fs' : Fs} {jc' : List (Closed × List Record)}
    {jo' : List Record} (h : RecovC5b s' w' fs' jc' jo') : LInv s' fs' w' := by
  obtain ⟨_, _, f3, _⟩ := h.worker_facts
  refine ⟨h.nodup, ?_, fun id hid => Or.inl (h.has id hid), ?_⟩
  · intro id hid
    rw [Store.chunkIds_eq] at hid
    rcases List.mem_append.mp hid with k | k
    · obtain ⟨c, hc, e⟩ := List.mem_map.mp k
      obtain ⟨p, hp, e2⟩ := h.mem_closed hc
      obtain ⟨f, k1, k2, _⟩ := h.files p hp
      unfold Fs.has
      rw [← e, ← e2, k1]; exact k2
    · simp only [List.mem_singleton] at k
      subst k
      obtain ⟨f, k1, k2, _⟩ := h.openFile
      unfold Fs.has
      rw [k1]; exact k2
  · intro x hx
    rw [h.removed, f3] at hx
    rcases hx with k | k <;> cases k

theorem RecovC5b.rinv {s' : Store} {w' : Worker} {fs' : Fs} {jc' : List (Closed × List Record)}
    {jo' : List Record} (h : RecovC5b s' w' fs' jc' jo') {r' : RefLog} (hst : s'.st.WF)
    (hlog : ∀ e ∈ s'.log, e.2.id.WF) (h1 : s'.st = r'.state) (h2 : logKeys s'.log = entKeys r'.entries)
    (hwf : r'.WF) (hsm : StSmall s'.st) (hlsm : ∀ e ∈ s'.log, smallId e.2.id)
    (hpay : PayG s' r' jc' jo') (hrun : RunG s' jc' jo') : RInv s' fs' w' r' :=
  ⟨h.jinv hst hlog, ⟨h1, h2, hwf, ⟨h.openChunkOK.length, hsm.1, hsm.2, hlsm⟩⟩,
    ⟨jc', jo', h.repG, hpay, hrun⟩⟩

end RaftLog
