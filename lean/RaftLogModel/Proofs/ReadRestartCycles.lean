/-
C07 across restarts, part 3: the invariant `ReadInvC7c` ∧ `CSys` along any number
of cycles "history segment, drop, open with a new configuration"
(`Sys.runCycles`, `CleanCycles` of Props/C02.lean), for `AppendsFresh` histories.

All names carry the suffix `C7c`.
-/
import RaftLogModel.Proofs.ReadRestartInv
import RaftLogModel.Props.C02
namespace RaftLog

theorem freshOps_append_C7c (m : Option LogId) (a b : List Op) :
    freshOpsC7b m (a ++ b) = (freshOpsC7b m a).bind (fun m1 => freshOpsC7b m1 b) := by
  induction a generalizing m with
  | nil => rfl
  | cons op rest ih =>
    simp only [List.cons_append, freshOpsC7b]
    cases freshOpC7b m op with
    | none => rfl
    | some m1 => exact ih m1

theorem stepOps_append_C7c (a b : List Step) : stepOps (a ++ b) = stepOps a ++ stepOps b := by
  induction a with
  | nil => rfl
  | cons st rest ih =>
    cases st <;> simp [stepOps, ih]

/-- All steps of the segments, in order (without the drop/open steps between
them). -/
def cycleStepsC7c : List (List Step × Cfg) → List Step
  | [] => []
  | seg :: rest => seg.1 ++ cycleStepsC7c rest

theorem stepOps_cycleSteps_C7c (segs : List (List Step × Cfg)) :
    stepOps (cycleStepsC7c segs) = cycleOps segs := by
  induction segs with
  | nil => rfl
  | cons seg rest ih => simp only [cycleStepsC7c, cycleOps, stepOps_append_C7c, ih]

/-- A clean restart, with `Sys.Clean`. -/
theorem restart_clean_C7c (y : Sys) (r : RefLog) (m : Option LogId) (cfg' : Cfg)
    (h : ReadInvC7c y r m) (hC : CSys y r) (hc : y.Clean) :
    ReadInvC7c ((y.step .drop).step (.openWith cfg')) r m ∧
      CSys ((y.step .drop).step (.openWith cfg')) r := by
  obtain ⟨s, hs, hq, hp, hrem, hpost⟩ := hc
  exact restart_readInv_C7c y r m cfg' h hC s hs hq hp hrem hpost

/-- **The invariant along cycles.** Every call of every segment returns `ok`. -/
theorem cycles_readInv_C7c (segs : List (List Step × Cfg)) :
    ∀ (y : Sys) (r r' : RefLog) (m m' : Option LogId), ReadInvC7c y r m → CSys y r →
    (∀ seg ∈ segs, ∀ st ∈ seg.1, st.journal = true) → r.run (cycleOps segs) = some r' →
    (∀ op ∈ cycleOps segs, op.small ∧ op.WF) → freshOpsC7b m (cycleOps segs) = some m' →
    CleanCycles y segs →
    ReadInvC7c (y.runCycles segs) r' m' ∧ CSys (y.runCycles segs) r' ∧
    ∀ segs1 seg segs2 pre op post, segs = segs1 ++ seg :: segs2 → seg.1 = pre ++ Step.call op :: post →
      ∃ sg, (((y.runCycles segs1).run pre).call op).1 = .ok sg := by
  induction segs with
  | nil =>
    intro y r r' m m' h hC _ hr _ hfr _
    simp only [cycleOps, RefLog.run, Option.some.injEq] at hr; subst hr
    simp only [cycleOps, freshOpsC7b, Option.some.injEq] at hfr; subst hfr
    refine ⟨h, hC, ?_⟩
    intro segs1 seg segs2 pre op post hsplit
    cases segs1 <;> cases hsplit
  | cons seg rest ih =>
    intro y r r' m m' h hC hst hr hops hfr hclean
    obtain ⟨hnd, hc, hrest⟩ := hclean
    simp only [cycleOps, RefLog.run_append] at hr
    simp only [cycleOps, freshOps_append_C7c] at hfr
    cases hr1 : r.run (stepOps seg.1) with
    | none => rw [hr1] at hr; cases hr
    | some r1 =>
      rw [hr1] at hr
      simp only [Option.bind_some] at hr
      cases hm1 : freshOpsC7b m (stepOps seg.1) with
      | none => rw [hm1] at hfr; cases hfr
      | some m1 =>
        rw [hm1] at hfr
        simp only [Option.bind_some] at hfr
        have hops1 : ∀ op ∈ stepOps seg.1, op.small ∧ op.WF :=
          fun op hop => hops op (by simp only [cycleOps]; exact List.mem_append_left _ hop)
        obtain ⟨h1, hcalls1⟩ := run_readInv_C7c seg.1 y r r1 m m1 h (hst seg List.mem_cons_self) hr1
          hops1 hm1 hnd
        have hC1 : CSys (y.run seg.1) r1 :=
          run_CSys seg.1 y r r1 hC (hst seg List.mem_cons_self) hr1
            (fun op hop => ⟨(hops1 op hop).2, (hops1 op hop).1⟩) hnd
        obtain ⟨h2, hC2⟩ := restart_clean_C7c (y.run seg.1) r1 m1 seg.2 h1 hC1 hc
        obtain ⟨g1, g2, g3⟩ := ih (y.runCycle seg) r1 r' m1 m' h2 hC2
          (fun sg hsg => hst sg (List.mem_cons_of_mem _ hsg)) hr
          (fun op hop => hops op (by simp only [cycleOps]; exact List.mem_append_right _ hop)) hfr hrest
        simp only [Sys.runCycles, List.foldl_cons]
        refine ⟨g1, g2, ?_⟩
        intro segs1 sg segs2 pre op post hsplit hsg
        cases segs1 with
        | nil =>
          simp only [List.nil_append, List.cons.injEq] at hsplit
          obtain ⟨e1, _⟩ := hsplit
          subst e1
          exact hcalls1 pre op post hsg
        | cons s1 segs1' =>
          simp only [List.cons_append, List.cons.injEq] at hsplit
          obtain ⟨e1, e2⟩ := hsplit
          subst e1
          exact g3 segs1' sg segs2 pre op post e2 hsg

end RaftLog
