/-
C02: the replay invariant. For a live store with file system and worker,
`Rep s fs w` says: there are record lists for every live chunk (closed chunks
`jc`, open chunk `jo`) whose encodings are exactly the chunk's bytes (file ++
in flight ++ pending) and whose sizes give the chunk's offsets, such that
replaying them in order from the empty state and the empty index map — cache
free — yields exactly `(s.st, s.log)`; after every closed chunk the replayed
state is the recorded closing state and every index entry is at or below its
`last`.

`RInv s fs w r` = journal invariant ∧ cache-free refinement of the reference log
`r` ∧ `Rep`. It holds for a fresh store and is kept by every legal accepted
small call (including chunk rotation and purges that drop closed chunks), by
flushes, worker steps and `drain`.
-/
import RaftLogModel.Proofs.ReplayRep
namespace RaftLog

/-! ### Records of a chunk -/

/-- `ChunkOK` with the record list named. -/
def ChunkRecs (offs : List Nat) (rs : List Record) (bytes : Bytes) : Prop :=
  AllWF rs ∧ (∃ st rest, rs = .state st :: rest) ∧
    offsetsFrom (offs.headD 0) (recSizes rs) = offs ∧ bytes = encAll rs

theorem ChunkRecs.chunkOK {offs : List Nat} {rs : List Record} {b : Bytes} (h : ChunkRecs offs rs b) :
    ChunkOK offs b := ⟨rs, h.1, h.2.1, h.2.2.1, h.2.2.2⟩

theorem ChunkRecs.lastOff_eq {offs : List Nat} {rs : List Record} {b : Bytes}
    (h : ChunkRecs offs rs b) : lastOff offs = offs.headD 0 + (encAll rs).length := by
  have := h.chunkOK.lastOff_eq
  rw [h.2.2.2] at this
  exact this

theorem ChunkRecs.snoc {offs : List Nat} {rs : List Record} {b : Bytes} (h : ChunkRecs offs rs b)
    {r : Record} (hr : r.WF) :
    ChunkRecs (offs ++ [lastOff offs + (encRecord r).length]) (rs ++ [r]) (b ++ encRecord r) := by
  have hne := h.chunkOK.ne_nil
  obtain ⟨hwf, ⟨st, rest, hrs⟩, ho, hb⟩ := h
  refine ⟨?_, ⟨st, rest ++ [r], by rw [hrs]; rfl⟩, ?_, ?_⟩
  · intro x hx
    rcases List.mem_append.mp hx with h1 | h1
    · exact hwf x h1
    · simp at h1; subst h1; exact hr
  · rw [headD_append_of_ne_nil hne]
    simp only [recSizes, List.map_append, List.map_cons, List.map_nil]
    rw [offsetsFrom_snoc]
    simp only [recSizes] at ho
    rw [ho]
  · rw [encAll_append, hb]; simp

theorem ChunkRecs.fresh (id : Nat) {st : RState} (h : st.WF) :
    ChunkRecs [id, id + (encRecord (.state st)).length] [.state st] (encRecord (.state st)) := by
  refine ⟨?_, ⟨st, [], rfl⟩, ?_, by simp⟩
  · intro x hx; simp at hx; subst hx; exact h
  · simp [recSizes, offsetsFrom]

/-! ### The replay invariant with its witnesses -/

structure RepG (s : Store) (fs : Fs) (w : Worker) (jc : List (Closed × List Record))
    (jo : List Record) : Prop where
  closedEq : jc.map (·.1) = s.closed
  closedRecs : ∀ p ∈ jc, ChunkRecs p.1.offsets p.2 (chunkBytes s fs w p.1.id)
  openRecs : ChunkRecs s.openOffsets jo (chunkBytes s fs w s.openId)
  run : ∃ stC lC, RepC jc {} [] stC lC ∧ stRun jo stC = some s.st ∧
    idxRun (chunkOps s.openId jo) lC = some s.log ∧ (jc ≠ [] → ∃ tl, jo = .state stC :: tl)

/-- All records of the retained journal with chunk id and segment, in order. -/
def allOps (s : Store) (jc : List (Closed × List Record)) (jo : List Record) : List JOp :=
  flatOps jc ++ chunkOps s.openId jo

/-- The `Append` record an index entry points to. -/
def opAt (e : Nat × LogData) (p : Bytes) : JOp := ⟨.append e.2.id p, e.2.chunk, ⟨e.2.off, e.2.size⟩⟩

/-- Payloads: whenever the record an index entry points to is in the retained
journal, it carries the reference log's payload for that id. -/
def PayG (s : Store) (r : RefLog) (jc : List (Closed × List Record)) (jo : List Record) : Prop :=
  ∀ e ∈ s.log, ∀ p, opAt e p ∈ allOps s jc jo → (e.2.id, p) ∈ r.entries

/-- The checks of `RecCheck` hold along the retained journal after its first
record (the head `State` record of the oldest retained chunk). -/
def RunG (s : Store) (jc : List (Closed × List Record)) (jo : List Record) : Prop :=
  ∀ hd tl, allOps s jc jo = hd :: tl → ∀ x, hd.r = .state x → RunOK tl x []

/-- **The replay invariant.** -/
def Rep (s : Store) (fs : Fs) (w : Worker) (r : RefLog) : Prop :=
  ∃ jc jo, RepG s fs w jc jo ∧ PayG s r jc jo ∧ RunG s jc jo

theorem allOps_map_r (s : Store) (jc : List (Closed × List Record)) (jo : List Record) :
    (allOps s jc jo).map (·.r) = flatRecs jc ++ jo := by
  simp only [allOps, List.map_append, flatOps_map_r, chunkOps, opsFrom_map_r]

theorem PayG.mono {s s2 : Store} {r : RefLog} {jc jc2 : List (Closed × List Record)}
    {jo jo2 : List Record} (h : PayG s r jc jo) (hlog : s2.log = s.log)
    (hops : ∀ op ∈ allOps s2 jc2 jo2, (∃ id p, op.r = .append id p) → op ∈ allOps s jc jo) :
    PayG s2 r jc2 jo2 := by
  intro e he p hop
  rw [hlog] at he
  exact h e he p (hops _ hop ⟨_, _, rfl⟩)

theorem RepG.mem_closed {s : Store} {fs : Fs} {w : Worker} {jc : List (Closed × List Record)}
    {jo : List Record} (h : RepG s fs w jc jo) {p : Closed × List Record} (hp : p ∈ jc) :
    p.1 ∈ s.closed := by
  rw [← h.closedEq]; exact List.mem_map.mpr ⟨p, hp, rfl⟩

theorem RepG.heads {s : Store} {fs : Fs} {w : Worker} {jc : List (Closed × List Record)}
    {jo : List Record} (h : RepG s fs w jc jo) : HeadsState jc :=
  fun p hp => (h.closedRecs p hp).2.1

/-- Same chunks, same bytes, same state and index map. -/
theorem RepG.transport {s s2 : Store} {fs fs2 : Fs} {w w2 : Worker}
    {jc : List (Closed × List Record)} {jo : List Record} (h : RepG s fs w jc jo)
    (h1 : s2.st = s.st) (h2 : s2.log = s.log) (h3 : s2.openOffsets = s.openOffsets)
    (h5 : s2.closed = s.closed)
    (hb : ∀ id, chunkBytes s2 fs2 w2 id = chunkBytes s fs w id) : RepG s2 fs2 w2 jc jo := by
  have e1 : s2.openId = s.openId := by simp [Store.openId, h3]
  refine ⟨by rw [h5]; exact h.closedEq, fun p hp => by rw [hb]; exact h.closedRecs p hp,
    by rw [h3, e1, hb]; exact h.openRecs, ?_⟩
  obtain ⟨stC, lC, g1, g2, g3, g4⟩ := h.run
  exact ⟨stC, lC, g1, by rw [h1]; exact g2, by rw [e1, h2]; exact g3, g4⟩

theorem Rep.transport {s s2 : Store} {fs fs2 : Fs} {w w2 : Worker} {r : RefLog} (h : Rep s fs w r)
    (h1 : s2.st = s.st) (h2 : s2.log = s.log) (h3 : s2.openOffsets = s.openOffsets)
    (h5 : s2.closed = s.closed)
    (hb : ∀ id, chunkBytes s2 fs2 w2 id = chunkBytes s fs w id) : Rep s2 fs2 w2 r := by
  obtain ⟨jc, jo, g, gp, gr⟩ := h
  have e1 : s2.openId = s.openId := by simp [Store.openId, h3]
  have e2 : allOps s2 jc jo = allOps s jc jo := by simp [allOps, e1]
  exact ⟨jc, jo, g.transport h1 h2 h3 h5 hb,
    gp.mono h2 (fun op hop _ => by rw [e2] at hop; exact hop), by unfold RunG; rw [e2]; exact gr⟩

/-- Every record of the retained journal lies below the journal end. -/
theorem RepG.ops_off_lt {s : Store} {fs : Fs} {w : Worker} {jc : List (Closed × List Record)}
    {jo : List Record} (g : RepG s fs w jc jo) (hj : JInv s fs w) :
    ∀ op ∈ allOps s jc jo, op.seg.off < s.openEnd := by
  intro op hop
  rcases List.mem_append.mp hop with h1 | h1
  · obtain ⟨p, hp, hop'⟩ := mem_flatOps.mp h1
    have h2 := (opsFrom_off_lt hop').2.1
    have h3 := (g.closedRecs p hp).lastOff_eq
    have h4 := hj.closedLe p.1 (g.mem_closed hp)
    have h5 := hj.openId_lt
    simp only [Closed.id] at h2
    omega
  · have h2 := (opsFrom_off_lt h1).2.1
    have h3 := g.openRecs.lastOff_eq
    simp only [Store.openEnd, Store.openId] at h2 h3 ⊢
    omega

/-- The whole retained journal, flat: from the empty state and index map to
`(s.st, s.log)`. -/
theorem RepG.flat_run {s : Store} {fs : Fs} {w : Worker} {jc : List (Closed × List Record)}
    {jo : List Record} (g : RepG s fs w jc jo) :
    stRunO (allOps s jc jo) {} = some s.st ∧ idxRun (allOps s jc jo) [] = some s.log := by
  obtain ⟨stC, lC, g1, g2, g3, _⟩ := g.run
  constructor
  · rw [stRunO, allOps_map_r, stRun_append, g1.st]; exact g2
  · rw [allOps, idxRun_append, g1.idx]; exact g3

theorem RepG.tail_run {s : Store} {fs : Fs} {w : Worker} {jc : List (Closed × List Record)}
    {jo : List Record} (g : RepG s fs w jc jo) {hd : JOp} {tl : List JOp} {x : RState}
    (h : allOps s jc jo = hd :: tl) (hx : hd.r = .state x) :
    stRunO tl x = some s.st ∧ idxRun tl [] = some s.log := by
  obtain ⟨k1, k2⟩ := g.flat_run
  rw [h] at k1 k2
  rw [stRunO_cons, hx] at k1
  simp only [idxRun, hx, idxLogO] at k2
  exact ⟨k1, k2⟩

/-- One more record at the end of the journal. -/
theorem RunG.snoc {s s3 : Store} {fs : Fs} {w : Worker} {jc jc3 : List (Closed × List Record)}
    {jo jo3 : List Record} (gr : RunG s jc jo) (g : RepG s fs w jc jo) {op : JOp}
    (hops : allOps s3 jc3 jo3 = allOps s jc jo ++ [op]) (hck : RecCheck op.r s.st s.log) :
    RunG s3 jc3 jo3 := by
  intro hd tl h x hx
  rw [hops] at h
  cases ha : allOps s jc jo with
  | nil =>
    rw [ha] at h
    simp only [List.nil_append, List.cons.injEq] at h
    rw [← h.2]; trivial
  | cons hd0 tl0 =>
    rw [ha] at h
    simp only [List.cons_append, List.cons.injEq] at h
    obtain ⟨e1, e2⟩ := h
    subst e1
    rw [← e2]
    obtain ⟨k1, k2⟩ := g.tail_run ha hx
    refine RunOK_append.mpr ⟨gr hd0 tl0 ha x hx, fun st' l' h1 h2 => ?_⟩
    rw [k1] at h1; rw [k2] at h2
    injection h1 with h1; injection h2 with h2
    subst h1; subst h2
    exact ⟨hck, fun _ _ _ _ => trivial⟩

/-! ### Journalling one record -/

theorem chunkBytes_journal {s s3 : Store} (fs : Fs) (w : Worker) {x : Nat} {bs : Bytes}
    (hne : s.openOffsets ≠ []) (hoff : s3.openOffsets = s.openOffsets ++ [x])
    (hp : s3.pending = s.pending ++ bs) (id : Nat) :
    chunkBytes s3 fs w id = chunkBytes s fs w id ++ (if s.openId = id then bs else []) := by
  have e1 : s3.openId = s.openId := by
    simp only [Store.openId, hoff]; exact headD_append_of_ne_nil hne _
  simp only [chunkBytes, e1, hp]
  by_cases h : s.openId = id <;> simp [h]

theorem Rep.journal {s s3 : Store} {fs : Fs} {w : Worker} {r : Record} {rl rl' : RefLog}
    (h : Rep s fs w rl)
    (hj : JInv s fs w) (hr : r.WF)
    (hoff : s3.openOffsets = s.openOffsets ++ [s.openEnd + (encRecord r).length])
    (hp : s3.pending = s.pending ++ encRecord r) (hc : s3.closed = s.closed)
    (hst : s.st.apply r = .ok s3.st)
    (hlog : idxLogO r s.openId ⟨s.openEnd, (encRecord r).length⟩ s.log = some s3.log)
    (hpay : ∀ e ∈ s3.log,
      (e ∈ s.log ∧ ∀ p, (e.2.id, p) ∈ rl.entries → (e.2.id, p) ∈ rl'.entries) ∨
      (e.2.off = s.openEnd ∧ e.2.chunk = s.openId ∧ ∃ p, r = .append e.2.id p))
    (hnew : ∀ id p, r = .append id p → (id, p) ∈ rl'.entries)
    (hck : RecCheck r s.st s.log) :
    Rep s3 fs w rl' := by
  obtain ⟨jc, jo, g, gp, gr⟩ := h
  have hne := hj.openBytes.ne_nil
  have e1 : s3.openId = s.openId := by
    simp only [Store.openId, hoff]; exact headD_append_of_ne_nil hne _
  have hb := chunkBytes_journal (s := s) (s3 := s3) fs w hne hoff hp
  have hend : s.openId + (encAll jo).length = s.openEnd := by
    have := g.openRecs.lastOff_eq
    simp only [Store.openEnd, Store.openId] at this ⊢
    omega
  have hops : allOps s3 jc (jo ++ [r]) = allOps s jc jo ++
      [⟨r, s.openId, ⟨s.openEnd, (encRecord r).length⟩⟩] := by
    simp only [allOps, e1, chunkOps_snoc, hend, List.append_assoc]
  refine ⟨jc, jo ++ [r], ⟨by rw [hc]; exact g.closedEq, ?_, ?_, ?_⟩, ?_, gr.snoc g hops hck⟩
  · intro p hp'
    have hlt := hj.closed_lt (g.mem_closed hp')
    have hne' : ¬ s.openId = p.1.id := by omega
    rw [hb, if_neg hne', List.append_nil]
    exact g.closedRecs p hp'
  · rw [hoff, e1, hb, if_pos rfl]
    exact g.openRecs.snoc hr
  · obtain ⟨stC, lC, g1, g2, g3, g4⟩ := g.run
    refine ⟨stC, lC, g1, ?_, ?_, ?_⟩
    · rw [stRun_append, g2]
      simp only [Option.bind_some, stRun, hst]
    · rw [e1, chunkOps_snoc, idxRun_append, g3]
      simp only [Option.bind_some, idxRun, hend, hlog]
    · intro hne2
      obtain ⟨tl, htl⟩ := g4 hne2
      exact ⟨tl ++ [r], by rw [htl]; rfl⟩
  · intro e he p hop
    rw [hops] at hop
    rcases List.mem_append.mp hop with h1 | h1
    · rcases hpay e he with ⟨k1, k2⟩ | ⟨k1, _, _⟩
      · exact k2 p (gp e k1 p h1)
      · have := g.ops_off_lt hj _ h1
        simp only [opAt] at this
        omega
    · simp only [List.mem_singleton, opAt, JOp.mk.injEq] at h1
      exact hnew _ _ h1.1.symm

/-! ### Chunk rotation -/

theorem rotate_bytes {s s' : Store} {fs : Fs} {w : Worker} (h : JInv s fs w)
    (hoff : s'.openOffsets = [s.openEnd, s.openEnd + (encRecord (.state s.st)).length])
    (hpend : s'.pending = []) :
    (∀ id, id ≠ s.openEnd →
      chunkBytes s' ((fs.create s.openEnd).write s.openEnd (encRecord (.state s.st)))
        (w.push ((if s.pending.isEmpty then [] else [.write s.openEnd s.pending none]) ++
          [.appendFile s.openEnd s.st.last])) id = chunkBytes s fs w id) ∧
    chunkBytes s' ((fs.create s.openEnd).write s.openEnd (encRecord (.state s.st)))
        (w.push ((if s.pending.isEmpty then [] else [.write s.openEnd s.pending none]) ++
          [.appendFile s.openEnd s.st.last])) s.openEnd = encRecord (.state s.st) := by
  generalize hN : s.openEnd = newId at *
  generalize hH : encRecord (.state s.st) = head at *
  generalize hfs' : (fs.create newId).write newId head = fs'
  generalize hw' : w.push ((if s.pending.isEmpty then [] else [.write newId s.pending none]) ++
        [.appendFile newId s.st.last]) = w'
  have hlt : s.openId < newId := by rw [← hN]; exact h.openId_lt
  have e1 : s'.openId = newId := by simp [Store.openId, hoff]
  have hfd_ne : ∀ i, i ≠ newId → fdata fs' i = fdata fs i := by
    intro i hi
    have hi' : ¬ newId = i := fun e => hi e.symm
    rw [← hfs', fdata_write _ _ _ _ (Fs.ids_create_self fs newId), fdata_create_ne fs hi]
    simp [hi']
  have hfd_new : fdata fs' newId = head := by
    rw [← hfs', fdata_write _ _ _ _ (Fs.ids_create_self fs newId), fdata_create_self]
    simp
  have hinf : ∀ id, w'.inflight id = w.inflight id ++ (if s.openId = id then s.pending else []) := by
    intro id
    rw [← hw']
    by_cases hp : s.pending.isEmpty = true
    · have hp' : s.pending = [] := by simpa using hp
      simp only [hp, if_true, List.nil_append]
      rw [(w.push_appendFile newId s.st.last id).1, hp']
      simp
    · rw [if_neg hp]
      rw [← Worker.push_push]
      rw [((w.push [.write newId s.pending none]).push_appendFile newId s.st.last id).1]
      exact (w.push_write newId s.pending none s.openId h.annLast id).1
  have hnew_notann : newId ∉ w.announced := by
    intro hm; have := h.ann_le _ hm; omega
  have hinf_new : w'.inflight newId = [] := by
    rw [hinf, w.inflight_not_announced newId hnew_notann]
    have : ¬ s.openId = newId := by omega
    simp [this]
  constructor
  · intro id hid
    have hne : ¬ newId = id := fun e => hid e.symm
    simp only [chunkBytes, e1, hne, if_false, List.append_nil]
    rw [hfd_ne id hid, hinf, List.append_assoc]
  · simp only [chunkBytes, e1, if_true]
    rw [hfd_new, hinf_new, hpend]
    simp

theorem Rep.rotate {s s' : Store} {fs : Fs} {w : Worker} {r : RefLog} (h : Rep s fs w r)
    (hj : JInv s fs w)
    (hbelow : ∀ e ∈ s.log, optLe (some e.2.id) s.st.last = true)
    (hst : s'.st = s.st) (hlog : s'.log = s.log)
    (hoff : s'.openOffsets = [s.openEnd, s.openEnd + (encRecord (.state s.st)).length])
    (hpend : s'.pending = []) (hclosed : s'.closed = s.closed ++ [⟨s.openOffsets, s.st⟩]) :
    Rep s' ((fs.create s.openEnd).write s.openEnd (encRecord (.state s.st)))
      (w.push ((if s.pending.isEmpty then [] else [.write s.openEnd s.pending none]) ++
        [.appendFile s.openEnd s.st.last])) r := by
  obtain ⟨jc, jo, g, gp, gr⟩ := h
  obtain ⟨hb1, hb2⟩ := rotate_bytes hj hoff hpend
  have hlt := hj.openId_lt
  have e1 : s'.openId = s.openEnd := by simp [Store.openId, hoff]
  have hops : allOps s' (jc ++ [(⟨s.openOffsets, s.st⟩, jo)]) [.state s.st] = allOps s jc jo ++
      [⟨.state s.st, s.openEnd, ⟨s.openEnd, (encRecord (.state s.st)).length⟩⟩] := by
    simp only [allOps, flatOps_append, flatOps, List.append_nil, e1, chunkOps, opsFrom,
      List.append_assoc]
    rfl
  refine ⟨jc ++ [(⟨s.openOffsets, s.st⟩, jo)], [.state s.st], ⟨?_, ?_, ?_, ?_⟩, ?_,
    gr.snoc g hops (show RecCheck (Record.state s.st) s.st s.log from rfl)⟩
  · rw [hclosed, List.map_append, g.closedEq]; rfl
  · intro p hp
    rcases List.mem_append.mp hp with h1 | h1
    · have := hj.closed_lt (g.mem_closed h1)
      rw [hb1 _ (by omega)]
      exact g.closedRecs p h1
    · simp only [List.mem_singleton] at h1
      subst h1
      show ChunkRecs s.openOffsets jo (chunkBytes s' _ _ s.openId)
      rw [hb1 _ (by omega)]
      exact g.openRecs
  · rw [hoff, e1, hb2]
    exact ChunkRecs.fresh s.openEnd hj.stWF
  · obtain ⟨stC, lC, g1, g2, g3, g4⟩ := g.run
    refine ⟨s.st, s.log, g1.snoc g2 g3 rfl hbelow g4, ?_, ?_, fun _ => ⟨[], rfl⟩⟩
    · rw [hst]; simp [stRun, RState.apply]
    · rw [hlog]; simp [chunkOps, opsFrom, idxRun, idxLogO]
  · apply gp.mono hlog
    intro op hop happ
    rw [hops] at hop
    rcases List.mem_append.mp hop with h1 | h1
    · exact h1
    · obtain ⟨id, p, hid⟩ := happ
      simp only [List.mem_singleton] at h1
      rw [h1] at hid
      cases hid

theorem Rep.tryCloseFull {s s' : Store} {fs : Fs} {w : Worker} {fsHas : Nat → Bool} {r : RefLog}
    {effs : List Eff} (h : Rep s fs w r) (hj : JInv s fs w)
    (hbelow : ∀ e ∈ s.log, optLe (some e.2.id) s.st.last = true)
    (heq : s.tryCloseFull fsHas = (.ok (), s', effs)) :
    Rep s' (effFs effs fs) (w.push (effQ effs)) r := by
  unfold Store.tryCloseFull at heq
  by_cases hf : s.isOpenFull = true
  · by_cases he : fsHas s.openEnd = true
    · simp [hf, he] at heq
    · simp only [hf, he, Bool.not_true, Bool.false_eq_true, if_false, Prod.mk.injEq, true_and] at heq
      obtain ⟨rfl, rfl⟩ := heq
      have e1 : effFs ([Eff.create s.openEnd, Eff.writeHead s.openEnd (encRecord (.state s.st))] ++
          (if s.pending.isEmpty then [] else [Eff.send (.write s.openEnd s.pending none)]) ++
          [Eff.send (.appendFile s.openEnd s.st.last)]) fs
          = (fs.create s.openEnd).write s.openEnd (encRecord (.state s.st)) := by
        by_cases hp : s.pending.isEmpty = true <;> simp [effFs, hp]
      have e2 : effQ ([Eff.create s.openEnd, Eff.writeHead s.openEnd (encRecord (.state s.st))] ++
          (if s.pending.isEmpty then [] else [Eff.send (.write s.openEnd s.pending none)]) ++
          [Eff.send (.appendFile s.openEnd s.st.last)])
          = (if s.pending.isEmpty then [] else [.write s.openEnd s.pending none]) ++
            [.appendFile s.openEnd s.st.last] := by
        by_cases hp : s.pending.isEmpty = true <;> simp [effQ, hp]
      rw [e1, e2]
      exact h.rotate hj hbelow rfl rfl rfl rfl rfl
  · simp only [hf, Bool.not_false, if_true, Prod.mk.injEq, true_and] at heq
    obtain ⟨rfl, rfl⟩ := heq
    simpa [effFs, effQ] using h

/-! ### Purge: dropping closed chunks from the front -/

theorem Rep.pop {s s2 : Store} {fs : Fs} {w : Worker} {r : RefLog} (h : Rep s fs w r) (upto : LogId)
    (habove : ∀ e ∈ s.log, optLt (some upto) (some e.2.id) = true)
    (h1 : s2.st = s.st) (h2 : s2.log = s.log) (h3 : s2.openOffsets = s.openOffsets)
    (h4 : s2.pending = s.pending) (h5 : s2.closed = (popObsolete upto s.closed).2) :
    Rep s2 fs w r := by
  obtain ⟨jc, jo, g, gp, gr⟩ := h
  obtain ⟨stC, lC, g1, g2, g3, g4⟩ := g.run
  obtain ⟨jc', stC', lC', m1, m2, m3, m4, m5, m6, pre, m7⟩ :=
    RepC.pop upto g.openRecs.2.1 habove jc stC lC g1 g2 g3 g.heads
  have e1 : s2.openId = s.openId := by simp [Store.openId, h3]
  have hb : ∀ id, chunkBytes s2 fs w id = chunkBytes s fs w id :=
    fun id => chunkBytes_congr fs w id h3 h4
  refine ⟨jc', jo, ⟨by rw [h5, ← g.closedEq]; exact m1, ?_, by rw [h3, e1, hb]; exact g.openRecs,
    ⟨stC', lC', m3, by rw [h1]; exact m4, by rw [e1, h2]; exact m5, ?_⟩⟩, ?_, ?_⟩
  · intro p hp
    rw [hb]
    exact g.closedRecs p (m2 p hp)
  · intro hne
    rw [m6 hne]
    apply g4
    intro e
    subst e
    cases jc' with
    | nil => exact hne rfl
    | cons q _ => exact absurd (m2 q List.mem_cons_self) (by simp)
  · apply gp.mono h2
    intro op hop _
    simp only [allOps, e1, List.mem_append] at hop ⊢
    rcases hop with k | k
    · obtain ⟨q, hq, hop'⟩ := mem_flatOps.mp k
      exact Or.inl (mem_flatOps.mpr ⟨q, m2 q hq, hop'⟩)
    · exact Or.inr k
  · -- the checks along the retained part
    have hsplit : allOps s jc jo = flatOps pre ++ allOps s2 jc' jo := by
      simp only [allOps, m7, flatOps_append, e1, List.append_assoc]
    intro hd tl hall x hx
    cases hpre : flatOps pre with
    | nil =>
      rw [hpre, List.nil_append] at hsplit
      exact gr hd tl (by rw [hsplit]; exact hall) x hx
    | cons hd0 A =>
      rw [hpre, hall] at hsplit
      -- the dropped part starts with a `State` record as well
      have hhd0 : ∃ x0, hd0.r = .state x0 := by
        cases pre with
        | nil => simp [flatOps] at hpre
        | cons q pre' =>
          obtain ⟨c0, rs0⟩ := q
          obtain ⟨x0, tl0, hx0⟩ := g.heads (c0, rs0) (by rw [m7]; simp)
          simp only at hx0
          subst hx0
          simp only [flatOps, chunkOps, opsFrom, List.cons_append, List.cons.injEq] at hpre
          exact ⟨x0, by rw [← hpre.1]⟩
      obtain ⟨x0, hx0⟩ := hhd0
      have hall0 : allOps s jc jo = hd0 :: (A ++ hd :: tl) := by rw [hsplit]; rfl
      have hok := gr hd0 (A ++ hd :: tl) hall0 x0 hx0
      obtain ⟨k1, k2⟩ := g.tail_run hall0 hx0
      obtain ⟨stA, ka1, ka2⟩ := stRunO_prefix k1
      obtain ⟨lA, kb1, kb2⟩ := idxRun_prefix k2
      have hB := (RunOK_append.mp hok).2 stA lA ka1 kb1
      obtain ⟨_, hB2⟩ := hB
      have hB3 := hB2 x lA (by rw [hx]; rfl) (by rw [hx]; rfl)
      exact hB3.mono SortedLog.nil (fun e he => by cases he)

/-! ### The combined invariant -/

structure RInv (s : Store) (fs : Fs) (w : Worker) (r : RefLog) : Prop where
  j : JInv s fs w
  abs : Abs s r
  rep : Rep s fs w r

/-- What `appendAndApply` computes on the accepted path. -/
theorem appendAndApply_shape (s : Store) (fsHas : Nat → Bool) {rec : Record} {st' : RState}
    (hst : s.st.apply rec = .ok st') (hr : rec.small) :
    s.appendAndApply fsHas rec =
      match Store.tryCloseFull ({ s with
          pending := s.pending ++ encRecord rec,
          openOffsets := s.openOffsets ++ [s.openEnd + (encRecord rec).length],
          log := idxLog rec (Store.openId { s with pending := s.pending ++ encRecord rec, openOffsets := s.openOffsets ++ [s.openEnd + (encRecord rec).length] }) ⟨s.openEnd, (encRecord rec).length⟩ s.log,
          cache := idxCache rec s.cache, st := st' } : Store) fsHas with
      | (.ok (), s4, effs) => (.ok ⟨s.openEnd, (encRecord rec).length⟩, s4, effs)
      | (.err k, s4, effs) => (.err k, s4, effs)
      | (.panic m, s4, effs) => (.panic m, s4, effs) := by
  unfold Store.appendAndApply
  simp only [hst]
  rw [applyIndex_eq _ hr]
  rfl

theorem idxLogO_of_small {rec : Record} (hr : rec.small) (chunk : Nat) (seg : Seg) (l : Log) :
    idxLogO rec chunk seg l = some (idxLog rec chunk seg l) := by
  cases rec with
  | saveVote v => rfl
  | commit id => rfl
  | state x => rfl
  | append id p => rfl
  | truncateAfter o =>
    have := nextIndexChecked_eq (o := o) hr
    simp [idxLogO, idxLog, this]
  | purgeUpto id =>
    have := nextIndexChecked_eq (o := some id) hr
    simp [idxLogO, idxLog, this, nextIndex]

/-- **One journalled record keeps the invariant** (with rotation if the chunk
is full). -/
theorem rinv_step {s : Store} {fs : Fs} {w : Worker} {r r' : RefLog} (fsHas : Nat → Bool)
    {rec : Record} (h : RInv s fs w r) (hfs : ∀ i, s.openEnd ≤ i → fsHas i = false)
    (ok : StepOK s r r' rec) (hwf : rec.WF) :
    ∃ s' effs, s.appendAndApply fsHas rec = (.ok ⟨s.openEnd, (encRecord rec).length⟩, s', effs) ∧
      RInv s' (effFs effs fs) (w.push (effQ effs)) r' ∧ s.openEnd ≤ s'.openEnd ∧
      (∀ i, Eff.create i ∈ effs → s.openEnd ≤ i ∧ i < s'.openEnd) := by
  obtain ⟨s', effs, heq, habs⟩ := abs_step fsHas h.abs hfs ok
  have hg := appendAndApply_J fsHas h.j hwf hfs
  rw [heq] at hg
  refine ⟨s', effs, heq, ⟨hg.inv, habs, ?_⟩, hg.openEnd, hg.creates⟩
  -- the replay part
  have hshape := appendAndApply_shape s fsHas ok.hst ok.small
  have hne := h.j.openBytes.ne_nil
  generalize hs3 : ({ s with
      pending := s.pending ++ encRecord rec,
      openOffsets := s.openOffsets ++ [s.openEnd + (encRecord rec).length],
      log := idxLog rec (Store.openId { s with pending := s.pending ++ encRecord rec, openOffsets := s.openOffsets ++ [s.openEnd + (encRecord rec).length] }) ⟨s.openEnd, (encRecord rec).length⟩ s.log,
      cache := idxCache rec s.cache, st := r'.state } : Store) = s3 at hshape
  have f1 : s3.pending = s.pending ++ encRecord rec := by rw [← hs3]
  have f2 : s3.openOffsets = s.openOffsets ++ [s.openEnd + (encRecord rec).length] := by rw [← hs3]
  have f3 : s3.closed = s.closed := by rw [← hs3]
  have f4 : s3.st = r'.state := by rw [← hs3]
  have hid : Store.openId { s with pending := s.pending ++ encRecord rec, openOffsets := s.openOffsets ++ [s.openEnd + (encRecord rec).length] } = s.openId := by
    simp only [Store.openId]; exact headD_append_of_ne_nil hne _
  have f5 : s3.log = idxLog rec s.openId ⟨s.openEnd, (encRecord rec).length⟩ s.log := by
    rw [← hs3, hid]
  have hstWF : s3.st.WF := by rw [f4]; exact apply_wf h.j.stWF hwf ok.hst
  have hlogWF : ∀ e ∈ s3.log, e.2.id.WF := by
    obtain ⟨x, _, _, _, _⟩ := applyIndex_fields (s := s) (chunk := s.openId)
      (seg := ⟨s.openEnd, (encRecord rec).length⟩) hwf h.j.logWF (applyIndex_eq s ok.small _ _)
    rw [f5]; exact x
  obtain ⟨hj3, e1, e2, _⟩ := h.j.journal (s3 := s3) (r := rec) hwf hstWF hlogWF f2 f1 f3
  have hrep3 : Rep s3 fs w r' :=
    h.rep.journal h.j hwf f2 f1 f3 (by rw [f4]; exact ok.hst)
      (by rw [f5]; exact idxLogO_of_small ok.small _ _ _)
      (by rw [f5]; exact ok.pay s.openId ⟨s.openEnd, (encRecord rec).length⟩) ok.newEntry ok.check
  have hfs3 : fsHas s3.openEnd = false := hfs _ (by rw [e2]; omega)
  obtain ⟨s4, effs4, heq4, g1, g2, _, _, _⟩ := tryCloseFull_ok s3 fsHas hfs3
  rw [heq4] at hshape
  rw [hshape] at heq
  simp only [Prod.mk.injEq, true_and] at heq
  obtain ⟨rfl, rfl⟩ := heq
  have hbelow : ∀ e ∈ s3.log, optLe (some e.2.id) s3.st.last = true := by
    have := habs.log_below
    rw [g1, g2] at this
    exact this
  exact hrep3.tryCloseFull hj3 hbelow heq4

end RaftLog
