/-
LIFT, part 4: "a positive callback means durable" (`Props/C04Sys.lean`) for histories that
start from ANY system satisfying the crash invariant (a recovered system, a restarted
system, any continuation), instead of a freshly opened store.

All names carry the suffix `_LIFT`.
-/
import RaftLogModel.Props.C04Sys
import RaftLogModel.Proofs.LiftRestart
namespace RaftLog

/-- `acked_flush_C3` from any start: the worker is well-formed, a store is live, and no
request the worker holds at the start carries callback `i`. -/
theorem acked_flush_LIFT (y : Sys) (A0 : Nat) (pre mid post : List Step) (i : Nat) (st : Step)
    (s1 : Store) (hwf0 : SysWF y) (hsome : y.store.isSome = true)
    (htag0 : Tagged i (fun _ => False) y.worker)
    (hpre : ∀ x ∈ pre, x.journal = true) (hmid : ∀ x ∈ mid, x.journal = true)
    (hfresh : ∀ x ∈ pre ++ mid, x ≠ .flush (some i))
    (hs1 : (y.run pre).store = some s1)
    (halive : (y.run (pre ++ [.flush (some i)] ++ mid)).worker.pc ≠ .dead)
    (hcb : Ev.cb i true ∈ (y.run (pre ++ [.flush (some i)] ++ mid)).stepEvs st) :
    s1.openEnd ≤ y.ackRun (pre ++ [.flush (some i)] ++ mid ++ [st] ++ post) A0 := by
  have hrun : y.run (pre ++ [.flush (some i)] ++ mid)
      = ((y.run pre).step (.flush (some i))).run mid := by
    simp [Sys.run, List.foldl_append]
  rw [hrun] at halive hcb
  have hfj : (Step.flush (some i)).journal = true := rfl
  have hd2 : ((y.run pre).step (.flush (some i))).worker.pc ≠ .dead := by
    intro hdead
    exact halive (Sys.run_dead mid _ hmid hdead)
  have hd1 : (y.run pre).worker.pc ≠ .dead := by
    intro hdead
    exact hd2 (Sys.step_dead _ _ hfj hdead)
  have t1 : Tagged i (fun _ => False) (y.run pre).worker :=
    Tagged.sys_run (Q := fun _ => False) pre y hpre
      (fun x hx => hfresh x (List.mem_append_left _ hx)) hsome hd1 htag0
  have t2 := Tagged.sys_flush hs1 hd1 t1
  have hsome2 : ((y.run pre).step (.flush (some i))).store.isSome = true :=
    Sys.step_store_isSome rfl (by rw [hs1]; rfl)
  have t3 := Tagged.sys_run mid _ hmid (fun x hx => hfresh x (List.mem_append_right _ hx)) hsome2
    halive t2
  have hwf : SysWF (((y.run pre).step (.flush (some i))).run mid) := by
    rw [← hrun]; exact hwf0.run _
  have key := ack_reaches_sys_C3 hwf t3 st
    (y.ackRun (pre ++ [.flush (some i)] ++ mid) A0) hcb
  have e1 : y.ackRun (pre ++ [.flush (some i)] ++ mid ++ [st] ++ post) A0
      = ((y.run (pre ++ [.flush (some i)] ++ mid)).step st).ackRun post
          ((y.run (pre ++ [.flush (some i)] ++ mid)).ackStep st
            (y.ackRun (pre ++ [.flush (some i)] ++ mid) A0)) := by
    rw [List.append_assoc _ [st] post, Sys.ackRun_append]
    rfl
  rw [e1, hrun]
  exact Nat.le_trans key (Sys.le_ackRun _ _ _)

/-- Every live chunk file is written and durable up to the acknowledged position. -/
theorem acked_is_durable_LIFT {y : Sys} {r : RefLog} {W : List Op} {A E K : Nat}
    (h : CrashInvC5b y r W A E K) :
    ∃ s, y.store = some s ∧ A ≤ s.openEnd ∧
      (∀ offs ∈ s.chunks,
        min (lastOff offs - offs.headD 0) (A - offs.headD 0) ≤ (fdata y.fs (offs.headD 0)).length) ∧
      (∀ offs ∈ s.chunks, ∀ f, y.fs.find (offs.headD 0) = some f →
        min (lastOff offs - offs.headD 0) (A - offs.headD 0) ≤ f.durable) := by
  obtain ⟨B, ⟨⟨s, hs, _, hi⟩, _, _, _⟩, _, _, _⟩ := h
  exact ⟨s, hs, hi.dur.a2, hi.dur.dw, hi.dur.dd⟩

end RaftLog
