/-
C03, part 3 (continued): the history invariant `HInv` under every journalled
record, every public call, flush, worker step and `drain`, and along whole
histories from a freshly opened store.
-/
import RaftLogModel.Proofs.CrashDurCaller
namespace RaftLog

/-- **The history invariant**: the replay invariant, the writes `W` reach the
reference log, and every journal prefix ending at or beyond `B` mirrors a
prefix of `W`. -/
structure HInv (s : Store) (fs : Fs) (w : Worker) (r : RefLog) (W : List Op) (B A E K : Nat) : Prop where
  inv : RInv s fs w r
  run : RefLog.run {} W = some r
  hist : ∃ jc jo, RepG s fs w jc jo ∧ HistG (allOps s jc jo) s.jstart W B E K
  mark : B = 0 ∨ 0 < s.jstart
  markLe : B ≤ s.openEnd
  /-- the durability invariant for the acknowledged position `A` -/
  dur : DInv s fs w A

/-- The marker after a call: the journal end if the call scheduled chunk files
for removal (took chunks out of the chunk table), unchanged otherwise. -/
def markAfter (s s' : Store) (B : Nat) : Nat :=
  if s'.removed.length = s.removed.length then B else s'.openEnd

theorem jstart_congr_C3 {s s2 : Store} (h3 : s2.openOffsets = s.openOffsets) (h5 : s2.closed = s.closed) :
    s2.jstart = s.jstart := by
  simp only [Store.jstart, h5, Store.openId, h3]

theorem HInv.transport {s s2 : Store} {fs fs2 : Fs} {w w2 : Worker} {r : RefLog} {W : List Op}
    {B A E K A2 : Nat} (h : HInv s fs w r W B A E K) (hinv : RInv s2 fs2 w2 r)
    (h1 : s2.st = s.st) (h2 : s2.log = s.log) (h3 : s2.openOffsets = s.openOffsets)
    (h5 : s2.closed = s.closed)
    (hb : ∀ id, chunkBytes s2 fs2 w2 id = chunkBytes s fs w id) (hd : DInv s2 fs2 w2 A2) :
    HInv s2 fs2 w2 r W B A2 E K := by
  obtain ⟨jc, jo, g, hg⟩ := h.hist
  have e1 : s2.openId = s.openId := by simp [Store.openId, h3]
  have e2 : allOps s2 jc jo = allOps s jc jo := by simp [allOps, e1]
  have e3 : s2.openEnd = s.openEnd := by simp [Store.openEnd, h3]
  refine ⟨hinv, h.run, ⟨jc, jo, g.transport h1 h2 h3 h5 hb, ?_⟩, ?_, by rw [e3]; exact h.markLe, hd⟩
  · rw [e2, jstart_congr_C3 h3 h5]; exact hg
  · rw [jstart_congr_C3 h3 h5]; exact h.mark

/-! ### One journalled record -/

theorem hinv_step {s : Store} {fs : Fs} {w : Worker} {r r' : RefLog} {W Wn : List Op} {B A E K : Nat}
    (fsHas : Nat → Bool) {rec : Record} (h : HInv s fs w r W B A E K)
    (hfs : ∀ i, s.openEnd ≤ i → fsHas i = false) (ok : StepOK s r r' rec) (hwf : rec.WF)
    (hw : r.run Wn = some r') (hlen : Wn.length = 1) :
    ∃ s' effs, s.appendAndApply fsHas rec = (.ok ⟨s.openEnd, (encRecord rec).length⟩, s', effs) ∧
      HInv s' (effFs effs fs) (w.push (effQ effs)) r' (W ++ Wn) B A E K ∧ s.openEnd ≤ s'.openEnd ∧
      (∀ i, Eff.create i ∈ effs → s.openEnd ≤ i ∧ i < s'.openEnd) ∧ s'.removed = s.removed := by
  obtain ⟨s', effs, heq, hinv', hend, hcr⟩ := rinv_step fsHas h.inv hfs ok hwf
  refine ⟨s', effs, heq, ?_, hend, hcr, ?_⟩
  all_goals
    have hshape := appendAndApply_shape s fsHas ok.hst ok.small
    have hne := h.inv.j.openBytes.ne_nil
    generalize hs3 : ({ s with
        pending := s.pending ++ encRecord rec,
        openOffsets := s.openOffsets ++ [s.openEnd + (encRecord rec).length],
        log := idxLog rec (Store.openId { s with pending := s.pending ++ encRecord rec, openOffsets := s.openOffsets ++ [s.openEnd + (encRecord rec).length] }) ⟨s.openEnd, (encRecord rec).length⟩ s.log,
        cache := idxCache rec s.cache, st := r'.state } : Store) = s3 at hshape
    have f1 : s3.pending = s.pending ++ encRecord rec := by rw [← hs3]
    have f2 : s3.openOffsets = s.openOffsets ++ [s.openEnd + (encRecord rec).length] := by rw [← hs3]
    have f3 : s3.closed = s.closed := by rw [← hs3]
    have f4 : s3.st = r'.state := by rw [← hs3]
    have f6 : s3.removed = s.removed := by rw [← hs3]
    have hid : Store.openId { s with pending := s.pending ++ encRecord rec, openOffsets := s.openOffsets ++ [s.openEnd + (encRecord rec).length] } = s.openId := by
      simp only [Store.openId]; exact headD_append_of_ne_nil hne _
    have f5 : s3.log = idxLog rec s.openId ⟨s.openEnd, (encRecord rec).length⟩ s.log := by
      rw [← hs3, hid]
    have hstWF : s3.st.WF := by rw [f4]; exact apply_wf h.inv.j.stWF hwf ok.hst
    have hlogWF : ∀ e ∈ s3.log, e.2.id.WF := by
      obtain ⟨x, _, _, _, _⟩ := applyIndex_fields (s := s) (chunk := s.openId)
        (seg := ⟨s.openEnd, (encRecord rec).length⟩) hwf h.inv.j.logWF (applyIndex_eq s ok.small _ _)
      rw [f5]; exact x
    obtain ⟨hj3, e1, e2, _⟩ := h.inv.j.journal (s3 := s3) (r := rec) hwf hstWF hlogWF f2 f1 f3
    have hfs3 : fsHas s3.openEnd = false := hfs _ (by rw [e2]; omega)
    obtain ⟨s4, effs4, heq4, g1, g2, _, g4, _⟩ := tryCloseFull_ok s3 fsHas hfs3
    rw [heq4] at hshape
    rw [hshape] at heq
    simp only [Prod.mk.injEq, true_and] at heq
    obtain ⟨rfl, rfl⟩ := heq
  · -- the history part
    obtain ⟨jc, jo, g, hg⟩ := h.hist
    obtain ⟨g3, hops3⟩ := g.journal_C3 h.inv.j hwf f2 f1 f3 (by rw [f4]; exact ok.hst)
      (by rw [f5]; exact idxLogO_of_small ok.small _ _ _)
    have hrun : RefLog.run {} (W ++ Wn) = some r' := by
      rw [RefLog.run_append, h.run]; exact hw
    have hjs3 : s3.jstart = s.jstart := by simp only [Store.jstart, f3, e1]
    have hist3 : HistG (allOps s3 jc (jo ++ [rec])) s.jstart (W ++ Wn) B E K := by
      have hm := mirrors_full_C3 g3 f4 (by rw [f5]; exact ok.hlog _ _) hrun
      rw [hops3] at hm ⊢
      refine hg.snoc ?_ hm
      have hlt := h.inv.j.openId_lt
      have : (JOp.isHead ⟨rec, s.openId, ⟨s.openEnd, (encRecord rec).length⟩⟩) = false := by
        simp only [JOp.isHead, beq_eq_false_iff_ne, ne_eq]; omega
      rw [this]; exact hlen
    have hbelow : ∀ e ∈ s3.log, optLe (some e.2.id) s3.st.last = true := by
      have := hinv'.abs.log_below
      rw [g1, g2] at this
      exact this
    obtain ⟨jc4, jo4, g4', hjs4, _, hops4⟩ := g3.tryCloseFull_C3 hj3 hbelow heq4
    have hd3 : DInv s3 fs w A :=
      h.dur.journal h.inv.j f2 (Nat.le_add_right _ _) f3
    refine ⟨hinv', hrun, ⟨jc4, jo4, g4', ?_⟩, ?_, ?_, hd3.tryCloseFull hj3 heq4⟩
    · rw [hjs4, hjs3]
      rcases hops4 with e | e
      · rw [e]; exact hist3
      · have hm := mirrors_full_C3 g4' hinv'.abs.st hinv'.abs.log hrun
        rw [e] at hm ⊢
        have := hist3.snoc (Wn := []) (op := ⟨.state s3.st, s3.openEnd, ⟨s3.openEnd, (encRecord (.state s3.st)).length⟩⟩)
          (by simp [JOp.isHead]) (by rw [List.append_nil]; exact hm)
        rwa [List.append_nil] at this
    · rw [hjs4, hjs3]; exact h.mark
    · have := h.markLe; omega
  · -- the removal list is untouched
    have : s4.removed = s3.removed := by
      unfold Store.tryCloseFull at heq4
      by_cases hf : s3.isOpenFull = true
      · by_cases he : fsHas s3.openEnd = true
        · simp [hf, he] at heq4
        · simp only [hf, he, Bool.not_true, Bool.false_eq_true, if_false, Prod.mk.injEq, true_and] at heq4
          rw [← heq4.1]
      · simp only [hf, Bool.not_false, if_true, Prod.mk.injEq, true_and] at heq4
        rw [← heq4.1]
    rw [this, f6]

/-! ### Batches and calls -/

theorem appendBatch_H (es : List (LogId × Bytes)) :
    ∀ (s : Store) (r r' : RefLog) (W : List Op) (fsHas : Nat → Bool) (seg : Seg) (effs : List Eff)
      (fs : Fs) (w : Worker) (B A E K : Nat),
    HInv s (effFs effs fs) (w.push (effQ effs)) r W B A E K → (∀ i, s.openEnd ≤ i → fsHas i = false) →
    r.appendAll es = .ok r' → (∀ e ∈ es, smallId e.1) → (∀ e ∈ es, e.1.WF ∧ bytesWF e.2) →
    ∃ seg' s' effs', Store.appendBatch fsHas es s seg effs = (.ok seg', s', effs') ∧
      HInv s' (effFs effs' fs) (w.push (effQ effs')) r' (W ++ es.map (fun e => Op.append [e])) B A E K ∧
      s'.removed = s.removed := by
  induction es with
  | nil =>
    intro s r r' W fsHas seg effs fs w B A E K h _ hc _ _
    simp only [RefLog.appendAll] at hc
    injection hc with hc
    subst hc
    exact ⟨seg, s, effs, by simp [Store.appendBatch], by simpa using h, rfl⟩
  | cons e rest ih =>
    obtain ⟨id, p⟩ := e
    intro s r r' W fsHas seg effs fs w B A E K h hfs hc hsm hwf
    simp only [RefLog.appendAll] at hc
    split at hc
    · rename_i r1 hc1
      have ok := stepOK_append1 h.inv.abs hc1 (hsm (id, p) List.mem_cons_self)
      obtain ⟨s1, e1, heq1, hinv1, hend1, hcr1, hrm1⟩ :=
        hinv_step fsHas h hfs ok (hwf (id, p) List.mem_cons_self) (run_append1_C3 hc1) rfl
      rw [← effFs_append, Worker.push_push, ← effQ_append] at hinv1
      have hfs1 : ∀ i, s1.openEnd ≤ i →
          (fsHas i || e1.any (fun e => e == Eff.create i)) = false := by
        intro i hi
        have h1 : fsHas i = false := hfs i (by omega)
        have h2 : e1.any (fun e => e == Eff.create i) = false := by
          rw [List.any_eq_false]
          intro x hx hxe
          have : x = Eff.create i := by simpa using hxe
          subst this
          have := hcr1 i hx
          omega
        simp [h1, h2]
      obtain ⟨seg2, s2, e2, heq2, hinv2, hrm2⟩ :=
        ih s1 r1 r' _ _ ⟨s.openEnd, (encRecord (.append id p)).length⟩ (effs ++ e1) fs w B A E K hinv1 hfs1 hc
          (fun e he => hsm e (List.mem_cons_of_mem _ he))
          (fun e he => hwf e (List.mem_cons_of_mem _ he))
      refine ⟨seg2, s2, e2, ?_, ?_, by rw [hrm2, hrm1]⟩
      · have hidxD12 : id.index + 1 ≠ U64 := by
          have : id.index + 1 < U64 := hsm (id, p) List.mem_cons_self
          omega
        rw [appendBatch_cons_small_D12 _ _ _ _ _ _ _ hidxD12]
        rw [heq1]
        simp only
        exact heq2
      · simpa [List.append_assoc] using hinv2
    · cases hc

theorem popObsolete_nil_C3 (upto : LogId) (l : List Closed) (h : (popObsolete upto l).1 = []) :
    (popObsolete upto l).2 = l := by
  obtain ⟨pre, h1, h2⟩ := popObsolete_prefix_ids upto l
  rw [h] at h2
  have : pre = [] := List.map_eq_nil_iff.mp h2.symm
  rw [this, List.nil_append] at h1
  exact h1.symm

theorem jstart_mem_C3 (s : Store) : s.jstart ∈ s.chunkIds := by
  rw [Store.chunkIds_eq]
  unfold Store.jstart
  cases s.closed with
  | nil => simp
  | cons c rest => simp

theorem call_H {s : Store} {fs : Fs} {w : Worker} {r r' : RefLog} {W : List Op} {B A E K : Nat}
    (fsHas : Nat → Bool) {op : Op}
    (h : HInv s fs w r W B A E K) (hfs : ∀ i, s.openEnd ≤ i → fsHas i = false)
    (hl : r.legal op = true) (hc : r.call op = .ok r') (hsm : op.small) (hwf : op.WF) :
    ∃ seg s' effs, s.call fsHas op = (.ok seg, s', effs) ∧
      HInv s' (effFs effs fs) (w.push (effQ effs)) r' (W ++ op.expand1 r) (markAfter s s' B) A E K := by
  have hpu : s.st.purged = r.purged := by rw [h.inv.abs.st]; rfl
  have step : ∀ {rec : Record}, StepOK s r r' rec → rec.WF → op.expand1 r = [op] →
      ∃ seg s' effs, s.appendAndApply fsHas rec = (.ok seg, s', effs) ∧
        HInv s' (effFs effs fs) (w.push (effQ effs)) r' (W ++ op.expand1 r) (markAfter s s' B) A E K := by
    intro rec ok hw hex
    obtain ⟨s', effs, heq, hinv, _, _, hrm⟩ := hinv_step fsHas h hfs ok hw (run_single_C3 hl hc) rfl
    refine ⟨_, s', effs, heq, ?_⟩
    rw [hex]
    simp only [markAfter, hrm, if_true]
    exact hinv
  cases op with
  | saveVote v =>
    simp only [RefLog.call] at hc
    split at hc
    · rename_i hcond
      injection hc with hc; subst hc
      exact step (stepOK_plain (rec := .saveVote v) h.inv.abs
        (by simp [RState.apply, RState.updateVote, h.inv.abs.st, RefLog.state, hcond])
        (Or.inl ⟨v, rfl⟩) rfl rfl rfl) hwf rfl
    · cases hc
  | commit id =>
    simp only [RefLog.call] at hc
    split at hc
    · cases hc
    · rename_i hcond
      injection hc with hc; subst hc
      exact step (stepOK_plain (rec := .commit id) h.inv.abs
        (by simp [RState.apply, RState.commit, h.inv.abs.st, RefLog.state, hcond])
        (Or.inr (Or.inl ⟨id, rfl⟩)) rfl rfl rfl) hwf rfl
  | saveUserData d =>
    simp only [RefLog.call] at hc
    injection hc with hc; subst hc
    refine step (stepOK_plain (rec := .state { s.st with userData := d }) h.inv.abs
      (by simp [RState.apply, h.inv.abs.st, RefLog.state])
      (Or.inr (Or.inr ⟨_, rfl, rfl, rfl⟩)) rfl rfl rfl) ?_ rfl
    obtain ⟨h1, h2, h3, h4, _⟩ := h.inv.j.stWF
    exact ⟨h1, h2, h3, h4, by cases d <;> simp [Op.WF] at hwf ⊢ <;> exact hwf⟩
  | append es =>
    simp only [Store.call]
    obtain ⟨seg0, hseg⟩ := lastSegment_some h.inv.abs.pf.open2
    rw [hseg]
    simp only
    obtain ⟨seg', s', effs', heq, hinv, hrm⟩ :=
      appendBatch_H es s r r' W fsHas seg0 [] fs w B A E K (by simpa [effFs, effQ] using h) hfs hc hsm hwf
    refine ⟨seg', s', effs', heq, ?_⟩
    simp only [markAfter, hrm, if_true, Op.expand1]
    exact hinv
  | truncate idx =>
    simp only [Store.call]
    rw [nextIndexChecked_eq h.inv.abs.pf.purged]
    simp only [hpu]
    rcases RefLog.truncate_arg hc with ⟨h1, h2⟩ | ⟨h1, h2, e, he, h3⟩
    · rw [if_pos h1]
      subst h2
      exact step (stepOK_truncateAfter h.inv.abs (Or.inl rfl) (hpu ▸ h.inv.abs.pf.purged))
        (by rw [← hpu]; exact h.inv.j.stWF.2.2.2.1) rfl
    · rw [if_neg h1, if_neg h2]
      obtain ⟨d, hd, hde, hds⟩ := h.inv.abs.logGet_of_entryAt he
      rw [hd]
      simp only [hde]
      subst h3
      obtain ⟨x, hx, hxd⟩ := logGet_mem hd
      have hidwf : e.1.WF := by rw [← hde, ← hxd]; exact h.inv.j.logWF x hx
      exact step (stepOK_truncateAfter h.inv.abs (Or.inr ⟨e, (RefLog.entryAt_some he).1, rfl⟩)
        (by rw [← hde]; exact hds)) hidwf rfl
  | purge upto =>
    have hidxD12 : upto.index + 1 ≠ U64 := by
      have : upto.index + 1 < U64 := hsm
      omega
    simp only [Store.call, if_neg hidxD12]
    rw [nextIndexChecked_eq h.inv.abs.pf.purged]
    simp only [hpu]
    have hc0 := hc
    simp only [RefLog.call] at hc
    by_cases hnn : upto.index < nextIndex r.purged
    · rw [if_pos hnn]
      rw [if_pos hnn] at hc
      injection hc with hc; subst hc
      obtain ⟨seg0, hseg⟩ := lastSegment_some h.inv.abs.pf.open2
      rw [hseg]
      refine ⟨seg0, s, [], rfl, ?_⟩
      simp only [Op.expand1, if_pos hnn, List.append_nil, markAfter, if_true]
      simpa [effFs, effQ] using h
    · rw [if_neg hnn]
      rw [if_neg hnn] at hc
      injection hc with hc; subst hc
      have ok := stepOK_purgeUpto h.inv.abs hl hnn hsm
      have hex : (Op.purge upto).expand1 r = [.purge upto] := by simp [Op.expand1, hnn]
      obtain ⟨s', effs, heq, hinv, _, _, hrm⟩ := hinv_step fsHas h hfs ok hwf (run_single_C3 hl hc0) rfl
      rw [heq]
      simp only
      refine ⟨_, _, effs, rfl, ?_⟩
      rw [hex]
      generalize hfs' : effFs effs fs = fs' at hinv ⊢
      generalize hw' : w.push (effQ effs) = w' at hinv ⊢
      -- the replay invariant of the state after the pop, as in `call_R`
      obtain ⟨pre, hpre⟩ := popObsolete_suffix upto s'.closed
      have habove : ∀ e ∈ s'.log, optLt (some upto) (some e.2.id) = true := by
        intro e he
        have h1 := hinv.inv.abs.log_above e he
        have h2 : optLe (some upto) s'.st.purged = true := by
          rw [hinv.inv.abs.st]
          simp only [RefLog.state]
          by_cases h3 : optLt r.purged (some upto) = true
          · simp [h3, LogId.le_refl]
          · simp only [h3, Bool.false_eq_true, if_false]
            rw [optLe_iff_not_lt]; simpa using h3
        exact optLt_of_le_of_lt h2 h1
      suffices key : ∀ s2 : Store, s2 = ({ s' with closed := (popObsolete upto s'.closed).2, removed := s'.removed ++ (popObsolete upto s'.closed).1 } : Store) →
          HInv s2 fs' w' _ (W ++ [.purge upto]) (markAfter s s2 B) A E K from key _ rfl
      intro s2 hs2
      replace hs2 := hs2.symm
      have k1 : s2.st = s'.st := by rw [← hs2]
      have k2 : s2.log = s'.log := by rw [← hs2]
      have k3 : s2.openOffsets = s'.openOffsets := by rw [← hs2]
      have k4 : s2.pending = s'.pending := by rw [← hs2]
      have k5 : s2.closed = (popObsolete upto s'.closed).2 := by rw [← hs2]
      have k6 : s2.removed = s'.removed ++ (popObsolete upto s'.closed).1 := by rw [← hs2]
      have hj2 : JInv s2 fs' w' := hinv.inv.j.dropClosed pre k1 k2 k3 k4 (by rw [k5]; exact hpre)
      have hr2 : RInv s2 fs' w' _ :=
        ⟨hj2, hinv.inv.abs.of_fields k1 k2 k3, hinv.inv.rep.pop upto habove k1 k2 k3 k4 k5⟩
      have e3 : s2.openEnd = s'.openEnd := by simp [Store.openEnd, k3]
      have hd2 : DInv s2 fs' w' A := hinv.dur.dropClosed pre k3 (by rw [k5]; exact hpre)
      by_cases hpop : (popObsolete upto s'.closed).1 = []
      · -- nothing was dropped
        have hcl : s2.closed = s'.closed := by rw [k5]; exact popObsolete_nil_C3 upto _ hpop
        have hmk : markAfter s s2 B = B := by
          simp only [markAfter, k6, hpop, List.append_nil, hrm, if_true]
        rw [hmk]
        exact hinv.transport hr2 k1 k2 k3 hcl (fun id => chunkBytes_congr fs' w' id k3 k4) hd2
      · -- chunks were dropped: the marker moves to the journal end
        have hmk : markAfter s s2 B = s2.openEnd := by
          have : ¬ (s'.removed ++ (popObsolete upto s'.closed).1).length = s.removed.length := by
            rw [List.length_append, hrm]
            have : 0 < (popObsolete upto s'.closed).1.length := List.length_pos_iff.mpr hpop
            omega
          simp only [markAfter, k6, this, if_false]
        rw [hmk]
        obtain ⟨jc, jo, g, hold⟩ := hinv.hist
        obtain ⟨jc', pre2, g2, hsplit⟩ := g.pop_C3 upto habove k1 k2 k3 k4 k5
        have hend := g2.journal_end_C3 hj2
        have hend0 := g.journal_end_C3 hinv.inv.j
        have hm := mirrors_full_C3 g2 hr2.abs.st hr2.abs.log hinv.run
        rw [hsplit] at hold hend0
        have hstart : s2.jstart = s'.jstart + sizeSum (flatOps pre2) := by
          rw [sizeSum_append] at hend0; omega
        have hw := HistG.whole hold hstart (allOps_size_pos_C3 s2 jc' jo) hm
        rw [hend] at hw
        refine ⟨hr2, hinv.run, ⟨jc', jo, g2, hw⟩, Or.inr ?_, Nat.le_refl _, hd2⟩
        -- the oldest retained chunk is not chunk 0
        obtain ⟨pre', hp1, hp2⟩ := popObsolete_prefix_ids upto s'.closed
        have hprene : pre' ≠ [] := by
          intro e; rw [e] at hp2; exact hpop hp2
        have e1 : s'.chunkIds = pre'.map Closed.id ++ s2.chunkIds := by
          rw [Store.chunkIds_eq, Store.chunkIds_eq, k5]
          conv => lhs; rw [hp1]
          simp [Store.openId, k3]
        have hsorted := hinv.inv.j.chunkIds_sorted
        rw [e1, List.pairwise_append] at hsorted
        cases pre' with
        | nil => exact absurd rfl hprene
        | cons c0 rest0 =>
          have := hsorted.2.2 c0.id (by simp) s2.jstart (jstart_mem_C3 s2)
          omega

/-! ### Flush, settle, cache changes -/

theorem flush_H {s : Store} {fs : Fs} {w : Worker} {r : RefLog} {W : List Op} {B A E K : Nat}
    (h : HInv s fs w r W B A E K) (cb : Option Nat) :
    HInv (s.flush cb).1 (effFs (s.flush cb).2 fs) (w.push (effQ (s.flush cb).2)) r W B A E K :=
  h.transport (flush_R h.inv cb) rfl rfl rfl rfl (flush_bytes h.inv.j cb) (h.dur.flush h.inv.j cb)

theorem HInv.settle {s : Store} {fs : Fs} {w : Worker} {r : RefLog} {W : List Op} {B A E K : Nat}
    (h : HInv s fs w r W B A E K) : HInv s fs w.settle r W B A E K :=
  h.transport h.inv.settle rfl rfl rfl rfl
    (fun id => by simp only [chunkBytes, Worker.settle_inflight]) h.dur.settle

theorem HInv.of_cache {s : Store} {fs : Fs} {w : Worker} {r : RefLog} {W : List Op} {B A E K : Nat}
    (h : HInv s fs w r W B A E K) (c : Cache) : HInv { s with cache := c } fs w r W B A E K :=
  h.transport (h.inv.of_cache c) rfl rfl rfl rfl (fun id => chunkBytes_congr fs w id rfl rfl)
    (h.dur.of_fields rfl rfl)

/-- A worker-side change (`StepGood`) with the durability invariant supplied. -/
theorem HInv.worker {s : Store} {c c' : WCtx} {r : RefLog} {W : List Op} {B A E K A2 : Nat}
    (h : HInv s c.fs c.w r W B A E K) (g : StepGood c c') (hids : Fs.ids c'.fs = Fs.ids c.fs)
    (hd : DInv s c'.fs c'.w A2) : HInv s c'.fs c'.w r W B A2 E K :=
  h.transport (h.inv.worker g hids) rfl rfl rfl rfl
    (fun id => by simp only [chunkBytes]; rw [g.bytes]) hd

/-! ### System level -/

/-- **The history and durability invariant of a system** with a live store and
worker: `HInv`, the linked-files invariant, every unsynced linked file tracked
by the worker, the worker well-formed. -/
def HCore (y : Sys) (r : RefLog) (W : List Op) (B A E K : Nat) : Prop :=
  ∃ s, y.store = some s ∧ y.worker.pc ≠ .dead ∧ HInv s y.fs y.worker r W B A E K

def HSys (y : Sys) (r : RefLog) (W : List Op) (B A E K : Nat) : Prop :=
  HCore y r W B A E K ∧ LSys y ∧ SysCovered y ∧ SysWF y

theorem HSys.rsys {y : Sys} {r : RefLog} {W : List Op} {B A E K : Nat} (h : HSys y r W B A E K) : RSys y r := by
  obtain ⟨⟨s, hs, hd, hi⟩, _⟩ := h
  exact ⟨s, hs, hd, hi.inv⟩

theorem HSys.csys {y : Sys} {r : RefLog} {W : List Op} {B A E K : Nat} (h : HSys y r W B A E K) : CSys y r :=
  ⟨h.rsys, h.2.1⟩

/-- The marker after one step of a history. -/
def Sys.markStep (y : Sys) (st : Step) (B : Nat) : Nat :=
  match st, y.store, (y.step st).store with
  | .call _, some s, some s' => markAfter s s' B
  | _, _, _ => B

/-- The marker after a history. -/
def Sys.markRun : Sys → List Step → Nat → Nat
  | _, [], B => B
  | y, st :: rest, B => Sys.markRun (y.step st) rest (y.markStep st B)

/-- The acknowledged position after one step of a history: only worker steps
move it (`WCtx.ackStep`, `WCtx.ackQuiet`). -/
def Sys.ackStep (y : Sys) (st : Step) (A : Nat) : Nat :=
  match st, y.store with
  | .worker out, some s => WCtx.ackStep { w := y.worker, fs := y.fs, cache := s.cache } out A
  | .workerIdle, some s =>
    WCtx.ackQuiet y.worker.fuel { w := y.worker, fs := y.fs, cache := s.cache } A
  | _, _ => A

/-- The acknowledged position after a history. -/
def Sys.ackRun : Sys → List Step → Nat → Nat
  | _, [], A => A
  | y, st :: rest, A => Sys.ackRun (y.step st) rest (y.ackStep st A)

theorem HSys.call {y : Sys} {r r' : RefLog} {W : List Op} {B A E K : Nat} (h : HSys y r W B A E K) {op : Op}
    (hl : r.legal op = true) (hc : r.call op = .ok r') (hsm : op.small) (hwf : op.WF) :
    HSys (y.step (.call op)) r' (W ++ op.expand1 r) (y.markStep (.call op) B) A E K := by
  obtain ⟨⟨s, hs, hd, hi⟩, hls, hcov, hswf⟩ := h
  have hJ : J y := ⟨s, hs, hd, hi.inv.j⟩
  have hfs := Fs.has_false_of_lt hi.inv.j.fsLt
  obtain ⟨seg, s', effs, heq, hinv⟩ := call_H y.fs.has hi hfs hl hc hsm hwf
  obtain ⟨e1, e2⟩ := Sys.call_eq y op s hs hd
  have hstep : y.step (.call op) = (y.call op).2.1 := rfl
  have hst' : (y.step (.call op)).store = some s' := by rw [hstep, e1, heq]
  have hmk : y.markStep (.call op) B = markAfter s s' B := by
    simp only [Sys.markStep, hs, hst']
  refine ⟨?_, hls.call hJ op hwf, hcov.call hd op, hswf.step (.call op)⟩
  unfold HCore
  rw [hmk, hstep, e1, heq]
  exact ⟨s', rfl, (Worker.settle_facts _).2.2.2.2 hd, hinv.settle⟩

theorem HSys.flush {y : Sys} {r : RefLog} {W : List Op} {B A E K : Nat} (h : HSys y r W B A E K)
    (cb : Option Nat) : HSys (y.step (.flush cb)) r W B A E K := by
  obtain ⟨⟨s, hs, hd, hi⟩, hls, hcov, hswf⟩ := h
  have hJ : J y := ⟨s, hs, hd, hi.inv.j⟩
  refine ⟨?_, hls.flush hJ cb, hcov.flush hd cb, hswf.step (.flush cb)⟩
  show HCore (y.flush cb).2.1 r W B A E K
  unfold HCore
  rw [Sys.flush_eq y cb s hs hd]
  exact ⟨_, rfl, (Worker.settle_facts _).2.2.2.2 hd, (flush_H hi cb).settle⟩

theorem dies_false_of_alive_C3 {c : WCtx} {out : Outcome} (h : (c.step out).w.pc ≠ .dead) :
    c.dies out = false := by
  cases hd : c.dies out with
  | false => rfl
  | true =>
    exfalso; apply h
    rw [(c.step_dies out hd).1]

theorem HSys.worker {y : Sys} {r : RefLog} {W : List Op} {B A E K : Nat} (h : HSys y r W B A E K)
    (out : Outcome) (hnd : (y.step (.worker out)).worker.pc ≠ .dead) :
    HSys (y.step (.worker out)) r W B (y.ackStep (.worker out) A) E K := by
  obtain ⟨⟨s, hs, hd, hi⟩, hls, hcov, hswf⟩ := h
  have hJ : J y := ⟨s, hs, hd, hi.inv.j⟩
  have hwf : y.worker.WF := (hswf (by rw [hs]; simp)).1
  obtain ⟨s0, hs0, hli⟩ := hls
  rw [hs] at hs0; cases hs0
  have hnd' : (y.workerStep out).1.worker.pc ≠ .dead := hnd
  have hnd2 := hnd'
  simp only [Sys.workerStep, hs] at hnd2
  have hdies := dies_false_of_alive_C3 hnd2
  refine ⟨?_, LSys.worker ⟨s, hs, hli⟩ hJ out hnd', hcov.workerStep hwf out s hdies,
    hswf.step (.worker out)⟩
  show HCore (y.workerStep out).1 r W B (y.ackStep (.worker out) A) E K
  unfold HCore
  simp only [Sys.workerStep, hs, Sys.ackStep]
  have g := WCtx.step_good { w := y.worker, fs := y.fs, cache := s.cache } out hi.inv.j.wok
    (hi.inv.j.annFs _ (by simp [Worker.announced])) hnd2
  have hids := WCtx.step_ids { w := y.worker, fs := y.fs, cache := s.cache } out
  have hdur := DInv.step (c := { w := y.worker, fs := y.fs, cache := s.cache }) out hi.dur hi.inv.j hli
    hcov hwf hnd2
  have := HInv.worker (c := { w := y.worker, fs := y.fs, cache := s.cache }) hi g hids hdur
  exact ⟨_, rfl, hnd2, this.of_cache _⟩

theorem runQuiet_covered_C3 (n : Nat) (c : WCtx) (hw : c.w.WF) (hc : Covered c) :
    Covered (WCtx.runQuiet n c) :=
  (WCtx.runQuiet_induct (P := fun c => c.w.WF ∧ Covered c)
    (fun c hc _ => ⟨c.step_wf .ok hc.1, c.step_covered .ok hc.1 (dies_ok_C3 c) hc.2⟩) n c ⟨hw, hc⟩).2

theorem HSys.workerIdle {y : Sys} {r : RefLog} {W : List Op} {B A E K : Nat} (h : HSys y r W B A E K)
    (hnd : (y.step .workerIdle).worker.pc ≠ .dead) :
    HSys (y.step .workerIdle) r W B (y.ackStep .workerIdle A) E K := by
  obtain ⟨⟨s, hs, hd, hi⟩, hls, hcov, hswf⟩ := h
  have hJ : J y := ⟨s, hs, hd, hi.inv.j⟩
  have hwf : y.worker.WF := (hswf (by rw [hs]; simp)).1
  obtain ⟨s0, hs0, hli⟩ := hls
  rw [hs] at hs0; cases hs0
  have hnd' : y.workerIdle.1.worker.pc ≠ .dead := hnd
  have hnd2 := hnd'
  simp only [Sys.workerIdle, hs] at hnd2
  have hcov' : SysCovered (y.step .workerIdle) := by
    show CoveredFW y.workerIdle.1.fs y.workerIdle.1.worker
    simp only [Sys.workerIdle, hs]
    exact runQuiet_covered_C3 _ { w := y.worker, fs := y.fs, cache := s.cache } hwf hcov
  refine ⟨?_, LSys.workerIdle ⟨s, hs, hli⟩ hJ hnd', hcov', hswf.step .workerIdle⟩
  show HCore y.workerIdle.1 r W B (y.ackStep .workerIdle A) E K
  unfold HCore
  simp only [Sys.workerIdle, hs, Sys.ackStep]
  have g := WCtx.runQuiet_good y.worker.fuel { w := y.worker, fs := y.fs, cache := s.cache }
    hi.inv.j.wok hi.inv.j.annFs hnd2
  have hids := WCtx.runQuiet_ids y.worker.fuel { w := y.worker, fs := y.fs, cache := s.cache }
  have hdur := DInv.runQuiet y.worker.fuel { w := y.worker, fs := y.fs, cache := s.cache } A hi.dur
    hi.inv.j hli hcov hwf hnd2
  have := HInv.worker (c := { w := y.worker, fs := y.fs, cache := s.cache }) hi g hids hdur
  exact ⟨_, rfl, hnd2, this.of_cache _⟩

theorem HSys.drain {y : Sys} {r : RefLog} {W : List Op} {B A E K : Nat} (h : HSys y r W B A E K) :
    HSys (y.step .drain) r W B A E K := by
  obtain ⟨⟨s, hs, hd, hi⟩, hls, hcov, hswf⟩ := h
  refine ⟨?_, hls.drain, ?_, hswf.step .drain⟩
  · show HCore y.drain r W B A E K
    unfold HCore
    simp only [Sys.drain, hs]
    exact ⟨_, rfl, hd, hi.of_cache _⟩
  · show CoveredFW y.drain.fs y.drain.worker
    simp only [Sys.drain, hs]
    exact hcov

/-! ### The freshly opened store -/

theorem fresh_covered_C3 (cfg : Cfg) : SysCovered (Sys.fresh cfg) := by
  have hshape : (Sys.fresh cfg).fs = [{ id := 0, data := encRecord (.state {}) }] ∧
      (Sys.fresh cfg).worker = { files := [⟨0, none⟩] } := by
    simp [Sys.fresh, Sys.open, openStore, Fs.linkedIds, openLoop, emptyStore, Fs.has, Fs.find,
      Fs.create, Fs.write, Fs.update]
  intro f hf _ _
  rw [hshape.1] at hf
  simp only [List.mem_singleton] at hf
  subst hf
  left
  rw [hshape.2]
  simp

theorem fresh_HSys (cfg : Cfg) : HSys (Sys.fresh cfg) {} [] 0 0 0 0 := by
  obtain ⟨s, hs, hd, hinv⟩ := fresh_RSys cfg
  have hshape : ∃ s, (Sys.fresh cfg).store = some s ∧ s.st = {} ∧ s.log = [] ∧ s.closed = [] ∧ s.pending = [] ∧
      s.openOffsets = [0, 0 + (encRecord (.state {})).length] ∧
      (Sys.fresh cfg).fs = [{ id := 0, data := encRecord (.state {}) }] ∧
      (Sys.fresh cfg).worker = { files := [⟨0, none⟩] } := by
    simp [Sys.fresh, Sys.open, openStore, Fs.linkedIds, openLoop, emptyStore, Fs.has, Fs.find,
      Fs.create, Fs.write, Fs.update]
  obtain ⟨s0, hs0, h1, h2, h3, h4, h5, h6, h7⟩ := hshape
  rw [hs] at hs0; cases hs0
  have hid : s.openId = 0 := by simp [Store.openId, h5]
  have hinf : ∀ id, (Sys.fresh cfg).worker.inflight id = [] := by
    intro id
    rw [h7]; simp [Worker.inflight, infl, Worker.rest, WPc.inHand, WPc.todoBytes, inflightFrom]
  have hfd : fdata (Sys.fresh cfg).fs 0 = encRecord (.state {}) := by
    rw [h6]; simp [fdata, Fs.find]
  have hwf : ({} : RState).WF := ⟨trivial, trivial, trivial, trivial, trivial⟩
  have g : RepG s (Sys.fresh cfg).fs (Sys.fresh cfg).worker [] [.state {}] := by
    refine ⟨by rw [h3]; rfl, (by intro p hp; cases hp), ?_, ?_⟩
    · have : chunkBytes s (Sys.fresh cfg).fs (Sys.fresh cfg).worker s.openId = encRecord (.state {}) := by
        simp only [chunkBytes, hid, hfd, hinf, h4, if_true, List.append_nil]
      rw [this, h5]
      simpa using ChunkRecs.fresh 0 hwf
    · exact ⟨{}, [], ⟨rfl, rfl⟩, by rw [h1]; simp [stRun, RState.apply],
        by rw [h2]; simp [chunkOps, opsFrom, idxRun, idxLogO], fun hne => absurd rfl hne⟩
  have hrest : (Sys.fresh cfg).worker.rest = [] := by rw [h7]; rfl
  have hdur : DInv s (Sys.fresh cfg).fs (Sys.fresh cfg).worker 0 := by
    refine ⟨⟨?_, ?_, ?_⟩, ?_, Nat.zero_le _, ?_, ?_⟩
    · rw [hrest]; trivial
    · intro r hr; rw [h7] at hr; cases hr
    · intro i hi hlt
      rw [h6] at hi
      simp only [Fs.ids, List.map_cons, List.map_nil, List.mem_singleton] at hi
      omega
    · intro i hi; rw [hrest] at hi; cases hi
    · intro offs _; simp
    · intro offs _ f _; simp
  have hjs : s.jstart = 0 := by simp [Store.jstart, h3, hid]
  refine ⟨⟨s, hs, hd, hinv, rfl, ⟨[], [.state {}], g, 0, ?_, ?_, Or.inl rfl,
    Or.inl ⟨[], List.nil_prefix, by simp [hjs, sizeSum, sumNat], rfl⟩⟩, Or.inl rfl, Nat.zero_le _,
    hdur⟩, fresh_LSys cfg, fresh_covered_C3 cfg, SysWF.fresh cfg⟩
  · simp [allOps, flatOps, chunkOps, opsFrom, cntW, JOp.isHead]
  intro P hP _
  have hP' : P = [⟨.state {}, s.openId, ⟨s.openId, (encRecord (.state {})).length⟩⟩] ∨ P = [] := by
    simp only [allOps, flatOps, chunkOps, opsFrom, List.nil_append] at hP
    rcases List.prefix_concat_iff.mp (show P <+: [] ++ [_] from hP) with e | e
    · left; simpa using e
    · right; exact List.prefix_nil.mp e
  rw [List.take_nil]
  refine ⟨{}, rfl, ?_, ?_⟩
  · rcases hP' with e | e <;> rw [e] <;> rfl
  · rcases hP' with e | e <;> rw [e] <;> exact ⟨[], rfl, rfl⟩

/-! ### Histories -/

theorem HSys.step {y : Sys} {r r' : RefLog} {W : List Op} {B A E K : Nat} (h : HSys y r W B A E K) (st : Step)
    (hst : st.journal = true) (hr : r.run (stepOps [st]) = some r')
    (hwf : ∀ op, st = .call op → op.WF ∧ op.small) (hnd : (y.step st).worker.pc ≠ .dead) :
    HSys (y.step st) r' (W ++ expandOps r (stepOps [st])) (y.markStep st B) (y.ackStep st A) E K := by
  cases st with
  | drop => cases hst
  | openWith c => cases hst
  | drain =>
    simp only [stepOps, RefLog.run, Option.some.injEq] at hr; subst hr
    simpa [stepOps, expandOps, Sys.markStep, Sys.ackStep] using h.drain
  | flush cb =>
    simp only [stepOps, RefLog.run, Option.some.injEq] at hr; subst hr
    simpa [stepOps, expandOps, Sys.markStep, Sys.ackStep] using h.flush cb
  | worker out =>
    simp only [stepOps, RefLog.run, Option.some.injEq] at hr; subst hr
    simpa [stepOps, expandOps, Sys.markStep] using h.worker out hnd
  | workerIdle =>
    simp only [stepOps, RefLog.run, Option.some.injEq] at hr; subst hr
    simpa [stepOps, expandOps, Sys.markStep] using h.workerIdle hnd
  | call op =>
    simp only [stepOps, RefLog.run] at hr
    split at hr
    · rename_i hl
      split at hr
      · rename_i r1 hc
        simp only [Option.some.injEq] at hr; subst hr
        have := h.call hl hc (hwf op rfl).2 (hwf op rfl).1
        simpa [stepOps, expandOps, hc, Sys.ackStep] using this
      · cases hr
    · cases hr

/-- **The history and durability invariant along histories.** -/
theorem run_HSys (steps : List Step) : ∀ (y : Sys) (r r' : RefLog) (W : List Op) (B A E K : Nat),
    HSys y r W B A E K → (∀ st ∈ steps, st.journal = true) → r.run (stepOps steps) = some r' →
    (∀ op ∈ stepOps steps, op.WF ∧ op.small) → (y.run steps).worker.pc ≠ .dead →
    HSys (y.run steps) r' (W ++ expandOps r (stepOps steps)) (y.markRun steps B) (y.ackRun steps A) E K := by
  induction steps with
  | nil =>
    intro y r r' W B A E K h _ hr _ _
    simp only [stepOps, RefLog.run, Option.some.injEq] at hr; subst hr
    simpa [stepOps, expandOps, Sys.markRun, Sys.ackRun, Sys.run] using h
  | cons st rest ih =>
    intro y r r' W B A E K h hst hr hwf hnd
    simp only [Sys.run, List.foldl_cons] at hnd ⊢
    have hrest : ∀ s ∈ rest, s.journal = true := fun s hs => hst s (List.mem_cons_of_mem _ hs)
    have hnd1 : (y.step st).worker.pc ≠ .dead := by
      intro hdead
      exact hnd (Sys.run_dead rest _ hrest hdead)
    rw [stepOps_cons, RefLog.run_append] at hr
    cases hr1 : r.run (stepOps [st]) with
    | none => rw [hr1] at hr; cases hr
    | some r1 =>
      rw [hr1] at hr
      simp only [Option.bind_some] at hr
      have hwf1 : ∀ op, st = .call op → op.WF ∧ op.small := by
        intro op e; subst e; exact hwf op (by simp [stepOps])
      have hwf2 : ∀ op ∈ stepOps rest, op.WF ∧ op.small := by
        intro op hop
        apply hwf op
        rw [stepOps_cons]; exact List.mem_append_right _ hop
      have h1 := h.step st (hst st List.mem_cons_self) hr1 hwf1 hnd1
      have h2 := ih (y.step st) r1 r' _ _ _ E K h1 hrest hr hwf2 hnd
      rw [stepOps_cons, expandOps_append _ _ r r1 hr1, ← List.append_assoc]
      exact h2

end RaftLog
