/-
The caller-thread half of `RaftLog`: log index, state, payload cache, open and
closed chunk bookkeeping, the list of chunks scheduled for removal, and the
requests it sends to the flush worker. Mirrors `raft_log.rs`,
`state_machine/mod.rs`, `wal/mod.rs`, `open_chunk.rs` after the `fix:` commits.
-/
import RaftLogModel.Model.Cache
namespace RaftLog

structure Cfg where
  maxRecords : Nat := 1024 * 1024
  maxSize : Nat := 1024 * 1024 * 1024
  cacheItems : Nat := 100000
  cacheCap : Nat := 1024 * 1024 * 1024
  truncate : Bool := true
deriving Repr, DecidableEq, Inhabited

/-- `LogData`: where the `Append` record of an entry lives. -/
structure LogData where
  id : LogId
  chunk : Nat
  off : Nat
  size : Nat
deriving Repr, DecidableEq, Inhabited

/-- `(offset, size)` of a record in the global journal. -/
structure Seg where
  off : Nat
  size : Nat
deriving Repr, DecidableEq, Inhabited

/-- A closed chunk: global offsets of its records (N+1 numbers) and the state
when it was closed. Its id is its first offset. -/
structure Closed where
  offsets : List Nat
  state : RState
deriving Repr, DecidableEq, Inhabited

def Closed.id (c : Closed) : Nat := c.offsets.headD 0

/-- Requests to the flush worker (`WorkerRequest`). -/
inductive WReq
  | write (upto : Nat) (data : Bytes) (cb : Option Nat)
  | appendFile (id : Nat) (prevLast : Option LogId)
  | removeChunks (ids : List Nat)
deriving Repr, DecidableEq, Inhabited

/-- Effects of a caller-thread call, in program order. -/
inductive Eff
  | create (id : Nat)                 -- `OpenOptions::create_new` of `r-<id>.wal`
  | createFailed (id : Nat)           -- the same call failing with `AlreadyExists`
  | writeHead (id : Nat) (bs : Bytes) -- `write_all` of the head `State` record
  | send (r : WReq)
deriving Repr, DecidableEq, Inhabited

structure Store where
  cfg : Cfg
  st : RState := {}
  /-- `BTreeMap<u64, LogData>`, ascending by index. -/
  log : List (Nat × LogData) := []
  cache : Cache
  /-- open chunk: global offsets (N+1 numbers, first = chunk id) -/
  openOffsets : List Nat
  pending : Bytes := []
  /-- `BTreeMap<ChunkId, ClosedChunk>`, ascending by id. -/
  closed : List Closed := []
  /-- chunk ids whose files are to be removed after the next flush -/
  removed : List Nat := []
  hit : Nat := 0
  miss : Nat := 0
deriving Repr, DecidableEq

def lastOff (offs : List Nat) : Nat := offs.getLastD 0

def Store.openId (s : Store) : Nat := s.openOffsets.headD 0
def Store.openEnd (s : Store) : Nat := lastOff s.openOffsets

/-- `Chunk::last_segment` (panics on a chunk without records). -/
def lastSegment (offs : List Nat) : Option Seg :=
  match offs.reverse with
  | e :: b :: _ => some ⟨b, e - b⟩
  | _ => none

def recordsCount (offs : List Nat) : Nat := offs.length - 1
def chunkSize (offs : List Nat) : Nat := lastOff offs - offs.headD 0

/-! ### State machine `apply` on the index and the cache (before the state) -/

def logInsert (idx : Nat) (d : LogData) : List (Nat × LogData) → List (Nat × LogData)
  | [] => [(idx, d)]
  | (i, d') :: rest =>
    if idx < i then (idx, d) :: (i, d') :: rest
    else if idx = i then (idx, d) :: rest
    else (i, d') :: logInsert idx d rest

/-- Outcome of applying a record to index + cache. `none` = overflow panic in
`next_log_index`. -/
def Store.applyIndex (s : Store) (r : Record) (chunk : Nat) (seg : Seg) : Option Store :=
  match r with
  | .append id p =>
    some { s with
      log := logInsert id.index ⟨id, chunk, seg.off, seg.size⟩ s.log,
      cache := s.cache.insert id p }
  | .truncateAfter o =>
    match nextIndexChecked o with
    | none => none
    | some idx =>
      some { s with
        log := s.log.filter (fun e => e.1 < idx),        -- `split_off(&idx)`, keep the left part
        cache := match o with
          | some id => s.cache.truncateAfter id
          | none => s.cache.clear }
  | .purgeUpto id =>
    match nextIndexChecked (some id) with
    | none => none
    | some idx =>
      some { s with
        log := s.log.filter (fun e => idx ≤ e.1),        -- keep the right part
        cache := s.cache.purgeUpto id }
  | _ => some s

def Store.isOpenFull (s : Store) : Bool :=
  decide (recordsCount s.openOffsets ≥ s.cfg.maxRecords) ||
  decide (chunkSize s.openOffsets ≥ s.cfg.maxSize)

/-- `try_close_full_chunk`. `fsHas id` = a linked file `r-<id>.wal` exists
(then `create_new` fails). -/
def Store.tryCloseFull (s : Store) (fsHas : Nat → Bool) : Res Unit × Store × List Eff :=
  if !s.isOpenFull then (.ok (), s, [])
  else
    let newId := s.openEnd
    if fsHas newId then (.err .exists, s, [.createFailed newId])
    else
      let head := encRecord (.state s.st)
      let effs0 := [Eff.create newId, Eff.writeHead newId head]
      let effs1 := if s.pending.isEmpty then []
        else [Eff.send (.write newId s.pending none)]
      let effs2 := [Eff.send (.appendFile newId s.st.last)]
      let s' := { s with
        closed := s.closed ++ [⟨s.openOffsets, s.st⟩],
        openOffsets := [newId, newId + head.length],
        pending := [] }
      (.ok (), s', effs0 ++ effs1 ++ effs2)

/-- `append_and_apply`: validate, journal into the pending buffer, apply to
index/cache/state, rotate if full; returns the record's segment. -/
def Store.appendAndApply (s : Store) (fsHas : Nat → Bool) (r : Record) :
    Res Seg × Store × List Eff :=
  match s.st.apply r with
  | .err k => (.err k, s, [])
  | .panic m => (.panic m, s, [])
  | .ok st' =>
    let bs := encRecord r
    let start := s.openEnd
    let seg : Seg := ⟨start, bs.length⟩
    let s1 := { s with pending := s.pending ++ bs, openOffsets := s.openOffsets ++ [start + bs.length] }
    match s1.applyIndex r s1.openId seg with
    | none => (.panic "next_log_index overflow (apply)", s1, [])
    | some s2 =>
      let s3 := { s2 with st := st' }
      match s3.tryCloseFull fsHas with
      | (.ok (), s4, effs) => (.ok seg, s4, effs)
      | (.err k, s4, effs) => (.err k, s4, effs)
      | (.panic m, s4, effs) => (.panic m, s4, effs)

def Store.logGet (s : Store) (idx : Nat) : Option LogData :=
  (s.log.find? (fun e => e.1 = idx)).map (·.2)

/-! ### The public write API -/

inductive Op
  | saveVote (v : Vote)
  | append (es : List (LogId × Bytes))
  | truncate (idx : Nat)
  | purge (id : LogId)
  | commit (id : LogId)
  | saveUserData (d : Option Bytes)
deriving Repr, DecidableEq, Inhabited

def Store.appendBatch (fsHas : Nat → Bool) :
    List (LogId × Bytes) → Store → Seg → List Eff → Res Seg × Store × List Eff
  | [], s, seg, effs => (.ok seg, s, effs)
  | (id, p) :: rest, s, _, effs =>
    -- a log index of u64::MAX has no next index: refused
    if id.index + 1 = U64 then (.err .invalidInput, s, effs) else
    match s.appendAndApply fsHas (.append id p) with
    | (.ok seg', s', e') =>
      -- files created by earlier entries of this batch exist by now
      Store.appendBatch (fun i => fsHas i || e'.any (fun e => e == .create i)) rest s' seg' (effs ++ e')
    | (.err k, s', e') => (.err k, s', effs ++ e')
    | (.panic m, s', e') => (.panic m, s', effs ++ e')

/-- Pop leading closed chunks whose closing `last` is at or below `upto`. -/
def popObsolete (upto : LogId) : List Closed → List Nat × List Closed
  | [] => ([], [])
  | c :: rest =>
    if optLt (some upto) c.state.last then ([], c :: rest)
    else
      let r := popObsolete upto rest
      (c.id :: r.1, r.2)

def Store.call (s : Store) (fsHas : Nat → Bool) (op : Op) : Res Seg × Store × List Eff :=
  match op with
  | .saveVote v => s.appendAndApply fsHas (.saveVote v)
  | .commit id => s.appendAndApply fsHas (.commit id)
  | .saveUserData d => s.appendAndApply fsHas (.state { s.st with userData := d })
  | .append es =>
    match lastSegment s.openOffsets with
    | none => (.panic "last_segment on empty chunk", s, [])
    | some seg0 => Store.appendBatch fsHas es s seg0 []
  | .truncate idx =>
    match nextIndexChecked s.st.purged with
    | none => (.panic "next_log_index overflow (truncate)", s, [])
    | some nxt =>
      if idx = nxt then s.appendAndApply fsHas (.truncateAfter s.st.purged)
      else if idx = 0 then (.err .indexNotFound, s, [])
      else
        match s.logGet (idx - 1) with
        | none => (.err .indexNotFound, s, [])
        | some d => s.appendAndApply fsHas (.truncateAfter (some d.id))
  | .purge upto =>
    if upto.index + 1 = U64 then (.err .invalidInput, s, []) else
    match nextIndexChecked s.st.purged with
    | none => (.panic "next_log_index overflow (purge)", s, [])
    | some nxt =>
      if upto.index < nxt then
        match lastSegment s.openOffsets with
        | none => (.panic "last_segment on empty chunk", s, [])
        | some seg => (.ok seg, s, [])
      else
        match s.appendAndApply fsHas (.purgeUpto upto) with
        | (.ok seg, s', effs) =>
          let r := popObsolete upto s'.closed
          (.ok seg, { s' with closed := r.2, removed := s'.removed ++ r.1 }, effs)
        | other => other

/-- `flush`: hand the pending bytes to the worker, then the removal request. -/
def Store.flush (s : Store) (cb : Option Nat) : Store × List Eff :=
  let e1 := [Eff.send (.write s.openEnd s.pending cb)]
  let e2 := if s.removed.isEmpty then [] else [Eff.send (.removeChunks s.removed)]
  ({ s with pending := [], removed := [] }, e1 ++ e2)

end RaftLog
