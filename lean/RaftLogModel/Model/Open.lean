/-
Recovery: `RaftLog::open`, `Chunk::open`, `RecordIterator`,
`handle_record_error`, `verify_trailing_zeros`, `reopen_last_closed`,
`OpenChunk::create` (after the `fix:` commits).
-/
import RaftLogModel.Model.Worker
namespace RaftLog

inductive ParseEnd
  | clean      -- iterator reached the end of the file
  | eof        -- `UnexpectedEof` while decoding the record starting at `rest`
  | invalid    -- any other decode error there
deriving Repr, DecidableEq, Inhabited

/-- Iterate the records of a chunk file (`RecordIterator`). Returns the
records with their encoded sizes, how the iteration ended, and the bytes from
the start of the record that failed. -/
def parseLoop : Nat → Bytes → List (Record × Nat) × ParseEnd × Bytes
  | 0, bs => ([], .invalid, bs)
  | fuel + 1, bs =>
    if bs.isEmpty then ([], .clean, [])
    else match decRecord bs with
      | .ok r rest =>
        let x := parseLoop fuel rest
        ((r, bs.length - rest.length) :: x.1, x.2.1, x.2.2)
      | .eof => ([], .eof, bs)
      | .invalid => ([], .invalid, bs)

def parseChunk (data : Bytes) : List (Record × Nat) × ParseEnd × Bytes :=
  parseLoop (data.length + 1) data

def allZero (bs : Bytes) : Bool := bs.all (· == 0)

/-- Global offsets from a chunk id and record sizes. -/
def offsetsFrom (start : Nat) : List Nat → List Nat
  | [] => [start]
  | sz :: rest => start :: offsetsFrom (start + sz) rest

/-- Result of `Chunk::open`. -/
structure OpenedChunk where
  records : List Record
  offsets : List Nat
  /-- `Some` = the file was cut to this (file-relative) length -/
  truncatedTo : Option Nat
deriving Repr

/-- `Chunk::open` on the bytes of file `id`: parse, decide about the tail. -/
def openChunk (cfg : Cfg) (id : Nat) (data : Bytes) : Except ErrKind OpenedChunk :=
  let x := parseChunk data
  let recs := x.1.map (·.1)
  let offs := offsetsFrom id (x.1.map (·.2))
  let goodLen := lastOff offs - id
  match x.2.1 with
  | .clean => .ok ⟨recs, offs, none⟩
  | .eof => if cfg.truncate then .ok ⟨recs, offs, some goodLen⟩ else .error .eof
  | .invalid =>
    if allZero x.2.2 && cfg.truncate then .ok ⟨recs, offs, some goodLen⟩ else .error .invalid

/-- `RaftLogStateMachine::apply`: index and cache first, then the state. -/
def Store.smApply (s : Store) (r : Record) (chunk : Nat) (seg : Seg) : Res Store :=
  match s.applyIndex r chunk seg with
  | none => .panic "next_log_index overflow (replay)"
  | some s1 =>
    match s1.st.apply r with
    | .ok st' => .ok { s1 with st := st' }
    | .err k => .err k
    | .panic m => .panic m

def replay (chunk : Nat) : List Record → List Nat → Store → Res Store
  | [], _, s => .ok s
  | r :: rs, o1 :: o2 :: os, s =>
    match s.smApply r chunk ⟨o1, o2 - o1⟩ with
    | .ok s' => replay chunk rs (o2 :: os) s'
    | other => other
  | _ :: _, _, s => .ok s   -- unreachable: offsets has one more element than records

/-- State of the per-chunk loop of `open`. -/
structure OpenAcc where
  sm : Store
  fs : Fs
  evs : List Ev := []
  prevEnd : Option Nat := none
  lastLogId : Option LogId := none
  /-- id of the last loaded chunk was truncated -/
  lastTruncated : Bool := false
deriving Repr

def emptyStore (cfg : Cfg) : Store :=
  { cfg := cfg, cache := { maxItems := cfg.cacheItems, capacity := cfg.cacheCap }, openOffsets := [] }

/-- The loop over chunk ids. `Except.error (k, acc)` = `open` returns an error
after the effects recorded in `acc`. `panic` is reported as `.error` with the
`panicked` flag by the caller (never reached: see `Props/C16`). -/
def openLoop (cfg : Cfg) : List Nat → OpenAcc → Res OpenAcc × OpenAcc
  | [], a => (.ok a, a)
  | id :: rest, a =>
    let sm1 := { a.sm with cache := a.sm.cache.setLastEvictable a.lastLogId }
    let a := { a with sm := sm1 }
    match (match a.prevEnd with | some p => p != id | none => false) with
    | true => (.err .gap, a)
    | false =>
      match a.fs.find id with
      | none => (.err .notFound, a)
      | some f =>
        match openChunk cfg id f.data with
        | .error k => (.err k, a)
        | .ok oc =>
          let a1 := match oc.truncatedTo with
            | some len => { a with fs := a.fs.truncate id len,
                                   evs := a.evs ++ [.trunc "o" id len, .sync "o" id true] }
            | none => a
          match replay id oc.records oc.offsets a1.sm with
          | .err k => (.err k, a1)
          | .panic m => (.panic m, a1)
          | .ok sm2 =>
            if oc.records.isEmpty && rest.isEmpty then
              -- newest chunk without a complete record: remove it
              let a2 := { a1 with sm := sm2, fs := a1.fs.unlink id,
                                  evs := a1.evs ++ [.unlink "o" id true], prevEnd := some id,
                                  lastTruncated := true }
              (.ok a2, a2)
            else
              let sm3 := { sm2 with closed := sm2.closed ++ [⟨oc.offsets, sm2.st⟩] }
              -- every chunk file that stays is synced once (the previous owner may have stopped
              -- after a failed sync)
              let a1s : OpenAcc := { a1 with fs := a1.fs.sync id, evs := a1.evs ++ [Ev.sync "o" id true] }
              openLoop cfg rest { a1s with sm := sm3, prevEnd := some (lastOff oc.offsets),
                                           lastLogId := sm2.st.last,
                                           lastTruncated := oc.truncatedTo.isSome }

/-- Everything `open` does after taking the lock. Returns the result, the new
file system, the events, and on success the store and its worker. -/
def openStore (cfg : Cfg) (fs : Fs) : Res (Store × Worker) × Fs × List Ev :=
  let acc0 : OpenAcc := { sm := emptyStore cfg, fs := fs }
  match openLoop cfg fs.linkedIds acc0 with
  | (.err k, a) => (.err k, a.fs, a.evs)
  | (.panic m, a) => (.panic m, a.fs, a.evs)
  | (.ok _, a) =>
    let reuse := !a.sm.closed.isEmpty && !a.lastTruncated
    if reuse then
      match a.sm.closed.getLast? with
      | none => (.panic "unreachable", a.fs, a.evs)
      | some lastC =>
        let closed := a.sm.closed.dropLast
        let prevLast := match closed.getLast? with
          | some c => c.state.last
          | none => none
        let s := { a.sm with closed := closed, openOffsets := lastC.offsets, pending := [] }
        (.ok (s, { files := [⟨lastC.id, prevLast⟩] }), a.fs, a.evs)
    else
      let newId := a.prevEnd.getD 0
      if a.fs.has newId then (.err .exists, a.fs, a.evs ++ [.create "o" newId false])
      else
        let head := encRecord (.state a.sm.st)
        let fs1 := (a.fs.create newId).write newId head
        let prevLast := match a.sm.closed.getLast? with
          | some c => c.state.last
          | none => none
        let s := { a.sm with openOffsets := [newId, newId + head.length], pending := [] }
        (.ok (s, { files := [⟨newId, prevLast⟩] }), fs1,
          a.evs ++ [.create "o" newId true, .write "o" newId head true])

end RaftLog
