/-
A small file-system model: chunk files keyed by chunk id, with the bytes
written so far, the durable length, and whether the name is still linked.
-/
import RaftLogModel.Model.Store
namespace RaftLog

structure File where
  id : Nat
  data : Bytes := []
  /-- bytes known durable: raised to `data.length` only by a successful sync -/
  durable : Nat := 0
  linked : Bool := true
deriving Repr, DecidableEq, Inhabited

/-- Files in creation order. An unlinked file stays (open handles keep it
alive) until a new file with the same id replaces it. -/
abbrev Fs := List File

def Fs.find (fs : Fs) (id : Nat) : Option File := List.find? (fun f => f.id == id) fs

def Fs.has (fs : Fs) (id : Nat) : Bool :=
  match fs.find id with
  | some f => f.linked
  | none => false

def Fs.update (fs : Fs) (id : Nat) (g : File → File) : Fs :=
  List.map (fun f => if f.id == id then g f else f) fs

/-- `create_new`: caller checked `¬ fs.has id`. A stale unlinked entry with the
same id is replaced. -/
def Fs.create (fs : Fs) (id : Nat) : Fs :=
  List.filter (fun f => f.id != id) fs ++ [{ id := id }]

def Fs.write (fs : Fs) (id : Nat) (bs : Bytes) : Fs :=
  fs.update id fun f => { f with data := f.data ++ bs }

def Fs.sync (fs : Fs) (id : Nat) : Fs :=
  fs.update id fun f => { f with durable := f.data.length }

/-- `set_len` + `sync_all` (recovery): durable when it returns. -/
def Fs.truncate (fs : Fs) (id : Nat) (len : Nat) : Fs :=
  fs.update id fun f => { f with data := f.data.take len, durable := min f.durable len }

def Fs.unlink (fs : Fs) (id : Nat) : Fs :=
  fs.update id fun f => { f with linked := false }

/-- Linked chunk ids in ascending order (`load_chunk_ids`). -/
def insertNat (n : Nat) : List Nat → List Nat
  | [] => [n]
  | m :: rest => if n ≤ m then n :: m :: rest else m :: insertNat n rest

def Fs.linkedIds (fs : Fs) : List Nat :=
  (List.filter (fun f => f.linked) fs).foldl (fun acc f => insertNat f.id acc) []

/-- `pread` of exactly `size` bytes at `off` (file-relative). -/
def Fs.readAt (fs : Fs) (id off size : Nat) : Option Bytes :=
  match fs.find id with
  | none => none
  | some f => if off + size ≤ f.data.length then some ((f.data.drop off).take size) else none

end RaftLog
