/-
Bitwise reflected CRC-32 (polynomial 0xEDB88320), the function `crc32fast`
computes. Checked against the implementation on every record by the
correspondence harness.
-/
import RaftLogModel.Model.Basic
namespace RaftLog

def crcPoly : BitVec 32 := 0xEDB88320#32

/-- One bit step of the reflected CRC register. -/
def crcBit (c : BitVec 32) : BitVec 32 :=
  if c.getLsbD 0 then (c >>> 1) ^^^ crcPoly else c >>> 1

def crcBits : Nat → BitVec 32 → BitVec 32
  | 0, c => c
  | n + 1, c => crcBits n (crcBit c)

/-- Feed one byte. -/
def crcByte (c : BitVec 32) (b : UInt8) : BitVec 32 :=
  crcBits 8 (c ^^^ (BitVec.ofNat 32 b.toNat))

/-- Register after feeding `bs` starting from `c`. -/
def crcFeed (c : BitVec 32) (bs : Bytes) : BitVec 32 :=
  bs.foldl crcByte c

def crc32 (bs : Bytes) : Nat :=
  ((crcFeed 0xFFFFFFFF#32 bs) ^^^ 0xFFFFFFFF#32).toNat

end RaftLog
