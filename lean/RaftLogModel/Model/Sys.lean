/-
The whole system: file system, directory lock, at most one live store with its
flush worker, and the steps a script can take.
-/
import RaftLogModel.Model.Open
namespace RaftLog

structure Sys where
  fs : Fs := []
  /-- the directory lock is held (by the store, or by a `Dump`) -/
  locked : Bool := false
  /-- a `Dump` handle holds the lock -/
  dump : Bool := false
  store : Option Store := none
  worker : Worker := { files := [], pc := .dead }
  /-- configuration used by the next `open` -/
  cfg : Cfg := {}
deriving Repr

/-- Apply the caller-thread effects of one call, in order. A request sent to a
dead worker fails (`send` on a closed channel): the remaining effects are
skipped and the call reports `sendFailed`. -/
def applyEffs : List Eff → Fs → Worker → List Ev → Bool × Fs × Worker × List Ev
  | [], fs, w, evs => (true, fs, w, evs)
  | e :: rest, fs, w, evs =>
    match e with
    | .create id => applyEffs rest (fs.create id) w (evs ++ [.create "c" id true])
    | .createFailed id => applyEffs rest fs w (evs ++ [.create "c" id false])
    | .writeHead id bs => applyEffs rest (fs.write id bs) w (evs ++ [.write "c" id bs true])
    | .send r =>
      match w.pc with
      | .dead =>
        let evs' := match r.cbId with
          | some i => evs ++ [.cbDropped i]
          | none => evs
        (false, fs, w, evs')
      | _ => applyEffs rest fs { w with queue := w.queue ++ [r] } evs

/-- After the caller has run: a worker blocked in `recv` that now has a request
proceeds to the gate right after `recv`. -/
def Worker.settle (w : Worker) : Worker :=
  match w.pc, w.queue with
  | .idle, r :: q => { w with pc := .got r, queue := q }
  | _, _ => w

/-- A public write call. -/
def Sys.call (y : Sys) (op : Op) : Res Seg × Sys × List Ev :=
  match y.store with
  | none => (.err .notFound, y, [])
  | some s =>
    let (res, s', effs) := s.call y.fs.has op
    let (sent, fs', w', evs) := applyEffs effs y.fs y.worker []
    let res' := if sent then res else match res with
      | .panic m => .panic m
      | _ => .err .sendFailed
    (res', { y with store := some s', fs := fs', worker := w'.settle }, evs)

def Sys.flush (y : Sys) (cb : Option Nat) : Res Unit × Sys × List Ev :=
  match y.store with
  | none => (.err .notFound, y, [])
  | some s =>
    let (s', effs) := s.flush cb
    let (sent, fs', w', evs) := applyEffs effs y.fs y.worker []
    -- `send_flush` takes the pending bytes before sending; a failed send of the
    -- write request leaves the removal list untouched.
    let s'' := if sent then s' else { s' with removed := s.removed }
    ((if sent then .ok () else .err .sendFailed),
      { y with store := some s'', fs := fs', worker := w'.settle }, evs)

/-- One worker step with the given outcome for the parked system call. -/
def Sys.workerStep (y : Sys) (out : Outcome) : Sys × List Ev :=
  match y.store with
  | none => (y, [])
  | some s =>
    let c : WCtx := { w := y.worker, fs := y.fs, cache := s.cache }
    let c' := c.step out
    ({ y with worker := c'.w, fs := c'.fs, store := some { s with cache := c'.cache } }, c'.evs)

/-- Run the worker, all outcomes ok, until it is blocked on an empty queue. -/
def Sys.workerIdle (y : Sys) : Sys × List Ev :=
  match y.store with
  | none => (y, [])
  | some s =>
    let c : WCtx := { w := y.worker, fs := y.fs, cache := s.cache }
    let c' := WCtx.runQuiet c.w.fuel c
    ({ y with worker := c'.w, fs := c'.fs, store := some { s with cache := c'.cache } }, c'.evs)

def Sys.drain (y : Sys) : Sys :=
  match y.store with
  | none => y
  | some s => { y with store := some { s with cache := s.cache.drainEvictable } }

/-- Drop the store: close the channel, let the worker finish everything that
is queued (it is joined), then release the lock. -/
def Sys.dropStore (y : Sys) : Sys × List Ev :=
  match y.store with
  | none => (y, [])
  | some s =>
    let w0 := { y.worker with senderAlive := false }
    -- a worker blocked in `recv` on an empty queue sees the closed channel
    let c : WCtx := { w := w0, fs := y.fs, cache := s.cache }
    let c1 := match w0.pc with
      | .idle => c.toRecv
      | _ => c
    let c2 := WCtx.runQuiet c1.w.fuel c1
    ({ y with worker := { c2.w with pc := .dead }, fs := c2.fs, store := none, locked := false }, c2.evs)

/-- `RaftLog::open` with the pending configuration. -/
def Sys.open (y : Sys) : Res Unit × Sys × List Ev :=
  if y.locked then (.err .locked, y, [])
  else
    match openStore y.cfg y.fs with
    | (.ok (s, w), fs', evs) =>
      (.ok (), { y with fs := fs', store := some s, worker := w, locked := true }, evs)
    | (.err k, fs', evs) => (.err k, { y with fs := fs' }, evs)
    | (.panic m, fs', evs) => (.panic m, { y with fs := fs' }, evs)

/-- `Dump::new`: takes the directory lock, touches no chunk file. -/
def Sys.dumpOpen (y : Sys) : Res Unit × Sys :=
  if y.locked then (.err .locked, y) else (.ok (), { y with locked := true, dump := true })

def Sys.dumpDrop (y : Sys) : Sys :=
  if y.dump then { y with locked := false, dump := false } else y

/-! ### Queries -/

inductive ReadItem
  | ok (id : LogId) (p : Bytes)
  | err (k : ErrKind)
  | panic
deriving Repr, DecidableEq, Inhabited

/-- `load_log_payload` / `DumpRaftLogIter::read_log_payload`. -/
def loadPayload (closed : List Closed) (fs : Fs) (d : LogData) : ReadItem :=
  match closed.find? (fun c => c.id == d.chunk) with
  | none => .err .notFound
  | some c =>
    match fs.readAt d.chunk (d.off - c.id) d.size with
    | none => .err .eof
    | some bs =>
      match decRecord bs with
      | .eof => .err .eof
      | .invalid => .err .invalid
      | .ok (.append id p) _ => if id = d.id then .ok d.id p else .panic
      | .ok _ _ => .panic

/-- `read(from, to)`: every index entry in the range, cache first. Returns the
items and the updated hit/miss counters. -/
def readLoop (s : Store) (fs : Fs) : List (Nat × LogData) → Nat → Nat → List ReadItem × Nat × Nat
  | [], h, m => ([], h, m)
  | (_, d) :: rest, h, m =>
    match s.cache.get d.id with
    | some p =>
      let x := readLoop s fs rest (h + 1) m
      (.ok d.id p :: x.1, x.2.1, x.2.2)
    | none =>
      let x := readLoop s fs rest h (m + 1)
      (loadPayload s.closed fs d :: x.1, x.2.1, x.2.2)

def Store.read (s : Store) (fs : Fs) (fromIdx toIdx : Nat) : List ReadItem × Store :=
  let sel := s.log.filter (fun e => fromIdx ≤ e.1 && e.1 < toIdx)
  let x := readLoop s fs sel s.hit s.miss
  (x.1, { s with hit := x.2.1, miss := x.2.2 })

/-- `dump_data().iter()`: same lookups on a snapshot, counters not shared. -/
def Store.iter (s : Store) (fs : Fs) : List ReadItem :=
  (readLoop s fs s.log 0 0).1

def Store.onDiskSize (s : Store) : Nat :=
  let first := match s.closed with
    | c :: _ => c.id
    | [] => s.openId
  s.openEnd - first

end RaftLog

namespace RaftLog

/-- The steps of a history (what a script line can do to the system). -/
inductive Step
  | call (op : Op)
  | flush (cb : Option Nat)
  | worker (out : Outcome)
  | workerIdle
  | drain
  | drop
  | openWith (cfg : Cfg)
deriving Repr, DecidableEq, Inhabited

def Sys.step (y : Sys) : Step → Sys
  | .call op => (y.call op).2.1
  | .flush cb => (y.flush cb).2.1
  | .worker out => (y.workerStep out).1
  | .workerIdle => y.workerIdle.1
  | .drain => y.drain
  | .drop => y.dropStore.1
  | .openWith cfg => ({ y with cfg := cfg }).open.2.1

def Sys.run (y : Sys) (steps : List Step) : Sys := steps.foldl Sys.step y

/-- A store freshly opened on an empty directory. -/
def Sys.fresh (cfg : Cfg) : Sys := ({ cfg := cfg } : Sys).open.2.1

end RaftLog
