/-
Record codec: mirrors `wal_record.rs`, `raft_log_state.rs` (Encode/Decode) and
the `codeq` impls for `u8`, `u32`, `u64`, `(A,B)`, `Option<T>`, `Vec<u8>`.

`Types` instantiation (fixed, see DESIGN §2.1):
LogId = (u64,u64), Vote = (u64,u64), LogPayload = Vec<u8>, UserData = Vec<u8>.
-/
import RaftLogModel.Model.Crc32
namespace RaftLog

/-! ### Big-endian integers -/

def beToNat (bs : Bytes) : Nat := bs.foldl (fun a b => a * 256 + b.toNat) 0

def natToBE : Nat → Nat → Bytes
  | 0, _ => []
  | w + 1, n => natToBE w (n / 256) ++ [UInt8.ofNat (n % 256)]

/-! ### Decoder results: `read_exact` semantics -/

/-- `ok a rest` | `eof` (= `UnexpectedEof`) | `invalid` (= any other error kind). -/
inductive DecRes (α : Type)
  | ok (a : α) (rest : Bytes)
  | eof
  | invalid
deriving Repr

def DecRes.bind {α β} (r : DecRes α) (f : α → Bytes → DecRes β) : DecRes β :=
  match r with
  | .ok a rest => f a rest
  | .eof => .eof
  | .invalid => .invalid

/-- Read a `w`-byte big-endian unsigned integer. -/
def decU (w : Nat) (bs : Bytes) : DecRes Nat :=
  if bs.length < w then .eof else .ok (beToNat (bs.take w)) (bs.drop w)

def encLogId (id : LogId) : Bytes := natToBE 8 id.term ++ natToBE 8 id.index

def decLogId (bs : Bytes) : DecRes LogId :=
  (decU 8 bs).bind fun t r1 => (decU 8 r1).bind fun i r2 => .ok ⟨t, i⟩ r2

/-- `Vec<u8>`: `u32` BE length, then the bytes. (`len as u32` wraps; payloads
≥ 4 GiB are excluded by the well-formedness predicate.) -/
def encBytes (p : Bytes) : Bytes := natToBE 4 p.length ++ p

def decBytes (bs : Bytes) : DecRes Bytes :=
  (decU 4 bs).bind fun n r =>
    if r.length < n then .eof else .ok (r.take n) (r.drop n)

/-- `Option<T>`: tag byte 0 / 1. -/
def encOpt {α} (enc : α → Bytes) : Option α → Bytes
  | none => [0]
  | some a => 1 :: enc a

def decOpt {α} (dec : Bytes → DecRes α) (bs : Bytes) : DecRes (Option α) :=
  match bs with
  | [] => .eof
  | t :: r =>
    if t = 0 then .ok none r
    else if t = 1 then (dec r).bind fun a r' => .ok (some a) r'
    else .invalid

/-! ### `RaftLogState` -/

structure RState where
  vote : Option Vote := none
  last : Option LogId := none
  committed : Option LogId := none
  purged : Option LogId := none
  userData : Option Bytes := none
deriving DecidableEq, Repr, Inhabited

def encState (s : RState) : Bytes :=
  [1] ++ encOpt encLogId s.vote ++ encOpt encLogId s.last
    ++ encOpt encLogId s.committed ++ encOpt encLogId s.purged
    ++ encOpt encBytes s.userData

def decState (bs : Bytes) : DecRes RState :=
  match bs with
  | [] => .eof
  | v :: r =>
    if v = 1 then
      (decOpt decLogId r).bind fun vote r1 =>
      (decOpt decLogId r1).bind fun last r2 =>
      (decOpt decLogId r2).bind fun committed r3 =>
      (decOpt decLogId r3).bind fun purged r4 =>
      (decOpt decBytes r4).bind fun ud r5 =>
        .ok ⟨vote, last, committed, purged, ud⟩ r5
    else .invalid

/-! ### `WALRecord` -/

inductive Record
  | saveVote (v : Vote)
  | append (id : LogId) (payload : Bytes)
  | commit (id : LogId)
  | truncateAfter (o : Option LogId)
  | purgeUpto (id : LogId)
  | state (s : RState)
deriving DecidableEq, Repr, Inhabited

def Record.tag : Record → Nat
  | .saveVote _ => 0
  | .append _ _ => 1
  | .commit _ => 2
  | .truncateAfter _ => 3
  | .purgeUpto _ => 4
  | .state _ => 5

def encBody : Record → Bytes
  | .saveVote v => encLogId v
  | .append id p => encLogId id ++ encBytes p
  | .commit id => encLogId id
  | .truncateAfter o => encOpt encLogId o
  | .purgeUpto id => encLogId id
  | .state s => encState s

/-- tag (u32 BE) ‖ body ‖ crc32(tag ‖ body) as u64 BE. -/
def encRecord (r : Record) : Bytes :=
  let tb := natToBE 4 r.tag ++ encBody r
  tb ++ natToBE 8 (crc32 tb)

def decBody (tag : Nat) (bs : Bytes) : DecRes Record :=
  match tag with
  | 0 => (decLogId bs).bind fun v r => .ok (.saveVote v) r
  | 1 => (decLogId bs).bind fun id r => (decBytes r).bind fun p r' => .ok (.append id p) r'
  | 2 => (decLogId bs).bind fun id r => .ok (.commit id) r
  | 3 => (decOpt decLogId bs).bind fun o r => .ok (.truncateAfter o) r
  | 4 => (decLogId bs).bind fun id r => .ok (.purgeUpto id) r
  | 5 => (decState bs).bind fun s r => .ok (.state s) r
  | _ => .invalid

/-- Decode one record from the front of `bs`. The checksum covers exactly the
bytes consumed for tag and body. -/
def decRecord (bs : Bytes) : DecRes Record :=
  (decU 4 bs).bind fun tag r0 =>
  (decBody tag r0).bind fun rec r1 =>
    let consumed := bs.take (bs.length - r1.length)
    (decU 8 r1).bind fun sum r2 =>
      if sum = crc32 consumed then .ok rec r2 else .invalid

/-! ### Well-formedness: values the Rust types can hold -/

def LogId.WF (id : LogId) : Prop := id.term < U64 ∧ id.index < U64

def optWF : Option LogId → Prop
  | none => True
  | some id => id.WF

def bytesWF (p : Bytes) : Prop := p.length < U32

def RState.WF (s : RState) : Prop :=
  optWF s.vote ∧ optWF s.last ∧ optWF s.committed ∧ optWF s.purged ∧
  (match s.userData with | none => True | some d => bytesWF d)

def Record.WF : Record → Prop
  | .saveVote v => v.WF
  | .append id p => id.WF ∧ bytesWF p
  | .commit id => id.WF
  | .truncateAfter o => optWF o
  | .purgeUpto id => id.WF
  | .state s => s.WF

end RaftLog
