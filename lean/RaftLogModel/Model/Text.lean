/-
Text forms shared by the driver: the canonical observation lines.
-/
import RaftLogModel.Model.Sys
import RaftLogModel.Spec.RefLog
namespace RaftLog

def hexDigit (n : Nat) : Char :=
  if n < 10 then Char.ofNat (48 + n) else Char.ofNat (87 + n)

def hexOfBytes (bs : Bytes) : String :=
  String.ofList (bs.foldr (fun b acc => hexDigit (b.toNat / 16) :: hexDigit (b.toNat % 16) :: acc) [])

def hexVal (c : Char) : Option Nat :=
  if '0' ≤ c ∧ c ≤ '9' then some (c.toNat - 48)
  else if 'a' ≤ c ∧ c ≤ 'f' then some (c.toNat - 87)
  else if 'A' ≤ c ∧ c ≤ 'F' then some (c.toNat - 55)
  else none

def bytesOfHexChars : List Char → Option Bytes
  | [] => some []
  | [_] => none
  | a :: b :: rest =>
    match hexVal a, hexVal b, bytesOfHexChars rest with
    | some x, some y, some r => some (UInt8.ofNat (x * 16 + y) :: r)
    | _, _, _ => none

/-- Pseudo-random payload `x<len>:<seed>`: byte i = (seed + 13 i + i / 256) mod 256. -/
def genBytes (len seed : Nat) : Bytes :=
  (List.range len).map fun i => UInt8.ofNat ((seed + 13 * i + i / 256) % 256)

/-- Bytes token: `.` (empty) | `x<len>:<seed>` | hex. -/
def parseBytes (tok : String) : Option Bytes :=
  if tok == "." then some []
  else match tok.toList with
    | 'x' :: rest =>
      match (String.ofList rest).splitOn ":" with
      | [l, s] => match l.toNat?, s.toNat? with
        | some l, some s => some (genBytes l s)
        | _, _ => none
      | _ => none
    | cs => bytesOfHexChars cs

def fnv64 (bs : Bytes) : UInt64 :=
  bs.foldl (fun h b => (h ^^^ b.toUInt64) * 0x100000001b3) 0xcbf29ce484222325

def hex64 (h : UInt64) : String :=
  String.ofList ((List.range 16).map fun i => hexDigit ((h.toNat / 16 ^ (15 - i)) % 16))

/-- Output form of bytes: hex up to 32 bytes, else length and hash. -/
def showBytes (bs : Bytes) : String :=
  if bs.isEmpty then "."
  else if bs.length ≤ 32 then hexOfBytes bs
  else s!"#{bs.length}:{hex64 (fnv64 bs)}"

def showId (id : LogId) : String := s!"{id.term},{id.index}"
def showOpt (o : Option LogId) : String := match o with | none => "-" | some id => showId id
def showOptBytes (o : Option Bytes) : String := match o with | none => "-" | some b => showBytes b

def parseId (tok : String) : Option LogId :=
  match tok.splitOn "," with
  | [a, b] => match a.toNat?, b.toNat? with
    | some t, some i => some ⟨t, i⟩
    | _, _ => none
  | _ => none

def parseOptId (tok : String) : Option (Option LogId) :=
  if tok == "-" then some none else (parseId tok).map some

def parseOptBytes (tok : String) : Option (Option Bytes) :=
  if tok == "-" then some none else (parseBytes tok).map some

def showState (s : RState) : String :=
  s!"vote={showOpt s.vote} last={showOpt s.last} committed={showOpt s.committed} purged={showOpt s.purged} ud={showOptBytes s.userData}"

def showRecord : Record → String
  | .saveVote v => s!"V {showId v}"
  | .append id p => s!"A {showId id} {showBytes p}"
  | .commit id => s!"C {showId id}"
  | .truncateAfter o => s!"T {showOpt o}"
  | .purgeUpto id => s!"P {showId id}"
  | .state s => s!"S {showOpt s.vote} {showOpt s.last} {showOpt s.committed} {showOpt s.purged} {showOptBytes s.userData}"

def parseRecord (toks : List String) : Option Record :=
  match toks with
  | ["V", v] => (parseId v).map .saveVote
  | ["A", id, p] => match parseId id, parseBytes p with
    | some id, some p => some (.append id p)
    | _, _ => none
  | ["C", id] => (parseId id).map .commit
  | ["T", o] => (parseOptId o).map .truncateAfter
  | ["P", id] => (parseId id).map .purgeUpto
  | ["S", v, l, c, p, u] =>
    match parseOptId v, parseOptId l, parseOptId c, parseOptId p, parseOptBytes u with
    | some v, some l, some c, some p, some u => some (.state ⟨v, l, c, p, u⟩)
    | _, _, _, _, _ => none
  | _ => none

def showErr : ErrKind → String
  | .voteReversal => "voteReversal" | .logIdReversal => "logIdReversal"
  | .nonConsecutive => "nonConsecutive" | .indexNotFound => "indexNotFound"
  | .gap => "gap" | .eof => "eof" | .invalid => "invalid" | .locked => "locked"
  | .notFound => "notFound" | .exists => "exists" | .io => "io" | .sendFailed => "sendFailed"
  | .invalidInput => "invalidInput"

def showOkFail (b : Bool) : String := if b then "ok" else "fail"

def showEv : Ev → Option String
  | .create t id ok => some s!"ev create {t} {id} {showOkFail ok}"
  | .write t id bs ok => some s!"ev write {t} {id} {bs.length} {hex64 (fnv64 bs)} {showOkFail ok}"
  | .sync t id ok => some s!"ev sync {t} {id} {showOkFail ok}"
  | .trunc t id len => some s!"ev trunc {t} {id} {len}"
  | .unlink t id ok => some s!"ev unlink {t} {id} {showOkFail ok}"
  | .cb id ok => some s!"ev cb {id} {if ok then "ok" else "err"}"
  | .cbDropped id => some s!"ev cbdrop {id}"
  | .boundary _ => none
  | .workerExit ok => some s!"ev exit {showOkFail ok}"

def showReadItem : ReadItem → String
  | .ok id p => s!"{showId id}:{showBytes p}"
  | .err k => s!"err:{showErr k}"
  | .panic => "panic"

def joinWith (sep : String) (xs : List String) : String := sep.intercalate xs

def showPc : WPc → String
  | .idle => "idle"
  | .got r => match r with
    | .write .. => "got:write"
    | .appendFile .. => "got:append_file"
    | .removeChunks .. => "got:remove_chunks"
  | .writing .. => "write"
  | .syncOld .. => "sync"
  | .syncNew .. => "sync"
  | .unlinking .. => "unlink"
  | .dead => "dead"

def showChunkStat (offs : List Nat) (st : RState) : String :=
  s!"{offs.headD 0}:{recordsCount offs}:{lastOff offs}:{chunkSize offs}:[{showState st}]"

def Store.showStat (s : Store) : String :=
  let closed := joinWith " " (s.closed.map fun c => showChunkStat c.offsets c.state)
  s!"stat closed=({closed}) open={showChunkStat s.openOffsets s.st} cache={s.cache.items.length}:{s.cache.size}:{s.cache.maxItems}:{s.cache.capacity}:{showOpt s.cache.lastEvictable} hm={s.hit}:{s.miss}"

def Store.showRes (s : Store) : String :=
  "res " ++ joinWith " " (s.cache.items.map fun e => s!"{showId e.1}:{e.2.length}")

def Fs.showDir (fs : Fs) : String :=
  "dir " ++ joinWith " " (fs.linkedIds.map fun id =>
    match fs.find id with
    | some f => s!"{id}:{f.data.length}:{f.durable}:{hex64 (fnv64 f.data)}"
    | none => s!"{id}:?")

end RaftLog
