/-
The flush worker (`flush_worker.rs`, after the `fix:` commits) as a small-step
machine. Park points: right after `recv` (the gate of hook H2) and at every
`write` / `fdatasync` / `unlink` system call. `Worker.step out` performs the
action the worker is parked at, with outcome `out`, and runs to the next park
point.
-/
import RaftLogModel.Model.Fs
namespace RaftLog

inductive Outcome
  | ok
  | eio
  | short (k : Nat)   -- a short `write` of `k` bytes (`0 < k < len`)
deriving Repr, DecidableEq, Inhabited

structure FileEnt where
  id : Nat
  prevLast : Option LogId
deriving Repr, DecidableEq, Inhabited

/-- Observable events. -/
inductive Ev
  | create (thread : String) (id : Nat) (ok : Bool)
  | write (thread : String) (id : Nat) (bs : Bytes) (ok : Bool)
  | sync (thread : String) (id : Nat) (ok : Bool)
  | trunc (thread : String) (id : Nat) (len : Nat)
  | unlink (thread : String) (id : Nat) (ok : Bool)
  | cb (id : Nat) (ok : Bool)
  | cbDropped (id : Nat)
  | boundary (o : Option LogId)
  | workerExit (ok : Bool)
deriving Repr, DecidableEq, Inhabited

inductive WPc
  | idle
  | got (r : WReq)
  /-- parked at `write` of `todo.head` to the newest file -/
  | writing (todo : List Bytes) (batch : List WReq) (tail : Option WReq)
  /-- parked at `fdatasync` of `files[0]` while `files.length > 1` -/
  | syncOld (batch : List WReq) (tail : Option WReq)
  /-- parked at `fdatasync` of the newest (only) file; boundary already set -/
  | syncNew (batch : List WReq) (tail : Option WReq)
  /-- parked at `unlink` of `ids.head` -/
  | unlinking (ids : List Nat)
  | dead
deriving Repr, DecidableEq, Inhabited

structure Worker where
  files : List FileEnt
  pc : WPc := .idle
  queue : List WReq := []
  lastSyncFailed : Bool := false
  /-- chunk ids whose removal was postponed because the sync before it failed -/
  postponed : List Nat := []
  /-- the sending half of the channel still exists -/
  senderAlive : Bool := true
deriving Repr, DecidableEq, Inhabited

def WReq.isWrite : WReq → Bool
  | .write .. => true
  | _ => false

def WReq.cbId : WReq → Option Nat
  | .write _ _ cb => cb
  | _ => none

def WReq.data : WReq → Bytes
  | .write _ d _ => d
  | _ => []

/-- What the shared state a worker step touches looks like. -/
structure WCtx where
  w : Worker
  fs : Fs
  cache : Cache
  evs : List Ev := []
deriving Repr

def WCtx.emit (c : WCtx) (e : Ev) : WCtx := { c with evs := c.evs ++ [e] }

def insertNatAsc := insertNat

/-- The worker thread ends with an error: the batch in hand, the trailing
request and everything still queued are dropped, with their callbacks. -/
def WCtx.die (c : WCtx) (inHand : List WReq) : WCtx :=
  let dropped := (inHand ++ c.w.queue).filterMap WReq.cbId
  let sorted := dropped.foldl (fun acc i => insertNat i acc) []
  let c1 := sorted.foldl (fun c i => c.emit (.cbDropped i)) c
  ({ c1 with w := { c1.w with pc := .dead, queue := [] } }).emit (.workerExit false)

/-- Back to `recv`: take the next request (and park at the gate), wait, or
quit when the channel is closed and empty. -/
def WCtx.toRecv (c : WCtx) : WCtx :=
  match c.w.queue with
  | r :: q => { c with w := { c.w with pc := .got r, queue := q } }
  | [] =>
    if c.w.senderAlive then { c with w := { c.w with pc := .idle } }
    else ({ c with w := { c.w with pc := .dead } }).emit (.workerExit true)

/-- Handle the non-write request (`handle_non_flush_request`), then `recv`. -/
def WCtx.nonFlush (c : WCtx) (r : WReq) : WCtx :=
  match r with
  | .appendFile id prevLast =>
    ({ c with w := { c.w with files := c.w.files ++ [FileEnt.mk id prevLast] } }).toRecv
  | .removeChunks ids =>
    let all := c.w.postponed ++ ids
    if c.w.lastSyncFailed then ({ c with w := { c.w with postponed := all } }).toRecv
    else match all with
      | [] => c.toRecv
      | _ => { c with w := { c.w with pc := .unlinking all, postponed := [] } }
  | .write .. => c.toRecv  -- unreachable

/-- After the sync attempt: record the result, send the callbacks in batch
order, then the trailing request. -/
def WCtx.finishBatch (c : WCtx) (batch : List WReq) (tail : Option WReq) (ok : Bool) : WCtx :=
  let c1 := { c with w := { c.w with lastSyncFailed := !ok } }
  let c2 := (batch.filterMap WReq.cbId).foldl (fun c i => c.emit (.cb i ok)) c1
  -- a removal postponed by a failed sync is retried after every later batch: handled like an
  -- empty `removeChunks` request behind the batch (a no-op while the last sync failed)
  match tail with
  | some (.appendFile id prevLast) =>
    ({ c2 with w := { c2.w with files := c2.w.files ++ [FileEnt.mk id prevLast] } }).nonFlush (.removeChunks [])
  | some r => c2.nonFlush r
  | none => c2.nonFlush (.removeChunks [])

/-- `sync_all_files`: park at the first `fdatasync`. -/
def WCtx.startSync (c : WCtx) (batch : List WReq) (tail : Option WReq) : WCtx :=
  match c.w.files with
  | [] => c.finishBatch batch tail true
  | [f] =>
    let cache := c.cache.setLastEvictable f.prevLast
    ({ c with cache := cache, w := { c.w with pc := .syncNew batch tail } }).emit (.boundary f.prevLast)
  | _ => { c with w := { c.w with pc := .syncOld batch tail } }

def WCtx.startWrites (c : WCtx) (batch : List WReq) (tail : Option WReq) : WCtx :=
  let todo := (batch.map WReq.data).filter (fun d => !d.isEmpty)
  match todo with
  | [] => c.startSync batch tail
  | _ => { c with w := { c.w with pc := .writing todo batch tail } }

/-- `try_iter().take(1024)`: following writes join the batch; the first
non-write request is taken too and handled after the batch. -/
def collectBatch : Nat → List WReq → List WReq × Option WReq × List WReq
  | 0, q => ([], none, q)
  | _, [] => ([], none, [])
  | n + 1, r :: q =>
    if r.isWrite then
      let x := collectBatch n q
      (r :: x.1, x.2.1, x.2.2)
    else ([], some r, q)

def newestId (files : List FileEnt) : Nat :=
  match files.getLast? with
  | some f => f.id
  | none => 0

/-- One scheduler step of the worker. -/
def WCtx.step (c : WCtx) (out : Outcome) : WCtx :=
  match c.w.pc with
  | .dead => c
  | .idle => c.toRecv
  | .got r =>
    if r.isWrite then
      let x := collectBatch 1024 c.w.queue
      ({ c with w := { c.w with queue := x.2.2 } }).startWrites (r :: x.1) x.2.1
    else c.nonFlush r
  | .writing todo batch tail =>
    match todo with
    | [] => c.startSync batch tail
    | d :: rest =>
      let fid := newestId c.w.files
      match out with
      | .ok =>
        let c1 := ({ c with fs := c.fs.write fid d }).emit (.write "w" fid d true)
        match rest with
        | [] => c1.startSync batch tail
        | _ => { c1 with w := { c1.w with pc := .writing rest batch tail } }
      | .short k =>
        let k := if k = 0 then 1 else k
        if k < d.length then
          let c1 := ({ c with fs := c.fs.write fid (d.take k) }).emit (.write "w" fid (d.take k) true)
          { c1 with w := { c1.w with pc := .writing (d.drop k :: rest) batch tail } }
        else
          let c1 := ({ c with fs := c.fs.write fid d }).emit (.write "w" fid d true)
          match rest with
          | [] => c1.startSync batch tail
          | _ => { c1 with w := { c1.w with pc := .writing rest batch tail } }
      | .eio =>
        (c.emit (.write "w" fid d false)).die (batch ++ tail.toList)
  | .syncOld batch tail =>
    match c.w.files with
    | f :: rest =>
      match out with
      | .eio => (c.emit (.sync "w" f.id false)).finishBatch batch tail false
      | _ =>
        let c1 := ({ c with fs := c.fs.sync f.id, w := { c.w with files := rest } }).emit (.sync "w" f.id true)
        c1.startSync batch tail
    | [] => c.finishBatch batch tail true
  | .syncNew batch tail =>
    match c.w.files with
    | f :: _ =>
      match out with
      | .eio => (c.emit (.sync "w" f.id false)).finishBatch batch tail false
      | _ => (({ c with fs := c.fs.sync f.id }).emit (.sync "w" f.id true)).finishBatch batch tail true
    | [] => c.finishBatch batch tail true
  | .unlinking ids =>
    match ids with
    | [] => c.toRecv
    | i :: rest =>
      match out with
      | .eio => (c.emit (.unlink "w" i false)).die []
      | _ =>
        let c1 := ({ c with fs := c.fs.unlink i }).emit (.unlink "w" i true)
        match rest with
        | [] => c1.toRecv
        | _ => { c1 with w := { c1.w with pc := .unlinking rest } }

/-- The worker is blocked in `recv` on an empty queue (or gone). -/
def Worker.quiet (w : Worker) : Bool :=
  match w.pc with
  | .idle => w.queue.isEmpty
  | .dead => true
  | _ => false

/-- Run with all-ok outcomes until quiet. Every step makes progress on a finite
amount of work; `fuel` bounds the loop. -/
def WCtx.runQuiet : Nat → WCtx → WCtx
  | 0, c => c
  | n + 1, c => if c.w.quiet then c else WCtx.runQuiet n (c.step .ok)

/-- A generous bound on the steps needed to drain the worker. -/
def Worker.fuel (w : Worker) : Nat :=
  let reqCost : WReq → Nat := fun r => match r with
    | .write _ d _ => d.length + 4
    | .appendFile .. => 2
    | .removeChunks ids => ids.length + 2
  let pcCost : Nat := match w.pc with
    | .writing todo batch tail => (todo.map List.length).foldl (· + ·) 0 + 4 * (batch.length + 2) + (tail.toList.map reqCost).foldl (· + ·) 0
    | .syncOld batch tail => 4 * (batch.length + 2) + (tail.toList.map reqCost).foldl (· + ·) 0
    | .syncNew batch tail => 4 * (batch.length + 2) + (tail.toList.map reqCost).foldl (· + ·) 0
    | .unlinking ids => ids.length + 2
    | .got r => reqCost r + 2
    | _ => 2
  pcCost + (w.queue.map reqCost).foldl (· + ·) 0 + 2 * w.files.length + w.postponed.length + 8

end RaftLog
