/-
Basic vocabulary of the model: bytes, log ids, votes, results.
Import-free (core only) so that the driver links as a `lean_exe`.
-/
namespace RaftLog

abbrev Bytes := List UInt8

/-- `(term, index)`; ordered lexicographically, exactly Rust's tuple order. -/
structure LogId where
  term : Nat
  index : Nat
deriving DecidableEq, Repr, Inhabited

/-- `(term, voted_for)`; same order. -/
abbrev Vote := LogId

def LogId.lt (a b : LogId) : Bool :=
  a.term < b.term || (a.term == b.term && a.index < b.index)

def LogId.le (a b : LogId) : Bool :=
  a.term < b.term || (a.term == b.term && a.index ≤ b.index)

/-- Rust's `Option<T>: Ord`: `None < Some _`. -/
def optLt (a b : Option LogId) : Bool :=
  match a, b with
  | none, none => false
  | none, some _ => true
  | some _, none => false
  | some x, some y => x.lt y

def optLe (a b : Option LogId) : Bool :=
  match a, b with
  | none, _ => true
  | some _, none => false
  | some x, some y => x.le y

/-- `T::next_log_index`: `None ↦ 0`, `Some id ↦ id.index + 1` (checked add: the
caller decides what overflow means; see `nextIndexChecked`). -/
def nextIndex (o : Option LogId) : Nat :=
  match o with
  | none => 0
  | some id => id.index + 1

def U64 : Nat := 2 ^ 64
def U32 : Nat := 2 ^ 32

/-- Error kinds (messages are never compared). -/
inductive ErrKind
  | voteReversal | logIdReversal | nonConsecutive | indexNotFound
  | gap | eof | invalid | locked | notFound | exists | io | sendFailed | invalidInput
deriving DecidableEq, Repr, Inhabited

/-- Result of a public call: value, error, or panic at a named site. -/
inductive Res (α : Type)
  | ok (a : α)
  | err (k : ErrKind)
  | panic (site : String)
deriving Repr, DecidableEq

def Res.isPanic {α} : Res α → Bool
  | .panic _ => true
  | _ => false

def Res.isOk {α} : Res α → Bool
  | .ok _ => true
  | _ => false

end RaftLog
