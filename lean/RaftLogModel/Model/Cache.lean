/-
`PayloadCache` (`payload_cache.rs`): a `BTreeMap<LogId, Payload>` modelled as an
association list kept in ascending key order, a byte counter, two limits and
the eviction boundary.
-/
import RaftLogModel.Model.State
namespace RaftLog

structure Cache where
  maxItems : Nat
  capacity : Nat
  size : Nat := 0
  items : List (LogId × Bytes) := []
  lastEvictable : Option LogId := none
deriving Repr, DecidableEq

/-- `BTreeMap::insert`: replace on equal key, else insert in key order. -/
def insertSorted (k : LogId) (v : Bytes) : List (LogId × Bytes) → List (LogId × Bytes)
  | [] => [(k, v)]
  | (k', v') :: rest =>
    if k.lt k' then (k, v) :: (k', v') :: rest
    else if k = k' then (k, v) :: rest
    else (k', v') :: insertSorted k v rest

/-- `try_evict`: while over a limit, drop the first entry if it is at or below
the boundary. -/
def evictLoop (maxItems capacity : Nat) (le : Option LogId) :
    Nat → List (LogId × Bytes) → Nat × List (LogId × Bytes)
  | size, [] => (size, [])
  | size, (id, p) :: rest =>
    if (decide (rest.length + 1 > maxItems) || decide (size > capacity)) && optLe (some id) le then
      evictLoop maxItems capacity le (size - p.length) rest
    else (size, (id, p) :: rest)

def Cache.tryEvict (c : Cache) : Cache :=
  let r := evictLoop c.maxItems c.capacity c.lastEvictable c.size c.items
  { c with size := r.1, items := r.2 }

/-- `insert`: the byte counter is increased even when the key was present
(as in the code; the store never inserts a resident key, see `Proofs`). -/
def Cache.insert (c : Cache) (k : LogId) (v : Bytes) : Cache :=
  ({ c with items := insertSorted k v c.items, size := c.size + v.length }).tryEvict

/-- `drain_evictable`: drop every leading entry at or below the boundary. -/
def drainLoop (le : Option LogId) : Nat → List (LogId × Bytes) → Nat × List (LogId × Bytes)
  | size, [] => (size, [])
  | size, (id, p) :: rest =>
    if optLe (some id) le then drainLoop le (size - p.length) rest
    else (size, (id, p) :: rest)

def Cache.drainEvictable (c : Cache) : Cache :=
  let r := drainLoop c.lastEvictable c.size c.items
  { c with size := r.1, items := r.2 }

def Cache.get (c : Cache) (k : LogId) : Option Bytes :=
  (c.items.find? (fun e => e.1 = k)).map (·.2)

/-- `truncate_after key`: pop from the back while `key < id`. Works on the
reversed list. -/
def truncLoop (key : LogId) : Nat → List (LogId × Bytes) → Nat × List (LogId × Bytes)
  | size, [] => (size, [])
  | size, (id, p) :: rest =>
    if key.lt id then truncLoop key (size - p.length) rest
    else (size, (id, p) :: rest)

def Cache.truncateAfter (c : Cache) (key : LogId) : Cache :=
  let r := truncLoop key c.size c.items.reverse
  { c with size := r.1, items := r.2.reverse }

/-- `purge_upto key`: pop from the front while `id ≤ key ∧ id ≤ boundary`. -/
def purgeLoop (key : LogId) (le : Option LogId) :
    Nat → List (LogId × Bytes) → Nat × List (LogId × Bytes)
  | size, [] => (size, [])
  | size, (id, p) :: rest =>
    if id.le key && optLe (some id) le then purgeLoop key le (size - p.length) rest
    else (size, (id, p) :: rest)

def Cache.purgeUpto (c : Cache) (key : LogId) : Cache :=
  let r := purgeLoop key c.lastEvictable c.size c.items
  { c with size := r.1, items := r.2 }

def Cache.clear (c : Cache) : Cache := { c with items := [], size := 0 }

def Cache.setLastEvictable (c : Cache) (o : Option LogId) : Cache :=
  { c with lastEvictable := o }

end RaftLog
