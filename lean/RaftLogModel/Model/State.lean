/-
`RaftLogState::apply` and its five validation rules (`raft_log_state.rs`).
-/
import RaftLogModel.Model.Codec
namespace RaftLog

/-- `T::next_log_index` with Rust's checked `+ 1`: `none` = arithmetic overflow
(a panic in a build with overflow checks). -/
def nextIndexChecked (o : Option LogId) : Option Nat :=
  match o with
  | none => some 0
  | some id => if id.index + 1 < U64 then some (id.index + 1) else none

def RState.updateVote (s : RState) (v : Vote) : Res RState :=
  if optLe s.vote (some v) then .ok { s with vote := some v } else .err .voteReversal

def RState.append (s : RState) (id : LogId) : Res RState :=
  if optLe (some id) s.last then .err .logIdReversal
  else
    match s.last with
    | none => .ok { s with last := some id }
    | some l =>
      match nextIndexChecked (some l) with
      | none => .panic "next_log_index overflow (append)"
      | some expected =>
        if expected != id.index then .err .nonConsecutive
        else .ok { s with last := some id }

def RState.commit (s : RState) (id : LogId) : Res RState :=
  if optLt (some id) s.committed then .err .logIdReversal
  else .ok { s with committed := some id }

def RState.truncateAfter (s : RState) (o : Option LogId) : RState :=
  if optLt o s.last then { s with last := o } else s

def RState.purge (s : RState) (id : LogId) : RState :=
  let s1 := if optLt s.purged (some id) then { s with purged := some id } else s
  if optLt s1.last (some id) then { s1 with last := some id } else s1

def RState.apply (s : RState) (r : Record) : Res RState :=
  match r with
  | .saveVote v => s.updateVote v
  | .append id _ => s.append id
  | .commit id => s.commit id
  | .truncateAfter o => .ok (s.truncateAfter o)
  | .purgeUpto id => .ok (s.purge id)
  | .state st => .ok st

end RaftLog
