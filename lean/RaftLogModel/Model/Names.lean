/-
Chunk file names (`config.rs`, `num.rs`): `r-` + the chunk id as 20 decimal
digits grouped in threes by `_` + `.wal`, and the parser used when the
directory is listed.
-/
import RaftLogModel.Model.Basic
namespace RaftLog

def digitChar (d : Nat) : Char := Char.ofNat (48 + d)

/-- Decimal digits of `n`, most significant first, exactly `w` of them
(the low `w` digits; `w = 20` covers every u64). -/
def digitsFixed : Nat → Nat → List Char
  | 0, _ => []
  | w + 1, n => digitsFixed w (n / 10) ++ [digitChar (n % 10)]

/-- `format!("{:0width$}", n)`: at least `w` digits. For `n < 10^w` exactly `w`. -/
def digitsPadded (w n : Nat) : List Char :=
  if n < 10 ^ w then digitsFixed w n else (toString n).toList

/-- `format_grouped`: an underscore before every group of three counted from
the right end (not at the very beginning). -/
def groupThrees (s : List Char) : List Char :=
  let len := s.length
  (s.zipIdx.foldl (fun acc (c, i) => if i > 0 ∧ (len - i) % 3 = 0 then acc ++ ['_', c] else acc ++ [c]) [])

def formatPadU64 (n : Nat) : List Char := groupThrees (digitsPadded 20 n)

def chunkFileName (id : Nat) : List Char := "r-".toList ++ formatPadU64 id ++ ".wal".toList

def stripSuffix (suf s : List Char) : Option (List Char) :=
  if suf.isSuffixOf s then some (s.take (s.length - suf.length)) else none

def stripPrefix (pre s : List Char) : Option (List Char) :=
  if pre.isPrefixOf s then some (s.drop pre.length) else none

def isAsciiDigit (c : Char) : Bool := '0' ≤ c && c ≤ '9'

def digitsValue (ds : List Char) : Nat := ds.foldl (fun a c => a * 10 + (c.toNat - 48)) 0

/-- `parse_chunk_file_name`: `.wal` suffix, `r-` prefix, 26 characters between,
the ASCII digits among them parsed as a u64 (non-digits are dropped; no digit
at all or a value ≥ 2^64 is an error). -/
def parseChunkFileName (name : List Char) : Option Nat :=
  match stripSuffix ".wal".toList name with
  | none => none
  | some s1 =>
    match stripPrefix "r-".toList s1 with
    | none => none
    | some s2 =>
      if s2.length ≠ 26 then none
      else
        let ds := s2.filter isAsciiDigit
        if ds.isEmpty then none
        else
          let v := digitsValue ds
          if v < U64 then some v else none

end RaftLog
