/-
The reference specification: a plain in-memory Raft log. Short enough to read
in minutes. It is the oracle for C01, C02, C03, C06, C07, C10.
-/
import RaftLogModel.Model.Store
namespace RaftLog

structure RefLog where
  vote : Option Vote := none
  last : Option LogId := none
  committed : Option LogId := none
  purged : Option LogId := none
  userData : Option Bytes := none
  /-- live entries, oldest first -/
  entries : List (LogId × Bytes) := []
deriving Repr, DecidableEq, Inhabited

def RefLog.state (r : RefLog) : RState :=
  ⟨r.vote, r.last, r.committed, r.purged, r.userData⟩

def RefLog.entryAt (r : RefLog) (idx : Nat) : Option (LogId × Bytes) :=
  r.entries.find? (fun e => e.1.index = idx)

/-- One entry: accepted iff its id is greater than `last` and, when there is a
`last`, its index is the next one. -/
def RefLog.append1 (r : RefLog) (id : LogId) (p : Bytes) : Except ErrKind RefLog :=
  if optLe (some id) r.last then .error .logIdReversal
  else match r.last with
    | some l => if l.index + 1 ≠ id.index then .error .nonConsecutive
                else .ok { r with last := some id, entries := r.entries ++ [(id, p)] }
    | none => .ok { r with last := some id, entries := r.entries ++ [(id, p)] }

def RefLog.appendAll (r : RefLog) : List (LogId × Bytes) → Except ErrKind RefLog
  | [] => .ok r
  | (id, p) :: rest =>
    match r.append1 id p with
    | .ok r' => r'.appendAll rest
    | .error k => .error k

/-- Keep the entries before `idx`; `last` falls back to the id before `idx`. -/
def RefLog.truncateTo (r : RefLog) (o : Option LogId) : RefLog :=
  { r with
    entries := r.entries.filter (fun e => e.1.index < nextIndex o),
    last := if optLt o r.last then o else r.last }

def RefLog.call (r : RefLog) (op : Op) : Except ErrKind RefLog :=
  match op with
  | .saveVote v => if optLe r.vote (some v) then .ok { r with vote := some v } else .error .voteReversal
  | .commit id => if optLt (some id) r.committed then .error .logIdReversal
                  else .ok { r with committed := some id }
  | .saveUserData d => .ok { r with userData := d }
  | .append es => r.appendAll es
  | .truncate idx =>
    if idx = nextIndex r.purged then .ok (r.truncateTo r.purged)
    else if idx = 0 then .error .indexNotFound
    else match r.entryAt (idx - 1) with
      | none => .error .indexNotFound
      | some e => .ok (r.truncateTo (some e.1))
  | .purge upto =>
    if upto.index < nextIndex r.purged then .ok r
    else .ok { r with
      purged := if optLt r.purged (some upto) then some upto else r.purged,
      last := if optLt r.last (some upto) then some upto else r.last,
      entries := r.entries.filter (fun e => upto.index < e.1.index) }

def RefLog.read (r : RefLog) (fromIdx toIdx : Nat) : List (LogId × Bytes) :=
  r.entries.filter (fun e => fromIdx ≤ e.1.index && e.1.index < toIdx)

/-- Raft-legal next operation (DESIGN Appendix D). Everything the spec accepts
is legal except purges that contradict the log: a purge must be a no-op, name
a live entry, or lie beyond `last` in both id and index. -/
def RefLog.legal (r : RefLog) (op : Op) : Bool :=
  match op with
  | .purge upto =>
    upto.index < nextIndex r.purged ||
    (match r.entryAt upto.index with
      | some e => e.1 == upto
      | none => optLt r.last (some upto) &&
          (match r.last with | some l => l.index < upto.index | none => true))
  | op => match r.call op with | .ok _ => true | .error _ => false

end RaftLog
