import RaftLogModel.Model.Text
import RaftLogModel.Props.C01
import RaftLogModel.Props.C06
import RaftLogModel.Props.C11
import RaftLogModel.Props.C12
import RaftLogModel.Props.C15
import RaftLogModel.Props.C16
