import RaftLogModel.Model.Basic
import RaftLogModel.Model.Crc32
import RaftLogModel.Model.Codec
