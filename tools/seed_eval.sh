#!/bin/bash
# usage: seed_eval.sh <ID> <n> <check ids...>
# Confirms a seeded change (tests pass with it, demo fails with it and passes without), then runs checks on /repo with it applied.
ID=$1; N=$2; shift 2
W=${MUTROOT:-/tmp/mut}/$ID; M=$W/mutation$N
[ -f $M/patch.diff ] || { echo "no $M/patch.diff"; exit 2; }
cd $W && git checkout -q -- src tests 2>/dev/null; rm -f tests/seed_demo.rs
demo=$(ls $M/demo*.rs 2>/dev/null | head -1)
cp $demo tests/seed_demo.rs
echo "--- without patch: demo"; cargo test --offline --test seed_demo 2>&1 | grep -E "^test result|error(\[|:)" | head -3
git apply $M/patch.diff || { echo "patch does not apply"; exit 2; }
echo "--- with patch: demo"; cargo test --offline --test seed_demo 2>&1 | grep -E "^test result|error(\[|:)" | head -3
rm -f tests/seed_demo.rs
echo "--- with patch: existing suite"; cargo test --offline 2>&1 | grep -E "^test result|error(\[|:)|FAILED" | sort | uniq -c | head
git checkout -q -- src tests
cd /verif
git -C /repo apply $M/patch.diff || { echo "patch does not apply to /repo"; exit 2; }
for c in "$@"; do echo "== check $c with seeded $ID/$N"; ./check $c 2>&1 | grep -E "VIOLATION|KNOWN|^OK" | cut -c1-220; done
git -C /repo checkout -- .
git -C /repo status --short
