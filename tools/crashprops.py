"""Crash / recovery / corruption properties: C03, C05, C10, C09.

Scripts are generated in two phases: a base history is run on the Lean model
alone to learn the file layout at the chosen point (`lay`: length, durable
length and record boundaries of every chunk file), then the crash image or
the corruption is expressed with absolute numbers (`fsop ...`) and the whole
script is run on the implementation and on the model."""
import re

import core
import gen
from props import (PROPS, OS_ASSUMPTIONS, U64MAX, WRITE_WORDS, QUERY_CH, primary_cmds, ret_kind,
                   oracle_spec_equal)

READALL = f"read 0 {U64MAX}"
PROBE = ["st", READALL, "dir", "vote 1000000 0", "ud aa", "flush 31337", "widle", "st", READALL,
         # an append after recovery: purge far beyond last, then the next index (always legal)
         "purge 2000000 5000000", "app 2000000,5000001,aa", "flush 31338", "widle", "st", READALL,
         "drop", "open", "st", READALL]


def layouts(named_scripts):
    """-> {name: [(id, len, durable, [boundaries])]} from the model's `lay`."""
    shards = [[] for _ in range(core.NCPU)]
    for i, s in enumerate(named_scripts):
        shards[i % core.NCPU].append(s)
    res = {}

    def job(shard):
        text = "".join(f"begin {n}\n" + "\n".join(l) + "\nst\nlay\nend\n" for n, l in shard)
        return core._run_bin(core.DRIVER, text, 600)[1]

    from concurrent.futures import ThreadPoolExecutor
    with ThreadPoolExecutor(max_workers=core.NCPU) as ex:
        for out in ex.map(job, [s for s in shards if s]):
            for name, lines in core.split_scripts(out).items():
                lay = []
                for l in lines:
                    if l.startswith("#lay "):
                        t = l.split()
                        lay.append((int(t[1]), int(t[2]), int(t[3]), [int(x) for x in t[4].split(",")]))
                    if l.startswith("st "):
                        LAST_ST[name] = l
                res[name] = lay
    return res


LAST_ST = {}


def next_append(name, payload="aa"):
    """A legal append for the state the model reports at the end of script `name`."""
    st = LAST_ST.get(name, "")
    m = re.search(r"last=(\d+),(\d+)", st)
    if not m:
        return "app 1,0," + payload
    return f"app {int(m.group(1)) + 1},{int(m.group(2)) + 1},{payload}"


def base_histories(rng, n, **kw):
    out = []
    for i in range(n):
        g = gen.HistGen(rng.fork(), **kw)
        out.append(g.script())
    return out


# ---------------------------------------------------------------------------
# C03 / C05: crash at any point, any image the crash model allows
# ---------------------------------------------------------------------------

def crash_images(rng, lay, n):
    """Up to n image descriptions (lists of fsop lines) allowed by the crash
    model for this layout: process crash, byte cuts at or above the durable
    length, zero fill from a record boundary."""
    imgs = [[]]  # process crash: everything written is kept
    cuttable = [(i, ln, du, b) for (i, ln, du, b) in lay if ln > du]
    if cuttable:
        # power loss at its worst: every file loses everything that was not synced
        imgs.append([f"fsop cut {i} {du}" for (i, ln, du, b) in cuttable])
    for _ in range(n - 1):
        ops = []
        if not cuttable:
            break
        for (i, ln, du, b) in cuttable:
            k = rng.below(5)
            if k == 0:
                continue  # this file keeps everything
            if k in (1, 2):
                cands = sorted({du, du + 1, ln - 1, (du + ln) // 2} | {x for x in b if du <= x <= ln})
                cands = [c for c in cands if du <= c <= ln]
                ops.append(f"fsop cut {i} {rng.choice(cands)}")
            elif k == 3:
                ops.append(f"fsop cut {i} {du + rng.below(ln - du + 1)}")
            else:
                bs = [x for x in b if du <= x < ln]
                if bs:
                    bb = rng.choice(bs)
                    m = rng.choice([1, 27, 28, 29, ln - bb])
                    m = max(1, min(m, ln - bb))
                    ops.append(f"fsop zero {i} {bb} {m}")
        imgs.append(ops)
    return imgs


def scripts_crash(tier, rng, prefix):
    nb = 40 if tier == "quick" else 400
    per = 6 if tier == "quick" else 12
    bases = base_histories(rng, nb, max_ops=22, worker_steps=True, queries=(), flush_prob=(1, 2),
                           weights=dict(append=40, purge=10, truncate=6, ud=3, vote=6, commit=6))
    # a quarter of the histories with injected EIO / short writes before the crash, and a quarter with
    # a rotation that fails on the caller thread (stray file with the next chunk's name)
    bases += base_histories(rng, nb // 4, max_ops=22, worker_steps=True, faults=True, queries=(),
                            flush_prob=(2, 3), weights=dict(append=45, purge=6, truncate=4))
    # histories with clean restarts (incl. restarts after failed syncs) before the crash
    bases += base_histories(rng, nb // 4, max_ops=20, worker_steps=True, faults=True, restarts=True, queries=(),
                            flush_prob=(2, 3), weights=dict(append=45, purge=6, truncate=4, restart=8))
    from props import blocked_rotation_scripts
    blocked = blocked_rotation_scripts([(f"x{i}", b) for i, b in enumerate(bases[: nb // 4])], rng, "t")
    bases += [[l for l in b if l not in ("stat", "dir")] for _, b in blocked]  # ends with flush 9997, widle
    # crash points: after any line past `open`; and, for some of them, every amount of further
    # worker progress (0..k released steps) so that the crash falls between any two of its calls
    named = []
    for bi, b in enumerate(bases):
        pts = sorted({2 + rng.below(max(1, len(b) - 2)) for _ in range(per)} | {len(b)})
        for p in pts:
            named.append((f"{prefix}b{bi}p{p}", b[:p]))
        fl = [i + 1 for i, l in enumerate(b) if l.startswith("flush")]
        for p in ([fl[rng.below(len(fl))]] if fl else []):
            for k in range(1, 9 if tier == "quick" else 14):
                named.append((f"{prefix}b{bi}p{p}w{k}", b[:p] + ["w ok"] * k))
            # one injected EIO at every position of the worker's progress after that flush, then
            # the worker runs on (later flushes may be acknowledged) before the crash
            if bi % 3 == 0:
                for k in range(0, 7 if tier == "quick" else 12):
                    named.append((f"{prefix}b{bi}p{p}e{k}", b[:p] + ["w ok"] * k + ["w eio", "widle"]))
    # a large unsynced tail (one payload of more than 64 KiB, or a batch of that size): written by the
    # worker, not yet synced, then lost as a whole or zero-filled from its record boundary
    big = []
    for j in range(2 if tier == "quick" else 8):
        sz = rng.choice([65600, 70001, 100000])
        if j % 2 == 0:
            tail = [f"app 1,2,x{sz}:{rng.below(200)}"]
        else:
            tail = ["app " + " ".join(f"1,{2 + x},x700:{x}" for x in range(sz // 700 + 2))]
        big.append((f"{prefix}big{j}", [rng.choice(["cfg", "cfg mr=5", "cfg ms=200000"]), "open", "app 1,0,aa 1,1,bb", "flush 1",
                                       "widle"] + tail + ["flush 2", "w ok", "w ok"]))
    named += big
    # more than a queue-full of requests against a slow worker, then an acknowledged flush
    named.append((f"{prefix}burst", ["cfg", "open", f"burst {1100 + rng.below(300)} 1 0", "flush 9000", "widle"]))
    lays = layouts(named)
    out = []
    for name, pre in named:
        lay = lays.get(name, [])
        if "big" in name:
            # the whole unsynced tail of the newest file zero-filled, from every boundary at or above durable
            (i, ln, du, b) = lay[-1] if lay else (0, 0, 0, [])
            for bb in [x for x in b if du <= x < ln][:3]:
                out.append((f"{name}z{bb}", pre + ["crash", f"fsop zero {i} {bb} {ln - bb}", "fsop settle", "dir", "open"] + PROBE))
        for k, ops in enumerate(crash_images(rng, lay, 3 if tier == "quick" else 5)):
            reopen_cfg = []
            if prefix == "c03" and (k + len(pre)) % 5 == 0:
                # recovery with tail truncation disabled: it may refuse, but whenever it opens the
                # state is an acknowledged prefix and stays one across further writes and a restart
                c0 = next((l for l in pre if l.startswith("cfg")), "cfg")
                reopen_cfg = [(c0 + " tr=0").replace("tr=1 ", "")]
            out.append((f"{name}i{k}", pre + ["crash"] + ops + ["fsop settle", "dir"] + reopen_cfg + ["open"] +
                        (PROBE if (k + len(pre)) % 3 else PROBE_B)))
    return out, {"bases": nb, "crash_points": len(named)}


def scripts_c05_recovery(tier, rng):
    """Crash during recovery itself: after a crash image has been opened (which may
    truncate, remove and create files), crash again right away, optionally with the
    freshly created chunk cut inside its head record or not yet created."""
    nb = 25 if tier == "quick" else 250
    bases = base_histories(rng, nb, max_ops=18, worker_steps=True, queries=(), flush_prob=(1, 2))
    named = []
    for bi, b in enumerate(bases):
        for p in sorted({2 + rng.below(max(1, len(b) - 2)) for _ in range(3)}):
            named.append((f"c05r{bi}p{p}", b[:p]))
    lays = layouts(named)
    stage1 = []
    for name, pre in named:
        imgs = crash_images(rng, lays.get(name, []), 3)
        ops = imgs[rng.below(len(imgs))]
        stage1.append((name, pre + ["crash"] + ops + ["fsop settle", "open"]))
    lays2 = layouts(stage1)
    out = []
    for name, pre in stage1:
        lay = lays2.get(name, [])
        newest = lay[-1] if lay else None
        variants = [[]]
        if newest and newest[2] == 0:  # created by this recovery, not yet synced
            variants.append([f"fsop cut {newest[0]} {rng.below(newest[1] + 1)}"])
            variants.append([f"fsop cut {newest[0]} 0"])
        for k, v in enumerate(variants):
            out.append((f"{name}v{k}", pre + ["crash"] + v + ["fsop settle", "dir", "open"] +
                        (PROBE if k % 2 == 0 else PROBE_B)))
    return out


PROBE_B = ["st", READALL, "dir",
           # the very first write after recovery is an append
           "purge 2000000 5000000", "app 2000000,5000001,aa", "vote 1000000 0", "flush 31337", "widle", "st", READALL,
           "drop", "open", "st", READALL]


def find_open_after(prim, ig, marker):
    """index of the first `open` after the last `marker` command."""
    idx = [i for i, c in enumerate(prim) if c.split()[0] == marker]
    if not idx:
        return None
    for i in range(idx[-1], len(prim)):
        if prim[i] == "open":
            return i if i < len(ig) else None
    return None


def oracle_c03(script, ig, mg):
    """If the store opens after the crash, its state and entries are those of
    a prefix of the writes issued, no shorter than what had been acknowledged."""
    prim = primary_cmds(script)
    if "crash" not in script or any("legal no" in x for g in mg for x in g.info):
        return []  # no crash, or an image the crash model does not allow
    # first open after the first crash (`crash` itself prints nothing)
    c0 = len(primary_cmds(script[:script.index("crash")]))
    i = next((j for j in range(c0, len(prim)) if prim[j] == "open"), None)
    if i is None or i >= len(ig) or i >= len(mg):
        return []
    if ig[i].line != "open ok":
        return []  # C05's subject
    cands = [s.split(" ", 2)[2] for s in mg[i].spec if s.startswith("cand ")]
    rng_line = next((s for s in mg[i].spec if s.startswith("range ")), None)
    if rng_line is None or i + 2 >= len(ig):
        return []
    st, rd = ig[i + 1].line, ig[i + 2].line
    if not (st.startswith("st ") and rd.startswith("read ")):
        return []
    got = f"{st} | {rd}"
    if got not in cands:
        return [("recovered-state-is-no-acknowledged-prefix",
                 {"group": i, "recovered": got, "allowed": rng_line, "candidates": cands[:6]})]
    # the lower bound from the implementation's OWN acknowledgements: every flush whose callback
    # reported success on the implementation covers the writes issued before it
    flushed = {}
    for g in mg[:i]:
        for x in g.info:
            if x.startswith("flushed "):
                t = x.split()
                flushed[t[1]] = int(t[2])
    acked = 0
    for g in ig[:i]:
        for e in g.evs:
            t = e.split()
            if len(t) == 4 and t[1] == "cb" and t[3] == "ok" and t[2] in flushed:
                acked = max(acked, flushed[t[2]])
    numbered = {}
    for s_ in mg[i].spec:
        if s_.startswith("cand "):
            p_ = s_.split(" ", 2)
            numbered.setdefault(p_[2], int(p_[1]))
    best = max(int(p_.split(" ", 2)[1]) for p_ in mg[i].spec if p_.startswith("cand ") and p_.split(" ", 2)[2] == got)
    if best < acked:
        return [("acknowledged-write-forgotten-after-crash",
                 {"group": i, "recovered_prefix": best, "acknowledged_prefix": acked, "recovered": got})]
    return oracle_spec_equal({"st", "read", "ret"}, skip_d2=True)(script, ig, mg)


def oracle_c05(script, ig, mg):
    """Every crash image opens, accepts writes, acknowledges a flush, and
    survives another restart with the state the reference log predicts."""
    prim = primary_cmds(script)
    fails = []
    if "crash" not in script or any("legal no" in x for g in mg for x in g.info):
        return []  # no crash, or an image the crash model does not allow
    c0 = len(primary_cmds(script[:script.index("crash")]))
    if len(ig) <= c0:
        return []  # the script stopped (worker death / panic) before the crash was reached
    crashed = True
    for i, c in enumerate(prim):
        if i >= len(ig):
            break
        if i < c0:
            continue
        line = ig[i].line
        if c == "open" and line != "open ok":
            cls = "open-failed-after-crash" if "panic" not in line else "recovery-panicked"
            if line == "open err gap" and i < len(mg) and mg[i].line == line and \
                    any(x.startswith("gap ") for x in mg[i].info):
                # in an image the crash model allows, files that do not abut can only come from a
                # chunk whose tail was not (durably) written when the next file was created
                cls = "rotation-gap-torn-predecessor"
            fails.append((cls, {"group": i, "line": line, "info": mg[i].info if i < len(mg) else []}))
            return fails
        if c.split()[0] in WRITE_WORDS and not line.startswith("ret ok"):
            fails.append(("write-refused-after-recovery", {"group": i, "cmd": c, "line": line}))
            return fails
        if "panic" in line:
            fails.append(("panic-after-recovery", {"group": i, "cmd": c, "line": line}))
            return fails
    if crashed and any(c == "flush 31337" for c in prim):
        evs = [e for g in ig for e in g.evs]
        if "ev cb 31337 ok" not in evs:
            fails.append(("flush-not-acknowledged-after-recovery", {}))
            return fails
    return oracle_spec_equal({"st", "read", "ret"}, skip_d2=True)(script, ig, mg)


# ---------------------------------------------------------------------------
# C10: cut / zero tail of the newest chunk of a quiescent image
# ---------------------------------------------------------------------------

def scripts_c10(tier, rng):
    nb = 25 if tier == "quick" else 250
    bases = base_histories(rng, nb, max_ops=16, worker_steps=False, queries=(), restarts=True,
                           weights=dict(append=40, purge=6, truncate=6, restart=5))
    named = [(f"c10b{i}", b + ["flush 9000", "widle", "drop"]) for i, b in enumerate(bases)]
    lays = layouts(named)
    out = []
    meta = {}
    for name, pre in named:
        lay = lays.get(name, [])
        if not lay:
            continue
        nid, ln, du, bnd = lay[-1]
        cuts = set(bnd) | {b - 1 for b in bnd if b > 0} | {b + 1 for b in bnd if b < ln} | {0, ln}
        if tier == "quick":
            extra = {rng.below(ln + 1) for _ in range(6)}
        else:
            extra = set(range(0, ln + 1)) if ln <= 400 else {rng.below(ln + 1) for _ in range(60)}
        cuts = sorted(c for c in (cuts | extra) if 0 <= c <= ln)
        if tier == "quick" and len(cuts) > 14:
            keep = set(rng.choice(cuts) for _ in range(12)) | {0, ln}
            cuts = sorted(keep)
        for tr in (1, 0):
            for p in cuts:
                n2 = f"{name}t{tr}c{p}"
                tail = ["dir", "open", "st", READALL, "dir"]
                if tr == 1 or p in bnd or p == ln:
                    # (with truncation disabled: only for images without a torn record, which must open)
                    tail += ["vote 1000000 0", "purge 2000000 5000000", "app 2000000,5000001,aa", "flush 1",
                             "widle", "drop", "open", "st", READALL]
                note = f"note c10 cut {nid} {ln} {','.join(map(str, bnd))} {p} 0 {tr}"
                extra = rng.choice(["", "", "", " ms=256", " ms=100 rb=4096", " mr=2 rb=3", " ms=64"])
                out.append((n2, pre + [note, "dir", f"cfg tr={tr}{extra}", f"fsop cut {nid} {p}", "fsop settle"] + tail))
            zs = [(b, m) for b in bnd for m in ([1, 2, 27, 28, 40] if tier == "quick" else
                                                 [1, 2, 3, 11, 12, 13, 27, 28, 29, 40, 1023, 1024, 1025, 33000,
                                                  65535, 65536, 65537, 200000])]
            if tier == "quick":
                zs = sorted({zs[rng.below(len(zs))] for _ in range(5)})
                # a long zero tail (more than 64 KiB) at one boundary
                zs.append((bnd[rng.below(len(bnd))], rng.choice([65537, 70001, 131072])))
            for (b, m) in zs:
                n2 = f"{name}t{tr}z{b}m{m}"
                tail = ["dir", "open", "st", READALL, "dir"]
                if tr == 1:
                    tail += ["vote 1000000 0", "purge 2000000 5000000", "app 2000000,5000001,aa", "flush 1",
                             "widle", "drop", "open", "st", READALL]
                note = f"note c10 zero {nid} {ln} {','.join(map(str, bnd))} {b} {m} {tr}"
                extra = rng.choice(["", "", "", " ms=256", " ms=100 rb=4096", " mr=2 rb=3", " ms=64"])
                out.append((n2, pre + [note, "dir", f"cfg tr={tr}{extra}", f"fsop zero {nid} {b} {m}", "fsop settle"] + tail))
    return out, {"bases": nb}


def nodur(dirline):
    """A `dir` line without the durable lengths (syncing a file does not modify it)."""
    return " ".join(":".join(p.split(":")[:2] + p.split(":")[3:]) if ":" in p else p for p in dirline.split())


def oracle_c10(script, ig, mg):
    prim = primary_cmds(script)
    fs = [l for l in script if l.startswith("fsop cut") or l.startswith("fsop zero")]
    if not fs:
        return []
    t = fs[-1].split()
    tr = 1
    for l in script:
        if l.startswith("cfg"):
            m = re.search(r"tr=(\d)", l)
            tr = int(m.group(1)) if m else 1
    # layout of the newest chunk before the damage, recorded by the generator in a `note` line
    meta = None
    for l in script:
        if l.startswith("note c10 "):
            x = l.split()
            meta = (x[2], int(x[3]), int(x[4]), [int(v) for v in x[5].split(",")], int(x[6]), int(x[7]), int(x[8]))
    opens = [i for i, c in enumerate(prim) if c == "open"]
    # the open right after the fsop
    fi = max(i for i, l in enumerate(script) if l == fs[-1])
    n_before = len(primary_cmds(script[:fi]))
    oi = next((i for i in opens if i >= n_before), None)
    if oi is None or oi >= len(ig) or oi >= len(mg):
        return []
    line = ig[oi].line
    before_dir = ig[oi - 1].line if oi >= 1 and ig[oi - 1].line.startswith("dir ") else None
    after_dir = next((g.line for g in ig[oi + 1:oi + 4] if g.line.startswith("dir ")), None)
    if meta is None:
        return []
    kind, nid, ln, bnd, a, m, _ = meta
    # the note must describe this very image (a shrunk script may have lost the connection)
    want_len = a if kind == "cut" else a + m
    ni = next(i for i, l in enumerate(script) if l.startswith("note c10 "))
    pre_dir_idx = len(primary_cmds(script[:ni]))
    pre_dir = ig[pre_dir_idx].line if pre_dir_idx < len(ig) and script[ni + 1:ni + 2] == ["dir"] else None
    if pre_dir is None or f" {nid}:{ln}:" not in pre_dir + " ":
        return []
    if before_dir is None or f" {nid}:{want_len}:" not in before_dir + " " or \
            max(int(p.split(":")[0]) for p in before_dir.split()[1:]) != nid:
        return []
    if kind == "cut":
        damaged = a not in bnd and a != ln
        keep = max(b for b in bnd if b <= a)
    else:
        damaged = True
        keep = a
    complete = sum(1 for b in bnd[1:] if b <= keep)  # complete records incl. the head
    total = len(bnd) - 1
    lost = total - complete if complete >= 1 else total - 1
    if tr == 0 and damaged:
        if line == "open ok" or "panic" in line:
            return [("opened-damaged-tail-with-truncation-disabled", {"line": line, "fsop": fs[-1]})]
        # files untouched
        after = ig[oi + 1].line if oi + 1 < len(ig) else None
        nxt = next((g.line for g in ig[oi + 1:oi + 3] if g.line.startswith("dir ")), None)
        if before_dir and nxt and nodur(before_dir) != nodur(nxt):
            return [("refused-open-modified-files", {"before": before_dir, "after": nxt})]
        if [e for e in ig[oi].evs if not e.startswith("ev sync ")]:
            return [("refused-open-modified-files", {"events": ig[oi].evs})]
        return []
    if line != "open ok":
        return [("open-failed-on-cut-or-zero-tail", {"line": line, "fsop": fs[-1], "tr": tr})]
    # writes continue from there: the journal offsets are kept, recovery never starts a chunk below
    # the oldest one that was there
    if before_dir and after_dir:
        lo_b = min(int(p.split(":")[0]) for p in before_dir.split()[1:])
        ids_a = [int(p.split(":")[0]) for p in after_dir.split()[1:]]
        if ids_a and min(ids_a) < lo_b:
            return [("recovery-restarted-the-journal-offsets", {"before": before_dir, "after": after_dir, "fsop": fs[-1]})]
    cands = {}
    hi = None
    for s in mg[oi].spec:
        if s.startswith("cand "):
            p = s.split(" ", 2)
            cands[int(p[1])] = p[2]
        if s.startswith("range "):
            hi = int(s.split()[2])
    if hi is None or oi + 2 >= len(ig):
        return []
    want_n = hi - lost
    if complete == 0 and len(before_dir.split()) == 2:
        # the only file lost its head snapshot: nothing at all is present any more
        want_n = 0
    if not (ig[oi + 1].line.startswith("st ") and ig[oi + 2].line.startswith("read ")):
        return []
    got = f"{ig[oi + 1].line} | {ig[oi + 2].line}"
    if want_n in cands and got != cands[want_n]:
        # entries whose records lived in chunk files that were deleted (by a purge whose record is
        # now cut off) cannot come back: then the state must match and the entries be a subsequence
        unlinked = any(e.startswith("ev unlink") for g in ig[:oi] for e in g.evs)
        if unlinked:
            st_w, rd_w = cands[want_n].split(" | ")
            st_g, rd_g = got.split(" | ")
            wi = rd_w[len("read "):].split(";") if rd_w != "read " else []
            gi = rd_g[len("read "):].split(";") if rd_g.strip() != "read" else []
            it = iter(wi)
            if st_g == st_w and all(x in it for x in gi):
                return oracle_spec_equal({"ret"}, skip_d2=True)(script, ig, mg)
        return [("recovered-not-exactly-the-complete-prefix",
                 {"fsop": fs[-1], "complete_records_in_newest": complete, "of": total,
                  "expected_prefix": want_n, "expected": cands[want_n], "recovered": got})]
    return oracle_spec_equal({"st", "read", "ret"}, skip_d2=True)(script, ig, mg)


# ---------------------------------------------------------------------------
# C09: byte alterations in complete records, missing middle chunk
# ---------------------------------------------------------------------------

def scripts_c09(tier, rng):
    nb = 20 if tier == "quick" else 200
    bases = base_histories(rng, nb, max_ops=14, worker_steps=False, queries=(), payload_sizes=(0, 1, 7, 40),
                           weights=dict(append=45, purge=4, truncate=5, ud=12))
    bases = [[l if not l.startswith("cfg") else rng.choice(["cfg mr=3", "cfg mr=2", "cfg mr=5", "cfg"]) for l in b]
             for b in bases]
    # the state and entries as written, observed on the implementation before the damage
    named = [(f"c09b{i}", b + ["flush 9000", "widle", "st", READALL, "drop"]) for i, b in enumerate(bases)]
    lays = layouts(named)
    out = []
    for name, pre in named:
        lay = lays.get(name, [])
        if not lay:
            continue
        positions = [(fid, p) for (fid, ln, du, bnd) in lay for p in range(0, bnd[-1])]
        # the head record of every chunk (its Option tags and the user-data length prefix are
        # layout bytes) and the first bytes of every record (tag, ids, length prefixes)
        heads = [(fid, p) for (fid, ln, du, bnd) in lay for p in range(0, bnd[1])] if lay else []
        starts = [(fid, b + d) for (fid, ln, du, bnd) in lay for b in bnd[:-1] for d in range(0, 28)
                  if b + d < bnd[-1]]
        k = 10 if tier == "quick" else 120
        if tier == "thorough" and len(positions) <= 400:
            pick = positions
        else:
            pick = [positions[rng.below(len(positions))] for _ in range(min(k, len(positions)))]
            pick += [heads[rng.below(len(heads))] for _ in range(min(k, len(heads)))]
            pick += [starts[rng.below(len(starts))] for _ in range(min(k // 2, len(starts)))]
        headset = set(heads)
        for (fid, p) in pick:
            mask = rng.choice([1, 2, 4, 8, 16, 32, 64, 128, 255, 1])
            if (fid, p) in headset and rng.chance(1, 2):
                # layout bytes of a head record with truncation disabled: nothing may be cut
                out.append((f"{name}f{fid}p{p}m{mask}h{len(out)}",
                            pre + ["cfg tr=0", f"fsop flip {fid} {p} {rng.choice([64, 128, 255, mask])}", "dir", "open", "st",
                                   READALL, "dir"]))
            # reopen configurations: truncation disabled, tiny or zero read buffers
            tr = rng.choice([["cfg tr=0"], ["cfg tr=0 rb=3"], ["cfg rb=0"], ["cfg rb=1"], [], [], []])
            out.append((f"{name}f{fid}p{p}m{mask}t{len(out)}",
                        pre + tr + [f"fsop flip {fid} {p} {mask}", "dir", "open", "st", READALL, "dir"]))
        # every byte of the head record of one middle chunk, with a mask that makes lengths grow
        if len(lay) >= 3 and rng.chance(1, 2):
            fid, ln, du, bnd = lay[1 + rng.below(len(lay) - 2)]
            for p in range(0, bnd[1]):
                mask = rng.choice([64, 128])
                out.append((f"{name}h{fid}p{p}m{mask}",
                            pre + [f"fsop flip {fid} {p} {mask}", "dir", "open", "st", READALL, "dir"]))
        # a middle chunk missing
        if len(lay) >= 3:
            mid = lay[1 + rng.below(len(lay) - 2)][0]
            out.append((f"{name}rm{mid}", pre + [f"fsop rm {mid}", "dir", "open", "st", READALL, "dir"]))
            # the chunk before the newest missing while the newest holds no complete record
            # (cut to nothing or inside its head): the hole must still be reported
            before, newest = lay[-2], lay[-1]
            for k in (0, 1 + rng.below(max(1, newest[3][1] - 1))):
                out.append((f"{name}rm{before[0]}cut{k}",
                            pre + [f"fsop rm {before[0]}", f"fsop cut {newest[0]} {k}", "dir", "open", "st", READALL,
                                   "dir"]))
    # a purged chunk whose file is still there (the crash came between the acknowledged flush of the
    # purge and the unlink) plus damage further on: the refused open must leave the old file alone too
    left = []
    for j in range(3 if tier == "quick" else 20):
        mr = 3 + rng.below(2)
        n = 3 * mr + rng.below(3)
        left.append((f"c09p{j}", [f"cfg mr={mr}", "open", "app " + " ".join(f"1,{x},{gen.rnd_bytes_token(rng, [1, 7, 40])}" for x in range(n)),
                                  "flush 1", "widle", f"purge 1 {mr - 1 + rng.below(2)}",
                                  "app " + " ".join(f"1,{x},{gen.rnd_bytes_token(rng, [1, 7])}" for x in range(n, n + 2 * mr)),
                                  "flush 77", "wack 77", "crash"]))
    lays3 = layouts(left)
    for name, pre in left:
        lay = lays3.get(name, [])
        if len(lay) < 4:
            continue
        for (fid, ln, du, bnd) in (lay[-1], lay[-2], lay[-3], lay[2]):
            if bnd[-1] <= 0:
                continue
            p = rng.below(bnd[-1])
            out.append((f"{name}f{fid}p{p}", pre + [f"fsop flip {fid} {p} {rng.choice([1, 16, 255])}", "dir", "open", "st", READALL, "dir"]))
        out.append((f"{name}rm{lay[2][0]}", pre + [f"fsop rm {lay[2][0]}", "dir", "open", "st", READALL, "dir"]))
    # the read path: a record of a closed chunk altered while the store is live, entry not cached
    live = base_histories(rng, nb, max_ops=14, worker_steps=False, queries=(), payload_sizes=(1, 7, 40),
                          weights=dict(append=60, purge=2, truncate=3))
    named2 = []
    for i, b in enumerate(live):
        b = [l if not l.startswith("cfg") else "cfg mr=3 ci=0 cc=0" for l in b]
        named2.append((f"c09l{i}", b + ["flush 9000", "widle", "drain"]))
    # the same with records larger than 1 MiB (a read path that treats large records differently)
    for j in range(1 if tier == "quick" else 4):
        sz = 1048577 + rng.below(200000)
        named2.append((f"c09lbig{j}", ["cfg mr=3 ci=0 cc=0", "open",
                                       "app " + " ".join(f"1,{x},x{sz}:{rng.below(250)}" for x in range(4)),
                                       "flush 9000", "widle", "drain"]))
    lays2 = layouts(named2)
    for name, pre in named2:
        lay = lays2.get(name, [])
        closed = lay[:-1]
        if not closed:
            continue
        for _ in range(4 if tier == "quick" else 30):
            fid, ln, du, bnd = closed[rng.below(len(closed))]
            p = rng.below(bnd[-1])
            mask = rng.choice([1, 4, 64, 255])
            out.append((f"{name}f{fid}p{p}m{mask}n{len(out)}", pre + [f"fsop flip {fid} {p} {mask}", READALL, "iter"]))
    return out, {"bases": nb}


def oracle_c09(script, ig, mg):
    prim = primary_cmds(script)
    fails = []
    fl = [l for l in script if l.startswith("fsop flip") or l.startswith("fsop rm")]
    if not fl:
        return []
    fi = max(i for i, l in enumerate(script) if l == fl[-1])
    n_before = len(primary_cmds(script[:fi]))
    live = "drop" not in [c for c in prim[:n_before]] or prim[n_before - 1] != "drop" if n_before else True
    tail = ig[n_before:]
    mtail = mg[n_before:]
    if any("panic" in g.line for g in tail):
        return [("panic-on-damaged-image", {"lines": [g.line for g in tail]})]
    opens = [k for k, c in enumerate(prim[n_before:]) if c == "open"]
    if not opens:
        # live store: reading the altered record must fail or give the original payload,
        # never a different payload
        for a, b in zip(tail, mtail):
            for s in b.spec:
                ch = s.split()[0]
                if ch in ("read", "iter") and a.line.startswith(ch):
                    want = s.split(" ", 1)[1].split(";") if " " in s else []
                    got = a.line.split(" ", 1)[1].split(";") if " " in a.line else []
                    if len(want) != len(got):
                        return [("altered-record-changed-the-entry-list", {"impl": a.line, "spec": s})]
                    for w, g in zip(want, got):
                        if g != w and not g.startswith("err:"):
                            return [("altered-record-read-back-silently", {"impl": a.line, "spec": s})]
        return []
    o = opens[0]
    g = tail[o]
    mgp = mtail[o] if o < len(mtail) else None
    dir_before = tail[o - 1].line if o >= 1 and tail[o - 1].line.startswith("dir ") else None
    dir_after = next((x.line for x in tail[o + 1:] if x.line.startswith("dir ")), None)
    tr_cfg = 1
    for l in script[:fi + 1] + script[fi + 1:fi + 3]:
        if l.startswith("cfg"):
            m = re.search(r"tr=(\d)", l)
            tr_cfg = int(m.group(1)) if m else 1
    if g.line == "open ok" and tr_cfg == 0 and fl[-1].startswith("fsop flip"):
        # with tail truncation disabled nothing can be taken for a torn tail: an altered byte of a
        # complete record must make open fail
        return [("opened-altered-image-with-truncation-disabled", {"fsop": fl[-1], "events": g.evs})]
    if g.line == "open ok":
        # allowed only if nothing was lost: state and entries as written (as the implementation
        # itself reported them right before it was closed)
        hi = 0
        cands = {}
        di = next((k for k in range(n_before - 1, -1, -1) if ig[k].line.startswith("dropped")), None)
        if di is not None and di >= 2 and ig[di - 2].line.startswith("st ") and ig[di - 1].line.startswith("read ") \
                and prim[di - 1] == READALL:
            cands[0] = f"{ig[di - 2].line} | {ig[di - 1].line}"
        else:
            hi = None
        got = f"{tail[o + 1].line} | {tail[o + 2].line}" if o + 2 < len(tail) else None
        if hi is not None and got is not None and cands.get(hi) != got:
            cls = "damage-silently-absorbed"
            if fl[-1].startswith("fsop flip") and mgp and mgp.line == g.line and any(
                    e.startswith("ev trunc o ") for e in g.evs):
                # the altered byte makes the decoder run past the end of the newest chunk:
                # taken for a torn tail and cut off (model agrees)
                newest = max(int(p.split(":")[0]) for p in dir_before.split()[1:]) if dir_before else None
                tr = [e for e in g.evs if e.startswith("ev trunc o ")]
                if newest is not None and all(int(e.split()[3]) == newest for e in tr):
                    cls = "eof-lookalike-in-newest-chunk"
            return [(cls, {"fsop": fl[-1], "recovered": got, "written": cands.get(hi), "events": g.evs})]
        return []
    # refused: every chunk file other than the newest is exactly as it was
    if dir_before and dir_after:
        b = {p.split(":")[0]: p for p in nodur(dir_before).split()[1:]}
        a = {p.split(":")[0]: p for p in nodur(dir_after).split()[1:]}
        newest = max(b, key=int) if b else None
        for k in b:
            if k != newest and a.get(k) != b[k]:
                cls = "refused-open-changed-older-chunk"
                if mgp and mgp.line == g.line and any(e.startswith(f"ev trunc o {k} ") for e in g.evs):
                    cls = "refused-open-truncated-older-chunk"
                return [(cls, {"fsop": fl[-1], "before": b[k], "after": a.get(k), "open": g.line})]
    return []


def proj_recovery(l):
    if l.startswith(("open ", "st ", "read ", "dir ", "iter ")):
        return l
    if l.startswith("ev ") and " o " in l:
        return l
    if l.startswith("ret"):
        return ret_kind(l)
    if l.startswith(("ev cb", "dropped")):
        return l
    return None


def gen_c03(tier, rng):
    return scripts_crash(tier, rng, "c03")


def gen_c05(tier, rng):
    a, st = scripts_crash(tier, rng, "c05")
    return a + scripts_c05_recovery(tier, rng), st


PROPS.update({
    "C03": dict(modules=["C03", "C03Quiet", "C06Normal", "AnyHistory"], theorems=['c03_crash_prefix_any_history_partial', 'c03_acked_is_durable_any_history_partial', 'c03_acked_writes_survive_any_history_partial', 'c03_quiet_spec', 'c03_quiet_linked', 'c03_marker_invariant', 'c03_pcSafe_spec', 'c03_marker_acked_when_quiet', 'c03_crash_prefix_quiet', 'c03_acked_writes_survive_quiet', 'c03_linked_files', 'c03_ghost_store_spec', 'c03_recovered_is_linked_journal_prefix', 'c03_crash_prefix', 'c03_acked_writes_survive'] + ['c03_cutOf_spec', 'c03_crashImage_files', 'c03_crash_images_exist', 'c03_parsesToPrefix_spec', 'c03_file_is_record_prefix', 'c03_parsesLo_spec', 'c03_witnesses_spec', 'c03_recovered_is_journal_prefix_partial', "c03_recovered_is_journal_prefix_partial'", 'c03_recovered_sys_open', 'c03_removals_needed', 'c03_expansion_reaches_same', 'c03_prefix_is_a_history_prefix_partial', 'c03_marker_needed', 'c03_marker_zero_of_no_drop', 'c03_acked_is_durable', 'c03_ack_only_raises', 'c03_positive_callback_acks', 'c03_flush_sends_journal_end', 'c03_acked_flush', 'c03_crash_prefix_partial', 'c03_crash_prefix_no_drop', 'c03_acked_writes_survive_partial', 'c03_no_drop_facts', 'c03_acked_writes_survive_no_drop'], gen=gen_c03, project=proj_recovery, oracle=oracle_c03, nontrivial=lambda s: len(s) > 6,
                explanation="crash safety: crash model (CrashImage), S1 file-is-record-prefix, S2 recovered = replay of a journal prefix, S3 journal prefixes mirror history prefixes beyond the drop marker, S4 acknowledged position is durable; combined end-to-end theorems c03_crash_prefix / c03_acked_writes_survive without side hypotheses (ghost store of dropped-but-linked chunks)", assumptions=OS_ASSUMPTIONS),
    "C05": dict(modules=['C05', 'C05Crash', 'AnyHistory'], theorems=['c05_recovery_never_panics_any_history_partial', 'c05_open_succeeds_any_history_partial', 'c05_sys_open_succeeds_any_history_partial', 'c05_recovered_store_is_consistent_any_history_partial', 'c05_open_no_panic_partial', "c05_open_no_panic_partial'", 'c05_fsSmall_of_all', 'c05_reuse_has_last', 'c05_open_panics_on_max_index', 'c05_headless_newest_is_recreated', 'c05_headless_only_file', 'openLoop_no_panic', 'openStore_no_panic', 'replay_small', 'openStore_fresh', 'Loads.openLoop_append', 'c05_noTornPredecessor_spec', 'c05_noTornPredecessor_records', 'c05_open_succeeds_partial', 'c05_sys_open_succeeds_partial', 'c05_rotation_gap_witness', 'c05_no_torn_predecessor_when_synced', 'c05_open_succeeds_when_acked', 'c05_recovered_store_is_consistent', 'c05_recovered_payloads', 'c05_recovered_accepts_history', 'c05_flush_is_acknowledged', 'c05_recovered_restart_is_identity', 'c05_recovered_cycles', 'c05_open_effect_spec', 'c05_recovery_crash_is_recoverable', 'c05_crashInv_spec', 'c05_crashInv_fresh', 'c05_crashInv_history', 'c05_crashInv_retarget', 'c05_crashInv_recovered', 'c05_crashInv_crash_prefix', 'c05_crashInv_no_torn_when_acked', 'c05_crashInv_recovery_crash', 'c05_two_crashes', 'c05_recovery_never_panics', 'c05_crashInv_never_panics'], gen=gen_c05, project=proj_recovery, oracle=oracle_c05, nontrivial=lambda s: len(s) > 6,
                explanation="crash recoverability", assumptions=OS_ASSUMPTIONS),
    "C10": dict(modules=['C10', 'C10Sys'], theorems=['c10_sys_cut_spec', 'c10_sys_zero_spec', 'c10_sys_sameBytes_spec', 'c10_sys_cut_newest_inv', 'c10_sys_cut_newest', 'c10_sys_cut_newest_reach', 'c10_sys_zero_from_boundary_inv', 'c10_sys_zero_from_boundary_reach', 'c10_sys_zero_tail_newest_inv', 'c10_sys_zero_tail_newest', 'c10_sys_zero_tail_newest_reach', 'sys_torn_newestC10S', 'take_insideC10S', 'c10_sys_zero_tail_recovered_accepts_partial', 'c10_encRecord_length_pos', 'parse_encAll', 'parse_cut', 'parse_cut_at', 'parse_zero_tail', 'c10_crc32_zeros_ne_zero', 'c10_clean_open', 'c10_cut_truncate', 'c10_zero_truncate', 'c10_open_truncates_and_creates', "c10_open_single_chunk'", 'c10_open_single_chunk', 'parseChunk_encAll_append', 'parseChunk_canon', 'parseLoop_fuel', 'decRecord_zeros_eof', 'decRecord_zeros_invalid', 'openChunk_of_parse'],
                gen=scripts_c10, project=proj_recovery, oracle=oracle_c10, nontrivial=lambda s: len(s) > 6,
                explanation="torn / zero tail", assumptions=OS_ASSUMPTIONS),
    "C09": dict(modules=['C09', 'C09Crc', 'C09Sys'], theorems=['c09_sys_rm_spec', 'c09_sys_missing_middle_chunk_inv', 'c09_sys_missing_middle_chunk', 'c09_sys_missing_middle_chunk_reach', 'c09_valuePos_spec', 'c09_valuePos_append', 'c09_value_byte_decode_invalid', 'c09_chunk_value_byte_invalid', 'c09_sys_setByte_spec', 'c09_sys_value_byte_altered_inv', 'c09_sys_value_byte_altered', 'c09_sys_value_byte_altered_reach', 'crc_onebyteC9S', 'encTB_setC9S', 'c09_checksum_mismatch_invalid', 'c09_invalid_reported', 'c09_wrong_sum_is_invalid', 'c09_wrong_sum_chunk', 'mutated_length', 'c09_chunk_byte_altered', 'c09_chunk_byte_altered_not_original', 'c09_missing_middle_chunk', 'c09_missing_middle_chunk_two', 'c09_open_gap', 'decRecord_bad_sum', 'openLoop_gap', 'openLoop_clean_step'],
                gen=scripts_c09, project=proj_recovery, oracle=oracle_c09, nontrivial=lambda s: len(s) > 6,
                explanation="corruption detection", assumptions=OS_ASSUMPTIONS),
})


# ---------------------------------------------------------------------------
# C07 across a recovery: small caches after a crash image has been opened
# ---------------------------------------------------------------------------

def scripts_c07_recovery(tier, rng):
    nb = 40 if tier == "quick" else 400
    bases = base_histories(rng, nb, max_ops=16, worker_steps=True, queries=(), flush_prob=(1, 2),
                           payload_sizes=(1, 7, 300), weights=dict(append=55, purge=4, truncate=6))
    named = []
    for bi, b in enumerate(bases):
        b = [l if not l.startswith("cfg") else rng.choice(["cfg mr=3", "cfg mr=2", "cfg mr=5 ms=200"]) for l in b]
        for p in sorted({2 + rng.below(max(1, len(b) - 2)) for _ in range(3)} | {len(b)}):
            named.append((f"c07r{bi}p{p}", b[:p]))
    lays = layouts(named)
    stage = []
    for name, pre in named:
        lay = lays.get(name, [])
        if not lay:
            continue
        newest = lay[-1]
        imgs = [[]]
        if newest[2] == 0:
            imgs.append([f"fsop cut {newest[0]} 0"])
            imgs.append([f"fsop cut {newest[0]} {rng.below(newest[1] + 1)}"])
        for k, ops in enumerate(imgs):
            cache = rng.choice(["ci=0 cc=0", "ci=1", "cc=1", "ci=2 cc=400"])
            stage.append((f"{name}i{k}", pre + ["crash"] + ops + ["fsop settle", f"cfg mr=64 {cache}", "open"]))
    layouts(stage)  # learn the recovered `last` from the model
    out = []
    for name, pre in stage:
        a1 = next_append(name, "aa")
        m = re.match(r"app (\d+),(\d+),", a1)
        a2 = f"app {m.group(1)},{int(m.group(2)) + 1},x7:3"
        out.append((name, pre + [READALL, "iter", a1, READALL, "iter", a2, READALL, "iter", "stat"]))
    return out


_c07_gen = PROPS["C07"]["gen"]


def gen_c07(tier, rng):
    a, st = _c07_gen(tier, rng)
    return a + scripts_c07_recovery(tier, rng), st


PROPS["C07"]["gen"] = gen_c07
