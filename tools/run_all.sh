#!/bin/sh
# runs every property's check (quick by default); prints one line per property
cd "$(dirname "$0")/.."
for p in C01 C02 C03 C04 C05 C06 C07 C08 C09 C10 C11 C12 C13 C14 C15 C16; do
  ./check $p "$@" | grep -E "^OK|VIOLATION" | cut -c1-160
done
