#!/usr/bin/env python3
"""check <ID> [--tier quick|thorough] [--replay file]

Decides one property:
  1. proof obligations: the Lean theorems of Props/<ID>.lean build, use no
     forbidden constructs and depend only on the allowed axioms;
  2. correspondence: the hand-written model and the implementation (current
     /repo working tree, rebuilt) agree on the property's footprint for the
     generated scripts;
  3. oracle: the implementation's own observations satisfy the property.
Exit 0 / exit 1 + `VIOLATION property=<id> replay=<path>` lines.
"""
import json
import os
import sys
import time

sys.path.insert(0, os.path.dirname(os.path.abspath(__file__)))
import core  # noqa: E402
import props  # noqa: E402


def main():
    args = sys.argv[1:]
    if not args:
        print(__doc__)
        return 2
    pid = args[0]
    tier = os.environ.get("VERIF_TIER") or "quick"
    replay = None
    i = 1
    while i < len(args):
        if args[i] == "--tier":
            tier = args[i + 1]
            i += 2
        elif args[i] == "--replay":
            replay = args[i + 1]
            i += 2
        else:
            i += 1
    if os.environ.get("VERIF_TIER"):
        tier = os.environ["VERIF_TIER"]
    seed = int(os.environ.get("VERIF_SEED", "1"))
    if pid not in props.PROPS:
        print(f"unknown property {pid}")
        return 2
    P = props.PROPS[pid]
    t0 = time.time()
    os.makedirs(core.WORK, exist_ok=True)

    violations = []  # (kind, replay_path, no_input)
    known_hits = []
    notes = []

    # ---- 1. proof obligations --------------------------------------------
    modules = P.get("modules", [pid])
    ok_build, log = core.build_lean([f"RaftLogModel.Props.{m}" for m in modules] + ["driver"])
    forbidden = core.grep_forbidden()
    thms, ok_audit, alog = core.audit_axioms(pid, modules)
    # independent re-check of the compiled module by Lean's `leanchecker`
    rc_lc, out_lc, err_lc = core.sh(["lake", "env", "leanchecker"] + [f"RaftLogModel.Props.{m}" for m in modules],
                                    cwd=core.LEAN, timeout=1800) if ok_build else (1, "", "not built")
    if rc_lc != 0:
        ok_audit = False
        alog += "\nleanchecker: " + (out_lc + err_lc)[-1500:]
    bad_axioms = {t: [a for a in ax if a not in core.ALLOWED_AXIOMS] for t, ax in thms.items()}
    bad_axioms = {t: a for t, a in bad_axioms.items() if a}
    expected = P.get("theorems", [])
    missing = [t for t in expected if ("RaftLog." + t) not in thms]
    obligations = max(len(expected), len(thms))
    discharged = len([t for t in thms if t not in bad_axioms]) if ok_build and ok_audit else 0
    proof_ok = ok_build and ok_audit and not forbidden and not bad_axioms and not missing
    proof_problem = None
    if not proof_ok:
        proof_problem = {
            "build_ok": ok_build, "audit_ok": ok_audit, "forbidden": forbidden[:20],
            "unexpected_axioms": bad_axioms, "missing_theorems": missing,
            "log_tail": (log + alog)[-3000:],
        }
        discharged = min(discharged, obligations - max(1, len(missing)))

    # ---- 2. harness -------------------------------------------------------
    ok_h, hlog = core.build_harness()
    if not ok_h:
        # the harness does not build against the current tree: nothing is shown
        path = core.write_replay(pid, "harness-build", [], [], [], {"log_tail": hlog[-3000:]},
                                 {"broken": "correspondence harness does not compile against /repo"})
        violations.append(("harness-build", path, True))

    result = None
    if ok_h and ok_build:
        if replay:
            obj = json.load(open(replay))
            result = props.run_scripts(pid, P, [("replay", obj["script"])], tier, seed, search=False)
        else:
            result = props.run_property(pid, P, tier, seed)
        for v in result["violations"]:
            violations.append(v)
        known_hits = result["known"]

    if proof_problem is not None:
        # a proof obligation no longer checks: search already ran (step 2); if it
        # found nothing, report with no-failing-input-found
        if not any(not v[2] for v in violations):
            path = core.write_replay(pid, "proof", [], [], [], proof_problem,
                                     {"broken": "proof obligation", "theorems": expected})
            violations.append(("proof", path, True))

    wall = time.time() - t0
    cov = {
        "obligations": obligations,
        "discharged": discharged if proof_ok else min(discharged, max(0, obligations - 1)),
        "checker_cmd": "cd /verif/lean && " + " && ".join(
            f"lake build RaftLogModel.Props.{m} && lake env lean RaftLogModel/Audit/{m}.lean && lake env leanchecker RaftLogModel.Props.{m}"
            for m in modules),
        "trusted_base": [
            "Lean 4.33 kernel",
            "axioms: " + ", ".join(sorted({a for ax in thms.values() for a in ax})),
            "hand-written model RaftLogModel/Model/*.lean, tied to /repo by the correspondence run below",
            "harness (libc interposition, worker gate, canonicalisation, diff) in /verif/harness and /verif/tools",
        ] + P.get("assumptions", []),
        "theorems": {t: ax for t, ax in thms.items()},
        "explanation": P.get("explanation", ""),
    }
    if result:
        cov.update(result["coverage"])
    else:
        cov.update({"evaluations": 0, "distinct_nontrivial": 0, "rule": "not run", "samples": []})
    ev = {
        "property_id": pid, "tier": tier, "seed": seed, "level": "proof",
        "coverage": cov,
        "assumptions": P.get("assumptions", []),
        "wall_s": round(wall, 2),
        "violations": len(violations),
        "known_findings_met": known_hits,
        "notes": notes,
    }
    core.write_evidence(pid, ev)

    for k in known_hits:
        print(f"KNOWN-FINDING: property={pid} {k}")
    for kind, path, noinput in violations:
        print(f"VIOLATION property={pid} replay={path}" + (" no-failing-input-found" if noinput else ""))
    if violations:
        return 1
    print(f"OK property={pid} tier={tier} seed={seed} obligations={obligations} discharged={cov['discharged']} "
          f"scripts={cov.get('evaluations')} wall={wall:.1f}s")
    return 0


if __name__ == "__main__":
    sys.exit(main())
