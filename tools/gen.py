"""Script generators. Every random choice comes from the Rng passed in.
The small reference log kept here only steers generation towards mostly-legal
histories; it is never used for a verdict."""
import struct
import zlib

U64MAX = 2 ** 64 - 1

# ---------------------------------------------------------------------------
# C12: records and byte strings
# ---------------------------------------------------------------------------

BOUNDARY = [0, 1, 2, 255, 256, 65535, 65536, 2 ** 32 - 1, 2 ** 32, 2 ** 63 - 1, 2 ** 63, U64MAX - 1, U64MAX]
PAYLOAD_SIZES = [0, 1, 2, 255, 256, 300, 5000, 65536]


def rnd_u64(rng):
    if rng.chance(1, 2):
        return rng.choice(BOUNDARY)
    return rng.below(1 << rng.choice([4, 8, 16, 33, 64]))


def rnd_id(rng):
    return (rnd_u64(rng), rnd_u64(rng))


def rnd_opt_id(rng):
    return None if rng.chance(1, 3) else rnd_id(rng)


def rnd_bytes_token(rng, sizes=PAYLOAD_SIZES):
    n = rng.choice(sizes)
    if n == 0:
        return "."
    if n <= 8 and rng.chance(1, 2):
        return "".join("%02x" % rng.below(256) for _ in range(n))
    return f"x{n}:{rng.below(256)}"


def token_bytes(tok):
    if tok == ".":
        return b""
    if tok.startswith("x"):
        l, s = tok[1:].split(":")
        l, s = int(l), int(s)
        return bytes(((s + 13 * i + i // 256) % 256) for i in range(l))
    return bytes.fromhex(tok)


def show_id(i):
    return f"{i[0]},{i[1]}"


def show_opt(o):
    return "-" if o is None else show_id(o)


def rnd_record(rng):
    k = rng.below(6)
    if k == 0:
        return ("V", rnd_id(rng))
    if k == 1:
        return ("A", rnd_id(rng), rnd_bytes_token(rng))
    if k == 2:
        return ("C", rnd_id(rng))
    if k == 3:
        return ("T", rnd_opt_id(rng))
    if k == 4:
        return ("P", rnd_id(rng))
    ud = None if rng.chance(1, 3) else rnd_bytes_token(rng, [0, 1, 7, 300])
    return ("S", rnd_opt_id(rng), rnd_opt_id(rng), rnd_opt_id(rng), rnd_opt_id(rng), ud)


def record_text(r):
    k = r[0]
    if k in ("V", "C", "P"):
        return f"{k} {show_id(r[1])}"
    if k == "A":
        return f"A {show_id(r[1])} {r[2]}"
    if k == "T":
        return f"T {show_opt(r[1])}"
    return "S " + " ".join(show_opt(x) for x in r[1:5]) + " " + ("-" if r[5] is None else r[5])


def enc_id(i):
    return struct.pack(">QQ", i[0], i[1])


def enc_opt(o, f):
    return b"\x00" if o is None else b"\x01" + f(o)


def enc_bytes(b):
    return struct.pack(">I", len(b) & 0xFFFFFFFF) + b


def record_bytes(r):
    """Generator-side encoder (only to make inputs for `dec`)."""
    k = r[0]
    tag = "VACTPS".index(k)
    if k in ("V", "C", "P"):
        body = enc_id(r[1])
    elif k == "A":
        body = enc_id(r[1]) + enc_bytes(token_bytes(r[2]))
    elif k == "T":
        body = enc_opt(r[1], enc_id)
    else:
        body = b"\x01" + b"".join(enc_opt(x, enc_id) for x in r[1:5]) + \
            enc_opt(None if r[5] is None else token_bytes(r[5]), enc_bytes)
    tb = struct.pack(">I", tag) + body
    return tb + struct.pack(">Q", zlib.crc32(tb))


def gen_c12(rng, n_scripts, per_script):
    scripts = []
    for _ in range(n_scripts):
        lines = []
        for _ in range(per_script):
            r = rnd_record(rng)
            mode = rng.below(12)
            if mode == 11:
                mode = 10
            if mode < 3:
                lines.append("enc " + record_text(r))
                # and the round trip inside the implementation: decode(encode r) re-encodes to the same bytes
                lines.append("rt " + record_text(r))
                if rng.chance(1, 3):
                    # a sink with room for fewer / exactly / more bytes than the record has
                    ln = len(record_bytes(r))
                    lines.append(f"encf {rng.choice([ln - 1, max(0, ln - 8), ln // 2, 0, ln, ln + 5])} " + record_text(r))
                small_fields = (r[0] in ("V", "C", "T", "P")
                                or (r[0] == "A" and len(token_bytes(r[2])) <= 16)
                                or (r[0] == "S" and (r[5] is None or len(token_bytes(r[5])) <= 16)))
                if small_fields and rng.chance(1, 2):
                    # the same record through a sink that accepts only 16 bytes per call: no single field
                    # is cut short (the checksum writer of the `codeq` dependency hashes a field again when
                    # its write is cut short - outside this crate and never the case for the Vec the
                    # store encodes into), but the record as a whole is
                    lines.append("encw 16 " + record_text(r))
                continue
            if r[0] == "A" and len(token_bytes(r[2])) > 600:
                r = ("A", r[1], rnd_bytes_token(rng, [0, 1, 7, 300]))
            bs = bytearray(record_bytes(r))
            if mode == 3:
                pass  # valid encoding
            elif mode == 4:  # valid encoding followed by junk
                bs += bytes(rng.below(256) for _ in range(rng.below(20)))
            elif mode == 5:  # strict prefix
                bs = bs[: rng.below(len(bs))]
            elif mode in (6, 7):  # one byte altered
                p = rng.below(len(bs))
                v = rng.choice([bs[p] ^ (1 << rng.below(8)), 0, 255, (bs[p] + 1) % 256])
                bs[p] = v
            elif mode == 10:  # one byte of tag+body altered, checksum recomputed (non-canonical encodings)
                p = rng.below(max(1, len(bs) - 8))
                v = rng.choice([bs[p] ^ (1 << rng.below(8)), 0, 255, (bs[p] + 1) % 256, 2])
                bs[p] = v
                tb = bytes(bs[:-8])
                bs = bytearray(tb + struct.pack(">Q", zlib.crc32(tb)))
            elif mode == 8:  # arbitrary bytes
                bs = bytearray(rng.below(256) for _ in range(rng.below(60)))
            else:  # valid tag, arbitrary rest
                bs = bytearray(struct.pack(">I", rng.below(7))) + bytearray(
                    rng.below(3) for _ in range(rng.below(60)))
            if rng.chance(1, 4):
                # the same decode through a reader that hands out at most k bytes per call
                h = bytes(bs).hex() if bs else "."
                lines.append("dec " + h)
                lines.append(f"decr {rng.choice([1, 2, 3, 5, 7])} " + h)
            else:
                lines.append("dec " + (bytes(bs).hex() if bs else "."))
        scripts.append(lines)
    return scripts


# ---------------------------------------------------------------------------
# store histories
# ---------------------------------------------------------------------------

class MiniLog:
    """Generator-side bookkeeping of what a legal next operation is."""

    def __init__(self):
        self.vote = None
        self.last = None
        self.committed = None
        self.purged = None
        self.entries = []  # (term, index)

    def next_purged(self):
        return 0 if self.purged is None else self.purged[1] + 1


class HistGen:
    def __init__(self, rng, *, max_ops=40, chunk=True, small_cache=False, worker_steps=False,
                 faults=False, rejected=False, boundary_args=False, restarts=False,
                 queries=("st", "read"), flush_prob=(1, 4), payload_sizes=(0, 1, 7, 300),
                 batch=True, purge_beyond=True, first_index_nonzero=True, ack_before_restart=True,
                 big_payload=False, weights=None):
        self.r = rng
        self.o = dict(max_ops=max_ops, chunk=chunk, small_cache=small_cache, worker_steps=worker_steps,
                      faults=faults, rejected=rejected, boundary_args=boundary_args, restarts=restarts,
                      queries=queries, flush_prob=flush_prob, payload_sizes=list(payload_sizes),
                      batch=batch, purge_beyond=purge_beyond, first_index_nonzero=first_index_nonzero,
                      ack_before_restart=ack_before_restart, big_payload=big_payload, weights=weights)
        self.m = MiniLog()
        self.lines = []
        self.cb = 0
        self.stats = {}

    def count(self, k):
        self.stats[k] = self.stats.get(k, 0) + 1

    def cfg_line(self):
        r = self.r
        parts = []
        if self.o["chunk"]:
            mr = r.choice(["-", "-", 1, 2, 3, 5, 8])
            ms = r.choice(["-", "-", "-", 0, 64, 200, 1000])
            parts += [f"mr={mr}", f"ms={ms}"]
            # read_buffer_size: the model has no such notion, recovery must not depend on it
            parts += [f"rb={r.choice(['-', '-', 0, 1, 2, 3, 5, 7, 16, 64, 4096])}"]
        if self.o["small_cache"]:
            ci = r.choice([0, 1, 2, 3, "-"])
            cc = r.choice([0, 1, 10, 400, "-"])
            parts += [f"ci={ci}", f"cc={cc}"]
        return "cfg " + " ".join(p for p in parts if not p.endswith("=-")) if parts else "cfg"

    def payload(self):
        sizes = self.o["payload_sizes"]
        if self.o["big_payload"] and self.r.chance(1, 20):
            sizes = [5000]
        return rnd_bytes_token(self.r, sizes)

    # --- legal operations -------------------------------------------------
    def op_vote(self):
        m, r = self.m, self.r
        if m.vote is None:
            v = (r.below(3), r.below(4))
        else:
            v = r.choice([m.vote, (m.vote[0], m.vote[1] + r.below(2)), (m.vote[0] + 1 + r.below(2), r.below(4))])
        m.vote = v
        self.count("vote")
        return f"vote {v[0]} {v[1]}"

    def op_append(self):
        m, r = self.m, self.r
        n = 1 + (r.below(3) if self.o["batch"] and r.chance(1, 3) else 0)
        es = []
        for _ in range(n):
            if m.last is None:
                idx = r.choice([0, 0, 0, 1, 5, 1000]) if self.o["first_index_nonzero"] else 0
                term = r.below(3)
            else:
                idx = m.last[1] + 1
                term = m.last[0] + (r.below(3) if r.chance(1, 4) else 0)
            p = self.payload()
            es.append(f"{term},{idx},{p}")
            m.last = (term, idx)
            m.entries.append((term, idx))
        self.count("append")
        if n > 1:
            self.count("append-batch")
        return "app " + " ".join(es)

    def op_truncate(self):
        m, r = self.m, self.r
        lo = m.next_purged()
        choices = [lo] + [e[1] + 1 for e in m.entries]
        idx = r.choice(choices)
        if idx == lo:
            new_last = m.purged
        else:
            new_last = [e for e in m.entries if e[1] == idx - 1][0]
        m.entries = [e for e in m.entries if e[1] < idx]
        if m.last is not None and (new_last is None or new_last < m.last):
            m.last = new_last
        self.count("truncate")
        return f"trunc {idx}"

    def op_purge(self):
        m, r = self.m, self.r
        k = r.below(10)
        if k < 6 and m.entries:
            e = r.choice(m.entries)
            upto = e
            self.count("purge-live")
        elif k < 8 and self.o["purge_beyond"] and m.last is not None:
            upto = (m.last[0] + r.below(2), m.last[1] + 1 + r.below(3))
            self.count("purge-beyond")
        elif self.o["purge_beyond"] and m.last is None:
            # purge on a log without any entry (fresh, or emptied by truncate)
            upto = (r.below(3), r.below(12))
            self.count("purge-empty-log")
        elif m.purged is not None:
            upto = (r.below(m.purged[0] + 2), r.below(m.purged[1] + 1))
            self.count("purge-noop")
            return f"purge {upto[0]} {upto[1]}"
        else:
            return None
        if upto[1] < m.next_purged():
            return None
        if m.purged is None or m.purged < upto:
            m.purged = upto
        if m.last is None or m.last < upto:
            m.last = upto
        m.entries = [e for e in m.entries if e[1] > upto[1]]
        return f"purge {upto[0]} {upto[1]}"

    def op_commit(self):
        m, r = self.m, self.r
        cands = [e for e in m.entries if m.committed is None or e >= m.committed]
        if cands and r.chance(3, 4):
            c = r.choice(cands)
        elif m.committed is not None:
            c = (m.committed[0], m.committed[1] + r.below(2))
        else:
            c = (r.below(2), r.below(3))
        m.committed = c
        self.count("commit")
        return f"commit {c[0]} {c[1]}"

    def op_ud(self):
        self.count("user-data")
        if self.r.chance(1, 4):
            return "ud -"
        return "ud " + rnd_bytes_token(self.r, [0, 1, 7, 40])

    # --- rejected / boundary operations ------------------------------------
    def op_rejected(self):
        m, r = self.m, self.r
        k = r.below(8)
        if k == 7 and m.last is not None:
            # a newer term pointing back into the log: greater as a log id, but not the next index
            back = r.below(min(3, m.last[1] + 1))
            c = (m.last[0] + 1 + r.below(2), m.last[1] - back)
            self.count("rej-append-newer-term-old-index")
            return f"app {c[0]},{c[1]},{self.payload()}"
        if k == 6 and self.o["batch"]:
            # a batch whose first entries are accepted and whose last entry is
            # rejected: the accepted prefix stays applied
            n = 1 + r.below(3)
            es = []
            for _ in range(n):
                if m.last is None:
                    term, idx = r.below(3), 0
                else:
                    term, idx = m.last[0], m.last[1] + 1
                es.append(f"{term},{idx},{self.payload()}")
                m.last = (term, idx)
                m.entries.append((term, idx))
            bad = r.choice([(m.last[0], m.last[1] + 2), (m.last[0], m.last[1]),
                            (m.last[0] - 1, m.last[1] + 1) if m.last[0] > 0 else (m.last[0], m.last[1] + 3)])
            es.append(f"{bad[0]},{bad[1]},{self.payload()}")
            self.count("rej-append-partial-batch")
            return "app " + " ".join(es)
        if k == 0 and m.vote is not None and m.vote > (0, 0):
            v = (m.vote[0], m.vote[1] - 1) if m.vote[1] > 0 else (m.vote[0] - 1, r.below(5))
            self.count("rej-vote")
            return f"vote {v[0]} {v[1]}"
        if k == 1 and m.last is not None:
            c = r.choice([m.last, (m.last[0], m.last[1] - 1) if m.last[1] > 0 else m.last,
                          (m.last[0] - 1, m.last[1] + 1) if m.last[0] > 0 else m.last])
            self.count("rej-append-reversal")
            return f"app {c[0]},{c[1]},{self.payload()}"
        if k == 2 and m.last is not None:
            c = (m.last[0] + r.below(2), m.last[1] + 2 + r.below(3))
            self.count("rej-append-gap")
            return f"app {c[0]},{c[1]},{self.payload()}"
        if k == 3 and m.committed is not None and m.committed > (0, 0):
            c = (m.committed[0], m.committed[1] - 1) if m.committed[1] > 0 else (m.committed[0] - 1, 7)
            self.count("rej-commit")
            return f"commit {c[0]} {c[1]}"
        if k == 4:
            hi = (m.last[1] + 2 + r.below(5)) if m.last is not None else 1 + r.below(5)
            self.count("rej-trunc-high")
            return f"trunc {hi}"
        if k == 5 and m.purged is not None and m.purged[1] > 0:
            self.count("rej-trunc-low")
            return f"trunc {r.below(m.purged[1] + 1)}"
        return None

    def op_boundary(self):
        m, r = self.m, self.r
        vals = [0, 1, 2 ** 63, U64MAX, U64MAX - 1]
        if m.purged is not None:
            vals += [max(0, m.purged[1] - 1), m.purged[1], m.purged[1] + 1]
        if m.last is not None:
            vals += [max(0, m.last[1] - 1), m.last[1], m.last[1] + 1, m.last[1] + 2]
        a, b = r.choice(vals), r.choice(vals)
        k = r.below(7)
        self.count("boundary-arg")
        if k == 0:
            return ("trunc", f"trunc {a}")
        if k == 1:
            return ("read", f"read {a} {b}")
        if k == 2:
            return ("purge", f"purge {r.choice([0, 1, U64MAX])} {a}")
        if k == 3:
            return ("commit", f"commit {r.choice([0, U64MAX])} {a}")
        if k == 4:
            return ("app", f"app {r.choice([0, 1, U64MAX])},{a},01")
        if k == 5:
            return ("vote", f"vote {r.choice([0, U64MAX])} {a}")
        return ("read", f"read {b} {a}")

    # --- queries ---------------------------------------------------------
    def q_read(self):
        m, r = self.m, self.r
        lo = m.next_purged()
        hi = (m.last[1] + 1) if m.last is not None else 0
        k = r.below(5)
        if k == 0:
            return f"read 0 {U64MAX}"
        if k == 1:
            return f"read {lo} {hi}"
        a = lo + r.below(max(1, hi - lo + 2))
        b = a + r.below(max(1, hi - a + 3))
        if k == 4 and a > 0:
            a -= 1
        return f"read {a} {b}"

    def queries(self):
        out = []
        for q in self.o["queries"]:
            if q == "read":
                out.append(self.q_read())
            elif q == "iter" and self.r.chance(1, 3):
                out.append("iter2")
            else:
                out.append(q)
        return out

    # --- whole script --------------------------------------------------------
    def flush(self):
        if self.r.chance(1, 6):
            # a flush nobody waits for (no callback)
            self.count("flush-without-callback")
            return "flush -"
        self.cb += 1
        self.count("flush")
        return f"flush {self.cb}"

    def worker_steps(self):
        r = self.r
        out = []
        if not self.o["worker_steps"]:
            return ["widle"] if r.chance(1, 2) else []
        n = r.below(4)
        for _ in range(n):
            if self.o["faults"] and r.chance(1, 8):
                out.append("w eio")
                self.count("fault-eio")
                if r.chance(1, 3):
                    # the natural retry: flush again with nothing new, then let the worker run
                    out += [self.flush(), "widle"]
                    self.count("retry-after-fault")
            elif self.o["faults"] and r.chance(1, 12):
                out.append(f"w short:{1 + r.below(20)}")
                self.count("fault-short")
            elif r.chance(1, 10):
                # the same worker step, performed while a dump of the live store is being read
                out.append("dumpwstep")
                self.count("worker-step-during-dump")
            else:
                out.append("w ok")
        if r.chance(1, 6):
            out.append("widle")
        return out

    def restart(self):
        out = []
        if self.o["ack_before_restart"]:
            out += [self.flush(), "widle"]
        out += ["drop", self.cfg_line(), "open"]
        self.count("restart")
        return out

    def script(self):
        r, o = self.r, self.o
        L = [self.cfg_line(), "open"]
        n_ops = 3 + r.below(o["max_ops"])
        w = dict(rejected=18 if o["rejected"] else 0, boundary=12 if o["boundary_args"] else 0,
                 append=32, vote=10, commit=10, purge=10, truncate=8, ud=5,
                 restart=6 if o["restarts"] else 0)
        w.update(o.get("weights") or {})
        kinds = [k for k, v in w.items() for _ in range(v)]
        for _ in range(n_ops):
            kind = r.choice(kinds)
            line = None
            if kind == "rejected":
                line = self.op_rejected()
            elif kind == "boundary":
                bk, line = self.op_boundary()
                L.append(line)
                if bk != "read":
                    # a boundary write may be accepted: the generator's own
                    # bookkeeping is no longer reliable, stop steering
                    L += ["st", f"read 0 {U64MAX}"]
                    break
                continue
            elif kind == "append":
                line = self.op_append()
            elif kind == "vote":
                line = self.op_vote()
            elif kind == "commit":
                line = self.op_commit()
            elif kind == "purge":
                line = self.op_purge()
            elif kind == "truncate":
                line = self.op_truncate()
            elif kind == "ud":
                line = self.op_ud()
            elif kind == "restart":
                L += self.restart()
                L += self.queries()
                continue
            if line is None:
                continue
            L.append(line)
            if r.chance(*o["flush_prob"]):
                L.append(self.flush())
            L += self.worker_steps()
            if r.chance(1, 2):
                L += self.queries()
        L += self.queries()
        return L


# ---------------------------------------------------------------------------
# exhaustive small-scope enumeration (thorough tiers): every sequence of up to
# `depth` operations from a state-dependent alphabet. Used only to validate the
# model against the code and to look for failing inputs; never instead of a theorem.
# ---------------------------------------------------------------------------

def small_alphabet(m, legal_only):
    """Concrete next operations for bookkeeping state `m` (a MiniLog): (line, apply | None)."""
    ops = []
    last, purged = m.last, m.purged
    nxt = 0 if purged is None else purged[1] + 1

    def mk(f):
        return f

    # votes
    v = m.vote or (0, 0)
    ops.append((f"vote {v[0] + 1} 0", "vote_up"))
    if not legal_only and v > (0, 0):
        ops.append((f"vote {max(0, v[0] - 1)} 0", None))
    # appends
    if last is None:
        ops.append(("app 1,0,aa", "app"))
        ops.append(("app 1,5,aa", "app"))
    else:
        ops.append((f"app {last[0]},{last[1] + 1},aa", "app"))
        ops.append((f"app {last[0] + 1},{last[1] + 1},.", "app"))
        if not legal_only:
            ops.append((f"app {last[0]},{last[1] + 2},aa", None))
            ops.append((f"app {last[0]},{last[1]},aa", None))
    # truncates
    cands = {nxt} | {e[1] + 1 for e in m.entries} | ({e[1] for e in m.entries if e[1] > nxt})
    for i in sorted(cands):
        ops.append((f"trunc {i}", "trunc"))
    if not legal_only:
        hi = (last[1] + 3) if last else 3
        ops.append((f"trunc {hi}", None))
        if nxt > 0:
            ops.append((f"trunc {nxt - 1}", None))
    # purges
    for e in m.entries[:2] + m.entries[-1:]:
        ops.append((f"purge {e[0]} {e[1]}", "purge"))
    if last is not None:
        ops.append((f"purge {last[0] + 1} {last[1] + 2}", "purge"))
    else:
        ops.append(("purge 1 3", "purge"))
    # commit
    c = m.committed or (0, 0)
    ops.append((f"commit {c[0]} {c[1] + 1}", "commit"))
    if not legal_only and c > (0, 0):
        ops.append((f"commit 0 0", None))
    ops.append(("ud 0102", "ud"))
    # dedupe
    seen, out = set(), []
    for o in ops:
        if o[0] not in seen:
            seen.add(o[0])
            out.append(o)
    return out


def apply_small(m, line):
    """Update the bookkeeping for an accepted op (mirrors RefLog loosely)."""
    import copy
    m = copy.deepcopy(m)
    t = line.split()
    if t[0] == "vote":
        m.vote = (int(t[1]), int(t[2]))
    elif t[0] == "app":
        a, b, _ = t[1].split(",", 2)
        e = (int(a), int(b))
        m.last = e
        m.entries.append(e)
    elif t[0] == "trunc":
        idx = int(t[1])
        nxt = 0 if m.purged is None else m.purged[1] + 1
        new_last = m.purged if idx == nxt else next((e for e in m.entries if e[1] == idx - 1), None)
        m.entries = [e for e in m.entries if e[1] < idx]
        if m.last is not None and (new_last is None or new_last < m.last):
            m.last = new_last
    elif t[0] == "purge":
        u = (int(t[1]), int(t[2]))
        nxt = 0 if m.purged is None else m.purged[1] + 1
        if u[1] >= nxt:
            if m.purged is None or m.purged < u:
                m.purged = u
            if m.last is None or m.last < u:
                m.last = u
            m.entries = [e for e in m.entries if e[1] > u[1]]
    elif t[0] == "commit":
        m.committed = (int(t[1]), int(t[2]))
    return m


def enum_histories(depth, legal_only, queries, cfgs):
    out = []

    def rec(m, lines, d):
        if d == 0:
            return
        for line, kind in small_alphabet(m, legal_only):
            new = lines + [line] + queries
            out.append(new)
            if kind is not None and kind != "vote_up" or kind == "vote_up":
                m2 = apply_small(m, line) if kind is not None else m
                rec(m2, new, d - 1)

    rec(MiniLog(), [], depth)
    res = []
    for k, cfg in enumerate(cfgs):
        for i, lines in enumerate(out):
            res.append((f"e{k}_{i}", [cfg, "open"] + lines))
    return res
