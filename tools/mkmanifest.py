#!/usr/bin/env python3
"""Regenerates /verif/MANIFEST.json from the table below."""
import json, os, subprocess
V = os.path.dirname(os.path.dirname(os.path.abspath(__file__)))
props = [json.loads(l) for l in open(os.path.join(V, "properties.jsonl"))]
hooks_commits = subprocess.run(["git", "-C", "/repo", "log", "--format=%H", "--grep=^verif-hooks"],
                               capture_output=True, text=True).stdout.split()

TB = ("Lean 4.33 kernel; axioms propext/Classical.choice/Quot.sound only (audited per theorem on every run); "
      "hand-written model tied to /repo by the correspondence run (harness rebuilt from the working tree); "
      "Types instantiation fixed to ((u64,u64), Vec<u8>)")

CLAIMS = {
 "C01": dict(text="Refinement theorem c01_refines: for every configuration (any chunk limits) and every history of legal accepted "
             "writes interleaved with arbitrary flushes and worker steps (any outcome) from a fresh store, with cache limits "
             "covering the history, the store's state equals the reference log's and read/iter return exactly its entries; "
             "every call returns ok (c01_calls_ok); chunk limits are invisible (c01_chunking_invisible). Correspondence and "
             "reference-log oracle on ret/st/read/iter over generated legal histories with all chunk-limit classes.",
             technique="Lean 4 refinement proof to a reference log (invariant + induction over histories) + correspondence/oracle",
             ref="8 C01"),
 "C12": dict(text="Codec round trip, canonicity, prefix=>eof and totality proved for all records and all byte strings "
             "(Props/C12.lean); the model codec is compared with the public codeq Encode/Decode of WALRecord on "
             "generated records, every-prefix, one-byte mutations and arbitrary bytes.",
             technique="Lean 4 theorems (compositional codec lemmas) + differential correspondence of encode/decode",
             ref="8 C12"),
 "C06": dict(text="Proved: a call that returns a validation error returns the whole store unchanged and emits no effect; at the system "
             "level a rejected call is the identity on files, store, worker and cache at every reachable state, emits no event and is "
             "invisible to every continuation incl. flush, drop and reopen (c06_sys_rejected_is_identity_reachable, "
             "c06_rejected_invisible_forever); a batch with a rejected entry behaves exactly as the batch of its accepted prefix "
             "(c06_sys_batch_rejected_prefix); same state => same verdict as the reference log. Normalisation (Props/C06Normal, "
             "c06_normalize_partial): EVERY history of well-formed calls (accepted or not, index u64::MAX included), flushes and worker "
             "steps ends in exactly the same system as the explicit legal history obtained by deleting rejected calls and cutting batches "
             "to their accepted prefix - under the one hypothesis that purges are Raft-legal (the store applies any purge; "
             "last example of the file) - so the per-history theorems (state = reference, reads never panic, clean restart, crash "
             "prefix; Props/AnyHistory: the C03/C04/C05/C07/C08/C14 system theorems) hold for all such histories (…_any_history_partial); and the reachability predicate ReachLIFT (histories, clean restarts, crash "
             "recoveries) is closed under such histories (Props/ReachAny: reachLIFT_any_history), so every …_reach theorem covers systems "
             "reached through rejected calls too. Correspondence + reference-log oracle on rejected calls at every "
             "point of generated histories, cache statistics and residents bracketed, metamorphic twin without the rejected calls, then "
             "flush/restart.",
             technique="Lean 4 theorems (rejected call = identity on the whole system; normalisation of arbitrary histories to legal ones) + correspondence/oracle against the reference log",
             ref="8 C06"),
 "C15": dict(text="Invariant proved for every history of calls (accepted and rejected), flushes, drains and worker "
             "steps with arbitrary outcomes from a fresh store: size = sum of resident payload sizes, keys distinct "
             "and sorted, none above last; over-limit after an insert => all resident above the boundary; drained "
             "=> none at or below the boundary; the same across clean restarts (Props/C15Restart). Call level (Props/C15Call): after ANY "
             "append call that inserted at least one entry - accepted, or refused at a later entry, or failing in a rotation - if a limit "
             "is exceeded every resident id is above the boundary, the boundary and limits are unchanged by caller-side calls, the other "
             "five calls only shrink the resident set; lifted to every reachable state incl. restarts.",
             technique="Lean 4 invariant by induction over system steps + correspondence on stat/resident-set after every step",
             ref="8 C15"),
 "C16": dict(text="Proved without restriction on the arguments (Props/C16All2): for every store satisfying the panic-freedom invariant and "
             "EVERY well-formed op (any u64 values, incl. index u64::MAX, any payload below 4 GiB) the call does not panic and keeps the "
             "invariant (c16_call_no_panic); for every cfg and every history of such calls (accepted or rejected) interleaved with flushes "
             "and worker steps of any outcome no call panics (c16_history_no_panic); recovery of ANY crash image of any reachable directory "
             "never panics (c16_recovery_never_panics, c16_open_no_panic_history_all); a log id with index u64::MAX is refused with an "
             "error and leaves no trace (c16_u64_max_is_refused - after fix 06dc691; before it this was the recorded overflow panic). "
             "Reads: no panic for any range on reachable states (Props/C16Read, with the reference-log hypotheses), read with to <= from is "
             "empty, truncate(0) is an error. Correspondence: the model must predict `panic` exactly where the code panics under "
             "catch_unwind with overflow checks on - nowhere on the current tree - over boundary-integer argument streams, a small-scope "
             "sweep around the purge point, histories with worker steps; worker-thread panics are observed too.",
             technique="Lean 4 totality/invariant proof of the checked-arithmetic model + catch_unwind differential run",
             ref="8 C16"),
 "C11": dict(text="Proved: file-name round trip / fixed length / injectivity / order-isomorphism for every u64 id (digit-list proofs, "
             "not samples); returned segment = place of the record; rotation rule; new chunk abuts and starts with the state "
             "snapshot. The byte-level journal invariant J (files = head snapshot + one record per accepted write in call order, names = "
             "global offsets, consecutive files abut) holds in every reachable state, for every cfg, every worker outcome "
             "(c11_journal_invariant; c11_journal_invariant_reach across restarts and crash recovery). Second sentence of the property "
             "(Props/C11Full), for every history with no legality hypothesis: after every call the open chunk is below both limits, or "
             "holds only its head record under degenerate limits (c11_open_chunk_never_full, exact exception stated); a rotation is "
             "never blocked in such histories (c11_rotation_never_blocked); every closed chunk was full when closed and not full before "
             "its last record (c11_closed_chunks_full_when_closed); the rule survives clean restarts that keep the limits "
             "(c11_rotation_rule_reach; a restart with smaller limits re-opens a chunk that is already full: "
             "c11_restart_open_chunk_may_be_full); reported on-disk size = journal end - oldest live chunk id = total of the chunk "
             "lengths, and = the total length of the files in the directory when quiescent (c11_on_disk_size_is_files_total[_reach]). "
             "Correspondence run (dump of every record, directory listing, on-disk size) plus an implementation-only oracle over "
             "returned segments, dump, stat and dir.",
             technique="Lean 4 theorems (names, segment, rotation rule, journal invariant, size) + correspondence/oracle on dump, directory and segments",
             ref="8 C11"),
 "C13": dict(text="Lock protocol proved on the model for every interleaving of open / Dump::new / drop / writes / worker steps: at "
             "most one owner, a refused attempt is the identity (no file-system event), after the owner's drop the lock is "
             "free and an attempt is not refused for it. Kernel flock semantics is an assumption; the harness exercises it "
             "with racing threads and processes (ownership witnessed by an O_EXCL marker file, refused attempts must not have "
             "touched a chunk file).",
             technique="Lean 4 invariant proof of the lock protocol + sequential correspondence + concurrent lock-race monitor",
             ref="8 C13"),
 "C09": dict(text="Proved kernel-only: the CRC-32 bit step is a bijection, hence any one-byte substitution anywhere in a record's "
             "tag+body changes its CRC-32, the mutated frame is not the encoding of any record and no decode consumes exactly "
             "that frame; altered checksum bytes likewise. System level (Props/C09Sys), for every clean system reached by histories, "
             "clean restarts and crash recoveries (ReachLIFT) and every reopening cfg: with a middle chunk file removed, open returns the "
             "gap error and only syncs the chunks before the gap (c09_sys_missing_middle_chunk[_reach]); with ONE value byte (any byte of "
             "a log id, vote, payload, user data or checksum: the decidable mask ValuePos; layout bytes = tags, Option tags, length prefixes "
             "are the recorded classes D5/D6) of ANY complete record in ANY chunk replaced, the decoder reads the same extent and reports "
             "a checksum mismatch, the damaged frame is never an all-zero tail, and open returns InvalidData for both truncate settings, "
             "leaving every file's bytes as they were (c09_value_byte_decode_invalid, c09_chunk_value_byte_invalid, "
             "c09_sys_value_byte_altered[_reach]). Correspondence and oracle: every byte position of complete records "
             "x bit flips on quiescent images and on a live store (read path), missing middle chunk; silent absorption outside "
             "the two recorded finding classes is a violation.",
             technique="Lean 4 theorems (CRC-32 injectivity, frame rejection, lifted to open() of every reachable directory) + corruption sweep with model correspondence",
             ref="8 C09"),
 "C04": dict(text="Proved on the worker machine for every outcome sequence: a positive callback is emitted only from the sync of the "
             "last remaining file with every older file already synced (c04_ack_only_from_syncNew, c04_ack_means_synced: at "
             "that moment the only files with unsynced bytes are ones whose AppendFile announcement is still queued behind the "
             "acknowledged flush); a failed sync sends a negative callback to the whole batch and keeps the file tracked; "
             "callbacks fire in request order, each at most once, exactly once without faults (with the model's fuel); the "
             "coverage invariant is preserved by every call/flush/worker step. System level (c04_positive_callback_means_durable): for "
             "every legal history with any worker outcomes, a positive callback of a flush implies that at the end of the history every "
             "live chunk file is written and durable up to the journal end of that flush; the same from every system reached by any mixture of "
             "histories, clean restarts and crash recoveries (Props/LiftRestart: c04_positive_callback_means_durable_reach; the restart "
             "lemma needed `open` to sync the files it keeps - defect D15, fixed in 40ee787). Callback accounting for EVERY history "
             "(Props/C04Order: any steps incl. drops, reopenings with any cfg, dying workers, no legality hypothesis): the callbacks still "
             "queued are exactly the last requests in order and the resolved ones (invoked or dropped) are a permutation of the earlier ones "
             "(c04_sys_callback_accounting_partial; exact list equality when no step kills the worker - a dying worker's dropped callbacks are "
             "reported sorted by id, c04OrderCounterexample), so with distinct ids none is resolved twice (c04_sys_at_most_once), invoked "
             "callbacks come in request order (c04_sys_request_order_partial), and a history without a failing system call that ends in "
             "workerIdle or drop invokes every requested callback exactly once, positively (c04_sys_exactly_once_no_fault). Implementation-side oracle on the interposed "
             "trace (per-file written/synced counters) under injected EIO / short writes at every call.",
             technique="Lean 4 invariants over the worker small-step machine + trace oracle under fault injection + correspondence",
             ref="8 C04"),
 "C05": dict(text="Proved (Props/C05Crash) for every legal history (any cfg, any worker outcomes, worker alive) and every crash image of the "
             "final directory: recovery never panics (c05_recovery_never_panics, no hypothesis on the image); with truncation enabled and "
             "the image outside the recorded rotation-gap class (NoTornPredecessor: every linked file but the newest parses cleanly and "
             "abuts its successor - guaranteed e.g. whenever the newest chunk's start is acknowledged, c05_no_torn_predecessor_when_synced) "
             "open succeeds (c05_open_succeeds_partial); the recovered system satisfies all system invariants for the recovered reference "
             "prefix incl. payloads (c05_recovered_store_is_consistent), so it accepts every further legal history with every call "
             "returning ok, acknowledges flushes, a clean restart is the identity, and a further crash recovers again "
             "(c05_recovered_accepts_history, c05_flush_is_acknowledged, c05_recovered_restart_is_identity, c05_two_crashes, the invariant "
             "CrashInvC5b is preserved by histories and re-established by recovery); a crash at ANY moment of recovery itself (every "
             "prefix of the file-system effects of open, any crash image of it) recovers the same state (c05_recovery_crash_is_recoverable). "
             "The rotation-gap class is a recorded finding with a proved witness (c05_rotation_gap_witness). Run: every legal crash image "
             "(process crash, cuts, zero fill at every caller position and worker progress) and crashes during recovery must open, accept "
             "writes incl. an append, acknowledge a flush and reopen.",
             technique="Lean 4 invariant proofs (crash invariant preserved by histories and re-established by recovery) + crash-image enumeration with model correspondence",
             ref="8 C05"),
 "C08": dict(text="Proved at system level for every legal history, every interleaving and every worker outcome along which the worker "
             "stays alive (Props/C08Sys): the linked files are exactly dropped-but-not-yet-unlinked chunks ++ live chunks, in order, each "
             "file id = previous id + previous chunk length, every file starting with a State snapshot (c08_remaining_files_gap_free_suffix); "
             "a worker step unlinks at most the head of the removal list = the oldest linked file (c08_unlinks_oldest_first); whenever the "
             "worker unlinks chunk c, the journal position m right behind the purge that made it obsolete is at or below the acknowledged "
             "position, every remaining file is written and durable up to m (or its end), every later prefix of the history has a purge "
             "point at or beyond c's closing last, and no index entry lives in c (c08_unlink_only_after_purge_durable); after EVERY flush + "
             "workerIdle (worker alive; also after earlier failed syncs) nothing is left to unlink, nothing is postponed and the directory "
             "holds exactly the live chunks (c08_flushed_idle_gone_always; a removal is postponed only while the last sync failed: "
             "c08_postponed_only_after_failed_sync). Worker level (Props/C08): unlink only after a good sync, list order, popObsolete drops a prefix. "
             "Not a theorem (false in the model, recorded finding): a chunk closed after the purge that covers it stays until the next "
             "purge call. Trace oracle per unlink event on the "
             "implementation under injected faults + correspondence.",
             technique="Lean 4 invariant proofs (ghost store of dropped chunks, per-chunk purge marker <= acknowledged position) + trace oracle under fault injection + correspondence",
             ref="8 C08"),
 "C10": dict(text="Proved for all record lists and all positions: parsing encAll rs is clean; a cut inside a record yields exactly "
             "the complete records before it with eof; a zero tail of any length m>=1 yields them with eof (m<28) or invalid "
             "(m>=28, crc32(0^20) != 0); openChunk truncates to the last complete record iff truncation is enabled and refuses "
             "otherwise; lifted to openStore (truncate + new chunk at the cut, explicit events and files). System level (Props/C10Sys), "
             "for every clean system reached by histories, clean restarts and crash recoveries and every reopening cfg: the newest chunk "
             "cut at ANY position inside ANY record after its head (c10_sys_cut_newest[_reach]) or followed by / overwritten from a record "
             "boundary with ANY number m>=1 of zero bytes (c10_sys_zero_tail_newest, c10_sys_zero_from_boundary): with truncation enabled open "
             "succeeds, emits exactly sync*, trunc, sync, sync, create, write-head, cuts the file to the last complete record, starts a new "
             "chunk there, recovers exactly the state and index of the directory cut at that record boundary (= the pre-restart state for "
             "a zero tail) and leaves every other file's bytes alone; with truncation disabled it returns eof/invalid and leaves all bytes; a "
             "cut inside the head record is the headless-chunk case (fix D3, example); the recovered store accepts the next record "
             "(c10_sys_zero_tail_recovered_accepts_partial). Sweep: every cut "
             "position / zero tails at every boundary x both settings; oracle: exactly the complete prefix, files untouched "
             "when refused.",
             technique="Lean 4 theorems about parseChunk/openChunk/openStore, lifted to every reachable directory + exhaustive cut/zero-tail sweep with correspondence",
             ref="8 C10"),
 "C14": dict(text="Proved: after drop the store is gone, the lock is free, the worker is dead with an empty queue (the join loop "
             "terminates: explicit measure, and the model's fuel is sufficient for every reachable state), and any further "
             "history without open leaves the whole system unchanged (c14_drop_quiesces_system). Oracle: no event after "
             "`dropped`, worker not alive, the LOCK file is still held whenever the dropping store's worker issues a call "
             "(probe), also when the store is dropped by a panic unwinding; reopen shows the acknowledged state and the new "
             "instance purges and flushes. System level (Props/C14Busy): a drop issued while the worker still has queued writes, syncs and "
             "unlinks equals `workerIdle` then drop (c14_busy_drop_eq_idle_drop); for every legal history ending with nothing pending on "
             "the caller side and either a write still to be synced by the worker or no failed sync outstanding, drop + (any steps without open) + open with ANY configuration "
             "succeeds, touches no file, shows the same state, index and chunk table, re-establishes all invariants, and every further "
             "history behaves like the reference log (c14_busy_drop_then_open, c14_after_busy_drop_nothing_changes, "
             "c14_busy_history_after_restart); c14_busy_failed_sync_needed shows the hypothesis is needed for the chunk table when the worker is already idle "
             "after a failed sync (state and index are still equal).",
             technique="Lean 4 termination + invariant proof for drop + gated-worker scenarios with a lock probe",
             ref="8 C14"),
 "C07": dict(text="Proved (c07_reads_with_truncate): for every configuration incl. cache limits 0, every history of legal calls "
             "INCLUDING truncate, interleaved with arbitrary flushes, drains and worker steps of any non-fatal outcome, in which every "
             "appended log id is greater than every id appended earlier (AppendsFresh: a re-append after a truncation uses a higher "
             "term), read and iter return exactly the reference entries with their original payloads: every live entry is resident or "
             "its record is completely written in a closed chunk's file (ReadInvC7b: the journal invariant + a ghost bound on every "
             "eviction boundary that exists or can still be published); worker steps and cache limits are invisible. "
             "c07_reads_partial (histories without truncate) is a corollary. The excluded class (an entry re-appended after a "
             "truncation with a log id at or below a boundary) is a recorded finding with a proved counterexample that fails "
             "AppendsFresh. ACROSS RESTARTS (Props/C07Restart): a clean restart with ANY new configuration (cache limits 0 included) "
             "re-establishes the read invariant (c07_clean_restart_keeps_read_invariant), so reads = reference after any number of "
             "clean cycles and a final history (c07_reads_across_restarts); after crash RECOVERY of any crash image outside the "
             "rotation-gap class the reads equal the recovered reference prefix and stay correct for every fresh continuation and "
             "further crash rounds (c07_reads_after_crash_recovery, c07_reads_after_recovery_continue). Correspondence/oracle with "
             "small caches x worker steps x drains x restarts x recovery images x held snapshots x reader threads.",
             technique="Lean 4 invariant proof (ReadInv over journal + cache + worker, ghost bound for truncations) + correspondence/oracle against the reference log",
             ref="8 C07"),
 "C03": dict(text="Proved in full (c03_crash_prefix, c03_acked_writes_survive; no side hypothesis): for every configuration and every legal "
             "history of calls, flushes and worker steps with arbitrary outcomes (short writes, failed syncs) along which the worker stays "
             "alive, every crash image of the final directory allowed by the crash model (per linked file: cut anywhere at or after the "
             "durable length, or zero-filled from a record boundary; process crash and worst power failure are instances) and every "
             "configuration of the reopening: if open succeeds, the recovered state and index keys are those of the reference log after "
             "some prefix of the entry-level writes of the history, and that prefix contains every write issued before any flush whose "
             "callback reported success. Ingredients, each for ALL histories: S1 every chunk file is a byte prefix of its records' "
             "encodings and every crash image of it parses to a record prefix (no torn record visible); S2 recovery = replay of a prefix "
             "of the journal of the linked files (live chunks plus dropped-but-not-yet-unlinked chunks: ghost store); S3 journal prefixes "
             "beyond the drop marker mirror history prefixes; S4 every file is written and durable up to the acknowledged position and a "
             "positive callback raises it to its flush's journal end; marker invariant: a chunk file is unlinked only after the purge "
             "that dropped it is acknowledged (c03_marker_invariant). Entry payloads are compared by the run (read), the theorem speaks "
             "of state and index keys. Correspondence/oracle: crash images (cut / zero-fill / process) at every worker progress point and "
             "EIO position of generated histories incl. purges, rotations and blocked rotations; recovered st/entries must equal a "
             "reference prefix bounded below by the implementation-side acknowledgements.",
             technique="Lean 4 invariant proofs (journal, durability, history mirror, ghost store) over a crash-image model + correspondence/oracle over enumerated crash images",
             ref="8 C03"),
 "C02": dict(text="Proved (c02_clean_restart, c02_cycles, c02_refinement_continues): for every legal history with the worker alive, "
             "if everything is flushed, the worker is quiet and no removal is outstanding, then drop + open with ANY "
             "configuration succeeds, issues no file-system call other than one fdatasync per chunk file it keeps (fix 40ee787), leaves every file byte-identical, and yields the same state, "
             "the same index map and the same chunk table; the journal and replay invariants hold again, so this iterates over "
             "any number of cycles, and with covering cache limits the refinement to the reference log (C01) continues. Built on "
             "a replay invariant (replaying the retained journal from scratch gives the live state and index, also after purges "
             "dropped chunks). Correspondence/oracle: state, entries, directory and size around every clean restart with "
             "different limits, open must not touch files.",
             technique="Lean 4 replay invariant + restart theorem + correspondence/oracle around restarts",
             ref="8 C02"),
}

NOT_YET = "check not built yet (work in progress; see DESIGN.md section 8)"

checks, na = [], []
for p in props:
    pid = p["id"]
    if pid in CLAIMS:
        c = CLAIMS[pid]
        checks.append({
            "property_id": pid,
            "quick_cmd": f"./check {pid} --tier quick",
            "thorough_cmd": f"./check {pid} --tier thorough",
            "evidence_file": f"/verif/evidence/{pid}.json",
            "replay_cmd_template": f"./check {pid} --replay {{path}}",
            "engine": "lean-model+harness",
            "level_claimed": {"category": "proof", "text": c["text"], "design_ref": c["ref"]},
            "level_note": TB,
            "technique": c["technique"],
        })
    else:
        na.append({"property_id": pid, "reason": NOT_YET})

m = {
 "version": 1,
 "setup_cmd": "cd /verif/lean && lake build RaftLogModel driver && cd /verif/harness && cargo build --offline",
 "hooks": {
  "guard": "cargo feature verif-hooks",
  "enable": "the harness crate depends on raft-log with features = [\"verif-hooks\"] (path dependency on /repo, rebuilt from the working tree on every check)",
  "baseline_off_cmd": "cd /repo && cargo test --workspace --no-fail-fast --offline",
  "source_commits": hooks_commits,
  "add_only": True,
 },
 "engines": [
  {"name": "lean-model+harness", "path": "/verif/lean, /verif/harness, /verif/tools",
   "serves_properties": sorted(CLAIMS),
   "kind_free_text": "Lean 4 model with machine-checked theorems; Rust harness driving the real crate under libc interposition and a gated flush worker; Python runner diffing observation streams and evaluating the reference-log oracle"},
 ],
 "checks": checks,
 "notes": "see DESIGN.md; KNOWN_FINDINGS.json lists recorded findings and fixed defects",
 "not_applicable": na,
}
json.dump(m, open(os.path.join(V, "MANIFEST.json"), "w"), indent=1)
print("claimed:", sorted(CLAIMS), "unclaimed:", [x["property_id"] for x in na])

# ---------------------------------------------------------------------------
# PROPERTIES_STATUS.md (theorems per property, from the registry and the last evidence)
# and seeded/RESULTS.md
# ---------------------------------------------------------------------------
import sys
sys.path.insert(0, os.path.join(V, "tools"))
import props as _props  # noqa: E402

lines = ["# Property status (generated by tools/mkmanifest.py)", ""]
for p in props:
    pid = p["id"]
    P = _props.PROPS.get(pid, {})
    lines.append(f"## {pid} — {p['title']}")
    lines.append("")
    lines.append(f"claimed: {'yes' if pid in CLAIMS else 'no'}; theorems required by the check: "
                 f"{len(P.get('theorems', []))}")
    evp = os.path.join(V, "evidence", f"{pid}.json")
    if os.path.exists(evp):
        try:
            ev = json.load(open(evp))
            th = ev["coverage"].get("theorems", {})
            for t, ax in th.items():
                lines.append(f"* `{t}` — axioms: {', '.join(ax) if ax else 'none'}")
            c = ev["coverage"]
            lines.append("")
            lines.append(f"last run: tier={ev['tier']} seed={ev['seed']} scripts={c.get('evaluations')} "
                         f"agreeing={c.get('traces_validated_against_impl')} disagreements={c.get('disagreements')} "
                         f"violations={ev.get('violations')} known_findings_met={len(ev.get('known_findings_met', []))}")
        except Exception as e:  # pragma: no cover
            lines.append(f"(evidence unreadable: {e})")
    lines.append("")
open(os.path.join(V, "PROPERTIES_STATUS.md"), "w").write("\n".join(lines))

sd = os.path.join(V, "seeded")
if os.path.isdir(sd):
    rows = ["# Seeded changes and what caught them (generated)", "",
            "| id | breaks | needs to manifest | checks run / result |", "|---|---|---|---|"]
    for d in sorted(os.listdir(sd)):
        mp = os.path.join(sd, d, "meta.json")
        if os.path.exists(mp):
            m = json.load(open(mp))
            need = str(m.get("needs_to_manifest", m.get("what_it_needs_to_manifest", ""))).replace("\n", " ")[:260]
            rows.append(f"| {d} | {m.get('breaks_property', '')} | {need} | {str(m.get('checks_run', ''))[:300]} |")
    open(os.path.join(sd, "RESULTS.md"), "w").write("\n".join(rows) + "\n")
