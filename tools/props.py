"""Per-property configuration: theorems, generators, footprint projections,
oracles on the implementation's observations, known-finding classes."""
import hashlib
import os
import re

import core
import gen

U64MAX = 2 ** 64 - 1


# ---------------------------------------------------------------------------
# projections (footprints)
# ---------------------------------------------------------------------------

def ret_kind(l):
    """`ret ok 18,28` -> `ret ok` (segments are C11's business)."""
    t = l.split()
    if t[:2] == ["ret", "ok"]:
        return "ret ok"
    return l


def proj_c12(l):
    return l if l.startswith(("enc", "dec")) else None


def proj_c01(l):
    if l.startswith("ret"):
        return ret_kind(l)
    if l.startswith(("st ", "read ", "iter ", "open ")):
        return l
    return None


def stat_cache(l):
    m = re.search(r"cache=(\S+) hm=(\S+)", l)
    return m.group(0) if m else l


def proj_c06(l):
    if l.startswith("ret"):
        return ret_kind(l)
    if l.startswith(("st ", "read ", "open ", "res ", "dropped")):
        return l
    if l.startswith("stat "):
        return "stat " + stat_cache(l)
    return None


def proj_c16(l):
    if l.startswith("ev "):
        return None
    return "panic" if "panic" in l.split() or l.endswith("panic") else "nopanic"


def proj_c15(l):
    if l.startswith("stat "):
        m = re.search(r"cache=(\S+)", l)
        return "stat " + (m.group(0) if m else l)
    if l.startswith("res "):
        return l
    return None


def proj_c11(l):
    if l.startswith(("ret", "size ", "rec ", "name ")):
        return l
    if l.startswith("dir "):
        # id:len:durable:hash -> id:len:hash (durability is C04's business)
        parts = []
        for p in l.split()[1:]:
            f = p.split(":")
            parts.append(":".join([f[0], f[1], f[3]]) if len(f) == 4 else p)
        return "dir " + " ".join(parts)
    if l.startswith("stat "):
        return l.split(" cache=")[0]
    if l.startswith("ev create") or l.startswith("ev write c") or l.startswith("ev write o"):
        return l
    return None


def proj_all(l):
    return l


# ---------------------------------------------------------------------------
# oracles: predicates on the implementation's own observations
# Each returns a list of (class, detail) failures.
# ---------------------------------------------------------------------------

def spec_lines(g):
    return {s.split()[0]: s for s in g.spec}


def oracle_spec_equal(channels, kind_only_ret=True):
    """impl line must equal what the reference log demands (the `=` lines the
    driver attached to the corresponding model line)."""

    def orc(script, ig, mg):
        fails = []
        for i, (a, b) in enumerate(zip(ig, mg)):
            for s in b.spec:
                ch = s.split()[0]
                if ch not in channels:
                    continue
                if not a.line.startswith(ch):
                    continue
                x = ret_kind(a.line) if (ch == "ret" and kind_only_ret) else a.line
                if x != s:
                    fails.append((f"{ch}-differs-from-spec", {"group": i, "impl": a.line, "spec": s}))
                    return fails
        return fails

    return orc


def oracle_c12(script, ig, mg):
    """Round trip on the implementation alone: `dec(enc r)` is checked through
    the model equality; here: no panic, and an `enc` never reports a size that
    differs from the bytes written."""
    fails = []
    for i, a in enumerate(ig):
        if "panic" in a.line or "size-mismatch" in a.line:
            fails.append(("codec-panic-or-size", {"group": i, "impl": a.line}))
            break
    return fails


def oracle_c16(script, ig, mg):
    fails = []
    prim = [l for l in script if l.split()[0] not in ("cfg", "drain", "fsop", "lay", "crash")]
    for i, a in enumerate(ig):
        if "panic" in a.line.split() or a.line.endswith("panic"):
            line = prim[i] if i < len(prim) else "?"
            cls = "panic"
            # the class comes from the model: it predicts this panic at a
            # `next_log_index` overflow site (an index equal to u64::MAX)
            if i < len(mg) and mg[i].line == a.line and any(
                    x.startswith("panic next_log_index overflow") for x in mg[i].info):
                cls = "index-u64-max"
            fails.append((cls, {"group": i, "impl": a.line, "op": line}))
            break
    return fails


def oracle_c06(script, ig, mg):
    """Spec equality on ret/st/read, plus: a call the spec rejects leaves
    stat(cache)/res exactly as they were (the generator brackets every write
    with `stat`,`res`)."""
    fails = oracle_spec_equal({"ret", "st", "read"})(script, ig, mg)
    if fails:
        return fails
    for i, (a, b) in enumerate(zip(ig, mg)):
        sp = spec_lines(b)
        if "ret" in sp and sp["ret"].startswith("ret err"):
            before = [g.line for g in ig[max(0, i - 2):i] if g.line.startswith(("stat", "res"))]
            after = [g.line for g in ig[i + 1:i + 3] if g.line.startswith(("stat", "res"))]
            if len(before) == 2 and len(after) == 2:
                b2 = [proj_c06(x) for x in before]
                a2 = [proj_c06(x) for x in after]
                if b2 != a2:
                    fails.append(("rejected-write-changed-cache", {"group": i, "before": before, "after": after}))
                    return fails
    return fails


def oracle_c15(script, ig, mg):
    """Accounting on the implementation alone: reported item count and size
    equal what the resident list says (every `stat` is followed by `res`)."""
    fails = []
    for i in range(len(ig) - 1):
        a, b = ig[i].line, ig[i + 1].line
        if a.startswith("stat ") and b.startswith("res"):
            m = re.search(r"cache=(\d+):(\d+):(\d+):(\d+):(\S+)", a)
            if not m:
                continue
            items, size = int(m.group(1)), int(m.group(2))
            res = b.split()[1:]
            rs = sum(int(x.split(":")[1]) for x in res)
            if items != len(res) or size != rs:
                fails.append(("cache-accounting", {"group": i, "stat": a, "res": b}))
                return fails
            # over a limit after a write => every resident id above the boundary
            mx, cap, bd = int(m.group(3)), int(m.group(4)), m.group(5)
            if (items > mx or size > cap) and ig[i].evs is not None:
                if bd != "-" and res:
                    bt, bi = [int(x) for x in bd.split(",")]
                    first = res[0].split(":")[0]
                    ft, fi = [int(x) for x in first.split(",")]
                    prev = ig[i - 1].line if i > 0 else ""
                    if (ft, fi) <= (bt, bi) and prev.startswith("ret ok") and script_is_append(script, ig, i - 1):
                        fails.append(("over-limit-with-evictable", {"group": i, "stat": a, "res": b}))
                        return fails
    return fails


def script_is_append(script, ig, gi):
    prim = [l for l in script if l.split()[0] not in ("cfg", "drain", "fsop", "lay", "crash")]
    return gi < len(prim) and prim[gi].startswith("app ")


def oracle_none(script, ig, mg):
    return []


# ---------------------------------------------------------------------------
# generators
# ---------------------------------------------------------------------------

def scripts_c12(tier, rng):
    n = 40 if tier == "quick" else 400
    ss = gen.gen_c12(rng, n, 250)
    return [(f"c12_{i}", s) for i, s in enumerate(ss)], {}


def hist_scripts(prefix, n, rng, **kw):
    out, stats = [], {}
    for i in range(n):
        g = gen.HistGen(rng.fork(), **kw)
        out.append((f"{prefix}_{i}", g.script()))
        for k, v in g.stats.items():
            stats[k] = stats.get(k, 0) + v
    return out, stats


def scripts_c01(tier, rng):
    n = 300 if tier == "quick" else 4000
    a, s1 = hist_scripts("c01", n, rng, max_ops=40, queries=("st", "read"), big_payload=True)
    b, s2 = hist_scripts("c01i", n // 4, rng, max_ops=25, queries=("st", "read", "iter"), worker_steps=True)
    for k, v in s2.items():
        s1[k] = s1.get(k, 0) + v
    return a + b, s1


def scripts_c06(tier, rng):
    n = 300 if tier == "quick" else 4000
    out, stats = [], {}
    for i in range(n):
        g = gen.HistGen(rng.fork(), max_ops=30, rejected=True, queries=("st", "read"), restarts=True)
        lines = []
        for l in g.script():
            w = l.split()[0]
            if w in ("vote", "app", "trunc", "purge", "commit", "ud"):
                lines += ["stat", "res", l, "stat", "res"]
            else:
                lines.append(l)
        # flush + restart at the end: the store must open and show the same state
        lines += [f"flush 9999", "widle", "st", f"read 0 {U64MAX}", "drop", "open", "st", f"read 0 {U64MAX}"]
        out.append((f"c06_{i}", lines))
        for k, v in g.stats.items():
            stats[k] = stats.get(k, 0) + v
    return out, stats


def scripts_c16(tier, rng):
    n = 400 if tier == "quick" else 5000
    out, stats = [], {}
    for i in range(n):
        g = gen.HistGen(rng.fork(), max_ops=25, boundary_args=True, rejected=True,
                        queries=("st", "read", "stat", "size", "iter"))
        out.append((f"c16_{i}", g.script()))
        for k, v in g.stats.items():
            stats[k] = stats.get(k, 0) + v
    return out, stats


def scripts_c15(tier, rng):
    n = 300 if tier == "quick" else 4000
    out, stats = [], {}
    for i in range(n):
        g = gen.HistGen(rng.fork(), max_ops=35, small_cache=True, worker_steps=True, rejected=True,
                        queries=(), payload_sizes=(0, 1, 7, 300))
        lines = []
        for l in g.script():
            lines.append(l)
            w = l.split()[0]
            if w in ("vote", "app", "trunc", "purge", "commit", "ud", "w", "widle", "open"):
                lines += ["stat", "res"]
        lines += ["flush 9999", "widle", "drain", "stat", "res"]
        out.append((f"c15_{i}", lines))
        for k, v in g.stats.items():
            stats[k] = stats.get(k, 0) + v
    return out, stats


def scripts_c11(tier, rng):
    n = 300 if tier == "quick" else 4000
    out, stats = [], {}
    for i in range(n):
        g = gen.HistGen(rng.fork(), max_ops=35, queries=("stat", "size"), rejected=True)
        lines = g.script() + ["flush 9999", "widle", "dir", "stat", "size", "dumpw"]
        out.append((f"c11_{i}", lines))
        for k, v in g.stats.items():
            stats[k] = stats.get(k, 0) + v
    return out, stats


# ---------------------------------------------------------------------------
# registry
# ---------------------------------------------------------------------------

OS_ASSUMPTIONS = [
    "Types instantiation fixed: LogId=(u64,u64), Vote=(u64,u64), payload/user data = Vec<u8> (< 4 GiB)",
]

PROPS = {
    "C12": dict(
        theorems=["c12_roundtrip", "c12_consumed", "c12_canonical", "c12_prefix_eof", "c12_total"],
        gen=scripts_c12, project=proj_c12, oracle=oracle_c12,
        nontrivial=lambda s: True,
        explanation="codec theorems over all records/byte strings; correspondence on public codeq Encode/Decode of WALRecord",
        assumptions=OS_ASSUMPTIONS + ["crc32fast computes the bitwise reflected CRC-32 (checked on every generated record)"],
    ),
    "C01": dict(
        theorems=[],
        gen=scripts_c01, project=proj_c01, oracle=oracle_spec_equal({"ret", "st", "read", "iter"}),
        explanation="refinement of the reference log; footprint ret(kind)/st/read/iter",
        assumptions=OS_ASSUMPTIONS,
    ),
    "C06": dict(
        theorems=["c06_rejected_record_noop", "c06_err_is_noop", "c06_rejected_call_noop",
                  "c06_batch_rejected_entry_noop", "c06_spec_rejects_vote", "c06_spec_rejects_commit"],
        gen=scripts_c06, project=proj_c06, oracle=oracle_c06,
        explanation="a rejected call is a no-op on the whole model state",
        assumptions=OS_ASSUMPTIONS,
    ),
    "C16": dict(
        theorems=["c16_call_no_panic_partial", "c16_fresh_panicFree", "c16_history_no_panic_partial",
                  "c16_read_inverted_empty", "c16_truncate_zero_is_error", "c16_witness_u64_max"],
        gen=scripts_c16, project=proj_c16, oracle=oracle_c16,
        explanation="no panic branch of the checked-arithmetic model is reachable",
        assumptions=OS_ASSUMPTIONS + ["harness built with overflow-checks and debug-assertions on"],
    ),
    "C15": dict(
        theorems=["c15_accounting_exact", "c15_over_limit_only_pinned", "c15_drained"],
        gen=scripts_c15, project=proj_c15, oracle=oracle_c15,
        explanation="cache accounting invariant",
        assumptions=OS_ASSUMPTIONS,
    ),
    "C11": dict(
        theorems=[],
        gen=scripts_c11, project=proj_c11, oracle=oracle_none,
        explanation="journal layout invariant",
        assumptions=OS_ASSUMPTIONS,
    ),
}

PROBE = ["st", f"read 0 {U64MAX}", "stat", "res", "flush 99990", "widle", "drop", "open", "st",
         f"read 0 {U64MAX}"]


def known_classes(pid):
    k = core.load_known()
    return {f["class"]: f for f in k.get("findings", []) if f["property"] == pid}


def evaluate(pid, P, name, lines, impl, model):
    """-> (diff|None, oracle_fails)"""
    ig = core.groups_of(impl)
    mg = core.groups_of(model)
    diff = core.first_diff(impl, model, P["project"])
    fails = P["oracle"](lines, ig, mg)
    return diff, fails


def run_scripts(pid, P, scripts, tier, seed, search=True, stats=None):
    impl, model, problems = core.run_many(scripts)
    known = known_classes(pid)
    violations, known_hits = [], []
    seen_classes = set()
    n_ok = 0
    diffs = []
    by_name = dict(scripts)
    for name, lines in scripts:
        il, ml = impl.get(name, []), model.get(name, [])
        diff, fails = evaluate(pid, P, name, lines, il, ml)
        if fails:
            cls = fails[0][0]
            if cls in known:
                msg = f"class={cls} {known[cls]['what']}"
                if msg not in known_hits:
                    known_hits.append(msg)
                # a known finding explains this script; the model must still agree
                if diff is None:
                    n_ok += 1
                else:
                    diffs.append((name, diff))
                continue
            if cls in seen_classes:
                continue
            seen_classes.add(cls)

            def still_fails(cand, cls=cls):
                i2, m2, _ = core.run_one(cand, "shrink")
                _, f2 = evaluate(pid, P, "shrink", cand, i2, m2)
                return bool(f2) and f2[0][0] == cls

            small = core.ddmin(lines, still_fails, keep_prefix=0) if search else lines
            i2, m2, _ = core.run_one(small, "final")
            _, f2 = evaluate(pid, P, "final", small, i2, m2)
            path = core.write_replay(pid, "oracle-" + cls, small, i2, m2, {"failures": f2 or fails},
                                     {"original_script": lines, "seed": seed})
            violations.append(("oracle", path, False))
        elif diff is not None:
            diffs.append((name, diff))
        else:
            n_ok += 1
    if problems:
        path = core.write_replay(pid, "harness-run", [], [], [], {"problems": problems[:5]},
                                 {"broken": "harness or driver did not run to completion"})
        violations.append(("harness-run", path, True))
    if diffs and not violations:
        # the correspondence broke on the footprint and no oracle failure was
        # seen: shrink the first disagreement, then look for a failing input
        name, diff = diffs[0]
        lines = by_name[name]

        def still_diff(cand):
            i2, m2, _ = core.run_one(cand, "shrink")
            return core.first_diff(i2, m2, P["project"]) is not None

        small = core.ddmin(lines, still_diff) if search else lines
        found = None
        if search:
            for ext in ([], PROBE):
                cand = small + ext
                i2, m2, _ = core.run_one(cand, "probe")
                _, f2 = evaluate(pid, P, "probe", cand, i2, m2)
                if f2 and f2[0][0] not in known:
                    found = (cand, i2, m2, f2)
                    break
        if found:
            cand, i2, m2, f2 = found
            path = core.write_replay(pid, "oracle-" + f2[0][0], cand, i2, m2, {"failures": f2}, {"seed": seed})
            violations.append(("oracle", path, False))
        else:
            i2, m2, _ = core.run_one(small, "final")
            d2 = core.first_diff(i2, m2, P["project"])
            path = core.write_replay(
                pid, "correspondence", small, i2, m2,
                {"first_difference": d2 or diff, "scripts_disagreeing": len(diffs)},
                {"broken": "correspondence model=implementation on the footprint of " + pid,
                 "theorems_depending": P.get("theorems", []), "original_script": lines, "seed": seed})
            violations.append(("correspondence", path, True))
    distinct = len({hashlib.sha1("\n".join(l).encode()).hexdigest() for _, l in scripts})
    nontriv = P.get("nontrivial") or (lambda s: sum(1 for l in s if l.split()[0] in
                                                   ("vote", "app", "trunc", "purge", "commit", "ud")) >= 2)
    dn = len({hashlib.sha1("\n".join(l).encode()).hexdigest() for _, l in scripts if nontriv(l)})
    cov = {
        "evaluations": len(scripts),
        "distinct_nontrivial": dn,
        "distinct": distinct,
        "rule": "seeded structured scripts (tools/gen.py) run on the implementation and on the Lean model; "
                "non-trivial = at least two write operations (C12: every case); distinct by script text",
        "samples": [{"name": n, "script": l[:40]} for n, l in scripts[:2]],
        "traces_validated_against_impl": n_ok,
        "disagreements": len(diffs),
        "distribution": stats or {},
    }
    return {"violations": violations, "known": known_hits, "coverage": cov}


def run_property(pid, P, tier, seed):
    rng = core.Rng(seed * 1000003 + int(pid[1:]))
    scripts, stats = P["gen"](tier, rng)
    corpus_dir = os.path.join(core.VERIF, "corpus", pid)
    corpus = []
    if os.path.isdir(corpus_dir):
        for f in sorted(os.listdir(corpus_dir)):
            if f.endswith(".script"):
                lines = [l.rstrip("\n") for l in open(os.path.join(corpus_dir, f)) if l.strip()
                         and not l.startswith("//")]
                corpus.append(("corpus_" + f[:-7].replace("-", "_"), lines))
    return run_scripts(pid, P, corpus + scripts, tier, seed, stats=stats)
