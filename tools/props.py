"""Per-property configuration: theorems, generators, footprint projections,
oracles on the implementation's observations, known-finding classes."""
import hashlib
import os
import re

import core
import gen

U64MAX = 2 ** 64 - 1


# ---------------------------------------------------------------------------
# projections (footprints)
# ---------------------------------------------------------------------------

def ret_kind(l):
    """`ret ok 18,28` -> `ret ok` (segments are C11's business)."""
    t = l.split()
    if t[:2] == ["ret", "ok"]:
        return "ret ok"
    return l


def proj_c12(l):
    return l if l.startswith(("enc", "dec")) else None  # `decr` prints `dec …` lines too


def proj_c01(l):
    if l.startswith("ret"):
        return ret_kind(l)
    if l.startswith(("st ", "read ", "iter ", "open ")):
        return l
    return None


def stat_cache(l):
    m = re.search(r"cache=(\S+) hm=(\S+)", l)
    return m.group(0) if m else l


def proj_c06(l):
    if l.startswith("ret"):
        return ret_kind(l)
    if l.startswith(("st ", "read ", "open ", "res ", "dropped", "size ", "dir ")):
        return l
    if l.startswith("stat "):
        # item count / size / limits / boundary; the hit/miss counters move with
        # the harness' own reads
        m = re.search(r"cache=(\S+)", l)
        return "stat " + (m.group(0) if m else l)
    return None


def proj_c16(l):
    if l.startswith("ev "):
        return None
    return "panic" if "panic" in l.split() or l.endswith("panic") else "nopanic"


def proj_c15(l):
    if l.startswith("stat "):
        m = re.search(r"cache=(\S+)", l)
        return "stat " + (m.group(0) if m else l)
    if l.startswith(("res ", "statdrain")):
        return l
    return None


def proj_c11(l):
    if l.startswith(("ret", "size ", "rec ", "name ", "pname ", "dumpw", "burst")):
        return l
    if l.startswith("dir "):
        # id:len:durable:hash -> id:len:hash (durability is C04's business)
        parts = []
        for p in l.split()[1:]:
            f = p.split(":")
            parts.append(":".join([f[0], f[1], f[3]]) if len(f) == 4 else p)
        return "dir " + " ".join(parts)
    if l.startswith("stat "):
        return l.split(" cache=")[0]
    if l.startswith("ev create") or l.startswith("ev write c") or l.startswith("ev write o"):
        return l
    return None


def proj_all(l):
    return l


# ---------------------------------------------------------------------------
# oracles: predicates on the implementation's own observations
# Each returns a list of (class, detail) failures.
# ---------------------------------------------------------------------------

def spec_lines(g):
    return {s.split()[0]: s for s in g.spec}


def oracle_spec_equal(channels, kind_only_ret=True, skip_d2=False):
    """impl line must equal what the reference log demands (the `=` lines the
    driver attached to the corresponding model line). With `skip_d2`, a read
    that the model reproduces and attributes to the C07 known finding (entry at
    or below the eviction boundary evicted) is left to C07."""

    def orc(script, ig, mg):
        fails = []
        for i, (a, b) in enumerate(zip(ig, mg)):
            if skip_d2 and a.line == b.line and any(x.startswith("c07 below-boundary-evicted") for x in b.info):
                continue
            for s in b.spec:
                ch = s.split()[0]
                if ch not in channels:
                    continue
                if not a.line.startswith(ch):
                    continue
                x = ret_kind(a.line) if (ch == "ret" and kind_only_ret) else a.line
                if ch == "ret" and x in ("ret err exists", "ret err sendFailed", "ret err io"):
                    continue  # an I/O failure (injected), not a verdict on the call
                if x != s:
                    fails.append((f"{ch}-differs-from-spec", {"group": i, "impl": a.line, "spec": s}))
                    return fails
        return fails

    return orc


def oracle_c12(script, ig, mg):
    """Round trip on the implementation alone: `dec(enc r)` is checked through
    the model equality; here: no panic, and an `enc` never reports a size that
    differs from the bytes written."""
    fails = []
    for i, a in enumerate(ig):
        if "panic" in a.line or "size-mismatch" in a.line:
            fails.append(("codec-panic-or-size", {"group": i, "impl": a.line}))
            break
        if i > 0 and i < len(script) and script[i].startswith("decr ") and script[i - 1].startswith("dec ") \
                and script[i].split()[2] == script[i - 1].split()[1] and a.line != ig[i - 1].line:
            fails.append(("decoding-depends-on-how-the-reader-chops-the-input",
                          {"group": i, "whole": ig[i - 1].line, "chopped": a.line, "cmd": script[i][:80]}))
            break
        if a.line == "bad-op" and i < len(mg) and mg[i].line != "bad-op" and i < len(script) \
                and script[i].split()[0] in ("enc", "rt") and script[i].split()[1] == "S":
            # the harness builds a State record by decoding the hand-made encoding of its fields (the
            # fields are private): the implementation refused to decode a valid encoding
            fails.append(("valid-state-encoding-does-not-decode", {"group": i, "cmd": script[i][:120]}))
            break
        if i < len(script) and script[i].startswith("encf "):
            room = int(script[i].split()[1])
            rec = script[i].split(" ", 2)[2]
            base = next((ig[j].line for j in range(i - 1, max(-1, i - 4), -1)
                         if j < len(script) and script[j] == "enc " + rec), None)
            if base is not None and base.startswith("enc ") and len(base.split()) == 2:
                ln = len(base.split()[1]) // 2
                want = base if ln <= room else "enc err"
                if a.line != want:
                    fails.append(("encoder-reports-success-without-delivering-the-bytes" if ln > room else
                                  "encoding-depends-on-how-the-writer-accepts-bytes",
                                  {"group": i, "cmd": script[i][:100], "record_len": ln, "room": room, "impl": a.line[:80]}))
                    break
        if i < len(script) and script[i].startswith("encw ") and a.line.startswith("enc "):
            # compare with the plain `enc` of the same record (two lines above: enc, rt, encw)
            base = next((ig[j].line for j in range(i - 1, max(-1, i - 3), -1)
                         if j < len(script) and script[j].startswith("enc ") and script[j][4:] == script[i].split(" ", 2)[2]), None)
            if base is not None and base != a.line:
                fails.append(("encoding-depends-on-how-the-writer-accepts-bytes",
                              {"group": i, "cmd": script[i][:100], "whole": base[:80], "dribbled": a.line[:80]}))
                break
        if a.line.startswith("rt ") and not re.fullmatch(r"rt ok \d+", a.line):
            fails.append(("big-record-does-not-round-trip", {"group": i, "impl": a.line, "cmd": script[i][:80]}))
            break
        if a.line.startswith("dec ok") and a.line.endswith("reenc=differs"):
            fails.append(("decoded-record-does-not-reencode-to-the-input", {"group": i, "impl": a.line}))
            break
    return fails


def oracle_c16(script, ig, mg):
    fails = []
    prim = primary_cmds(script)
    for i, a in enumerate(ig):
        # a panic on the flush-worker thread (the harness reports a thread that
        # died without running its exit hook)
        if any(e.startswith("ev exit panicked") for e in a.evs) and not (
                i < len(mg) and any(e.startswith("ev exit panicked") for e in mg[i].evs)):
            fails.append(("worker-thread-panic", {"group": i, "impl": a.evs[-3:] + [a.line],
                                                  "op": prim[i] if i < len(prim) else "?"}))
            break
        if "panic" in a.line.split() or a.line.endswith("panic"):
            line = prim[i] if i < len(prim) else "?"
            cls = "panic"
            # the class comes from the model: it predicts this panic at a
            # `next_log_index` overflow site (an index equal to u64::MAX)
            if i < len(mg) and mg[i].line == a.line and any(
                    x.startswith("panic next_log_index overflow") for x in mg[i].info):
                cls = "index-u64-max"
            fails.append((cls, {"group": i, "impl": a.line, "op": line}))
            break
    return fails


WRITE_WORDS = ("vote", "app", "trunc", "purge", "commit", "ud")
NO_OUTPUT = ("cfg", "drain", "fsop", "lay", "crash", "note")


def primary_cmds(script):
    return [l for l in script if l.split()[0] not in NO_OUTPUT]


def rejected_positions(mg):
    """Group indexes of the calls the reference log rejects."""
    return [i for i, g in enumerate(mg) if any(x.startswith("ret err") for x in g.spec)]


def c06_obs(g):
    return proj_c06(g.line)


QUERY_CH = ("st ", "read ", "stat ", "res ", "size ", "dir ")


def bracket(gs, i):
    """Observations right before and right after group i, per query channel
    present on both sides."""
    before, after = {}, {}
    k = i - 1
    while k >= 0 and gs[k].line.startswith(QUERY_CH):
        before.setdefault(gs[k].line.split()[0], c06_obs(gs[k]))
        k -= 1
    k = i + 1
    while k < len(gs) and gs[k].line.startswith(QUERY_CH):
        after.setdefault(gs[k].line.split()[0], c06_obs(gs[k]))
        k += 1
    common = sorted(set(before) & set(after))
    return [before[c] for c in common], [after[c] for c in common]


def footprint_c06(script, gs, mg):
    """What C06 speaks about: how a call that the reference log rejects (judged
    in the state this side itself reports) is answered - the error kind - and
    whether state / entries / cache statistics are the same right before and
    right after it. A summary (set of distinct outcomes per error kind): which
    calls are rejected depends on the whole history, which is C01's subject."""
    rej = {i: v for i, v in impl_judged(script, gs).items() if v.startswith("err")}
    out = set()
    for i, verdict in rej.items():
        if i >= len(gs):
            continue
        before, after = bracket(gs, i)
        answered = ret_kind(gs[i].line)
        if answered != "ret " + verdict or before != after:
            out.add(f"{verdict}: answered `{answered}` {'same' if before == after else 'changed'}")
    return sorted(out) if out else ["every self-judged rejected call refused with the judged error, observations unchanged"]


def strip_rejected(script, mg):
    """The twin history: the same script without the rejected calls (and the
    queries bracketing them stay)."""
    prim_idx = [k for k, l in enumerate(script) if l.split()[0] not in NO_OUTPUT]
    rej = set(rejected_positions(mg))
    drop = {prim_idx[i] for i in rej if i < len(prim_idx)}
    return [l for k, l in enumerate(script) if k not in drop]


def impl_judged(script, ig):
    """Verdict of the reference log (Lean `RefLog.call`, through the driver's
    `judge` command) on every write call, taken in the state the
    implementation itself reported right before the call. -> {group: 'ok'|'err kind'}"""
    prim = primary_cmds(script)
    qs, pos = [], []
    for i, cmd in enumerate(prim):
        if cmd.split()[0] not in WRITE_WORDS or i >= len(ig):
            continue
        st = rd = None
        k = i - 1
        while k >= 0 and ig[k].line.startswith(QUERY_CH):
            if ig[k].line.startswith("st ") and st is None:
                st = ig[k].line
            if ig[k].line.startswith("read ") and rd is None and prim[k] == f"read 0 {U64MAX}":
                rd = ig[k].line
            k -= 1
        if st is None or rd is None or "err:" in rd or "panic" in rd or st == "st none":
            continue
        f = dict(x.split("=", 1) for x in st.split()[1:])
        items = rd[len("read "):].strip()
        ids = ";".join(x.split(":")[0] for x in items.split(";")) if items else "-"
        qs.append(f"judge {f['vote']} {f['last']} {f['committed']} {f['purged']} {ids} {cmd}")
        pos.append(i)
    if not qs:
        return {}
    rc, out, _ = core._run_bin(core.DRIVER, "begin j\n" + "\n".join(qs) + "\nend\n", 120)
    res = [l for l in out.splitlines() if l.startswith("judge") or l == "bad-op"]
    return {p: r[len("judge "):] for p, r in zip(pos, res) if r.startswith("judge")}


def oracle_c06(script, ig, mg):
    """For every call that the reference log rejects *in the state the
    implementation itself reports before the call*: (1) the implementation
    returns that error, and st/read/stat(cache)/res/size right after equal
    those right before; (2) metamorphic: the same history without the rejected
    calls gives the same observations everywhere else (later writes, flush,
    restart) - implementation against implementation."""
    fails = []
    verdicts = impl_judged(script, ig)
    rej = [i for i, v in sorted(verdicts.items()) if v.startswith("err")]
    # a batch whose first k entries are accepted: k entry-level writes followed
    # by a rejected one; the rejected entry must leave no trace beyond them
    accepted = {}
    for i in rej:
        m = re.search(r" accepted=(\d+)$", verdicts[i])
        if m:
            accepted[i] = int(m.group(1))
            verdicts[i] = verdicts[i][:m.start()]
    for i in rej:
        want = "ret " + verdicts[i]
        if ret_kind(ig[i].line) != want:
            fails.append(("rejected-call-not-refused", {"group": i, "impl": ig[i].line, "spec": want}))
            return fails
        if i in accepted:
            continue  # judged through the twin below (the batch cut down to its accepted prefix)
        before, after = bracket(ig, i)
        if before != after:
            fails.append(("rejected-call-changed-state", {"group": i, "before": before, "after": after}))
            return fails
    if rej:
        prim_idx = [k for k, l in enumerate(script) if l.split()[0] not in NO_OUTPUT]
        drop = {prim_idx[i] for i in rej if i < len(prim_idx) and i not in accepted}
        cut = {prim_idx[i]: accepted[i] for i in rej if i < len(prim_idx) and i in accepted}
        twin, skip_twin = [], set()
        for k, l in enumerate(script):
            if k in drop:
                continue
            if k in cut:
                l = " ".join(l.split()[:1 + cut[k]])
                skip_twin.add(sum(1 for x in twin if x.split()[0] not in NO_OUTPUT))
            twin.append(l)
        ti, _, _ = core.run_one(twin, "twin")
        tg = core.groups_of(ti)
        rs = set(rej)
        full = [c06_obs(g) for k, g in enumerate(ig) if k not in rs]
        tw = [c06_obs(g) for k, g in enumerate(tg) if k not in skip_twin]
        if full != tw:
            k = next((j for j in range(min(len(full), len(tw))) if full[j] != tw[j]), min(len(full), len(tw)))
            fails.append(("history-differs-from-twin-without-rejected-calls",
                          {"at": k, "with": full[k] if k < len(full) else None,
                           "without": tw[k] if k < len(tw) else None}))
    return fails


def oracle_c15(script, ig, mg):
    """Accounting on the implementation alone: reported item count and size
    equal what the resident list says (every `stat` is followed by `res`)."""
    fails = []
    for g in ig:
        if g.line.startswith("statdrain torn"):
            # a stat() taken on another thread while a drain ran shows a count and a size that belong
            # to no resident set
            return [("stat-report-torn-under-concurrent-drain", {"line": g.line})]
    # after the worker is idle and the evictable entries are drained: nothing at or below the boundary
    for j, l in enumerate(script):
        if l != "drain":
            continue
        gi = len(primary_cmds(script[:j]))
        if gi < 1 or gi + 1 >= len(ig) or not ig[gi - 1].line.startswith("wst idle"):
            continue
        a, b = ig[gi].line, ig[gi + 1].line
        m = re.search(r"cache=(\d+):(\d+):(\d+):(\d+):(\S+)", a) if a.startswith("stat ") else None
        if m and b.startswith("res") and m.group(5) != "-":
            bd = tuple(int(x) for x in m.group(5).split(","))
            low = [x for x in b.split()[1:] if tuple(int(v) for v in x.split(":")[0].split(",")) <= bd]
            if low:
                return [("resident-at-or-below-boundary-after-drain", {"group": gi, "stat": a, "res": b, "low": low})]
    for i in range(len(ig) - 1):
        a, b = ig[i].line, ig[i + 1].line
        if a.startswith("stat ") and b.startswith("res"):
            m = re.search(r"cache=(\d+):(\d+):(\d+):(\d+):(\S+)", a)
            if not m:
                continue
            items, size = int(m.group(1)), int(m.group(2))
            res = b.split()[1:]
            rs = sum(int(x.split(":")[1]) for x in res)
            if items != len(res) or size != rs:
                fails.append(("cache-accounting", {"group": i, "stat": a, "res": b}))
                return fails
            # over a limit after a write => every resident id above the boundary
            mx, cap, bd = int(m.group(3)), int(m.group(4)), m.group(5)
            # the limits are the configured ones (of the last `cfg` line before the store was opened),
            # whatever the store reports
            cur = {}
            nprim = -1
            pend = {}
            for l in script:
                if l.startswith("cfg"):
                    pend = dict(x.split("=") for x in l.split()[1:])
                if l.split()[0] not in NO_OUTPUT:
                    nprim += 1
                    if l == "open":
                        cur = pend
                    if nprim >= i:
                        break
            if cur.get("ci", "-") != "-":
                mx = int(cur["ci"])
            if cur.get("cc", "-") != "-":
                cap = int(cur["cc"])
            if (items > mx or size > cap) and ig[i].evs is not None:
                if bd != "-" and res:
                    bt, bi = [int(x) for x in bd.split(",")]
                    first = res[0].split(":")[0]
                    ft, fi = [int(x) for x in first.split(",")]
                    prev = ig[i - 1].line if i > 0 else ""
                    # "after a write": an accepted append, or a batch whose
                    # accepted prefix was written before a later entry was
                    # rejected (a new id is resident)
                    wrote = prev.startswith("ret ok")
                    if prev.startswith("ret err") and i >= 2 and ig[i - 2].line.startswith("res"):
                        before = {x.split(":")[0] for x in ig[i - 2].line.split()[1:]}
                        wrote = any(x.split(":")[0] not in before for x in res)
                    if (ft, fi) <= (bt, bi) and wrote and script_is_append(script, ig, i - 1):
                        fails.append(("over-limit-with-evictable", {"group": i, "stat": a, "res": b}))
                        return fails
    return fails


def script_is_append(script, ig, gi):
    prim = primary_cmds(script)
    return gi < len(prim) and prim[gi].startswith("app ")


def parse_cfg(script):
    cfg = {}
    for l in script:
        if l.startswith("cfg"):
            cfg = dict(x.split("=") for x in l.split()[1:])
    mr = int(cfg["mr"]) if cfg.get("mr", "-") != "-" else 1024 * 1024
    ms = int(cfg["ms"]) if cfg.get("ms", "-") != "-" else 1024 ** 3
    return mr, ms


def op_records(cmd):
    """The journal records an accepted call writes, as `rec` text prefixes."""
    t = cmd.split()
    if t[0] == "vote":
        return [f"V {t[1]},{t[2]}"]
    if t[0] == "commit":
        return [f"C {t[1]},{t[2]}"]
    if t[0] == "purge":
        return [f"P {t[1]},{t[2]}"]
    if t[0] == "trunc":
        return ["T "]
    if t[0] == "ud":
        return ["S "]
    if t[0] == "app":
        out = []
        for e in t[1:]:
            a, b, p = e.split(",", 2)
            out.append(f"A {a},{b} ")
        return out
    return []


def oracle_c11(script, ig, mg):
    """On the implementation's observations alone (fresh store, no restart):
    returned segments are where the records are; records appear once each in
    call order; files abut; each file starts with the state snapshot taken
    when it was started; a chunk is closed as soon as it is full; on-disk size
    is the sum of the retained files."""
    fails = []
    prim = primary_cmds(script)
    for i, g in enumerate(ig):
        if g.line.startswith("burst ") and not g.line.startswith("burst ok"):
            return [("write-or-flush-failed-under-back-pressure", {"group": i, "line": g.line})]
    if sum(1 for c in prim if c == "open") != 1 or any(c in ("drop", "crash") for c in prim) \
            or any(c.startswith("burst") for c in prim) or any(l.startswith("fsop touch") for l in script):
        # (a blocked rotation leaves a stray file and a failed call whose record was journalled: those
        # scripts are judged by the model correspondence on dump, directory and size)
        return fails
    mr, ms = parse_cfg(script)
    expected = []  # (global_off, size, rec_prefix) of every journalled record
    end = None
    state_after = {}  # chunk id -> st line expected in its head
    last_st = None
    partial_extra = 0  # records of accepted prefixes of refused batches
    for i, cmd in enumerate(prim):
        if i >= len(ig):
            break
        g = ig[i]
        w = cmd.split()[0]
        creates = [e.split() for e in g.evs if e.startswith("ev create") and e.endswith("ok")]
        heads = [e.split() for e in g.evs if e.startswith("ev write c") or e.startswith("ev write o")]
        if w == "open":
            if heads:
                end = int(heads[-1][3]) + int(heads[-1][4])
                state_after[int(heads[-1][3])] = "vote=- last=- committed=- purged=- ud=-"
            continue
        if w in WRITE_WORDS and g.line.startswith("ret ok"):
            off, size = [int(x) for x in g.line.split()[2].split(",")]
            recs = op_records(cmd)
            if w == "purge" and end is not None and off < end and not creates:
                recs = []  # no-op purge: nothing journalled, previous segment returned
            if recs:
                # the last record of the call is at the returned segment
                expected.append((off, size, recs[-1], i, len(recs)))
            # rotation(s) during this call
            for h in heads:
                cid, hl = int(h[3]), int(h[4])
                end = cid + hl
                # filled from a `st` right after this call (a batch may rotate in the middle)
                state_after[cid] = ("pending", i) if len(recs) == 1 else None
            if recs and (not heads or off >= end):
                # no rotation, or (batch) the last record was journalled after the rotation
                end = off + size
            if recs and heads and len(recs) == 1:
                # single record then rotation: the record ends where the new file starts
                if off + size != int(heads[0][3]):
                    fails.append(("segment-does-not-abut-next-chunk", {"group": i, "ret": g.line, "evs": g.evs}))
                    return fails
        if w == "app" and g.line.startswith("ret err") and len(cmd.split()) > 2:
            # a batch whose leading entries were accepted (entry-level writes) before a
            # later entry was refused: their records are journalled, no segment is returned
            nxt = [ig[j].line for j in (i + 1, i + 2) if j < len(ig)]
            st2 = next((x for x in nxt if x.startswith("st ") and x != "st none"), None)
            stat2 = next((x for x in nxt if x.startswith("stat ")), None)
            k = 0
            if st2 is not None:
                last2 = dict(x.split("=", 1) for x in st2.split()[1:])["last"]
                last1 = dict(x.split("=", 1) for x in last_st.split())["last"] if last_st else "-"
                ids_b = [",".join(e.split(",")[:2]) for e in cmd.split()[1:]]
                if last2 in ids_b and last2 != last1:
                    k = ids_b.index(last2) + 1
            if st2 is None or stat2 is None:
                return fails  # cannot follow the journal end without the queries
            partial_extra += k
            m = re.search(r"open=(\d+):(\d+):(\d+):(\d+):", stat2)
            if k and m:
                end = int(m.group(3))
            for h in heads:
                state_after[int(h[3])] = None
        if g.line.startswith("st ") and g.line != "st none":
            last_st = g.line[3:]
            for cid in state_after:
                v = state_after[cid]
                if isinstance(v, tuple):
                    state_after[cid] = last_st if v[1] == i - 1 else None
        k = i - 1
        while k >= 0 and ig[k].line.startswith(QUERY_CH):
            k -= 1
        if g.line.startswith("stat ") and k >= 0 and prim[k].split()[0] in WRITE_WORDS \
                and ig[k].line.startswith("ret ok"):
            m = re.search(r"open=(\d+):(\d+):(\d+):(\d+):", g.line)
            if m:
                recs_n, size_n = int(m.group(2)), int(m.group(4))
                if not (recs_n == 1 or (recs_n < mr and size_n < ms)):
                    fails.append(("full-chunk-not-closed", {"group": i, "stat": g.line, "mr": mr, "ms": ms}))
                    return fails
    # final dump
    dump_i = next((i for i in range(len(ig) - 1, -1, -1) if ig[i].line.startswith("dumpw")), None)
    if dump_i is None or ig[dump_i].line != "dumpw end":
        return fails
    recs = {}
    files = {}
    for l in ig[dump_i].evs:
        t = l.split(None, 4)
        if len(t) < 5 or t[3] == "err":
            fails.append(("dump-error-record", {"line": l}))
            return fails
        cid, idx = int(t[1]), int(t[2])
        off, size = [int(x) for x in t[3].split(",")]
        files.setdefault(cid, []).append((idx, off, size, t[4]))
        recs[cid + off] = (size, t[4])
    ids = sorted(files)
    for k, cid in enumerate(ids):
        rs = files[cid]
        pos = 0
        for n, (idx, off, size, text) in enumerate(rs):
            if idx != n or off != pos:
                fails.append(("records-not-contiguous", {"chunk": cid, "rec": rs[n]}))
                return fails
            pos += size
        if not rs[0][3].startswith("S "):
            fails.append(("chunk-does-not-start-with-state", {"chunk": cid, "first": rs[0][3]}))
            return fails
        want = state_after.get(cid)
        if isinstance(want, str):
            f = dict(x.split("=", 1) for x in want.split())
            head = f"S {f['vote']} {f['last']} {f['committed']} {f['purged']} {f['ud']}"
            if rs[0][3] != head:
                fails.append(("head-state-not-the-state-when-file-started",
                              {"chunk": cid, "head": rs[0][3], "state_then": head}))
                return fails
        if k + 1 < len(ids) and cid + pos != ids[k + 1]:
            fails.append(("files-do-not-abut", {"chunk": cid, "len": pos, "next": ids[k + 1]}))
            return fails
    lo = ids[0] if ids else 0
    seen = 0
    for off, size, prefix, gi, n in expected:
        if off < lo:
            continue
        got = recs.get(off)
        if got is None or got[0] != size or not got[1].startswith(prefix):
            fails.append(("returned-segment-is-not-the-record",
                          {"group": gi, "segment": [off, size], "expected": prefix, "found": got}))
            return fails
        seen += 1
    # every non-head record on disk belongs to exactly one accepted write, in order
    on_disk = sorted(o for cid in ids for (idx, o2, sz, tx) in files[cid] if idx > 0 for o in [cid + o2])
    exp_offs = sorted(off for off, _, _, _, n in expected if off >= lo)
    batch_extra = sum(n - 1 for off, _, _, _, n in expected if off >= lo)
    if len(on_disk) < len(exp_offs) or len(on_disk) > len(exp_offs) + batch_extra + partial_extra + sum(
            n - 1 for off, _, _, _, n in expected if off < lo):
        fails.append(("record-count-differs-from-accepted-writes",
                      {"on_disk": len(on_disk), "accepted_last_records": len(exp_offs)}))
        return fails
    # directory and size
    dir_i = next((i for i in range(len(ig) - 1, -1, -1) if ig[i].line.startswith("dir ")), None)
    if dir_i is not None and dir_i > dump_i - 3:
        ents = [x.split(":") for x in ig[dir_i].line.split()[1:]]
        dl = {int(e[0]): int(e[1]) for e in ents}
        want = {cid: sum(r[2] for r in files[cid]) for cid in ids}
        if dl != want:
            fails.append(("directory-differs-from-dump", {"dir": dl, "dump": want}))
            return fails
        size_i = next((i for i in range(len(ig) - 1, -1, -1) if ig[i].line.startswith("size ")), None)
        if size_i is not None and size_i > dump_i - 3:
            sz = int(ig[size_i].line.split()[1])
            if sz != sum(dl.values()):
                fails.append(("on-disk-size-differs", {"reported": sz, "files": dl}))
                return fails
    return fails


def oracle_none(script, ig, mg):
    return []


# ---------------------------------------------------------------------------
# generators
# ---------------------------------------------------------------------------

def scripts_c12(tier, rng):
    n = 40 if tier == "quick" else 400
    ss = gen.gen_c12(rng, n, 250)
    out = [(f"c12_{i}", s) for i, s in enumerate(ss)]
    # sizes around powers of two up to 2^25 bytes: too large to print, round trip
    # checked inside the implementation (the theorem covers every size in the model)
    sizes = [2 ** k + d for k in (12, 16, 20, 24, 25) for d in (-1, 0, 1, 37)]
    big = []
    for j, sz in enumerate(sizes if tier != "quick" else sizes[:4] + sizes[12:18]):
        big.append(f"rt A {1 + j},{j},x{sz}:{rng.below(250)}")
        if j % 3 == 0:
            big.append(f"rt S {j},1 - - 2,3 x{sz}:{rng.below(250)}")
    out.append(("c12_big", big))
    return out, {"big-record-round-trips": len(big)}


def hist_scripts(prefix, n, rng, **kw):
    out, stats = [], {}
    for i in range(n):
        g = gen.HistGen(rng.fork(), **kw)
        out.append((f"{prefix}_{i}", g.script()))
        for k, v in g.stats.items():
            stats[k] = stats.get(k, 0) + v
    return out, stats


def scripts_c01(tier, rng):
    n = 300 if tier == "quick" else 4000
    a, s1 = hist_scripts("c01", n, rng, max_ops=40, queries=("st", "read"), big_payload=True)
    b, s2 = hist_scripts("c01i", n // 4, rng, max_ops=25, queries=("st", "read", "iter"), worker_steps=True)
    for k, v in s2.items():
        s1[k] = s1.get(k, 0) + v
    # every second history ends with a clean restart: what was read in the session is what the next
    # session reads, whatever the chunking was (restarts as such are C02)
    tail = ["flush 9999", "widle", "drop", "open", "st", f"read 0 {U64MAX}"]
    a = [(nm, l + tail if i % 2 == 0 and "drop" not in l else l) for i, (nm, l) in enumerate(a)]
    s1["histories-ending-in-a-clean-restart"] = sum(1 for _, l in a if l[-len(tail):] == tail)
    if tier == "thorough":
        # every legal history of up to 4 operations from the state-dependent alphabet, under four
        # chunk-limit classes
        e = gen.enum_histories(4, True, ["st", f"read 0 {U64MAX}"], ["cfg", "cfg mr=1", "cfg mr=2 ms=64", "cfg ms=0"])
        s1["enumerated-depth4"] = len(e)
        return a + b + e, s1
    return a + b, s1


def scripts_c06(tier, rng):
    n = 300 if tier == "quick" else 4000
    out, stats = [], {}
    for i in range(n):
        g = gen.HistGen(rng.fork(), max_ops=30, rejected=True, queries=("st", "read"), restarts=True,
                        small_cache=(i % 2 == 1))
        lines = []
        for l in g.script():
            w = l.split()[0]
            if w in ("vote", "app", "trunc", "purge", "commit", "ud"):
                lines += ["st", f"read 0 {U64MAX}", "stat", "res", l, "st", f"read 0 {U64MAX}", "stat", "res"]
            else:
                lines.append(l)
        # flush + restart at the end: the store must open and show the same state
        lines += [f"flush 9999", "widle", "st", f"read 0 {U64MAX}", "size", "dir", "drop", "open", "st",
                  f"read 0 {U64MAX}", "size"]
        out.append((f"c06_{i}", lines))
        for k, v in g.stats.items():
            stats[k] = stats.get(k, 0) + v
    # a restart with lower chunk limits than the ones the newest chunk was written with (it is already
    # "full" for the new run), then a rejected write as the very first call
    q2 = ["st", f"read 0 {U64MAX}", "stat", "res", "size", "dir"]
    k = 0
    for newcfg in ("cfg mr=2", "cfg mr=4", "cfg ms=64", "cfg ms=100 mr=3"):
        for rej in ("vote 0 0", "app 1,9,aa", "app 0,5,aa", "commit 0 0", "trunc 9", "app 1,5,aa 0,6,bb"):
            lines = ["cfg", "open", "vote 1 1", "app 1,0,aa 1,1,bb 1,2,cc 1,3,dd 1,4,ee", "commit 1 2", "flush 1", "widle",
                     "drop", newcfg, "open"] + q2 + [rej] + q2 + ["app 1,5,ff", "flush 2", "widle"] + q2 + \
                    ["drop", "open"] + q2
            out.append((f"c06r_{k}", lines))
            k += 1
    stats["restart-lower-limits-then-rejected"] = k
    # the eviction boundary has moved (flush acknowledged) but nothing was inserted since, with more
    # resident entries than the cache limit allows: a rejected call must not evict either
    k = 0
    for cfg in ("cfg mr=5 ci=2", "cfg mr=5 ci=0", "cfg mr=5 cc=10", "cfg mr=3 ci=1 cc=400"):
        for rej in ("app 1,1,aa", "app 1,9,aa", "app 0,4,aa", "vote 0 0", "commit 0 0", "trunc 9", "purge 0 0",
                    "app 1,4,x20:1 1,9,bb"):
            lines = [cfg, "open", "vote 1 1", "app 1,0,x20:1 1,1,x20:2 1,2,x20:3 1,3,x20:4", "flush 1", "widle"] + \
                    q2 + [rej] + q2 + ["app 1,4,x20:5"] + q2 + ["flush 2", "widle", "drop", "open"] + q2
            if rej.startswith("app 1,4,"):
                lines = [l for l in lines if l != "app 1,4,x20:5"]
            out.append((f"c06e_{k}", lines))
            k += 1
    stats["boundary-moved-then-rejected"] = k
    if tier == "thorough":
        q = ["st", f"read 0 {U64MAX}", "stat", "res"]
        e = gen.enum_histories(3, False, q, ["cfg", "cfg mr=2"])
        e = [(n, l[:2] + q + l[2:] + ["flush 9999", "widle", "st", f"read 0 {U64MAX}", "size", "dir", "drop", "open",
                                       "st", f"read 0 {U64MAX}", "size"]) for n, l in e]
        stats["enumerated-depth3"] = len(e)
        out += e
    return out, stats


def scripts_c16(tier, rng):
    n = 400 if tier == "quick" else 5000
    out, stats = [], {}
    for i in range(n):
        g = gen.HistGen(rng.fork(), max_ops=25, boundary_args=True, rejected=True,
                        queries=("st", "read", "stat", "size", "iter"))
        out.append((f"c16_{i}", g.script()))
        for k, v in g.stats.items():
            stats[k] = stats.get(k, 0) + v
    # small-scope sweep around the purge point: every purge point 0..2 (incl. none) x every
    # truncate / commit / read argument 0..4 right after it, also after a restart
    k = 0
    for first in (0, 1):
        for pp in (None, 0, 1, 2):
            for restart in (False, True):
                for arg in range(0, 5):
                    pre = ["cfg mr=3", "open", "app " + " ".join(f"1,{first + x},aa" for x in range(4))]
                    if pp is not None:
                        pre.append(f"purge 1 {first + pp}")
                    if restart:
                        pre += ["flush 1", "widle", "drop", "open"]
                    for op in (f"trunc {arg}", f"commit 0 {arg}", f"commit 1 {arg}", f"read {arg} {first + 2}",
                               f"purge 0 {arg}", f"app 1,{arg},bb"):
                        out.append((f"c16s_{k}", pre + [op, "st", f"read 0 {U64MAX}"]))
                        k += 1
                    # a purge with a newer term at an index inside (or at the edge of) the live range, then
                    # the only append the store accepts afterwards (it may land on an occupied index)
                    out.append((f"c16s_{k}", pre + [f"purge 2 {arg}", "st", f"app 2,{arg + 1},bb", f"app 2,{arg + 2},cc",
                                                    "st", f"read 0 {U64MAX}", "flush 3", "widle", "drop", "open", "st",
                                                    f"read 0 {U64MAX}"]))
                    k += 1
    # index u64::MAX anywhere in a batch
    M = U64MAX
    for batch in (f"app 1,{M},aa 2,0,bb", f"app 1,{M - 1},aa 1,{M},bb 2,0,cc", f"app 1,{M},aa 1,{M},bb",
                  f"app 1,{M - 1},aa 1,{M},bb", f"app 1,0,aa 1,{M},bb 1,1,cc"):
        for pre in (["cfg", "open"], ["cfg", "open", f"app 1,{M - 2},zz"], ["cfg mr=2", "open", "app 1,0,aa"]):
            out.append((f"c16s_{k}", pre + [batch, "st", f"read 0 {M}", f"purge 1 {M}", f"commit 1 {M}", f"trunc {M}", "st"]))
            k += 1
    stats["small-scope-purge-point"] = k
    # any state: histories with small caches, chunk rotations, truncations and
    # re-appends, explicit flush-worker steps (a panic on the worker thread
    # counts, and so does what it does to later calls)
    for i in range(n // 2):
        g = gen.HistGen(rng.fork(), max_ops=35, small_cache=(i % 2 == 0), worker_steps=True, restarts=(i % 4 == 0),
                        queries=("read", "iter", "stat", "st"), flush_prob=(1, 2), rejected=(i % 3 == 0),
                        payload_sizes=(0, 1, 7, 300), weights=dict(append=45, truncate=12, purge=8))
        lines = g.script() + ["flush 9998", "widle", f"read 0 {U64MAX}", "iter", "drain", "st", "stat", "drop"]
        out.append((f"c16w_{i}", lines))
        for k, v in g.stats.items():
            stats[k] = stats.get(k, 0) + v
    return out, stats


def scripts_c15(tier, rng):
    n = 300 if tier == "quick" else 4000
    out, stats = [], {}
    for i in range(n):
        g = gen.HistGen(rng.fork(), max_ops=35, small_cache=True, worker_steps=True, rejected=True,
                        queries=(), payload_sizes=(0, 1, 7, 300))
        lines = []
        for l in g.script():
            lines.append(l)
            w = l.split()[0]
            if w in ("vote", "app", "trunc", "purge", "commit", "ud", "w", "widle", "open", "dumpwstep"):
                lines += ["stat", "res"]
        lines += ["flush 9999", "widle", "drain", "stat", "res"]
        out.append((f"c15_{i}", lines))
        for k, v in g.stats.items():
            stats[k] = stats.get(k, 0) + v
    # recovery of a torn tail (the cut chunk stays closed, a fresh chunk is opened), small cache on the
    # reopening run: the boundary must move on with the first sync, entries of synced chunks are evictable
    import crashprops
    pres = []
    for j in range(6 if tier == "quick" else 40):
        mr = 3 + rng.below(4)
        n = mr + 1 + rng.below(mr)
        pres.append((f"c15rec_{j}", [f"cfg mr={mr}", "open",
                                     "app " + " ".join(f"1,{x},{gen.rnd_bytes_token(rng, [7, 8])}" for x in range(n)),
                                     "flush 1", "widle", "drop"], mr, n))
    lays = crashprops.layouts([(nm, pre) for nm, pre, _, _ in pres])
    for nm, pre, mr, n in pres:
        lay = lays.get(nm, [])
        if not lay or len(lay[-1][3]) < 3:
            continue  # the newest chunk holds no entry record to tear
        nid, ln, du, bnd = lay[-1]
        cut = 1 + rng.below(12)
        cfg2 = f"cfg mr={mr} ci={rng.choice([0, 1, 2])}" + rng.choice(["", " cc=0", " cc=16"])
        lines = pre + [cfg2, f"fsop cut {nid} {ln - cut}", "fsop settle", "open", "stat", "res", "flush 5", "widle", "stat", "res",
                       f"app 1,{n - 1},aa", "stat", "res", f"app 1,{n},bb", "stat", "res", "flush 6", "widle", "drain",
                       "stat", "res"]
        out.append((nm, lines))
    # one append that has to evict many entries at once (a whole large chunk becomes evictable)
    for j in range(2 if tier == "quick" else 8):
        mr = rng.choice([40, 64, 100])
        n = mr - 1
        lines = [f"cfg mr={mr} ci={rng.choice([0, 3, 8])}", "open",
                 "app " + " ".join(f"1,{x},{gen.rnd_bytes_token(rng, [7])}" for x in range(n)), "stat", "res",
                 "flush 1", "widle", "stat", "res", f"app 1,{n},aa", "stat", "res", f"app 1,{n + 1},bb", "stat", "res",
                 "flush 2", "widle", "drain", "stat", "res"]
        out.append((f"c15many_{j}", lines))
    stats["recovery-with-small-cache"] = 6 if tier == "quick" else 40
    # a purge with a newer term at an index inside the live range, then appends that take over
    # indexes still held under the old term: the accounting must follow the replaced payloads
    k = 0
    for first in (0, 1):
        for arg in range(0, 4):
            for restart in (False, True):
                for cfg in ("cfg mr=3", "cfg mr=8 ci=2", "cfg mr=4 cc=300"):
                    lines = [cfg, "open", "app " + " ".join(f"1,{first + x},x100:{x}" for x in range(5)), "stat", "res"]
                    if restart:
                        lines += ["flush 1", "widle", "stat", "res", "drop", "open", "stat", "res"]
                    lines += [f"purge 2 {first + arg}", "stat", "res", f"app 2,{first + arg + 1},x100:9", "stat", "res",
                              f"app 2,{first + arg + 2},x100:8 2,{first + arg + 3},x100:7", "stat", "res", "flush 3", "widle",
                              "stat", "res", "drain", "stat", "res", "drop", "open", "stat", "res"]
                    out.append((f"c15ow_{k}", lines))
                    k += 1
    stats["append-onto-occupied-index"] = k
    # a chunk with more than a thousand resident entries becomes evictable at once: the next insert has
    # to evict all of them
    for j in range(1 if tier == "quick" else 3):
        mr = rng.choice([1100, 1300, 2100])
        n = mr - 1
        lines = [f"cfg mr={mr} ci={rng.choice([0, 8])}", "open"]
        for a in range(0, n, 300):
            lines.append("app " + " ".join(f"1,{x},x7:{x % 250}" for x in range(a, min(n, a + 300))))
        lines += ["stat", "res", "flush 1", "widle", "stat", "res", f"app 1,{n},aa", "stat", "res", f"app 1,{n + 1},bb",
                  "stat", "res", "flush 2", "widle", "drain", "stat", "res"]
        out.append((f"c15huge_{j}", lines))
    stats["more-than-1024-evictions-at-once"] = 1 if tier == "quick" else 3
    # stat() on two other threads while a drain runs: uniform payloads, so a torn report (count from
    # before the drain, size from after) is recognisable
    rounds = 0
    for j in range(4 if tier == "quick" else 16):
        mr = 4 + rng.below(4)
        lines = [f"cfg mr={mr}", "open"]
        ix = 0
        for _ in range(60 if tier == "quick" else 120):
            k = mr + rng.below(mr)
            lines += ["app " + " ".join(f"1,{x},x48:{x % 250}" for x in range(ix, ix + k)), f"flush {ix}", "widle", "statdrain 48"]
            ix += k
            rounds += 1
        lines += ["stat", "res"]
        out.append((f"c15race_{j}", lines))
    stats["stat-versus-drain-rounds"] = rounds
    return out, stats


def scripts_c11(tier, rng):
    n = 300 if tier == "quick" else 4000
    out, stats = [], {}
    for i in range(n):
        g = gen.HistGen(rng.fork(), max_ops=35, queries=(), rejected=(i % 3 == 0), worker_steps=(i % 2 == 0))
        lines = []
        for l in g.script():
            lines.append(l)
            if l.split()[0] in WRITE_WORDS:
                lines += ["st", "stat"]
        if i % 10 == 3 and not any(x.startswith("cfg") and ("ci=" in x or "cc=" in x) for x in lines):
            # back-pressure: more requests than the queue holds while the worker is slow
            t, ix = (g.m.last[0] + 1, g.m.last[1] + 1) if g.m.last else (1, 0)
            lines += [f"burst {1100 + rng.below(300)} {t} {ix}"]
        lines += ["flush 9999", "widle", "st", "stat", "dir", "size", "dumpw"]
        out.append((f"c11_{i}", lines))
        for k, v in g.stats.items():
            stats[k] = stats.get(k, 0) + v
    # a rotation that fails on the caller thread (a stray file has the next chunk's name) with unflushed
    # records in the buffer, then the store is used on
    bl = blocked_rotation_scripts([(n, l) for n, l in out[: (30 if tier == "quick" else 300)]
                                   if not any(x.startswith("burst") for x in l)], rng, "c11x")
    out += [(n, l + ["st", "dir", "size", "dumpw"]) for n, l in bl]
    # file names: ids over the whole u64 range, malformed names
    names = []
    for _ in range(30 if tier == "quick" else 300):
        lines = []
        for _ in range(40):
            k = rng.below(6)
            if k < 3:
                lines.append(f"name {gen.rnd_u64(rng)}")
            elif k == 3:
                v = gen.rnd_u64(rng)
                s20 = "%020d" % v
                grouped = s20[:2] + "".join("_" + s20[j:j + 3] for j in range(2, 20, 3))
                lines.append(f"pname r-{grouped}.wal")
            else:
                base = list("r-00_000_000_000_000_000_079.wal")
                for _ in range(1 + rng.below(3)):
                    p = rng.below(len(base))
                    base[p] = rng.choice(list("0123456789_-rx.wal9"))
                if rng.chance(1, 5):
                    base = base[:rng.below(len(base))]
                nm = "".join(base)
                if nm and "/" not in nm and nm not in (".", ".."):
                    lines.append(f"pname {nm}")
        names.append((f"c11n_{len(names)}", lines))
    return out + names, stats


# ---------------------------------------------------------------------------
# registry
# ---------------------------------------------------------------------------

OS_ASSUMPTIONS = [
    "Types instantiation fixed: LogId=(u64,u64), Vote=(u64,u64), payload/user data = Vec<u8> (< 4 GiB)",
]

PROPS = {
    "C12": dict(
        theorems=["c12_roundtrip", "c12_consumed", "c12_canonical", "c12_prefix_eof", "c12_total"],
        gen=scripts_c12, project=proj_c12, oracle=oracle_c12,
        nontrivial=lambda s: True,
        explanation="codec theorems over all records/byte strings; correspondence on public codeq Encode/Decode of WALRecord",
        assumptions=OS_ASSUMPTIONS + ["crc32fast computes the bitwise reflected CRC-32 (checked on every generated record)"],
    ),
    "C01": dict(
        theorems=["c01_step", "c01_spec_wf", "c01_read", "c01_iter", "c01_state", "c01_refines_store",
                  "c01_refines", "c01_calls_ok", "c01_chunking_invisible"],
        gen=scripts_c01, project=proj_c01, oracle=oracle_spec_equal({"ret", "st", "read", "iter"}),
        explanation="refinement of the reference log; footprint ret(kind)/st/read/iter",
        assumptions=OS_ASSUMPTIONS,
    ),
    "C06": dict(
        modules=["C06", "C06Sys", "C06Normal", "ReachAny"],
        theorems=['reachLIFT_settled', 'reachLIFT_any_history', 'reachLIFT_of_any_history', 'c06_normalize_partial', 'c06_normalize_small_partial', 'c06_purgesLegal_of_no_purge', 'c06_normalize_legal_id', 'c01_state_any_history_partial', 'c11_journal_invariant_any_history', 'c15_accounting_exact_any_history', 'c16_read_no_panic_any_history_partial', 'c02_clean_restart_any_history_partial', 'c03_crash_prefix_any_history_partial', 'normalize_run_C6N', 'normalize_rel_C6N', 'normalize_append_C6N', 'c06_rejected_record_noop', 'c06_err_is_noop', 'c06_rejected_call_noop', 'c06_batch_rejected_entry_noop', 'c06_spec_rejects_vote', 'c06_spec_rejects_commit', 'c06_batch_refused_entry_noop', 'c06_batch_rejected_entry_noop_any', 'c06_settle_idempotent', 'c06_step_settled', 'c06_reachable_settled', 'c06_sys_rejected_is_identity', 'c06_sys_rejected_single', 'c06_sys_rejected_is_identity_reachable', 'c06_rejected_invisible_forever', 'c06_rejected_invisible_in_history', 'c06_sys_batch_rejected_prefix', 'c06_same_verdict', 'c06_never_rejected', 'c06_sys_same_verdict', 'c06_sys_same_verdict_csys', 'c06_sys_same_verdict_sysRef', 'Sys.runCycles_settled', 'c06_sys_same_verdict_reachable', 'c06_sys_same_verdict_c01', 'c06_sys_batch_same_verdict', 'c06_same_verdict_any', 'c06_sys_same_verdict_any'],
        gen=scripts_c06, project=proj_c06, footprint=footprint_c06, oracle=oracle_c06,
        explanation="a rejected call is a no-op on the whole model state",
        assumptions=OS_ASSUMPTIONS,
    ),
    "C16": dict(
        modules=["C16", "C16Read", "C16All2"],
        theorems=['c16_call_no_panic_partial', 'c16_fresh_panicFree', 'c16_history_no_panic_partial', 'c16_read_inverted_empty', 'c16_truncate_zero_is_error', 'c16_u64_max_is_refused', "c16_u64_max_is_refused'", 'c16_u64_max_is_refused_witness', 'c16_internal_overflow_branch', 'c16_lookup_trichotomy', 'c16_read_no_panic_of_inv', 'c16_read_no_panic_reachable', 'c16_read_no_panic_c07', 'c16_read_no_panic_cycles', 'c16_open_no_panic_of_inv', 'c16_open_no_panic_clean', 'cycles_smallSys', 'c16_open_no_panic_of_small', 'c16_open_no_panic_reachable', 'c16_open_no_panic_history', 'c16_call_no_panic', 'c16_panicFree_spec', 'c16_history_no_panic_store', 'c16_history_no_panic', 'c16_reachable_panicFree', 'c16_open_no_panic_history_all', 'c16_recovery_never_panics', 'c16_call_keeps_small_journal', 'call_ok_D12', 'call_SJ_D12', 'run_RecInv_D12', 'RecInv_D12.crash_fsSmall'],
        gen=scripts_c16, project=proj_c16, oracle=oracle_c16,
        explanation="no panic branch of the checked-arithmetic model is reachable",
        assumptions=OS_ASSUMPTIONS + ["harness built with overflow-checks and debug-assertions on"],
    ),
    "C15": dict(
        modules=['C15', 'C15Restart', 'C15Call', 'LiftRestart'],
        theorems=['c15_accounting_exact', 'c15_over_limit_only_pinned', 'c15_drained', 'Step.live_of_journal', 'c15_restart_step', 'c15_after_restart', 'cycles_cacheInv', 'c15_accounting_exact_with_restarts', 'cycleOps_append', 'CleanCycles.prefix', 'RefLog.run_prefix_some', 'c15_accounting_exact_every_point', 'c15_append_call_unchanged_or_only_pinned', 'c15_append_call_inserted_iff', 'c15_append_call_only_pinned', 'c15_append_call_first_accepted_only_pinned', 'c15_append_call_first_refused_unchanged', 'c15_call_boundary_unchanged', 'c15_nonappend_cache_subset', 'c15_meta_cache_unchanged', 'c15_sys_step_append_only_pinned', 'c15_sys_step_append_store', 'c15_sys_limits_configured', 'c15_sys_append_only_pinned', 'c15_sys_append_only_pinned_with_restarts', 'lift_oldSynced_spec', 'lift_crashInv_clean_restart', 'lift_oldSynced_of_single_file', 'lift_inv_spec', 'lift_inv_fresh', 'lift_inv_history', 'lift_inv_restart', 'lift_inv_recovered', 'c15_accounting_exact_after_recovery_of_crashInv', 'c15_accounting_exact_after_recovery_history_of_crashInv', 'c15_accounting_exact_after_recovery', 'c15_accounting_exact_after_recovery_history', 'c15_append_only_pinned_after_recovery', 'c08_gap_free_suffix_of_crashInv', 'c08_unlinks_oldest_first_of_crashInv', 'c08_index_entries_in_linked_chunks_of_crashInv', 'c08_unlink_only_after_purge_durable_of_crashInv', 'c08_flushed_idle_gone_of_crashInv', 'c08_clean_files_are_live_chunks_of_crashInv', 'c08_restarted_files_are_live_chunks', 'c08_recovered_files_are_live_chunks', 'lift_clean_holds_no_request', 'c04_positive_callback_means_durable_of_crashInv', 'ReachLIFT', 'lift_csys_keys', 'lift_reach_invariant', 'c11_journal_invariant_reach', 'c15_accounting_exact_reach', 'c08_flushed_idle_gone_reach', 'c04_positive_callback_means_durable_reach', 'liftUnsyncedExample', 'liftUnsyncedRestarted', 'liftUnsyncedMore', 'lift_restart_syncs_old_chunks', 'lift_c05Example_wf', 'lift_c05Example_inv', 'lift_csys_last', 'lift_c05Recovered_inv', 'liftRestarted', 'liftReachExample', 'lift_reach_c05Recovered', 'lift_reach_restarted', 'lift_reach_example', 'crashInv_clean_restart_LIFT', 'recover_cacheInv_LIFT', 'run_keys_LIFT'],
        gen=scripts_c15, project=proj_c15, oracle=oracle_c15,
        explanation="cache accounting invariant",
        assumptions=OS_ASSUMPTIONS,
    ),
    "C11": dict(
        modules=["C11", "C11Full"],
        theorems=['c11_call_keeps_rotation_rule', 'c11_rotation_invariant', 'c11_open_chunk_never_full', 'c11_closed_chunks_full_when_closed', 'c11_rotation_never_blocked', 'c11_on_disk_size_def', 'c11_on_disk_size_of_J', 'c11_on_disk_size_files_of_J', 'c11_on_disk_size_is_files_total', 'c11_on_disk_size_is_files_total_reach', 'c11FullExample_wf', 'c11_rotation_blocked_by_existing_file', 'c11_restart_open_chunk_may_be_full', 'c11_rotation_rule_spec', 'c11_rotation_history_from', 'c11_rotation_clean_restart', 'c11_rotation_rule_reach', 'c11FullExample_small', 'c11_reachRot_example', "c11_name_roundtrip", "c11_name_length", "c11_name_injective", "c11_name_order",
                  "c11_segment_is_record_place", "c11_rotation", "c11_new_chunk_abuts"] + ['c11_journal_spec', 'c11_journal_fresh', 'c11_journal_call', 'c11_call_never_exists', 'c11_journal_flush', 'c11_journal_worker', 'c11_journal_workerIdle', 'c11_journal_drain', 'c11_journal_invariant', 'c11_segment_holds_record', 'c11_quiescent_files_exact'],
        gen=scripts_c11, project=proj_c11, oracle=oracle_c11,
        nontrivial=lambda s: len(s) > 5,
        explanation="journal layout invariant",
        assumptions=OS_ASSUMPTIONS,
    ),
}

PROBE = ["st", f"read 0 {U64MAX}", "stat", "res", "flush 99990", "widle", "drop", "open", "st",
         f"read 0 {U64MAX}"]


def known_classes(pid):
    k = core.load_known()
    return {f["class"]: f for f in k.get("findings", []) if f["property"] == pid}


def footprint_diff(P, lines, impl, model):
    """Compare the two streams on the property's footprint."""
    if "footprint" in P:
        ig = core.groups_of(impl)
        mg = core.groups_of(model)
        a = P["footprint"](lines, ig, mg)
        b = P["footprint"](lines, mg, mg)
        for i in range(max(len(a), len(b))):
            x = a[i] if i < len(a) else "<missing>"
            y = b[i] if i < len(b) else "<missing>"
            if x != y:
                return {"index": i, "impl": x, "model": y}
        return None
    return core.first_diff(impl, model, P["project"])


def evaluate(pid, P, name, lines, impl, model):
    """-> (diff|None, oracle_fails)"""
    ig = core.groups_of(impl)
    mg = core.groups_of(model)
    diff = footprint_diff(P, lines, impl, model)
    fails = P["oracle"](lines, ig, mg)
    return diff, fails


def run_scripts(pid, P, scripts, tier, seed, search=True, stats=None):
    impl, model, problems = core.run_many(scripts)
    known = known_classes(pid)
    violations, known_hits = [], []
    seen_classes = set()
    n_ok = 0
    diffs = []
    by_name = dict(scripts)
    for name, lines in scripts:
        il, ml = impl.get(name, []), model.get(name, [])
        diff, fails = evaluate(pid, P, name, lines, il, ml)
        if fails:
            cls = fails[0][0]
            if cls in known:
                msg = f"class={cls} {known[cls]['what']}"
                if msg not in known_hits:
                    known_hits.append(msg)
                # a known finding explains this script; the model must still agree
                if diff is None:
                    n_ok += 1
                else:
                    diffs.append((name, diff))
                continue
            if cls in seen_classes:
                continue
            seen_classes.add(cls)

            def still_fails(cand, cls=cls):
                i2, m2, _ = core.run_one(cand, "shrink")
                _, f2 = evaluate(pid, P, "shrink", cand, i2, m2)
                return bool(f2) and f2[0][0] == cls

            small = core.ddmin(lines, still_fails, keep_prefix=0) if search else lines
            i2, m2, _ = core.run_one(small, "final")
            _, f2 = evaluate(pid, P, "final", small, i2, m2)
            path = core.write_replay(pid, "oracle-" + cls, small, i2, m2, {"failures": f2 or fails},
                                     {"original_script": lines, "seed": seed})
            violations.append(("oracle", path, False))
        elif diff is not None:
            diffs.append((name, diff))
        else:
            n_ok += 1
    if problems:
        path = core.write_replay(pid, "harness-run", [], [], [], {"problems": problems[:5]},
                                 {"broken": "harness or driver did not run to completion"})
        violations.append(("harness-run", path, True))
    if diffs and not violations:
        # the correspondence broke on the footprint and no oracle failure was
        # seen: shrink the first disagreement, then look for a failing input
        name, diff = diffs[0]
        lines = by_name[name]

        def still_diff(cand):
            i2, m2, _ = core.run_one(cand, "shrink")
            return footprint_diff(P, cand, i2, m2) is not None

        small = core.ddmin(lines, still_diff) if search else lines
        found = None
        if search:
            for ext in ([], PROBE):
                cand = small + ext
                i2, m2, _ = core.run_one(cand, "probe")
                _, f2 = evaluate(pid, P, "probe", cand, i2, m2)
                if f2 and f2[0][0] not in known:
                    found = (cand, i2, m2, f2)
                    break
        if found:
            cand, i2, m2, f2 = found
            path = core.write_replay(pid, "oracle-" + f2[0][0], cand, i2, m2, {"failures": f2}, {"seed": seed})
            violations.append(("oracle", path, False))
        else:
            i2, m2, _ = core.run_one(small, "final")
            d2 = footprint_diff(P, small, i2, m2)
            path = core.write_replay(
                pid, "correspondence", small, i2, m2,
                {"first_difference": d2 or diff, "scripts_disagreeing": len(diffs)},
                {"broken": "correspondence model=implementation on the footprint of " + pid,
                 "theorems_depending": P.get("theorems", []), "original_script": lines, "seed": seed})
            violations.append(("correspondence", path, True))
    distinct = len({hashlib.sha1("\n".join(l).encode()).hexdigest() for _, l in scripts})
    nontriv = P.get("nontrivial") or (lambda s: sum(1 for l in s if l.split()[0] in
                                                   ("vote", "app", "trunc", "purge", "commit", "ud")) >= 2)
    dn = len({hashlib.sha1("\n".join(l).encode()).hexdigest() for _, l in scripts if nontriv(l)})
    # what the implementation actually did in this run (branches, error kinds, worker states, events)
    observed = {}
    ops_hist = {}
    for name, lines in scripts:
        for l in lines:
            w = l.split()[0]
            ops_hist[w] = ops_hist.get(w, 0) + 1
        for l in impl.get(name, []):
            t = l.split()
            if not t:
                continue
            if t[0] in ("ret", "open", "dumpopen") and len(t) >= 2:
                key = " ".join(t[:3]) if t[1] == "err" and len(t) >= 3 else " ".join(t[:2])
            elif t[0] == "wst":
                key = "wst " + t[1].split(":")[0]
            elif t[0] == "ev" and len(t) >= 3:
                key = f"ev {t[1]} {t[2] if t[1] in ('create', 'write', 'sync', 'trunc', 'unlink') else ''} {t[-1] if t[-1] in ('ok', 'fail', 'err') else ''}".strip()
            elif t[0] in ("dec", "rt", "dropped", "snap", "burst", "lockrace") and len(t) >= 2:
                key = " ".join(t[:2])
            elif t[0] in ("read", "iter", "iter2"):
                key = t[0] + (" with-error" if "err:" in l else (" empty" if len(t) == 1 else " ok"))
            else:
                continue
            observed[key] = observed.get(key, 0) + 1
    cov = {
        "observed_behaviour": dict(sorted(observed.items())),
        "script_commands": dict(sorted(ops_hist.items())),
        "evaluations": len(scripts),
        "distinct_nontrivial": dn,
        "distinct": distinct,
        "rule": "seeded structured scripts (tools/gen.py) run on the implementation and on the Lean model; "
                "non-trivial = at least two write operations (C12: every case); distinct by script text",
        "samples": [{"name": n, "script": l[:40]} for n, l in scripts[:2]],
        "traces_validated_against_impl": n_ok,
        "disagreements": len(diffs),
        "distribution": stats or {},
    }
    return {"violations": violations, "known": known_hits, "coverage": cov}


def run_property(pid, P, tier, seed):
    rng = core.Rng(seed * 1000003 + int(pid[1:]))
    scripts, stats = P["gen"](tier, rng)
    corpus_dir = os.path.join(core.VERIF, "corpus", pid)
    corpus = []
    if os.path.isdir(corpus_dir):
        for f in sorted(os.listdir(corpus_dir)):
            if f.endswith(".script"):
                lines = [l.rstrip("\n") for l in open(os.path.join(corpus_dir, f)) if l.strip()
                         and not l.startswith("//")]
                corpus.append(("corpus_" + f[:-7].replace("-", "_"), lines))
    return run_scripts(pid, P, corpus + scripts, tier, seed, stats=stats)


# ---------------------------------------------------------------------------
# worker / file-system trace properties: C04, C08, C14, C07, C02
# ---------------------------------------------------------------------------

class Trace:
    """Replays the implementation's observation groups and keeps what the trace
    oracles need: per-file written/synced byte counts, linked files, journal
    end, flush requests, callbacks, accepted writes."""

    def __init__(self, script, gs):
        self.prim = primary_cmds(script)
        self.gs = gs
        self.files = {}        # id -> dict(written, synced, linked, base)
        self.end = None
        self.flush_end = {}    # cb id -> (journal end at the flush call, sorted chunk ids then)
        self.flush_order = []
        self.cb_seen = []
        self.faulted = False
        self.hard_fault = False  # a fault other than a failed sync (those end the worker or drop callbacks)
        self.io_fault = False    # some system call failed (as opposed to: a callback was dropped)
        self.sync_failed = False
        self.fails = []
        self.live = {}         # index -> (term, chunk id)
        self.purged = None
        self.purges = []       # (upto, off, size) journalled purges
        self.purge_group = None  # group index of the last journalled purge call
        self.first_closed_at = {}  # chunk id -> group index of the first `stat` showing it closed
        self.cur_group = 0
        self.closing_last = {} # chunk id -> last (t,i) or None when it was closed
        self.open_id = None
        self.stray = {int(l.split()[2]) for l in script if l.startswith("fsop touch ")}
        self.seq = 0           # event counter
        self.created_seq = {}  # chunk id -> (seq at creation, head length)

    def chunk_of(self, off):
        ids = sorted(i for i in self.files if i <= off)
        return ids[-1] if ids else None

    def linked(self):
        return sorted(i for i, f in self.files.items() if f["linked"])

    def on_ev(self, e, hooks):
        t = e.split()
        k = t[1]
        self.seq += 1
        if k == "create" and t[-1] == "ok":
            self.files[int(t[3])] = dict(written=0, synced=0, linked=True, base=0)
            self.created_seq[int(t[3])] = [self.seq, None]
        elif k == "write":
            if t[-1] == "ok":
                f = self.files.setdefault(int(t[3]), dict(written=0, synced=0, linked=True, base=0))
                if int(t[3]) in self.created_seq and self.created_seq[int(t[3])][1] is None:
                    self.created_seq[int(t[3])][1] = int(t[4])
                f["written"] += int(t[4])
            else:
                self.faulted = True
                self.hard_fault = True
                self.io_fault = True
        elif k == "sync":
            if t[-1] == "ok":
                f = self.files.setdefault(int(t[3]), dict(written=0, synced=0, linked=True, base=0))
                f["synced"] = f["written"]
            else:
                self.faulted = True
                self.sync_failed = True
                self.io_fault = True
        elif k == "trunc":
            f = self.files.setdefault(int(t[3]), dict(written=0, synced=0, linked=True, base=0))
            f["written"] = int(t[4])
            f["synced"] = min(f["synced"], f["written"])
        elif k == "unlink":
            if t[-1] == "ok":
                hooks.get("unlink", lambda *_: None)(self, int(t[3]), t[2])
                if int(t[3]) in self.files:
                    self.files[int(t[3])]["linked"] = False
            else:
                self.faulted = True
                self.hard_fault = True
                self.io_fault = True
        elif k == "cb":
            hooks.get("cb", lambda *_: None)(self, int(t[2]), t[3] == "ok")
            self.cb_seen.append((int(t[2]), t[3]))
            if t[3] != "ok":
                self.faulted = True
        elif k == "cbdrop":
            self.cb_seen.append((int(t[2]), "dropped"))
            self.faulted = True
            self.hard_fault = True
        elif k == "exit" and t[-1] == "fail":
            self.faulted = True
            self.hard_fault = True
            self.io_fault = True

    def run(self, hooks):
        for i, g in enumerate(self.gs):
            cmd = self.prim[i] if i < len(self.prim) else ""
            w = cmd.split()[0] if cmd else ""
            self.group_start_seq = self.seq
            self.cur_group = i
            for e in g.evs:
                if e.startswith("ev "):
                    self.on_ev(e, hooks)
                if self.fails:
                    return self
            line = g.line
            if line.startswith("dir "):
                # authoritative lengths (used to seed files that existed before `open`)
                for p in line.split()[1:]:
                    f = p.split(":")
                    cid, ln, du = int(f[0]), int(f[1]), int(f[2])
                    if cid not in self.files and cid not in self.stray:
                        self.files[cid] = dict(written=ln, synced=du, linked=True, base=ln)
            if w == "open" and line == "open ok":
                # files seen for the first time keep their seeded counts; the journal of the new
                # instance ends where its files end (bytes a previous instance never handed to its
                # worker are gone)
                live = [cid + f["written"] for cid, f in self.files.items() if f["linked"]]
                if live:
                    self.end = max(live)
            if line.startswith("stat "):
                m = re.search(r"open=(\d+):(\d+):(\d+):(\d+):", line)
                if m:
                    self.open_id = int(m.group(1))
                    self.end = int(m.group(3))
                for m2 in re.finditer(r"(\d+):(\d+):(\d+):(\d+):\[vote=\S+ last=(\S+) ", line.split(" open=")[0]):
                    cid, last = int(m2.group(1)), m2.group(5)
                    self.first_closed_at.setdefault(cid, i)
                    self.closing_last[cid] = None if last == "-" else tuple(int(x) for x in last.split(","))
            if w in WRITE_WORDS and line.startswith("ret ok"):
                off, size = [int(x) for x in line.split()[2].split(",")]
                heads = [e.split() for e in g.evs if e.startswith("ev write c")]
                noop = (w == "purge" and self.end is not None and off + size <= self.end and not heads
                        and off < self.end and (off + size) != self.end + size)
                if heads:
                    self.end = int(heads[-1][3]) + int(heads[-1][4])
                if self.end is None or off + size > self.end:
                    self.end = off + size
                self.on_write(cmd, off, size, g)
            if w == "flush" and line == "ret ok":
                t = cmd.split()
                if t[1] != "-":
                    cid = int(t[1])
                    self.flush_end[cid] = (self.end, sorted(self.files))
                    self.flush_order.append(cid)
            hooks.get("group", lambda *_: None)(self, i, cmd, g)
            if self.fails:
                return self
        return self

    def on_write(self, cmd, off, size, g):
        t = cmd.split()
        if t[0] == "app":
            # entries are journalled one after the other; the last one is at (off,size);
            # place every entry of the batch in the chunk that holds the last offset or an
            # earlier one created in this call (close enough for liveness: the index matters)
            chunk = self.chunk_of(off)
            created = [int(e.split()[3]) for e in g.evs if e.startswith("ev create c") and e.endswith("ok")]
            ents = [x.split(",", 2) for x in t[1:]]
            for n, (a, b, _) in enumerate(ents):
                c = chunk
                if len(ents) > 1 and created:
                    c = None  # unknown which side of the rotation an earlier entry fell on
                self.live[int(b)] = ((int(a), int(b)), c)
        elif t[0] == "trunc":
            idx = int(t[1])
            self.live = {i: v for i, v in self.live.items() if i < idx}
        elif t[0] == "purge":
            upto = (int(t[1]), int(t[2]))
            nxt = 0 if self.purged is None else self.purged[1] + 1
            if upto[1] >= nxt:
                self.live = {i: v for i, v in self.live.items() if i > upto[1]}
                if self.purged is None or self.purged < upto:
                    self.purged = upto
                # files created during this very call (rotation) already hold the purge in their head
                self.purges.append((upto, off, size, self.group_start_seq))
                self.purge_group = self.cur_group


def oracle_c04(script, ig, mg):
    """Flush acknowledgement soundness on the implementation's own trace."""

    def on_cb(tr, cid, ok):
        if any(c == cid for c, _ in tr.cb_seen):
            tr.fails.append(("callback-invoked-twice", {"cb": cid}))
            return
        # request order
        fired = [c for c, r in tr.cb_seen if r in ("ok", "err")]
        if fired and cid in tr.flush_order and fired[-1] in tr.flush_order and \
                tr.flush_order.index(cid) < tr.flush_order.index(fired[-1]):
            tr.fails.append(("callback-out-of-request-order", {"cb": cid, "after": fired[-1]}))
            return
        if not ok or cid not in tr.flush_end:
            return
        end, chunks = tr.flush_end[cid]
        if end is None:
            return
        for n, c in enumerate(chunks):
            if c >= end:
                continue
            f = tr.files.get(c)
            if f is None or not f["linked"]:
                continue
            c_end = chunks[n + 1] if n + 1 < len(chunks) else end
            need = min(end, c_end) - c
            if need > f["base"] and f["synced"] < need:
                tr.fails.append(("ack-before-bytes-synced",
                                 {"cb": cid, "chunk": c, "needed": need, "written": f["written"],
                                  "synced": f["synced"], "journal_end_at_flush": end}))
                return

    def on_group(tr, i, cmd, g):
        # flush acknowledged, worker idle, then `stat` and `dir`: the journal end the store reports
        # is on disk (open chunk id + file length = end)
        if g.line.startswith("dir ") and i >= 3 and ig[i - 1].line.startswith("stat ") \
                and ig[i - 2].line.startswith("wst idle") and tr.prim[i - 3].startswith("flush ") \
                and ig[i - 3].line == "ret ok":
            cbid = tr.prim[i - 3].split()[1]
            if cbid != "-" and f"ev cb {cbid} ok" in ig[i - 2].evs + ig[i - 3].evs:
                m = re.search(r"open=(\d+):(\d+):(\d+):(\d+):", ig[i - 1].line)
                ents = {int(p.split(":")[0]): int(p.split(":")[1]) for p in g.line.split()[1:]}
                if m and int(m.group(1)) in ents and int(m.group(1)) + ents[int(m.group(1))] != int(m.group(3)):
                    tr.fails.append(("acknowledged-flush-but-journal-end-not-on-disk",
                                     {"group": i, "stat": ig[i - 1].line[:120], "dir": g.line}))

    tr = Trace(script, ig).run({"cb": on_cb, "group": on_group})
    if tr.fails:
        return tr.fails
    # no system call failed (incl. a blocked rotation on the caller thread): no callback may be dropped uninvoked
    caller_fault = any(e.endswith(" fail") for g in ig for e in g.evs if e.startswith("ev "))
    if not tr.io_fault and not caller_fault:
        lost = [c for c, k in tr.cb_seen if k == "dropped"]
        if lost:
            return [("callback-dropped-although-nothing-failed", {"dropped": lost})]
    # exactly once when nothing failed and the worker ran to idle (or was joined by drop) at the end
    if not tr.faulted and tr.prim and ig and (ig[-1].line.startswith("wst idle") or ig[-1].line == "dropped"):
        missing = [c for c in tr.flush_order if not any(x == c for x, _ in tr.cb_seen)]
        if missing:
            return [("callback-never-invoked", {"missing": missing})]
    return []


def oracle_c08(script, ig, mg):
    def on_unlink(tr, cid, thread):
        linked = tr.linked()
        if linked and cid != linked[0]:
            tr.fails.append(("not-oldest-first", {"unlinked": cid, "linked": linked}))
            return
        alive = [i for i, (lid, c) in tr.live.items() if c == cid]
        if alive:
            tr.fails.append(("chunk-with-live-entry-deleted", {"chunk": cid, "live_indexes": alive[:5]}))
            return
        cl = tr.closing_last.get(cid, "unknown")
        ok = False
        for upto, off, size, pseq in tr.purges:
            if not (cl == "unknown" or cl is None or cl <= upto):
                continue
            # (i) the PurgeUpto record itself, written and synced in a file that remains
            f = tr.chunk_of(off)
            if f is not None and f != cid and tr.files[f]["linked"] and tr.files[f]["synced"] >= off + size - f:
                ok = True
            # (ii) the state snapshot at the head of a file started after that purge
            for g, (cseq, hl) in tr.created_seq.items():
                if g != cid and cseq > pseq and hl and tr.files[g]["linked"] and tr.files[g]["synced"] >= hl:
                    ok = True
        if not ok:
            tr.fails.append(("deleted-before-purge-durable",
                             {"chunk": cid, "closing_last": cl, "purges": tr.purges[-3:],
                              "files": {k: v for k, v in tr.files.items() if v["linked"]}}))

    def on_group(tr, i, cmd, g):
        # liveness: after flush + worker idle without any fault, the directory holds
        # exactly the chunks the store still knows (closed + open)
        # (also after failed syncs, once a later flush has been acknowledged positively: the purge is
        # flushed and the worker is idle)
        quiet_ok = (not tr.faulted) or (not tr.hard_fault and i >= 3 and tr.prim[i - 3].startswith("flush ")
                                        and tr.prim[i - 3].split()[1] != "-"
                                        and (int(tr.prim[i - 3].split()[1]), "ok") in tr.cb_seen)
        if g.line.startswith("dir ") and quiet_ok and i >= 2 and ig[i - 1].line.startswith("stat ") \
                and ig[i - 2].line.startswith("wst idle") and tr.prim[i - 3].startswith("flush") \
                if i >= 3 else False:
            st = ig[i - 1].line
            known = [int(m.group(1)) for m in re.finditer(r"(?:\(| )(\d+):\d+:\d+:\d+:\[", st.split(" open=")[0])]
            m = re.search(r"open=(\d+):", st)
            known.append(int(m.group(1)))
            on_disk = [int(p.split(":")[0]) for p in g.line.split()[1:]]
            first_closed = re.search(r"closed=\((\d+):\d+:\d+:\d+:\[vote=\S+ last=(\S+) ", st)
            if first_closed and tr.purges:
                # a closed chunk that closed without any entry ever appended (last = -) holds nothing at all
                cl = tuple(int(x) for x in first_closed.group(2).split(",")) if first_closed.group(2) != "-" else (-1, -1)
                if cl <= tr.purges[-1][0]:
                    cid0 = int(first_closed.group(1))
                    # closed by a LATER call than the purge that covers it: only the next purge
                    # looks at it again (recorded finding); closed before or by the purge call itself
                    # and still there: the removal was missed
                    late = tr.purge_group is not None and tr.first_closed_at.get(cid0, 0) > tr.purge_group + 2
                    tr.fails.append(("chunk-closed-after-its-purge-kept-until-next-purge" if late else
                                     "obsolete-closed-chunk-kept-after-purge-flush-idle",
                                     {"chunk": int(first_closed.group(1)), "closing_last": cl,
                                      "last_purge": tr.purges[-1][0]}))
                    return
            if sorted(on_disk) != sorted(known):
                cls = "obsolete-chunk-not-removed-or-needed-chunk-missing"
                extra = sorted(set(on_disk) - set(known))
                if tr.sync_failed and set(known) <= set(on_disk) and extra and extra[-1] < min(known) \
                        and i < len(mg) and mg[i].line == g.line:
                    # the model reproduces the directory: ids whose removal was postponed by a
                    # failed sync are unlinked only together with the next removal request
                    cls = "removal-postponed-by-failed-sync-waits-for-next-removal-request"
                tr.fails.append((cls, {"directory": on_disk, "store_chunks": known}))

    tr = Trace(script, ig).run({"unlink": on_unlink, "group": on_group})
    if tr.fails:
        return tr.fails
    # gap-free suffix starting with a snapshot: read back everything that is live
    return oracle_spec_equal({"read"}, skip_d2=True)(script, ig, mg)


def oracle_c14(script, ig, mg):
    fails = []
    dropped = False
    for i, g in enumerate(ig):
        if any(e == "ev lock-free-while-worker-active" for e in g.evs):
            fails.append(("directory-lock-released-while-worker-still-active", {"group": i, "events": g.evs}))
            return fails
        if dropped:
            for e in g.evs:
                if " z " in e or e.startswith("ev exit z"):
                    fails.append(("activity-after-drop", {"event": e}))
                    return fails
        if g.line.startswith("dropped"):
            if g.line != "dropped":
                fails.append(("worker-alive-after-drop", {"line": g.line, "later": [x.line for x in ig[i + 1:i + 3]]}))
                return fails
            dropped = True
        if g.line.startswith("open ") and dropped and g.line != "open ok":
            fails.append(("open-after-drop-failed", {"line": g.line}))
            return fails
    if fails:
        return fails
    f2 = oracle_spec_equal({"st", "read"}, skip_d2=True)(script, ig, mg)
    if f2:
        return f2
    # the new instance keeps working: the final flush is acknowledged
    if ig and ig[-1].line.startswith("wst") and any(l.startswith("flush 777") for l in script):
        evs = [e for g in ig for e in g.evs]
        if "ev cb 777 ok" not in evs:
            fails.append(("new-instance-flush-not-acknowledged", {"last": ig[-1].line}))
    return fails


def oracle_c07(script, ig, mg):
    """Every live entry readable without error, equal to the reference log,
    through range reads and snapshot iteration."""
    fails = []
    for i, (a, b) in enumerate(zip(ig, mg)):
        for s in b.spec:
            ch = s.split()[0]
            if ch not in ("read", "iter", "iter2") or not a.line.startswith(ch + " "):
                continue
            if a.line != s:
                cls = f"{ch}-differs-from-spec"
                nerr = a.line.count("err:notFound") + a.line.count("err:eof")
                ninfo = sum(1 for x in b.info if x.startswith("c07 below-boundary-evicted"))
                if nerr and a.line == b.line and ninfo == nerr and a.line.count("err:") == nerr:
                    # the model predicts exactly these errors and attributes each of them to an
                    # entry whose log id is at or below the eviction boundary (known finding D2)
                    cls = "reappended-entry-at-or-below-boundary-evicted"
                fails.append((cls, {"group": i, "impl": a.line, "spec": s, "model": b.line}))
                return fails
    return fails


def oracle_c02(script, ig, mg):
    """Around every clean restart: same state and entries before and after,
    `open` changes no file, and the reference log continues to be matched."""
    fails = []
    prim = primary_cmds(script)
    for i, g in enumerate(ig):
        if i < len(prim) and prim[i] == "open" and i > 0:
            if g.line != "open ok":
                fails.append(("clean-restart-open-failed", {"group": i, "line": g.line}))
                return fails
            # (a sync of a file does not modify it)
            if [e for e in g.evs if not e.startswith("ev sync ")]:
                fails.append(("open-modified-files-on-clean-restart", {"group": i, "events": g.evs}))
                return fails
            # queries emitted right before `drop` and right after `open`
            k = i - 1
            while k >= 0 and not ig[k].line.startswith("dropped"):
                k -= 1
            if k < 0:
                continue
            # clean = everything flushed and acknowledged before the drop:
            # ... flush N / widle (cb N ok) / queries / drop, no write in between
            j = k - 1
            while j >= 0 and ig[j].line.startswith(QUERY_CH):
                j -= 1
            clean = False
            if j >= 1 and ig[j].line.startswith("wst idle") and prim[j - 1].startswith("flush ") \
                    and ig[j - 1].line == "ret ok":
                cbid = prim[j - 1].split()[1]
                clean = f"ev cb {cbid} ok" in ig[j].evs + ig[j - 1].evs
            if not clean:
                continue
            before = {}
            j = k - 1
            while j >= 0 and ig[j].line.startswith(QUERY_CH):
                d2 = j < len(mg) and ig[j].line == mg[j].line and any(
                    x.startswith("c07 below-boundary-evicted") for x in mg[j].info)
                if not d2:
                    before.setdefault(prim[j], ig[j].line)
                j -= 1
            after = {}
            j = i + 1
            while j < len(ig) and ig[j].line.startswith(QUERY_CH):
                d2 = j < len(mg) and ig[j].line == mg[j].line and any(
                    x.startswith("c07 below-boundary-evicted") for x in mg[j].info)
                if not d2:  # a read explained by the C07 known finding is left to C07
                    after.setdefault(prim[j], ig[j].line)
                j += 1
            for q in before:
                if q in after and before[q] != after[q] and q.split()[0] in ("st", "read", "dir", "size"):
                    fails.append((f"{q.split()[0]}-changed-across-clean-restart",
                                  {"group": i, "query": q, "before": before[q], "after": after[q]}))
                    return fails
    return oracle_spec_equal({"ret", "st", "read"}, skip_d2=True)(script, ig, mg)


def proj_events(l):
    if l.startswith(("ev ", "wst", "ret", "dropped", "open ")):
        return ret_kind(l) if l.startswith("ret") else l
    return None


def proj_c08(l):
    if l.startswith(("ev unlink", "ev write", "ev sync", "ev create", "ev trunc", "dir ", "wst", "dropped", "open ")):
        return l
    if l.startswith("stat "):
        return l.split(" cache=")[0]
    if l.startswith("ret"):
        return ret_kind(l)
    return None


def proj_c07(l):
    if l.startswith(("read ", "iter ", "iter2 ")):
        return l
    if l.startswith("stat "):
        return "stat " + stat_cache(l)
    return None


def proj_c02(l):
    if l.startswith(("st ", "read ", "dir ", "size ", "open ", "dropped", "rec ", "dumpw")):
        return l
    if l.startswith("ev ") and " o " in l:
        return l
    if l.startswith("ret"):
        return ret_kind(l)
    if l.startswith("stat "):
        return l.split(" cache=")[0]
    return None


def with_stat_after_writes(lines, extra=("stat",)):
    out = []
    for l in lines:
        out.append(l)
        if l.split()[0] in WRITE_WORDS:
            out += list(extra)
    return out


def scripts_c04(tier, rng):
    n = 250 if tier == "quick" else 3000
    out, stats = [], {}
    for i in range(n):
        g = gen.HistGen(rng.fork(), max_ops=30, worker_steps=True, faults=(i % 2 == 0), queries=(),
                        restarts=(i % 6 == 4), ack_before_restart=False,
                        flush_prob=(1, 2), weights=dict(append=40, purge=6, truncate=4, ud=3, vote=6, commit=6, restart=4))
        lines = with_stat_after_writes(g.script())
        lines.insert(2, "stat")
        if i % 5 == 3:
            # the store is dropped right after the last flush: the join must finish the queued requests
            lines += ["flush 9998", "drop"]
        else:
            lines += ["flush 9998", "widle", "stat", "dir"]
        out.append((f"c04_{i}", lines))
        for k, v in g.stats.items():
            stats[k] = stats.get(k, 0) + v
    out += blocked_rotation_scripts(out[: (40 if tier == "quick" else 400)], rng, "c04x")
    # several megabytes queued behind a parked worker: one batch of large writes
    for j in range(1 if tier == "quick" else 3):
        sz = rng.choice([1100000, 900000, 1500000])
        lines = ["cfg", "open"]
        for x in range(6):
            lines += [f"app 1,{x},x{sz}:{x + 1}", f"flush {x + 1}"]
        lines += ["widle", "stat", "dir"]
        out.append((f"c04big_{j}", lines))
    stats["large-pipelined-batch"] = 1 if tier == "quick" else 3
    # a failed sync of an older chunk file, then a clean restart: the next acknowledged flush of the new
    # instance still vouches for everything journalled before it, the older file included
    for j in range(8 if tier == "quick" else 40):
        mr = 2 + rng.below(3)
        n = mr + rng.below(mr + 1)
        k = rng.below(7)
        lines = [f"cfg mr={mr}", "open", "stat", "app " + " ".join(f"1,{x},{gen.rnd_bytes_token(rng, [1, 7])}" for x in range(n)),
                 "stat", "flush 3"] + ["w ok"] * min(k, 2) + ["wfsall", "stat", "dir",
                 "drop", f"cfg mr={mr}", "open", "stat",
                 "commit 1 0", "stat", "flush 4", "widle", "stat", "dir", f"app 1,{n},aa", "stat", "flush 5", "widle", "stat", "dir"]
        out.append((f"c04eiorestart_{j}", lines))
    stats["failed-sync-then-restart"] = 8 if tier == "quick" else 40
    # more requests than the bounded queue and one worker batch hold (1024), against a slow worker;
    # then an acknowledged flush: everything journalled must be on disk
    for j in range(1 if tier == "quick" else 3):
        out.append((f"c04burst_{j}", ["cfg", "open", f"burst {1100 + rng.below(400)} 1 0", "flush 9000", "widle", "stat", "dir",
                                      "st", f"read 0 3", "dumpw"]))
    return out, stats


def blocked_rotation_scripts(named, rng, prefix):
    """A caller-thread I/O error at rotation: a stray file already has the name of the chunk a
    later rotation wants to create (learnt from a fault-free run of the model)."""
    texts = "".join(f"begin {n}\n" + "\n".join(l) + "\nend\n" for n, l in named)
    rc, outp, _ = core._run_bin(core.DRIVER, texts, 600)
    res = []
    for name, lines in core.split_scripts(outp).items():
        ids = [int(l.split()[3]) for l in lines if l.startswith("ev create c ") and l.endswith("ok")]
        if not ids:
            continue
        cid = ids[rng.below(len(ids))]
        src = dict(named)[name]
        k = src.index("open") + 1 if "open" in src else 0
        tail = ["flush 9997", "widle", "stat", "dir"]
        res.append((f"{prefix}_{name}", src[:k] + [f"fsop touch {cid}"] + src[k:] + tail))
    return res


def scripts_c08(tier, rng):
    n = 250 if tier == "quick" else 3000
    out, stats = [], {}
    for i in range(n):
        g = gen.HistGen(rng.fork(), max_ops=35, worker_steps=(i % 3 != 0), faults=(i % 4 == 1), queries=(),
                        flush_prob=(1, 3), weights=dict(append=40, purge=18, truncate=8, ud=2, vote=4, commit=4))
        lines = []
        for l in g.script():
            lines.append(l)
            if l.split()[0] in WRITE_WORDS:
                lines.append("stat")
            if l.startswith("purge") and rng.chance(2, 3):
                if i % 4 == 1 and rng.chance(1, 2):
                    # the first unlink of this removal fails
                    fid = 5000 + len(lines)
                    lines += [f"flush {fid}", f"wack {fid}", "w eio", "widle", "stat", "dir"]
                else:
                    lines += [f"flush {5000 + len(lines)}", "widle", "stat", "dir", f"read 0 {U64MAX}"]
        lines.insert(2, "stat")
        lines += ["flush 9998", "widle", "stat", "dir", f"read 0 {U64MAX}"]
        out.append((f"c08_{i}", lines))
        for k, v in g.stats.items():
            stats[k] = stats.get(k, 0) + v
    return out, stats


def scripts_c14(tier, rng):
    n = 200 if tier == "quick" else 2500
    out, stats = [], {}
    for i in range(n):
        r = rng.fork()
        g = gen.HistGen(r, max_ops=25, worker_steps=True, queries=(), flush_prob=(1, 3),
                        weights=dict(append=40, purge=14, truncate=4, ud=2, vote=4, commit=4))
        lines = g.script()
        # last flush, then release the worker only until that flush is acknowledged
        lines += ["flush 9000"]
        k = r.below(4)
        lines += ["wack 9000"] if k else ["widle"]
        if i % 4 == 2:
            # writes after the acknowledged flush that are never flushed (they may rotate the chunk, which
            # queues the old tail for the worker): dropped with the store, the reopen shows a prefix
            for _ in range(1 + r.below(4)):
                w = r.choice([g.op_append, g.op_append, g.op_vote, g.op_commit, g.op_purge, g.op_purge])()
                if w:
                    lines.append(w)
        lines += ["st", f"read 0 {U64MAX}", "dir",
                  "dropslow" if (i % 25 == 7 and k) else ("droppanic" if r.chance(1, 4) else "drop"), "dir", g.cfg_line(),
                  "open", "st", f"read 0 {U64MAX}"]
        # the new instance keeps working
        if g.m.entries:
            e = g.m.entries[len(g.m.entries) // 2]
            lines += [f"purge {e[0]} {e[1]}"]
        lines += ["flush 777", "widle", "st", f"read 0 {U64MAX}", "dir"]
        out.append((f"c14_{i}", lines))
        for kk, v in g.stats.items():
            stats[kk] = stats.get(kk, 0) + v
    # the worker still has chunk files to unlink when the store is dropped and
    # needs more than a second for each: drop must wait for it however long it takes
    for j in range(4 if tier == "quick" else 16):
        r = rng.fork()
        mr = 2 + r.below(2)
        n = 2 * mr + 1 + r.below(3)
        lines = [f"cfg mr={mr}", "open", "app " + " ".join(f"1,{x},{gen.rnd_bytes_token(r, [1, 7])}" for x in range(n)),
                 "flush 1", "widle", f"purge 1 {mr + r.below(n - mr - 1)}", "flush 9000", "wack 9000", "dir", "dropslow", "dir",
                 "open", "st", f"read 0 {U64MAX}", f"app 1,{n},aa", "flush 777", "widle", "st", "dir"]
        out.append((f"c14slow_{j}", lines))
        stats["slow-drop"] = stats.get("slow-drop", 0) + 1
    return out, stats


def scripts_c07(tier, rng):
    n = 300 if tier == "quick" else 4000
    out, stats = [], {}
    for i in range(n):
        g = gen.HistGen(rng.fork(), max_ops=35, small_cache=True, worker_steps=True, restarts=(i % 3 == 0),
                        faults=(i % 5 == 4), queries=("read", "iter", "stat"), flush_prob=(1, 2),
                        payload_sizes=(0, 1, 7, 300), weights=dict(append=45, truncate=10, purge=8))
        lines = g.script()
        if i % 3 == 1:
            # several reader threads on the shared store, at the same moment
            rr = rng.fork()
            lines = [f"mread {2 + rr.below(7)} " + l[5:] if l.startswith("read ") and rr.chance(1, 2) else l for l in lines]
        if i % 3 != 0:
            # a snapshot taken somewhere in the history is kept and iterated later (no restart in between:
            # the snapshot belongs to that instance's files)
            rs = rng.fork()
            body = [k for k, l in enumerate(lines) if k >= 2]
            if body:
                at = body[rs.below(len(body))]
                lines = lines[:at] + ["snap"] + lines[at:]
                later = [k for k in range(at + 1, len(lines) + 1)]
                for k in sorted({later[rs.below(len(later))] for _ in range(2)}, reverse=True):
                    lines = lines[:k] + ["snapiter"] + lines[k:]
                lines += ["flush 9997", "widle", "snapiter", "drain", "snapiter"]
        lines += ["flush 9998", "widle", f"read 0 {U64MAX}", "iter", "drain", f"mread 4 0 {U64MAX}", "iter", "stat"]
        out.append((f"c07_{i}", lines))
        for k, v in g.stats.items():
            stats[k] = stats.get(k, 0) + v
    return out, stats


def scripts_c02(tier, rng):
    n = 250 if tier == "quick" else 3000
    out, stats = [], {}
    for i in range(n):
        g = gen.HistGen(rng.fork(), max_ops=30, small_cache=(i % 2 == 0), worker_steps=(i % 2 == 1),
                        restarts=True, queries=("st", "read"), weights=dict(restart=14),
                        rejected=(i % 3 == 0))
        lines = []
        for l in g.script():
            if l == "drop":
                lines += ["st", f"read 0 {U64MAX}", "size", "dir"]
            lines.append(l)
            if l == "open" and len(lines) > 3:
                lines += ["st", f"read 0 {U64MAX}", "size", "dir"]
        lines += ["flush 9998", "widle", "st", f"read 0 {U64MAX}", "size", "dir", "drop", g.cfg_line(), "open",
                  "st", f"read 0 {U64MAX}", "size", "dir", "dumpw"]
        out.append((f"c02_{i}", lines))
        for k, v in g.stats.items():
            stats[k] = stats.get(k, 0) + v
    return out, stats


PROPS.update({
    "C04": dict(modules=['C04', 'C04Sys', 'C04Order', 'LiftRestart', 'AnyHistory'], theorems=['c04_positive_callback_means_durable_any_history_partial', 'c03_acked_is_durable_any_history_partial', 'c04_sys_callback_accounting_partial', 'c04_sys_callback_accounting_ascending', 'c04_sys_callback_accounting_no_death', 'c04_sys_callback_accounting_no_eio', 'c04_sys_at_most_once', 'c04_sys_request_order_partial', 'c04_sys_request_order', 'c04_sys_exactly_once_no_fault', 'Sys.step_acctC4S', 'Sys.run_acctC4S', 'Sys.run_splitC4S', 'c04_wf_invariant', 'c04_covered_step', 'c04_dying_step', 'c04_covered_rotate', 'c04_covered_flush', 'c04_ack_only_from_syncNew', 'c04_ack_means_synced', 'c04_negative_after_failed_sync', 'c04_step_cbs', 'c04_cbs_in_request_order', 'c04_cb_at_most_once', 'c04_exactly_once_no_fault_measure', 'c04_exactly_once_no_fault', 'c04_wf_reachable', 'c04_covered_sys', 'c04_positive_callback_means_durable', 'lift_oldSynced_spec', 'lift_crashInv_clean_restart', 'lift_oldSynced_of_single_file', 'lift_inv_spec', 'lift_inv_fresh', 'lift_inv_history', 'lift_inv_restart', 'lift_inv_recovered', 'c15_accounting_exact_after_recovery_of_crashInv', 'c15_accounting_exact_after_recovery_history_of_crashInv', 'c15_accounting_exact_after_recovery', 'c15_accounting_exact_after_recovery_history', 'c15_append_only_pinned_after_recovery', 'c08_gap_free_suffix_of_crashInv', 'c08_unlinks_oldest_first_of_crashInv', 'c08_index_entries_in_linked_chunks_of_crashInv', 'c08_unlink_only_after_purge_durable_of_crashInv', 'c08_flushed_idle_gone_of_crashInv', 'c08_clean_files_are_live_chunks_of_crashInv', 'c08_restarted_files_are_live_chunks', 'c08_recovered_files_are_live_chunks', 'lift_clean_holds_no_request', 'c04_positive_callback_means_durable_of_crashInv', 'ReachLIFT', 'lift_csys_keys', 'lift_reach_invariant', 'c11_journal_invariant_reach', 'c15_accounting_exact_reach', 'c08_flushed_idle_gone_reach', 'c04_positive_callback_means_durable_reach', 'liftUnsyncedExample', 'liftUnsyncedRestarted', 'liftUnsyncedMore', 'lift_restart_syncs_old_chunks', 'lift_c05Example_wf', 'lift_c05Example_inv', 'lift_csys_last', 'lift_c05Recovered_inv', 'liftRestarted', 'liftReachExample', 'lift_reach_c05Recovered', 'lift_reach_restarted', 'lift_reach_example', 'crashInv_clean_restart_LIFT', 'recover_cacheInv_LIFT', 'run_keys_LIFT'], gen=scripts_c04, project=proj_events, oracle=oracle_c04,
                explanation="flush acknowledgement soundness", assumptions=OS_ASSUMPTIONS),
    "C08": dict(modules=['C08', 'C08Sys', 'LiftRestart', 'AnyHistory'], theorems=['c08_remaining_files_gap_free_suffix_any_history_partial', 'c08_flushed_idle_gone_always_any_history_partial', 'c08_unlink_only_after_good_sync', 'c08_removal_starts_only_after_good_sync', 'c08_lastSyncFailed', 'c08_unlink_in_list_order', 'c08_postponed_in_request_order', 'c08_popObsolete_prefix', 'c08_abut_spec', 'c08_remaining_files_gap_free_suffix', 'c08_unlinks_oldest_first', 'c08_index_entries_in_linked_chunks', 'c08_unlink_only_after_purge_durable', 'c08_no_failed_sync_clean', 'c08_postponed_only_after_failed_sync', 'c08_flushed_idle_gone_always', 'c08_flushed_idle_gone', 'lift_oldSynced_spec', 'lift_crashInv_clean_restart', 'lift_oldSynced_of_single_file', 'lift_inv_spec', 'lift_inv_fresh', 'lift_inv_history', 'lift_inv_restart', 'lift_inv_recovered', 'c15_accounting_exact_after_recovery_of_crashInv', 'c15_accounting_exact_after_recovery_history_of_crashInv', 'c15_accounting_exact_after_recovery', 'c15_accounting_exact_after_recovery_history', 'c15_append_only_pinned_after_recovery', 'c08_gap_free_suffix_of_crashInv', 'c08_unlinks_oldest_first_of_crashInv', 'c08_index_entries_in_linked_chunks_of_crashInv', 'c08_unlink_only_after_purge_durable_of_crashInv', 'c08_flushed_idle_gone_of_crashInv', 'c08_clean_files_are_live_chunks_of_crashInv', 'c08_restarted_files_are_live_chunks', 'c08_recovered_files_are_live_chunks', 'lift_clean_holds_no_request', 'c04_positive_callback_means_durable_of_crashInv', 'ReachLIFT', 'lift_csys_keys', 'lift_reach_invariant', 'c11_journal_invariant_reach', 'c15_accounting_exact_reach', 'c08_flushed_idle_gone_reach', 'c04_positive_callback_means_durable_reach', 'liftUnsyncedExample', 'liftUnsyncedRestarted', 'liftUnsyncedMore', 'lift_restart_syncs_old_chunks', 'lift_c05Example_wf', 'lift_c05Example_inv', 'lift_csys_last', 'lift_c05Recovered_inv', 'liftRestarted', 'liftReachExample', 'lift_reach_c05Recovered', 'lift_reach_restarted', 'lift_reach_example', 'crashInv_clean_restart_LIFT', 'recover_cacheInv_LIFT', 'run_keys_LIFT'], gen=scripts_c08, project=proj_c08, oracle=oracle_c08,
                explanation="chunk deletion", assumptions=OS_ASSUMPTIONS),
    "C14": dict(modules=['C14', 'C14Busy', 'AnyHistory'], theorems=['c14_busy_drop_then_open_any_history_partial', 'c14_worker_terminates_measure', 'c14_fuel_bound', 'c14_fuel_sufficient', 'c14_todoOK_reachable', 'c14_todoOK_invariant', 'c14_worker_terminates', 'c14_worker_terminates_any', 'c14_drop_state', 'c14_after_drop_nothing_moves', 'c14_drop_quiesces', 'c14_drop_none', 'c14_drop_quiesces_reachable', 'c14_drop_quiesces_system', 'c14_busy_drop_eq_idle_drop', 'c14_busy_drop_events', 'c14_busy_senderAlive', 'c14_busy_nothing_postponed', 'c14_busy_nothing_postponed_sync', 'c14_busy_postponed_invariant', 'c14_busy_restart_step', 'c14_busy_open_fs_unchanged_if_durable', 'c14_busy_drop_then_open_idle', 'c14_busy_drop_then_open', 'c14_after_busy_drop_nothing_changes', 'c14_busy_refinement_continues', 'c14_busy_history_after_restart', 'c14_busy_failed_sync_needed'], gen=scripts_c14, project=proj_events, oracle=oracle_c14,
                explanation="drop quiesces", assumptions=OS_ASSUMPTIONS),
    "C07": dict(modules=["C07", "C07Trunc", "C07Restart", "AnyHistory"], theorems=['c07_reads_with_truncate_any_history_partial', 'c07_reads_with_truncate_any_history_fresh_partial', 'c07_refines_noCache', 'c07_refinesNoCache_step', 'c07_readInv_spec', 'c07_resident_or_on_disk', 'c07_boundary_written', 'c07_read_of_inv', 'c07_inv_fresh', 'c07_inv_call', 'c07_inv_flush', 'c07_inv_worker', 'c07_inv_workerIdle', 'c07_inv_drain', 'c07_inv_reachable', 'c07_reads_partial', 'c07_worker_steps_invisible', 'c07_cache_limits_invisible', 'c07t_appendsFresh_iff', 'c07t_readInv_spec', 'c07t_inv_fresh', 'c07t_inv_call', 'c07t_inv_truncate', 'c07t_inv_flush', 'c07t_inv_worker', 'c07t_inv_workerIdle', 'c07t_inv_drain', 'c07t_read_of_inv', 'c07t_resident_or_on_disk', 'c07t_inv_reachable', 'c07_reads_with_truncate', 'c07t_appendsFresh_of_noTruncate', 'c07_reads_partial_of_with_truncate', 'c07t_worker_steps_invisible', 'c07t_cache_limits_invisible', 'c07r_readInv_spec', 'c07r_inv_fresh', 'c07r_inv_call', 'c07r_inv_flush', 'c07r_inv_worker', 'c07r_inv_workerIdle', 'c07r_inv_drain', 'c07r_inv_history', 'c07r_read_of_inv', 'c07_clean_restart_keeps_read_invariant', 'c07_clean_restart_reads', 'c07r_after_restart_resident_or_on_disk', 'c07r_appendsFresh_cycles', 'c07r_inv_cycles', 'c07_reads_across_restarts', 'c07_reads_with_truncate_of_across_restarts', 'c07r_reopen_cfgs_invisible', 'c07r_crashReadInv_spec', 'c07r_crashReadInv_fresh', 'c07r_crashReadInv_history', 'c07_crash_recovery_keeps_read_invariant', 'c07_reads_after_crash_recovery', 'c07_reads_after_recovery_continue', 'c07_reads_across_restarts_from'], gen=scripts_c07, project=proj_c07, oracle=oracle_c07,
                explanation="reads independent of cache/worker", assumptions=OS_ASSUMPTIONS),
    "C02": dict(theorems=['c02_smApply_cache_free', 'c02_smApply_independent_of_cache', 'c02_replay_spec', 'c02_replay_fresh', 'c02_replay_call', 'c02_replay_flush', 'c02_replay_worker', 'c02_replay_workerIdle', 'c02_replay_drain', 'c02_replay_invariant', 'c02_linked_files', 'c02_syncAll_durable', 'c02_syncEvs_only', 'c02_restart_step', 'c02_clean_restart', 'c02_refinement_continues', 'c02_history_after_restart', 'c02_removed_needed', 'c02_cycles', 'c02_restart_refines', 'c02_cycles_refines'], gen=scripts_c02, project=proj_c02, oracle=oracle_c02,
                explanation="clean restart equivalence", assumptions=OS_ASSUMPTIONS),
})


# ---------------------------------------------------------------------------
# C13: directory ownership
# ---------------------------------------------------------------------------

def proj_c13(l):
    if l.startswith(("open ", "dumpopen", "dumpdrop", "dropped", "read ")):
        return l
    if l.startswith("lockrace"):
        return l.split(" #")[0]
    if l.startswith("ev "):
        return l  # a refused attempt must not produce any event
    if l.startswith("ret"):
        return ret_kind(l)
    return None


def oracle_c13(script, ig, mg):
    fails = []
    prim = primary_cmds(script)
    owner = None  # "store" | "dump" | None, tracked from the implementation's own answers
    for i, g in enumerate(ig):
        if any(e == "ev lock-free-while-worker-active" for e in g.evs):
            fails.append(("directory-lock-released-while-owner-still-active", {"group": i, "events": g.evs}))
            return fails
        c = prim[i] if i < len(prim) else ""
        if c == "open":
            if owner is not None:
                if g.line != "open err locked" or g.evs:
                    fails.append(("second-owner-admitted-or-refusal-touched-files",
                                  {"group": i, "line": g.line, "events": g.evs, "owner": owner}))
                    return fails
            elif g.line == "open ok":
                owner = "store"
            elif g.line == "open err locked":
                fails.append(("refused-although-nobody-owns-the-directory", {"group": i}))
                return fails
        elif c == "openalt":
            # the same directory under another spelling (`<dir>/.`)
            if owner is not None and (g.line != "open err locked" or g.evs):
                fails.append(("second-owner-admitted-or-refusal-touched-files",
                              {"group": i, "line": g.line, "events": g.evs, "owner": owner, "via": "another spelling of the path"}))
                return fails
        elif c == "dumpopen":
            if owner is not None:
                if g.line != "dumpopen err locked" or g.evs:
                    fails.append(("second-owner-admitted-or-refusal-touched-files",
                                  {"group": i, "line": g.line, "events": g.evs, "owner": owner}))
                    return fails
            elif g.line == "dumpopen ok":
                owner = "dump"
            else:
                fails.append(("refused-although-nobody-owns-the-directory", {"group": i, "line": g.line}))
                return fails
        elif c in ("drop", "droppanic", "dropslow") and g.line.startswith("dropped") and owner == "store":
            if g.line != "dropped":
                # the owner is gone (and with it the directory lock) while its worker still runs
                fails.append(("directory-lock-released-while-owner-still-active",
                              {"group": i, "line": g.line, "later": [x.line for x in ig[i + 1:i + 3]]}))
                return fails
            owner = None
        elif c == "dumpdrop" and owner == "dump":
            owner = None
        elif c.startswith("lockrace"):
            if not g.line.startswith("lockrace violations=0 "):
                fails.append(("lock-race-violation", {"group": i, "line": g.line}))
                return fails
    return fails


def scripts_c13(tier, rng):
    n = 60 if tier == "quick" else 400
    out, stats = [], {}
    for i in range(n):
        g = gen.HistGen(rng.fork(), max_ops=12, queries=(), weights=dict(append=50, purge=4, truncate=4))
        lines = g.script() + ["flush 9000", "widle"]
        r = rng.fork()
        for _ in range(6 + r.below(8)):
            lines.append(r.choice(["open", "dumpopen", "drop", "dumpdrop", "open", "dumpopen", "openalt"]))
        lines += ["drop", "dumpdrop"]
        t, p, it = r.choice([(2, 0, 30), (4, 2, 20), (8, 1, 15), (3, 3, 12)])
        lines += [f"lockrace {t} {p} {it}", "open", f"read 0 {U64MAX}", "dumpopen", "drop", "dumpopen", "open",
                  "dumpdrop", "open", f"read 0 {U64MAX}"]
        if i % 10 == 3:
            # the owner is dropped while its worker needs more than a second per remaining step: the
            # lock must stay held until the worker is done (probe before every worker call), and the
            # directory is free right afterwards
            rr = rng.fork()
            mr = 2 + rr.below(2)
            nn = 2 * mr + 1 + rr.below(3)
            lines = [f"cfg mr={mr}", "open", "app " + " ".join(f"1,{x},{gen.rnd_bytes_token(rr, [1, 7])}" for x in range(nn)),
                     "flush 1", "widle", f"purge 1 {mr + rr.below(nn - mr - 1)}", "flush 9000", "wack 9000",
                     rr.choice(["dropslow", "droppanic"]), "open", f"read 0 {U64MAX}", "dumpopen", "drop", "dumpopen", "dumpdrop", "open", "drop"]
        if i % 6 == 1:
            # a process forked while the store was open still holds a copy of the
            # lock file's descriptor when the owner is dropped
            lines += ["forkhold", "drop", "open", "drop", "dumpopen", "forkhold", "dumpdrop", "open", "forkrelease",
                      "drop", "open"]
        out.append((f"c13_{i}", lines))
        for k, v in g.stats.items():
            stats[k] = stats.get(k, 0) + v
    return out, stats


PROPS["C13"] = dict(
    theorems=["c13_refused_open_is_noop", "c13_refused_dump_is_noop", "c13_attempt_while_owned_refused",
              "c13_at_most_one_owner", "c13_after_drop_unlocked", "c13_free_lock_not_refused",
              "c13_after_dump_drop_unlocked"],
    gen=scripts_c13, project=proj_c13, oracle=oracle_c13, nontrivial=lambda s: len(s) > 8,
    explanation="lock protocol; kernel flock semantics assumed and exercised by the lockrace monitor",
    assumptions=OS_ASSUMPTIONS + ["flock(LOCK_EX|LOCK_NB) is exclusive per open file description (kernel)"])


import crashprops  # noqa: E402,F401  (registers C03 C05 C10 C09, extends C07)
