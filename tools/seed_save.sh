#!/bin/bash
# usage: seed_save.sh <ID> <n> "<what I ran / result>"
ID=$1; N=$2; NOTE=$3
M=${MUTROOT:-/tmp/mut}/$ID/mutation$N; D=/verif/seeded/$ID-$((N+${NOFF:-0}))
mkdir -p $D; cp $M/patch.diff $D/; cp $M/demo*.rs $D/ 2>/dev/null
python3 - "$M/meta.json" "$D/meta.json" "$ID" "$NOTE" <<'PY'
import json,sys
src,dst,pid,note=sys.argv[1:5]
try: m=json.load(open(src))
except Exception as e: m={"meta_unreadable":str(e)}
m["breaks_property"]=pid
m["confirmed_by_me"]="in the scratch worktree: existing suite passes with the patch, demo fails with it and passes without (tools/seed_eval.sh)"
m["checks_run"]=note
json.dump(m,open(dst,"w"),indent=1)
PY
echo saved $D
