"""Core of the /verif check runner: build steps, running the implementation
harness and the Lean model driver on the same scripts, aligning and comparing
their observation streams, shrinking, evidence and replay files."""
import hashlib
import json
import os
import re
import subprocess
import sys
import time
from concurrent.futures import ThreadPoolExecutor

VERIF = os.path.dirname(os.path.dirname(os.path.abspath(__file__)))
LEAN = os.path.join(VERIF, "lean")
HARNESS = os.path.join(VERIF, "harness")
DRIVER = os.environ.get("VERIF_DRIVER") or os.path.join(LEAN, ".lake", "build", "bin", "driver")
RLV = os.path.join(HARNESS, "target", "debug", "rlv")
WORK = os.path.join(VERIF, "work")
NCPU = max(2, min(16, os.cpu_count() or 4))

ALLOWED_AXIOMS = {"propext", "Classical.choice", "Quot.sound"}
FORBIDDEN = re.compile(r"\b(sorry|admit|native_decide|implemented_by|bv_decide)\b|^axiom |\bunsafe |maxHeartbeats 0")


class Rng:
    """SplitMix64: every random choice of a run comes from one seed."""

    def __init__(self, seed):
        self.s = seed & 0xFFFFFFFFFFFFFFFF

    def next(self):
        self.s = (self.s + 0x9E3779B97F4A7C15) & 0xFFFFFFFFFFFFFFFF
        z = self.s
        z = ((z ^ (z >> 30)) * 0xBF58476D1CE4E5B9) & 0xFFFFFFFFFFFFFFFF
        z = ((z ^ (z >> 27)) * 0x94D049BB133111EB) & 0xFFFFFFFFFFFFFFFF
        return z ^ (z >> 31)

    def below(self, n):
        return self.next() % n if n > 0 else 0

    def choice(self, xs):
        return xs[self.below(len(xs))]

    def chance(self, num, den):
        return self.below(den) < num

    def fork(self):
        return Rng(self.next())


def sh(cmd, cwd=None, timeout=3600, env=None):
    e = dict(os.environ)
    e["CARGO_NET_OFFLINE"] = "true"
    if env:
        e.update(env)
    p = subprocess.run(cmd, cwd=cwd, shell=isinstance(cmd, str), capture_output=True, text=True,
                       timeout=timeout, env=e)
    return p.returncode, p.stdout, p.stderr


# ---------------------------------------------------------------------------
# build steps
# ---------------------------------------------------------------------------

def build_lean(targets):
    """Build Lean targets; returns (ok, log)."""
    rc, out, err = sh(["lake", "build"] + targets, cwd=LEAN, timeout=3000)
    return rc == 0, out + err


def strip_comments(text):
    text = re.sub(r"/-.*?-/", "", text, flags=re.S)
    return "\n".join(l.split("--")[0] for l in text.splitlines())


def grep_forbidden():
    """No sorry/admit/axiom/native_decide/... in any Lean source (comments stripped)."""
    hits = []
    for root, _, files in os.walk(LEAN):
        if ".lake" in root:
            continue
        for f in files:
            if f.endswith(".lean"):
                p = os.path.join(root, f)
                body = strip_comments(open(p).read())
                for i, l in enumerate(body.splitlines()):
                    if FORBIDDEN.search(l):
                        hits.append(f"{os.path.relpath(p, LEAN)}:{i + 1}: {l.strip()}")
    return hits


def audit_axioms(pid, modules=None):
    """Run `#print axioms` for the property's theorems (one Audit file per
    module). Returns (theorems: {name: [axioms]}, ok, log)."""
    thms, ok, log = {}, True, ""
    for m in (modules or [pid]):
        t, o, l = _audit_one(m)
        thms.update(t)
        ok = ok and o
        log += l
    return thms, ok, log


def _audit_one(pid):
    f = os.path.join(LEAN, "RaftLogModel", "Audit", f"{pid}.lean")
    if not os.path.exists(f):
        return {}, False, f"missing {f}"
    rc, out, err = sh(["lake", "env", "lean", f], cwd=LEAN, timeout=1200)
    thms = {}
    text = out + err
    for m in re.finditer(r"'(\S+)' depends on axioms: \[([^\]]*)\]", text, flags=re.S):
        thms[m.group(1)] = [a.strip() for a in m.group(2).replace("\n", " ").split(",") if a.strip()]
    for m in re.finditer(r"'(\S+)' does not depend on any axioms", text):
        thms[m.group(1)] = []
    return thms, rc == 0, text


def build_harness():
    rc, out, err = sh(["cargo", "build", "--offline"], cwd=HARNESS, timeout=3000)
    return rc == 0, out + err


# ---------------------------------------------------------------------------
# running scripts
# ---------------------------------------------------------------------------

def _run_bin(binpath, text, timeout):
    tmp = os.path.join(WORK, "tmp")
    os.makedirs(tmp, exist_ok=True)
    env = dict(os.environ)
    env["RLV_TMP"] = tmp
    try:
        p = subprocess.run([binpath], input=text, capture_output=True, text=True, timeout=timeout, env=env)
        return p.returncode, p.stdout, p.stderr
    except subprocess.TimeoutExpired as e:
        return 124, (e.stdout or b"").decode() if isinstance(e.stdout, bytes) else (e.stdout or ""), "timeout"


def split_scripts(out):
    """Output text -> {name: [lines]} (lines between `begin <name>` and `end`)."""
    res = {}
    cur = None
    for l in out.splitlines():
        if l.startswith("begin "):
            cur = l.split()[1]
            res[cur] = []
        elif l == "end":
            cur = None
        elif cur is not None:
            res[cur].append(l)
    return res


def run_many(scripts, timeout=600):
    """scripts: list of (name, [lines]). Runs the harness and the driver over
    shards in parallel. Returns ({name: impl_lines}, {name: model_lines}, problems)."""
    names = [n for n, _ in scripts]
    if len(set(names)) != len(names):
        dup = sorted({n for n in names if names.count(n) > 1})[:5]
        raise RuntimeError(f"script names must be unique (outputs are matched by name): {dup}")
    shards = [[] for _ in range(NCPU)]
    for i, s in enumerate(scripts):
        shards[i % NCPU].append(s)
    shards = [s for s in shards if s]

    def text_of(shard):
        parts = []
        for name, lines in shard:
            parts.append(f"begin {name}")
            parts.extend(lines)
            parts.append("end")
        return "\n".join(parts) + "\n"

    impl, model, problems = {}, {}, []

    def job(shard):
        t = text_of(shard)
        r1 = _run_bin(RLV, t, timeout)
        r2 = _run_bin(DRIVER, t, timeout)
        return shard, r1, r2

    with ThreadPoolExecutor(max_workers=NCPU) as ex:
        for shard, r1, r2 in ex.map(job, shards):
            if r1[0] != 0:
                problems.append(f"harness exit {r1[0]}: {r1[2][-300:]} {r1[1][-200:]}")
            if r2[0] != 0:
                problems.append(f"driver exit {r2[0]}: {r2[2][-300:]}")
            impl.update(split_scripts(r1[1]))
            model.update(split_scripts(r2[1]))
    return impl, model, problems


def run_one(lines, name="replay"):
    impl, model, problems = run_many([(name, lines)])
    return impl.get(name, []), model.get(name, []), problems


# ---------------------------------------------------------------------------
# alignment
# ---------------------------------------------------------------------------

class Group:
    """One primary observation line with the event lines before it and (model
    side) the spec / info lines after it."""
    __slots__ = ("evs", "line", "spec", "info")

    def __init__(self):
        self.evs, self.line, self.spec, self.info = [], None, [], []


def groups_of(lines):
    gs = []
    cur = Group()
    for l in lines:
        if l.startswith("="):
            if gs:
                gs[-1].spec.append(l[1:])
        elif l.startswith("#"):
            if gs:
                gs[-1].info.append(l[1:])
        elif l.startswith(("ev ", "rec ")):
            cur.evs.append(l)
        else:
            cur.line = l
            gs.append(cur)
            cur = Group()
    if cur.evs:
        cur.line = "<trailing>"
        gs.append(cur)
    return gs


def canon_events(lines):
    """Canonicalisation applied to both streams before they are compared:
    consecutive successful `write`s by one thread to one file are merged into
    one (so a `write_all` loop, a short write or a vectored write look alike;
    contents are compared through the `dir` hashes)."""
    out = []
    for l in lines:
        t = l.split()
        if len(t) == 7 and t[0] == "ev" and t[1] == "write" and t[6] == "ok":
            if out and out[-1][0] == "W" and out[-1][1] == (t[2], t[3]):
                out[-1][2] += int(t[4])
                continue
            out.append(["W", (t[2], t[3]), int(t[4])])
        else:
            out.append(["L", l])
    res = []
    for x in out:
        if x[0] == "W":
            res.append(f"ev write {x[1][0]} {x[1][1]} {x[2]} ok")
        else:
            res.append(x[1])
    return res


def first_diff(impl_lines, model_lines, project):
    """Compare the two streams under a projection `project(line) -> str|None`
    (None = channel not in the footprint). Returns None or a description."""
    a = [p for p in (project(l) for l in canon_events([x for x in impl_lines if not x.startswith(("=", "#"))]))
         if p is not None]
    b = [p for p in (project(l) for l in canon_events([x for x in model_lines if not x.startswith(("=", "#"))]))
         if p is not None]
    for i in range(max(len(a), len(b))):
        x = a[i] if i < len(a) else "<missing>"
        y = b[i] if i < len(b) else "<missing>"
        if x != y:
            return {"index": i, "impl": x, "model": y}
    return None


# ---------------------------------------------------------------------------
# shrinking
# ---------------------------------------------------------------------------

def ddmin(lines, fails, keep_prefix=0, budget=400):
    """Delta debugging over script lines; `fails(lines) -> bool`."""
    n = 2
    cur = list(lines)
    runs = 0
    while len(cur) - keep_prefix >= 2 and runs < budget:
        body = cur[keep_prefix:]
        size = max(1, len(body) // n)
        reduced = False
        for i in range(0, len(body), size):
            cand = cur[:keep_prefix] + body[:i] + body[i + size:]
            runs += 1
            if cand != cur and fails(cand):
                cur = cand
                n = max(n - 1, 2)
                reduced = True
                break
            if runs >= budget:
                break
        if not reduced:
            if size == 1:
                break
            n = min(n * 2, len(body))
    return cur


# ---------------------------------------------------------------------------
# replay / evidence
# ---------------------------------------------------------------------------

def write_replay(pid, kind, script, impl, model, detail, extra=None):
    d = os.path.join(VERIF, "replays")
    os.makedirs(d, exist_ok=True)
    h = hashlib.sha1(("\n".join(script) + kind).encode()).hexdigest()[:10]
    path = os.path.join(d, f"{pid}-{kind}-{h}.json")
    obj = {"property": pid, "kind": kind, "script": script, "impl_obs": impl, "model_obs": model,
           "detail": detail}
    if extra:
        obj.update(extra)
    with open(path, "w") as f:
        json.dump(obj, f, indent=1)
    return path


def write_evidence(pid, obj):
    d = os.path.join(VERIF, "evidence")
    os.makedirs(d, exist_ok=True)
    with open(os.path.join(d, f"{pid}.json"), "w") as f:
        json.dump(obj, f, indent=1)


def load_known():
    p = os.path.join(VERIF, "KNOWN_FINDINGS.json")
    if os.path.exists(p):
        return json.load(open(p))
    return {"findings": [], "fixed": []}
