#!/bin/sh
# usage: revert_test.sh <commit-subject-grep> <ID>...   (applies the reverse of a fix commit to /repo's working tree, runs checks, restores)
pat="$1"; shift
c=$(git -C /repo log --format=%h --grep="$pat" | head -1)
[ -z "$c" ] && { echo "no commit for $pat"; exit 2; }
git -C /repo show $c | git -C /repo apply -R || exit 2
for id in "$@"; do echo "== $id with $c reverted"; /verif/check $id | grep -E "VIOLATION|KNOWN|OK" | cut -c1-200; done
git -C /repo checkout -- .
git -C /repo status --short
